(** C08 proofs, round 4: the library reader's string / |symbol| arm (C08/SRead.v, lib/srfi/38.scm
    read-delimited + read-escape-sequence + read-number 16) reads back what sexp_write_one writes -
    and (scheme write) prints strings and symbols through the native writer, so these are the texts of
    both writers - and yields what the native reader yields. *)
From Coq Require Import ZArith List Bool Lia.
From ChibiV Require Import C08.Datum C08.CSem C08.Tables Gen.C08_Tables Gen.C08_Leaf C08.Write C08.Read C08.SRead C08.Proofs.
Import ListNotations.
Local Open Scope Z_scope.

Lemma sstr_step : forall b, byte b -> forall rest acc,
  sread_delim 34 LNorm (write_str_byte b ++ rest) acc = sread_delim 34 LNorm rest (b :: acc).
Proof.
  apply (bytes_forall (fun b => forall rest acc,
    sread_delim 34 LNorm (write_str_byte b ++ rest) acc = sread_delim 34 LNorm rest (b :: acc))).
  each_byte ltac:(intros; reflexivity).
Qed.

Lemma sstr_body : forall bs, bytes bs -> forall rest acc,
  sread_delim 34 LNorm (flat_map write_str_byte bs ++ 34 :: rest) acc = SOk (rev acc ++ bs) rest.
Proof.
  induction bs as [|b bs IH]; intros Hb rest acc.
  - cbn [flat_map app]. cbn. rewrite app_nil_r. reflexivity.
  - inversion Hb as [|? ? Hb1 Hb2]; subst. cbn [flat_map]. rewrite <- app_assoc.
    rewrite sstr_step by assumption. rewrite IH by assumption. cbn [rev]. rewrite <- app_assoc. reflexivity.
Qed.

Lemma ssym_step : forall b, byte b -> forall rest acc,
  sread_delim 124 LNorm (write_sym_byte b ++ rest) acc = sread_delim 124 LNorm rest (b :: acc).
Proof.
  apply (bytes_forall (fun b => forall rest acc,
    sread_delim 124 LNorm (write_sym_byte b ++ rest) acc = sread_delim 124 LNorm rest (b :: acc))).
  each_byte ltac:(intros; reflexivity).
Qed.

Lemma ssym_body : forall bs, bytes bs -> forall rest acc,
  sread_delim 124 LNorm (flat_map write_sym_byte bs ++ 124 :: rest) acc = SOk (rev acc ++ bs) rest.
Proof.
  induction bs as [|b bs IH]; intros Hb rest acc.
  - cbn [flat_map app]. cbn. rewrite app_nil_r. reflexivity.
  - inversion Hb as [|? ? Hb1 Hb2]; subst. cbn [flat_map]. rewrite <- app_assoc.
    rewrite ssym_step by assumption. rewrite IH by assumption. cbn [rev]. rewrite <- app_assoc. reflexivity.
Qed.

Theorem scheme_read_string_ok : forall bs rest, bytes bs ->
  sread_quoted (write_string bs ++ rest) = Ok (TDatum (Str bs)) rest.
Proof.
  intros bs rest Hb. unfold write_string. cbn [app sread_quoted]. rewrite <- app_assoc. cbn [app].
  rewrite sstr_body by assumption. reflexivity.
Qed.

Theorem scheme_read_barsym_ok : forall bs rest, bytes bs -> sym_needs_bars bs = true ->
  sread_quoted (write_symbol bs ++ rest) = Ok (TDatum (Sym bs)) rest.
Proof.
  intros bs rest Hb Hq. unfold write_symbol. rewrite Hq. cbn [app sread_quoted]. rewrite <- app_assoc. cbn [app].
  rewrite ssym_body by assumption. reflexivity.
Qed.

(** both readers, same texts, same data *)
Theorem readers_agree_quoted_ok : forall dec2flo f bs rest, bytes bs ->
  (sread_quoted (write_string bs ++ rest) = Ok (TDatum (Str bs)) rest /\
   read_raw dec2flo (S f) (write_string bs ++ rest) = Ok (TDatum (Str bs)) rest) /\
  (sym_needs_bars bs = true -> at_delim rest = true ->
   sread_quoted (write_symbol bs ++ rest) = Ok (TDatum (Sym bs)) rest /\
   read_raw dec2flo (S f) (write_symbol bs ++ rest) = Ok (TDatum (Sym bs)) rest).
Proof.
  intros d f bs rest Hb. split; [split|intros Hq Hd; split].
  - apply scheme_read_string_ok, Hb.
  - apply string_roundtrip_ok, Hb.
  - apply scheme_read_barsym_ok; assumption.
  - apply symbol_roundtrip_ok; assumption.
Qed.

(** the string with bytes a 7 backslash b dquote; the symbol x, space, y, bar; and a hex escape of U+03BB no writer emits *)
Example readers_agree_quoted_example :
  sread_quoted (write_string [97; 7; 92; 98; 34] ++ [41]) = Ok (TDatum (Str [97; 7; 92; 98; 34])) [41] /\
  write_string [97; 7; 92; 98; 34] = [34; 97; 92; 97; 92; 92; 98; 92; 34; 34] /\
  sym_needs_bars [120; 32; 121; 124] = true /\
  sread_quoted (write_symbol [120; 32; 121; 124] ++ [32]) = Ok (TDatum (Sym [120; 32; 121; 124])) [32] /\
  sread_quoted [34; 92; 120; 51; 66; 98; 59; 34] = Ok (TDatum (Str [206; 187])) [].
Proof. repeat split; vm_compute; reflexivity. Qed.
