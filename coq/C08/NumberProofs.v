(** C08 proofs, part 3: ratios and exact complex numbers at token level (model: C08/Numbers.v),
    composed from the integer lemmas of C08/Proofs.v. *)
From Coq Require Import ZArith List Bool Lia.
From ChibiV Require Import C08.Datum C08.CSem C08.Tables Gen.C08_Tables Gen.C08_Leaf C08.Write C08.Read C08.Proofs C08.Numbers.
Import ListNotations.
Local Open Scope Z_scope.
Ltac Zify.zify_post_hook ::= Z.div_mod_to_equations.

(** ** sexp_ratio_normalize: the Euclid loop returns +-gcd within [gcd_fuel] *)
Lemma gcd_loop_inv : forall k a b, Z.abs b < Z.abs a -> Z.abs a * Z.abs b < 2 ^ Z.of_nat k ->
  exists g, gcd_loop (S k) a b = Some g /\ Z.abs g = Z.gcd a b.
Proof.
  induction k as [|k IH]; intros a b Hlt Hprod.
  - change (2 ^ Z.of_nat 0) with 1 in Hprod.
    assert (Hb : b = 0) by nia. subst b. exists a. cbn [gcd_loop Z.eqb]. split; [reflexivity|].
    symmetry. apply Z.gcd_0_r.
  - cbn [gcd_loop]. destruct (Z.eqb_spec b 0) as [Hb|Hb].
    + subst b. exists a. split; [reflexivity|]. symmetry. apply Z.gcd_0_r.
    + pose proof (Z.rem_bound_abs a b Hb) as Hr.
      destruct (IH b (Z.rem a b) Hr) as (g & Eg & Hg).
      * rewrite Nat2Z.inj_succ, Z.pow_succ_r in Hprod by lia.
        rewrite <- (Z.rem_abs a b Hb) in *.
        assert (HB : 0 < Z.abs b) by lia.
        rewrite Z.rem_mod_nonneg in * by lia.
        pose proof (Z.div_mod (Z.abs a) (Z.abs b) ltac:(lia)) as Hdm.
        pose proof (Z.mod_pos_bound (Z.abs a) (Z.abs b) HB) as Hmb.
        assert (Hq : 1 <= Z.abs a / Z.abs b) by (apply Z.div_le_lower_bound; lia).
        set (A := Z.abs a) in *. set (B := Z.abs b) in *. set (R := A mod B) in *. set (Q := A / B) in *.
        assert (2 * (B * R) < 2 * 2 ^ Z.of_nat k); [|lia].
        assert (B * (B + R) <= B * A) by nia. nia.
      * exists g. split; [exact Eg|]. rewrite Hg, Z.gcd_comm, Z.gcd_rem by exact Hb. apply Z.gcd_comm.
Qed.

Theorem gcd_loop_ok : forall a b, b <> 0 ->
  exists g, gcd_loop (gcd_fuel a b) a b = Some g /\ Z.abs g = Z.gcd a b.
Proof.
  intros a b Hb. unfold gcd_fuel.
  set (k := Z.to_nat (Z.log2_up (Z.abs a * Z.abs b + 1))).
  change (gcd_loop (S (S k)) a b) with (if b =? 0 then Some a else gcd_loop (S k) b (Z.rem a b)).
  destruct (Z.eqb_spec b 0) as [|_]; [contradiction|].
  pose proof (Z.rem_bound_abs a b Hb) as Hr.
  destruct (gcd_loop_inv k b (Z.rem a b) Hr) as (g & Eg & Hg).
  - assert (Hle : Z.abs (Z.rem a b) <= Z.abs a).
    { rewrite <- (Z.rem_abs a b Hb). apply Z.rem_le; lia. }
    assert (Hp : Z.abs a * Z.abs b + 1 <= 2 ^ Z.of_nat k).
    { unfold k. rewrite Z2Nat.id by apply Z.log2_up_nonneg.
      apply Z.log2_up_le_pow2; [nia|lia]. }
    nia.
  - exists g. split; [exact Eg|]. rewrite Hg, Z.gcd_comm, Z.gcd_rem by exact Hb. apply Z.gcd_comm.
Qed.

Lemma ratio_normalize_lowest : forall n d, 1 < d -> Z.gcd n d = 1 ->
  ratio_normalize n (EInt d) = EOk (ERat n d).
Proof.
  intros n d Hd Hg.
  assert (Hn : n <> 0). { intros ->. rewrite Z.gcd_0_l in Hg. lia. }
  unfold ratio_normalize.
  destruct d as [|p|p]; try lia. 
  destruct (Z.eqb_spec n 0) as [|_]; [contradiction|].
  destruct (gcd_loop_ok n (Z.pos p) ltac:(lia)) as (g & -> & Hgg).
  rewrite Hg in Hgg. cbv zeta.
  assert (Hc : g = 1 \/ g = -1) by lia. destruct Hc as [-> | ->].
  - rewrite !Z.quot_1_r. destruct (Z.ltb_spec (Z.pos p) 0); [lia|].
    destruct (Z.eqb_spec (Z.pos p) 1); [lia|]. reflexivity.
  - change (-1) with (- (1)). rewrite !Z.quot_opp_r, !Z.quot_1_r by lia.
    destruct (Z.ltb_spec (- Z.pos p) 0); [|lia].
    destruct (Z.eqb_spec (- Z.pos p * - (1)) 1); [lia|]. f_equal. f_equal; lia.
Qed.

(** general form: the result is THE lowest-terms representation with a positive denominator *)
Theorem ratio_normalize_spec : forall n d, n <> 0 -> d <> 0 -> exists n' d',
  ratio_normalize n (EInt d) = EOk (if d' =? 1 then EInt n' else ERat n' d') /\
  0 < d' /\ Z.gcd n' d' = 1 /\ n * d' = n' * d.
Proof.
  intros n d Hn Hd. unfold ratio_normalize.
  destruct d as [|p|p] eqn:Ed; [congruence| |]; rewrite <- Ed in *;
  (destruct (Z.eqb_spec n 0) as [|_]; [contradiction|]);
  destruct (gcd_loop_ok n d Hd) as (g0 & -> & Hg0); cbv zeta;
  set (g := Z.gcd n d) in *;
  assert (Hgpos : 0 < g) by (pose proof (Z.gcd_nonneg n d); assert (g <> 0) by (unfold g; intros X; apply Z.gcd_eq_0_r in X; contradiction); lia);
  destruct (Z.gcd_divide_l n d) as [a Ha]; destruct (Z.gcd_divide_r n d) as [b Hb]; fold g in Ha, Hb;
  assert (Hab : Z.gcd a b = 1) by
    (pose proof (Z.gcd_div_gcd n d g ltac:(lia) eq_refl) as X;
     rewrite Ha in X at 1; rewrite Hb in X at 1; rewrite !Z.div_mul in X by lia; exact X);
  assert (Hb0 : b <> 0) by (intros ->; lia);
  assert (Hc : g0 = g \/ g0 = - g) by lia;
  assert (Q1 : Z.quot d g = b) by (rewrite Hb; apply Z.quot_mul; lia);
  assert (Q2 : Z.quot n g = a) by (rewrite Ha; apply Z.quot_mul; lia);
  (destruct Hc as [-> | ->]; [|rewrite !Z.quot_opp_r by lia]; rewrite Q1, Q2).
  all: match goal with |- context [if ?x <? 0 then _ else _] => destruct (Z.ltb_spec x 0) end.
  all: match goal with |- exists n' d', (if ?D =? 1 then EOk (EInt ?N) else _) = _ /\ _ =>
         exists N, D; split; [destruct (D =? 1); reflexivity|] end.
  all: repeat split; try lia.
  all: try (rewrite ?Z.mul_opp_l, ?Z.mul_1_r, ?Z.gcd_opp_l, ?Z.gcd_opp_r, ?Z.opp_involutive; assumption).
  all: try nia.
  all: match goal with |- Z.gcd ?x ?y = 1 =>
         first [replace x with a by lia | replace x with (- a) by lia];
         first [replace y with b by lia | replace y with (- b) by lia] end;
       rewrite ?Z.gcd_opp_l, ?Z.gcd_opp_r; assumption.
Qed.

(** ** controlled unfolding of read_number *)
Definition slash_arm (sval : Z) (r : nres) : nres :=
  match r with
  | NErr e => NErr e
  | NOk (XReal (EInt d)) rest =>
      match ratio_normalize sval (EInt d) with
      | EOk r => NOk (XReal r) rest
      | EErr e => NErr e
      end
  | NOk (XReal (ERat _ _)) _ => NErr ReadErr
  | NOk (XCpx re im) rest =>
      match re with
      | EInt 0 =>
          match ratio_normalize sval im with
          | EOk r => NOk (XCpx re r) rest
          | EErr e => NErr e
          end
      | _ =>
          match ratio_normalize sval re with
          | EOk r => NOk (XCpx r im) rest
          | EErr e => NErr e
          end
      end
  end.

Definition rn_body (rd : list Z -> nres) (sval : Z) (got : bool) (s1 : list Z) : nres :=
  match s1 with
  | [] => if got then NOk (XReal (EInt sval)) [] else NErr ReadErr
  | c :: s2 =>
      if c =? 35 then NErr Unmodelled
      else if (c =? 46) || is_prec c then NErr Unmodelled
      else if c =? 47 then slash_arm sval (rd s2)
      else if is_i c || (c =? 43) || (c =? 45) || (c =? 64) then
        if c =? 64 then NErr Unmodelled
        else complex_tail rd s1 sval
      else if negb (is_separator c) then NErr ReadErr
      else if negb got then NErr ReadErr
      else NOk (XReal (EInt sval)) s1
  end.

Lemma read_number_unfold : forall f s,
  read_number (S f) s =
  if (match s with c :: _ => c =? 35 | [] => false end) then NErr Unmodelled
  else
    let negativep := match s with c :: _ => c =? 45 | [] => false end in
    let s0 := match s with c :: t => if (c =? 45) || (c =? 43) then t else s | [] => s end in
    let init := if (match s0 with c :: _ => is_i c | [] => false end) then 1 else 0 in
    let '(val, got, s1) := read_digits 10 s0 init false in
    rn_body (read_number f) (if negativep then - val else val) got s1.
Proof. intros f s. reflexivity. Qed.

Definition nondigit_head (s : list Z) : bool :=
  match s with
  | [] => true
  | c :: _ => negb (isxdigit c && (0 <=? digit_value c) && (digit_value c <? 10))
  end.

Lemma read_digits_stop : forall ds rest v got, Forall digit ds -> nondigit_head rest = true ->
  read_digits 10 (ds ++ rest) v got = (fold_left dstep ds v, got || negb (Nat.eqb (length ds) 0), rest).
Proof.
  induction ds as [|d ds IH]; intros rest v got Hd Hr.
  - cbn [app fold_left length Nat.eqb negb]. rewrite orb_false_r. destruct rest as [|c r]; [reflexivity|].
    cbn [nondigit_head] in Hr. apply negb_true_iff in Hr. cbn [read_digits]. rewrite Hr. reflexivity.
  - inversion Hd as [|? ? Hd1 Hd2]; subst. cbn [app fold_left length Nat.eqb negb].
    rewrite orb_true_r. cbn [read_digits].
    replace (isxdigit d && (0 <=? digit_value d) && (digit_value d <? 10)) with true
      by (digit_split Hd1; reflexivity).
    rewrite IH by assumption. rewrite orb_true_l. reflexivity.
Qed.

Definition pre (neg : bool) : list Z := if neg then [45] else [].
Definition sgn (neg : bool) (v : Z) : Z := if neg then - v else v.
Definition dval (ds : list Z) : Z := fold_left dstep ds 0.

Lemma digit_facts : forall d, digit d ->
  (d =? 35) = false /\ (d =? 45) = false /\ (d =? 43) = false /\ is_i d = false /\ isdigit d = true.
Proof. intros d H. digit_split H; repeat split; reflexivity. Qed.

Lemma rn_prefix : forall f neg ds tail, ds <> [] -> Forall digit ds -> nondigit_head tail = true ->
  read_number (S f) (pre neg ++ ds ++ tail) = rn_body (read_number f) (sgn neg (dval ds)) true tail.
Proof.
  intros f neg ds tail Hne Hds Ht. rewrite read_number_unfold.
  destruct ds as [|d0 ds]; [congruence|]. pose proof (Forall_inv Hds) as Hd0.
  destruct (digit_facts d0 Hd0) as (E35 & E45 & E43 & Ei & _).
  destruct neg; cbn [pre app sgn].
  - change (45 =? 35) with false. change (45 =? 45) with true. cbn [orb]. cbv zeta. rewrite Ei.
    change (d0 :: ds ++ tail) with ((d0 :: ds) ++ tail).
    rewrite read_digits_stop by assumption. reflexivity.
  - rewrite E35, E45, E43. cbn [orb]. cbv zeta. rewrite Ei.
    change (d0 :: ds ++ tail) with ((d0 :: ds) ++ tail).
    rewrite read_digits_stop by assumption. reflexivity.
Qed.

(** rn_body on the tails the writer produces *)
Lemma rn_body_delim : forall rd v rest, at_delim rest = true ->
  rn_body rd v true rest = NOk (XReal (EInt v)) rest.
Proof.
  intros rd v [|c r] Hr; [reflexivity|]. cbn [at_delim] in Hr.
  sf T1 c (fun b => negb (b =? 35)). sf T2 c (fun b => negb ((b =? 46) || is_prec b)).
  sf T3 c (fun b => negb (b =? 47)). sf T4 c (fun b => negb (is_i b || (b =? 43) || (b =? 45) || (b =? 64))).
  cbn [rn_body]. rewrite T1, T2, T3, T4, Hr. reflexivity.
Qed.

Lemma rn_body_slash : forall rd v got s2, rn_body rd v got (47 :: s2) = slash_arm v (rd s2).
Proof. reflexivity. Qed.

Lemma rn_body_tail : forall rd v got c s2, c = 105 \/ c = 43 \/ c = 45 ->
  rn_body rd v got (c :: s2) = complex_tail rd (c :: s2) v.
Proof. intros rd v got c s2 [->|[->| ->]]; reflexivity. Qed.

Lemma at_delim_nondigit : forall rest, at_delim rest = true -> nondigit_head rest = true.
Proof.
  intros [|c r] H; [reflexivity|]. cbn [at_delim] in H. sf T c (fun b => negb (isxdigit b)).
  cbn [nondigit_head]. rewrite T. reflexivity.
Qed.

(** trailing_i and complex_tail *)
Lemma cnorm_nz : forall re im, im <> EInt 0 -> complex_normalize (XCpx re im) = XCpx re im.
Proof. intros re [[|p|p]|n d] H; try reflexivity. congruence. Qed.

Lemma trailing_i_delim : forall rest dr v, at_delim rest = true -> v <> 0 ->
  trailing_i rest dr v = NOk (XCpx (EInt dr) (EInt v)) rest.
Proof.
  intros [|c r] dr v Hr Hv; unfold trailing_i.
  - rewrite cnorm_nz by congruence. reflexivity.
  - cbn [at_delim] in Hr. sf T1 c (fun b => negb ((b =? 110) || (b =? 78))).
    rewrite T1, Hr. cbn [negb]. rewrite cnorm_nz by congruence. reflexivity.
Qed.

Definition imag_arm (real : Z) (r : nres) : nres :=
  match r with
  | NOk (XCpx re im) rest =>
      match re with
      | EInt 0 => NOk (complex_normalize (XCpx (EInt real) im)) rest
      | _ => NErr ReadErr
      end
  | NOk (XReal (EInt 0)) rest => NOk (complex_normalize (XCpx (EInt real) (EInt 0))) rest
  | NOk (XReal _) _ => NErr ReadErr
  | NErr e => NErr e
  end.

Lemma complex_tail_i : forall rd rest v, complex_tail rd (105 :: rest) v = trailing_i rest 0 v.
Proof. reflexivity. Qed.

Lemma complex_tail_plus_i : forall rd rest v, complex_tail rd (43 :: 105 :: rest) v = trailing_i rest v 1.
Proof. reflexivity. Qed.

Lemma complex_tail_minus_i : forall rd rest v, complex_tail rd (45 :: 105 :: rest) v = trailing_i rest v (-1).
Proof. reflexivity. Qed.

Lemma complex_tail_plus_digit : forall rd d0 s v, digit d0 ->
  complex_tail rd (43 :: d0 :: s) v = imag_arm v (rd (d0 :: s)).
Proof.
  intros rd d0 s v Hd. destruct (digit_facts d0 Hd) as (_ & _ & _ & Ei & _).
  unfold complex_tail. change (is_i 43) with false. cbv iota. rewrite Ei. reflexivity.
Qed.

Lemma complex_tail_minus_digit : forall rd d0 s v, digit d0 ->
  complex_tail rd (45 :: d0 :: s) v = imag_arm v (rd (45 :: d0 :: s)).
Proof.
  intros rd d0 s v Hd. destruct (digit_facts d0 Hd) as (_ & _ & _ & Ei & _).
  unfold complex_tail. change (is_i 45) with false. cbv iota. rewrite Ei. reflexivity.
Qed.

(** ** the writer's texts *)
Definition wf_enum (r : enum) : Prop :=
  match r with EInt _ => True | ERat n d => 1 < d /\ Z.gcd n d = 1 end.

Lemma write_int_pre : forall z, exists ds,
  write_int z = pre (z <? 0) ++ ds /\ ds <> [] /\ Forall digit ds /\ dval ds = Z.abs z.
Proof.
  intros z. unfold write_int. destruct (Z.ltb_spec z 0) as [Hneg|Hpos].
  - destruct (write_nat_spec (- z) ltac:(lia)) as (ds & E & Hne & Hall & Hval).
    exists ds. rewrite E. repeat split; try assumption. unfold dval. lia.
  - destruct (write_nat_spec z ltac:(lia)) as (ds & E & Hne & Hall & Hval).
    exists ds. rewrite E. repeat split; try assumption. unfold dval. lia.
Qed.

Lemma sgn_abs : forall z, sgn (z <? 0) (Z.abs z) = z.
Proof. intros z. unfold sgn. destruct (Z.ltb_spec z 0); lia. Qed.

(** ** sexp_read_number on the writer's texts *)
Lemma rn_int : forall f neg ds rest, ds <> [] -> Forall digit ds -> at_delim rest = true ->
  read_number (S f) (pre neg ++ ds ++ rest) = NOk (XReal (EInt (sgn neg (dval ds)))) rest.
Proof.
  intros f neg ds rest Hne Hds Hr.
  rewrite rn_prefix by (try assumption; apply at_delim_nondigit, Hr).
  apply rn_body_delim, Hr.
Qed.

Lemma rn_int_i : forall f neg ds rest, ds <> [] -> Forall digit ds -> dval ds <> 0 -> at_delim rest = true ->
  read_number (S f) (pre neg ++ ds ++ 105 :: rest) = NOk (XCpx (EInt 0) (EInt (sgn neg (dval ds)))) rest.
Proof.
  intros f neg ds rest Hne Hds Hv Hr.
  rewrite rn_prefix by (try assumption; reflexivity).
  rewrite rn_body_tail by auto. rewrite complex_tail_i.
  apply trailing_i_delim; [assumption|]. unfold sgn. destruct neg; lia.
Qed.

Lemma gcd_sgn : forall neg v d, Z.gcd (sgn neg v) d = Z.gcd v d.
Proof. intros [|] v d; [apply Z.gcd_opp_l|reflexivity]. Qed.

Lemma write_pos_digits : forall d, 0 <= d -> exists ds,
  write_int d = ds /\ ds <> [] /\ Forall digit ds /\ dval ds = d.
Proof.
  intros d Hd. destruct (write_int_pre d) as (ds & E & Hne & Hall & Hval).
  exists ds. destruct (Z.ltb_spec d 0); [lia|]. repeat split; try assumption. lia.
Qed.

Lemma rn_rat : forall f neg ds d rest, ds <> [] -> Forall digit ds ->
  1 < d -> Z.gcd (dval ds) d = 1 -> at_delim rest = true ->
  read_number (S (S f)) (pre neg ++ ds ++ 47 :: write_int d ++ rest) =
  NOk (XReal (ERat (sgn neg (dval ds)) d)) rest.
Proof.
  intros f neg ds d rest Hne Hds Hd Hg Hr.
  rewrite rn_prefix by (try assumption; reflexivity). rewrite rn_body_slash.
  destruct (write_pos_digits d ltac:(lia)) as (dd & -> & Hdne & Hdd & Hdv).
  pose proof (rn_int f false dd rest Hdne Hdd Hr) as E. cbn [pre app sgn] in E. rewrite E. rewrite Hdv.
  cbn [slash_arm]. rewrite ratio_normalize_lowest by (try assumption; rewrite gcd_sgn; assumption).
  reflexivity.
Qed.

Lemma rn_rat_i : forall f neg ds d rest, ds <> [] -> Forall digit ds ->
  1 < d -> Z.gcd (dval ds) d = 1 -> at_delim rest = true ->
  read_number (S (S f)) (pre neg ++ ds ++ 47 :: write_int d ++ 105 :: rest) =
  NOk (XCpx (EInt 0) (ERat (sgn neg (dval ds)) d)) rest.
Proof.
  intros f neg ds d rest Hne Hds Hd Hg Hr.
  rewrite rn_prefix by (try assumption; reflexivity). rewrite rn_body_slash.
  destruct (write_pos_digits d ltac:(lia)) as (dd & -> & Hdne & Hdd & Hdv).
  pose proof (rn_int_i f false dd rest Hdne Hdd ltac:(lia) Hr) as E. cbn [pre app sgn] in E. rewrite E. rewrite Hdv.
  cbn [slash_arm]. rewrite ratio_normalize_lowest by (try assumption; rewrite gcd_sgn; assumption).
  reflexivity.
Qed.

(** ** the '+' / '-' and digit arms of sexp_read_raw *)
Lemma token_pre : forall f neg ds tail, ds <> [] -> Forall digit ds ->
  read_num_token f (pre neg ++ ds ++ tail) =
  if neg then negate_num (read_number f (ds ++ tail)) else read_number f (ds ++ tail).
Proof.
  intros f neg ds tail Hne Hds. destruct ds as [|d0 ds]; [congruence|].
  destruct (digit_facts d0 (Forall_inv Hds)) as (_ & E45 & E43 & _ & Edig).
  destruct neg; cbn [pre app read_num_token].
  - change ((45 =? 43) || (45 =? 45)) with true. cbv iota. rewrite Edig, orb_true_r. reflexivity.
  - rewrite E43, E45, Edig. reflexivity.
Qed.

Lemma fuel_ge2 : forall f, (2 <= f)%nat -> exists f', f = S (S f').
Proof. intros [|[|f]] H; try lia. eauto. Qed.

Theorem ratio_roundtrip_ok : forall f n d rest,
  1 < d -> Z.gcd n d = 1 -> at_delim rest = true -> (2 <= f)%nat ->
  read_num_token f (write_xnum (XReal (ERat n d)) ++ rest) = NOk (XReal (ERat n d)) rest.
Proof.
  intros f n d rest Hd Hg Hr Hf. destruct (fuel_ge2 f Hf) as (f' & ->).
  cbn [write_xnum write_enum].
  destruct (write_int_pre n) as (ds & -> & Hne & Hds & Hv).
  rewrite <- !app_assoc. cbn [app].
  rewrite token_pre by assumption.
  assert (Hg' : Z.gcd (dval ds) d = 1) by (rewrite Hv, Z.gcd_abs_l; assumption).
  pose proof (rn_rat f' false ds d rest Hne Hds Hd Hg' Hr) as E. cbn [pre app sgn] in E.
  rewrite E, Hv. destruct (Z.ltb_spec n 0) as [Hn|Hn]; cbn [negate_num neg_enum];
    repeat f_equal; lia.
Qed.

(** ** complex numbers *)
Definition imtext (im : enum) : list Z :=
  (if enum_negativep im then [] else [43]) ++ write_imag im ++ [105].

Lemma write_imag_other : forall im, im <> EInt 1 -> im <> EInt (-1) -> write_imag im = write_enum im.
Proof.
  intros [z|n d] H1 H2; [|reflexivity].
  destruct z as [|p|p]; try reflexivity; destruct p; try reflexivity; congruence.
Qed.

(** sexp_read_number on the text of a non-zero exact real followed by "i" *)
Lemma rn_imag : forall f im rest, wf_enum im -> im <> EInt 0 -> at_delim rest = true ->
  read_number (S (S f)) (write_enum im ++ 105 :: rest) = NOk (XCpx (EInt 0) im) rest.
Proof.
  intros f [z|n d] rest Hwf Hnz Hr; cbn [write_enum].
  - destruct (write_int_pre z) as (ds & -> & Hne & Hds & Hv). rewrite <- app_assoc.
    rewrite rn_int_i by (try assumption; rewrite Hv; intros E; apply Hnz; f_equal; lia).
    rewrite Hv, sgn_abs. reflexivity.
  - destruct Hwf as [Hd Hg].
    destruct (write_int_pre n) as (ds & -> & Hne & Hds & Hv).
    rewrite <- !app_assoc. cbn [app].
    rewrite rn_rat_i by (try assumption; rewrite Hv, Z.gcd_abs_l; assumption).
    rewrite Hv, sgn_abs. reflexivity.
Qed.

Lemma write_enum_head : forall r, exists ds t,
  write_enum r = pre (enum_negativep r) ++ ds ++ t /\ ds <> [] /\ Forall digit ds.
Proof.
  intros [z|n d]; cbn [write_enum enum_negativep].
  - destruct (write_int_pre z) as (ds & -> & Hne & Hds & _). exists ds, []. rewrite app_nil_r. auto.
  - destruct (write_int_pre n) as (ds & -> & Hne & Hds & _). exists ds, (47 :: write_int d).
    rewrite <- app_assoc. auto.
Qed.

Lemma im_cases : forall im, im = EInt 1 \/ im = EInt (-1) \/ (im <> EInt 1 /\ im <> EInt (-1)).
Proof.
  intros [z|n d]; [|right; right; split; congruence].
  destruct (Z.eq_dec z 1); [left; congruence|].
  destruct (Z.eq_dec z (-1)); [right; left; congruence|]. right; right; split; congruence.
Qed.

(** sexp_read_complex_tail on the text the writer puts after the real part *)
Lemma tail_ok : forall f im rest v, wf_enum im -> im <> EInt 0 -> at_delim rest = true ->
  complex_tail (read_number (S (S f))) (imtext im ++ rest) v = NOk (XCpx (EInt v) im) rest.
Proof.
  intros f im rest v Hwf Hnz Hr. unfold imtext.
  destruct (im_cases im) as [->|[->|[H1 H2]]].
  - cbn [enum_negativep write_imag app]. change (1 <? 0) with false. cbn [app].
    rewrite complex_tail_plus_i. apply trailing_i_delim; [assumption|lia].
  - cbn [enum_negativep write_imag app]. change (-1 <? 0) with true. cbn [app].
    rewrite complex_tail_minus_i. apply trailing_i_delim; [assumption|lia].
  - rewrite write_imag_other by assumption. rewrite <- !app_assoc. cbn [app].
    pose proof (rn_imag f im rest Hwf Hnz Hr) as Erd.
    destruct (write_enum_head im) as (ds & t & E & Hne & Hds).
    destruct ds as [|d0 ds]; [congruence|]. pose proof (Forall_inv Hds) as Hd0.
    rewrite E in *. destruct (enum_negativep im); cbn [pre app] in *.
    + rewrite complex_tail_minus_digit by assumption. rewrite Erd. cbn [imag_arm].
      rewrite cnorm_nz by assumption. reflexivity.
    + rewrite complex_tail_plus_digit by assumption. rewrite Erd. cbn [imag_arm].
      rewrite cnorm_nz by assumption. reflexivity.
Qed.

Lemma imtext_head : forall im rest, exists c t, imtext im ++ rest = c :: t /\ (c = 105 \/ c = 43 \/ c = 45).
Proof.
  intros im rest. unfold imtext. destruct (enum_negativep im) eqn:En.
  - destruct (im_cases im) as [->|[->|[H1 H2]]].
    + discriminate.
    + cbn. eauto 6.
    + rewrite write_imag_other by assumption.
      destruct (write_enum_head im) as (ds & t & E & _). rewrite E, En. cbn [pre app]. eauto 6.
  - cbn [app]. eauto 6.
Qed.

Lemma rn_cpx_int : forall f neg ds im rest, ds <> [] -> Forall digit ds ->
  wf_enum im -> im <> EInt 0 -> at_delim rest = true ->
  read_number (S (S (S f))) (pre neg ++ ds ++ imtext im ++ rest) =
  NOk (XCpx (EInt (sgn neg (dval ds))) im) rest.
Proof.
  intros f neg ds im rest Hne Hds Hwf Hnz Hr.
  pose proof (tail_ok f im rest (sgn neg (dval ds)) Hwf Hnz Hr) as Et.
  destruct (imtext_head im rest) as (c & t & E & Hc). rewrite E in *.
  rewrite rn_prefix by (try assumption; destruct Hc as [->|[->| ->]]; reflexivity).
  rewrite rn_body_tail by assumption. exact Et.
Qed.

Lemma rn_cpx_rat : forall f neg ds d im rest, ds <> [] -> Forall digit ds ->
  1 < d -> Z.gcd (dval ds) d = 1 -> wf_enum im -> im <> EInt 0 -> at_delim rest = true ->
  read_number (S (S (S (S f)))) (pre neg ++ ds ++ 47 :: write_int d ++ imtext im ++ rest) =
  NOk (XCpx (ERat (sgn neg (dval ds)) d) im) rest.
Proof.
  intros f neg ds d im rest Hne Hds Hd Hg Hwf Hnz Hr.
  rewrite rn_prefix by (try assumption; reflexivity). rewrite rn_body_slash.
  destruct (write_pos_digits d ltac:(lia)) as (dd & -> & Hdne & Hdd & Hdv).
  pose proof (rn_cpx_int f false dd im rest Hdne Hdd Hwf Hnz Hr) as E. cbn [pre app sgn] in E.
  rewrite E, Hdv. destruct d as [|p|p]; try lia. cbn [slash_arm].
  rewrite ratio_normalize_lowest by (try assumption; rewrite gcd_sgn; assumption).
  reflexivity.
Qed.

Lemma negate_cpx : forall re im rest, re <> EInt 0 ->
  negate_num (NOk (XCpx re im) rest) = NOk (XCpx (neg_enum re) im) rest.
Proof. intros [[|p|p]|n d] im rest H; try reflexivity. congruence. Qed.

Lemma fuel_ge4 : forall f, (4 <= f)%nat -> exists f', f = S (S (S (S f'))).
Proof. intros [|[|[|[|f]]]] H; try lia. eauto. Qed.

Theorem complex_roundtrip_ok : forall f re im rest,
  wf_enum re -> wf_enum im -> im <> EInt 0 -> at_delim rest = true -> (4 <= f)%nat ->
  read_num_token f (write_xnum (XCpx re im) ++ rest) = NOk (XCpx re im) rest.
Proof.
  intros f re im rest Hre Him Hnz Hr Hf. destruct (fuel_ge4 f Hf) as (f' & ->).
  cbn [write_xnum]. fold (imtext im).
  destruct re as [z|n d]; cbn [write_enum].
  - destruct (write_int_pre z) as (ds & -> & Hne & Hds & Hv).
    rewrite <- !app_assoc. rewrite token_pre by assumption.
    pose proof (rn_cpx_int (S f') false ds im rest Hne Hds Him Hnz Hr) as E. cbn [pre app sgn] in E.
    rewrite E, Hv. destruct (Z.ltb_spec z 0) as [Hz|Hz].
    + rewrite negate_cpx by (intros X; injection X; lia). cbn [neg_enum]. repeat f_equal; lia.
    + repeat f_equal; lia.
  - destruct Hre as [Hd Hg].
    destruct (write_int_pre n) as (ds & -> & Hne & Hds & Hv).
    rewrite <- !app_assoc. cbn [app]. repeat rewrite <- app_assoc. rewrite token_pre by assumption.
    assert (Hg' : Z.gcd (dval ds) d = 1) by (rewrite Hv, Z.gcd_abs_l; assumption).
    pose proof (rn_cpx_rat f' false ds d im rest Hne Hds Hd Hg' Him Hnz Hr) as E. cbn [pre app sgn] in E.
    rewrite E, Hv. destruct (Z.ltb_spec n 0) as [Hz|Hz].
    + rewrite negate_cpx by congruence. cbn [neg_enum]. repeat f_equal; lia.
    + repeat f_equal; lia.
Qed.

(** ** integers through the same entry point, and the whole family *)
Theorem int_token_roundtrip_ok : forall f z rest, at_delim rest = true -> (1 <= f)%nat ->
  read_num_token f (write_xnum (XReal (EInt z)) ++ rest) = NOk (XReal (EInt z)) rest.
Proof.
  intros f z rest Hr Hf. destruct f as [|f]; [lia|]. cbn [write_xnum write_enum].
  destruct (write_int_pre z) as (ds & -> & Hne & Hds & Hv).
  rewrite <- app_assoc, token_pre by assumption.
  pose proof (rn_int f false ds rest Hne Hds Hr) as E. cbn [pre app sgn] in E. rewrite E, Hv.
  destruct (Z.ltb_spec z 0); cbn [negate_num neg_enum]; repeat f_equal; lia.
Qed.

(** the number objects the reader can build from exact parts: ratios in lowest terms with a
    denominator > 1 (sexp_ratio_normalize), complex numbers with a non-zero imaginary part
    (sexp_complex_normalize) *)
Definition wf_xnum (x : xnum) : Prop :=
  match x with
  | XReal r => wf_enum r
  | XCpx re im => wf_enum re /\ wf_enum im /\ im <> EInt 0
  end.

Theorem xnum_roundtrip_ok : forall f x rest, wf_xnum x -> at_delim rest = true -> (4 <= f)%nat ->
  read_num_token f (write_xnum x ++ rest) = NOk x rest.
Proof.
  intros f [[z|n d]|re im] rest Hwf Hr Hf.
  - apply int_token_roundtrip_ok; [assumption|lia].
  - destruct Hwf as [Hd Hg]. apply ratio_roundtrip_ok; try assumption. lia.
  - destruct Hwf as (H1 & H2 & H3). apply complex_roundtrip_ok; assumption.
Qed.

(** ** spellings the writer does not use but the reader accepts: "+i" "-i" "+bi" "-bi" *)
Theorem unit_imag_read_ok : forall f rest, at_delim rest = true ->
  read_num_token f ([43; 105] ++ rest) = NOk (XCpx (EInt 0) (EInt 1)) rest /\
  read_num_token f ([45; 105] ++ rest) = NOk (XCpx (EInt 0) (EInt (-1))) rest.
Proof.
  intros f rest Hr. cbn [app read_num_token]. change (isdigit 105) with false.
  cbn [Z.eqb Pos.eqb orb andb]. unfold sign_symbol. cbn [read_symbol_loop].
  change (105 =? 92) with false. change (is_separator 105) with false. cbv iota.
  rewrite !rsl_delim by assumption. split; reflexivity.
Qed.

Lemma token_plus : forall f ds tail, ds <> [] -> Forall digit ds ->
  read_num_token f (43 :: ds ++ tail) = read_number f (ds ++ tail).
Proof.
  intros f ds tail Hne Hds. destruct ds as [|d0 ds]; [congruence|].
  destruct (digit_facts d0 (Forall_inv Hds)) as (_ & _ & _ & _ & Edig).
  cbn [app read_num_token]. change ((43 =? 43) || (43 =? 45)) with true. cbv iota.
  rewrite Edig, orb_true_r. reflexivity.
Qed.

Theorem pure_imag_short_read_ok : forall f im rest,
  wf_enum im -> im <> EInt 0 -> at_delim rest = true -> (2 <= f)%nat ->
  read_num_token f ((if enum_negativep im then [] else [43]) ++ write_enum im ++ 105 :: rest) =
  NOk (XCpx (EInt 0) im) rest.
Proof.
  intros f im rest Hwf Hnz Hr Hf. destruct (fuel_ge2 f Hf) as (f' & ->).
  destruct im as [z|n d]; cbn [enum_negativep write_enum].
  - destruct (write_int_pre z) as (ds & -> & Hne & Hds & Hv).
    assert (Hv0 : dval ds <> 0) by (rewrite Hv; intros E; apply Hnz; f_equal; lia).
    pose proof (rn_int_i (S f') false ds rest Hne Hds Hv0 Hr) as E. cbn [pre app sgn] in E.
    destruct (Z.ltb_spec z 0) as [Hz|Hz]; cbn [app pre].
    + change (45 :: ds ++ 105 :: rest) with (pre true ++ ds ++ 105 :: rest).
      rewrite token_pre by assumption. rewrite E, Hv. cbn [negate_num neg_enum]. repeat f_equal; lia.
    + rewrite token_plus by assumption. rewrite E, Hv. repeat f_equal; lia.
  - destruct Hwf as [Hd Hg].
    destruct (write_int_pre n) as (ds & -> & Hne & Hds & Hv).
    assert (Hg' : Z.gcd (dval ds) d = 1) by (rewrite Hv, Z.gcd_abs_l; assumption).
    pose proof (rn_rat_i f' false ds d rest Hne Hds Hd Hg' Hr) as E. cbn [pre app sgn] in E.
    rewrite <- !app_assoc. cbn [app].
    destruct (Z.ltb_spec n 0) as [Hz|Hz]; cbn [app pre].
    + change (45 :: ds ++ 47 :: write_int d ++ 105 :: rest) with (pre true ++ ds ++ 47 :: write_int d ++ 105 :: rest).
      rewrite token_pre by assumption. rewrite E, Hv. cbn [negate_num neg_enum]. repeat f_equal; lia.
    + rewrite token_plus by assumption. rewrite E, Hv. repeat f_equal; lia.
Qed.

(** ** concrete instances (vm_compute on the model), next to the theorems *)
(* 1180591620717411303425/3 (bignum numerator 2^70+1), then ")" *)
Example ratio_roundtrip_example_big :
  read_num_token 2 (write_xnum (XReal (ERat (2 ^ 70 + 1) 3)) ++ [41]) = NOk (XReal (ERat (2 ^ 70 + 1) 3)) [41]
  /\ write_xnum (XReal (ERat 1180591620717411303425 3)) =
     [49;49;56;48;53;57;49;54;50;48;55;49;55;52;49;49;51;48;51;52;50;53;47;51].
Proof. split; vm_compute; reflexivity. Qed.

(* -4611686018427387904/3: the numerator is read as the bignum 2^62 and negated into the most
   negative fixnum (sexp_normalize_negated in C; the same Z here) *)
Example ratio_roundtrip_example_minfix :
  read_num_token 2 (write_xnum (XReal (ERat (-4611686018427387904) 3)) ++ [32; 49]) =
  NOk (XReal (ERat (-4611686018427387904) 3)) [32; 49].
Proof. vm_compute. reflexivity. Qed.

(* the reader reduces: 6/4 -> 3/2, 4/2 -> 2, 1/-2 -> -1/2, 0/5 -> 0, 1/0 -> error *)
Example ratio_reader_examples :
  read_num_token 2 [54;47;52] = NOk (XReal (ERat 3 2)) [] /\
  read_num_token 2 [52;47;50] = NOk (XReal (EInt 2)) [] /\
  read_num_token 2 [49;47;45;50] = NOk (XReal (ERat (-1) 2)) [] /\
  read_num_token 2 [48;47;53] = NOk (XReal (EInt 0)) [] /\
  read_num_token 2 [49;47;48] = NErr ReadErr /\
  read_num_token 1 [54;47;52] = NErr OutOfFuel.
Proof. repeat split; vm_compute; reflexivity. Qed.

(* texts of the writer: 0+i  0-i  0-3/4i  -5+i  1/2+3/4i  -1/2-3/4i  3-12i *)
Example complex_writer_examples :
  write_xnum (XCpx (EInt 0) (EInt 1)) = [48;43;105] /\
  write_xnum (XCpx (EInt 0) (EInt (-1))) = [48;45;105] /\
  write_xnum (XCpx (EInt 0) (ERat (-3) 4)) = [48;45;51;47;52;105] /\
  write_xnum (XCpx (EInt (-5)) (EInt 1)) = [45;53;43;105] /\
  write_xnum (XCpx (ERat 1 2) (ERat 3 4)) = [49;47;50;43;51;47;52;105] /\
  write_xnum (XCpx (ERat (-1) 2) (ERat (-3) 4)) = [45;49;47;50;45;51;47;52;105] /\
  write_xnum (XCpx (EInt 3) (EInt (-12))) = [51;45;49;50;105].
Proof. repeat split; vm_compute; reflexivity. Qed.

Definition enum_eqb (a b : enum) : bool :=
  match a, b with
  | EInt x, EInt y => x =? y
  | ERat n d, ERat n' d' => (n =? n') && (d =? d')
  | _, _ => false
  end.

Definition rt4 (x : xnum) : bool :=
  match x, read_num_token 4 (write_xnum x ++ [41]) with
  | XCpx re im, NOk (XCpx re' im') [41] => enum_eqb re re' && enum_eqb im im'
  | _, _ => false
  end.

Example complex_roundtrip_examples :
  forallb rt4
    [XCpx (EInt 0) (EInt 1); XCpx (EInt 0) (EInt (-1)); XCpx (EInt 0) (EInt 7); XCpx (EInt 0) (EInt (-7));
     XCpx (EInt 0) (ERat (-3) 4); XCpx (EInt 5) (EInt 1); XCpx (EInt 5) (EInt (-1));
     XCpx (EInt (-5)) (EInt 1); XCpx (EInt (-5)) (EInt (-1)); XCpx (EInt 3) (EInt (-12));
     XCpx (ERat 1 2) (ERat 3 4); XCpx (ERat (-1) 2) (ERat (-3) 4); XCpx (ERat (-1) 2) (EInt 1);
     XCpx (EInt (- 2 ^ 62)) (ERat (2 ^ 70 + 1) 3);
     XCpx (ERat (-4611686018427387904) 3) (EInt (- (2 ^ 64)));
     XCpx (ERat (2 ^ 70 + 1) 3) (ERat (- (2 ^ 70 + 1)) (2 ^ 65))] = true.
Proof. vm_compute. reflexivity. Qed.

Example complex_roundtrip_example_big :
  read_num_token 4 (write_xnum (XCpx (ERat (-4611686018427387904) 3) (ERat (2 ^ 70 + 1) 3)) ++ [41]) =
  NOk (XCpx (ERat (-4611686018427387904) 3) (ERat (2 ^ 70 + 1) 3)) [41].
Proof. vm_compute. reflexivity. Qed.

(* other decisions of sexp_read_complex_tail / sexp_read_number, as modelled:
   "+i" "-i" "-2i" "+3/4i";  "5+0i" and "5+0" are the integer 5 (exact zero imaginary part);
   "1+2" -> missing imaginary part;  "1+2+3i" -> multiple real parts;  "1+2ix" -> invalid;
   "1/2/3i" -> type exception of sexp_remainder;  "1@2" "1.5+i" "#e1" "+inf.0i" -> unmodelled *)
Example complex_reader_examples :
  read_num_token 4 [43;105] = NOk (XCpx (EInt 0) (EInt 1)) [] /\
  read_num_token 4 [45;105;41] = NOk (XCpx (EInt 0) (EInt (-1))) [41] /\
  read_num_token 4 [45;50;105] = NOk (XCpx (EInt 0) (EInt (-2))) [] /\
  read_num_token 4 [43;51;47;52;105] = NOk (XCpx (EInt 0) (ERat 3 4)) [] /\
  read_num_token 4 [53;43;48;105] = NOk (XReal (EInt 5)) [] /\
  read_num_token 4 [53;43;48] = NOk (XReal (EInt 5)) [] /\
  read_num_token 4 [49;43;50] = NErr ReadErr /\
  read_num_token 4 [49;43;50;43;51;105] = NErr ReadErr /\
  read_num_token 4 [49;43;50;105;120] = NErr ReadErr /\
  read_num_token 4 [49;47;50;47;51;105] = NErr ReadErr /\
  read_num_token 4 [49;64;50] = NErr Unmodelled /\
  read_num_token 4 [49;46;53;43;105] = NErr Unmodelled /\
  read_num_token 4 [35;101;49] = NErr Unmodelled /\
  read_num_token 4 [43;105;110;102;46;48;105] = NErr Unmodelled.
Proof. repeat split; vm_compute; reflexivity. Qed.

Print Assumptions gcd_loop_ok.
Print Assumptions ratio_normalize_spec.
Print Assumptions ratio_roundtrip_ok.
Print Assumptions complex_roundtrip_ok.
Print Assumptions xnum_roundtrip_ok.
Print Assumptions pure_imag_short_read_ok.
