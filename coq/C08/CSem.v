(** C08 — the few C-semantics helpers the regenerated Gen/C08_Leaf.v refers to (same meaning as in
    gen/c12_leaf.py's output: wrap = conversion to an unsigned type of that width, swrap = to a
    signed one, in_s = "fits the signed type", used only in the generated *_safe side conditions),
    and the <ctype.h> functions as int-valued functions (C locale; trusted, see notes/C08.md). *)
From Coq Require Import ZArith Bool.
From ChibiV Require Import C08.Datum.
Local Open Scope Z_scope.

Definition wrap (bits : Z) (x : Z) : Z := x mod 2 ^ bits.
Definition swrap (bits : Z) (x : Z) : Z :=
  let m := x mod 2 ^ bits in if m <? 2 ^ (bits - 1) then m else m - 2 ^ bits.
Definition in_s (bits : Z) (x : Z) : bool := (- 2 ^ (bits - 1) <=? x) && (x <? 2 ^ (bits - 1)).

Definition c_isdigit (c : Z) : Z := if isdigit c then 1 else 0.
Definition c_isxdigit (c : Z) : Z := if isxdigit c then 1 else 0.
Definition c_isspace (c : Z) : Z := if isspace c then 1 else 0.
Definition c_tolower (c : Z) : Z := tolower c.
