(** C08 — reference copy of the two static tables of sexp.c (sexp_separators, sexp.c:24-34;
    sexp_char_names, sexp.c:2169-2181).  The check regenerates the same two definitions from the
    current source into Gen/C08_Tables.v; C08/Proofs.v proves that the regenerated tables are equal
    to these (tables_regenerated), so an edit of either table in sexp.c is noticed. *)
From Coq Require Import ZArith List.
Import ListNotations.
Local Open Scope Z_scope.

Definition ref_separators : list Z := [
  0; 0; 0; 0; 0; 0; 0; 0; 0; 1; 1; 1; 1; 1; 0; 0;
  0; 0; 0; 0; 0; 0; 0; 0; 0; 0; 0; 0; 0; 0; 0; 0;
  1; 0; 1; 0; 0; 0; 0; 1; 1; 1; 0; 0; 1; 0; 0; 0;
  0; 0; 0; 0; 0; 0; 0; 0; 0; 0; 0; 1; 0; 0; 0; 0;
  0; 0; 0; 0; 0; 0; 0; 0; 0; 0; 0; 0; 0; 0; 0; 0;
  0; 0; 0; 0; 0; 0; 0; 0; 0; 0; 0; 1; 0; 1; 0; 0;
  0; 0; 0; 0; 0; 0; 0; 0; 0; 0; 0; 0; 0; 0; 0; 0;
  0; 0; 0; 0; 0; 0; 0; 0; 0; 0; 0; 1; 0; 1; 0; 0 ].

(* "newline" "return" "space" "tab" "alarm" "backspace" "delete" "escape" "null" *)
Definition ref_char_names : list (list Z * Z) := [
  ([110;101;119;108;105;110;101], 10);
  ([114;101;116;117;114;110], 13);
  ([115;112;97;99;101], 32);
  ([116;97;98], 9);
  ([97;108;97;114;109], 7);
  ([98;97;99;107;115;112;97;99;101], 8);
  ([100;101;108;101;116;101], 127);
  ([101;115;99;97;112;101], 27);
  ([110;117;108;108], 0) ].
