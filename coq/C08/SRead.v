(** C08 model, round 4 (no proofs in this file): the library reader's own string / |symbol| arm -
    (scheme read) = read-with-shared-structure of lib/srfi/38.scm:
      read-one        double quote -> (read-delimited <dquote>)     '|' -> (string->symbol (read-delimited #\|))
      read-delimited  (38.scm:330-343)  characters up to the terminal, '\' -> read-escape-sequence
      read-escape-sequence (38.scm:309-329)  a b n r t;  x/X -> (read-number 16) then ';' then
                      integer->char;  newline / space / tab -> line continuation;  else the character
      read-number / read-label / read-numeric-hashes (38.scm:240-268) for the digits of \x..;
    Input = the bytes still to be read.  The library works on characters (read-char / write-char on
    UTF-8 ports): a byte >= 0x80 outside an escape is passed through unchanged, which is what decoding
    and re-encoding a VALID UTF-8 sequence does (the port's decoder is C12's subject; the (K) runs only
    feed valid UTF-8).  Everything the model does not cover answers Unmodelled, never a guess. *)
From Coq Require Import ZArith List Bool.
From ChibiV Require Import C08.Datum Gen.C08_Tables Gen.C08_Leaf C08.Write C08.Read.
Import ListNotations.
Local Open Scope Z_scope.

(** read-label's test on an ASCII character: (or (char-numeric? c)
    (memv (char-downcase c) '(#\- #\+ #\a #\b #\c #\d #\e #\f #\i))) *)
Definition is_label_char (c : Z) : bool :=
  isdigit c ||
  let d := tolower c in (d =? 45) || (d =? 43) || ((97 <=? d) && (d <=? 102)) || (d =? 105).

(** (string->number str 16) on the characters read-label collected (most recent first):
    Some (Some v) = the hexadecimal numeral's value, Some None = #f (the empty string),
    None = outside the model (signs, i, /, @ : other numeric syntax in base 16) *)
Fixpoint hex_chars_value (l : list Z) (v : Z) : option Z :=
  match l with
  | [] => Some v
  | c :: l' => if isxdigit c then hex_chars_value l' (v * 16 + digit_value c) else None
  end.

Definition label_number (res : list Z) : option (option Z) :=
  match res with
  | [] => Some None
  | _ => match hex_chars_value (rev res) 0 with Some v => Some (Some v) | None => None end
  end.

(** LNorm = read-delimited's loop; LLab res = inside read-label (called from read-number 16) *)
Inductive lstate := LNorm | LLab (res : list Z).

Fixpoint sread_delim (term : Z) (st : lstate) (s acc : list Z) : sres :=
  match s with
  | [] => SErr ReadErr                                   (* "incomplete string" / ch2 = eof *)
  | c :: s' =>
      match st with
      | LNorm =>
          if c =? term then SOk (rev acc) s'
          else if c =? 92 then
            match s' with
            | [] => SErr ReadErr                         (* "incomplete escape" *)
            | c2 :: s'' =>
                if c2 =? 97 then sread_delim term LNorm s'' (7 :: acc)
                else if c2 =? 98 then sread_delim term LNorm s'' (8 :: acc)
                else if c2 =? 110 then sread_delim term LNorm s'' (10 :: acc)
                else if c2 =? 114 then sread_delim term LNorm s'' (13 :: acc)
                else if c2 =? 116 then sread_delim term LNorm s'' (9 :: acc)
                else if (c2 =? 10) || (c2 =? 32) || (c2 =? 9) then SErr Unmodelled   (* line continuation *)
                else if (c2 =? 120) || (c2 =? 88) then sread_delim term (LLab []) s'' acc
                else sread_delim term LNorm s'' (c2 :: acc)          (* (else ch): backslash, double quote, bar and any other character *)
            end
          else sread_delim term LNorm s' (c :: acc)
      | LLab res =>
          if c >=? 128 then SErr Unmodelled              (* char-numeric? on a non-ASCII character *)
          else if (c =? 35) && (match res with [] => true | _ => false end) then SErr Unmodelled  (* read-numeric-hashes *)
          else if is_label_char c
                  || ((c =? 47) && negb (existsb (Z.eqb 47) res))
                  || ((c =? 64) && negb (existsb (Z.eqb 64) res))
          then sread_delim term (LLab (c :: res)) s' acc
          else
            (* read-label returns; n = (string->number str 16); ch2 = c must be ';' *)
            match label_number res with
            | None => SErr Unmodelled
            | Some None => SErr ReadErr                  (* "invalid number syntax" *)
            | Some (Some v) =>
                if negb (c =? 59) then SErr ReadErr      (* "invalid string escape" *)
                else if (v >? 1114111) || ((55296 <=? v) && (v <=? 57343)) then SErr Unmodelled
                else if v >=? 128
                     then sread_delim term LNorm s' (rev (utf8_encode v) ++ acc)   (* write-char *)
                     else sread_delim term LNorm s' (v :: acc)
            end
      end
  end.

(** read-one on a text that starts with a double quote or '|' (38.scm:494-499) *)
Definition sread_quoted (s : list Z) : res :=
  match s with
  | 34 :: s' => match sread_delim 34 LNorm s' [] with
                | SOk bs rest => Ok (TDatum (Str bs)) rest
                | SErr e => Err e
                end
  | 124 :: s' => match sread_delim 124 LNorm s' [] with
                 | SOk bs rest => Ok (TDatum (Sym bs)) rest
                 | SErr e => Err e
                 end
  | _ => Err Unmodelled
  end.
