(** C08 proofs, round 4: the hand-written copies in the model of (1) the library writer's
    character-name table (lib/srfi/38.scm escaped-chars) and (2) the constants of the strtod path of
    sexp_read_float_tail are the ones regenerated from the checked tree on this run. *)
From Coq Require Import ZArith List Bool.
From ChibiV Require Import C08.Datum Gen.C08_Tables Gen.C08_Leaf Gen.C08_Lib38 C08.Write C08.Read C08.Model3 C08.Model4.
Import ListNotations.
Local Open Scope Z_scope.

Theorem lib38_regenerated_ok :
  escaped_chars_38_gen = ref_escaped_chars_38 /\
  float_digits_len_gen = ref_float_digits_len /\
  (* the model of the reader's strtod path, with the regenerated constants in place *)
  (forall strtod fmt_0f i2d old_arith whole fr e,
     dec2flo_strtod strtod fmt_0f i2d old_arith whole fr e =
     let w := fmt_0f (i2d whole) in
     if (Z.of_nat (length w + length fr) <? float_digits_len_gen) && (Z.abs e <? float_exp_bound_gen)
     then strtod (w ++ fr ++ 101 :: write_int (e - Z.of_nat (length fr)))
     else old_arith whole fr e) /\
  (* the library writer's character arm, with the regenerated table in place *)
  (forall c, swrite_char c =
     35 :: 92 :: match find (fun p => fst p =? c) escaped_chars_38_gen with
                 | Some p => snd p
                 | None => utf8_encode c
                 end).
Proof. repeat split; reflexivity. Qed.

(** the library's names are names the native reader knows, for the same characters: every entry of
    escaped-chars is an entry of sexp_char_names (as regenerated) *)
Example lib38_names_known :
  forallb (fun p => existsb (fun q => (snd q =? fst p) && if list_eq_dec Z.eq_dec (fst q) (snd p) then true else false)
                      sexp_char_names) escaped_chars_38_gen = true.
Proof. vm_compute. reflexivity. Qed.

(** the library READER's tables (C08/SReadChar.v: delimiters, named-chars) are the regenerated ones *)
From ChibiV Require Import C08.SRead C08.SReadChar.
Theorem lib38_reader_tables_ok :
  delimiters_38_gen = delimiters_38 /\ named_chars_38_gen = named_chars_38.
Proof. split; reflexivity. Qed.
