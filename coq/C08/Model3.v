(** C08 model, round 3 additions (no proofs in this file):
    - the character arm of the library writer (lib/srfi/38.scm:122-127, what (scheme write) emits);
    - nesting depth of a datum and the library writer's compound text;
    - the repaired decimal->double path of sexp_read_float_tail (sexp.c:2835-2922, fix 2a27451:
      strtod on the collected digits) expressed over libc parameters. *)
From Coq Require Import ZArith List Bool.
From ChibiV Require Import C08.Datum Gen.C08_Tables Gen.C08_Leaf C08.Write C08.Read.
Import ListNotations.
Local Open Scope Z_scope.

(** lib/srfi/38.scm:6-15 escaped-chars: the library writer has its own table *)
Definition escaped_chars_38 : list (Z * list Z) := [
  (7,   [97;108;97;114;109]);                      (* alarm *)
  (8,   [98;97;99;107;115;112;97;99;101]);         (* backspace *)
  (127, [100;101;108;101;116;101]);                (* delete *)
  (27,  [101;115;99;97;112;101]);                  (* escape *)
  (10,  [110;101;119;108;105;110;101]);            (* newline *)
  (0,   [110;117;108;108]);                        (* null *)
  (13,  [114;101;116;117;114;110]);                (* return *)
  (32,  [115;112;97;99;101]);                      (* space *)
  (9,   [116;97;98]) ].                            (* tab *)

(** lib/srfi/38.scm:122-127: "#\\" then the name, else write-char (raw UTF-8, control characters
    included) *)
Definition swrite_char (c : Z) : list Z :=
  35 :: 92 ::
  match find (fun p => fst p =? c) escaped_chars_38 with
  | Some p => snd p
  | None => utf8_encode c
  end.

(** the measure the reader's fuel is compared with (visible premise of the compound theorem:
    height d + 2 <= fuel): height of the datum as a binary tree of pairs (a list of n atoms has
    height n: the list loop's counter starts at the fuel), a vector / bytevector costs two levels
    ("#(" re-enters sexp_read_raw on "(") plus its length. *)
Fixpoint height (d : datum) : nat :=
  match d with
  | Pair a t => S (Nat.max (height a) (height t))
  | Vec l => S (S (fold_right (fun x m => Nat.max (height x) m) (length l) l))
  | Bytes l => S (length l)
  | _ => O
  end.

Section Strtod.
  (** libc: strtod on a NUL-terminated text (bits of the result), snprintf "%.0f" of a double,
      and the C conversion (double)(sexp_sint_t) *)
  Variable strtod : list Z -> Z.
  Variable fmt_0f : Z -> list Z.
  Variable i2d : Z -> Z.
  (** the arithmetic path kept for texts outside the strtod path (>= SEXP_FLOAT_DIGITS_LEN digits,
      |exponent| >= 10^6): whole, fraction digits, exponent -> bits *)
  Variable old_arith : Z -> list Z -> Z -> Z.

  Definition FLOAT_DIGITS_LEN : Z := 1100.

  (** sexp_read_float_tail (2845-2886) for a non-negative whole part read by sexp_read_number
      (negp = 0 on every path that starts in sexp_read_raw: the sign is applied by the '-' arm):
      digits = "%.0f"(whole) ++ fraction digits (while ndigits < SEXP_FLOAT_DIGITS_LEN), then
      "e<exponent - nfrac>", strtod. *)
  Definition dec2flo_strtod (whole : Z) (fr : list Z) (e : Z) : Z :=
    let w := fmt_0f (i2d whole) in
    if (Z.of_nat (length w + length fr) <? FLOAT_DIGITS_LEN) && (Z.abs e <? 1000000)
    then strtod (w ++ fr ++ 101 :: write_int (e - Z.of_nat (length fr)))
    else old_arith whole fr e.
End Strtod.
