(** C08: datum labels - the reader's label table (growth as in the C) rebuilds every graph the
    shared-structure writer emits, for any number of labels. *)
From Coq Require Import ZArith List Bool Lia Arith.
From ChibiV Require Import C08.Labels.
Import ListNotations.
Local Open Scope Z_scope.

(** ---- the texts the writer emits: labels numbered 0,1,2,... in the order of the walk, references
    only to labels already met, a label never directly on a reference *)
Fixpoint wf (c : Z) (t : gterm) : option Z :=
  match t with
  | GAtom _ | GNil => Some c
  | GPair a d => match wf c a with Some c1 => wf c1 d | None => None end
  | GVec l => fold_left (fun acc x => match acc with Some c1 => wf c1 x | None => None end) l (Some c)
  | GDef n b => if n =? c then match b with GRef _ => None | _ => wf (c + 1) b end else None
  | GRef n => if (0 <=? n) && (n <? c) then Some c else None
  end.

Fixpoint novec (t : gterm) : bool :=
  match t with
  | GPair a d => novec a && novec d
  | GVec _ => false
  | GDef _ b => novec b
  | _ => true
  end.

Definition mem (n : Z) (l : list Z) : bool := existsb (Z.eqb n) l.

(** what the reader returns before sexp_fill_reader_labels: a reference to a label whose
    definition is still open is the placeholder *)
Fixpoint emb (opens : list Z) (t : gterm) : lval :=
  match t with
  | GAtom a => LAtom a
  | GNil => LNil
  | GPair a d => LPair (emb opens a) (emb opens d)
  | GVec l => LVec (map (emb opens) l)
  | GDef n b => LDef n (emb (n :: opens) b)
  | GRef n => if mem n opens then LHole n else LPtr n
  end.

Lemma gtb_false : forall a b, a <= b -> (a >? b) = false.
Proof. intros. rewrite Z.gtb_ltb. apply Z.ltb_ge. lia. Qed.
Lemma gtb_false_inv : forall a b, (a >? b) = false -> a <= b.
Proof. intros a b H. rewrite Z.gtb_ltb in H. apply Z.ltb_ge in H. lia. Qed.

(** ---- vectors *)
Lemma upd_length : forall A (l : list A) k x, length (upd l k x) = length l.
Proof. induction l; destruct k; simpl; auto. Qed.

Lemma nth_upd_same : forall A (l : list A) k x d, (k < length l)%nat -> nth k (upd l k x) d = x.
Proof. induction l; destruct k; simpl; intros; try lia; auto. apply IHl. lia. Qed.

Lemma nth_upd_other : forall A (l : list A) k j x d, k <> j -> nth j (upd l k x) d = nth j l d.
Proof. induction l; destruct k; destruct j; simpl; intros; try congruence; auto. Qed.

Lemma vlen_vset : forall v i s, vlen (vset v i s) = vlen v.
Proof. intros. unfold vlen, vset. now rewrite upd_length. Qed.

Lemma vget_vset_same : forall v i s, 0 <= i < vlen v -> vget (vset v i s) i = s.
Proof. intros. unfold vget, vset, vlen in *. apply nth_upd_same. lia. Qed.

Lemma vget_vset_other : forall v i j s, 0 <= i -> 0 <= j -> i <> j -> vget (vset v i s) j = vget v j.
Proof. intros. unfold vget, vset. apply nth_upd_other. lia. Qed.

Lemma nth_firstn_lt : forall A (l : list A) n k d, (k < n)%nat -> nth k (firstn n l) d = nth k l d.
Proof.
  induction l; intros; destruct n; destruct k; simpl; try lia; auto.
  apply IHl. lia.
Qed.

Lemma nth_repeat_void : forall n k, nth k (repeat SVoid n) SVoid = SVoid.
Proof. induction n; destruct k; simpl; auto. Qed.

Lemma vlen_grow : forall v, 1 <= vlen v -> vlen (grow v) = 2 * vlen v.
Proof.
  intros. unfold grow, vlen in *. rewrite !app_length, firstn_length, repeat_length.
  change (length [vlast v]) with 1%nat. rewrite Nat.min_l by lia. lia.
Qed.

Lemma vget_grow_low : forall v j, 0 <= j < vlen v - 1 -> vget (grow v) j = vget v j.
Proof.
  intros. unfold grow, vget, vlen in *.
  rewrite app_nth1 by (rewrite firstn_length, Nat.min_l by lia; lia).
  apply nth_firstn_lt. lia.
Qed.

Lemma vget_grow_mid : forall v j, vlen v - 1 <= j < 2 * vlen v - 1 -> vget (grow v) j = SVoid.
Proof.
  intros. unfold grow, vget, vlen in *.
  rewrite app_nth2 by (rewrite firstn_length, Nat.min_l by lia; lia).
  rewrite firstn_length, Nat.min_l by lia.
  rewrite app_nth1 by (rewrite repeat_length; lia).
  apply nth_repeat_void.
Qed.

Lemma vlast_grow : forall v, 1 <= vlen v -> vlast (grow v) = vlast v.
Proof.
  intros. unfold vlast at 1. rewrite vlen_grow by auto.
  unfold grow, vget, vlen in *.
  rewrite app_nth2 by (rewrite firstn_length, Nat.min_l by lia; lia).
  rewrite firstn_length, Nat.min_l by lia.
  rewrite app_nth2 by (rewrite repeat_length; lia).
  rewrite repeat_length.
  replace (_ - _ - _)%nat with 0%nat by lia. reflexivity.
Qed.

(** ---- the invariant of the label table while a writer-form text is read: [c] labels met so
    far, those in [opens] still open *)
Definition tinv (c : Z) (opens : list Z) (tb : table) : Prop :=
  Forall (fun n => 0 <= n < c) opens /\
  match tb with
  | None => c = 0
  | Some v =>
      24 <= vlen v /\ 0 < c <= vlen v - 1 /\ vlast v = SFix (c - 1) /\
      (forall n, 0 <= n < c -> vget v n = if mem n opens then SOpen n else SObj) /\
      (forall n, c <= n < vlen v - 1 -> vget v n = SVoid)
  end.

Lemma mem_false_of_bound : forall c opens, Forall (fun n => 0 <= n < c) opens -> mem c opens = false.
Proof.
  intros c opens H. unfold mem. induction H; simpl; auto.
  rewrite IHForall. replace (c =? x) with false; auto. symmetry. apply Z.eqb_neq. lia.
Qed.

Lemma fresh_facts : vlen fresh_table = 24 /\ vlast fresh_table = SFix 0 /\
  forall n, 0 <= n < 23 -> vget fresh_table n = SVoid.
Proof.
  split; [reflexivity|]. split; [reflexivity|].
  intros. unfold vget, fresh_table.
  rewrite app_nth1 by (rewrite repeat_length; lia). apply nth_repeat_void.
Qed.

(** the [#c=] arm on the next label: succeeds, whatever the table size *)
Lemma label_open_ok : forall c opens tb, 0 <= c -> tinv c opens tb ->
  exists v', label_open tb c = LOk v' /\ tinv (c + 1) (c :: opens) (Some v').
Proof.
  intros c opens tb Hc [Hop Hi].
  assert (Hmemc : mem c opens = false) by (eapply mem_false_of_bound; eauto).
  (* common shape: a vector v with last = SFix m, m + 1 = c or (table fresh and c = 0) *)
  assert (Hv : exists v m, (match tb with Some v => v | None => fresh_table end) = v /\
            24 <= vlen v /\ c <= vlen v - 1 /\ vlast v = SFix m /\ m <= c <= m + 1 /\
            (forall n, 0 <= n < c -> vget v n = if mem n opens then SOpen n else SObj) /\
            (forall n, c <= n < vlen v - 1 -> vget v n = SVoid)).
  { destruct tb as [v|].
    - destruct Hi as (H1 & H2 & H3 & H4 & H5). exists v, (c - 1). repeat split; auto; lia.
    - subst c. destruct fresh_facts as (F1 & F2 & F3). exists fresh_table, 0.
      repeat split; auto; try lia; try (rewrite F1; lia); try (intros; lia);
        try (intros n Hn; apply F3; rewrite F1 in Hn; lia). }
  destruct Hv as (v & m & Ev & L24 & Hcl & Hlast & Hm & Hlow & Hhigh).
  unfold label_open. rewrite Ev, Hlast.
  rewrite gtb_false by lia.
  set (v1 := if c + 1 >=? vlen v then grow v else v).
  assert (Hv1 : 24 <= vlen v1 /\ c + 1 <= vlen v1 - 1 /\ vlast v1 = SFix m /\
                (forall n, 0 <= n < c -> vget v1 n = if mem n opens then SOpen n else SObj) /\
                (forall n, c <= n < vlen v1 - 1 -> vget v1 n = SVoid)).
  { unfold v1. destruct (c + 1 >=? vlen v) eqn:G.
    - apply Z.geb_le in G.
      rewrite vlen_grow by lia. rewrite vlast_grow by lia.
      repeat split; try lia; auto.
      + intros. rewrite vget_grow_low by lia. auto.
      + intros. destruct (Z_lt_dec n (vlen v - 1)).
        * rewrite vget_grow_low by lia. apply Hhigh. lia.
        * apply vget_grow_mid. lia.
    - rewrite Z.geb_leb in G. apply Z.leb_gt in G. repeat split; auto; lia. }
  clearbody v1. destruct Hv1 as (L1 & Hc1 & Hlast1 & Hlow1 & Hhigh1).
  rewrite (Hhigh1 c) by lia.
  assert (Hlast2 : vlast (vset v1 c (SOpen c)) = SFix m).
  { unfold vlast. rewrite vlen_vset. rewrite vget_vset_other by lia. exact Hlast1. }
  rewrite Hlast2.
  set (v2 := vset v1 c (SOpen c)).
  assert (Hget2 : forall n, 0 <= n < c + 1 -> vget v2 n = if mem n (c :: opens) then SOpen n else SObj).
  { intros. unfold v2. destruct (Z.eq_dec n c).
    - subst n. rewrite vget_vset_same by lia. simpl. now rewrite Z.eqb_refl.
    - rewrite vget_vset_other by lia. simpl. replace (n =? c) with false by (symmetry; apply Z.eqb_neq; lia).
      simpl. apply Hlow1. lia. }
  assert (Hvoid2 : forall n, c + 1 <= n < vlen v2 - 1 -> vget v2 n = SVoid).
  { intros. unfold v2 in *. rewrite vlen_vset in H. rewrite vget_vset_other by lia. apply Hhigh1. lia. }
  assert (Hlen2 : vlen v2 = vlen v1) by apply vlen_vset.
  assert (Hop' : Forall (fun n => 0 <= n < c + 1) (c :: opens)).
  { constructor. lia. eapply Forall_impl; [|exact Hop]. simpl. intros. lia. }
  destruct (c >? m) eqn:G.
  - (* the max moves up *)
    eexists. split. reflexivity.
    split. exact Hop'.
    rewrite vlen_vset. rewrite Hlen2.
    repeat split; try lia.
    + unfold vlast. rewrite vlen_vset, Hlen2. rewrite vget_vset_same by lia. f_equal. lia.
    + intros. rewrite vget_vset_other by lia. apply Hget2. lia.
    + intros. rewrite vget_vset_other by lia. apply Hvoid2. lia.
  - apply gtb_false_inv in G.
    eexists. split. reflexivity.
    split. exact Hop'.
    rewrite Hlen2. repeat split; try lia; auto.
    + fold v2 in Hlast2. rewrite Hlast2. f_equal. lia.
    + intros. apply Hvoid2. lia.
Qed.

(** the [#n#] arm on a label already met *)
Lemma label_ref_ok : forall c opens tb n, tinv c opens tb -> 0 <= n < c ->
  label_ref tb n = LOk (if mem n opens then LHole n else LPtr n).
Proof.
  intros c opens tb n [Hop Hi] Hn. destruct tb as [v|]; [|lia].
  destruct Hi as (H1 & H2 & H3 & H4 & H5).
  unfold label_ref. rewrite H3.
  rewrite gtb_false by lia.
  rewrite H4 by lia. destruct (mem n opens); reflexivity.
Qed.

(** closing the innermost open label *)
Lemma label_close_ok : forall c opens tb n v, tinv c (n :: opens) tb -> mem n opens = false ->
  is_hole v = false ->
  exists tb', label_close tb n v = LOk (LDef n v, tb') /\ tinv c opens tb'.
Proof.
  intros c opens tb n v [Hop Hi] Hn Hh. inversion Hop as [|? ? Hn0 Hop']; subst.
  destruct tb as [t|]; [|lia].
  destruct Hi as (H1 & H2 & H3 & H4 & H5).
  unfold label_close. rewrite Hh. eexists. split. reflexivity.
  split. exact Hop'.
  rewrite vlen_vset. repeat split; try lia.
  - unfold vlast. rewrite vlen_vset. rewrite vget_vset_other by lia. exact H3.
  - intros m Hm. destruct (Z.eq_dec m n).
    + subst m. rewrite vget_vset_same by lia. now rewrite Hn.
    + rewrite vget_vset_other by lia. rewrite H4 by lia. simpl.
      replace (m =? n) with false by (symmetry; apply Z.eqb_neq; lia). reflexivity.
  - intros m Hm. rewrite vget_vset_other by lia. apply H5. lia.
Qed.

(** ---- the token loop *)
Definition tailtoks (d : gterm) : list ltok :=
  match d with
  | GNil => [KClose]
  | GPair _ _ => List.tl (wr d)
  | _ => KDot :: wr d ++ [KClose]
  end.

Lemma wr_pair : forall a d, wr (GPair a d) = KOpen :: wr a ++ tailtoks d.
Proof. intros. destruct d; reflexivity. Qed.

Definition starts_datum (ts : list ltok) : Prop :=
  match ts with [] => False | KClose :: _ => False | KDot :: _ => False | _ => True end.

Lemma wr_starts : forall t rest, starts_datum (wr t ++ rest).
Proof. destruct t; simpl; auto. Qed.

Lemma wr_length_pos : forall t, (1 <= length (wr t))%nat.
Proof. destruct t; simpl; lia. Qed.

Lemma tailtoks_length_pos : forall d, (1 <= length (tailtoks d))%nat.
Proof.
  destruct d; unfold tailtoks; try (simpl; lia).
  rewrite wr_pair. simpl List.tl. rewrite app_length. pose proof (wr_length_pos d1). lia.
Qed.

Lemma rd_list_elem : forall f acc ts tb, starts_datum ts ->
  rd (S f) (MList acc) ts tb =
  match rd f MOne ts tb with
  | LOk (v, r', tb') => rd f (MList (acc ++ [v])) r' tb'
  | LErr e => LErr e
  end.
Proof. intros. destruct ts as [|[] r]; simpl in H; try contradiction; reflexivity. Qed.

Lemma wf_mono : forall t c c', wf c t = Some c' -> novec t = true -> c <= c'.
Proof.
  induction t; simpl; intros c c' H NV; try discriminate.
  - inversion H; lia.
  - inversion H; lia.
  - apply andb_true_iff in NV. destruct NV. destruct (wf c t1) eqn:E; try discriminate.
    apply IHt1 in E; auto. apply IHt2 in H; auto. lia.
  - destruct (n =? c) eqn:E; try discriminate. destruct t; try discriminate;
      apply IHt in H; auto; lia.
  - destruct ((0 <=? n) && (n <? c)); inversion H; lia.
Qed.

Lemma tinv_weaken_bound : forall c opens, Forall (fun n => 0 <= n < c) opens ->
  forall c', c <= c' -> Forall (fun n => 0 <= n < c') opens.
Proof. intros. eapply Forall_impl; [|eassumption]. simpl; intros; lia. Qed.

Lemma emb_not_hole_def : forall opens t, (forall n, t <> GRef n) -> is_hole (emb opens t) = false.
Proof. intros. destruct t; simpl; auto. exfalso. eapply H; eauto. Qed.

Theorem rd_wr : forall t,
  novec t = true ->
  (forall fuel c c' opens tb rest, 0 <= c -> wf c t = Some c' -> tinv c opens tb ->
     (length (wr t) <= fuel)%nat ->
     exists tb', rd fuel MOne (wr t ++ rest) tb = LOk (emb opens t, rest, tb') /\ tinv c' opens tb') /\
  (forall fuel c c' opens tb rest acc, 0 <= c -> wf c t = Some c' -> tinv c opens tb ->
     (length (tailtoks t) <= fuel)%nat -> acc <> [] ->
     exists tb', rd fuel (MList acc) (tailtoks t ++ rest) tb
                 = LOk (build_list acc (emb opens t), rest, tb') /\ tinv c' opens tb').
Proof.
  induction t; intros NV; simpl in NV; try discriminate.
  - (* atom *)
    split; intros.
    + destruct fuel; simpl in *; [lia|]. inversion H0; subst. eauto.
    + inversion H0; subst. destruct fuel as [|[|f]]; simpl in *; try lia.
      destruct acc; [congruence|]. eauto.
  - (* () *)
    split; intros.
    + inversion H0; subst. destruct fuel as [|[|f]]; simpl in *; try lia. eauto.
    + inversion H0; subst. destruct fuel; simpl in *; [lia|]. eauto.
  - (* pair *)
    apply andb_true_iff in NV. destruct NV as [NV1 NV2].
    destruct (IHt1 NV1) as [P1 _]. destruct (IHt2 NV2) as [_ Q2].
    assert (Hlist : forall f c c' opens tb rest acc, 0 <= c -> wf c (GPair t1 t2) = Some c' -> tinv c opens tb ->
              (length (wr t1 ++ tailtoks t2) <= S f)%nat ->
              exists tb', rd (S f) (MList acc) ((wr t1 ++ tailtoks t2) ++ rest) tb
                          = LOk (build_list (acc ++ [emb opens t1]) (emb opens t2), rest, tb') /\ tinv c' opens tb').
    { intros f c c' opens tb rest acc Hc Hwf Hinv Hf. simpl in Hwf.
      destruct (wf c t1) as [c1|] eqn:E1; try discriminate.
      rewrite app_length in Hf. pose proof (wr_length_pos t1). pose proof (tailtoks_length_pos t2).
      rewrite <- app_assoc. rewrite rd_list_elem by apply wr_starts.
      destruct (P1 f c c1 opens tb (tailtoks t2 ++ rest) Hc E1 Hinv ltac:(lia)) as (tb1 & R1 & I1).
      rewrite R1.
      assert (c <= c1) by (eapply wf_mono; eauto).
      destruct (Q2 f c1 c' opens tb1 rest (acc ++ [emb opens t1]) ltac:(lia) Hwf I1 ltac:(lia)) as (tb2 & R2 & I2).
      { destruct acc; simpl; congruence. }
      eauto. }
    split; intros.
    + rewrite wr_pair in *. simpl in H2. destruct fuel; [lia|].
      simpl app. simpl rd.
      destruct fuel; [rewrite app_length in H2; pose proof (wr_length_pos t1); simpl in H2; lia|].
      destruct (Hlist fuel c c' opens tb rest [] H H0 H1) as (tb' & R & I).
      { pose proof (tailtoks_length_pos t2). pose proof (wr_length_pos t1). rewrite app_length in *. simpl in *. lia. }
      rewrite R. simpl. eauto.
    + (* a pair in the cdr continues the list *)
      change (tailtoks (GPair t1 t2)) with (List.tl (wr (GPair t1 t2))) in *.
      rewrite wr_pair in *. simpl List.tl in *.
      destruct fuel; [rewrite app_length in H2; pose proof (wr_length_pos t1); lia|].
      destruct (Hlist fuel c c' opens tb rest acc H H0 H1) as (tb' & R & I).
      { pose proof (tailtoks_length_pos t2). pose proof (wr_length_pos t1). rewrite app_length in *. simpl in *. lia. }
      rewrite R. simpl emb.
      replace (build_list (acc ++ [emb opens t1]) (emb opens t2))
        with (build_list acc (LPair (emb opens t1) (emb opens t2))).
      eauto.
      clear. induction acc; simpl; auto. now rewrite IHacc.
  - (* label definition *)
    destruct (IHt NV) as [P _].
    assert (Hone : forall fuel c c' opens tb rest, 0 <= c -> wf c (GDef n t) = Some c' -> tinv c opens tb ->
              (length (wr (GDef n t)) <= fuel)%nat ->
              exists tb', rd fuel MOne (wr (GDef n t) ++ rest) tb = LOk (emb opens (GDef n t), rest, tb') /\ tinv c' opens tb').
    { intros fuel c c' opens tb rest Hc Hwf Hinv Hf. simpl in Hwf.
      destruct (n =? c) eqn:E; try discriminate. apply Z.eqb_eq in E. subst n.
      assert (Hnr : forall m, t <> GRef m) by (intros m ->; discriminate).
      assert (Hwf' : wf (c + 1) t = Some c') by (destruct t; auto; discriminate).
      simpl in Hf. destruct fuel; [lia|]. simpl app. simpl rd.
      destruct (label_open_ok c opens tb Hc Hinv) as (v' & O & I').
      rewrite O.
      destruct (P fuel (c + 1) c' (c :: opens) (Some v') rest ltac:(lia) Hwf' I' ltac:(lia)) as (tb1 & R1 & I1).
      rewrite R1.
      assert (Hm : mem c opens = false) by (destruct Hinv; eapply mem_false_of_bound; eauto).
      destruct (label_close_ok c' opens tb1 c (emb (c :: opens) t) I1 Hm (emb_not_hole_def _ _ Hnr)) as (tb2 & C & I2).
      rewrite C. simpl. eauto. }
    split; [exact Hone|].
    intros. simpl tailtoks in *. simpl length in H2. rewrite app_length in H2. simpl in H2.
    destruct fuel; [lia|]. simpl app. simpl rd. destruct acc as [|a0 acc0]; [congruence|].
    destruct (Hone fuel c c' opens tb (KClose :: rest) H H0 H1) as (tb' & R & I).
    { simpl. lia. }
    simpl wr in R. simpl app in R. rewrite <- app_assoc. simpl app. rewrite R. eauto.
  - (* reference *)
    assert (Hone : forall fuel c c' opens tb rest, wf c (GRef n) = Some c' -> tinv c opens tb ->
              (1 <= fuel)%nat ->
              rd fuel MOne (KRef n :: rest) tb = LOk (emb opens (GRef n), rest, tb) /\ c' = c).
    { intros fuel c c' opens tb rest Hwf Hinv Hf. simpl in Hwf.
      destruct ((0 <=? n) && (n <? c)) eqn:E; try discriminate. inversion Hwf; subst.
      apply andb_true_iff in E. destruct E as [E1 E2]. apply Z.leb_le in E1. apply Z.ltb_lt in E2.
      destruct fuel; [lia|]. simpl. erewrite label_ref_ok by eauto. auto. }
    split; intros.
    + simpl in H2. destruct (Hone fuel c c' opens tb rest H0 H1 H2) as [R ->]. simpl app. rewrite R. eauto.
    + simpl in H2. destruct fuel; [lia|]. simpl app. simpl rd. destruct acc as [|a0 acc0]; [congruence|].
      destruct (Hone fuel c c' opens tb (KClose :: rest) H0 H1 ltac:(lia)) as [R ->].
      rewrite R. eauto.
Qed.

Lemma fill_emb : forall t opens, novec t = true -> fill (emb opens t) = g2l t.
Proof.
  induction t; simpl; intros; auto; try discriminate.
  - apply andb_true_iff in H. destruct H. now rewrite IHt1, IHt2.
  - now rewrite IHt.
  - destruct (mem n opens); reflexivity.
Qed.

Lemma tinv_start : tinv 0 [] None.
Proof. split; [constructor|reflexivity]. Qed.

(** label_roundtrip: every graph in the form the shared-structure writer emits - any number of
    labels, references to open and to closed labels, labelled list tails - is rebuilt by the
    reader with its 24-slot table doubled at 24, 48, 96, ... labels.  (Vector-free graphs: the
    "#(" arm reads the same list loop and converts; it is exercised by the (K) runs.) *)
Theorem label_roundtrip_ok : forall t c', novec t = true -> wf 0 t = Some c' ->
  read_labels (wr t) = LOk (g2l t, []).
Proof.
  intros t c' NV W. unfold read_labels.
  destruct (rd_wr t NV) as [P _].
  destruct (P (S (length (wr t))) 0 c' [] None [] ltac:(lia) W tinv_start ltac:(lia)) as (tb' & R & _).
  rewrite app_nil_r in R. rewrite R. now rewrite fill_emb.
Qed.

(** an example with 30 labels: the table grows once; label 23 is referenced after label 24 *)
Fixpoint chain (k : nat) (n : Z) (tl : gterm) : gterm :=
  match k with
  | O => tl
  | S k' => GPair (GDef n (GPair (GAtom n) (GRef n))) (chain k' (n + 1) tl)
  end.
Definition refs30 : gterm :=
  fold_right (fun n acc => GPair (GRef n) acc) GNil (map Z.of_nat (seq 0 30)).
Example label_roundtrip_example :
  wf 0 (chain 30 0 refs30) = Some 30 /\ novec (chain 30 0 refs30) = true /\
  read_labels (wr (chain 30 0 refs30)) = LOk (g2l (chain 30 0 refs30), []).
Proof. vm_compute. auto. Qed.
