(** C08 model, round 4 (no proofs in this file): the library reader's character arm -
    lib/srfi/38.scm read-hash, case #\\ (38.scm:468-474), read-named-char (38.scm:280-288),
    read-name (38.scm:273-279) with the library's own tables `delimiters` and `named-chars`
    (reference copies here; gen/c08_lib38.py regenerates both from 38.scm, Properties_C08.lib38_reader_tables).
    ASCII texts: a byte >= 0x80 answers Unmodelled (a raw non-ASCII character goes through the port's
    UTF-8 decoder, C12's subject). *)
From Coq Require Import ZArith List Bool.
From ChibiV Require Import C08.Datum Gen.C08_Tables Gen.C08_Leaf C08.Write C08.Read C08.SRead.
Import ListNotations.
Local Open Scope Z_scope.

(** (define delimiters (list semicolon dquote bar ( ) { } space tab newline return)) (38.scm:195-196) *)
Definition delimiters_38 : list Z := [59; 34; 124; 40; 41; 123; 125; 32; 9; 10; 13].
Definition is_lib_delim (c : Z) : bool := existsb (Z.eqb c) delimiters_38.

(** named-chars (38.scm:197-206) *)
Definition named_chars_38 : list (list Z * Z) := [
  ([110;101;119;108;105;110;101], 10);            (* newline *)
  ([114;101;116;117;114;110], 13);                (* return *)
  ([115;112;97;99;101], 32);                      (* space *)
  ([116;97;98], 9);                               (* tab *)
  ([110;117;108;108], 0);                         (* null *)
  ([97;108;97;114;109], 7);                       (* alarm *)
  ([98;97;99;107;115;112;97;99;101], 8);          (* backspace *)
  ([101;115;99;97;112;101], 27);                  (* escape *)
  ([100;101;108;101;116;101], 127) ].             (* delete *)

(** read-name: the characters up to the end of input or a delimiter (not consumed) *)
Fixpoint read_name (s acc : list Z) : list Z * list Z :=
  match s with
  | [] => (rev acc, [])
  | c :: s' => if is_lib_delim c then (rev acc, s) else read_name s' (c :: acc)
  end.

(** string-ci=? on ASCII strings *)
Fixpoint ci_eq (a b : list Z) : bool :=
  match a, b with
  | [], [] => true
  | x :: a', y :: b' => (tolower x =? tolower y) && ci_eq a' b'
  | _, _ => false
  end.

(** the text after the two characters # and backslash *)
Definition sread_char (s : list Z) : res :=
  match s with
  | [] => Err ReadErr                                    (* c1 is the eof object *)
  | c1 :: s' =>
      if c1 >=? 128 then Err Unmodelled
      else
        match s' with
        | [] => Ok (TDatum (Chr c1)) []
        | c2 :: _ =>
            if is_lib_delim c2 then Ok (TDatum (Chr c1)) s'
            else
              let '(name, rest) := read_name s' [c1] in
              if existsb (fun b => b >=? 128) name then Err Unmodelled
              else
                match find (fun p => ci_eq name (fst p)) named_chars_38 with
                | Some p => Ok (TDatum (Chr (snd p))) rest
                | None =>
                    if (c1 =? 120) || (c1 =? 88) then
                      (* (string->number (substring name 1 ...) 16): hexadecimal digits only, else outside the model *)
                      match hex_chars_value (tl name) 0 with
                      | Some v => if (v >? 1114111) || ((55296 <=? v) && (v <=? 57343)) then Err Unmodelled
                                  else Ok (TDatum (Chr v)) rest
                      | None => Err Unmodelled
                      end
                    else Err ReadErr                     (* unknown char name *)
                end
        end
  end.

(** read-one on a text that starts with #\ , a double quote or a bar *)
Definition sread_atom (s : list Z) : res :=
  match s with
  | 35 :: 92 :: s' => sread_char s'
  | _ => sread_quoted s
  end.
