(** C08 — data that have an external representation, and the character classes of sexp.c.
    Text is a list of bytes (Z in 0..255); EOF is the end of the list.
    Strings and symbols are kept as their UTF-8 byte sequences (that is what sexp_write_one and
    sexp_read_string see); characters are code points; a flonum is its IEEE-754 bit pattern. *)
From Coq Require Import ZArith List Bool.
Import ListNotations.
Local Open Scope Z_scope.

Inductive datum : Type :=
| Int (z : Z)
| Flo (bits : Z)
| Chr (c : Z)
| Str (bs : list Z)
| Sym (bs : list Z)
| Bool (b : bool)
| Nil
| Pair (a d : datum)
| Vec (l : list datum)
| Bytes (l : list Z).

(** induction principle that reaches the elements of vectors *)
Section DatumInd.
  Variable P : datum -> Prop.
  Hypothesis HInt : forall z, P (Int z).
  Hypothesis HFlo : forall b, P (Flo b).
  Hypothesis HChr : forall c, P (Chr c).
  Hypothesis HStr : forall s, P (Str s).
  Hypothesis HSym : forall s, P (Sym s).
  Hypothesis HBool : forall b, P (Bool b).
  Hypothesis HNil : P Nil.
  Hypothesis HPair : forall a d, P a -> P d -> P (Pair a d).
  Hypothesis HVec : forall l, Forall P l -> P (Vec l).
  Hypothesis HBytes : forall l, P (Bytes l).
  Fixpoint datum_ind' (d : datum) : P d :=
    match d with
    | Int z => HInt z | Flo b => HFlo b | Chr c => HChr c | Str s => HStr s | Sym s => HSym s
    | Bool b => HBool b | Nil => HNil
    | Pair a t => HPair a t (datum_ind' a) (datum_ind' t)
    | Vec l => HVec l ((fix go (l : list datum) : Forall P l :=
                          match l with [] => Forall_nil P | x :: l' => Forall_cons x (datum_ind' x) (go l') end) l)
    | Bytes l => HBytes l
    end.
End DatumInd.

(** a byte *)
Definition byte (b : Z) : Prop := 0 <= b < 256.
Definition bytes (l : list Z) : Prop := Forall byte l.

(** <ctype.h> in the C locale, on int arguments (EOF never reaches these in the model) *)
Definition isdigit (c : Z) : bool := (48 <=? c) && (c <=? 57).
Definition isupper (c : Z) : bool := (65 <=? c) && (c <=? 90).
Definition tolower (c : Z) : Z := if isupper c then c + 32 else c.
Definition isxdigit (c : Z) : bool :=
  isdigit c || ((65 <=? c) && (c <=? 70)) || ((97 <=? c) && (c <=? 102)).
Definition isspace (c : Z) : bool := ((9 <=? c) && (c <=? 13)) || (c =? 32).

(** `char` is signed on the platforms the check runs on: str[i] of a byte b *)
Definition schar (b : Z) : Z := if b <? 128 then b else b - 256.

(** digit_value, hex_digit, is_precision_indicator, sexp_is_separator, sexp_utf8_char_byte_count,
    sexp_decode_utf8_char and the symbol-quoting conditions are NOT written here: they are
    regenerated from sexp.c into Gen/C08_Leaf.v on every run. *)
(** "%02hhX" digit (libc) *)
Definition hex_digit_upper (n : Z) : Z := if n <=? 9 then 48 + n else 65 + n - 10.

Fixpoint list_eqb (a b : list Z) : bool :=
  match a, b with
  | [], [] => true
  | x :: a', y :: b' => (x =? y) && list_eqb a' b'
  | _, _ => false
  end.

(** sexp_utf8_char_byte_count / sexp_utf8_encode_char (sexp.c:1231-1236, 1266-1277);
    >>k is /2^k and &0x3F is mod 64 on the non-negative values that reach them *)
Definition utf8_encode (c : Z) : list Z :=
  if c <? 128 then [c]
  else if c <? 2048 then [192 + c / 64; 128 + c mod 64]
  else if c <? 65536 then [224 + c / 4096; 128 + (c / 64) mod 64; 128 + c mod 64]
  else [240 + c / 262144; 128 + (c / 4096) mod 64; 128 + (c / 64) mod 64; 128 + c mod 64].

(** a Unicode scalar value *)
Definition scalar (c : Z) : Prop := (0 <= c < 55296) \/ (57344 <= c <= 1114111).
