(** C08 model, round 4 additions (no proofs in this file):
    - the library writer's text of a tree: write-with-shared-structure's [wr-one]
      (lib/srfi/38.scm:86-135) on data without shared pairs / vectors, i.e. what (scheme write)'s
      [write] emits for every datum of C08/Datum.v ((scheme write) calls it with cyclic-only? = #t,
      so on a tree no label is ever printed);
    - reference copies of the constants that gen/c08_lib38.py regenerates from lib/srfi/38.scm and
      sexp.c on every run (Gen/C08_Lib38.v); Properties_C08.lib38_regenerated states the equality. *)
From Coq Require Import ZArith List Bool.
From ChibiV Require Import C08.Datum Gen.C08_Tables Gen.C08_Leaf C08.Write C08.Read C08.Model3.
Import ListNotations.
Local Open Scope Z_scope.

Section WriteGen.
  (** the character arm is the parameter: [write_char] gives sexp_write_one, [swrite_char] the
      library writer.  Every other arm of wr-one hands the object to the native writer
      (symbols: (write x out); numbers: (display (number->string x) out), the same text;
      strings, bytevectors: the final else (write x out)), or prints the same characters itself:
        pair:   "(" wr(car) then lp over the cdr: () -> nothing; pair -> " " wr(car) lp(cdr);
                otherwise " . " wr(tail); then ")"                         (38.scm:89-113)
        vector: "#(" wr(v[0]) then " " wr(v[i]) for i >= 1, ")"               (38.scm:114-123)
        ()  "()"      #t "#t"      #f "#f"                                    (38.scm:127,135-136) *)
  Variable wchr : Z -> list Z.
  Variable fmt_g : Z -> Z -> list Z.
  Variable scan_g : list Z -> option Z.

  Fixpoint write_gen (d : datum) : list Z :=
    match d with
    | Int z => write_int z
    | Flo b => write_flo fmt_g scan_g b
    | Chr c => wchr c
    | Str s => write_string s
    | Sym s => write_symbol s
    | Bool true => [35; 116]
    | Bool false => [35; 102]
    | Nil => [40; 41]
    | Pair a t =>
        40 :: write_gen a ++
        match t with
        | Nil => [41]
        | Pair _ _ => 32 :: tl (write_gen t)
        | _ => [32; 46; 32] ++ write_gen t ++ [41]
        end
    | Vec l =>
        match l with
        | [] => [35; 40; 41]
        | e :: l' => [35; 40] ++ write_gen e ++ flat_map (fun x => 32 :: write_gen x) l' ++ [41]
        end
    | Bytes l => write_bytes l
    end.
End WriteGen.

(** what (scheme write)'s write prints for a tree *)
Definition swrite (fmt_g : Z -> Z -> list Z) (scan_g : list Z -> option Z) : datum -> list Z :=
  write_gen swrite_char fmt_g scan_g.

(** data on which the two writers print the same text: no character leaf whose two texts differ *)
Fixpoint same_char_text (d : datum) : bool :=
  match d with
  | Chr c => if list_eq_dec Z.eq_dec (swrite_char c) (write_char c) then true else false
  | Pair a t => same_char_text a && same_char_text t
  | Vec l => forallb same_char_text l
  | _ => true
  end.

(** reference copies (the values the proofs were made for) of what gen/c08_lib38.py regenerates *)
Definition ref_escaped_chars_38 : list (Z * list Z) := escaped_chars_38.
Definition ref_float_digits_len : Z := FLOAT_DIGITS_LEN.
