(** C08 model, datum labels.
    Reader side: the [#n=] / [#n#] arm of sexp_read_raw (sexp.c, case '0'..'9' under
    SEXP_USE_READER_LABELS) with the label table exactly as the C keeps it: one vector [*shares]
    whose LAST slot holds the highest label seen (a fixnum) and whose other slots hold, per label,
    SEXP_VOID (never defined), the reader-label placeholder (definition still open) or the object;
    created with 24 slots at the first [#n=], doubled when [c2 + 1 >= length] by copying the first
    [length-1] slots and carrying the last one over (fixes/C08-reader-label-table-max-lost-on-growth),
    then sexp_fill_reader_labels (sexp_read_op) replaces the placeholders.
    Writer side: the concrete syntax lib/srfi/38.scm write-with-shared-structure emits for a graph
    in first-visit normal form ([gterm]: label k is the k-th shared node met by the depth-first
    walk, [GDef] at its first visit, [GRef] at every later one), including labelled list tails
    [(a . #1=(b))].
    Input/output are TOKENS (the lexical level - digits of the label number, white space, atoms - is
    the subject of C08/Read.v and of the (K) runs).  No proofs in this file. *)
From Coq Require Import ZArith List Bool.
Import ListNotations.
Local Open Scope Z_scope.

Inductive ltok := KOpen | KClose | KDot | KVec | KDef (n : Z) | KRef (n : Z) | KAtom (a : Z).

(** what the reader builds.  [LDef n v]: [v] is the object stored under label [n] (in C: the same
    pointer as shares[n]; a ghost marker).  [LHole n]: the reader-label placeholder (label still
    open when [#n#] was read).  [LPtr n]: the object of the completed label [n] (pointer copy). *)
Inductive lval :=
| LAtom (a : Z) | LNil | LPair (a d : lval) | LVec (l : list lval)
| LDef (n : Z) (v : lval) | LHole (n : Z) | LPtr (n : Z).

Inductive slot := SVoid | SFix (z : Z) | SOpen (n : Z) | SObj.

Inductive lerr := LReadErr | LUnmodelled | LOutOfFuel.
Inductive lres (A : Type) := LOk (x : A) | LErr (e : lerr).
Arguments LOk {A} _.
Arguments LErr {A} _.

Definition table := option (list slot).     (* NULL/non-vector, or the vector *)

Fixpoint upd {A} (l : list A) (k : nat) (x : A) : list A :=
  match l, k with
  | [], _ => []
  | _ :: t, O => x :: t
  | h :: t, S k' => h :: upd t k' x
  end.

Definition vlen (v : list slot) : Z := Z.of_nat (length v).
Definition vget (v : list slot) (i : Z) : slot := nth (Z.to_nat i) v SVoid.
Definition vset (v : list slot) (i : Z) (s : slot) : list slot := upd v (Z.to_nat i) s.
Definition vlast (v : list slot) : slot := vget v (vlen v - 1).

(** the vector made at the first [#n=]: 24 void slots, the last one SEXP_ZERO *)
Definition fresh_table : list slot := repeat SVoid 23 ++ [SFix 0].

(** growth: sexp_make_vector(2*len, VOID); memcpy of len-1 slots; the last slot carried over *)
Definition grow (v : list slot) : list slot :=
  firstn (length v - 1) v ++ repeat SVoid (length v) ++ [vlast v].

(** the [#n#] arm: error unless a table exists, n <= max and slot n is not void *)
Definition label_ref (tb : table) (n : Z) : lres lval :=
  match tb with
  | None => LErr LReadErr
  | Some v =>
      match vlast v with
      | SFix m =>
          if n >? m then LErr LReadErr
          else match vget v n with
               | SVoid => LErr LReadErr
               | SOpen k => LOk (LHole k)
               | SObj => LOk (LPtr n)
               | SFix _ => LErr LUnmodelled      (* a label slot never holds a fixnum marker *)
               end
      | _ => LErr LUnmodelled
      end
  end.

(** the [#n=] arm up to the recursive read: make the table, order check (n <= max + 16),
    growth check (n + 1 >= length), placeholder stored, max updated *)
Definition label_open (tb : table) (n : Z) : lres (list slot) :=
  let v := match tb with Some v => v | None => fresh_table end in
  match vlast v with
  | SFix m =>
      if n >? m + 16 then LErr LReadErr
      else
        let v1 := if n + 1 >=? vlen v then grow v else v in
        match vget v1 n with
        | SVoid =>
            let v2 := vset v1 n (SOpen n) in
            match vlast v2 with
            | SFix m2 => LOk (if n >? m2 then vset v2 (vlen v2 - 1) (SFix n) else v2)
            | _ => LErr LUnmodelled
            end
        | _ => LErr LUnmodelled        (* redefinition of a label: accepted by the C, outside the model *)
        end
  | _ => LErr LUnmodelled
  end.

Definition is_hole (v : lval) : bool := match v with LHole _ => true | _ => false end.

(** after the recursive read: a bare placeholder is "self reader label reference" *)
Definition label_close (tb : table) (n : Z) (v : lval) : lres (lval * table) :=
  if is_hole v then LErr LReadErr
  else match tb with
       | Some t => LOk (LDef n v, Some (vset t n SObj))
       | None => LErr LUnmodelled
       end.

Fixpoint build_list (acc : list lval) (tail : lval) : lval :=
  match acc with [] => tail | x :: r => LPair x (build_list r tail) end.

(** one datum (sexp_read_one); [rd_list acc] = the '(' loop of sexp_read_raw with the elements
    read so far.  KVec = "#(" : the list is read, then sexp_list_to_vector (proper lists only). *)
Inductive rd_mode := MOne | MList (acc : list lval).

Fixpoint rd (fuel : nat) (m : rd_mode) (ts : list ltok) (tb : table)
  : lres (lval * list ltok * table) :=
  match fuel with
  | O => LErr LOutOfFuel
  | S f =>
      match m with
      | MOne =>
          match ts with
          | [] => LErr LReadErr
          | KAtom a :: r => LOk (LAtom a, r, tb)
          | KOpen :: r => rd f (MList []) r tb
          | KVec :: r =>
              match rd f (MList []) r tb with
              | LOk (v, r', tb') =>
                  (fix to_vec (v : lval) (acc : list lval) : lres (lval * list ltok * table) :=
                     match v with
                     | LNil => LOk (LVec (rev acc), r', tb')
                     | LPair a d => to_vec d (a :: acc)
                     | _ => LErr LReadErr
                     end) v []
              | LErr e => LErr e
              end
          | KDef n :: r =>
              match label_open tb n with
              | LOk t1 =>
                  match rd f MOne r (Some t1) with
                  | LOk (v, r', tb') =>
                      match label_close tb' n v with
                      | LOk (v', tb'') => LOk (v', r', tb'')
                      | LErr e => LErr e
                      end
                  | LErr e => LErr e
                  end
              | LErr e => LErr e
              end
          | KRef n :: r =>
              match label_ref tb n with
              | LOk v => LOk (v, r, tb)
              | LErr e => LErr e
              end
          | KClose :: _ => LErr LReadErr       (* too many ')' *)
          | KDot :: _ => LErr LReadErr         (* unexpected '.' *)
          end
      | MList acc =>
          match ts with
          | [] => LErr LReadErr
          | KClose :: r => LOk (build_list acc LNil, r, tb)
          | KDot :: r =>
              match acc with
              | [] => LErr LReadErr             (* dot before any elements *)
              | _ =>
                  match rd f MOne r tb with
                  | LOk (v, KClose :: r', tb') => LOk (build_list acc v, r', tb')
                  | LOk _ => LErr LReadErr
                  | LErr e => LErr e
                  end
              end
          | _ =>
              match rd f MOne ts tb with
              | LOk (v, r', tb') => rd f (MList (acc ++ [v])) r' tb'
              | LErr e => LErr e
              end
          end
      end
  end.

(** sexp_fill_reader_labels: every placeholder becomes the object of its label (all labels are
    closed when the top-level read returns without error) *)
Fixpoint fill (v : lval) : lval :=
  match v with
  | LPair a d => LPair (fill a) (fill d)
  | LVec l => LVec (map fill l)
  | LDef n b => LDef n (fill b)
  | LHole n => LPtr n
  | _ => v
  end.

(** sexp_read_op on a token list *)
Definition read_labels (ts : list ltok) : lres (lval * list ltok) :=
  match rd (S (length ts)) MOne ts None with
  | LOk (v, r, _) => LOk (fill v, r)
  | LErr e => LErr e
  end.

(** --- writer: a graph in first-visit normal form and the tokens srfi 38 emits for it *)
Inductive gterm :=
| GAtom (a : Z) | GNil | GPair (a d : gterm) | GVec (l : list gterm)
| GDef (n : Z) (b : gterm) | GRef (n : Z).

(** [(a b . d)]: after the car, a pair in the cdr continues the list (its own text without the
    opening parenthesis), () closes it, anything else - atom, vector, labelled or referenced
    tail - is written after " . " (check-shared with the " . " prefix in srfi 38) *)
Fixpoint wr (t : gterm) : list ltok :=
  match t with
  | GAtom a => [KAtom a]
  | GNil => [KOpen; KClose]
  | GPair a d =>
      KOpen :: wr a ++
      match d with
      | GNil => [KClose]
      | GPair _ _ => List.tl (wr d)
      | _ => KDot :: wr d ++ [KClose]
      end
  | GVec l => KVec :: flat_map wr l ++ [KClose]
  | GDef n b => KDef n :: wr b
  | GRef n => [KRef n]
  end.

(** the graph as the reader should rebuild it *)
Fixpoint g2l (t : gterm) : lval :=
  match t with
  | GAtom a => LAtom a
  | GNil => LNil
  | GPair a d => LPair (g2l a) (g2l d)
  | GVec l => LVec (map g2l l)
  | GDef n b => LDef n (g2l b)
  | GRef n => LPtr n
  end.
