(** C09 (B): the model of simplify.c preserves the meaning the SPEC interpreter defines. *)
From ChibiV Require Import C09.Ast C09.Simplify.
Local Open Scope Z_scope.

(** unfolding equations of the interpreter *)
Lemma eval_Seq es s : eval (Seq es) s = eval_seq es s.
Proof. reflexivity. Qed.

Lemma eval_App_Op o args s :
  eval (App (Op o) args) s = match eval_args args s with (Some vs, s1) => (prim_eval o vs, s1) | (None, s1) => (None, s1) end.
Proof. reflexivity. Qed.

Lemma eval_App_Lam id ps rest sv body args s :
  eval (App (Lam id ps rest sv body) args) s =
  if rest then (None, s) else
  if Nat.eqb (length ps) (length args) then
    match eval_args args s with
    | (Some vs, (r, o)) => match eval body (bind id ps vs r, o) with (v, (r1, o1)) => (v, (pop id r1, o1)) end
    | (None, s1) => (None, s1)
    end
  else (None, s).
Proof. destruct rest; reflexivity. Qed.

Lemma lookup_pop x l id r : lookup x l (pop id r) = if l =? id then None else lookup x l r.
Proof.
  induction r as [|[[y m] c] r IH]; cbn [pop filter lookup fst snd].
  - destruct (l =? id); reflexivity.
  - fold (pop id r). destruct (Z.eqb_spec m id) as [->|Hne]; cbn [negb].
    + rewrite IH. destruct (Z.eqb_spec l id) as [->|Hl]; [reflexivity|].
      destruct (Z.eqb_spec id l); [congruence|]. rewrite andb_false_r. reflexivity.
    + cbn [lookup]. rewrite IH. destruct (Z.eqb_spec l id) as [->|Hl]; [|reflexivity].
      destruct (Z.eqb_spec m id); [congruence|]. rewrite andb_false_r. reflexivity.
Qed.

Lemma eval_App_Ref x loc args s :
  eval (App (Ref x loc) args) s =
  if (x =? OUT) && (loc =? 0) then
    match args with
    | [a] => match eval a s with (Some v, (r, o)) => (Some CVoid, (r, o ++ [v])) | (None, s1) => (None, s1) end
    | _ => (None, s)
    end
  else (None, s).
Proof. reflexivity. Qed.

(** ------------------------------------------------------------------ the simulation relation *)
(** [agree S r r']: r is an environment of the original program, r' of the simplified one.  The parameters recorded
    in S (deleted from the simplified program) hold their constant in r; every other variable has the same value. *)
Definition agree (S : list subst) (r r' : env) : Prop :=
  (forall x l c, lookup_subst x l S = Some c -> lookup x l r = Some c) /\
  (forall x l, lookup_subst x l S = None -> lookup x l r = lookup x l r').

Definition sdom (S : list subst) : list Z := map (fun t => snd (fst t)) S.

(** no assigned variable is in S; no lambda inside e has the identity of an entry of S *)
Definition C1 (S : list subst) (e : expr) : Prop := Forall (fun k => lookup_subst (fst k) (snd k) S = None) (assigned e).
Definition C2 (S : list subst) (e : expr) : Prop := Forall (fun id => ~ In id (sdom S)) (lam_ids e).

Lemma lookup_subst_none_loc x l S : ~ In l (sdom S) -> lookup_subst x l S = None.
Proof.
  induction S as [|[[y m] c] S IH]; cbn [lookup_subst sdom map fst snd]; [reflexivity|].
  intros H. destruct (Z.eqb_spec m l) as [->|Hne]; [exfalso; apply H; left; reflexivity|].
  rewrite andb_false_r. apply IH. intros HI. apply H. right. exact HI.
Qed.

Lemma lookup_cons_ne x l y m c r : (y =? x) && (m =? l) = false -> lookup x l (((y, m), c) :: r) = lookup x l r.
Proof. intros H. cbn [lookup]. rewrite H. reflexivity. Qed.

Lemma lookup_cons_eq x l c r : lookup x l (((x, l), c) :: r) = Some c.
Proof. cbn [lookup]. rewrite !Z.eqb_refl. reflexivity. Qed.

Lemma key_dec x l y m : ((y =? x) && (m =? l) = true /\ y = x /\ m = l) \/ (y =? x) && (m =? l) = false.
Proof. destruct (Z.eqb_spec y x), (Z.eqb_spec m l); cbn; auto. Qed.

(** updating the same (non-substituted) variable on both sides *)
Lemma agree_update S r r' x l c : agree S r r' -> lookup_subst x l S = None -> agree S (((x, l), c) :: r) (((x, l), c) :: r').
Proof.
  intros [A1 A2] HN. split.
  - intros y m c' Hy. destruct (key_dec y m x l) as [(_ & -> & ->)|Hne]; [congruence|].
    rewrite lookup_cons_ne by exact Hne. apply A1. exact Hy.
  - intros y m Hy. destruct (key_dec y m x l) as [(_ & -> & ->)|Hne].
    + rewrite !lookup_cons_eq. reflexivity.
    + rewrite !lookup_cons_ne by exact Hne. apply A2. exact Hy.
Qed.

(** binding a deleted parameter: the original side only *)
Lemma agree_delete S r r' p id c : agree S r r' -> agree ((p, id, c) :: S) (((p, id), c) :: r) r'.
Proof.
  intros [A1 A2]. split.
  - intros y m c' Hy. cbn [lookup_subst] in Hy. destruct (key_dec y m p id) as [(E & -> & ->)|Hne].
    + rewrite E in Hy. rewrite lookup_cons_eq. exact Hy.
    + rewrite Hne in Hy. rewrite lookup_cons_ne by exact Hne. apply A1. exact Hy.
  - intros y m Hy. cbn [lookup_subst] in Hy. destruct (key_dec y m p id) as [(E & -> & ->)|Hne].
    + rewrite E in Hy. discriminate.
    + rewrite Hne in Hy. rewrite lookup_cons_ne by exact Hne. apply A2. exact Hy.
Qed.

(** literals evaluate to themselves without touching the state *)
Lemma all_simple_eval es cs s : all_simple es = Some cs -> eval_args es s = (Some cs, s).
Proof.
  revert cs. induction es as [|e r IH]; intros cs H; cbn [all_simple] in H.
  - inversion H. reflexivity.
  - destruct e; cbn [simple] in H; try discriminate. destruct (all_simple r) as [cs'|]; [|discriminate].
    inversion H; subst. cbn [eval_args]. rewrite (IH cs' eq_refl). reflexivity.
Qed.

Lemma droppable_pure e s v s1 : droppable e = true -> eval e s = (Some v, s1) -> s1 = s.
Proof.
  destruct e; cbn [droppable]; try discriminate; intros _ H; cbn in H; try discriminate; inversion H; reflexivity.
Qed.

(** ------------------------------------------------------------------ let: parameter deletion (simplify.c:69-89) *)
Lemma memZ_false x l : memZ x l = false -> ~ In x l.
Proof.
  unfold memZ. intros H HI. assert (existsb (Z.eqb x) l = true) as E.
  { apply existsb_exists. exists x. split; [exact HI|apply Z.eqb_refl]. }
  congruence.
Qed.

Lemma memZ_true x l : memZ x l = true -> In x l.
Proof. unfold memZ. intros H. apply existsb_exists in H. destruct H as (y & HI & E). apply Z.eqb_eq in E. subst. exact HI. Qed.

Lemma nodupb_NoDup l : nodupb l = true -> NoDup l.
Proof.
  induction l as [|x r IH]; cbn [nodupb]; intros H; [constructor|].
  apply andb_prop in H. destruct H as [Hx Hr]. apply negb_true_iff in Hx. constructor; [apply memZ_false; exact Hx|apply IH; exact Hr].
Qed.

Lemma let_subst_sound id sv : forall ps args S ps2 args2 S2 vs s s2 r r',
  let_subst id sv ps args S = (ps2, args2, S2) ->
  length ps = length args ->
  NoDup ps ->
  (forall p, In p ps -> lookup_subst p id S = None) ->
  eval_args args s = (Some vs, s2) ->
  agree S r r' ->
  exists vs2, eval_args args2 s = (Some vs2, s2) /\ length ps2 = length args2 /\
              agree S2 (bind id ps vs r) (bind id ps2 vs2 r') /\
              (forall x l, lookup_subst x l S2 = None -> lookup_subst x l S = None) /\
              (forall x l c, lookup_subst x l S2 = Some c -> lookup_subst x l S = Some c \/ (l = id /\ In x ps /\ ~ In x sv)).
Proof.
  induction ps as [|p ps IH]; intros args S ps2 args2 S2 vs s s2 r r' HL Hlen Hnd Hfresh Hev Hag.
  - destruct args; [|discriminate]. cbn in HL. inversion HL; subst. cbn in Hev. inversion Hev; subst.
    exists []. cbn. split; [reflexivity|split; [reflexivity|split; [exact Hag|split; [auto|intros; left; assumption]]]].
  - destruct args as [|a args]; [discriminate|]. cbn [let_subst] in HL. cbn [eval_args] in Hev.
    destruct (eval_args args s) as [[vs'|] s1] eqn:Eargs; [|discriminate].
    destruct (eval a s1) as [[v|] s1'] eqn:Ea; [|discriminate]. inversion Hev; subst vs s1'. clear Hev.
    inversion Hnd as [|? ? Hnotin Hnd']; subst.
    cbn [length] in Hlen. injection Hlen as Hlen.
    destruct (if memZ p sv then None else simple a) as [c|] eqn:Esub.
    + (* deleted *)
      destruct (memZ p sv) eqn:Emem; [discriminate|]. destruct a; cbn [simple] in Esub; try discriminate. inversion Esub; subst c0.
      cbn in Ea. inversion Ea; subst v s1. clear Ea.
      assert (forall q, In q ps -> lookup_subst q id ((p, id, c) :: S) = None) as Hfresh'.
      { intros q Hq. cbn [lookup_subst]. destruct (key_dec q id p id) as [(_ & -> & _)|Hne]; [contradiction|].
        rewrite Hne. apply Hfresh. right. exact Hq. }
      destruct (IH args _ _ _ _ vs' s s2 (((p, id), c) :: r) r' HL Hlen Hnd' Hfresh' Eargs (agree_delete _ _ _ _ _ _ Hag))
        as (vs2 & E2 & L2 & A2 & N2 & P2).
      exists vs2. cbn [bind]. split; [exact E2|split; [exact L2|split; [exact A2|split]]].
      * intros x l Hx. specialize (N2 x l Hx). cbn [lookup_subst] in N2.
        destruct ((p =? x) && (id =? l)); [discriminate|exact N2].
      * intros x l c' Hx. destruct (P2 x l c' Hx) as [Hs|(-> & Hin & Hsv)].
        -- cbn [lookup_subst] in Hs. destruct (key_dec x l p id) as [(E & -> & ->)|Hne].
           ++ right. repeat split; [left; reflexivity| apply memZ_false; exact Emem].
           ++ rewrite Hne in Hs. left. exact Hs.
        -- right. repeat split; [right; exact Hin|exact Hsv].
    + (* kept *)
      destruct (let_subst id sv ps args S) as [[ps3 args3] S3] eqn:ELS. inversion HL; subst ps2 args2 S2. clear HL.
      assert (forall q, In q ps -> lookup_subst q id S = None) as Hfresh' by (intros q Hq; apply Hfresh; right; exact Hq).
      assert (lookup_subst p id S = None) as Hp by (apply Hfresh; left; reflexivity).
      destruct (IH args _ _ _ _ vs' s s1 (((p, id), v) :: r) (((p, id), v) :: r') ELS Hlen Hnd' Hfresh' Eargs
                  (agree_update _ _ _ _ _ _ Hag Hp)) as (vs2 & E2 & L2 & A2 & N2 & P2).
      exists (v :: vs2). cbn [eval_args bind length]. rewrite E2, Ea.
      split; [reflexivity|split; [f_equal; exact L2|split; [exact A2|split; [exact N2|]]]].
      intros x l c' Hx. destruct (P2 x l c' Hx) as [Hs|(-> & Hin & Hsv)]; [left; exact Hs|].
      right. repeat split; [right; exact Hin|exact Hsv].
Qed.

(** ------------------------------------------------------------------ the pass preserves defined meanings *)
Definition sound (e : expr) : Prop := forall S r r' o v r1 o1,
  wf e = true -> C1 S e -> C2 S e -> ~ In 0 (sdom S) -> agree S r r' ->
  eval e (r, o) = (Some v, (r1, o1)) ->
  exists r1', eval (simplify e S true) (r', o) = (Some v, (r1', o1)) /\ agree S r1 r1'.

Lemma C_flat (P : key -> Prop) (f : expr -> list key) es : Forall P (flat_map f es) -> Forall (fun e => Forall P (f e)) es.
Proof. intros H. apply Forall_flat_map. exact H. Qed.

Lemma C_flatZ (P : Z -> Prop) (f : expr -> list Z) es : Forall P (flat_map f es) -> Forall (fun e => Forall P (f e)) es.
Proof. intros H. apply Forall_flat_map. exact H. Qed.

Lemma args_sound es : Forall sound es -> forall S r r' o vs r1 o1,
  forallb wf es = true -> Forall (C1 S) es -> Forall (C2 S) es -> ~ In 0 (sdom S) -> agree S r r' ->
  eval_args es (r, o) = (Some vs, (r1, o1)) ->
  exists r1', eval_args (map (fun a => simplify a S true) es) (r', o) = (Some vs, (r1', o1)) /\ agree S r1 r1'.
Proof.
  induction 1 as [|a es Ha Hes IH]; intros S r r' o vs r1 o1 Hwf H1 H2 H0 Hag Hev.
  - cbn in *. inversion Hev; subst. exists r'. split; [reflexivity|exact Hag].
  - cbn [forallb] in Hwf. apply andb_prop in Hwf. destruct Hwf as [Wa Wes].
    inversion H1 as [|? ? H1a H1es]; subst. inversion H2 as [|? ? H2a H2es]; subst.
    cbn [eval_args] in Hev. destruct (eval_args es (r, o)) as [[vs'|] [r2 o2]] eqn:Ees; [|discriminate].
    destruct (eval a (r2, o2)) as [[v|] [r3 o3]] eqn:Ea; [|discriminate]. inversion Hev; subst.
    destruct (IH S r r' o vs' r2 o2 Wes H1es H2es H0 Hag Ees) as (r2' & E2 & A2).
    destruct (Ha S r2 r2' o2 v r1 o1 Wa H1a H2a H0 A2 Ea) as (r3' & E3 & A3).
    exists r3'. cbn [map eval_args]. rewrite E2, E3. split; [reflexivity|exact A3].
Qed.

Lemma seq_filter_nonnil x l : seq_filter (x :: l) <> [].
Proof.
  revert x. induction l as [|y l IH]; intros x; cbn [seq_filter]; [discriminate|].
  destruct (droppable x); [apply IH|discriminate].
Qed.

Lemma seq_sound es : Forall sound es -> forall S r r' o v r1 o1,
  forallb wf es = true -> Forall (C1 S) es -> Forall (C2 S) es -> ~ In 0 (sdom S) -> agree S r r' ->
  eval_seq es (r, o) = (Some v, (r1, o1)) ->
  exists r1', eval_seq (seq_filter (map (fun a => simplify a S true) es)) (r', o) = (Some v, (r1', o1)) /\ agree S r1 r1'.
Proof.
  induction 1 as [|a es Ha Hes IH]; intros S r r' o v r1 o1 Hwf H1 H2 H0 Hag Hev.
  - cbn in Hev. discriminate.
  - cbn [forallb] in Hwf. apply andb_prop in Hwf. destruct Hwf as [Wa Wes].
    inversion H1 as [|? ? H1a H1es]; subst. inversion H2 as [|? ? H2a H2es]; subst.
    destruct es as [|b es].
    + cbn [eval_seq] in Hev. cbn [map seq_filter eval_seq]. apply (Ha S r r' o v r1 o1 Wa H1a H2a H0 Hag Hev).
    + cbn [eval_seq] in Hev. destruct (eval a (r, o)) as [[va|] [r2 o2]] eqn:Ea; [|discriminate].
      destruct (Ha S r r' o va r2 o2 Wa H1a H2a H0 Hag Ea) as (r2' & E2 & A2).
      destruct (IH S r2 r2' o2 v r1 o1 Wes H1es H2es H0 A2 Hev) as (r1' & E1 & A1).
      change (map (fun a0 => simplify a0 S true) (a :: b :: es))
        with (simplify a S true :: map (fun a0 => simplify a0 S true) (b :: es)).
      set (rest := map (fun a0 => simplify a0 S true) (b :: es)) in *.
      assert (seq_filter (simplify a S true :: rest)
              = if droppable (simplify a S true) then seq_filter rest else simplify a S true :: seq_filter rest) as EF.
      { unfold rest. cbn [map seq_filter]. reflexivity. }
      rewrite EF. destruct (droppable (simplify a S true)) eqn:ED.
      * pose proof (droppable_pure _ _ _ _ ED E2) as Es. inversion Es; subst r2' o2. exists r1'. split; assumption.
      * destruct (seq_filter rest) as [|y t] eqn:ER; [exfalso; unfold rest in ER; cbn [map] in ER; exact (seq_filter_nonnil _ _ ER)|].
        exists r1'. cbn [eval_seq]. rewrite E2. split; assumption.
Qed.

Lemma eval_collapse l s : eval (match l with [] => Seq [] | [x] => x | x :: y :: t => Seq (x :: y :: t) end) s = eval_seq l s.
Proof. destruct l as [|x [|y t]]; reflexivity. Qed.

Lemma Forall_app_l {A} (P : A -> Prop) l1 l2 : Forall P (l1 ++ l2) -> Forall P l1.
Proof. intros H. apply Forall_app in H. tauto. Qed.
Lemma Forall_app_r {A} (P : A -> Prop) l1 l2 : Forall P (l1 ++ l2) -> Forall P l2.
Proof. intros H. apply Forall_app in H. tauto. Qed.

Lemma simplify_sound_aux : forall e, sound e /\ match e with Lam _ _ _ _ b => sound b | _ => True end.
Proof.
  induction e using expr_ind2.
  all: try (destruct IHe as [IHe IHe']); try (destruct IHe1 as [IHe1 _]; destruct IHe2 as [IHe2 _]; destruct IHe3 as [IHe3 _]).
  all: try (apply Forall_impl with (Q := sound) in H; [|intros ? [? _]; assumption]).
  all: (split; [|try exact I]); try exact IHe.
  all: unfold sound; intros S r r' o v r1 o1 Hwf H1 H2 H0 Hag Hev.
  - (* Lit *) cbn in *. inversion Hev; subst. exists r'. split; [reflexivity|exact Hag].
  - (* Obj *) cbn in *. inversion Hev; subst. exists r'. split; [reflexivity|exact Hag].
  - (* Ref *)
    cbn [eval fst] in Hev. apply pair_equal_spec in Hev. destruct Hev as [Hv Hs]. inversion Hs; subst r1 o1.
    cbn [simplify]. destruct Hag as [A1 A2].
    destruct (lookup_subst x l S) as [c|] eqn:EL.
    + exists r'. cbn [eval]. rewrite (A1 _ _ _ EL) in Hv. rewrite <- Hv. split; [reflexivity|split; assumption].
    + exists r'. cbn [eval fst]. rewrite <- (A2 _ _ EL), Hv. split; [reflexivity|split; assumption].
  - (* SetE *)
    cbn [eval] in Hev. destruct (eval e (r, o)) as [[c|] [r2 o2]] eqn:Ee; [|discriminate].
    destruct (lookup x l r2) eqn:ELk; [|discriminate]. inversion Hev; subst.
    unfold C1 in H1. cbn [assigned] in H1. inversion H1 as [|? ? HN H1e]; subst. cbn [fst snd] in HN.
    cbn [wf] in Hwf. destruct (IHe S r r' o c r2 o1 Hwf H1e H2 H0 Hag Ee) as (r2' & E2 & A2).
    exists (((x, l), c) :: r2'). cbn [simplify eval]. rewrite E2.
    assert (lookup x l r2' = lookup x l r2) as EQ by (symmetry; apply (proj2 A2); exact HN).
    rewrite EQ, ELk. split; [reflexivity|apply agree_update; assumption].
  - (* Cnd *)
    cbn [eval] in Hev. destruct (eval e1 (r, o)) as [[c|] [r2 o2]] eqn:Et; [|discriminate].
    cbn [wf] in Hwf. apply andb_prop in Hwf. destruct Hwf as [Hwf Wb]. apply andb_prop in Hwf. destruct Hwf as [Wt Wa].
    unfold C1, C2 in H1, H2. cbn [assigned lam_ids] in H1, H2.
    pose proof (Forall_app_l _ _ _ H1) as H1t. pose proof (Forall_app_r _ _ _ H1) as H1ab.
    pose proof (Forall_app_l _ _ _ H1ab) as H1a. pose proof (Forall_app_r _ _ _ H1ab) as H1b.
    pose proof (Forall_app_l _ _ _ H2) as H2t. pose proof (Forall_app_r _ _ _ H2) as H2ab.
    pose proof (Forall_app_l _ _ _ H2ab) as H2a. pose proof (Forall_app_r _ _ _ H2ab) as H2b.
    destruct (IHe1 S r r' o c r2 o2 Wt H1t H2t H0 Hag Et) as (r2' & E2 & A2).
    cbn [simplify]. destruct (simple (simplify e1 S true)) as [c0|] eqn:ES.
    + destruct (simplify e1 S true); cbn [simple] in ES; try discriminate. inversion ES; subst c1.
      cbn in E2. inversion E2; subst c0 r2' o2.
      destruct (const_false c).
      * apply (IHe3 S r2 r' o v r1 o1 Wb H1b H2b H0 A2 Hev).
      * apply (IHe2 S r2 r' o v r1 o1 Wa H1a H2a H0 A2 Hev).
    + cbn [eval]. rewrite E2. destruct (const_false c).
      * apply (IHe3 S r2 r2' o2 v r1 o1 Wb H1b H2b H0 A2 Hev).
      * apply (IHe2 S r2 r2' o2 v r1 o1 Wa H1a H2a H0 A2 Hev).
  - (* Seq *)
    rewrite eval_Seq in Hev. cbn [wf] in Hwf.
    unfold C1, C2 in H1, H2. cbn [assigned lam_ids] in H1, H2.
    destruct (seq_sound es H S r r' o v r1 o1 Hwf (C_flat _ _ _ H1) (C_flatZ _ _ _ H2) H0 Hag Hev) as (r1' & E1 & A1).
    exists r1'. cbn [simplify]. rewrite eval_collapse. split; assumption.
  - (* Lam *) cbn in Hev. discriminate.
  - (* App *)
    cbn [wf] in Hwf. apply andb_prop in Hwf. destruct Hwf as [Wf Wargs].
    unfold C1, C2 in H1, H2. cbn [assigned lam_ids] in H1, H2.
    pose proof (Forall_app_l _ _ _ H1) as H1f. pose proof (C_flat _ _ _ (Forall_app_r _ _ _ H1)) as H1args.
    pose proof (Forall_app_l _ _ _ H2) as H2f. pose proof (C_flatZ _ _ _ (Forall_app_r _ _ _ H2)) as H2args.
    destruct e; try (cbn in Hev; discriminate).
    + (* global procedure: OUT *)
      rewrite eval_App_Ref in Hev. destruct ((x =? OUT) && (loc =? 0)) eqn:EO; [|discriminate].
      apply andb_prop in EO. destruct EO as [Ex El]. apply Z.eqb_eq in Ex, El. subst x loc.
      destruct args as [|a [|b t]]; try discriminate.
      destruct (eval a (r, o)) as [[va|] [r2 o2]] eqn:Ea; [|discriminate]. inversion Hev; subst.
      inversion H as [|? ? Ha _]; subst. cbn [forallb] in Wargs. apply andb_prop in Wargs. destruct Wargs as [Wa _].
      inversion H1args as [|? ? H1a _]; subst. inversion H2args as [|? ? H2a _]; subst.
      destruct (Ha S r r' o va r1 o2 Wa H1a H2a H0 Hag Ea) as (r2' & E2 & A2).
      exists r2'. cbn [simplify map]. rewrite (lookup_subst_none_loc OUT 0 S H0).
      rewrite eval_App_Ref. cbn [OUT]. rewrite E2. split; [reflexivity|exact A2].
    + (* let *)
      rewrite eval_App_Lam in Hev. destruct rest; [discriminate|].
      destruct (Nat.eqb (length ps) (length args)) eqn:ELen; [|discriminate]. apply Nat.eqb_eq in ELen.
      destruct (eval_args args (r, o)) as [[vs|] [r2 o2]] eqn:Eargs; [|discriminate].
      destruct (args_sound args H S r r' o vs r2 o2 Wargs H1args H2args H0 Hag Eargs) as (r2' & E2 & A2).
      cbn [simplify]. unfold proper_len. rewrite map_length. rewrite (proj2 (Nat.eqb_eq _ _) ELen).
      destruct (let_subst id sv ps (map (fun a => simplify a S true) args) S) as [[ps2 args2] S2] eqn:ELS.
      cbn [wf] in Wf. apply andb_prop in Wf. destruct Wf as [Wf Wid0]. apply andb_prop in Wf. destruct Wf as [Wf Wfresh].
      apply andb_prop in Wf. destruct Wf as [Wf Wnd]. apply andb_prop in Wf. destruct Wf as [Wbody Wsv].
      cbn [lam_ids] in H2f. inversion H2f as [|? ? Hid H2bd]; subst. cbn [assigned] in H1f.
      assert (forall p, In p ps -> lookup_subst p id S = None) as Hfr by (intros; apply lookup_subst_none_loc; exact Hid).
      destruct (let_subst_sound id sv ps _ S ps2 args2 S2 vs (r', o) (r2', o2) r2 r2' ELS
                  ltac:(rewrite map_length; exact ELen) (nodupb_NoDup _ Wnd) Hfr E2 A2)
        as (vs2 & E3 & L3 & A3 & N3 & P3).
      assert (C1 S2 e) as H1body.
      { unfold C1. rewrite Forall_forall in H1f |- *. intros k Hk.
        destruct (lookup_subst (fst k) (snd k) S2) as [c|] eqn:EK; [|reflexivity]. exfalso.
        destruct (P3 _ _ _ EK) as [Hs|(El & Hin & Hsv)]; [rewrite (H1f k Hk) in Hs; discriminate|].
        rewrite forallb_forall in Wsv. specialize (Wsv k Hk). apply orb_prop in Wsv.
        destruct Wsv as [Wn|Wm]; [rewrite El, Z.eqb_refl in Wn; discriminate|]. apply Hsv. apply memZ_true. exact Wm. }
      assert (forall l, ~ In l (sdom S) -> l <> id -> ~ In l (sdom S2)) as Hdom.
      { intros l Hl Hne HI. unfold sdom in HI. apply in_map_iff in HI. destruct HI as ([[y m] c] & Em & HIn). cbn in Em. subst m.
        assert (exists c', lookup_subst y l S2 = Some c') as (c' & Ec').
        { clear - HIn. induction S2 as [|[[y2 m2] c2] S2 IH]; [destruct HIn|]. cbn [lookup_subst].
          destruct ((y2 =? y) && (m2 =? l)) eqn:E; [eexists; reflexivity|]. destruct HIn as [Eq|HIn]; [|apply IH; exact HIn].
          inversion Eq; subst. rewrite !Z.eqb_refl in E. discriminate. }
        destruct (P3 _ _ _ Ec') as [Hs|(El & _)]; [|contradiction].
        rewrite (lookup_subst_none_loc y l S Hl) in Hs. discriminate. }
      assert (C2 S2 e) as H2body.
      { unfold C2. rewrite Forall_forall in H2bd |- *. intros l Hl. apply Hdom; [apply H2bd; exact Hl|].
        intros ->. apply negb_true_iff in Wfresh. apply memZ_false in Wfresh. contradiction. }
      assert (~ In 0 (sdom S2)) as H0'.
      { apply Hdom; [exact H0|]. apply negb_true_iff in Wid0. apply Z.eqb_neq in Wid0. congruence. }
      destruct (eval e (bind id ps vs r2, o2)) as [vb [rb ob]] eqn:Eb. inversion Hev; subst vb r1 ob. clear Hev.
      destruct (IHe' S2 _ _ o2 v rb o1 Wbody H1body H2body H0' A3 Eb) as (r1' & E4 & A4).
      exists (pop id r1'). rewrite eval_App_Lam. rewrite (proj2 (Nat.eqb_eq _ _) L3), E3, E4. split; [reflexivity|].
      destruct A4 as [A41 A42]. destruct Hag as [G1 G2]. split.
      * intros x l c Hx. rewrite lookup_pop.
        assert (l <> id) as Hl by (intros ->; rewrite (lookup_subst_none_loc x id S Hid) in Hx; discriminate).
        destruct (Z.eqb_spec l id); [contradiction|].
        apply A41. destruct (lookup_subst x l S2) as [c2|] eqn:EK.
        -- destruct (P3 _ _ _ EK) as [Hs|(El & _)]; [congruence|contradiction].
        -- rewrite (N3 _ _ EK) in Hx. discriminate.
      * intros x l Hx. rewrite !lookup_pop. destruct (Z.eqb_spec l id) as [->|Hl]; [reflexivity|].
        apply A42. destruct (lookup_subst x l S2) as [c2|] eqn:EK; [|reflexivity]. exfalso.
        destruct (P3 _ _ _ EK) as [Hs|(El & _)]; [congruence|contradiction].
    + (* opcode *)
      rewrite eval_App_Op in Hev.
      destruct (eval_args args (r, o)) as [[vs|] [r2 o2]] eqn:Eargs; [|discriminate]. inversion Hev; subst.
      destruct (args_sound args H S r r' o vs r1 o1 Wargs H1args H2args H0 Hag Eargs) as (r2' & E2 & A2).
      cbn [simplify]. destruct (is_arith o0); [|exists r2'; rewrite eval_App_Op, E2; split; [reflexivity|exact A2]].
      destruct (all_simple (map (fun a => simplify a S true) args)) as [cs|] eqn:EAS;
        [|exists r2'; rewrite eval_App_Op, E2; split; [reflexivity|exact A2]].
      rewrite (all_simple_eval _ _ (r', o) EAS) in E2. inversion E2; subst cs r2' o1.
      destruct (prim_eval o0 vs) as [c|] eqn:EP.
      * exists r'. cbn [eval]. split; [reflexivity|exact A2].
      * discriminate.
  - (* Op *) cbn in Hev. discriminate.
Qed.

Theorem simplify_sound_gen : forall e, sound e.
Proof. intros e. apply simplify_sound_aux. Qed.

(** the pass as it is applied to the body of a lambda (empty substitution list): a program of the let-fragment with a
    defined result keeps its result and its output; all variables keep their values. *)
Theorem simplify_sound_body : forall e r o v r1 o1,
  wf e = true -> eval e (r, o) = (Some v, (r1, o1)) ->
  exists r1', eval (simplify e [] true) (r, o) = (Some v, (r1', o1)) /\ forall x l, lookup x l r1 = lookup x l r1'.
Proof.
  intros e r o v r1 o1 Hwf Hev.
  destruct (simplify_sound_gen e [] r r o v r1 o1 Hwf) as (r1' & E & A1 & A2); auto.
  - unfold C1. apply Forall_forall. reflexivity.
  - unfold C2. apply Forall_forall. intros x _ [].
  - split; [intros x l c Hx; discriminate|reflexivity].
  - exists r1'. split; [exact E|]. intros x l. apply A2. reflexivity.
Qed.

(** sub-lemmas of the design, as corollaries / direct facts *)
Theorem fold_only_when_value : forall o args S il c,
  simplify (App (Op o) args) S il = Lit c ->
  exists cs, all_simple (map (fun a => simplify a S il) args) = Some cs /\ prim_eval o cs = Some c /\ is_arith o = true.
Proof.
  intros o args S il c H. cbn [simplify] in H.
  destruct (is_arith o); [|discriminate].
  destruct (all_simple (map (fun a => simplify a S il) args)) as [cs|]; [|discriminate].
  destruct (prim_eval o cs) as [r|] eqn:E; [|discriminate]. inversion H; subst. exists cs. auto.
Qed.

Theorem dead_branch_sound : forall c a b S il,
  simplify (Cnd (Lit c) a b) S il = if const_false c then simplify b S il else simplify a S il.
Proof. reflexivity. Qed.

(** non-vacuity: a program with shadowing, an assigned parameter, a foldable test and dropped statements *)
Definition ex_prog : expr :=
  App (Lam 1 [10; 11] false [11] (Seq [Ref 10 1; SetE 11 1 (App (Op 0) [Ref 11 1; Ref 10 1]);
                                        App (Ref OUT 0) [Ref 11 1];
                                        Cnd (App (Op 0) [Lit (CInt 1)]) (App (Lam 2 [10] false [] (App (Op 1) [Ref 10 2; Ref 11 1])) [Lit (CInt 3)]) (Lit (CInt 0))]))
      [Lit (CInt 5); Lit (CInt 7)].

Example ex_prog_defined : wf ex_prog = true /\ eval ex_prog ([], []) = (Some (CInt 36), ([], [CInt 12])).
Proof. vm_compute. split; reflexivity. Qed.

Example ex_prog_simplified :
  simplify ex_prog [] true
  = App (Lam 1 [11] false [11] (Seq [SetE 11 1 (App (Op 0) [Ref 11 1; Lit (CInt 5)]); App (Ref OUT 0) [Ref 11 1];
                                       App (Lam 2 [] false [] (App (Op 1) [Lit (CInt 3); Ref 11 1])) []])) [Lit (CInt 7)]
  /\ eval (simplify ex_prog [] true) ([], []) = (Some (CInt 36), ([], [CInt 12])).
Proof. vm_compute. split; reflexivity. Qed.

(** ------------------------------------------------------------------ the entry point sexp_simplify (no enclosing lambda:
    the `lambda &&` guard keeps let bodies untouched, only folding / literal tests / statement dropping happen) *)
Definition sound0 (e : expr) : Prop := forall s v s1, eval e s = (Some v, s1) -> eval (simplify e [] false) s = (Some v, s1).

Lemma args_sound0 es : Forall sound0 es -> forall s vs s1,
  eval_args es s = (Some vs, s1) -> eval_args (map (fun a => simplify a [] false) es) s = (Some vs, s1).
Proof.
  induction 1 as [|a es Ha Hes IH]; intros s vs s1 Hev; [exact Hev|].
  cbn [eval_args] in Hev. destruct (eval_args es s) as [[vs'|] s2] eqn:Ees; [|discriminate].
  destruct (eval a s2) as [[v|] s3] eqn:Ea; [|discriminate]. inversion Hev; subst.
  cbn [map eval_args]. rewrite (IH _ _ _ Ees), (Ha _ _ _ Ea). reflexivity.
Qed.

Lemma seq_sound0 es : Forall sound0 es -> forall s v s1,
  eval_seq es s = (Some v, s1) -> eval_seq (seq_filter (map (fun a => simplify a [] false) es)) s = (Some v, s1).
Proof.
  induction 1 as [|a es Ha Hes IH]; intros s v s1 Hev; [cbn in Hev; discriminate|].
  destruct es as [|b es].
  - cbn [eval_seq] in Hev. cbn [map seq_filter eval_seq]. apply Ha. exact Hev.
  - cbn [eval_seq] in Hev. destruct (eval a s) as [[va|] s2] eqn:Ea; [|discriminate].
    pose proof (Ha _ _ _ Ea) as E2. pose proof (IH _ _ _ Hev) as E1.
    change (map (fun a0 => simplify a0 [] false) (a :: b :: es))
      with (simplify a [] false :: map (fun a0 => simplify a0 [] false) (b :: es)).
    set (rest := map (fun a0 => simplify a0 [] false) (b :: es)) in *.
    assert (seq_filter (simplify a [] false :: rest)
            = if droppable (simplify a [] false) then seq_filter rest else simplify a [] false :: seq_filter rest) as EF.
    { unfold rest. cbn [map seq_filter]. reflexivity. }
    rewrite EF. destruct (droppable (simplify a [] false)) eqn:ED.
    + pose proof (droppable_pure _ _ _ _ ED E2) as Es. subst s2. exact E1.
    + destruct (seq_filter rest) as [|y t] eqn:ER; [exfalso; unfold rest in ER; cbn [map] in ER; exact (seq_filter_nonnil _ _ ER)|].
      cbn [eval_seq]. rewrite E2. exact E1.
Qed.

Theorem sexp_simplify_sound_gen : forall e, sound0 e.
Proof.
  induction e using expr_ind2; unfold sound0; intros s v s1 Hev.
  - exact Hev.
  - exact Hev.
  - exact Hev.
  - cbn [eval] in Hev. destruct (eval e s) as [[c|] [r2 o2]] eqn:Ee; [|discriminate].
    cbn [simplify eval]. rewrite (IHe _ _ _ Ee). exact Hev.
  - cbn [eval] in Hev. destruct (eval e1 s) as [[c|] s2] eqn:Et; [|discriminate].
    pose proof (IHe1 _ _ _ Et) as E2. cbn [simplify].
    destruct (simple (simplify e1 [] false)) as [c0|] eqn:ES.
    + destruct (simplify e1 [] false); cbn [simple] in ES; try discriminate. inversion ES; subst c1.
      cbn in E2. inversion E2; subst c0 s2.
      destruct (const_false c); [apply IHe3|apply IHe2]; exact Hev.
    + cbn [eval]. rewrite E2. destruct (const_false c); [apply IHe3|apply IHe2]; exact Hev.
  - rewrite eval_Seq in Hev. cbn [simplify]. rewrite eval_collapse. apply seq_sound0; assumption.
  - cbn in Hev. discriminate.
  - destruct e; try (cbn in Hev; discriminate).
    + rewrite eval_App_Ref in Hev. destruct ((x =? OUT) && (loc =? 0)) eqn:EO; [|discriminate].
      destruct args as [|a [|b t]]; try discriminate.
      destruct (eval a s) as [[va|] [r2 o2]] eqn:Ea; [|discriminate].
      inversion H as [|? ? Ha _]; subst. cbn [simplify map lookup_subst]. rewrite eval_App_Ref, EO, (Ha _ _ _ Ea). exact Hev.
    + rewrite eval_App_Lam in Hev. destruct rest; [discriminate|].
      destruct (Nat.eqb (length ps) (length args)) eqn:ELen; [|discriminate].
      destruct (eval_args args s) as [[vs|] [r2 o2]] eqn:Eargs; [|discriminate].
      cbn [simplify]. rewrite eval_App_Lam, map_length, ELen, (args_sound0 _ H _ _ _ Eargs). exact Hev.
    + rewrite eval_App_Op in Hev. destruct (eval_args args s) as [[vs|] s2] eqn:Eargs; [|discriminate]. inversion Hev; subst.
      pose proof (args_sound0 _ H _ _ _ Eargs) as E2.
      cbn [simplify]. destruct (is_arith o); [|rewrite eval_App_Op, E2; reflexivity].
      destruct (all_simple (map (fun a => simplify a [] false) args)) as [cs|] eqn:EAS; [|rewrite eval_App_Op, E2; reflexivity].
      rewrite (all_simple_eval _ _ s EAS) in E2. inversion E2; subst cs s1.
      destruct (prim_eval o vs) as [c|] eqn:EP; [reflexivity|discriminate].
  - cbn in Hev. discriminate.
Qed.

Theorem sexp_simplify_sound : forall e s v s1, eval e s = (Some v, s1) -> eval (sexp_simplify e) s = (Some v, s1).
Proof. intros e s v s1 H. apply (sexp_simplify_sound_gen e s v s1 H). Qed.
