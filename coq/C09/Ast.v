(** C09 (B): the analysed core AST that simplify.c works on, as far as the pass looks at it.
    Names are numbers; a reference carries the identity of its binder (ref_loc): the id of the binding lambda, 0 = global. *)
From Coq Require Export ZArith List Bool Lia.
Export ListNotations.
Local Open Scope Z_scope.

Inductive const : Type :=
| CInt (z : Z)          (* exact integer (fixnum or bignum) *)
| CRat (n : Z) (d : positive)   (* exact ratio n/d in lowest terms, d > 1 (round 2: results of /) *)
| CBool (b : bool)
| CVoid                 (* the unspecified value *)
| COther (tag : Z).     (* any other constant: string, character, symbol, quoted list, flonum ...; true as a test, not a number *)

Inductive expr : Type :=
| Lit (c : const)                       (* an immediate or a sexp_lit node: simplify.c treats the two alike *)
| Obj (c : const)                       (* a heap literal analyze passed through as itself (string, bignum, flonum): a pointer that is not a lit *)
| Ref (x loc : Z)
| SetE (x loc : Z) (e : expr)
| Cnd (t a b : expr)
| Seq (es : list expr)
| Lam (id : Z) (ps : list Z) (rest : bool) (sv : list Z) (body : expr)   (* rest: the last of ps is a rest parameter; sv = lambda-set-vars *)
| App (f : expr) (args : list expr)
| Op (o : Z).                           (* an opcode object (operator position): 0 + | 1 * | 2 - | 3 / | 4 quotient | 5 remainder | >= 10 other classes *)

Definition const_eqb (a b : const) : bool :=
  match a, b with
  | CInt x, CInt y => x =? y
  | CRat n d, CRat m e => (n =? m) && (Pos.eqb d e)
  | CBool x, CBool y => Bool.eqb x y
  | CVoid, CVoid => true
  | COther x, COther y => x =? y
  | _, _ => false
  end.

(** induction principle that reaches into the lists *)
Section ExprInd.
  Variable P : expr -> Prop.
  Hypothesis HLit : forall c, P (Lit c).
  Hypothesis HObj : forall c, P (Obj c).
  Hypothesis HRef : forall x l, P (Ref x l).
  Hypothesis HSet : forall x l e, P e -> P (SetE x l e).
  Hypothesis HCnd : forall t a b, P t -> P a -> P b -> P (Cnd t a b).
  Hypothesis HSeq : forall es, Forall P es -> P (Seq es).
  Hypothesis HLam : forall id ps rest sv body, P body -> P (Lam id ps rest sv body).
  Hypothesis HApp : forall f args, P f -> Forall P args -> P (App f args).
  Hypothesis HOp : forall opc, P (Op opc).

  Fixpoint expr_ind2 (e : expr) : P e :=
    match e with
    | Lit c => HLit c
    | Obj c => HObj c
    | Ref x l => HRef x l
    | SetE x l e1 => HSet x l e1 (expr_ind2 e1)
    | Cnd t a b => HCnd t a b (expr_ind2 t) (expr_ind2 a) (expr_ind2 b)
    | Seq es => HSeq es ((fix go (l : list expr) : Forall P l :=
                            match l with [] => Forall_nil P | x :: r => Forall_cons x (expr_ind2 x) (go r) end) es)
    | Lam id ps rest sv body => HLam id ps rest sv body (expr_ind2 body)
    | App f args => HApp f args (expr_ind2 f)
                      ((fix go (l : list expr) : Forall P l :=
                          match l with [] => Forall_nil P | x :: r => Forall_cons x (expr_ind2 x) (go r) end) args)
    | Op opc => HOp opc
    end.
End ExprInd.
