(** C09 (B), round 3: the pass and the unused-rest-parameter analysis (Rest.v) interact soundly.
    T1 the pass never introduces a use; T2 a variable no code uses is irrelevant for evaluation (SPEC = Sem3.eval3);
    T3 not binding an unused, unboxed rest parameter changes nothing; T4 the defect of the analysis before the repair. *)
From ChibiV Require Import C09.Ast C09.Simplify C09.Rest C09.Sem3.
Local Open Scope Z_scope.

(** ------------------------------------------------------------------ T1: simplify never introduces a use *)
Lemma usedp_seq_filter x l : forall es,
  existsb (usedp x l) (seq_filter es) = true -> existsb (usedp x l) es = true.
Proof.
  induction es as [|a t IH]; intros H; [exact H|].
  destruct t as [|b t]; [exact H|].
  assert (seq_filter (a :: b :: t) = if droppable a then seq_filter (b :: t) else a :: seq_filter (b :: t)) as EF by reflexivity.
  rewrite EF in H.
  change (existsb (usedp x l) (a :: b :: t)) with (usedp x l a || existsb (usedp x l) (b :: t)).
  destruct (droppable a).
  - rewrite (IH H). apply orb_true_r.
  - change (existsb (usedp x l) (a :: seq_filter (b :: t))) with (usedp x l a || existsb (usedp x l) (seq_filter (b :: t))) in H.
    apply orb_prop in H. destruct H as [H|H]; [rewrite H; reflexivity|]. rewrite (IH H). apply orb_true_r.
Qed.

Lemma usedp_let_subst x l id sv : forall ps args S ps2 args2 S2,
  let_subst id sv ps args S = (ps2, args2, S2) ->
  existsb (usedp x l) args2 = true -> existsb (usedp x l) args = true.
Proof.
  induction ps as [|p ps IH]; intros args S ps2 args2 S2 H HE.
  - cbn [let_subst] in H. inversion H; subst. exact HE.
  - destruct args as [|a args].
    + cbn [let_subst] in H. inversion H; subst. exact HE.
    + cbn [let_subst] in H. destruct (if memZ p sv then None else simple a) as [c|].
      * cbn [existsb]. rewrite (IH _ _ _ _ _ H HE). apply orb_true_r.
      * destruct (let_subst id sv ps args S) as [[ps3 args3] S3] eqn:EL. inversion H; subst.
        cbn [existsb] in *. apply orb_prop in HE. destruct HE as [HE|HE]; [rewrite HE; reflexivity|].
        rewrite (IH _ _ _ _ _ EL HE). apply orb_true_r.
Qed.

Lemma usedp_map x l (f : expr -> expr) : forall es,
  Forall (fun e => usedp x l (f e) = true -> usedp x l e = true) es ->
  existsb (usedp x l) (map f es) = true -> existsb (usedp x l) es = true.
Proof.
  induction es as [|a t IH]; intros HF H; [exact H|].
  inversion HF as [|? ? Ha Ht]; subst. cbn [map existsb] in *.
  apply orb_prop in H. destruct H as [H|H]; [rewrite (Ha H); reflexivity|]. rewrite (IH Ht H). apply orb_true_r.
Qed.

Lemma usedp_collapse x l es :
  usedp x l (match es with [] => Seq [] | [y] => y | y :: z :: t => Seq (y :: z :: t) end) = existsb (usedp x l) es.
Proof.
  destruct es as [|y [|z t]]; [reflexivity| |reflexivity].
  cbn [existsb]. rewrite orb_false_r. reflexivity.
Qed.

Lemma simplify_App_cases f args S il :
  match f with Lam _ _ _ _ _ => false | _ => true end = true ->
  simplify (App f args) S il = App (simplify f S il) (map (fun a => simplify a S il) args)
  \/ exists c, simplify (App f args) S il = Lit c.
Proof.
  intros H. cbn [simplify].
  destruct f; try discriminate; cbv beta iota zeta.
  all: match goal with |- (match ?F with _ => _ end = _) \/ _ => generalize F end; intros f'.
  all: destruct f' as [| | | | | | | |o2]; try (left; reflexivity).
  all: destruct (is_arith o2); [|left; reflexivity].
  all: match goal with |- (match ?F with _ => _ end = _) \/ _ => destruct F as [cs|] end; [|left; reflexivity].
  all: destruct (prim_eval o2 cs) as [c2|]; [right; exists c2; reflexivity|left; reflexivity].
Qed.

Lemma simplify_App_Lam id ps rest sv body args S il :
  simplify (App (Lam id ps rest sv body) args) S il =
  if il then
    if Nat.eqb (proper_len ps rest) (length (map (fun a => simplify a S il) args)) then
      let '(ps2, args2, S2) := let_subst id sv ps (map (fun a => simplify a S il) args) S in
      App (Lam id ps2 rest sv (simplify body S2 true)) args2
    else App (Lam id ps rest sv (simplify body S true)) (map (fun a => simplify a S il) args)
  else App (Lam id ps rest sv body) (map (fun a => simplify a S il) args).
Proof. reflexivity. Qed.

Theorem usedp_simplify : forall e x l S il, usedp x l (simplify e S il) = true -> usedp x l e = true.
Proof.
  intros e x l. revert e.
  apply (expr_ind2 (fun e => forall S il, usedp x l (simplify e S il) = true -> usedp x l e = true)).
  - (* Lit *) intros c S il H. exact H.
  - (* Obj *) intros c S il H. exact H.
  - (* Ref *) intros y m S il H. cbn [simplify] in H. destruct (lookup_subst y m S); [discriminate|exact H].
  - (* SetE *) intros y m e IHe S il H. cbn [simplify usedp] in *.
    apply orb_prop in H. destruct H as [H|H]; [rewrite H; reflexivity|]. rewrite (IHe _ _ H). apply orb_true_r.
  - (* Cnd *) intros t a b IHt IHa IHb S il H. cbn [simplify] in H. cbn [usedp].
    destruct (simple (simplify t S il)) as [c|].
    + destruct (const_false c).
      * rewrite (IHb _ _ H). apply orb_true_r.
      * rewrite (IHa _ _ H). rewrite orb_true_r. reflexivity.
    + cbn [usedp] in H. apply orb_prop in H. destruct H as [H|H].
      * apply orb_prop in H. destruct H as [H|H].
        -- rewrite (IHt _ _ H). reflexivity.
        -- rewrite (IHa _ _ H). rewrite orb_true_r. reflexivity.
      * rewrite (IHb _ _ H). apply orb_true_r.
  - (* Seq *) intros es IHes S il H.
    change (simplify (Seq es) S il) with (match seq_filter (map (fun a => simplify a S il) es) with [y] => y | es' => Seq es' end) in H.
    rewrite usedp_collapse in H. cbn [usedp].
    apply usedp_seq_filter in H. apply (usedp_map x l (fun a => simplify a S il)); [|exact H].
    apply Forall_forall. intros a Ha. apply (proj1 (Forall_forall _ _) IHes a Ha).
  - (* Lam *) intros id ps rest sv body IHb S il H. cbn [simplify usedp] in *. apply (IHb _ _ H).
  - (* App *) intros f args IHf IHargs S il H. cbn [usedp].
    assert (forall S' il', existsb (usedp x l) (map (fun a => simplify a S' il') args) = true -> existsb (usedp x l) args = true) as IHA.
    { intros S' il' HA. apply (usedp_map x l (fun a => simplify a S' il')); [|exact HA].
      apply Forall_forall. intros a Ha. apply (proj1 (Forall_forall _ _) IHargs a Ha). }
    destruct (match f with Lam _ _ _ _ _ => false | _ => true end) eqn:Ef.
    + destruct (simplify_App_cases f args S il Ef) as [E|[c E]]; rewrite E in H; [|discriminate].
      cbn [usedp] in H. apply orb_prop in H. destruct H as [H|H]; [rewrite (IHf _ _ H); reflexivity|].
      rewrite (IHA _ _ H). apply orb_true_r.
    + destruct f as [| | | | | |id ps rest sv body| |]; try discriminate.
      assert (forall S', usedp x l (simplify body S' true) = true -> usedp x l body = true) as IHb.
      { intros S' Hb. apply (IHf S' true). exact Hb. }
      rewrite simplify_App_Lam in H. cbn [usedp]. destruct il.
      * destruct (Nat.eqb (proper_len ps rest) (length (map (fun a => simplify a S true) args))).
        -- destruct (let_subst id sv ps (map (fun a => simplify a S true) args) S) as [[ps2 args2] S2] eqn:EL.
           cbn [usedp] in H. apply orb_prop in H. destruct H as [H|H]; [rewrite (IHb _ H); reflexivity|].
           rewrite (IHA _ _ (usedp_let_subst x l id sv _ _ _ _ _ _ EL H)). apply orb_true_r.
        -- cbn [usedp] in H. apply orb_prop in H. destruct H as [H|H]; [rewrite (IHb _ H); reflexivity|].
           rewrite (IHA _ _ H). apply orb_true_r.
      * cbn [usedp] in H. apply orb_prop in H. destruct H as [H|H]; [rewrite H; reflexivity|].
        rewrite (IHA _ _ H). apply orb_true_r.
  - (* Op *) intros o S il H. exact H.
Qed.

(** ------------------------------------------------------------------ unfolding eval3 *)
Definition args_in3 (m : nat) (r : env3) : list expr -> store3 -> list dat -> option (list val3 * store3 * list dat) :=
  fix args (es : list expr) (s : store3) (o : list dat) : option (list val3 * store3 * list dat) :=
    match es with
    | [] => Some ([], s, o)
    | a :: t => match args t s o with
                | Some (vs, s1, o1) => match eval3 m a r s1 o1 with
                                       | Some (v, s2, o2) => Some (v :: vs, s2, o2)
                                       | None => None
                                       end
                | None => None
                end
    end.

Definition seq_in3 (m : nat) (r : env3) : list expr -> store3 -> list dat -> res3 :=
  fix seq (es : list expr) (s : store3) (o : list dat) : res3 :=
    match es with
    | [] => None
    | [a] => eval3 m a r s o
    | a :: t => match eval3 m a r s o with Some (_, s1, o1) => seq t s1 o1 | None => None end
    end.

Lemma seq_in3_eq m r es : forall s o, seq_in3 m r es s o = seq3 m es r s o.
Proof.
  induction es as [|a t IH]; intros s o; [reflexivity|].
  destruct t as [|b t]; [reflexivity|].
  change (seq_in3 m r (a :: b :: t) s o) with (match eval3 m a r s o with Some (_, s1, o1) => seq_in3 m r (b :: t) s1 o1 | None => None end).
  change (seq3 m (a :: b :: t) r s o) with (match eval3 m a r s o with Some (_, s1, o1) => seq3 m (b :: t) r s1 o1 | None => None end).
  destruct (eval3 m a r s o) as [[[v s1] o1]|]; [apply IH|reflexivity].
Qed.

Lemma args_in3_eq m r es : forall s o, args_in3 m r es s o = args3 m es r s o.
Proof.
  induction es as [|a t IH]; intros s o; [reflexivity|].
  change (args_in3 m r (a :: t) s o) with (match args_in3 m r t s o with
                | Some (vs, s1, o1) => match eval3 m a r s1 o1 with Some (v, s2, o2) => Some (v :: vs, s2, o2) | None => None end
                | None => None end).
  rewrite IH. reflexivity.
Qed.

Definition clo_apply (m : nat) (id : Z) (ps : list Z) (rest : bool) (sv : list Z) (body : expr)
    (vs : list val3) (rc : env3) (s : store3) (o : list dat) : res3 :=
  match actuals ps rest vs with
  | Some ws => let '(r3, s3) := bind3 id sv ps ws rc s in eval3 m body r3 s3 o
  | None => None
  end.

Definition generic3 (m : nat) (f : expr) (es : list expr) (r : env3) (s : store3) (o : list dat) : res3 :=
  match args3 m es r s o with
  | Some (vs, s1, o1) =>
      match eval3 m f r s1 o1 with
      | Some (V3Clo (Lam id ps rest sv body) rc, s2, o2) => clo_apply m id ps rest sv body vs rc s2 o2
      | _ => None
      end
  | None => None
  end.

Lemma eval3_Lit m c r s o : eval3 (S m) (Lit c) r s o = Some (V3C c, s, o).
Proof. reflexivity. Qed.
Lemma eval3_Obj m c r s o : eval3 (S m) (Obj c) r s o = Some (V3C c, s, o).
Proof. reflexivity. Qed.
Lemma eval3_Ref m x loc r s o :
  eval3 (S m) (Ref x loc) r s o =
  match lookup3 x loc r with
  | Some (D3 v) => Some (v, s, o)
  | Some (B3 l) => match nth_error s l with Some v => Some (v, s, o) | None => None end
  | None => None
  end.
Proof. reflexivity. Qed.
Lemma eval3_SetE m x loc v r s o :
  eval3 (S m) (SetE x loc v) r s o =
  match eval3 m v r s o with
  | Some (w, s1, o1) => match lookup3 x loc r with
                        | Some (B3 l) => if Nat.ltb l (length s1) then Some (V3C CVoid, update3 l w s1, o1) else None
                        | _ => None
                        end
  | None => None
  end.
Proof. reflexivity. Qed.
Lemma eval3_Cnd m t a b r s o :
  eval3 (S m) (Cnd t a b) r s o =
  match eval3 m t r s o with
  | Some (tv, s1, o1) => if truthy tv then eval3 m a r s1 o1 else eval3 m b r s1 o1
  | None => None
  end.
Proof. reflexivity. Qed.
Lemma eval3_Seq m es r s o : eval3 (S m) (Seq es) r s o = seq3 m es r s o.
Proof. rewrite <- seq_in3_eq. reflexivity. Qed.
Lemma eval3_Lam m id ps rest sv body r s o :
  eval3 (S m) (Lam id ps rest sv body) r s o = Some (V3Clo (Lam id ps rest sv body) r, s, o).
Proof. reflexivity. Qed.
Lemma eval3_Opv m op r s o : eval3 (S m) (Op op) r s o = None.
Proof. reflexivity. Qed.

Lemma eval3_App m f es r s o :
  eval3 (S m) (App f es) r s o =
  match f with
  | Op op => match args3 m es r s o with
             | Some (vs, s1, o1) =>
                 if is_data_op op then match data_eval op vs with Some v => Some (v, s1, o1) | None => None end
                 else match consts3_of vs with
                      | Some cs => match prim_eval op cs with Some c => Some (V3C c, s1, o1) | None => None end
                      | None => None
                      end
             | None => None
             end
  | Lam id ps rest sv body =>
      match args3 m es r s o with
      | Some (vs, s1, o1) => clo_apply m id ps rest sv body vs r s1 o1
      | None => None
      end
  | Ref x loc =>
      if (loc =? 0) && is_global_proc x then
        match args3 m es r s o with
        | Some (vs, s1, o1) => match global_apply x vs o1 with Some (v, o2) => Some (v, s1, o2) | None => None end
        | None => None
        end
      else generic3 m f es r s o
  | _ => generic3 m f es r s o
  end.
Proof. unfold generic3, clo_apply. rewrite <- args_in3_eq. destruct f; reflexivity. Qed.

(** ------------------------------------------------------------------ what the repaired analysis guarantees *)
Lemma rest_unused_not_boxed id ps sv body :
  rest_unused (Lam id ps true sv body) = true ->
  exists fixed rp, ps = fixed ++ [rp] /\ memZ rp sv = false /\ usedp rp id body = false.
Proof.
  cbn [rest_unused]. destruct (rev ps) as [|rp t] eqn:ER; [discriminate|]. intros H.
  apply andb_prop in H. destruct H as [H1 H2]. exists (rev t), rp. split.
  - rewrite <- (rev_involutive ps), ER. reflexivity.
  - split; apply negb_true_iff; assumption.
Qed.

(** ------------------------------------------------------------------ T2: an unused variable is irrelevant *)
Inductive vsame (x l : Z) : val3 -> val3 -> Prop :=
| VS_c c : vsame x l (V3C c) (V3C c)
| VS_pair a a' d d' : vsame x l a a' -> vsame x l d d' -> vsame x l (V3Pair a d) (V3Pair a' d')
| VS_vec e e' : vsame x l e e' -> vsame x l (V3Vec e) (V3Vec e')
| VS_clo lam r r' : usedp x l lam = false ->
    (forall y m, (y =? x) && (m =? l) = false -> ssame x l (lookup3 y m r) (lookup3 y m r')) ->
    vsame x l (V3Clo lam r) (V3Clo lam r')
with ssame (x l : Z) : option slot3 -> option slot3 -> Prop :=
| SS_none : ssame x l None None
| SS_d v v' : vsame x l v v' -> ssame x l (Some (D3 v)) (Some (D3 v'))
| SS_b k : ssame x l (Some (B3 k)) (Some (B3 k)).

Definition envsame x l (r r' : env3) : Prop :=
  forall y m, (y =? x) && (m =? l) = false -> ssame x l (lookup3 y m r) (lookup3 y m r').
Definition storesame x l (s s' : store3) : Prop := Forall2 (vsame x l) s s'.

Section Same.
  Variables x l : Z.

  Lemma vsame_data_of : forall v v', vsame x l v v' -> data_of v = data_of v'.
  Proof.
    induction v as [c|a IHa d IHd|e IHe|lam r]; intros v' H; inversion H as [|? a' ? d' Ha Hd|? e' He|]; subst; cbn [data_of].
    - reflexivity.
    - rewrite (IHa _ Ha), (IHd _ Hd). reflexivity.
    - rewrite (IHe _ He). reflexivity.
    - reflexivity.
  Qed.

  Lemma vsame_truthy v v' : vsame x l v v' -> truthy v = truthy v'.
  Proof. intros H. inversion H; reflexivity. Qed.

  Lemma vsame_chain_len : forall v v', vsame x l v v' -> chain_len v = chain_len v'.
  Proof.
    induction v as [c|a IHa d IHd|e IHe|lam r]; intros v' H; inversion H as [|? a' ? d' Ha Hd|? e' He|]; subst; cbn [chain_len].
    - reflexivity.
    - rewrite (IHd _ Hd). reflexivity.
    - reflexivity.
    - reflexivity.
  Qed.

  Lemma vsame_chain_nth : forall v n v' w, vsame x l v v' -> chain_nth n v = Some w ->
    exists w', chain_nth n v' = Some w' /\ vsame x l w w'.
  Proof.
    induction v as [c|a IHa d IHd|e IHe|lam r]; intros n v' w H E; destruct n as [|k]; cbn [chain_nth] in E; try discriminate;
      inversion H as [|? a' ? d' Ha Hd|? e' He|]; subst; cbn [chain_nth].
    - inversion E; subst. exists a'. split; [reflexivity|exact Ha].
    - apply (IHd _ _ _ Hd E).
  Qed.

  Lemma vsame_list_of vs vs' : Forall2 (vsame x l) vs vs' -> vsame x l (list_of vs) (list_of vs').
  Proof. induction 1 as [|v v' t t' Hv Ht IH]; cbn [list_of]; constructor; assumption. Qed.

  Lemma vsame_consts3_of vs vs' : Forall2 (vsame x l) vs vs' -> consts3_of vs = consts3_of vs'.
  Proof.
    induction 1 as [|v v' t t' Hv Ht IH]; [reflexivity|].
    unfold consts3_of in *. destruct Hv; try reflexivity. rewrite IH. reflexivity.
  Qed.

  Lemma Forall2_len (R : val3 -> val3 -> Prop) vs vs' : Forall2 R vs vs' -> length vs = length vs'.
  Proof. induction 1 as [|v v' t t' Hv Ht IH]; [reflexivity|]. cbn [length]. rewrite IH. reflexivity. Qed.

  Lemma Forall2_firstn_same (R : val3 -> val3 -> Prop) : forall n vs vs', Forall2 R vs vs' -> Forall2 R (firstn n vs) (firstn n vs').
  Proof.
    induction n as [|n IH]; intros vs vs' H; [constructor|].
    destruct H as [|v v' t t' Hv Ht]; cbn [firstn]; constructor; [exact Hv|apply IH; exact Ht].
  Qed.

  Lemma Forall2_skipn_same (R : val3 -> val3 -> Prop) : forall n vs vs', Forall2 R vs vs' -> Forall2 R (skipn n vs) (skipn n vs').
  Proof.
    induction n as [|n IH]; intros vs vs' H; [exact H|].
    destruct H as [|v v' t t' Hv Ht]; cbn [skipn]; [constructor|apply IH; exact Ht].
  Qed.

  Lemma actuals_same ps rest vs vs' ws : Forall2 (vsame x l) vs vs' -> actuals ps rest vs = Some ws ->
    exists ws', actuals ps rest vs' = Some ws' /\ Forall2 (vsame x l) ws ws'.
  Proof.
    intros HF. unfold actuals. rewrite <- (Forall2_len _ _ _ HF). destruct rest.
    - destruct (Nat.leb (pred (length ps)) (length vs)); [|discriminate]. intros E. inversion E; subst.
      eexists. split; [reflexivity|]. apply Forall2_app.
      + apply Forall2_firstn_same. exact HF.
      + constructor; [|constructor]. apply vsame_list_of. apply Forall2_skipn_same. exact HF.
    - destruct (Nat.eqb (length ps) (length vs)); [|discriminate]. intros E. inversion E; subst.
      exists vs'. split; [reflexivity|exact HF].
  Qed.

  Lemma data_eval_same op vs vs' v : Forall2 (vsame x l) vs vs' -> data_eval op vs = Some v ->
    exists v', data_eval op vs' = Some v' /\ vsame x l v v'.
  Proof.
    intros HF. unfold data_eval.
    destruct (op =? 20).
    { destruct HF as [|a a' t t' Ha HF]; [discriminate|]. destruct HF as [|d d' t t' Hd HF]; [discriminate|].
      destruct HF; [|discriminate]. intros E. inversion E; subst. eexists. split; [reflexivity|constructor; assumption]. }
    destruct (op =? 21).
    { destruct HF as [|a a' t t' Ha HF]; [discriminate|]. destruct Ha; try discriminate.
      destruct HF; [|discriminate]. intros E. inversion E; subst. eexists. split; [reflexivity|assumption]. }
    destruct (op =? 22).
    { destruct HF as [|a a' t t' Ha HF]; [discriminate|]. destruct Ha; try discriminate.
      destruct HF; [|discriminate]. intros E. inversion E; subst. eexists. split; [reflexivity|assumption]. }
    destruct (op =? 23).
    { destruct HF as [|a a' t t' Ha HF]; [discriminate|].
      destruct Ha; (destruct HF; [|discriminate]); intros E; inversion E; subst; eexists; (split; [reflexivity|constructor]). }
    destruct (op =? 24).
    { destruct HF as [|a a' t t' Ha HF]; [discriminate|].
      destruct Ha; (destruct HF; [|discriminate]); intros E; inversion E; subst; eexists; (split; [reflexivity|constructor]). }
    destruct (op =? 25).
    { destruct HF as [|a a' t t' Ha HF]; [discriminate|]. destruct Ha as [| | e e' He |]; try discriminate.
      destruct HF as [|d d' t t' Hd HF]; [discriminate|]. destruct Hd as [c| | |]; try discriminate.
      destruct c as [i| | | |]; try discriminate. destruct HF; [|discriminate].
      destruct (0 <=? i); [|discriminate]. intros E. apply (vsame_chain_nth _ _ _ _ He E). }
    destruct (op =? 26).
    { destruct HF as [|a a' t t' Ha HF]; [discriminate|]. destruct Ha as [| | e e' He |]; try discriminate.
      destruct HF; [|discriminate]. rewrite <- (vsame_chain_len _ _ He).
      destruct (chain_len e); [|discriminate]. intros E. inversion E; subst. eexists. split; [reflexivity|constructor]. }
    discriminate.
  Qed.

  Lemma global_apply_same g vs vs' o v o2 : Forall2 (vsame x l) vs vs' -> global_apply g vs o = Some (v, o2) ->
    exists v', global_apply g vs' o = Some (v', o2) /\ vsame x l v v'.
  Proof.
    intros HF. unfold global_apply.
    destruct (g =? OUT).
    { destruct HF as [|a a' t t' Ha HF]; [discriminate|]. destruct HF; [|discriminate].
      rewrite <- (vsame_data_of _ _ Ha). destruct (data_of a); [|discriminate].
      intros E. inversion E; subst. eexists. split; [reflexivity|constructor]. }
    destruct (g =? LIST).
    { intros E. inversion E; subst. eexists. split; [reflexivity|apply vsame_list_of; exact HF]. }
    destruct (g =? VECTOR).
    { intros E. inversion E; subst. eexists. split; [reflexivity|constructor; apply vsame_list_of; exact HF]. }
    destruct (g =? LENGTH).
    { destruct HF as [|a a' t t' Ha HF]; [discriminate|]. destruct HF; [|discriminate].
      rewrite <- (vsame_chain_len _ _ Ha). destruct (chain_len a); [|discriminate].
      intros E. inversion E; subst. eexists. split; [reflexivity|constructor]. }
    discriminate.
  Qed.

  Lemma storesame_length s s' : storesame x l s s' -> length s = length s'.
  Proof. apply Forall2_len. Qed.

  Lemma storesame_nth s s' k v : storesame x l s s' -> nth_error s k = Some v ->
    exists v', nth_error s' k = Some v' /\ vsame x l v v'.
  Proof.
    intros H. revert k. induction H as [|a a' t t' Ha Ht IH]; intros k E; destruct k as [|k]; cbn [nth_error] in *; try discriminate.
    - inversion E; subst. exists a'. split; [reflexivity|exact Ha].
    - apply IH. exact E.
  Qed.

  Lemma storesame_update s s' k v v' : storesame x l s s' -> vsame x l v v' -> storesame x l (update3 k v s) (update3 k v' s').
  Proof.
    intros H Hv. revert k. induction H as [|a a' t t' Ha Ht IH]; intros k; [destruct k; constructor|].
    destruct k as [|k]; cbn [update3]; constructor; try assumption. apply IH.
  Qed.

  Lemma storesame_app s s' v v' : storesame x l s s' -> vsame x l v v' -> storesame x l (s ++ [v]) (s' ++ [v']).
  Proof. intros H Hv. apply Forall2_app; [exact H|constructor; [exact Hv|constructor]]. Qed.

  Lemma envsame_cons r r' p id sl sl' : envsame x l r r' -> ssame x l (Some sl) (Some sl') ->
    envsame x l (((p, id), sl) :: r) (((p, id), sl') :: r').
  Proof.
    intros He Hs y m Hne. cbn [lookup3]. destruct ((p =? y) && (id =? m)); [exact Hs|apply He; exact Hne].
  Qed.

  Lemma bind3_same id sv : forall ps ws ws' r r' s s',
    Forall2 (vsame x l) ws ws' -> envsame x l r r' -> storesame x l s s' ->
    envsame x l (fst (bind3 id sv ps ws r s)) (fst (bind3 id sv ps ws' r' s'))
    /\ storesame x l (snd (bind3 id sv ps ws r s)) (snd (bind3 id sv ps ws' r' s')).
  Proof.
    induction ps as [|p ps IH]; intros ws ws' r r' s s' HF He Hs.
    - cbn [bind3 fst snd]. split; assumption.
    - destruct HF as [|w w' ws ws' Hw HF]; [cbn [bind3 fst snd]; split; assumption|].
      cbn [bind3]. destruct (memZ p sv).
      + apply IH; [exact HF| |apply storesame_app; assumption].
        apply envsame_cons; [exact He|]. rewrite (storesame_length _ _ Hs). constructor.
      + apply IH; [exact HF| |exact Hs]. apply envsame_cons; [exact He|constructor; exact Hw].
  Qed.

  Definition irr (m : nat) : Prop := forall e r r' s s' o v s1 o1,
    usedp x l e = false -> envsame x l r r' -> storesame x l s s' ->
    eval3 m e r s o = Some (v, s1, o1) ->
    exists v' s1', eval3 m e r' s' o = Some (v', s1', o1) /\ vsame x l v v' /\ storesame x l s1 s1'.

  Section Lists.
    Variable m : nat.
    Hypothesis IHm : irr m.

    Lemma args_irr es : forall r r' s s' o vs s1 o1,
      existsb (usedp x l) es = false -> envsame x l r r' -> storesame x l s s' ->
      args3 m es r s o = Some (vs, s1, o1) ->
      exists vs' s1', args3 m es r' s' o = Some (vs', s1', o1) /\ Forall2 (vsame x l) vs vs' /\ storesame x l s1 s1'.
    Proof.
      induction es as [|a t IH]; intros r r' s s' o vs s1 o1 Hu He Hs Hev.
      - cbn [args3] in *. inversion Hev; subst. exists [], s'. repeat split; [constructor|exact Hs].
      - cbn [existsb] in Hu. apply orb_false_elim in Hu. destruct Hu as [Ua Ut].
        cbn [args3] in Hev. destruct (args3 m t r s o) as [[[vst sA] oA]|] eqn:Et; [|discriminate].
        destruct (eval3 m a r sA oA) as [[[va sB] oB]|] eqn:Ea; [|discriminate]. inversion Hev; subst.
        destruct (IH r r' s s' o vst sA oA Ut He Hs Et) as (vst' & sA' & E1 & R1 & S1).
        destruct (IHm a r r' sA sA' oA va s1 o1 Ua He S1 Ea) as (va' & sB' & E2 & R2 & S2).
        exists (va' :: vst'), sB'. cbn [args3]. rewrite E1, E2. repeat split; [constructor; assumption|exact S2].
    Qed.

    Lemma seq_irr es : forall r r' s s' o v s1 o1,
      existsb (usedp x l) es = false -> envsame x l r r' -> storesame x l s s' ->
      seq3 m es r s o = Some (v, s1, o1) ->
      exists v' s1', seq3 m es r' s' o = Some (v', s1', o1) /\ vsame x l v v' /\ storesame x l s1 s1'.
    Proof.
      induction es as [|a t IH]; intros r r' s s' o v s1 o1 Hu He Hs Hev; [discriminate|].
      cbn [existsb] in Hu. apply orb_false_elim in Hu. destruct Hu as [Ua Ut].
      destruct t as [|b t].
      - cbn [seq3] in *. apply (IHm a r r' s s' o v s1 o1 Ua He Hs Hev).
      - change (seq3 m (a :: b :: t) r s o) with (match eval3 m a r s o with Some (_, sA, oA) => seq3 m (b :: t) r sA oA | None => None end) in Hev.
        change (seq3 m (a :: b :: t) r' s' o) with (match eval3 m a r' s' o with Some (_, sA, oA) => seq3 m (b :: t) r' sA oA | None => None end).
        destruct (eval3 m a r s o) as [[[va sA] oA]|] eqn:Ea; [|discriminate].
        destruct (IHm a r r' s s' o va sA oA Ua He Hs Ea) as (va' & sA' & E2 & R2 & S2).
        rewrite E2. apply (IH r r' sA sA' oA v s1 o1 Ut He S2 Hev).
    Qed.

    Lemma clo_irr id ps rest sv body rc rc' vs vs' s s' o v s1 o1 :
      usedp x l body = false -> envsame x l rc rc' -> Forall2 (vsame x l) vs vs' -> storesame x l s s' ->
      clo_apply m id ps rest sv body vs rc s o = Some (v, s1, o1) ->
      exists v' s1', clo_apply m id ps rest sv body vs' rc' s' o = Some (v', s1', o1) /\ vsame x l v v' /\ storesame x l s1 s1'.
    Proof.
      intros Hu He HF Hs Hev. unfold clo_apply in *.
      destruct (actuals ps rest vs) as [ws|] eqn:EA; [|discriminate].
      destruct (actuals_same _ _ _ _ _ HF EA) as (ws' & EA' & HW). rewrite EA'.
      destruct (bind3_same id sv ps ws ws' rc rc' s s' HW He Hs) as [He3 Hs3].
      destruct (bind3 id sv ps ws rc s) as [r3 s3]. destruct (bind3 id sv ps ws' rc' s') as [r3' s3'].
      cbn [fst snd] in He3, Hs3. apply (IHm body r3 r3' s3 s3' o v s1 o1 Hu He3 Hs3 Hev).
    Qed.

    Lemma generic_irr f es r r' s s' o v s1 o1 :
      usedp x l f = false -> existsb (usedp x l) es = false -> envsame x l r r' -> storesame x l s s' ->
      generic3 m f es r s o = Some (v, s1, o1) ->
      exists v' s1', generic3 m f es r' s' o = Some (v', s1', o1) /\ vsame x l v v' /\ storesame x l s1 s1'.
    Proof.
      intros Uf Ues He Hs Hev. unfold generic3 in *.
      destruct (args3 m es r s o) as [[[vs sA] oA]|] eqn:Ea; [|discriminate].
      destruct (args_irr es r r' s s' o vs sA oA Ues He Hs Ea) as (vs' & sA' & E1 & R1 & S1). rewrite E1.
      destruct (eval3 m f r sA oA) as [[[fv sB] oB]|] eqn:Ef; [|discriminate].
      destruct (IHm f r r' sA sA' oA fv sB oB Uf He S1 Ef) as (fv' & sB' & E2 & R2 & S2). rewrite E2.
      destruct fv as [| | |lam rc]; try discriminate.
      inversion R2 as [| | |? ? rc' Hul Hrc]; subst.
      destruct lam as [| | | | | |id ps rest sv body| |]; try discriminate.
      cbn [usedp] in Hul. apply (clo_irr id ps rest sv body rc rc' vs vs' sB sB' oB v s1 o1 Hul Hrc R1 S2 Hev).
    Qed.
  End Lists.

  Theorem irr_all : forall m, irr m.
  Proof.
    induction m as [|m IHm]; unfold irr; intros e r r' s s' o v s1 o1 Hu He Hs Hev; [discriminate|].
    destruct e as [c|c|y loc|y loc e|t a b|es|id ps rest sv body|f es|op].
    - (* Lit *) rewrite eval3_Lit in *. inversion Hev; subst. exists (V3C c), s'. repeat split; [constructor|exact Hs].
    - (* Obj *) rewrite eval3_Obj in *. inversion Hev; subst. exists (V3C c), s'. repeat split; [constructor|exact Hs].
    - (* Ref *) rewrite eval3_Ref in *. cbn [usedp] in Hu. pose proof (He _ _ Hu) as Hsl.
      destruct (lookup3 y loc r) as [[w|k]|] eqn:EL; [| |discriminate].
      + inversion Hev; subst. inversion Hsl as [|? w' Hw|]; subst. exists w', s'. repeat split; assumption.
      + inversion Hsl; subst. destruct (nth_error s k) as [w|] eqn:En; [|discriminate]. inversion Hev; subst.
        destruct (storesame_nth _ _ _ _ Hs En) as (w' & En' & Hw). rewrite En'. exists w', s'. repeat split; assumption.
    - (* SetE *) rewrite eval3_SetE in *. cbn [usedp] in Hu. apply orb_false_elim in Hu. destruct Hu as [Uk Ue].
      destruct (eval3 m e r s o) as [[[w sA] oA]|] eqn:Ee; [|discriminate].
      destruct (IHm e r r' s s' o w sA oA Ue He Hs Ee) as (w' & sA' & E2 & R2 & S2). rewrite E2.
      pose proof (He _ _ Uk) as Hsl.
      destruct (lookup3 y loc r) as [[?|k]|] eqn:EL; try discriminate. inversion Hsl; subst.
      rewrite <- (storesame_length _ _ S2). destruct (Nat.ltb k (length sA)); [|discriminate]. inversion Hev; subst.
      exists (V3C CVoid), (update3 k w' sA'). repeat split; [constructor|apply storesame_update; assumption].
    - (* Cnd *) rewrite eval3_Cnd in *. cbn [usedp] in Hu. apply orb_false_elim in Hu. destruct Hu as [Hu Ub].
      apply orb_false_elim in Hu. destruct Hu as [Ut Ua].
      destruct (eval3 m t r s o) as [[[tv sA] oA]|] eqn:Et; [|discriminate].
      destruct (IHm t r r' s s' o tv sA oA Ut He Hs Et) as (tv' & sA' & E2 & R2 & S2). rewrite E2.
      rewrite <- (vsame_truthy _ _ R2). destruct (truthy tv).
      + apply (IHm a r r' sA sA' oA v s1 o1 Ua He S2 Hev).
      + apply (IHm b r r' sA sA' oA v s1 o1 Ub He S2 Hev).
    - (* Seq *) rewrite eval3_Seq in *. cbn [usedp] in Hu. apply (seq_irr m IHm es r r' s s' o v s1 o1 Hu He Hs Hev).
    - (* Lam *) rewrite eval3_Lam in *. inversion Hev; subst. exists (V3Clo (Lam id ps rest sv body) r'), s'.
      repeat split; [constructor; [exact Hu|exact He]|exact Hs].
    - (* App *) rewrite eval3_App in *. cbn [usedp] in Hu. apply orb_false_elim in Hu. destruct Hu as [Uf Ues].
      destruct f as [c|c|y loc|y loc e|t a b|es0|id ps rest sv body|f0 es0|op];
        try (apply (generic_irr m IHm _ es r r' s s' o v s1 o1 Uf Ues He Hs Hev)).
      + (* Ref *) destruct ((loc =? 0) && is_global_proc y).
        * destruct (args3 m es r s o) as [[[vs sA] oA]|] eqn:Ea; [|discriminate].
          destruct (args_irr m IHm es r r' s s' o vs sA oA Ues He Hs Ea) as (vs' & sA' & E1 & R1 & S1). rewrite E1.
          destruct (global_apply y vs oA) as [[gv o2]|] eqn:Eg; [|discriminate]. inversion Hev; subst.
          destruct (global_apply_same _ _ _ _ _ _ R1 Eg) as (gv' & Eg' & Rg). rewrite Eg'.
          exists gv', sA'. repeat split; assumption.
        * apply (generic_irr m IHm _ es r r' s s' o v s1 o1 Uf Ues He Hs Hev).
      + (* Lam *) destruct (args3 m es r s o) as [[[vs sA] oA]|] eqn:Ea; [|discriminate].
        destruct (args_irr m IHm es r r' s s' o vs sA oA Ues He Hs Ea) as (vs' & sA' & E1 & R1 & S1). rewrite E1.
        cbn [usedp] in Uf. apply (clo_irr m IHm id ps rest sv body r r' vs vs' sA sA' oA v s1 o1 Uf He R1 S1 Hev).
      + (* Op *) destruct (args3 m es r s o) as [[[vs sA] oA]|] eqn:Ea; [|discriminate].
        destruct (args_irr m IHm es r r' s s' o vs sA oA Ues He Hs Ea) as (vs' & sA' & E1 & R1 & S1). rewrite E1.
        destruct (is_data_op op).
        * destruct (data_eval op vs) as [dv|] eqn:Ed; [|discriminate]. inversion Hev; subst.
          destruct (data_eval_same _ _ _ _ R1 Ed) as (dv' & Ed' & Rd). rewrite Ed'. exists dv', sA'. repeat split; assumption.
        * rewrite <- (vsame_consts3_of _ _ R1). destruct (consts3_of vs) as [cs|]; [|discriminate].
          destruct (prim_eval op cs) as [c|]; [|discriminate]. inversion Hev; subst.
          exists (V3C c), sA'. repeat split; [constructor|exact S1].
    - (* Op *) rewrite eval3_Opv in Hev. discriminate.
  Qed.
End Same.

Theorem unused_irrelevant : forall x l fuel e r r' s s' o v s1 o1,
  usedp x l e = false -> envsame x l r r' -> storesame x l s s' ->
  eval3 fuel e r s o = Some (v, s1, o1) ->
  exists v' s1', eval3 fuel e r' s' o = Some (v', s1', o1) /\ vsame x l v v' /\ storesame x l s1 s1'.
Proof. intros x l fuel. apply (irr_all x l fuel). Qed.

(** ------------------------------------------------------------------ T3: the rest parameter of a flagged procedure need not be bound *)
Lemma bind3_snoc id sv rp w : memZ rp sv = false -> forall fixed ws rc s, length ws = length fixed ->
  bind3 id sv (fixed ++ [rp]) (ws ++ [w]) rc s
  = (((rp, id), D3 w) :: fst (bind3 id sv fixed ws rc s), snd (bind3 id sv fixed ws rc s)).
Proof.
  intros Hm. induction fixed as [|p fixed IH]; intros ws rc s Hl; destruct ws as [|v ws]; try discriminate.
  - cbn [app bind3 fst snd]. rewrite Hm. reflexivity.
  - cbn [length] in Hl. injection Hl as Hl. cbn [app bind3]. destruct (memZ p sv); apply IH; exact Hl.
Qed.

Theorem unused_rest_elided : forall id fixed rp sv body fuel ws ws' w rc rc' s s' o v s1 o1,
  rest_unused (Lam id (fixed ++ [rp]) true sv body) = true -> length ws = length fixed ->
  Forall2 (vsame rp id) ws ws' -> envsame rp id rc rc' -> storesame rp id s s' ->
  (let '(r3, s3) := bind3 id sv (fixed ++ [rp]) (ws ++ [w]) rc s in eval3 fuel body r3 s3 o) = Some (v, s1, o1) ->
  exists v' s1', (let '(r3, s3) := bind3 id sv fixed ws' rc' s' in eval3 fuel body r3 s3 o) = Some (v', s1', o1)
                 /\ vsame rp id v v' /\ storesame rp id s1 s1'.
Proof.
  intros id fixed rp sv body fuel ws ws' w rc rc' s s' o v s1 o1 HR Hl HF He Hs Hev.
  destruct (rest_unused_not_boxed _ _ _ _ HR) as (fixed0 & rp0 & Eps & Hm & Hu).
  apply app_inj_tail in Eps. destruct Eps as [<- <-].
  rewrite (bind3_snoc id sv rp w Hm fixed ws rc s Hl) in Hev.
  destruct (bind3_same rp id id sv fixed ws ws' rc rc' s s' HF He Hs) as [He3 Hs3].
  destruct (bind3 id sv fixed ws rc s) as [r3 s3]. destruct (bind3 id sv fixed ws' rc' s') as [r3' s3'].
  cbn [fst snd] in *.
  apply (unused_irrelevant rp id fuel body (((rp, id), D3 w) :: r3) r3' s3 s3' o v s1 o1 Hu); [|exact Hs3|exact Hev].
  intros y m Hne. cbn [lookup3]. rewrite (Z.eqb_sym rp y), (Z.eqb_sym id m), Hne. apply He3. exact Hne.
Qed.

(** ------------------------------------------------------------------ T4: the defect the repaired analysis avoids *)
Definition L_defect : expr :=
  Lam 1 [10; 11] true [11] (Cnd (Lit (CBool false)) (SetE 11 1 (Lit (CInt 5))) (Ref 10 1)).

Example defect_wf : wf L_defect = true.
Proof. vm_compute. reflexivity. Qed.
Example defect_old_flags : rest_unused_old (simplify L_defect [] true) = true.
Proof. vm_compute. reflexivity. Qed.
Example defect_still_boxed : memZ 11 [11] = true.
Proof. vm_compute. reflexivity. Qed.
Example defect_frames_differ :
  snd (bind3 1 [11] [10; 11] [V3C (CInt 1); V3C NIL] [] []) <> snd (bind3 1 [11] [10] [V3C (CInt 1)] [] []).
Proof. vm_compute. discriminate. Qed.
Example defect_repaired : rest_unused (simplify L_defect [] true) = false.
Proof. vm_compute. reflexivity. Qed.
