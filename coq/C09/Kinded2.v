(** C09 (B), round 3: the kind-exact model with the code's exact pass order for an operator that only BECOMES a lambda
    by simplification (see Simplify2.v for the explanation).  [ksimpN 0] = [Kinded.ksimplify]; level n+1 gives the
    simplified operator the let handling of simplify.c:61-100 and simplifies its body a SECOND time at level n.
    No proofs here.  This is the function whose output is compared token for token with the implementation's AST. *)
From ChibiV Require Import C09.Ast C09.Simplify C09.Kinded C09.Simplify2.
Local Open Scope Z_scope.

Fixpoint ksimpN (n : nat) (d : dyn) : kexpr -> list ksubst -> bool -> kexpr :=
  match n with
  | O => ksimplify d
  | S k =>
      fix go (e : kexpr) (S : list ksubst) (inlam : bool) {struct e} : kexpr :=
        match e with
        | KApp f args =>
            let f' := match f with KLam _ _ _ _ _ => f | _ => go f S inlam end in
            let args' := map (fun a => go a S inlam) args in
            match f with
            | KLam id ps rest sv body =>
                if inlam then
                  if Nat.eqb (proper_len ps rest) (length args') then
                    let '(ps2, args2, S2) := klet_subst id sv ps args' S in
                    KApp (KLam id ps2 rest sv (go body S2 true)) args2
                  else KApp (KLam id ps rest sv (go body S true)) args'
                else KApp f' args'
            | _ =>
                match f' with
                | KLam id ps rest sv body1 =>          (* simplify.c:61: the let test looks at the SIMPLIFIED operator *)
                    if inlam then
                      if Nat.eqb (proper_len ps rest) (length args') then
                        let '(ps2, args2, S2) := klet_subst id sv ps args' S in
                        KApp (KLam id ps2 rest sv (ksimpN k d body1 S2 true)) args2
                      else KApp (KLam id ps rest sv (ksimpN k d body1 S true)) args'
                    else KApp f' args'
                | _ => kfold_app d f' args'
                end
            end
        | KLam id ps rest sv body => KLam id ps rest sv (go body S true)
        | KCnd t a b =>
            let t' := go t S inlam in
            match ksimple t' with
            | Some k => if const_false (snd k) then go b S inlam else go a S inlam   (* simplify.c:112: the lit is unwrapped *)
            | None => KCnd t' (go a S inlam) (go b S inlam)
            end
        | KRef x loc => match klookup_subst x loc S with Some k => klit_expr k | None => e end
        | KSet x loc v => KSet x loc (go v S inlam)
        | KSeq es =>
            match kseq_filter (map (fun a => go a S inlam) es) with
            | [x] => x
            | es' => KSeq es'
            end
        | KImm _ | KLit _ | KObj _ | KOp _ => e
        end
  end.

Fixpoint ksize (e : kexpr) : nat :=
  match e with
  | KSet _ _ v => S (ksize v)
  | KCnd t a b => S (ksize t + ksize a + ksize b)
  | KSeq es => S (fold_right (fun x acc => ksize x + acc)%nat O es)
  | KLam _ _ _ _ body => S (ksize body)
  | KApp f args => S (ksize f + fold_right (fun x acc => ksize x + acc)%nat O args)
  | _ => 1%nat
  end.

(** sexp_simplify with the exact pass order, under dynamic state d *)
Definition ksexp_simplifyN (d : dyn) (e : kexpr) : kexpr := ksimpN (ksize e) d e [] false.
