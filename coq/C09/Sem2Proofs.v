(** C09 (B): simplify preserves meaning for the core language with closures, recursion and assignment (SPEC = Sem2.eval2). *)
From ChibiV Require Import C09.Ast C09.Simplify C09.SimplifyProofs C09.Sem2.
Local Open Scope Z_scope.

(** ------------------------------------------------------------------ unfolding *)
Definition generic (m : nat) (f : expr) (es : list expr) (r : env2) (s : store) (o : list const) : res :=
  match args2 m es r s o with
  | Some (vs, s1, o1) =>
      match eval2 m f r s1 o1 with
      | Some (VClo (Lam id ps false sv body) rc, s2, o2) =>
          if Nat.eqb (length ps) (length vs) then
            let '(r3, s3) := bind2 id sv ps vs rc s2 in eval2 m body r3 s3 o2
          else None
      | _ => None
      end
  | None => None
  end.

Definition letform (m : nat) (id : Z) (ps sv : list Z) (body : expr) (es : list expr) (r : env2) (s : store) (o : list const) : res :=
  if Nat.eqb (length ps) (length es) then
    match args2 m es r s o with
    | Some (vs, s1, o1) => let '(r2, s2) := bind2 id sv ps vs r s1 in eval2 m body r2 s2 o1
    | None => None
    end
  else None.

Definition seq_in (m : nat) (r : env2) : list expr -> store -> list const -> res :=
  fix seq (es : list expr) (s : store) (o : list const) : res :=
    match es with
    | [] => None
    | [a] => eval2 m a r s o
    | a :: t => match eval2 m a r s o with Some (_, s1, o1) => seq t s1 o1 | None => None end
    end.

Definition args_in (m : nat) (r : env2) : list expr -> store -> list const -> option (list val * store * list const) :=
  fix args (es : list expr) (s : store) (o : list const) : option (list val * store * list const) :=
    match es with
    | [] => Some ([], s, o)
    | a :: t => match args t s o with
                | Some (vs, s1, o1) => match eval2 m a r s1 o1 with
                                       | Some (v, s2, o2) => Some (v :: vs, s2, o2)
                                       | None => None
                                       end
                | None => None
                end
    end.

Lemma seq_in_eq m r es : forall s o, seq_in m r es s o = seq2 m es r s o.
Proof.
  induction es as [|a t IH]; intros s o; [reflexivity|].
  destruct t as [|b t]; [reflexivity|].
  change (seq_in m r (a :: b :: t) s o) with (match eval2 m a r s o with Some (_, s1, o1) => seq_in m r (b :: t) s1 o1 | None => None end).
  change (seq2 m (a :: b :: t) r s o) with (match eval2 m a r s o with Some (_, s1, o1) => seq2 m (b :: t) r s1 o1 | None => None end).
  destruct (eval2 m a r s o) as [[[v s1] o1]|]; [apply IH|reflexivity].
Qed.

Lemma args_in_eq m r es : forall s o, args_in m r es s o = args2 m es r s o.
Proof.
  induction es as [|a t IH]; intros s o; [reflexivity|].
  change (args_in m r (a :: t) s o) with (match args_in m r t s o with
                | Some (vs, s1, o1) => match eval2 m a r s1 o1 with Some (v, s2, o2) => Some (v :: vs, s2, o2) | None => None end
                | None => None end).
  rewrite IH. reflexivity.
Qed.

Lemma eval2_Seq m es r s o : eval2 (S m) (Seq es) r s o = seq2 m es r s o.
Proof. rewrite <- seq_in_eq. reflexivity. Qed.

Lemma eval2_App_Op m op es r s o :
  eval2 (S m) (App (Op op) es) r s o =
  match args2 m es r s o with
  | Some (vs, s1, o1) => match consts_of vs with
                         | Some cs => match prim_eval op cs with Some c => Some (VC c, s1, o1) | None => None end
                         | None => None
                         end
  | None => None
  end.
Proof. rewrite <- args_in_eq. reflexivity. Qed.

Lemma eval2_App_Lam m id ps sv body es r s o :
  eval2 (S m) (App (Lam id ps false sv body) es) r s o = letform m id ps sv body es r s o.
Proof. unfold letform. rewrite <- args_in_eq. reflexivity. Qed.

Lemma eval2_App_OUT m a r s o :
  eval2 (S m) (App (Ref OUT 0) [a]) r s o =
  match eval2 m a r s o with Some (VC c, s1, o1) => Some (VC CVoid, s1, o1 ++ [c]) | _ => None end.
Proof. reflexivity. Qed.

Definition is_out (f : expr) : bool := match f with Ref x loc => (x =? OUT) && (loc =? 0) | _ => false end.
Definition is_special (f : expr) : bool :=
  match f with Op _ => true | Lam _ _ false _ _ => true | _ => is_out f end.

Lemma eval2_App_generic m f es r s o : is_special f = false -> eval2 (S m) (App f es) r s o = generic m f es r s o.
Proof.
  intros H. unfold generic. rewrite <- args_in_eq.
  destruct f; try reflexivity; cbn [is_special is_out] in H; try discriminate.
  - change (eval2 (S m) (App (Ref x loc) es) r s o) with
      (if (x =? OUT) && (loc =? 0) then
         match es with
         | [a] => match eval2 m a r s o with Some (VC c, s1, o1) => Some (VC CVoid, s1, o1 ++ [c]) | _ => None end
         | _ => None
         end
       else match args_in m r es s o with
            | Some (vs, s1, o1) =>
                match eval2 m (Ref x loc) r s1 o1 with
                | Some (VClo (Lam id ps false sv body) rc, s2, o2) =>
                    if Nat.eqb (length ps) (length vs) then let '(r3, s3) := bind2 id sv ps vs rc s2 in eval2 m body r3 s3 o2 else None
                | _ => None
                end
            | None => None
            end).
    rewrite H. reflexivity.
  - destruct rest; [reflexivity|discriminate].
Qed.

Lemma eval2_Lit m c r s o : eval2 (S m) (Lit c) r s o = Some (VC c, s, o).
Proof. reflexivity. Qed.
Lemma eval2_Obj m c r s o : eval2 (S m) (Obj c) r s o = Some (VC c, s, o).
Proof. reflexivity. Qed.
Lemma eval2_Ref m x loc r s o :
  eval2 (S m) (Ref x loc) r s o =
  match lookup2 x loc r with
  | Some (Direct v) => Some (v, s, o)
  | Some (Boxed l) => match nth_error s l with Some v => Some (v, s, o) | None => None end
  | None => None
  end.
Proof. reflexivity. Qed.
Lemma eval2_SetE m x loc v r s o :
  eval2 (S m) (SetE x loc v) r s o =
  match eval2 m v r s o with
  | Some (w, s1, o1) => match lookup2 x loc r with
                        | Some (Boxed l) => if Nat.ltb l (length s1) then Some (VC CVoid, update l w s1, o1) else None
                        | _ => None
                        end
  | None => None
  end.
Proof. reflexivity. Qed.
Lemma eval2_Cnd m t a b r s o :
  eval2 (S m) (Cnd t a b) r s o =
  match eval2 m t r s o with
  | Some (VC c, s1, o1) => if const_false c then eval2 m b r s1 o1 else eval2 m a r s1 o1
  | Some (VClo _ _, s1, o1) => eval2 m a r s1 o1
  | None => None
  end.
Proof. reflexivity. Qed.
Lemma eval2_Lam m id ps rest sv body r s o :
  eval2 (S m) (Lam id ps rest sv body) r s o = if rest then None else Some (VClo (Lam id ps rest sv body) r, s, o).
Proof. reflexivity. Qed.
Lemma eval2_Opv m op r s o : eval2 (S m) (Op op) r s o = None.
Proof. reflexivity. Qed.

(** ------------------------------------------------------------------ more fuel never hurts *)
Section Mono.
  Variable m : nat.
  Hypothesis IH : forall e r s o x, eval2 m e r s o = Some x -> eval2 (S m) e r s o = Some x.

  Lemma args2_mono es r : forall s o x, args2 m es r s o = Some x -> args2 (S m) es r s o = Some x.
  Proof.
    induction es as [|a t IHt]; intros s o x H; [exact H|].
    cbn [args2] in *. destruct (args2 m t r s o) as [[[vs s1] o1]|] eqn:E; [|discriminate].
    rewrite (IHt _ _ _ E). destruct (eval2 m a r s1 o1) as [[[v s2] o2]|] eqn:Ea; [|discriminate].
    rewrite (IH _ _ _ _ _ Ea). exact H.
  Qed.

  Lemma seq2_mono es r : forall s o x, seq2 m es r s o = Some x -> seq2 (S m) es r s o = Some x.
  Proof.
    induction es as [|a t IHt]; intros s o x H; [discriminate|].
    destruct t as [|b t]; [cbn [seq2] in *; apply IH; exact H|].
    change (seq2 m (a :: b :: t) r s o) with (match eval2 m a r s o with Some (_, s1, o1) => seq2 m (b :: t) r s1 o1 | None => None end) in H.
    change (seq2 (S m) (a :: b :: t) r s o) with (match eval2 (S m) a r s o with Some (_, s1, o1) => seq2 (S m) (b :: t) r s1 o1 | None => None end).
    destruct (eval2 m a r s o) as [[[v s1] o1]|] eqn:Ea; [|discriminate].
    rewrite (IH _ _ _ _ _ Ea). apply IHt. exact H.
  Qed.

  Lemma generic_mono f es r s o x : generic m f es r s o = Some x -> generic (S m) f es r s o = Some x.
  Proof.
    unfold generic. intros H. destruct (args2 m es r s o) as [[[vs s1] o1]|] eqn:E; [|discriminate].
    rewrite (args2_mono _ _ _ _ _ E). destruct (eval2 m f r s1 o1) as [[[v s2] o2]|] eqn:Ef; [|discriminate].
    rewrite (IH _ _ _ _ _ Ef). destruct v as [c|lam rc]; [discriminate|]. destruct lam; try discriminate.
    destruct rest; [discriminate|]. destruct (Nat.eqb (length ps) (length vs)); [|discriminate].
    destruct (bind2 id sv ps vs rc s2) as [r3 s3]. apply IH. exact H.
  Qed.
End Mono.

Lemma eval2_mono : forall n e r s o x, eval2 n e r s o = Some x -> eval2 (S n) e r s o = Some x.
Proof.
  induction n as [|m IH]; intros e r s o x H; [discriminate|].
  destruct e.
  - exact H.
  - exact H.
  - exact H.
  - rewrite eval2_SetE in *. destruct (eval2 m e r s o) as [[[w s1] o1]|] eqn:E; [|discriminate]. rewrite (IH _ _ _ _ _ E). exact H.
  - rewrite eval2_Cnd in *. destruct (eval2 m e1 r s o) as [[[w s1] o1]|] eqn:E; [|discriminate]. rewrite (IH _ _ _ _ _ E).
    destruct w as [c|]; [destruct (const_false c)|]; apply IH; exact H.
  - rewrite eval2_Seq in *. apply seq2_mono; assumption.
  - exact H.
  - destruct (is_special e) eqn:Esp.
    + destruct e; cbn [is_special is_out] in Esp; try discriminate.
      * (* OUT *) apply andb_prop in Esp. destruct Esp as [Ex El]. apply Z.eqb_eq in Ex, El. subst x0 loc.
        destruct args as [|a [|b t]]; try exact H.
        rewrite eval2_App_OUT in *. destruct (eval2 m a r s o) as [[[w s1] o1]|] eqn:E; [|discriminate]. rewrite (IH _ _ _ _ _ E). exact H.
      * destruct rest; [discriminate|]. rewrite eval2_App_Lam in *. unfold letform in *.
        destruct (Nat.eqb (length ps) (length args)); [|discriminate].
        destruct (args2 m args r s o) as [[[vs s1] o1]|] eqn:E; [|discriminate]. rewrite (args2_mono m IH _ _ _ _ _ E).
        destruct (bind2 id sv ps vs r s1) as [r2 s2]. apply IH. exact H.
      * rewrite eval2_App_Op in *. destruct (args2 m args r s o) as [[[vs s1] o1]|] eqn:E; [|discriminate].
        rewrite (args2_mono m IH _ _ _ _ _ E). exact H.
    + rewrite eval2_App_generic in * by exact Esp. apply generic_mono; assumption.
  - exact H.
Qed.

(** ------------------------------------------------------------------ the simulation relation *)
Inductive vrel : val -> val -> Prop :=
| VR_c c : vrel (VC c) (VC c)
| VR_clo S id ps sv body r r' :
    wf (Lam id ps false sv body) = true -> C1 S (Lam id ps false sv body) -> C2 S (Lam id ps false sv body) -> ~ In 0 (sdom S) ->
    (forall x l c, lookup_subst x l S = Some c -> lookup2 x l r = Some (Direct (VC c))) ->
    (forall x l, lookup_subst x l S = None -> srel (lookup2 x l r) (lookup2 x l r')) ->
    (forall x, lookup2 x 0 r' = None) ->
    vrel (VClo (Lam id ps false sv body) r) (VClo (Lam id ps false sv (simplify body S true)) r')
with srel : option slot -> option slot -> Prop :=
| SR_none : srel None None
| SR_d v v' : vrel v v' -> srel (Some (Direct v)) (Some (Direct v'))
| SR_b l : srel (Some (Boxed l)) (Some (Boxed l)).

Definition envrel (S : list subst) (r r' : env2) : Prop :=
  (forall x l c, lookup_subst x l S = Some c -> lookup2 x l r = Some (Direct (VC c))) /\
  (forall x l, lookup_subst x l S = None -> srel (lookup2 x l r) (lookup2 x l r')) /\
  (forall x, lookup2 x 0 r' = None).

Definition storerel (s s' : store) : Prop := Forall2 vrel s s'.

Lemma storerel_length s s' : storerel s s' -> length s = length s'.
Proof. induction 1; cbn; congruence. Qed.

Lemma storerel_nth s s' l v : storerel s s' -> nth_error s l = Some v -> exists v', nth_error s' l = Some v' /\ vrel v v'.
Proof.
  intros H. revert l. induction H as [|a b s s' Hab H IH]; intros l Hn; [destruct l; discriminate|].
  destruct l as [|l]; cbn in *; [inversion Hn; subst; eauto|apply IH; exact Hn].
Qed.

Lemma storerel_update s s' l v v' : storerel s s' -> vrel v v' -> storerel (update l v s) (update l v' s').
Proof.
  intros H Hv. revert l. induction H as [|a b s s' Hab H IH]; intros l; [destruct l; constructor|].
  destruct l as [|l]; cbn [update]; constructor; try assumption. apply IH.
Qed.

Lemma storerel_app s s' v v' : storerel s s' -> vrel v v' -> storerel (s ++ [v]) (s' ++ [v']).
Proof. intros H Hv. apply Forall2_app; [exact H|constructor; [exact Hv|constructor]]. Qed.

Lemma lookup2_cons_ne x l y m sl r : (y =? x) && (m =? l) = false -> lookup2 x l (((y, m), sl) :: r) = lookup2 x l r.
Proof. intros H. cbn [lookup2]. rewrite H. reflexivity. Qed.

Lemma lookup2_cons_eq x l sl r : lookup2 x l (((x, l), sl) :: r) = Some sl.
Proof. cbn [lookup2]. rewrite !Z.eqb_refl. reflexivity. Qed.

(** binding the same (non-substituted) variable on both sides *)
Lemma envrel_bind S r r' x l sl sl' : envrel S r r' -> lookup_subst x l S = None -> l <> 0 -> srel (Some sl) (Some sl') ->
  envrel S (((x, l), sl) :: r) (((x, l), sl') :: r').
Proof.
  intros (A1 & A2 & A3) HN Hl Hs. split; [|split].
  - intros y m c Hy. destruct (key_dec y m x l) as [(_ & -> & ->)|Hne]; [congruence|].
    rewrite lookup2_cons_ne by exact Hne. apply A1. exact Hy.
  - intros y m Hy. destruct (key_dec y m x l) as [(_ & -> & ->)|Hne].
    + rewrite !lookup2_cons_eq. exact Hs.
    + rewrite !lookup2_cons_ne by exact Hne. apply A2. exact Hy.
  - intros y. destruct (key_dec y 0 x l) as [(_ & _ & E)|Hne]; [congruence|]. rewrite lookup2_cons_ne by exact Hne. apply A3.
Qed.

(** a deleted parameter: bound on the original side only *)
Lemma envrel_delete S r r' p id c : envrel S r r' -> envrel ((p, id, c) :: S) (((p, id), Direct (VC c)) :: r) r'.
Proof.
  intros (A1 & A2 & A3). split; [|split; [|exact A3]].
  - intros y m c' Hy. cbn [lookup_subst] in Hy. destruct (key_dec y m p id) as [(E & -> & ->)|Hne].
    + rewrite E in Hy. inversion Hy; subst. apply lookup2_cons_eq.
    + rewrite Hne in Hy. rewrite lookup2_cons_ne by exact Hne. apply A1. exact Hy.
  - intros y m Hy. cbn [lookup_subst] in Hy. destruct (key_dec y m p id) as [(E & -> & ->)|Hne].
    + rewrite E in Hy. discriminate.
    + rewrite Hne in Hy. rewrite lookup2_cons_ne by exact Hne. apply A2. exact Hy.
Qed.

Lemma vrel_const_r v c : vrel v (VC c) -> v = VC c.
Proof. intros H. inversion H; reflexivity. Qed.

Lemma vrel_const_l v c : vrel (VC c) v -> v = VC c.
Proof. intros H. inversion H; reflexivity. Qed.

(** binding the same parameters on both sides (closure application) *)
Lemma bind2_rel S id sv : forall ps vs vs' r r' s s',
  Forall2 vrel vs vs' -> envrel S r r' -> storerel s s' -> id <> 0 ->
  (forall p, In p ps -> lookup_subst p id S = None) ->
  envrel S (fst (bind2 id sv ps vs r s)) (fst (bind2 id sv ps vs' r' s')) /\
  storerel (snd (bind2 id sv ps vs r s)) (snd (bind2 id sv ps vs' r' s')).
Proof.
  induction ps as [|p ps IH]; intros vs vs' r r' s s' Hvs He Hs Hid Hfr.
  - cbn. split; assumption.
  - destruct Hvs as [|v v' vs vs' Hv Hvs]; [cbn; split; assumption|]. cbn [bind2].
    assert (lookup_subst p id S = None) as Hp by (apply Hfr; left; reflexivity).
    assert (forall q, In q ps -> lookup_subst q id S = None) as Hfr' by (intros; apply Hfr; right; assumption).
    destruct (memZ p sv).
    + rewrite (storerel_length _ _ Hs). apply IH; try assumption.
      * apply envrel_bind; try assumption. constructor.
      * apply storerel_app; assumption.
    + apply IH; try assumption. apply envrel_bind; try assumption. constructor. exact Hv.
Qed.

(** let: parameter deletion on the simplified side *)
Lemma let_subst_sound2 m id sv : forall ps args S ps2 argsK S2 vs' r' s' o s1' o1,
  let_subst id sv ps args S = (ps2, argsK, S2) ->
  length ps = length args -> NoDup ps -> id <> 0 ->
  (forall p, In p ps -> lookup_subst p id S = None) ->
  args2 m args r' s' o = Some (vs', s1', o1) ->
  exists vsK, args2 m argsK r' s' o = Some (vsK, s1', o1) /\ length ps2 = length argsK /\
    (forall vs rb rb' sb sb', Forall2 vrel vs vs' -> envrel S rb rb' -> storerel sb sb' ->
       envrel S2 (fst (bind2 id sv ps vs rb sb)) (fst (bind2 id sv ps2 vsK rb' sb')) /\
       storerel (snd (bind2 id sv ps vs rb sb)) (snd (bind2 id sv ps2 vsK rb' sb'))) /\
    (forall x l, lookup_subst x l S2 = None -> lookup_subst x l S = None) /\
    (forall x l c, lookup_subst x l S2 = Some c -> lookup_subst x l S = Some c \/ (l = id /\ In x ps /\ ~ In x sv)).
Proof.
  induction ps as [|p ps IH]; intros args S ps2 argsK S2 vs' r' s' o s1' o1 HL Hlen Hnd Hid Hfresh Hev.
  - destruct args; [|discriminate]. cbn in HL. inversion HL; subst. cbn in Hev. inversion Hev; subst.
    exists []. split; [reflexivity|split; [reflexivity|split; [|split; [auto|intros; left; assumption]]]].
    intros vs rb rb' sb sb' Hvs He Hs. cbn. split; assumption.
  - destruct args as [|a args]; [discriminate|]. cbn [let_subst] in HL. cbn [args2] in Hev.
    destruct (args2 m args r' s' o) as [[[vst sA] oA]|] eqn:Eargs; [|discriminate].
    destruct (eval2 m a r' sA oA) as [[[v' sB] oB]|] eqn:Ea; [|discriminate]. inversion Hev; subst vs' sB oB. clear Hev.
    inversion Hnd as [|? ? Hnotin Hnd']; subst. cbn [length] in Hlen. injection Hlen as Hlen.
    destruct (if memZ p sv then None else simple a) as [c|] eqn:Esub.
    + (* deleted *)
      destruct (memZ p sv) eqn:Emem; [discriminate|]. destruct a; cbn [simple] in Esub; try discriminate. inversion Esub; subst c0.
      destruct m as [|m']; [discriminate|]. rewrite eval2_Lit in Ea. inversion Ea; subst v' sA oA. clear Ea.
      assert (forall q, In q ps -> lookup_subst q id ((p, id, c) :: S) = None) as Hfresh'.
      { intros q Hq. cbn [lookup_subst]. destruct (key_dec q id p id) as [(_ & -> & _)|Hne]; [contradiction|].
        rewrite Hne. apply Hfresh. right. exact Hq. }
      destruct (IH args _ _ _ _ vst r' s' o s1' o1 HL Hlen Hnd' Hid Hfresh' Eargs) as (vsK & E2 & L2 & B2 & N2 & P2).
      exists vsK. split; [exact E2|split; [exact L2|split; [|split]]].
      * intros vs rb rb' sb sb' Hvs He Hs. inversion Hvs as [|v v'' vs0 vs0' Hv Hvs0]; subst.
        apply vrel_const_r in Hv. subst v. cbn [bind2]. rewrite Emem.
        apply B2; [exact Hvs0|apply envrel_delete; exact He|exact Hs].
      * intros x l Hx. specialize (N2 x l Hx). cbn [lookup_subst] in N2.
        destruct ((p =? x) && (id =? l)); [discriminate|exact N2].
      * intros x l c' Hx. destruct (P2 x l c' Hx) as [Hs|(-> & Hin & Hsv)].
        -- cbn [lookup_subst] in Hs. destruct (key_dec x l p id) as [(E & -> & ->)|Hne].
           ++ right. repeat split; [left; reflexivity| apply memZ_false; exact Emem].
           ++ rewrite Hne in Hs. left. exact Hs.
        -- right. repeat split; [right; exact Hin|exact Hsv].
    + (* kept *)
      destruct (let_subst id sv ps args S) as [[ps3 args3] S3] eqn:ELS. inversion HL; subst ps2 argsK S2. clear HL.
      assert (forall q, In q ps -> lookup_subst q id S = None) as Hfresh' by (intros q Hq; apply Hfresh; right; exact Hq).
      assert (lookup_subst p id S = None) as Hp by (apply Hfresh; left; reflexivity).
      destruct (IH args _ _ _ _ vst r' s' o sA oA ELS Hlen Hnd' Hid Hfresh' Eargs) as (vsK & E2 & L2 & B2 & N2 & P2).
      exists (v' :: vsK). cbn [args2 length]. rewrite E2, Ea.
      split; [reflexivity|split; [f_equal; exact L2|split; [|split; [exact N2|]]]].
      * intros vs rb rb' sb sb' Hvs He Hs. inversion Hvs as [|v v'' vs0 vs0' Hv Hvs0]; subst. cbn [bind2].
        destruct (memZ p sv).
        -- rewrite (storerel_length _ _ Hs). apply B2; [exact Hvs0| |apply storerel_app; assumption].
           apply envrel_bind; try assumption. constructor.
        -- apply B2; [exact Hvs0| |exact Hs]. apply envrel_bind; try assumption. constructor. exact Hv.
      * intros x l c' Hx. destruct (P2 x l c' Hx) as [Hs|(-> & Hin & Hsv)]; [left; exact Hs|].
        right. repeat split; [right; exact Hin|exact Hsv].
Qed.

(** ------------------------------------------------------------------ lists *)
Definition sound2 (m : nat) : Prop := forall e S r r' s s' o v s1 o1,
  wf e = true -> C1 S e -> C2 S e -> ~ In 0 (sdom S) -> envrel S r r' -> storerel s s' ->
  eval2 m e r s o = Some (v, s1, o1) ->
  exists v' s1', eval2 m (simplify e S true) r' s' o = Some (v', s1', o1) /\ vrel v v' /\ storerel s1 s1'.

Lemma consts_rel vs vs' cs : Forall2 vrel vs vs' -> consts_of vs = Some cs -> consts_of vs' = Some cs.
Proof.
  intros H. revert cs. induction H as [|v v' vs vs' Hv H IH]; intros cs Hc; [exact Hc|].
  cbn in Hc |- *. destruct v as [c|]; [|discriminate]. apply vrel_const_l in Hv. subst v'.
  fold (consts_of vs) in Hc. fold (consts_of vs'). destruct (consts_of vs) as [cs0|]; [|discriminate].
  rewrite (IH _ eq_refl). exact Hc.
Qed.

Lemma all_simple_args2_inv m es cs r s o vs s1 o1 :
  all_simple es = Some cs -> args2 m es r s o = Some (vs, s1, o1) -> consts_of vs = Some cs /\ s1 = s /\ o1 = o.
Proof.
  revert cs vs s1 o1. induction es as [|e t IH]; intros cs vs s1 o1 H Hev; cbn [all_simple] in H.
  - inversion H. cbn in Hev. inversion Hev. auto.
  - destruct e; cbn [simple] in H; try discriminate. destruct (all_simple t) as [cs'|]; [|discriminate]. inversion H; subst.
    cbn [args2] in Hev. destruct (args2 m t r s o) as [[[vst sA] oA]|] eqn:E; [|discriminate].
    destruct (IH _ _ _ _ eq_refl eq_refl) as (Hc & -> & ->).
    destruct m as [|m']; [discriminate|]. rewrite eval2_Lit in Hev. inversion Hev; subst.
    cbn. fold (consts_of vst). rewrite Hc. auto.
Qed.

Lemma droppable_pure2 m e r s o v s1 o1 : droppable e = true -> eval2 m e r s o = Some (v, s1, o1) -> s1 = s /\ o1 = o.
Proof.
  destruct m as [|m]; [discriminate|]. destruct e; cbn [droppable]; try discriminate; intros _ H.
  - rewrite eval2_Lit in H. inversion H. auto.
  - rewrite eval2_Ref in H. destruct (lookup2 x loc r) as [[w|l]|]; try discriminate; [inversion H; auto|].
    destruct (nth_error s l); [inversion H; auto|discriminate].
  - rewrite eval2_Lam in H. destruct rest; [discriminate|inversion H; auto].
Qed.

Section Lists.
  Variable m : nat.
  Hypothesis IHm : sound2 m.

  Lemma args_sound2 es : forall S r r' s s' o vs s1 o1,
    forallb wf es = true -> Forall (C1 S) es -> Forall (C2 S) es -> ~ In 0 (sdom S) -> envrel S r r' -> storerel s s' ->
    args2 m es r s o = Some (vs, s1, o1) ->
    exists vs' s1', args2 m (map (fun a => simplify a S true) es) r' s' o = Some (vs', s1', o1) /\ Forall2 vrel vs vs' /\ storerel s1 s1'.
  Proof.
    induction es as [|a t IH]; intros S r r' s s' o vs s1 o1 Hwf H1 H2 H0 He Hs Hev.
    - cbn in *. inversion Hev; subst. exists [], s'. repeat split; [constructor|exact Hs].
    - cbn [forallb] in Hwf. apply andb_prop in Hwf. destruct Hwf as [Wa Wt].
      inversion H1 as [|? ? H1a H1t]; subst. inversion H2 as [|? ? H2a H2t]; subst.
      cbn [args2] in Hev. destruct (args2 m t r s o) as [[[vst sA] oA]|] eqn:Et; [|discriminate].
      destruct (eval2 m a r sA oA) as [[[va sB] oB]|] eqn:Ea; [|discriminate]. inversion Hev; subst.
      destruct (IH S r r' s s' o vst sA oA Wt H1t H2t H0 He Hs Et) as (vst' & sA' & E1 & R1 & S1).
      destruct (IHm a S r r' sA sA' oA va s1 o1 Wa H1a H2a H0 He S1 Ea) as (va' & sB' & E2 & R2 & S2).
      exists (va' :: vst'), sB'. cbn [map args2]. rewrite E1, E2. repeat split; [constructor; assumption|exact S2].
  Qed.

  Lemma seq_sound2 es : forall S r r' s s' o v s1 o1,
    forallb wf es = true -> Forall (C1 S) es -> Forall (C2 S) es -> ~ In 0 (sdom S) -> envrel S r r' -> storerel s s' ->
    seq2 m es r s o = Some (v, s1, o1) ->
    exists v' s1', seq2 m (seq_filter (map (fun a => simplify a S true) es)) r' s' o = Some (v', s1', o1) /\ vrel v v' /\ storerel s1 s1'.
  Proof.
    induction es as [|a t IH]; intros S r r' s s' o v s1 o1 Hwf H1 H2 H0 He Hs Hev; [discriminate|].
    cbn [forallb] in Hwf. apply andb_prop in Hwf. destruct Hwf as [Wa Wt].
    inversion H1 as [|? ? H1a H1t]; subst. inversion H2 as [|? ? H2a H2t]; subst.
    destruct t as [|b t].
    - cbn [seq2] in Hev. cbn [map seq_filter seq2]. apply (IHm a S r r' s s' o v s1 o1 Wa H1a H2a H0 He Hs Hev).
    - change (seq2 m (a :: b :: t) r s o) with (match eval2 m a r s o with Some (_, sA, oA) => seq2 m (b :: t) r sA oA | None => None end) in Hev.
      destruct (eval2 m a r s o) as [[[va sA] oA]|] eqn:Ea; [|discriminate].
      destruct (IHm a S r r' s s' o va sA oA Wa H1a H2a H0 He Hs Ea) as (va' & sA' & E2 & R2 & S2).
      destruct (IH S r r' sA sA' oA v s1 o1 Wt H1t H2t H0 He S2 Hev) as (v' & s1' & E1 & R1 & S1).
      change (map (fun a0 => simplify a0 S true) (a :: b :: t))
        with (simplify a S true :: map (fun a0 => simplify a0 S true) (b :: t)).
      set (rest := map (fun a0 => simplify a0 S true) (b :: t)) in *.
      assert (seq_filter (simplify a S true :: rest)
              = if droppable (simplify a S true) then seq_filter rest else simplify a S true :: seq_filter rest) as EF.
      { unfold rest. cbn [map seq_filter]. reflexivity. }
      rewrite EF. destruct (droppable (simplify a S true)) eqn:ED.
      + destruct (droppable_pure2 _ _ _ _ _ _ _ _ ED E2) as [-> ->]. exists v', s1'. repeat split; assumption.
      + destruct (seq_filter rest) as [|y u] eqn:ER; [exfalso; unfold rest in ER; cbn [map] in ER; exact (seq_filter_nonnil _ _ ER)|].
        exists v', s1'.
        change (seq2 m (simplify a S true :: y :: u) r' s' o)
          with (match eval2 m (simplify a S true) r' s' o with Some (_, sA0, oA0) => seq2 m (y :: u) r' sA0 oA0 | None => None end).
        rewrite E2. repeat split; assumption.
  Qed.
End Lists.

Lemma eval2_collapse m l r s o x : seq2 m l r s o = Some x ->
  eval2 (S m) (match l with [] => Seq [] | [y] => y | y :: z :: t => Seq (y :: z :: t) end) r s o = Some x.
Proof.
  destruct l as [|y [|z t]]; intros H; [discriminate| |rewrite eval2_Seq; exact H].
  cbn [seq2] in H. apply eval2_mono. exact H.
Qed.

(** ------------------------------------------------------------------ the main simulation *)
Lemma eval2_Op_none m op r s o : eval2 m (Op op) r s o = None.
Proof. destruct m; reflexivity. Qed.

Lemma is_special_cases f : is_special f = true ->
  (exists op, f = Op op) \/ (exists id ps sv body, f = Lam id ps false sv body) \/ f = Ref OUT 0.
Proof.
  destruct f; cbn [is_special is_out]; try discriminate; intros H.
  - right. right. apply andb_prop in H. destruct H as [E1 E2]. apply Z.eqb_eq in E1, E2. subst. reflexivity.
  - destruct rest; [discriminate|]. right. left. eauto.
  - left. eauto.
Qed.

Lemma simplify_App_shape f args S :
  match f with Lam _ _ _ _ _ => false | _ => true end = true ->
  simplify (App f args) S true =
  match simplify f S true with
  | Op o => if is_arith o then
              match all_simple (map (fun a => simplify a S true) args) with
              | Some cs => match prim_eval o cs with
                           | Some r => Lit r
                           | None => App (simplify f S true) (map (fun a => simplify a S true) args)
                           end
              | None => App (simplify f S true) (map (fun a => simplify a S true) args)
              end
            else App (simplify f S true) (map (fun a => simplify a S true) args)
  | _ => App (simplify f S true) (map (fun a => simplify a S true) args)
  end.
Proof. destruct f; intros H; try discriminate; reflexivity. Qed.

Theorem sound2_all : forall m, sound2 m.
Proof.
  induction m as [|m IHm]; unfold sound2; intros e S r r' s s' o v s1 o1 Hwf H1 H2 H0 He Hs Hev; [discriminate|].
  destruct e.
  - (* Lit *) rewrite eval2_Lit in Hev. inversion Hev; subst. exists (VC c), s'. cbn [simplify]. rewrite eval2_Lit. repeat split; [constructor|exact Hs].
  - (* Obj *) rewrite eval2_Obj in Hev. inversion Hev; subst. exists (VC c), s'. cbn [simplify]. rewrite eval2_Obj. repeat split; [constructor|exact Hs].
  - (* Ref *)
    rewrite eval2_Ref in Hev. destruct He as (A1 & A2 & A3). cbn [simplify].
    destruct (lookup_subst x loc S) as [c|] eqn:EL.
    + rewrite (A1 _ _ _ EL) in Hev. inversion Hev; subst. exists (VC c), s'. rewrite eval2_Lit. repeat split; [constructor|exact Hs].
    + pose proof (A2 _ _ EL) as Hsr. rewrite eval2_Ref.
      destruct (lookup2 x loc r) as [[w|l]|] eqn:ELk; [| |discriminate].
      * inversion Hev; subst. inversion Hsr as [|w0 w' Hw|]; subst. exists w', s'. repeat split; assumption.
      * inversion Hsr; subst. destruct (nth_error s l) as [w|] eqn:En; [|discriminate]. inversion Hev; subst.
        destruct (storerel_nth _ _ _ _ Hs En) as (w' & En' & Hw). rewrite En'. exists w', s'. repeat split; assumption.
  - (* SetE *)
    rewrite eval2_SetE in Hev. destruct (eval2 m e r s o) as [[[w sA] oA]|] eqn:Ee; [|discriminate].
    destruct (lookup2 x loc r) as [[?|l]|] eqn:ELk; try discriminate.
    destruct (Nat.ltb l (length sA)) eqn:Elt; [|discriminate]. inversion Hev; subst.
    unfold C1 in H1. cbn [assigned] in H1. inversion H1 as [|? ? HN H1e]; subst. cbn [fst snd] in HN. cbn [wf] in Hwf.
    destruct (IHm e S r r' s s' o w sA o1 Hwf H1e H2 H0 He Hs Ee) as (w' & sA' & E2 & R2 & S2).
    destruct He as (A1 & A2 & A3). pose proof (A2 _ _ HN) as Hsr. rewrite ELk in Hsr.
    assert (lookup2 x loc r' = Some (Boxed l)) as ELk' by (inversion Hsr; congruence).
    exists (VC CVoid), (update l w' sA'). cbn [simplify]. rewrite eval2_SetE, E2, ELk'.
    rewrite <- (storerel_length _ _ S2), Elt. repeat split; [constructor|apply storerel_update; assumption].
  - (* Cnd *)
    rewrite eval2_Cnd in Hev. destruct (eval2 m e1 r s o) as [[[tv sA] oA]|] eqn:Et; [|discriminate].
    cbn [wf] in Hwf. apply andb_prop in Hwf. destruct Hwf as [Hwf Wb]. apply andb_prop in Hwf. destruct Hwf as [Wt Wa].
    unfold C1, C2 in H1, H2. cbn [assigned lam_ids] in H1, H2.
    pose proof (Forall_app_l _ _ _ H1) as H1t. pose proof (Forall_app_r _ _ _ H1) as H1ab.
    pose proof (Forall_app_l _ _ _ H1ab) as H1a. pose proof (Forall_app_r _ _ _ H1ab) as H1b.
    pose proof (Forall_app_l _ _ _ H2) as H2t. pose proof (Forall_app_r _ _ _ H2) as H2ab.
    pose proof (Forall_app_l _ _ _ H2ab) as H2a. pose proof (Forall_app_r _ _ _ H2ab) as H2b.
    destruct (IHm e1 S r r' s s' o tv sA oA Wt H1t H2t H0 He Hs Et) as (tv' & sA' & E2 & R2 & S2).
    assert (exists x, (if match tv with VC c => const_false c | VClo _ _ => false end then eval2 m e3 r sA oA else eval2 m e2 r sA oA) = Some x /\ x = (v, s1, o1)) as (x & Hbr & ->).
    { destruct tv as [c|]; [destruct (const_false c)|]; eexists; split; try exact Hev; reflexivity. }
    assert (match tv' with VC c => const_false c | VClo _ _ => false end = match tv with VC c => const_false c | VClo _ _ => false end) as Etv.
    { inversion R2; subst; reflexivity. }
    cbn [simplify]. destruct (simple (simplify e1 S true)) as [c0|] eqn:ES.
    + destruct (simplify e1 S true); cbn [simple] in ES; try discriminate. inversion ES; subst c.
      destruct m as [|m']; [discriminate|]. rewrite eval2_Lit in E2. inversion E2; subst tv' sA' oA.
      cbn in Etv. rewrite Etv.
      destruct (match tv with VC c => const_false c | VClo _ _ => false end).
      * destruct (IHm e3 S r r' sA s' o v s1 o1 Wb H1b H2b H0 He S2 Hbr) as (v' & s1' & E3 & R3 & S3).
        exists v', s1'. split; [apply eval2_mono; exact E3|split; assumption].
      * destruct (IHm e2 S r r' sA s' o v s1 o1 Wa H1a H2a H0 He S2 Hbr) as (v' & s1' & E3 & R3 & S3).
        exists v', s1'. split; [apply eval2_mono; exact E3|split; assumption].
    + rewrite eval2_Cnd, E2.
      assert ((match tv' with
               | VC c => if const_false c then eval2 m (simplify e3 S true) r' sA' oA else eval2 m (simplify e2 S true) r' sA' oA
               | VClo _ _ => eval2 m (simplify e2 S true) r' sA' oA end)
              = if match tv' with VC c => const_false c | VClo _ _ => false end
                then eval2 m (simplify e3 S true) r' sA' oA else eval2 m (simplify e2 S true) r' sA' oA) as Eshape.
      { destruct tv' as [c|]; [destruct (const_false c)|]; reflexivity. }
      rewrite Eshape, Etv.
      destruct (match tv with VC c => const_false c | VClo _ _ => false end).
      * apply (IHm e3 S r r' sA sA' oA v s1 o1 Wb H1b H2b H0 He S2 Hbr).
      * apply (IHm e2 S r r' sA sA' oA v s1 o1 Wa H1a H2a H0 He S2 Hbr).
  - (* Seq *)
    rewrite eval2_Seq in Hev. cbn [wf] in Hwf. unfold C1, C2 in H1, H2. cbn [assigned lam_ids] in H1, H2.
    destruct (seq_sound2 m IHm es S r r' s s' o v s1 o1 Hwf (C_flat _ _ _ H1) (C_flatZ _ _ _ H2) H0 He Hs Hev) as (v' & s1' & E1 & R1 & S1).
    exists v', s1'. cbn [simplify]. split; [apply eval2_collapse; exact E1|split; assumption].
  - (* Lam *)
    rewrite eval2_Lam in Hev. destruct rest; [discriminate|]. inversion Hev; subst.
    cbn [simplify]. rewrite eval2_Lam. eexists. exists s'. split; [reflexivity|split; [|exact Hs]].
    destruct He as (A1 & A2 & A3). apply VR_clo with (S := S); assumption.
  - (* App *)
    cbn [wf] in Hwf. apply andb_prop in Hwf. destruct Hwf as [Wf Wargs].
    unfold C1, C2 in H1, H2. cbn [assigned lam_ids] in H1, H2.
    pose proof (Forall_app_l _ _ _ H1) as H1f. pose proof (C_flat _ _ _ (Forall_app_r _ _ _ H1)) as H1args.
    pose proof (Forall_app_l _ _ _ H2) as H2f. pose proof (C_flatZ _ _ _ (Forall_app_r _ _ _ H2)) as H2args.
    destruct (is_special e) eqn:Esp.
    + destruct (is_special_cases _ Esp) as [(op & ->)|[(id & ps & sv & body & ->)| ->]].
      * (* opcode *)
        rewrite eval2_App_Op in Hev. destruct (args2 m args r s o) as [[[vs sA] oA]|] eqn:Eargs; [|discriminate].
        destruct (consts_of vs) as [cs|] eqn:Ecs; [|discriminate]. destruct (prim_eval op cs) as [c|] eqn:EP; [|discriminate].
        inversion Hev; subst.
        destruct (args_sound2 m IHm args S r r' s s' o vs s1 o1 Wargs H1args H2args H0 He Hs Eargs) as (vs' & sA' & E2 & R2 & S2).
        pose proof (consts_rel _ _ _ R2 Ecs) as Ecs'.
        cbn [simplify].
        assert (eval2 (Datatypes.S m) (App (Op op) (map (fun a => simplify a S true) args)) r' s' o = Some (VC c, sA', o1)) as Eplain.
        { rewrite eval2_App_Op, E2, Ecs', EP. reflexivity. }
        destruct (is_arith op); [|exists (VC c), sA'; repeat split; [exact Eplain|constructor|exact S2]].
        destruct (all_simple (map (fun a => simplify a S true) args)) as [cs0|] eqn:EAS;
          [|exists (VC c), sA'; repeat split; [exact Eplain|constructor|exact S2]].
        destruct (all_simple_args2_inv _ _ _ _ _ _ _ _ _ EAS E2) as (Ec0 & -> & ->).
        rewrite Ecs' in Ec0. inversion Ec0; subst cs0. rewrite EP.
        exists (VC c), s'. rewrite eval2_Lit. repeat split; [constructor|exact S2].
      * (* let *)
        rewrite eval2_App_Lam in Hev. unfold letform in Hev.
        destruct (Nat.eqb (length ps) (length args)) eqn:ELen; [|discriminate]. apply Nat.eqb_eq in ELen.
        destruct (args2 m args r s o) as [[[vs sA] oA]|] eqn:Eargs; [|discriminate].
        destruct (args_sound2 m IHm args S r r' s s' o vs sA oA Wargs H1args H2args H0 He Hs Eargs) as (vs' & sA' & E2 & R2 & S2).
        cbn [simplify]. unfold proper_len. rewrite map_length. rewrite (proj2 (Nat.eqb_eq _ _) ELen).
        destruct (let_subst id sv ps (map (fun a => simplify a S true) args) S) as [[ps2 argsK] S2'] eqn:ELS.
        cbn [wf] in Wf. apply andb_prop in Wf. destruct Wf as [Wf Wid0]. apply andb_prop in Wf. destruct Wf as [Wf Wfresh].
        apply andb_prop in Wf. destruct Wf as [Wf Wnd]. apply andb_prop in Wf. destruct Wf as [Wbody Wsv].
        cbn [lam_ids] in H2f. inversion H2f as [|? ? Hid H2bd]; subst. cbn [assigned] in H1f.
        assert (id <> 0) as Hid0 by (apply negb_true_iff in Wid0; apply Z.eqb_neq in Wid0; exact Wid0).
        assert (forall p, In p ps -> lookup_subst p id S = None) as Hfr by (intros; apply lookup_subst_none_loc; exact Hid).
        destruct (let_subst_sound2 m id sv ps _ S ps2 argsK S2' vs' r' s' o sA' oA ELS
                    ltac:(rewrite map_length; exact ELen) (nodupb_NoDup _ Wnd) Hid0 Hfr E2)
          as (vsK & E3 & L3 & B3 & N3 & P3).
        destruct (B3 vs r r' sA sA' R2 He S2) as [Benv Bsto].
        destruct (bind2 id sv ps vs r sA) as [rb sb] eqn:EB1. destruct (bind2 id sv ps2 vsK r' sA') as [rb' sb'] eqn:EB2.
        cbn [fst snd] in Benv, Bsto.
        assert (C1 S2' body) as H1body.
        { unfold C1. rewrite Forall_forall in H1f |- *. intros k Hk.
          destruct (lookup_subst (fst k) (snd k) S2') as [c|] eqn:EK; [|reflexivity]. exfalso.
          destruct (P3 _ _ _ EK) as [Hs'|(El & Hin & Hsv)]; [rewrite (H1f k Hk) in Hs'; discriminate|].
          rewrite forallb_forall in Wsv. specialize (Wsv k Hk). apply orb_prop in Wsv.
          destruct Wsv as [Wn|Wm]; [rewrite El, Z.eqb_refl in Wn; discriminate|]. apply Hsv. apply memZ_true. exact Wm. }
        assert (forall l, ~ In l (sdom S) -> l <> id -> ~ In l (sdom S2')) as Hdom.
        { intros l Hl Hne HI. unfold sdom in HI. apply in_map_iff in HI. destruct HI as ([[y m0] c] & Em & HIn). cbn in Em. subst m0.
          assert (exists c', lookup_subst y l S2' = Some c') as (c' & Ec').
          { clear - HIn. induction S2' as [|[[y2 m2] c2] S2' IH]; [destruct HIn|]. cbn [lookup_subst].
            destruct ((y2 =? y) && (m2 =? l)) eqn:E; [eexists; reflexivity|]. destruct HIn as [Eq|HIn]; [|apply IH; exact HIn].
            inversion Eq; subst. rewrite !Z.eqb_refl in E. discriminate. }
          destruct (P3 _ _ _ Ec') as [Hs'|(El & _)]; [|contradiction].
          rewrite (lookup_subst_none_loc y l S Hl) in Hs'. discriminate. }
        assert (C2 S2' body) as H2body.
        { unfold C2. rewrite Forall_forall in H2bd |- *. intros l Hl. apply Hdom; [apply H2bd; exact Hl|].
          intros ->. apply negb_true_iff in Wfresh. apply memZ_false in Wfresh. contradiction. }
        assert (~ In 0 (sdom S2')) as H0' by (apply Hdom; [exact H0|congruence]).
        destruct (IHm body S2' rb rb' sb sb' oA v s1 o1 Wbody H1body H2body H0' Benv Bsto Hev) as (v' & s1' & E4 & R4 & S4).
        exists v', s1'. rewrite eval2_App_Lam. unfold letform. rewrite (proj2 (Nat.eqb_eq _ _) L3), E3, EB2.
        split; [exact E4|split; assumption].
      * (* output *)
        destruct args as [|a [|b t]]; try (cbn in Hev; discriminate).
        rewrite eval2_App_OUT in Hev. destruct (eval2 m a r s o) as [[[[c|] sA] oA]|] eqn:Ea; try discriminate. inversion Hev; subst.
        cbn [forallb] in Wargs. apply andb_prop in Wargs. destruct Wargs as [Wa _].
        inversion H1args as [|? ? H1a _]; subst. inversion H2args as [|? ? H2a _]; subst.
        destruct (IHm a S r r' s s' o (VC c) s1 oA Wa H1a H2a H0 He Hs Ea) as (w' & sA' & E2 & R2 & S2).
        apply vrel_const_l in R2. subst w'.
        exists (VC CVoid), sA'. cbn [simplify map]. rewrite (lookup_subst_none_loc OUT 0 S H0).
        rewrite eval2_App_OUT, E2. repeat split; [constructor|exact S2].
    + (* application of a closure value *)
      rewrite eval2_App_generic in Hev by exact Esp. unfold generic in Hev.
      destruct (args2 m args r s o) as [[[vs sA] oA]|] eqn:Eargs; [|discriminate].
      destruct (eval2 m e r sA oA) as [[[fv sB] oB]|] eqn:Ef; [|discriminate].
      destruct fv as [|lam rc]; [discriminate|]. destruct lam; try discriminate. destruct rest; [discriminate|].
      destruct (Nat.eqb (length ps) (length vs)) eqn:ELen; [|discriminate].
      destruct (args_sound2 m IHm args S r r' s s' o vs sA oA Wargs H1args H2args H0 He Hs Eargs) as (vs' & sA' & E2 & R2 & S2).
      destruct (IHm e S r r' sA sA' oA _ sB oB Wf H1f H2f H0 He S2 Ef) as (fv' & sB' & E3 & R3 & S3).
      inversion R3 as [|Sc id0 ps0 sv0 body0 rc0 rc' Wc C1c C2c H0c Ac1 Ac2 Ac3]; subst.
      assert (envrel Sc rc rc') as Hec by (split; [exact Ac1|split; [exact Ac2|exact Ac3]]).
      cbn [wf] in Wc. apply andb_prop in Wc. destruct Wc as [Wc Wid0]. apply andb_prop in Wc. destruct Wc as [Wc Wfresh].
      apply andb_prop in Wc. destruct Wc as [Wc Wnd]. apply andb_prop in Wc. destruct Wc as [Wbody Wsv].
      unfold C2 in C2c. cbn [lam_ids] in C2c. inversion C2c as [|? ? Hidc C2body]; subst.
      unfold C1 in C1c. cbn [assigned] in C1c.
      assert (id <> 0) as Hid0 by (apply negb_true_iff in Wid0; apply Z.eqb_neq in Wid0; exact Wid0).
      assert (forall p, In p ps -> lookup_subst p id Sc = None) as Hfr by (intros; apply lookup_subst_none_loc; exact Hidc).
      destruct (bind2_rel Sc id sv ps vs vs' rc rc' sB sB' R2 Hec S3 Hid0 Hfr) as [Benv Bsto].
      destruct (bind2 id sv ps vs rc sB) as [rb sb] eqn:EB1. destruct (bind2 id sv ps vs' rc' sB') as [rb' sb'] eqn:EB2.
      cbn [fst snd] in Benv, Bsto.
      destruct (IHm lam Sc rb rb' sb sb' oB v s1 o1 Wbody C1c C2body H0c Benv Bsto Hev) as (v' & s1' & E4 & R4 & S4).
      exists v', s1'. split; [|split; assumption].
      assert (length vs' = length vs) as ELv by (symmetry; clear - R2; induction R2; cbn; congruence).
      (* shape of the simplified application *)
      assert (match e with Lam _ _ _ _ _ => false | _ => true end = true) as Hnl.
      { destruct e as [| | | | | |id1 ps1 rest1 sv1 body1| |]; try reflexivity.
        destruct rest1; [|cbn in Esp; discriminate]. destruct m as [|m']; [discriminate|]. rewrite eval2_Lam in Ef. discriminate. }
      rewrite (simplify_App_shape e args S Hnl).
      set (f' := simplify e S true) in *. set (args' := map (fun a => simplify a S true) args) in *.
      assert (length args' = length vs') as ELa.
      { clear - E2. subst args'. revert vs' sA' oA E2. generalize s' o. induction args as [|a t IH]; intros s0 o0 vs' sA' oA E2; cbn [map args2] in E2.
        - inversion E2. reflexivity.
        - destruct (args2 m (map (fun a0 => simplify a0 S true) t) r' s0 o0) as [[[vt st] ot]|] eqn:Et; [|discriminate].
          destruct (eval2 m (simplify a S true) r' st ot) as [[[va sa] oa]|]; [|discriminate]. inversion E2; subst.
          cbn [map length]. f_equal. eapply IH. exact Et. }
      destruct (is_special f') eqn:Esp'.
      * destruct (is_special_cases _ Esp') as [(op & Eq)|[(id1 & ps1 & sv1 & body1 & Eq)| Eq]].
        -- rewrite Eq in E3. rewrite eval2_Op_none in E3. discriminate.
        -- rewrite Eq in *. destruct m as [|m']; [discriminate|].
           rewrite eval2_Lam in E3. inversion E3; subst.
           rewrite eval2_App_Lam. unfold letform. rewrite ELa, ELv, ELen, E2, EB2. exact E4.
        -- rewrite Eq in E3. destruct m as [|m']; [discriminate|]. rewrite eval2_Ref in E3.
           destruct He as (_ & _ & A3). rewrite (A3 OUT) in E3. discriminate.
      * assert (eval2 (Datatypes.S m) (App f' args') r' s' o = Some (v', s1', o1)) as Egen.
        { rewrite eval2_App_generic by exact Esp'. unfold generic. rewrite E2, E3, ELv, ELen, EB2. exact E4. }
        destruct f'; try exact Egen. cbn [is_special] in Esp'. discriminate.
  - (* Op *) rewrite eval2_Opv in Hev. discriminate.
Qed.

(** ------------------------------------------------------------------ statements for Properties_C09 *)
Theorem simplify_sound_closures : forall fuel e S r r' s s' o v s1 o1,
  wf e = true -> C1 S e -> C2 S e -> ~ In 0 (sdom S) -> envrel S r r' -> storerel s s' ->
  eval2 fuel e r s o = Some (v, s1, o1) ->
  exists v' s1', eval2 fuel (simplify e S true) r' s' o = Some (v', s1', o1) /\ vrel v v' /\ storerel s1 s1'.
Proof. intros fuel. apply sound2_all. Qed.

(** a whole program (the body of a lambda, no substitution in force): same output, same value when it is a constant,
    a closure for a closure *)
Theorem simplify_sound_program : forall fuel e res o,
  wf e = true -> run2 fuel e = Some (res, o) -> run2 fuel (simplify e [] true) = Some (res, o).
Proof.
  intros fuel e res o Hwf H. unfold run2 in *.
  destruct (eval2 fuel e [] [] []) as [[[v s1] o1]|] eqn:E; [|discriminate].
  destruct (simplify_sound_closures fuel e [] [] [] [] [] [] v s1 o1 Hwf) as (v' & s1' & E' & Rv & _); auto.
  - unfold C1. apply Forall_forall. reflexivity.
  - unfold C2. apply Forall_forall. intros x _ [].
  - split; [intros x l c Hx; discriminate|split; [intros; constructor|reflexivity]].
  - constructor.
  - rewrite E'. inversion Rv; subst; exact H.
Qed.

(** non-vacuity: recursion through an assigned variable, a closure capturing a propagated constant, dropped statements *)
Definition ex_clo : expr :=
  App (Lam 1 [10; 11] false [10] (Seq [
         SetE 10 1 (Lam 2 [12; 13] false [] (Cnd (App (Op 10) [Ref 12 2; Ref 11 1])
                                                 (App (Ref 10 1) [App (Op 0) [Ref 12 2; Lit (CInt 1)]; App (Op 1) [Ref 13 2; Lit (CInt 2)]])
                                                 (Ref 13 2)));
         Ref 11 1;
         App (Ref OUT 0) [App (Ref 10 1) [Lit (CInt 0); App (Op 0) [Lit (CInt 1); Lit (CInt 2)]]];
         App (Lam 3 [14] false [] (App (Ref 14 3) [Ref 11 1])) [Lam 4 [15] false [] (App (Op 1) [Ref 15 4; Ref 11 1])]]))
      [Lit (CBool false); Lit (CInt 4)].

Example ex_clo_defined : wf ex_clo = true /\ run2 40 ex_clo = Some (Some (CInt 16), [CInt 48]).
Proof. vm_compute. split; reflexivity. Qed.

Example ex_clo_simplified : run2 40 (simplify ex_clo [] true) = Some (Some (CInt 16), [CInt 48])
  /\ simplify ex_clo [] true <> ex_clo.
Proof. vm_compute. split; [reflexivity|discriminate]. Qed.
