(** C09 (B), kind-exact model of simplify.c:11-158 (round 2).  No proofs here.
    The analysed AST has THREE shapes of constant, and the C code tests them with different predicates:
      KImm c   not a pointer (fixnum, boolean, character, the void of a one-armed if): analyze returns the datum itself
               (eval.c:1230-1236, the final else) — `! sexp_pointerp(x)`
      KLit c   a SEXP_LIT node wrapping ANY datum, immediates included: `(quote d)` (eval.c:1152-1161) and every result of
               a constant fold (simplify.c:56 sexp_make_lit) — `sexp_litp(x)`, value behind sexp_lit_value
      KObj c   a self-evaluating heap datum that analyze returns as itself (string, bignum, flonum, vector):
               a pointer that is not a lit — neither predicate holds
    [Simplify.simplify] (the model the soundness theorems are proved for) identifies KImm and KLit; [ksimplify] keeps them
    apart exactly as the C does, so that the token-for-token comparison with the implementation's AST sees which of the
    two a test, an operand, a propagated argument or a dropped statement was.  [erase] forgets the difference;
    KindedProofs.erase_ksimplify shows the two models commute with it, which carries every soundness theorem over.

    (A) The fold evaluates the application by RUNNING it in the VM (simplify.c:46-58).  [dyn] is the part of the running
    program's dynamic state that such a run could observe or disturb: the installed exception handler and the parameter
    bindings.  [vm_apply] is a plain sexp_apply: when the evaluation raises, the installed handler is called — an event.
    [apply_no_err_handler] (vm.c:2474-2494) empties both for the duration of the call and restores them afterwards;
    the fold uses it and discards the exception.  ksimplify takes the dynamic state as a parameter and folds through
    [fold_eval]; KindedProofs.fold_eval_unobservable / ksimplify_dyn_independent state that nothing of it is observable. *)
From ChibiV Require Import C09.Ast C09.Simplify.
Local Open Scope Z_scope.

Inductive kexpr : Type :=
| KImm (c : const)
| KLit (c : const)
| KObj (c : const)
| KRef (x loc : Z)
| KSet (x loc : Z) (e : kexpr)
| KCnd (t a b : kexpr)
| KSeq (es : list kexpr)
| KLam (id : Z) (ps : list Z) (rest : bool) (sv : list Z) (body : kexpr)
| KApp (f : kexpr) (args : list kexpr)
| KOp (o : Z).

Fixpoint erase (e : kexpr) : expr :=
  match e with
  | KImm c | KLit c => Lit c
  | KObj c => Obj c
  | KRef x l => Ref x l
  | KSet x l v => SetE x l (erase v)
  | KCnd t a b => Cnd (erase t) (erase a) (erase b)
  | KSeq es => Seq (map erase es)
  | KLam id ps rest sv body => Lam id ps rest sv (erase body)
  | KApp f args => App (erase f) (map erase args)
  | KOp o => Op o
  end.

(** ------------------------------------------------------------------ (A) the dynamic state a fold must not touch *)
Record dyn : Type := { handler : option Z; params : list (Z * const) }.
Definition dyn0 : dyn := {| handler := None; params := [] |}.

Inductive event : Type := EHandlerCalled (h : Z) (o : Z) (cs : list const).

(** sexp_apply of the compiled application (vm.c): value, events, dynamic state afterwards.  A raising evaluation
    calls the installed handler (what the handler then does — return, escape — is the program's business and is not
    modelled: the event alone is already what must not happen at compile time). *)
Definition vm_apply (d : dyn) (o : Z) (cs : list const) : option const * list event * dyn :=
  match prim_eval o cs with
  | Some r => (Some r, [], d)
  | None => match handler d with
            | Some h => (None, [EHandlerCalled h o cs], d)
            | None => (None, [], d)
            end
  end.

(** vm.c:2474-2494: parameters := '(), handler cell := #f, sexp_apply, both restored whatever the outcome *)
Definition apply_no_err_handler (d : dyn) (o : Z) (cs : list const) : option const * list event * dyn :=
  let '(r, ev, _) := vm_apply dyn0 o cs in (r, ev, d).

(** simplify.c:46-58 *)
Definition fold_eval (d : dyn) (o : Z) (cs : list const) : option const * list event * dyn := apply_no_err_handler d o cs.

(** ------------------------------------------------------------------ simplify with kinds *)
Definition klit : Type := (bool * const)%type.          (* true = SEXP_LIT node, false = immediate *)
Definition klit_expr (k : klit) : kexpr := if fst k then KLit (snd k) else KImm (snd k).
Definition ksubst : Type := (Z * Z * klit)%type.       (* (name lambda . argument node), simplify.c:77-79: the node itself is shared *)
Definition erase_subst (s : ksubst) : subst := (fst (fst s), snd (fst s), snd (snd s)).

(** sexp_litp(x) || !sexp_pointerp(x) *)
Definition ksimple (e : kexpr) : option klit :=
  match e with KLit c => Some (true, c) | KImm c => Some (false, c) | _ => None end.

Fixpoint kall_simple (es : list kexpr) : option (list const) :=
  match es with
  | [] => Some []
  | e :: r => match ksimple e, kall_simple r with Some k, Some cs => Some (snd k :: cs) | _, _ => None end
  end.

Fixpoint klookup_subst (x loc : Z) (S : list ksubst) : option klit :=
  match S with
  | [] => None
  | (y, l, k) :: r => if (y =? x) && (l =? loc) then Some k else klookup_subst x loc r
  end.

Fixpoint klet_subst (id : Z) (sv ps : list Z) (args : list kexpr) (S : list ksubst) : list Z * list kexpr * list ksubst :=
  match ps, args with
  | p :: ps', a :: args' =>
      match (if memZ p sv then None else ksimple a) with
      | Some k => klet_subst id sv ps' args' ((p, id, k) :: S)
      | None => let '(ps2, args2, S2) := klet_subst id sv ps' args' S in (p :: ps2, a :: args2, S2)
      end
  | _, _ => (ps, args, S)
  end.

(** simplify.c:139-141: sexp_litp || !sexp_pointerp || sexp_refp || sexp_lambdap *)
Definition kdroppable (e : kexpr) : bool :=
  match e with KLit _ | KImm _ | KRef _ _ | KLam _ _ _ _ _ => true | _ => false end.

Fixpoint kseq_filter (es : list kexpr) : list kexpr :=
  match es with
  | [] => []
  | [e] => [e]
  | e :: r => if kdroppable e then kseq_filter r else e :: kseq_filter r
  end.

(** simplify.c:35-60, the operator (after simplification) is not a lambda: fold an arithmetic opcode application whose
    operands are all constants when the handler-free evaluation yields a value, else leave the application alone *)
Definition kfold_app (d : dyn) (f' : kexpr) (args' : list kexpr) : kexpr :=
  match f' with
  | KOp o =>
      if is_arith o then
        match kall_simple args' with
        | Some cs => match fst (fst (fold_eval d o cs)) with
                     | Some r => KLit r            (* simplify.c:56: always a fresh lit node, also around a fixnum *)
                     | None => KApp f' args'
                     end
        | None => KApp f' args'
        end
      else KApp f' args'
  | _ => KApp f' args'
  end.

Fixpoint ksimplify (d : dyn) (e : kexpr) (S : list ksubst) (inlam : bool) {struct e} : kexpr :=
  match e with
  | KApp f args =>
      let f' := match f with KLam _ _ _ _ _ => f | _ => ksimplify d f S inlam end in
      let args' := map (fun a => ksimplify d a S inlam) args in
      match f with
      | KLam id ps rest sv body =>
          if inlam then
            if Nat.eqb (proper_len ps rest) (length args') then
              let '(ps2, args2, S2) := klet_subst id sv ps args' S in
              KApp (KLam id ps2 rest sv (ksimplify d body S2 true)) args2
            else KApp (KLam id ps rest sv (ksimplify d body S true)) args'
          else KApp f' args'
      | _ => kfold_app d f' args'
      end
  | KLam id ps rest sv body => KLam id ps rest sv (ksimplify d body S true)
  | KCnd t a b =>
      let t' := ksimplify d t S inlam in
      match ksimple t' with
      | Some k => if const_false (snd k) then ksimplify d b S inlam else ksimplify d a S inlam   (* simplify.c:112: the lit is unwrapped *)
      | None => KCnd t' (ksimplify d a S inlam) (ksimplify d b S inlam)
      end
  | KRef x loc => match klookup_subst x loc S with Some k => klit_expr k | None => e end
  | KSet x loc v => KSet x loc (ksimplify d v S inlam)
  | KSeq es =>
      match kseq_filter (map (fun a => ksimplify d a S inlam) es) with
      | [x] => x
      | es' => KSeq es'
      end
  | KImm _ | KLit _ | KObj _ | KOp _ => e
  end.

(** sexp_simplify (simplify.c:156-158), called with whatever dynamic state the compiling program is in *)
Definition ksexp_simplify (d : dyn) (e : kexpr) : kexpr := ksimplify d e [] false.

(** the SPEC meaning of a kinded program is that of its erasure *)
Definition krun (e : kexpr) : option const * list const := run (erase e).
Definition kwf (e : kexpr) : bool := wf (erase e).
