(** C09 (B) SPEC, third interpreter (round 3): Sem2 extended with
      - REST PARAMETERS: a lambda whose rest flag is set takes at least [proper_len ps rest] arguments, the surplus
        arguments are collected, in order, into a fresh list bound to the last parameter (boxed when it is assigned);
        every lambda is a first-class closure and may be called with ANY number of arguments it accepts;
      - NON-CONSTANT DATA: immutable pairs and vectors as values (cons car cdr pair? null? vector-ref vector-length as
        opcodes of a class that is never folded; list / vector / length as global procedures, like the output
        procedure); strings, characters, symbols and quoted data stay constants ([COther]);
      - output of any closure-free datum.
    No proofs here.  Everything else is Sem2: fuel, store, boxed set-vars, operands right to left, operator last. *)
From ChibiV Require Import C09.Ast C09.Simplify.
Local Open Scope Z_scope.

Inductive val3 : Type :=
| V3C (c : const)
| V3Pair (a d : val3)
| V3Vec (elems : val3)                            (* the elements as a list value (chain of pairs ending in NIL) *)
| V3Clo (lam : expr) (r : list (key * slot3))     (* lam is a Lam node, r the environment it was evaluated in *)
with slot3 : Type :=
| D3 (v : val3)
| B3 (loc : nat).

Definition env3 : Type := list (key * slot3).
Definition store3 : Type := list val3.

(** closure-free data: what a program can write *)
Inductive dat : Type := DC (c : const) | DP (a d : dat) | DV (elems : dat).

Fixpoint data_of (v : val3) : option dat :=
  match v with
  | V3C c => Some (DC c)
  | V3Pair a d => match data_of a, data_of d with Some x, Some y => Some (DP x y) | _, _ => None end
  | V3Vec e => match data_of e with Some x => Some (DV x) | None => None end
  | V3Clo _ _ => None
  end.

Definition NIL : const := COther 0.      (* the empty list: tag 0 is reserved for it by the driver *)

Fixpoint list_of (vs : list val3) : val3 :=
  match vs with [] => V3C NIL | v :: t => V3Pair v (list_of t) end.

Fixpoint chain_nth (n : nat) (v : val3) : option val3 :=
  match v with
  | V3Pair a d => match n with O => Some a | S k => chain_nth k d end
  | _ => None
  end.

Fixpoint chain_len (v : val3) : option Z :=
  match v with
  | V3C c => if const_eqb c NIL then Some 0 else None
  | V3Pair _ d => match chain_len d with Some n => Some (n + 1) | None => None end
  | _ => None
  end.

Fixpoint lookup3 (x loc : Z) (r : env3) : option slot3 :=
  match r with
  | [] => None
  | ((y, l), s) :: r' => if (y =? x) && (l =? loc) then Some s else lookup3 x loc r'
  end.

Fixpoint update3 (n : nat) (v : val3) (s : store3) : store3 :=
  match s, n with
  | [], _ => []
  | _ :: t, O => v :: t
  | h :: t, S m => h :: update3 m v t
  end.

(** bind parameters left to right: assigned ones get a fresh box *)
Fixpoint bind3 (id : Z) (sv ps : list Z) (vs : list val3) (r : env3) (s : store3) : env3 * store3 :=
  match ps, vs with
  | p :: ps', v :: vs' =>
      if memZ p sv then bind3 id sv ps' vs' (((p, id), B3 (length s)) :: r) (s ++ [v])
      else bind3 id sv ps' vs' (((p, id), D3 v) :: r) s
  | _, _ => (r, s)
  end.

(** the values the parameters receive: [None] = wrong number of arguments (an error is raised) *)
Definition actuals (ps : list Z) (rest : bool) (vs : list val3) : option (list val3) :=
  if rest then
    let n := pred (length ps) in
    if Nat.leb n (length vs) then Some (firstn n vs ++ [list_of (skipn n vs)]) else None
  else if Nat.eqb (length ps) (length vs) then Some vs else None.

Definition consts3_of (vs : list val3) : option (list const) :=
  (fix go (l : list val3) : option (list const) :=
     match l with
     | [] => Some []
     | V3C c :: t => match go t with Some cs => Some (c :: cs) | None => None end
     | _ :: _ => None
     end) vs.

(** opcodes on data (class SEXP_OPC_CONSTRUCTOR / ACCESSOR / TYPE_PREDICATE: never folded):
    20 cons | 21 car | 22 cdr | 23 pair? | 24 null? | 25 vector-ref | 26 vector-length *)
Definition is_data_op (o : Z) : bool := (20 <=? o) && (o <=? 26).

Definition data_eval (o : Z) (vs : list val3) : option val3 :=
  if o =? 20 then match vs with [a; d] => Some (V3Pair a d) | _ => None end
  else if o =? 21 then match vs with [V3Pair a _] => Some a | _ => None end
  else if o =? 22 then match vs with [V3Pair _ d] => Some d | _ => None end
  else if o =? 23 then match vs with [V3Pair _ _] => Some (V3C (CBool true)) | [_] => Some (V3C (CBool false)) | _ => None end
  else if o =? 24 then match vs with [V3C c] => Some (V3C (CBool (const_eqb c NIL))) | [_] => Some (V3C (CBool false)) | _ => None end
  else if o =? 25 then match vs with
                       | [V3Vec e; V3C (CInt i)] => if 0 <=? i then chain_nth (Z.to_nat i) e else None
                       | _ => None
                       end
  else if o =? 26 then match vs with
                       | [V3Vec e] => match chain_len e with Some n => Some (V3C (CInt n)) | None => None end
                       | _ => None
                       end
  else None.

(** global procedures the interpreter knows (names as numbered by the driver; OUT = 1 is Simplify.OUT) *)
Definition LIST : Z := 2.
Definition VECTOR : Z := 3.
Definition LENGTH : Z := 4.

Definition is_global_proc (x : Z) : bool := (x =? OUT) || (x =? LIST) || (x =? VECTOR) || (x =? LENGTH).

(** value and output of applying global procedure x to the argument values *)
Definition global_apply (x : Z) (vs : list val3) (o : list dat) : option (val3 * list dat) :=
  if x =? OUT then match vs with
                   | [v] => match data_of v with Some d => Some (V3C CVoid, o ++ [d]) | None => None end
                   | _ => None
                   end
  else if x =? LIST then Some (list_of vs, o)
  else if x =? VECTOR then Some (V3Vec (list_of vs), o)
  else if x =? LENGTH then match vs with
                           | [v] => match chain_len v with Some n => Some (V3C (CInt n), o) | None => None end
                           | _ => None
                           end
  else None.

Definition res3 : Type := option (val3 * store3 * list dat).

Definition truthy (v : val3) : bool := match v with V3C c => negb (const_false c) | _ => true end.

Fixpoint eval3 (n : nat) (e : expr) (r : env3) (s : store3) (o : list dat) {struct n} : res3 :=
  match n with
  | O => None
  | S m =>
      let args := fix args (es : list expr) (s : store3) (o : list dat) : option (list val3 * store3 * list dat) :=
        match es with
        | [] => Some ([], s, o)
        | a :: t => match args t s o with
                    | Some (vs, s1, o1) => match eval3 m a r s1 o1 with
                                           | Some (v, s2, o2) => Some (v :: vs, s2, o2)
                                           | None => None
                                           end
                    | None => None
                    end
        end in
      match e with
      | Lit c | Obj c => Some (V3C c, s, o)
      | Ref x loc => match lookup3 x loc r with
                     | Some (D3 v) => Some (v, s, o)
                     | Some (B3 l) => match nth_error s l with Some v => Some (v, s, o) | None => None end
                     | None => None
                     end
      | SetE x loc v =>
          match eval3 m v r s o with
          | Some (w, s1, o1) => match lookup3 x loc r with
                                | Some (B3 l) => if Nat.ltb l (length s1) then Some (V3C CVoid, update3 l w s1, o1) else None
                                | _ => None
                                end
          | None => None
          end
      | Cnd t a b =>
          match eval3 m t r s o with
          | Some (tv, s1, o1) => if truthy tv then eval3 m a r s1 o1 else eval3 m b r s1 o1
          | None => None
          end
      | Seq es =>
          (fix seq (es : list expr) (s : store3) (o : list dat) : res3 :=
             match es with
             | [] => None
             | [a] => eval3 m a r s o
             | a :: t => match eval3 m a r s o with Some (_, s1, o1) => seq t s1 o1 | None => None end
             end) es s o
      | Lam id ps rest sv body => Some (V3Clo e r, s, o)
      | Op _ => None
      | App f es =>
          (* application of a closure value: operands right to left, then the operator *)
          let generic := fun (_ : unit) =>
            match args es s o with
            | Some (vs, s1, o1) =>
                match eval3 m f r s1 o1 with
                | Some (V3Clo (Lam id ps rest sv body) rc, s2, o2) =>
                    match actuals ps rest vs with
                    | Some ws => let '(r3, s3) := bind3 id sv ps ws rc s2 in eval3 m body r3 s3 o2
                    | None => None
                    end
                | _ => None
                end
            | None => None
            end in
          match f with
          | Op op => match args es s o with
                     | Some (vs, s1, o1) =>
                         if is_data_op op then match data_eval op vs with Some v => Some (v, s1, o1) | None => None end
                         else match consts3_of vs with
                              | Some cs => match prim_eval op cs with Some c => Some (V3C c, s1, o1) | None => None end
                              | None => None
                              end
                     | None => None
                     end
          | Lam id ps rest sv body =>                       (* let: no closure is built *)
              match args es s o with
              | Some (vs, s1, o1) =>
                  match actuals ps rest vs with
                  | Some ws => let '(r2, s2) := bind3 id sv ps ws r s1 in eval3 m body r2 s2 o1
                  | None => None
                  end
              | None => None
              end
          | Ref x loc =>
              if (loc =? 0) && is_global_proc x then
                match args es s o with
                | Some (vs, s1, o1) => match global_apply x vs o1 with Some (v, o2) => Some (v, s1, o2) | None => None end
                | None => None
                end
              else generic tt
          | _ => generic tt
          end
      end
  end.

(** the argument evaluator and the sequence evaluator as top-level functions *)
Fixpoint args3 (m : nat) (es : list expr) (r : env3) (s : store3) (o : list dat) : option (list val3 * store3 * list dat) :=
  match es with
  | [] => Some ([], s, o)
  | a :: t => match args3 m t r s o with
              | Some (vs, s1, o1) => match eval3 m a r s1 o1 with
                                     | Some (v, s2, o2) => Some (v :: vs, s2, o2)
                                     | None => None
                                     end
              | None => None
              end
  end.

Fixpoint seq3 (m : nat) (es : list expr) (r : env3) (s : store3) (o : list dat) : res3 :=
  match es with
  | [] => None
  | [a] => eval3 m a r s o
  | a :: t => match eval3 m a r s o with Some (_, s1, o1) => seq3 m t r s1 o1 | None => None end
  end.

(** whole program: value (closure-free data are shown, anything holding a procedure is "some procedure") and output *)
Definition run3 (fuel : nat) (e : expr) : option (option dat * list dat) :=
  match eval3 fuel e [] [] [] with
  | Some (v, _, o) => Some (data_of v, o)
  | None => None
  end.
