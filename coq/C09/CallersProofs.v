(** C09 round 2: the regenerated callers (Gen/C09_Callers.v, from bignum.c / vm.c of the checked tree) are the
    definitions the round-1 theorem was proved for, hence they refine the native 128-bit arithmetic. *)
From ChibiV Require Import C09.CSem C09.LuintLemmas Gen.C09_Luint C09.LuintProofs C09.LuintProofs2 Gen.C09_Callers.
Local Open Scope Z_scope.

Lemma fxmul_step_regenerated x b c : C09_Callers.fxmul_step x b c = LuintProofs2.fxmul_step x b c.
Proof. unfold C09_Callers.fxmul_step, LuintProofs2.fxmul_step. cbv zeta. reflexivity. Qed.

Lemma fxdiv_step_regenerated r d b : C09_Callers.fxdiv_step r d b = LuintProofs2.fxdiv_step r d b.
Proof. unfold C09_Callers.fxdiv_step, LuintProofs2.fxdiv_step. cbv zeta. reflexivity. Qed.

Lemma fixmul_regenerated a b : C09_Callers.fixmul a b = LuintProofs2.fixmul a b /\ C09_Callers.fixmul_vm a b = LuintProofs2.fixmul a b.
Proof. unfold C09_Callers.fixmul, C09_Callers.fixmul_vm, LuintProofs2.fixmul. cbv zeta. split; reflexivity. Qed.

Theorem regenerated_callers_refine_native :
  (forall x b carry, u64 x -> u64 b -> u64 carry ->
     C09_Callers.fxmul_step x b carry = ((x * b + carry) mod M64, (x * b + carry) / M64)) /\
  (forall r d b, u64 r -> u64 d -> u64 b -> r < b ->
     C09_Callers.fxdiv_step r d b = ((r * M64 + d) / b, (r * M64 + d) mod b)) /\
  (forall a b, - 4611686018427387904 <= a <= 4611686018427387903 -> - 4611686018427387904 <= b <= 4611686018427387903 ->
     C09_Callers.fixmul a b = (if (- 4611686018427387904 <=? a * b) && (a * b <=? 4611686018427387903) then Some (a * b) else None) /\
     C09_Callers.fixmul_vm a b = C09_Callers.fixmul a b).
Proof.
  destruct custom_long_longs_refines_native as (H1 & H2 & H3).
  split; [|split].
  - intros x b c Hx Hb Hc. rewrite fxmul_step_regenerated. exact (H1 x b c Hx Hb Hc).
  - intros r d b Hr Hd Hb Hlt. rewrite fxdiv_step_regenerated. exact (H2 r d b Hr Hd Hb Hlt).
  - intros a b Ha Hb. destruct (fixmul_regenerated a b) as [E1 E2]. rewrite E2, E1. split; [exact (H3 a b Ha Hb)|reflexivity].
Qed.

(** the third digit loop, sexp_bignum_fxrem (bignum.c:295-299; not modelled in round 1): with the running remainder below
    the divisor, one more digit d gives exactly (n * 2^64 + d) mod b0, the result again a well-formed value below b0 *)
Theorem fxrem_step_Z n d b : lu_ok n -> u64 d -> u64 b -> luval n < b ->
  lu_ok (C09_Callers.fxrem_step n d b) /\ luval (C09_Callers.fxrem_step n d b) = (luval n * M64 + d) mod b.
Proof.
  intros Kr Hd Hb Hlt. unfold C09_Callers.fxrem_step. cbv zeta.
  assert (0 <= luval n) as Hn0 by (destruct n as [h l]; unfold lu_ok, luval, u64 in *; cbn [fst snd] in *; pose proof M64_pos; nia).
  destruct (luint_from_uint_Z d Hd) as [Kd Vd].
  destruct (luint_shl_Z _ 64 Kr ltac:(lia)) as [Ks Vs]. destruct (luint_add_Z _ _ Ks Kd) as [Kn Vn].
  assert (0 < b) as Hb0 by lia.
  set (r := luval n) in *.
  set (N := r * M64 + d).
  assert (0 <= N < b * M64) as RN by (unfold N, u64 in *; pose proof M64_pos; nia).
  assert (b < M64) as HbM by (unfold u64 in Hb; lia).
  assert (luval (luint_add (luint_shl n 64) (luint_from_uint d)) = N) as VN.
  { rewrite Vn, Vs, Vd. change (2 ^ 64) with M64. fold r. unfold N.
    rewrite (Z.mod_small (r * M64) M128) by (unfold u64 in *; rewrite M128_M64; pose proof M64_pos; nia).
    apply Z.mod_small. unfold u64 in *. rewrite M128_M64. pose proof M64_pos. nia. }
  set (m := luint_add (luint_shl n 64) (luint_from_uint d)) in *.
  destruct (luint_div_uint_Z m b Kn Hb ltac:(lia)) as [Kq Vq]. rewrite VN in Vq.
  assert (0 <= N / b < M64) as Rq.
  { split; [apply Z.div_pos; lia|]. apply Z.div_lt_upper_bound; [lia|]. lia. }
  destruct (luint_to_uint_Z _ Kq) as [Eq _]. rewrite Vq, (Z.mod_small _ _ Rq) in Eq. rewrite Eq.
  destruct (luint_from_uint_Z (N / b) Rq) as [Kqq Vqq]. destruct (luint_mul_uint_Z _ b Kqq Hb) as (Km & Vm & _).
  destruct (luint_sub_Z m _ Kn Km) as [Ksb Vsb].
  split; [exact Ksb|].
  rewrite Vsb, Vm, Vqq, VN.
  pose proof (Z.div_mod N b ltac:(lia)) as EDM. pose proof (Z.mod_pos_bound N b Hb0) as RM.
  assert (0 <= N / b * b <= N) as Rp.
  { clear - EDM RM Rq Hb0. set (q := N / b) in *. set (rr := N mod b) in *. clearbody q rr. nia. }
  assert (N < M128) as RNM by (clear - RN HbM Hb0; rewrite M128_M64; pose proof M64_pos; nia).
  assert (M64 < M128) as HMM by reflexivity.
  rewrite (Z.mod_small (N / b * b) M128) by (clear - Rp RNM; lia).
  replace (N - N / b * b) with (N mod b) by (clear - EDM; lia).
  apply Z.mod_small. clear - RM HbM HMM. lia.
Qed.

Example ex_fxrem_step : C09_Callers.fxrem_step (0, 5) 7 10 = (0, 7).      (* (5 * 2^64 + 7) mod 10 = 7 *)
Proof. vm_compute. reflexivity. Qed.

Example ex_regenerated_fxmul : C09_Callers.fxmul_step 18446744073709551615 18446744073709551615 18446744073709551615
                               = (0, 18446744073709551615).                  (* (2^64-1)^2 + 2^64-1 = (2^64-1) * 2^64 *)
Proof. vm_compute. reflexivity. Qed.
