(** C09 (B), round 3: the pass with the code's exact order for an operator that only BECOMES a lambda by
    simplification.  No proofs here.

    simplify.c:27-28 simplifies the operator unless it is (syntactically) a lambda; the let test at line 61 then looks at
    car(app), the SIMPLIFIED operator.  So for ((if #t (lambda (x) B) F) 1), ((begin 'a (lambda (x) B)) 1) the operator is
    first simplified as an ordinary expression — case SEXP_LAMBDA, line 106: its body B is simplified under the incoming
    substitutions, giving B1 — and then the let handling runs on the resulting lambda: parameters bound to constants are
    deleted and the body is simplified A SECOND TIME, B2 = simplify(B1, extended substitutions) (line 90-91, or 98-99
    when the argument count does not match).  [Simplify.simplify] is structurally recursive and gives such an operator
    no let handling; [simpN n] adds it, [n] bounding the NESTING of such second passes (B1 is not a subterm of the
    input, so the second pass is a recursive call at level n-1).  simpN 0 = simplify; the driver uses n = size e, which
    no nesting can exceed because every second pass works on the simplified form of a strict subterm, and checks
    simpN n e = simpN (n+1) e on every program. *)
From ChibiV Require Import C09.Ast C09.Simplify.
Local Open Scope Z_scope.

Fixpoint simpN (n : nat) : expr -> list subst -> bool -> expr :=
  match n with
  | O => simplify
  | S k =>
      fix go (e : expr) (S : list subst) (inlam : bool) {struct e} : expr :=
        match e with
        | App f args =>
            let f' := match f with Lam _ _ _ _ _ => f | _ => go f S inlam end in
            let args' := map (fun a => go a S inlam) args in
            match f with
            | Lam id ps rest sv body =>
                if inlam then
                  if Nat.eqb (proper_len ps rest) (length args') then
                    let '(ps2, args2, S2) := let_subst id sv ps args' S in
                    App (Lam id ps2 rest sv (go body S2 true)) args2
                  else App (Lam id ps rest sv (go body S true)) args'
                else App f' args'
            | _ =>
                match f' with
                | Op o =>
                    if is_arith o then
                      match all_simple args' with
                      | Some cs => match prim_eval o cs with Some r => Lit r | None => App f' args' end
                      | None => App f' args'
                      end
                    else App f' args'
                | Lam id ps rest sv body1 =>          (* simplify.c:61: `lambda && sexp_lambdap(sexp_car(app))` on the simplified operator *)
                    if inlam then
                      if Nat.eqb (proper_len ps rest) (length args') then
                        let '(ps2, args2, S2) := let_subst id sv ps args' S in
                        App (Lam id ps2 rest sv (simpN k body1 S2 true)) args2
                      else App (Lam id ps rest sv (simpN k body1 S true)) args'
                    else App f' args'
                | _ => App f' args'
                end
            end
        | Lam id ps rest sv body => Lam id ps rest sv (go body S true)
        | Cnd t a b =>
            let t' := go t S inlam in
            match simple t' with
            | Some c => if const_false c then go b S inlam else go a S inlam
            | None => Cnd t' (go a S inlam) (go b S inlam)
            end
        | Ref x loc => match lookup_subst x loc S with Some c => Lit c | None => e end
        | SetE x loc v => SetE x loc (go v S inlam)
        | Seq es =>
            match seq_filter (map (fun a => go a S inlam) es) with
            | [x] => x
            | es' => Seq es'
            end
        | Lit _ | Obj _ | Op _ => e
        end
  end.

Fixpoint size (e : expr) : nat :=
  match e with
  | SetE _ _ v => S (size v)
  | Cnd t a b => S (size t + size a + size b)
  | Seq es => S (fold_right (fun x acc => size x + acc)%nat O es)
  | Lam _ _ _ _ body => S (size body)
  | App f args => S (size f + fold_right (fun x acc => size x + acc)%nat O args)
  | _ => 1%nat
  end.

(** sexp_simplify with the exact pass order *)
Definition sexp_simplifyN (e : expr) : expr := simpN (size e) e [] false.

(** does the phenomenon occur at all in e (under S)?  false = [simpN] and [simplify] took the same decisions *)
Definition becomes_lambda_free (e : expr) (S : list subst) (inlam : bool) : bool :=
  match simpN (size e) e S inlam, simplify e S inlam with
  | a, b => (fix eqb (x y : expr) {struct x} : bool :=
               match x, y with
               | Lit c, Lit d | Obj c, Obj d => const_eqb c d
               | Ref a1 l1, Ref a2 l2 => (a1 =? a2) && (l1 =? l2)
               | SetE a1 l1 v1, SetE a2 l2 v2 => (a1 =? a2) && (l1 =? l2) && eqb v1 v2
               | Cnd t1 p1 q1, Cnd t2 p2 q2 => eqb t1 t2 && eqb p1 p2 && eqb q1 q2
               | Seq es1, Seq es2 =>
                   (fix go (l1 l2 : list expr) : bool :=
                      match l1, l2 with [], [] => true | u :: r1, v :: r2 => eqb u v && go r1 r2 | _, _ => false end) es1 es2
               | Lam i1 ps1 r1 sv1 b1, Lam i2 ps2 r2 sv2 b2 =>
                   (i1 =? i2) && (Nat.eqb (length ps1) (length ps2)) && forallb (fun pq => fst pq =? snd pq) (combine ps1 ps2)
                   && Bool.eqb r1 r2 && eqb b1 b2
               | App f1 as1, App f2 as2 =>
                   eqb f1 f2 &&
                   (fix go (l1 l2 : list expr) : bool :=
                      match l1, l2 with [], [] => true | u :: r1, v :: r2 => eqb u v && go r1 r2 | _, _ => false end) as1 as2
               | Op o1, Op o2 => o1 =? o2
               | _, _ => false
               end) a b
  end.
