(** C09: arithmetic facts used to read the translated bit-twiddling (Gen/C09_Luint.v) as div/mod by powers of two. *)
From ChibiV Require Import C09.CSem.
Local Open Scope Z_scope.

Ltac Zify.zify_post_hook ::= Z.div_mod_to_equations.

Definition M32 : Z := 4294967296.
Definition M64 : Z := 18446744073709551616.
Definition M128 : Z := 340282366920938463463374607431768211456.

Lemma M32_eq : M32 = 2 ^ 32. Proof. reflexivity. Qed.
Lemma M64_eq : M64 = 2 ^ 64. Proof. reflexivity. Qed.
Lemma M128_eq : M128 = 2 ^ 128. Proof. reflexivity. Qed.
Lemma M64_M32 : M64 = M32 * M32. Proof. reflexivity. Qed.
Lemma M128_M64 : M128 = M64 * M64. Proof. reflexivity. Qed.
Lemma M32_pos : 0 < M32. Proof. reflexivity. Qed.
Lemma M64_pos : 0 < M64. Proof. reflexivity. Qed.
Lemma M128_pos : 0 < M128. Proof. reflexivity. Qed.

Lemma wrap64 x : wrap 64 x = x mod M64.
Proof. reflexivity. Qed.

Lemma swrap64 x : swrap 64 x = (x + 9223372036854775808) mod M64 - 9223372036854775808.
Proof. reflexivity. Qed.

Lemma land_mask32 x : Z.land x 4294967295 = x mod M32.
Proof. change 4294967295 with (Z.ones 32). rewrite Z.land_ones by lia. reflexivity. Qed.

Lemma land_1 x : Z.land x 1 = x mod 2.
Proof. change 1 with (Z.ones 1) at 1. rewrite Z.land_ones by lia. reflexivity. Qed.

Lemma shiftr32 x : Z.shiftr x 32 = x / M32.
Proof. rewrite Z.shiftr_div_pow2 by lia. reflexivity. Qed.

Lemma shiftl32 x : Z.shiftl x 32 = x * M32.
Proof. rewrite Z.shiftl_mul_pow2 by lia. reflexivity. Qed.

(** [lor] of a multiple of 2^n and a value below 2^n is their sum *)
Lemma lor_disjoint n h l : 0 <= n -> 0 <= l < 2 ^ n -> Z.lor (h * 2 ^ n) l = h * 2 ^ n + l.
Proof.
  intros Hn Hl.
  rewrite <- Z.lxor_lor.
  - symmetry. apply Z.add_nocarry_lxor.
    apply Z.bits_inj'. intros i Hi. rewrite Z.land_spec, Z.bits_0.
    destruct (Z.lt_ge_cases i n) as [Hlt|Hge].
    + rewrite Z.mul_pow2_bits_low by lia. reflexivity.
    + assert (Z.testbit l i = false) as ->.
      { destruct (Z.eq_dec l 0) as [->|Hz]; [apply Z.bits_0|].
        apply Z.bits_above_log2; [lia|]. apply Z.log2_lt_pow2; [lia|].
        eapply Z.lt_le_trans; [apply Hl|]. apply Z.pow_le_mono_r; lia. }
      apply andb_false_r.
  - apply Z.bits_inj'. intros i Hi. rewrite Z.land_spec, Z.bits_0.
    destruct (Z.lt_ge_cases i n) as [Hlt|Hge].
    + rewrite Z.mul_pow2_bits_low by lia. reflexivity.
    + assert (Z.testbit l i = false) as ->.
      { destruct (Z.eq_dec l 0) as [->|Hz]; [apply Z.bits_0|].
        apply Z.bits_above_log2; [lia|]. apply Z.log2_lt_pow2; [lia|].
        eapply Z.lt_le_trans; [apply Hl|]. apply Z.pow_le_mono_r; lia. }
      apply andb_false_r.
Qed.

Lemma lor_hi32 h l : 0 <= l < M32 -> Z.lor (h * M32) l = h * M32 + l.
Proof. intros. rewrite M32_eq in *. apply lor_disjoint; lia. Qed.

(** joining two 32-bit halves: [(hi << 32) | lo] as the C code computes it in 64 bits *)
Lemma join32 h l : 0 <= h < M32 -> 0 <= l < M32 ->
  Z.lor (wrap 64 (Z.shiftl h 32)) l = h * M32 + l.
Proof.
  intros Hh Hl. rewrite shiftl32, wrap64.
  rewrite Z.mod_small by (rewrite M64_M32; pose proof M32_pos; nia).
  apply lor_hi32; exact Hl.
Qed.
