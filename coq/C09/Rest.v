(** C09 (B), round 3: the unused-rest-parameter analysis (simplify.c:160-205) as far as it INTERACTS with the pass.
    The analysis itself is C03's; what belongs here: it runs at code generation (vm.c:719), i.e. on the SIMPLIFIED
    lambda, while the lambda's set-vars list (sv, which decides what the procedure prologue boxes, vm.c:699-707) was
    computed by analyze BEFORE the pass.  No proofs here. *)
From ChibiV Require Import C09.Ast C09.Simplify.
Local Open Scope Z_scope.

(** usedp (simplify.c:160-188): is variable x of lambda loc referenced or assigned anywhere in e *)
Fixpoint usedp (x loc : Z) (e : expr) : bool :=
  match e with
  | Ref y l => (y =? x) && (l =? loc)
  | SetE y l v => ((y =? x) && (l =? loc)) || usedp x loc v
  | Lam _ _ _ _ body => usedp x loc body
  | Cnd t a b => usedp x loc t || usedp x loc a || usedp x loc b
  | Seq es => existsb (usedp x loc) es
  | App f args => usedp x loc f || existsb (usedp x loc) args
  | Lit _ | Obj _ | Op _ => false
  end.

(** sexp_rest_unused_p (simplify.c:190-205, with the repair fixes/C09-unused-rest-stale-set-vars.patch):
    no rest parameter -> 0; rest parameter in the set-vars -> 0 (the prologue boxes its slot); else !usedp *)
Definition rest_unused (lam : expr) : bool :=
  match lam with
  | Lam id ps true sv body =>
      match rev ps with
      | rp :: _ => negb (memZ rp sv) && negb (usedp rp id body)
      | [] => false
      end
  | _ => false
  end.

(** the analysis as it was before the repair (no look at sv): kept to state the defect *)
Definition rest_unused_old (lam : expr) : bool :=
  match lam with
  | Lam id ps true sv body =>
      match rev ps with
      | rp :: _ => negb (usedp rp id body)
      | [] => false
      end
  | _ => false
  end.
