(** C09 (B): simplify preserves meaning for the core language with closures, REST PARAMETERS and non-constant data
    (pairs, vectors) -- SPEC = Sem3.eval3.  Adaptation of Sem2Proofs.v. *)
From ChibiV Require Import C09.Ast C09.Simplify C09.SimplifyProofs C09.Sem3.
Local Open Scope Z_scope.

(** ------------------------------------------------------------------ unfolding *)
Definition apply3 (m : nat) (id : Z) (ps : list Z) (rest : bool) (sv : list Z) (body : expr)
  (vs : list val3) (rc : env3) (s : store3) (o : list dat) : res3 :=
  match actuals ps rest vs with
  | Some ws => let '(r3, s3) := bind3 id sv ps ws rc s in eval3 m body r3 s3 o
  | None => None
  end.

Definition generic3 (m : nat) (f : expr) (es : list expr) (r : env3) (s : store3) (o : list dat) : res3 :=
  match args3 m es r s o with
  | Some (vs, s1, o1) =>
      match eval3 m f r s1 o1 with
      | Some (V3Clo (Lam id ps rest sv body) rc, s2, o2) => apply3 m id ps rest sv body vs rc s2 o2
      | _ => None
      end
  | None => None
  end.

Definition letform3 (m : nat) (id : Z) (ps : list Z) (rest : bool) (sv : list Z) (body : expr) (es : list expr)
  (r : env3) (s : store3) (o : list dat) : res3 :=
  match args3 m es r s o with
  | Some (vs, s1, o1) => apply3 m id ps rest sv body vs r s1 o1
  | None => None
  end.

Definition seq_in3 (m : nat) (r : env3) : list expr -> store3 -> list dat -> res3 :=
  fix seq (es : list expr) (s : store3) (o : list dat) : res3 :=
    match es with
    | [] => None
    | [a] => eval3 m a r s o
    | a :: t => match eval3 m a r s o with Some (_, s1, o1) => seq t s1 o1 | None => None end
    end.

Definition args_in3 (m : nat) (r : env3) : list expr -> store3 -> list dat -> option (list val3 * store3 * list dat) :=
  fix args (es : list expr) (s : store3) (o : list dat) : option (list val3 * store3 * list dat) :=
    match es with
    | [] => Some ([], s, o)
    | a :: t => match args t s o with
                | Some (vs, s1, o1) => match eval3 m a r s1 o1 with
                                       | Some (v, s2, o2) => Some (v :: vs, s2, o2)
                                       | None => None
                                       end
                | None => None
                end
    end.

Lemma seq_in3_eq m r es : forall s o, seq_in3 m r es s o = seq3 m es r s o.
Proof.
  induction es as [|a t IH]; intros s o; [reflexivity|].
  destruct t as [|b t]; [reflexivity|].
  change (seq_in3 m r (a :: b :: t) s o) with (match eval3 m a r s o with Some (_, s1, o1) => seq_in3 m r (b :: t) s1 o1 | None => None end).
  change (seq3 m (a :: b :: t) r s o) with (match eval3 m a r s o with Some (_, s1, o1) => seq3 m (b :: t) r s1 o1 | None => None end).
  destruct (eval3 m a r s o) as [[[v s1] o1]|]; [apply IH|reflexivity].
Qed.

Lemma args_in3_eq m r es : forall s o, args_in3 m r es s o = args3 m es r s o.
Proof.
  induction es as [|a t IH]; intros s o; [reflexivity|].
  change (args_in3 m r (a :: t) s o) with (match args_in3 m r t s o with
                | Some (vs, s1, o1) => match eval3 m a r s1 o1 with Some (v, s2, o2) => Some (v :: vs, s2, o2) | None => None end
                | None => None end).
  rewrite IH. reflexivity.
Qed.

Lemma eval3_Seq m es r s o : eval3 (S m) (Seq es) r s o = seq3 m es r s o.
Proof. rewrite <- seq_in3_eq. reflexivity. Qed.

Lemma eval3_App_Op m op es r s o :
  eval3 (S m) (App (Op op) es) r s o =
  match args3 m es r s o with
  | Some (vs, s1, o1) =>
      if is_data_op op then match data_eval op vs with Some v => Some (v, s1, o1) | None => None end
      else match consts3_of vs with
           | Some cs => match prim_eval op cs with Some c => Some (V3C c, s1, o1) | None => None end
           | None => None
           end
  | None => None
  end.
Proof. rewrite <- args_in3_eq. reflexivity. Qed.

Lemma eval3_App_Lam m id ps rest sv body es r s o :
  eval3 (S m) (App (Lam id ps rest sv body) es) r s o = letform3 m id ps rest sv body es r s o.
Proof. unfold letform3. rewrite <- args_in3_eq. reflexivity. Qed.

Lemma eval3_App_Ref m x loc es r s o :
  eval3 (S m) (App (Ref x loc) es) r s o =
  if (loc =? 0) && is_global_proc x then
    match args3 m es r s o with
    | Some (vs, s1, o1) => match global_apply x vs o1 with Some (v, o2) => Some (v, s1, o2) | None => None end
    | None => None
    end
  else generic3 m (Ref x loc) es r s o.
Proof. unfold generic3. rewrite <- args_in3_eq. reflexivity. Qed.

Lemma eval3_App_glob m x es r s o : is_global_proc x = true ->
  eval3 (S m) (App (Ref x 0) es) r s o =
  match args3 m es r s o with
  | Some (vs, s1, o1) => match global_apply x vs o1 with Some (v, o2) => Some (v, s1, o2) | None => None end
  | None => None
  end.
Proof. intros H. rewrite eval3_App_Ref, H. reflexivity. Qed.

Definition is_special3 (f : expr) : bool :=
  match f with
  | Op _ => true
  | Lam _ _ _ _ _ => true
  | Ref x loc => (loc =? 0) && is_global_proc x
  | _ => false
  end.

Lemma eval3_App_generic m f es r s o : is_special3 f = false -> eval3 (S m) (App f es) r s o = generic3 m f es r s o.
Proof.
  intros H. destruct f; cbn [is_special3] in H; try discriminate;
    try (unfold generic3; rewrite <- args_in3_eq; reflexivity).
  rewrite eval3_App_Ref, H. reflexivity.
Qed.

Lemma eval3_Lit m c r s o : eval3 (S m) (Lit c) r s o = Some (V3C c, s, o).
Proof. reflexivity. Qed.
Lemma eval3_Obj m c r s o : eval3 (S m) (Obj c) r s o = Some (V3C c, s, o).
Proof. reflexivity. Qed.
Lemma eval3_Ref m x loc r s o :
  eval3 (S m) (Ref x loc) r s o =
  match lookup3 x loc r with
  | Some (D3 v) => Some (v, s, o)
  | Some (B3 l) => match nth_error s l with Some v => Some (v, s, o) | None => None end
  | None => None
  end.
Proof. reflexivity. Qed.
Lemma eval3_SetE m x loc v r s o :
  eval3 (S m) (SetE x loc v) r s o =
  match eval3 m v r s o with
  | Some (w, s1, o1) => match lookup3 x loc r with
                        | Some (B3 l) => if Nat.ltb l (length s1) then Some (V3C CVoid, update3 l w s1, o1) else None
                        | _ => None
                        end
  | None => None
  end.
Proof. reflexivity. Qed.
Lemma eval3_Cnd m t a b r s o :
  eval3 (S m) (Cnd t a b) r s o =
  match eval3 m t r s o with
  | Some (tv, s1, o1) => if truthy tv then eval3 m a r s1 o1 else eval3 m b r s1 o1
  | None => None
  end.
Proof. reflexivity. Qed.
Lemma eval3_Lam m id ps rest sv body r s o :
  eval3 (S m) (Lam id ps rest sv body) r s o = Some (V3Clo (Lam id ps rest sv body) r, s, o).
Proof. reflexivity. Qed.
Lemma eval3_Opv m op r s o : eval3 (S m) (Op op) r s o = None.
Proof. reflexivity. Qed.

(** ------------------------------------------------------------------ more fuel never hurts *)
Section Mono3.
  Variable m : nat.
  Hypothesis IH : forall e r s o x, eval3 m e r s o = Some x -> eval3 (S m) e r s o = Some x.

  Lemma args3_mono es r : forall s o x, args3 m es r s o = Some x -> args3 (S m) es r s o = Some x.
  Proof.
    induction es as [|a t IHt]; intros s o x H; [exact H|].
    cbn [args3] in *. destruct (args3 m t r s o) as [[[vs s1] o1]|] eqn:E; [|discriminate].
    rewrite (IHt _ _ _ E). destruct (eval3 m a r s1 o1) as [[[v s2] o2]|] eqn:Ea; [|discriminate].
    rewrite (IH _ _ _ _ _ Ea). exact H.
  Qed.

  Lemma seq3_mono es r : forall s o x, seq3 m es r s o = Some x -> seq3 (S m) es r s o = Some x.
  Proof.
    induction es as [|a t IHt]; intros s o x H; [discriminate|].
    destruct t as [|b t]; [cbn [seq3] in *; apply IH; exact H|].
    change (seq3 m (a :: b :: t) r s o) with (match eval3 m a r s o with Some (_, s1, o1) => seq3 m (b :: t) r s1 o1 | None => None end) in H.
    change (seq3 (S m) (a :: b :: t) r s o) with (match eval3 (S m) a r s o with Some (_, s1, o1) => seq3 (S m) (b :: t) r s1 o1 | None => None end).
    destruct (eval3 m a r s o) as [[[v s1] o1]|] eqn:Ea; [|discriminate].
    rewrite (IH _ _ _ _ _ Ea). apply IHt. exact H.
  Qed.

  Lemma apply3_mono id ps rest sv body vs rc s o x :
    apply3 m id ps rest sv body vs rc s o = Some x -> apply3 (S m) id ps rest sv body vs rc s o = Some x.
  Proof.
    unfold apply3. destruct (actuals ps rest vs) as [ws|]; [|discriminate].
    destruct (bind3 id sv ps ws rc s) as [r3 s3]. apply IH.
  Qed.

  Lemma generic3_mono f es r s o x : generic3 m f es r s o = Some x -> generic3 (S m) f es r s o = Some x.
  Proof.
    unfold generic3. intros H. destruct (args3 m es r s o) as [[[vs s1] o1]|] eqn:E; [|discriminate].
    rewrite (args3_mono _ _ _ _ _ E). destruct (eval3 m f r s1 o1) as [[[v s2] o2]|] eqn:Ef; [|discriminate].
    rewrite (IH _ _ _ _ _ Ef). destruct v as [c|a d|el|lam rc]; try discriminate. destruct lam; try discriminate.
    apply apply3_mono. exact H.
  Qed.
End Mono3.

Lemma eval3_mono : forall n e r s o x, eval3 n e r s o = Some x -> eval3 (S n) e r s o = Some x.
Proof.
  induction n as [|m IH]; intros e r s o x H; [discriminate|].
  destruct e.
  - exact H.
  - exact H.
  - exact H.
  - rewrite eval3_SetE in *. destruct (eval3 m e r s o) as [[[w s1] o1]|] eqn:E; [|discriminate]. rewrite (IH _ _ _ _ _ E). exact H.
  - rewrite eval3_Cnd in *. destruct (eval3 m e1 r s o) as [[[w s1] o1]|] eqn:E; [|discriminate]. rewrite (IH _ _ _ _ _ E).
    destruct (truthy w); apply IH; exact H.
  - rewrite eval3_Seq in *. apply seq3_mono; assumption.
  - exact H.
  - destruct (is_special3 e) eqn:Esp.
    + destruct e; cbn [is_special3] in Esp; try discriminate.
      * rewrite eval3_App_Ref in *. rewrite Esp in *.
        destruct (args3 m args r s o) as [[[vs s1] o1]|] eqn:E; [|discriminate].
        rewrite (args3_mono m IH _ _ _ _ _ E). exact H.
      * rewrite eval3_App_Lam in *. unfold letform3 in *.
        destruct (args3 m args r s o) as [[[vs s1] o1]|] eqn:E; [|discriminate]. rewrite (args3_mono m IH _ _ _ _ _ E).
        apply apply3_mono; assumption.
      * rewrite eval3_App_Op in *. destruct (args3 m args r s o) as [[[vs s1] o1]|] eqn:E; [|discriminate].
        rewrite (args3_mono m IH _ _ _ _ _ E). exact H.
    + rewrite eval3_App_generic in * by exact Esp. apply generic3_mono; assumption.
  - exact H.
Qed.

(** ------------------------------------------------------------------ the simulation relation *)
Inductive vrel3 : val3 -> val3 -> Prop :=
| VR3_c c : vrel3 (V3C c) (V3C c)
| VR3_pair a a' d d' : vrel3 a a' -> vrel3 d d' -> vrel3 (V3Pair a d) (V3Pair a' d')
| VR3_vec e e' : vrel3 e e' -> vrel3 (V3Vec e) (V3Vec e')
| VR3_clo S id ps rest sv body r r' :
    wf (Lam id ps rest sv body) = true -> C1 S (Lam id ps rest sv body) -> C2 S (Lam id ps rest sv body) -> ~ In 0 (sdom S) ->
    (forall x l c, lookup_subst x l S = Some c -> lookup3 x l r = Some (D3 (V3C c))) ->
    (forall x l, lookup_subst x l S = None -> srel3 (lookup3 x l r) (lookup3 x l r')) ->
    (forall x, lookup3 x 0 r' = None) ->
    vrel3 (V3Clo (Lam id ps rest sv body) r) (V3Clo (Lam id ps rest sv (simplify body S true)) r')
with srel3 : option slot3 -> option slot3 -> Prop :=
| SR3_none : srel3 None None
| SR3_d v v' : vrel3 v v' -> srel3 (Some (D3 v)) (Some (D3 v'))
| SR3_b l : srel3 (Some (B3 l)) (Some (B3 l)).

Definition envrel3 (S : list subst) (r r' : env3) : Prop :=
  (forall x l c, lookup_subst x l S = Some c -> lookup3 x l r = Some (D3 (V3C c))) /\
  (forall x l, lookup_subst x l S = None -> srel3 (lookup3 x l r) (lookup3 x l r')) /\
  (forall x, lookup3 x 0 r' = None).

Definition storerel3 (s s' : store3) : Prop := Forall2 vrel3 s s'.

Lemma vrel3_const_r v c : vrel3 v (V3C c) -> v = V3C c.
Proof. intros H. inversion H; reflexivity. Qed.

Lemma vrel3_const_l v c : vrel3 (V3C c) v -> v = V3C c.
Proof. intros H. inversion H; reflexivity. Qed.

Lemma vrel3_data v : forall v', vrel3 v v' -> data_of v = data_of v'.
Proof.
  induction v as [c|a IHa d IHd|e IHe|lam rc]; intros v' H; inversion H; subst; cbn [data_of].
  - reflexivity.
  - rewrite (IHa _ H2), (IHd _ H4). reflexivity.
  - rewrite (IHe _ H1). reflexivity.
  - reflexivity.
Qed.

Lemma truthy_rel v v' : vrel3 v v' -> truthy v = truthy v'.
Proof. intros H. inversion H; reflexivity. Qed.

Lemma list_of_rel vs vs' : Forall2 vrel3 vs vs' -> vrel3 (list_of vs) (list_of vs').
Proof. induction 1; cbn [list_of]; constructor; assumption. Qed.

Lemma chain_nth_rel e : forall n e' v, vrel3 e e' -> chain_nth n e = Some v -> exists v', chain_nth n e' = Some v' /\ vrel3 v v'.
Proof.
  induction e as [c|a IHa d IHd|el IHel|lam rc]; intros n e' v H Hn; try (destruct n; discriminate).
  inversion H as [|a0 a' d0 d' Ha Hd| |]; subst. destruct n as [|k]; cbn [chain_nth] in *.
  - inversion Hn; subst. exists a'. split; [reflexivity|exact Ha].
  - apply IHd; assumption.
Qed.

Lemma chain_len_rel v : forall v', vrel3 v v' -> chain_len v = chain_len v'.
Proof.
  induction v as [c|a IHa d IHd|el IHel|lam rc]; intros v' H; inversion H; subst; cbn [chain_len]; try reflexivity.
  rewrite (IHd _ H4). reflexivity.
Qed.

Lemma Forall2_vrel3_length vs vs' : Forall2 vrel3 vs vs' -> length vs = length vs'.
Proof. induction 1; cbn [length]; congruence. Qed.

Lemma Forall2_vrel3_firstn vs vs' : Forall2 vrel3 vs vs' -> forall n, Forall2 vrel3 (firstn n vs) (firstn n vs').
Proof. induction 1 as [|v v' vs vs' Hv H IH]; intros [|n]; cbn [firstn]; constructor; [exact Hv|apply IH]. Qed.

Lemma Forall2_vrel3_skipn vs vs' : Forall2 vrel3 vs vs' -> forall n, Forall2 vrel3 (skipn n vs) (skipn n vs').
Proof. induction 1 as [|v v' vs vs' Hv H IH]; intros [|n]; cbn [skipn]; try constructor; try assumption. apply IH. Qed.

Lemma actuals_rel ps rest vs vs' ws : Forall2 vrel3 vs vs' -> actuals ps rest vs = Some ws ->
  exists ws', actuals ps rest vs' = Some ws' /\ Forall2 vrel3 ws ws'.
Proof.
  intros H. unfold actuals. rewrite <- (Forall2_vrel3_length _ _ H). destruct rest.
  - destruct (Nat.leb (pred (length ps)) (length vs)); [|discriminate]. intros E. inversion E; subst.
    eexists. split; [reflexivity|]. apply Forall2_app; [apply Forall2_vrel3_firstn; exact H|].
    constructor; [|constructor]. apply list_of_rel. apply Forall2_vrel3_skipn. exact H.
  - destruct (Nat.eqb (length ps) (length vs)); [|discriminate]. intros E. inversion E; subst. exists vs'. split; [reflexivity|exact H].
Qed.

Definition extra3 (rest : bool) : list val3 := if rest then [V3C NIL] else [].

Lemma extra3_rel rest : Forall2 vrel3 (extra3 rest) (extra3 rest).
Proof. destruct rest; cbn [extra3]; repeat constructor. Qed.

(** exactly as many arguments as fixed parameters: the rest parameter (if any) receives the empty list *)
Lemma actuals_exact ps rest vs : proper_len ps rest = length vs -> actuals ps rest vs = Some (vs ++ extra3 rest).
Proof.
  unfold proper_len, actuals, extra3. intros H. destruct rest.
  - rewrite H, Nat.leb_refl, firstn_all, skipn_all. reflexivity.
  - rewrite H, Nat.eqb_refl, app_nil_r. reflexivity.
Qed.

Lemma consts3_rel vs vs' cs : Forall2 vrel3 vs vs' -> consts3_of vs = Some cs -> consts3_of vs' = Some cs.
Proof.
  intros H. revert cs. induction H as [|v v' vs vs' Hv H IH]; intros cs Hc; [exact Hc|].
  cbn in Hc |- *. destruct v as [c| | |]; try discriminate. apply vrel3_const_l in Hv. subst v'.
  fold (consts3_of vs) in Hc. fold (consts3_of vs'). destruct (consts3_of vs) as [cs0|]; [|discriminate].
  rewrite (IH _ eq_refl). exact Hc.
Qed.

Lemma data_eval_rel op vs vs' v : Forall2 vrel3 vs vs' -> data_eval op vs = Some v ->
  exists v', data_eval op vs' = Some v' /\ vrel3 v v'.
Proof.
  intros H. unfold data_eval.
  destruct (op =? 20).
  { destruct H as [|a a' ? ? Ha [|b b' ? ? Hb [|c c' ? ? Hc H]]]; intros E; try discriminate. inversion E; subst.
    eexists; split; [reflexivity|constructor; assumption]. }
  destruct (op =? 21).
  { destruct H as [|a a' ? ? Ha [|b b' ? ? Hb H]]; intros E; try discriminate;
    inversion Ha; subst; try discriminate. inversion E; subst. eexists; split; [reflexivity|assumption]. }
  destruct (op =? 22).
  { destruct H as [|a a' ? ? Ha [|b b' ? ? Hb H]]; intros E; try discriminate;
    inversion Ha; subst; try discriminate. inversion E; subst. eexists; split; [reflexivity|assumption]. }
  destruct (op =? 23).
  { destruct H as [|a a' ? ? Ha [|b b' ? ? Hb H]]; intros E; try discriminate;
    inversion Ha; subst; inversion E; subst; eexists; (split; [reflexivity|constructor]). }
  destruct (op =? 24).
  { destruct H as [|a a' ? ? Ha [|b b' ? ? Hb H]]; intros E; try discriminate;
    inversion Ha; subst; inversion E; subst; eexists; (split; [reflexivity|constructor]). }
  destruct (op =? 25).
  { destruct H as [|a a' ? ? Ha [|b b' ? ? Hb [|c c' ? ? Hc H]]]; intros E; try discriminate;
      inversion Ha as [| |e e' He|]; subst; try discriminate.
    - destruct b as [[i| | | |]| | |]; try discriminate. apply vrel3_const_l in Hb. subst b'.
      destruct (0 <=? i); [|discriminate]. apply (chain_nth_rel _ _ _ _ He E).
    - destruct b as [[i| | | |]| | |]; discriminate. }
  destruct (op =? 26).
  { destruct H as [|a a' ? ? Ha [|b b' ? ? Hb H]]; intros E; try discriminate;
    inversion Ha as [| |e e' He|]; subst; try discriminate.
    rewrite <- (chain_len_rel _ _ He). destruct (chain_len e) as [n|]; [|discriminate]. inversion E; subst.
    eexists; split; [reflexivity|constructor]. }
  discriminate.
Qed.

Lemma global_apply_rel x vs vs' o v o2 : Forall2 vrel3 vs vs' -> global_apply x vs o = Some (v, o2) ->
  exists v', global_apply x vs' o = Some (v', o2) /\ vrel3 v v'.
Proof.
  intros H. unfold global_apply.
  destruct (x =? OUT).
  { destruct H as [|a a' ? ? Ha [|b b' ? ? Hb H]]; intros E; try discriminate.
    rewrite <- (vrel3_data _ _ Ha). destruct (data_of a) as [d|]; [|discriminate]. inversion E; subst.
    eexists; split; [reflexivity|constructor]. }
  destruct (x =? LIST).
  { intros E. inversion E; subst. eexists; split; [reflexivity|apply list_of_rel; exact H]. }
  destruct (x =? VECTOR).
  { intros E. inversion E; subst. eexists; split; [reflexivity|constructor; apply list_of_rel; exact H]. }
  destruct (x =? LENGTH).
  { destruct H as [|a a' ? ? Ha [|b b' ? ? Hb H]]; intros E; try discriminate.
    rewrite <- (chain_len_rel _ _ Ha). destruct (chain_len a) as [n|]; [|discriminate]. inversion E; subst.
    eexists; split; [reflexivity|constructor]. }
  discriminate.
Qed.

(** ------------------------------------------------------------------ stores and environments *)
Lemma storerel3_length s s' : storerel3 s s' -> length s = length s'.
Proof. apply Forall2_vrel3_length. Qed.

Lemma storerel3_nth s s' l v : storerel3 s s' -> nth_error s l = Some v -> exists v', nth_error s' l = Some v' /\ vrel3 v v'.
Proof.
  intros H. revert l. induction H as [|a b s s' Hab H IH]; intros l Hn; [destruct l; discriminate|].
  destruct l as [|l]; cbn in *; [inversion Hn; subst; eauto|apply IH; exact Hn].
Qed.

Lemma storerel3_update s s' l v v' : storerel3 s s' -> vrel3 v v' -> storerel3 (update3 l v s) (update3 l v' s').
Proof.
  intros H Hv. revert l. induction H as [|a b s s' Hab H IH]; intros l; [destruct l; constructor|].
  destruct l as [|l]; cbn [update3]; constructor; try assumption. apply IH.
Qed.

Lemma storerel3_app s s' v v' : storerel3 s s' -> vrel3 v v' -> storerel3 (s ++ [v]) (s' ++ [v']).
Proof. intros H Hv. apply Forall2_app; [exact H|constructor; [exact Hv|constructor]]. Qed.

Lemma lookup3_cons_ne x l y m sl r : (y =? x) && (m =? l) = false -> lookup3 x l (((y, m), sl) :: r) = lookup3 x l r.
Proof. intros H. cbn [lookup3]. rewrite H. reflexivity. Qed.

Lemma lookup3_cons_eq x l sl r : lookup3 x l (((x, l), sl) :: r) = Some sl.
Proof. cbn [lookup3]. rewrite !Z.eqb_refl. reflexivity. Qed.

(** binding the same (non-substituted) variable on both sides *)
Lemma envrel3_bind S r r' x l sl sl' : envrel3 S r r' -> lookup_subst x l S = None -> l <> 0 -> srel3 (Some sl) (Some sl') ->
  envrel3 S (((x, l), sl) :: r) (((x, l), sl') :: r').
Proof.
  intros (A1 & A2 & A3) HN Hl Hs. split; [|split].
  - intros y m c Hy. destruct (key_dec y m x l) as [(_ & -> & ->)|Hne]; [congruence|].
    rewrite lookup3_cons_ne by exact Hne. apply A1. exact Hy.
  - intros y m Hy. destruct (key_dec y m x l) as [(_ & -> & ->)|Hne].
    + rewrite !lookup3_cons_eq. exact Hs.
    + rewrite !lookup3_cons_ne by exact Hne. apply A2. exact Hy.
  - intros y. destruct (key_dec y 0 x l) as [(_ & _ & E)|Hne]; [congruence|]. rewrite lookup3_cons_ne by exact Hne. apply A3.
Qed.

(** a deleted parameter: bound on the original side only *)
Lemma envrel3_delete S r r' p id c : envrel3 S r r' -> envrel3 ((p, id, c) :: S) (((p, id), D3 (V3C c)) :: r) r'.
Proof.
  intros (A1 & A2 & A3). split; [|split; [|exact A3]].
  - intros y m c' Hy. cbn [lookup_subst] in Hy. destruct (key_dec y m p id) as [(E & -> & ->)|Hne].
    + rewrite E in Hy. inversion Hy; subst. apply lookup3_cons_eq.
    + rewrite Hne in Hy. rewrite lookup3_cons_ne by exact Hne. apply A1. exact Hy.
  - intros y m Hy. cbn [lookup_subst] in Hy. destruct (key_dec y m p id) as [(E & -> & ->)|Hne].
    + rewrite E in Hy. discriminate.
    + rewrite Hne in Hy. rewrite lookup3_cons_ne by exact Hne. apply A2. exact Hy.
Qed.

(** binding the same parameters on both sides (closure application, let with a different argument count) *)
Lemma bind3_rel S id sv : forall ps vs vs' r r' s s',
  Forall2 vrel3 vs vs' -> envrel3 S r r' -> storerel3 s s' -> id <> 0 ->
  (forall p, In p ps -> lookup_subst p id S = None) ->
  envrel3 S (fst (bind3 id sv ps vs r s)) (fst (bind3 id sv ps vs' r' s')) /\
  storerel3 (snd (bind3 id sv ps vs r s)) (snd (bind3 id sv ps vs' r' s')).
Proof.
  induction ps as [|p ps IH]; intros vs vs' r r' s s' Hvs He Hs Hid Hfr.
  - cbn. split; assumption.
  - destruct Hvs as [|v v' vs vs' Hv Hvs]; [cbn; split; assumption|]. cbn [bind3].
    assert (lookup_subst p id S = None) as Hp by (apply Hfr; left; reflexivity).
    assert (forall q, In q ps -> lookup_subst q id S = None) as Hfr' by (intros; apply Hfr; right; assumption).
    destruct (memZ p sv).
    + rewrite (storerel3_length _ _ Hs). apply IH; try assumption.
      * apply envrel3_bind; try assumption. constructor.
      * apply storerel3_app; assumption.
    + apply IH; try assumption. apply envrel3_bind; try assumption. constructor. exact Hv.
Qed.

Lemma args3_length m es r : forall s o vs s1 o1, args3 m es r s o = Some (vs, s1, o1) -> length vs = length es.
Proof.
  induction es as [|a t IH]; intros s o vs s1 o1 H; cbn [args3] in H.
  - inversion H. reflexivity.
  - destruct (args3 m t r s o) as [[[vt st] ot]|] eqn:Et; [|discriminate].
    destruct (eval3 m a r st ot) as [[[va sa] oa]|]; [|discriminate]. inversion H; subst.
    cbn [length]. f_equal. eapply IH. exact Et.
Qed.

Lemma let_subst_nil id sv ps S : let_subst id sv ps [] S = (ps, [], S).
Proof. destruct ps; reflexivity. Qed.

(** let: parameter deletion on the simplified side.  There may be more parameters than arguments (a rest parameter):
    the surplus parameters are kept and receive related extra values [ex] / [ex'] on the two sides. *)
Lemma let_subst_sound3 m id sv : forall ps args S ps2 argsK S2 vs' r' s' o s1' o1,
  let_subst id sv ps args S = (ps2, argsK, S2) ->
  (length args <= length ps)%nat -> NoDup ps -> id <> 0 ->
  (forall p, In p ps -> lookup_subst p id S = None) ->
  args3 m args r' s' o = Some (vs', s1', o1) ->
  exists vsK, args3 m argsK r' s' o = Some (vsK, s1', o1) /\
    (length ps2 + length args = length ps + length argsK)%nat /\ (length argsK <= length args)%nat /\
    (forall vs ex ex' rb rb' sb sb', Forall2 vrel3 vs vs' -> Forall2 vrel3 ex ex' -> envrel3 S rb rb' -> storerel3 sb sb' ->
       envrel3 S2 (fst (bind3 id sv ps (vs ++ ex) rb sb)) (fst (bind3 id sv ps2 (vsK ++ ex') rb' sb')) /\
       storerel3 (snd (bind3 id sv ps (vs ++ ex) rb sb)) (snd (bind3 id sv ps2 (vsK ++ ex') rb' sb'))) /\
    (forall x l, lookup_subst x l S2 = None -> lookup_subst x l S = None) /\
    (forall x l c, lookup_subst x l S2 = Some c -> lookup_subst x l S = Some c \/ (l = id /\ In x ps /\ ~ In x sv)).
Proof.
  induction ps as [|p ps IH]; intros args S ps2 argsK S2 vs' r' s' o s1' o1 HL Hlen Hnd Hid Hfresh Hev.
  - destruct args; [|cbn [length] in Hlen; lia]. cbn in HL. inversion HL; subst. cbn in Hev. inversion Hev; subst.
    exists []. split; [reflexivity|split; [reflexivity|split; [apply Nat.le_refl|split; [|split; [auto|intros; left; assumption]]]]].
    intros vs ex ex' rb rb' sb sb' Hvs Hex He Hs. cbn. split; assumption.
  - destruct args as [|a args].
    { (* no argument left: the remaining parameters are bound on both sides *)
      rewrite let_subst_nil in HL. inversion HL; subst ps2 argsK S2. cbn [args3] in Hev. inversion Hev; subst vs' s1' o1.
      exists []. split; [reflexivity|split; [reflexivity|split; [apply Nat.le_refl|split; [|split; [auto|intros; left; assumption]]]]].
      intros vs ex ex' rb rb' sb sb' Hvs Hex He Hs. inversion Hvs; subst. cbn [app].
      apply bind3_rel; assumption. }
    cbn [let_subst] in HL. cbn [args3] in Hev.
    destruct (args3 m args r' s' o) as [[[vst sA] oA]|] eqn:Eargs; [|discriminate].
    destruct (eval3 m a r' sA oA) as [[[v' sB] oB]|] eqn:Ea; [|discriminate]. inversion Hev; subst vs' sB oB. clear Hev.
    inversion Hnd as [|? ? Hnotin Hnd']; subst. cbn [length] in Hlen. apply le_S_n in Hlen.
    destruct (if memZ p sv then None else simple a) as [c|] eqn:Esub.
    + (* deleted *)
      destruct (memZ p sv) eqn:Emem; [discriminate|]. destruct a; cbn [simple] in Esub; try discriminate. inversion Esub; subst c0.
      destruct m as [|m']; [discriminate|]. rewrite eval3_Lit in Ea. inversion Ea; subst v' sA oA. clear Ea.
      assert (forall q, In q ps -> lookup_subst q id ((p, id, c) :: S) = None) as Hfresh'.
      { intros q Hq. cbn [lookup_subst]. destruct (key_dec q id p id) as [(_ & -> & _)|Hne]; [contradiction|].
        rewrite Hne. apply Hfresh. right. exact Hq. }
      destruct (IH args _ _ _ _ vst r' s' o s1' o1 HL Hlen Hnd' Hid Hfresh' Eargs) as (vsK & E2 & L2 & L2' & BB & N2 & P2).
      exists vsK. split; [exact E2|split; [cbn [length]; lia|split; [cbn [length]; lia|split; [|split]]]].
      * intros vs ex ex' rb rb' sb sb' Hvs Hex He Hs. inversion Hvs as [|v v'' vs0 vs0' Hv Hvs0]; subst.
        apply vrel3_const_r in Hv. subst v. cbn [app bind3]. rewrite Emem.
        apply BB; [exact Hvs0|exact Hex|apply envrel3_delete; exact He|exact Hs].
      * intros x l Hx. specialize (N2 x l Hx). cbn [lookup_subst] in N2.
        destruct ((p =? x) && (id =? l)); [discriminate|exact N2].
      * intros x l c' Hx. destruct (P2 x l c' Hx) as [Hs|(-> & Hin & Hsv)].
        -- cbn [lookup_subst] in Hs. destruct (key_dec x l p id) as [(E & -> & ->)|Hne].
           ++ right. repeat split; [left; reflexivity| apply memZ_false; exact Emem].
           ++ rewrite Hne in Hs. left. exact Hs.
        -- right. repeat split; [right; exact Hin|exact Hsv].
    + (* kept *)
      destruct (let_subst id sv ps args S) as [[ps3 args3'] S3] eqn:ELS. inversion HL; subst ps2 argsK S2. clear HL.
      assert (forall q, In q ps -> lookup_subst q id S = None) as Hfresh' by (intros q Hq; apply Hfresh; right; exact Hq).
      assert (lookup_subst p id S = None) as Hp by (apply Hfresh; left; reflexivity).
      destruct (IH args _ _ _ _ vst r' s' o sA oA ELS Hlen Hnd' Hid Hfresh' Eargs) as (vsK & E2 & L2 & L2' & BB & N2 & P2).
      exists (v' :: vsK). cbn [args3 length]. rewrite E2, Ea.
      split; [reflexivity|split; [lia|split; [lia|split; [|split; [exact N2|]]]]].
      * intros vs ex ex' rb rb' sb sb' Hvs Hex He Hs. inversion Hvs as [|v v'' vs0 vs0' Hv Hvs0]; subst. cbn [app bind3].
        destruct (memZ p sv).
        -- rewrite (storerel3_length _ _ Hs). apply BB; [exact Hvs0|exact Hex| |apply storerel3_app; assumption].
           apply envrel3_bind; try assumption. constructor.
        -- apply BB; [exact Hvs0|exact Hex| |exact Hs]. apply envrel3_bind; try assumption. constructor. exact Hv.
      * intros x l c' Hx. destruct (P2 x l c' Hx) as [Hs|(-> & Hin & Hsv)]; [left; exact Hs|].
        right. repeat split; [right; exact Hin|exact Hsv].
Qed.

(** ------------------------------------------------------------------ lists *)
Definition sound3 (m : nat) : Prop := forall e S r r' s s' o v s1 o1,
  wf e = true -> C1 S e -> C2 S e -> ~ In 0 (sdom S) -> envrel3 S r r' -> storerel3 s s' ->
  eval3 m e r s o = Some (v, s1, o1) ->
  exists v' s1', eval3 m (simplify e S true) r' s' o = Some (v', s1', o1) /\ vrel3 v v' /\ storerel3 s1 s1'.

Lemma all_simple_args3_inv m es cs r s o vs s1 o1 :
  all_simple es = Some cs -> args3 m es r s o = Some (vs, s1, o1) -> consts3_of vs = Some cs /\ s1 = s /\ o1 = o.
Proof.
  revert cs vs s1 o1. induction es as [|e t IH]; intros cs vs s1 o1 H Hev; cbn [all_simple] in H.
  - inversion H. cbn in Hev. inversion Hev. auto.
  - destruct e; cbn [simple] in H; try discriminate. destruct (all_simple t) as [cs'|]; [|discriminate]. inversion H; subst.
    cbn [args3] in Hev. destruct (args3 m t r s o) as [[[vst sA] oA]|] eqn:E; [|discriminate].
    destruct (IH _ _ _ _ eq_refl eq_refl) as (Hc & -> & ->).
    destruct m as [|m']; [discriminate|]. rewrite eval3_Lit in Hev. inversion Hev; subst.
    cbn. fold (consts3_of vst). rewrite Hc. auto.
Qed.

Lemma droppable_pure3 m e r s o v s1 o1 : droppable e = true -> eval3 m e r s o = Some (v, s1, o1) -> s1 = s /\ o1 = o.
Proof.
  destruct m as [|m]; [discriminate|]. destruct e; cbn [droppable]; try discriminate; intros _ H.
  - rewrite eval3_Lit in H. inversion H. auto.
  - rewrite eval3_Ref in H. destruct (lookup3 x loc r) as [[w|l]|]; try discriminate; [inversion H; auto|].
    destruct (nth_error s l); [inversion H; auto|discriminate].
  - rewrite eval3_Lam in H. inversion H; auto.
Qed.

Section Lists3.
  Variable m : nat.
  Hypothesis IHm : sound3 m.

  Lemma args_sound3 es : forall S r r' s s' o vs s1 o1,
    forallb wf es = true -> Forall (C1 S) es -> Forall (C2 S) es -> ~ In 0 (sdom S) -> envrel3 S r r' -> storerel3 s s' ->
    args3 m es r s o = Some (vs, s1, o1) ->
    exists vs' s1', args3 m (map (fun a => simplify a S true) es) r' s' o = Some (vs', s1', o1) /\ Forall2 vrel3 vs vs' /\ storerel3 s1 s1'.
  Proof.
    induction es as [|a t IH]; intros S r r' s s' o vs s1 o1 Hwf H1 H2 H0 He Hs Hev.
    - cbn in *. inversion Hev; subst. exists [], s'. repeat split; [constructor|exact Hs].
    - cbn [forallb] in Hwf. apply andb_prop in Hwf. destruct Hwf as [Wa Wt].
      inversion H1 as [|? ? H1a H1t]; subst. inversion H2 as [|? ? H2a H2t]; subst.
      cbn [args3] in Hev. destruct (args3 m t r s o) as [[[vst sA] oA]|] eqn:Et; [|discriminate].
      destruct (eval3 m a r sA oA) as [[[va sB] oB]|] eqn:Ea; [|discriminate]. inversion Hev; subst.
      destruct (IH S r r' s s' o vst sA oA Wt H1t H2t H0 He Hs Et) as (vst' & sA' & E1 & R1 & S1).
      destruct (IHm a S r r' sA sA' oA va s1 o1 Wa H1a H2a H0 He S1 Ea) as (va' & sB' & E2 & R2 & S2).
      exists (va' :: vst'), sB'. cbn [map args3]. rewrite E1, E2. repeat split; [constructor; assumption|exact S2].
  Qed.

  Lemma seq_sound3 es : forall S r r' s s' o v s1 o1,
    forallb wf es = true -> Forall (C1 S) es -> Forall (C2 S) es -> ~ In 0 (sdom S) -> envrel3 S r r' -> storerel3 s s' ->
    seq3 m es r s o = Some (v, s1, o1) ->
    exists v' s1', seq3 m (seq_filter (map (fun a => simplify a S true) es)) r' s' o = Some (v', s1', o1) /\ vrel3 v v' /\ storerel3 s1 s1'.
  Proof.
    induction es as [|a t IH]; intros S r r' s s' o v s1 o1 Hwf H1 H2 H0 He Hs Hev; [discriminate|].
    cbn [forallb] in Hwf. apply andb_prop in Hwf. destruct Hwf as [Wa Wt].
    inversion H1 as [|? ? H1a H1t]; subst. inversion H2 as [|? ? H2a H2t]; subst.
    destruct t as [|b t].
    - cbn [seq3] in Hev. cbn [map seq_filter seq3]. apply (IHm a S r r' s s' o v s1 o1 Wa H1a H2a H0 He Hs Hev).
    - change (seq3 m (a :: b :: t) r s o) with (match eval3 m a r s o with Some (_, sA, oA) => seq3 m (b :: t) r sA oA | None => None end) in Hev.
      destruct (eval3 m a r s o) as [[[va sA] oA]|] eqn:Ea; [|discriminate].
      destruct (IHm a S r r' s s' o va sA oA Wa H1a H2a H0 He Hs Ea) as (va' & sA' & E2 & R2 & S2).
      destruct (IH S r r' sA sA' oA v s1 o1 Wt H1t H2t H0 He S2 Hev) as (v' & s1' & E1 & R1 & S1).
      change (map (fun a0 => simplify a0 S true) (a :: b :: t))
        with (simplify a S true :: map (fun a0 => simplify a0 S true) (b :: t)).
      set (rest := map (fun a0 => simplify a0 S true) (b :: t)) in *.
      assert (seq_filter (simplify a S true :: rest)
              = if droppable (simplify a S true) then seq_filter rest else simplify a S true :: seq_filter rest) as EF.
      { unfold rest. cbn [map seq_filter]. reflexivity. }
      rewrite EF. destruct (droppable (simplify a S true)) eqn:ED.
      + destruct (droppable_pure3 _ _ _ _ _ _ _ _ ED E2) as [-> ->]. exists v', s1'. repeat split; assumption.
      + destruct (seq_filter rest) as [|y u] eqn:ER; [exfalso; unfold rest in ER; cbn [map] in ER; exact (seq_filter_nonnil _ _ ER)|].
        exists v', s1'.
        change (seq3 m (simplify a S true :: y :: u) r' s' o)
          with (match eval3 m (simplify a S true) r' s' o with Some (_, sA0, oA0) => seq3 m (y :: u) r' sA0 oA0 | None => None end).
        rewrite E2. repeat split; assumption.
  Qed.

  (** applying a (related) closure body to related argument lists: same parameters on both sides *)
  Lemma apply3_sound Sc id ps rest sv body vs vs' rc rc' s s' o v s1 o1 :
    wf (Lam id ps rest sv body) = true -> C1 Sc (Lam id ps rest sv body) -> C2 Sc (Lam id ps rest sv body) -> ~ In 0 (sdom Sc) ->
    envrel3 Sc rc rc' -> storerel3 s s' -> Forall2 vrel3 vs vs' ->
    apply3 m id ps rest sv body vs rc s o = Some (v, s1, o1) ->
    exists v' s1', apply3 m id ps rest sv (simplify body Sc true) vs' rc' s' o = Some (v', s1', o1) /\ vrel3 v v' /\ storerel3 s1 s1'.
  Proof.
    intros Wc C1c C2c H0c Hec Hs Hvs Hev. unfold apply3 in *.
    destruct (actuals ps rest vs) as [ws|] eqn:EA; [|discriminate].
    destruct (actuals_rel _ _ _ _ _ Hvs EA) as (ws' & EA' & Hws). rewrite EA'.
    cbn [wf] in Wc. apply andb_prop in Wc. destruct Wc as [Wc Wid0]. apply andb_prop in Wc. destruct Wc as [Wc Wfresh].
    apply andb_prop in Wc. destruct Wc as [Wc Wnd]. apply andb_prop in Wc. destruct Wc as [Wbody Wsv].
    unfold C2 in C2c. cbn [lam_ids] in C2c. inversion C2c as [|? ? Hidc C2body]; subst.
    unfold C1 in C1c. cbn [assigned] in C1c.
    assert (id <> 0) as Hid0 by (apply negb_true_iff in Wid0; apply Z.eqb_neq in Wid0; exact Wid0).
    assert (forall p, In p ps -> lookup_subst p id Sc = None) as Hfr by (intros; apply lookup_subst_none_loc; exact Hidc).
    destruct (bind3_rel Sc id sv ps ws ws' rc rc' s s' Hws Hec Hs Hid0 Hfr) as [Benv Bsto].
    destruct (bind3 id sv ps ws rc s) as [rb sb] eqn:EB1. destruct (bind3 id sv ps ws' rc' s') as [rb' sb'] eqn:EB2.
    cbn [fst snd] in Benv, Bsto.
    apply (IHm body Sc rb rb' sb sb' o v s1 o1 Wbody C1c C2body H0c Benv Bsto Hev).
  Qed.
End Lists3.

Lemma eval3_collapse m l r s o x : seq3 m l r s o = Some x ->
  eval3 (S m) (match l with [] => Seq [] | [y] => y | y :: z :: t => Seq (y :: z :: t) end) r s o = Some x.
Proof.
  destruct l as [|y [|z t]]; intros H; [discriminate| |rewrite eval3_Seq; exact H].
  cbn [seq3] in H. apply eval3_mono. exact H.
Qed.

(** ------------------------------------------------------------------ the main simulation *)
Lemma eval3_Op_none m op r s o : eval3 m (Op op) r s o = None.
Proof. destruct m; reflexivity. Qed.

Lemma is_special3_cases f : is_special3 f = true ->
  (exists op, f = Op op) \/ (exists id ps rest sv body, f = Lam id ps rest sv body) \/
  (exists x, f = Ref x 0 /\ is_global_proc x = true).
Proof.
  destruct f; cbn [is_special3]; try discriminate; intros H.
  - right. right. apply andb_prop in H. destruct H as [E1 E2]. apply Z.eqb_eq in E1. subst. eauto.
  - right. left. eauto 6.
  - left. eauto.
Qed.

Lemma simplify_App_shape3 f args S :
  match f with Lam _ _ _ _ _ => false | _ => true end = true ->
  simplify (App f args) S true =
  match simplify f S true with
  | Op o => if is_arith o then
              match all_simple (map (fun a => simplify a S true) args) with
              | Some cs => match prim_eval o cs with
                           | Some r => Lit r
                           | None => App (simplify f S true) (map (fun a => simplify a S true) args)
                           end
              | None => App (simplify f S true) (map (fun a => simplify a S true) args)
              end
            else App (simplify f S true) (map (fun a => simplify a S true) args)
  | _ => App (simplify f S true) (map (fun a => simplify a S true) args)
  end.
Proof.
  (* the operator's simplification is abstracted before the case analysis: comparing its unfoldings is expensive *)
  intros H. cbn [simplify]. generalize (simplify f S true). intros g.
  destruct f; try discriminate H; reflexivity.
Qed.

Lemma data_op_not_arith op : is_data_op op = true -> is_arith op = false.
Proof.
  unfold is_data_op, is_arith. intros H. apply andb_prop in H. destruct H as [E1 _]. apply Z.leb_le in E1.
  destruct (op <=? 5) eqn:E5; [apply Z.leb_le in E5; lia|apply andb_false_r].
Qed.

Theorem sound3_all : forall m, sound3 m.
Proof.
  induction m as [|m IHm]; unfold sound3; intros e S r r' s s' o v s1 o1 Hwf H1 H2 H0 He Hs Hev; [discriminate|].
  destruct e.
  - (* Lit *) rewrite eval3_Lit in Hev. inversion Hev; subst. exists (V3C c), s'. cbn [simplify]. rewrite eval3_Lit. repeat split; [constructor|exact Hs].
  - (* Obj *) rewrite eval3_Obj in Hev. inversion Hev; subst. exists (V3C c), s'. cbn [simplify]. rewrite eval3_Obj. repeat split; [constructor|exact Hs].
  - (* Ref *)
    rewrite eval3_Ref in Hev. destruct He as (A1 & A2 & A3). cbn [simplify].
    destruct (lookup_subst x loc S) as [c|] eqn:EL.
    + rewrite (A1 _ _ _ EL) in Hev. inversion Hev; subst. exists (V3C c), s'. rewrite eval3_Lit. repeat split; [constructor|exact Hs].
    + pose proof (A2 _ _ EL) as Hsr. rewrite eval3_Ref.
      destruct (lookup3 x loc r) as [[w|l]|] eqn:ELk; [| |discriminate].
      * inversion Hev; subst. inversion Hsr as [|w0 w' Hw|]; subst. exists w', s'. repeat split; assumption.
      * inversion Hsr; subst. destruct (nth_error s l) as [w|] eqn:En; [|discriminate]. inversion Hev; subst.
        destruct (storerel3_nth _ _ _ _ Hs En) as (w' & En' & Hw). rewrite En'. exists w', s'. repeat split; assumption.
  - (* SetE *)
    rewrite eval3_SetE in Hev. destruct (eval3 m e r s o) as [[[w sA] oA]|] eqn:Ee; [|discriminate].
    destruct (lookup3 x loc r) as [[?|l]|] eqn:ELk; try discriminate.
    destruct (Nat.ltb l (length sA)) eqn:Elt; [|discriminate]. inversion Hev; subst.
    unfold C1 in H1. cbn [assigned] in H1. inversion H1 as [|? ? HN H1e]; subst. cbn [fst snd] in HN. cbn [wf] in Hwf.
    destruct (IHm e S r r' s s' o w sA o1 Hwf H1e H2 H0 He Hs Ee) as (w' & sA' & E2 & R2 & S2).
    destruct He as (A1 & A2 & A3). pose proof (A2 _ _ HN) as Hsr. rewrite ELk in Hsr.
    assert (lookup3 x loc r' = Some (B3 l)) as ELk' by (inversion Hsr; congruence).
    exists (V3C CVoid), (update3 l w' sA'). cbn [simplify]. rewrite eval3_SetE, E2, ELk'.
    rewrite <- (storerel3_length _ _ S2), Elt. repeat split; [constructor|apply storerel3_update; assumption].
  - (* Cnd *)
    rewrite eval3_Cnd in Hev. destruct (eval3 m e1 r s o) as [[[tv sA] oA]|] eqn:Et; [|discriminate].
    cbn [wf] in Hwf. apply andb_prop in Hwf. destruct Hwf as [Hwf Wb]. apply andb_prop in Hwf. destruct Hwf as [Wt Wa].
    unfold C1, C2 in H1, H2. cbn [assigned lam_ids] in H1, H2.
    pose proof (Forall_app_l _ _ _ H1) as H1t. pose proof (Forall_app_r _ _ _ H1) as H1ab.
    pose proof (Forall_app_l _ _ _ H1ab) as H1a. pose proof (Forall_app_r _ _ _ H1ab) as H1b.
    pose proof (Forall_app_l _ _ _ H2) as H2t. pose proof (Forall_app_r _ _ _ H2) as H2ab.
    pose proof (Forall_app_l _ _ _ H2ab) as H2a. pose proof (Forall_app_r _ _ _ H2ab) as H2b.
    destruct (IHm e1 S r r' s s' o tv sA oA Wt H1t H2t H0 He Hs Et) as (tv' & sA' & E2 & R2 & S2).
    pose proof (truthy_rel _ _ R2) as Etv.
    cbn [simplify]. destruct (simple (simplify e1 S true)) as [c0|] eqn:ES.
    + destruct (simplify e1 S true); cbn [simple] in ES; try discriminate. inversion ES; subst c.
      destruct m as [|m']; [discriminate|]. rewrite eval3_Lit in E2. inversion E2; subst tv' sA' oA.
      cbn [truthy] in Etv. rewrite Etv in Hev.
      destruct (const_false c0); cbn [negb] in Hev.
      * destruct (IHm e3 S r r' sA s' o v s1 o1 Wb H1b H2b H0 He S2 Hev) as (v' & s1' & E3 & R3 & S3).
        exists v', s1'. split; [apply eval3_mono; exact E3|split; assumption].
      * destruct (IHm e2 S r r' sA s' o v s1 o1 Wa H1a H2a H0 He S2 Hev) as (v' & s1' & E3 & R3 & S3).
        exists v', s1'. split; [apply eval3_mono; exact E3|split; assumption].
    + rewrite eval3_Cnd, E2, <- Etv.
      destruct (truthy tv).
      * apply (IHm e2 S r r' sA sA' oA v s1 o1 Wa H1a H2a H0 He S2 Hev).
      * apply (IHm e3 S r r' sA sA' oA v s1 o1 Wb H1b H2b H0 He S2 Hev).
  - (* Seq *)
    rewrite eval3_Seq in Hev. cbn [wf] in Hwf. unfold C1, C2 in H1, H2. cbn [assigned lam_ids] in H1, H2.
    destruct (seq_sound3 m IHm es S r r' s s' o v s1 o1 Hwf (C_flat _ _ _ H1) (C_flatZ _ _ _ H2) H0 He Hs Hev) as (v' & s1' & E1 & R1 & S1).
    exists v', s1'. cbn [simplify]. split; [apply eval3_collapse; exact E1|split; assumption].
  - (* Lam *)
    rewrite eval3_Lam in Hev. inversion Hev; subst.
    cbn [simplify]. rewrite eval3_Lam. eexists. exists s'. split; [reflexivity|split; [|exact Hs]].
    destruct He as (A1 & A2 & A3). apply VR3_clo with (S := S); assumption.
  - (* App *)
    cbn [wf] in Hwf. apply andb_prop in Hwf. destruct Hwf as [Wf Wargs].
    unfold C1, C2 in H1, H2. cbn [assigned lam_ids] in H1, H2.
    pose proof (Forall_app_l _ _ _ H1) as H1f. pose proof (C_flat _ _ _ (Forall_app_r _ _ _ H1)) as H1args.
    pose proof (Forall_app_l _ _ _ H2) as H2f. pose proof (C_flatZ _ _ _ (Forall_app_r _ _ _ H2)) as H2args.
    destruct (is_special3 e) eqn:Esp.
    + destruct (is_special3_cases _ Esp) as [(op & ->)|[(id & ps & rest & sv & body & ->)|(x & -> & Hgp)]].
      * (* opcode *)
        rewrite eval3_App_Op in Hev. destruct (args3 m args r s o) as [[[vs sA] oA]|] eqn:Eargs; [|discriminate].
        destruct (args_sound3 m IHm args S r r' s s' o vs sA oA Wargs H1args H2args H0 He Hs Eargs) as (vs' & sA' & E2 & R2 & S2).
        destruct (is_data_op op) eqn:Edo.
        -- (* data: never folded *)
           destruct (data_eval op vs) as [dv|] eqn:ED; [|discriminate]. inversion Hev; subst.
           destruct (data_eval_rel _ _ _ _ R2 ED) as (dv' & ED' & Rd).
           assert (simplify (App (Op op) args) S true = App (Op op) (map (fun a => simplify a S true) args)) as ESimp.
           { cbn [simplify]. rewrite (data_op_not_arith _ Edo). reflexivity. }
           rewrite ESimp. exists dv', sA'. rewrite eval3_App_Op, E2, Edo, ED'. repeat split; assumption.
        -- destruct (consts3_of vs) as [cs|] eqn:Ecs; [|discriminate]. destruct (prim_eval op cs) as [c|] eqn:EP; [|discriminate].
           inversion Hev; subst.
           pose proof (consts3_rel _ _ _ R2 Ecs) as Ecs'.
           cbn [simplify].
           assert (eval3 (Datatypes.S m) (App (Op op) (map (fun a => simplify a S true) args)) r' s' o = Some (V3C c, sA', o1)) as Eplain.
           { rewrite eval3_App_Op, E2, Edo, Ecs', EP. reflexivity. }
           destruct (is_arith op); [|exists (V3C c), sA'; repeat split; [exact Eplain|constructor|exact S2]].
           destruct (all_simple (map (fun a => simplify a S true) args)) as [cs0|] eqn:EAS;
             [|exists (V3C c), sA'; repeat split; [exact Eplain|constructor|exact S2]].
           destruct (all_simple_args3_inv _ _ _ _ _ _ _ _ _ EAS E2) as (Ec0 & -> & ->).
           rewrite Ecs' in Ec0. inversion Ec0; subst cs0. rewrite EP.
           exists (V3C c), s'. rewrite eval3_Lit. repeat split; [constructor|exact S2].
      * (* let *)
        rewrite eval3_App_Lam in Hev. unfold letform3 in Hev.
        destruct (args3 m args r s o) as [[[vs sA] oA]|] eqn:Eargs; [|discriminate].
        destruct (args_sound3 m IHm args S r r' s s' o vs sA oA Wargs H1args H2args H0 He Hs Eargs) as (vs' & sA' & E2 & R2 & S2).
        pose proof (args3_length _ _ _ _ _ _ _ _ Eargs) as Lvs.
        cbn [simplify].
        match goal with |- context [Nat.eqb ?a ?b] => destruct (Nat.eqb a b) eqn:ELen end.
        -- (* as many arguments as fixed parameters: literal arguments are propagated *)
           apply Nat.eqb_eq in ELen. rewrite map_length in ELen.
           destruct (let_subst id sv ps (map (fun a => simplify a S true) args) S) as [[ps2 argsK] S2'] eqn:ELS.
           pose proof Wf as Wf0.
           cbn [wf] in Wf. apply andb_prop in Wf. destruct Wf as [Wf Wid0]. apply andb_prop in Wf. destruct Wf as [Wf Wfresh].
           apply andb_prop in Wf. destruct Wf as [Wf Wnd]. apply andb_prop in Wf. destruct Wf as [Wbody Wsv].
           cbn [lam_ids] in H2f. inversion H2f as [|? ? Hid H2bd]; subst. cbn [assigned] in H1f.
           assert (id <> 0) as Hid0 by (apply negb_true_iff in Wid0; apply Z.eqb_neq in Wid0; exact Wid0).
           assert (forall p, In p ps -> lookup_subst p id S = None) as Hfr by (intros; apply lookup_subst_none_loc; exact Hid).
           assert ((length (map (fun a => simplify a S true) args) <= length ps)%nat) as Hle.
           { rewrite map_length. unfold proper_len in ELen. destruct rest; lia. }
           destruct (let_subst_sound3 m id sv ps _ S ps2 argsK S2' vs' r' s' o sA' oA ELS Hle (nodupb_NoDup _ Wnd) Hid0 Hfr E2)
             as (vsK & E3 & L3 & L3' & BB & N3 & P3).
           rewrite map_length in L3, L3'.
           pose proof (args3_length _ _ _ _ _ _ _ _ E3) as LvsK.
           unfold apply3 in Hev. rewrite (actuals_exact ps rest vs) in Hev by lia.
           destruct (BB vs (extra3 rest) (extra3 rest) r r' sA sA' R2 (extra3_rel rest) He S2) as [Benv Bsto].
           destruct (bind3 id sv ps (vs ++ extra3 rest) r sA) as [rb sb] eqn:EB1.
           destruct (bind3 id sv ps2 (vsK ++ extra3 rest) r' sA') as [rb' sb'] eqn:EB2.
           cbn [fst snd] in Benv, Bsto.
           assert (C1 S2' body) as H1body.
           { unfold C1. rewrite Forall_forall in H1f |- *. intros k Hk.
             destruct (lookup_subst (fst k) (snd k) S2') as [c|] eqn:EK; [|reflexivity]. exfalso.
             destruct (P3 _ _ _ EK) as [Hs'|(El & Hin & Hsv)]; [rewrite (H1f k Hk) in Hs'; discriminate|].
             rewrite forallb_forall in Wsv. specialize (Wsv k Hk). apply orb_prop in Wsv.
             destruct Wsv as [Wn|Wm]; [rewrite El, Z.eqb_refl in Wn; discriminate|]. apply Hsv. apply memZ_true. exact Wm. }
           assert (forall l, ~ In l (sdom S) -> l <> id -> ~ In l (sdom S2')) as Hdom.
           { intros l Hl Hne HI. unfold sdom in HI. apply in_map_iff in HI. destruct HI as ([[y m0] c] & Em & HIn). cbn in Em. subst m0.
             assert (exists c', lookup_subst y l S2' = Some c') as (c' & Ec').
             { clear - HIn. induction S2' as [|[[y2 m2] c2] S2' IH]; [destruct HIn|]. cbn [lookup_subst].
               destruct ((y2 =? y) && (m2 =? l)) eqn:E; [eexists; reflexivity|]. destruct HIn as [Eq|HIn]; [|apply IH; exact HIn].
               inversion Eq; subst. rewrite !Z.eqb_refl in E. discriminate. }
             destruct (P3 _ _ _ Ec') as [Hs'|(El & _)]; [|contradiction].
             rewrite (lookup_subst_none_loc y l S Hl) in Hs'. discriminate. }
           assert (C2 S2' body) as H2body.
           { unfold C2. rewrite Forall_forall in H2bd |- *. intros l Hl. apply Hdom; [apply H2bd; exact Hl|].
             intros ->. apply negb_true_iff in Wfresh. apply memZ_false in Wfresh. contradiction. }
           assert (~ In 0 (sdom S2')) as H0' by (apply Hdom; [exact H0|congruence]).
           destruct (IHm body S2' rb rb' sb sb' oA v s1 o1 Wbody H1body H2body H0' Benv Bsto Hev) as (v' & s1' & E4 & R4 & S4).
           exists v', s1'. rewrite eval3_App_Lam. unfold letform3. rewrite E3. unfold apply3.
           rewrite (actuals_exact ps2 rest vsK) by (unfold proper_len in *; destruct rest; lia).
           rewrite EB2. split; [exact E4|split; assumption].
        -- (* another number of arguments (surplus arguments for a rest parameter, or an arity error): parameters untouched *)
           destruct (apply3_sound m IHm S id ps rest sv body vs vs' r r' sA sA' oA v s1 o1 Wf H1f H2f H0 He S2 R2 Hev)
             as (v' & s1' & E4 & R4 & S4).
           exists v', s1'. rewrite eval3_App_Lam. unfold letform3. rewrite E2. split; [exact E4|split; assumption].
      * (* global procedure: output, list, vector, length *)
        rewrite eval3_App_glob in Hev by exact Hgp.
        destruct (args3 m args r s o) as [[[vs sA] oA]|] eqn:Eargs; [|discriminate].
        destruct (global_apply x vs oA) as [[gv o2]|] eqn:EG; [|discriminate]. inversion Hev; subst.
        destruct (args_sound3 m IHm args S r r' s s' o vs s1 oA Wargs H1args H2args H0 He Hs Eargs) as (vs' & sA' & E2 & R2 & S2).
        destruct (global_apply_rel _ _ _ _ _ _ R2 EG) as (gv' & EG' & Rg).
        assert (simplify (App (Ref x 0) args) S true = App (Ref x 0) (map (fun a => simplify a S true) args)) as ESimp.
        { cbn [simplify]. rewrite (lookup_subst_none_loc x 0 S H0). reflexivity. }
        rewrite ESimp. exists gv', sA'. rewrite eval3_App_glob by exact Hgp. rewrite E2, EG'. repeat split; assumption.
    + (* application of a closure value *)
      rewrite eval3_App_generic in Hev by exact Esp. unfold generic3 in Hev.
      destruct (args3 m args r s o) as [[[vs sA] oA]|] eqn:Eargs; [|discriminate].
      destruct (eval3 m e r sA oA) as [[[fv sB] oB]|] eqn:Ef; [|discriminate].
      destruct fv as [| | |lam rc]; try discriminate. destruct lam; try discriminate.
      destruct (args_sound3 m IHm args S r r' s s' o vs sA oA Wargs H1args H2args H0 He Hs Eargs) as (vs' & sA' & E2 & R2 & S2).
      destruct (IHm e S r r' sA sA' oA _ sB oB Wf H1f H2f H0 He S2 Ef) as (fv' & sB' & E3 & R3 & S3).
      inversion R3 as [| | |Sc id0 ps0 rest0 sv0 body0 rc0 rc' Wc C1c C2c H0c Ac1 Ac2 Ac3]; subst.
      assert (envrel3 Sc rc rc') as Hec by (split; [exact Ac1|split; [exact Ac2|exact Ac3]]).
      destruct (apply3_sound m IHm Sc id ps rest sv lam vs vs' rc rc' sB sB' oB v s1 o1 Wc C1c C2c H0c Hec S3 R2 Hev)
        as (v' & s1' & E4 & R4 & S4).
      exists v', s1'. split; [|split; assumption].
      (* shape of the simplified application *)
      assert (match e with Lam _ _ _ _ _ => false | _ => true end = true) as Hnl.
      { destruct e; try reflexivity. cbn [is_special3] in Esp. discriminate. }
      rewrite (simplify_App_shape3 e args S Hnl).
      set (f' := simplify e S true) in *. set (args' := map (fun a => simplify a S true) args) in *.
      destruct (is_special3 f') eqn:Esp'.
      * destruct (is_special3_cases _ Esp') as [(op & Eq)|[(id1 & ps1 & rest1 & sv1 & body1 & Eq)|(x & Eq & Hgp)]].
        -- rewrite Eq in E3. rewrite eval3_Op_none in E3. discriminate.
        -- rewrite Eq in *. destruct m as [|m']; [discriminate|].
           rewrite eval3_Lam in E3. inversion E3; subst.
           rewrite eval3_App_Lam. unfold letform3. rewrite E2. exact E4.
        -- rewrite Eq in E3. destruct m as [|m']; [discriminate|]. rewrite eval3_Ref in E3.
           destruct He as (_ & _ & A3). rewrite (A3 x) in E3. discriminate.
      * assert (eval3 (Datatypes.S m) (App f' args') r' s' o = Some (v', s1', o1)) as Egen.
        { rewrite eval3_App_generic by exact Esp'. unfold generic3. rewrite E2, E3. exact E4. }
        destruct f'; try exact Egen. cbn [is_special3] in Esp'. discriminate.
  - (* Op *) rewrite eval3_Opv in Hev. discriminate.
Qed.

(** ------------------------------------------------------------------ statements for Properties_C09 *)
Theorem simplify_sound_data : forall fuel e S r r' s s' o v s1 o1,
  wf e = true -> C1 S e -> C2 S e -> ~ In 0 (sdom S) -> envrel3 S r r' -> storerel3 s s' ->
  eval3 fuel e r s o = Some (v, s1, o1) ->
  exists v' s1', eval3 fuel (simplify e S true) r' s' o = Some (v', s1', o1) /\ vrel3 v v' /\ storerel3 s1 s1'.
Proof. intros fuel. apply sound3_all. Qed.

(** a whole program (the body of a lambda, no substitution in force): same output, same value when it is closure-free
    data, "some procedure" for a value that holds a procedure *)
Theorem simplify_sound_program3 : forall fuel e res o,
  wf e = true -> run3 fuel e = Some (res, o) -> run3 fuel (simplify e [] true) = Some (res, o).
Proof.
  intros fuel e res o Hwf H. unfold run3 in *.
  destruct (eval3 fuel e [] [] []) as [[[v s1] o1]|] eqn:E; [|discriminate].
  destruct (simplify_sound_data fuel e [] [] [] [] [] [] v s1 o1 Hwf) as (v' & s1' & E' & Rv & _); auto.
  - unfold C1. apply Forall_forall. reflexivity.
  - unfold C2. apply Forall_forall. intros x _ [].
  - split; [intros x l c Hx; discriminate|split; [intros; constructor|reflexivity]].
  - constructor.
  - rewrite E'. rewrite <- (vrel3_data _ _ Rv). exact H.
Qed.

(** non-vacuity (1): a procedure WITH a rest parameter bound to a variable and called with 1, 2 and 4 arguments; its body
    writes the rest list and its length, tests it with null?, takes car and cdr of it, contains a foldable product and a
    let one of whose arguments is a literal (that parameter is deleted) *)
Definition ex_rest : expr :=
  App (Lam 1 [10] false [] (Seq [
         App (Ref OUT 0) [App (Ref 10 1) [Lit (CInt 1)]];
         App (Ref OUT 0) [App (Ref 10 1) [Lit (CInt 1); Lit (CInt 2)]];
         App (Ref 10 1) [Lit (CInt 1); Lit (CInt 2); Lit (CInt 3); App (Op 0) [Lit (CInt 2); Lit (CInt 2)]]]))
      [Lam 2 [20; 21] true [] (Seq [
         App (Ref OUT 0) [Ref 21 2];
         App (Ref OUT 0) [App (Ref LENGTH 0) [Ref 21 2]];
         Cnd (App (Op 24) [Ref 21 2])
             (App (Op 0) [Ref 20 2; App (Op 1) [Lit (CInt 2); Lit (CInt 3)]])
             (App (Lam 3 [30; 31] false [] (Seq [App (Ref OUT 0) [App (Op 22) [Ref 31 3]];
                                                 App (Op 0) [Ref 30 3; Ref 20 2; App (Op 21) [Ref 31 3]]]))
                  [Lit (CInt 10); Ref 21 2])])].

Definition ex_rest_result : option dat * list dat :=
  (Some (DC (CInt 13)),
   [DC NIL; DC (CInt 0); DC (CInt 7);
    DP (DC (CInt 2)) (DC NIL); DC (CInt 1); DC NIL; DC (CInt 13);
    DP (DC (CInt 2)) (DP (DC (CInt 3)) (DP (DC (CInt 4)) (DC NIL))); DC (CInt 3);
    DP (DC (CInt 3)) (DP (DC (CInt 4)) (DC NIL))]).

Example ex_rest_defined : wf ex_rest = true /\ run3 60 ex_rest = Some ex_rest_result.
Proof. vm_compute. split; reflexivity. Qed.

Example ex_rest_simplified : run3 60 (simplify ex_rest [] true) = Some ex_rest_result /\ simplify ex_rest [] true <> ex_rest.
Proof. vm_compute. split; [reflexivity|discriminate]. Qed.

(** non-vacuity (2): a let-form whose lambda has a rest parameter and exactly as many arguments as fixed parameters;
    the literal argument's parameter is DELETED by simplify, the rest parameter receives the empty list on both sides *)
Definition ex_restlet : expr :=
  App (Lam 1 [10; 11; 12] true [] (Seq [
         App (Ref OUT 0) [Ref 12 1];
         App (Ref OUT 0) [App (Op 24) [Ref 12 1]];
         App (Op 0) [Ref 10 1; Ref 11 1; App (Op 1) [Lit (CInt 2); Lit (CInt 3)]]]))
      [Lit (CInt 5); App (Ref LENGTH 0) [App (Ref LIST 0) [Lit (CInt 1); Lit (CInt 2)]]].

Example ex_restlet_defined : wf ex_restlet = true /\ run3 60 ex_restlet = Some (Some (DC (CInt 13)), [DC NIL; DC (CBool true)]).
Proof. vm_compute. split; reflexivity. Qed.

Example ex_restlet_simplified :
  run3 60 (simplify ex_restlet [] true) = Some (Some (DC (CInt 13)), [DC NIL; DC (CBool true)])
  /\ simplify ex_restlet [] true <> ex_restlet
  /\ simplify ex_restlet [] true =
     App (Lam 1 [11; 12] true [] (Seq [
            App (Ref OUT 0) [Ref 12 1];
            App (Ref OUT 0) [App (Op 24) [Ref 12 1]];
            App (Op 0) [Lit (CInt 5); Ref 11 1; Lit (CInt 6)]]))
         [App (Ref LENGTH 0) [App (Ref LIST 0) [Lit (CInt 1); Lit (CInt 2)]]].
Proof. vm_compute. split; [reflexivity|split; [discriminate|reflexivity]]. Qed.

(** non-vacuity (3): pairs and vectors built with cons / list / vector, read with car / cdr / vector-ref / vector-length /
    pair?, written as data; a folded index and a propagated constant *)
Definition ex_data : expr :=
  App (Lam 1 [10; 11; 12] false [] (Seq [
         App (Ref OUT 0) [Ref 10 1];
         App (Ref OUT 0) [Ref 11 1];
         App (Ref OUT 0) [App (Op 25) [Ref 11 1; App (Op 2) [Lit (CInt 3); Lit (CInt 2)]]];
         App (Ref OUT 0) [App (Op 26) [Ref 11 1]];
         App (Ref OUT 0) [App (Op 23) [Ref 10 1]];
         App (Op 0) [App (Op 21) [Ref 10 1]; Ref 12 1;
                     App (Op 21) [App (Op 22) [App (Ref LIST 0) [Lit (CInt 4); Lit (CInt 5)]]]]]))
      [App (Op 20) [Lit (CInt 1); App (Op 20) [Lit (CInt 2); Lit NIL]];
       App (Ref VECTOR 0) [Lit (CInt 7); Lit (CInt 8); App (Ref LIST 0) [Lit (CInt 9)]];
       Lit (CInt 100)].

Definition ex_data_result : option dat * list dat :=
  (Some (DC (CInt 106)),
   [DP (DC (CInt 1)) (DP (DC (CInt 2)) (DC NIL));
    DV (DP (DC (CInt 7)) (DP (DC (CInt 8)) (DP (DP (DC (CInt 9)) (DC NIL)) (DC NIL))));
    DC (CInt 8); DC (CInt 3); DC (CBool true)]).

Example ex_data_defined : wf ex_data = true /\ run3 60 ex_data = Some ex_data_result.
Proof. vm_compute. split; reflexivity. Qed.

Example ex_data_simplified : run3 60 (simplify ex_data [] true) = Some ex_data_result /\ simplify ex_data [] true <> ex_data.
Proof. vm_compute. split; [reflexivity|discriminate]. Qed.
