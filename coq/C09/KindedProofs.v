(** C09 round 2: the kind-exact model [Kinded.ksimplify] refines the proved model [Simplify.simplify] through [erase];
    the fold's evaluation is unobservable for the dynamic state of the compiling program. *)
From ChibiV Require Import C09.Ast C09.Simplify C09.SimplifyProofs C09.Sem2 C09.Sem2Proofs C09.Kinded.
Local Open Scope Z_scope.

Section KInd.
  Variable P : kexpr -> Prop.
  Hypothesis HImm : forall c, P (KImm c).
  Hypothesis HLit : forall c, P (KLit c).
  Hypothesis HObj : forall c, P (KObj c).
  Hypothesis HRef : forall x l, P (KRef x l).
  Hypothesis HSet : forall x l e, P e -> P (KSet x l e).
  Hypothesis HCnd : forall t a b, P t -> P a -> P b -> P (KCnd t a b).
  Hypothesis HSeq : forall es, Forall P es -> P (KSeq es).
  Hypothesis HLam : forall id ps rest sv body, P body -> P (KLam id ps rest sv body).
  Hypothesis HApp : forall f args, P f -> Forall P args -> P (KApp f args).
  Hypothesis HOp : forall opc, P (KOp opc).

  Fixpoint kexpr_ind2 (e : kexpr) : P e :=
    match e with
    | KImm c => HImm c
    | KLit c => HLit c
    | KObj c => HObj c
    | KRef x l => HRef x l
    | KSet x l e1 => HSet x l e1 (kexpr_ind2 e1)
    | KCnd t a b => HCnd t a b (kexpr_ind2 t) (kexpr_ind2 a) (kexpr_ind2 b)
    | KSeq es => HSeq es ((fix go (l : list kexpr) : Forall P l :=
                             match l with [] => Forall_nil P | x :: r => Forall_cons x (kexpr_ind2 x) (go r) end) es)
    | KLam id ps rest sv body => HLam id ps rest sv body (kexpr_ind2 body)
    | KApp f args => HApp f args (kexpr_ind2 f)
                       ((fix go (l : list kexpr) : Forall P l :=
                           match l with [] => Forall_nil P | x :: r => Forall_cons x (kexpr_ind2 x) (go r) end) args)
    | KOp opc => HOp opc
    end.
End KInd.

(** ------------------------------------------------------------------ (A) *)
Lemma fold_eval_unobservable d o cs : fold_eval d o cs = (prim_eval o cs, [], d).
Proof.
  unfold fold_eval, apply_no_err_handler, vm_apply. destruct (prim_eval o cs); reflexivity.
Qed.

(** the obligation is not vacuous: a plain sexp_apply under an installed handler IS observable *)
Example vm_apply_observable :
  vm_apply {| handler := Some 7; params := [] |} 4 [CInt 1; CInt 0] = (None, [EHandlerCalled 7 4 [CInt 1; CInt 0]], {| handler := Some 7; params := [] |}).
Proof. reflexivity. Qed.

(** ------------------------------------------------------------------ erasure lemmas *)
Lemma ksimple_erase e : simple (erase e) = option_map snd (ksimple e).
Proof. destruct e; reflexivity. Qed.

Lemma kall_simple_erase es : all_simple (map erase es) = kall_simple es.
Proof.
  induction es as [|e r IH]; [reflexivity|].
  cbn [map all_simple kall_simple]. rewrite ksimple_erase, IH.
  destruct (ksimple e) as [k|]; cbn [option_map]; [|reflexivity]. destruct (kall_simple r); reflexivity.
Qed.

Lemma klookup_erase x l S : lookup_subst x l (map erase_subst S) = option_map snd (klookup_subst x l S).
Proof.
  induction S as [|[[y m] k] S IH]; [reflexivity|].
  cbn [map erase_subst fst snd lookup_subst klookup_subst]. destruct ((y =? x) && (m =? l)); [reflexivity|exact IH].
Qed.

Lemma klet_subst_erase id sv : forall ps args S,
  let_subst id sv ps (map erase args) (map erase_subst S) =
  (let '(ps2, args2, S2) := klet_subst id sv ps args S in (ps2, map erase args2, map erase_subst S2)).
Proof.
  induction ps as [|p ps IH]; intros args S; [destruct args; reflexivity|].
  destruct args as [|a args]; [reflexivity|].
  cbn [map let_subst klet_subst]. rewrite ksimple_erase.
  destruct (memZ p sv).
  - rewrite IH. destruct (klet_subst id sv ps args S) as [[ps2 args2] S2]. reflexivity.
  - destruct (ksimple a) as [k|]; cbn [option_map].
    + specialize (IH args ((p, id, k) :: S)). cbn [map erase_subst fst snd] in IH. exact IH.
    + rewrite IH. destruct (klet_subst id sv ps args S) as [[ps2 args2] S2]. reflexivity.
Qed.

Lemma kdroppable_erase e : droppable (erase e) = kdroppable e.
Proof. destruct e; reflexivity. Qed.

Lemma kseq_filter_erase es : seq_filter (map erase es) = map erase (kseq_filter es).
Proof.
  induction es as [|e r IH]; [reflexivity|].
  destruct r as [|e2 r]; [reflexivity|].
  change (map erase (e :: e2 :: r)) with (erase e :: erase e2 :: map erase r).
  cbn [seq_filter kseq_filter]. rewrite kdroppable_erase.
  change (erase e2 :: map erase r) with (map erase (e2 :: r)).
  destruct (kdroppable e).
  - exact IH.
  - cbn [map]. f_equal. exact IH.
Qed.

(** the operator is not a lambda: fold or leave alone *)
Definition fold_app (f' : expr) (args' : list expr) : expr :=
  match f' with
  | Op o => if is_arith o then
              match all_simple args' with
              | Some cs => match prim_eval o cs with Some r => Lit r | None => App f' args' end
              | None => App f' args'
              end
            else App f' args'
  | _ => App f' args'
  end.

Lemma erase_kfold_app d f' args' : erase (kfold_app d f' args') = fold_app (erase f') (map erase args').
Proof.
  destruct f'; try reflexivity.
  cbn [kfold_app erase fold_app]. destruct (is_arith o); [|reflexivity].
  rewrite kall_simple_erase. destruct (kall_simple args') as [cs|]; [|reflexivity].
  rewrite fold_eval_unobservable. cbn [fst]. destruct (prim_eval o cs); reflexivity.
Qed.

(* the two lemmas below are one unfolding step; keep the conversion from wandering into the arithmetic *)
Strategy opaque [prim_eval fold_eval is_arith all_simple kall_simple].

Definition is_klam (e : kexpr) : bool := match e with KLam _ _ _ _ _ => true | _ => false end.

Lemma ksimplify_app_nonlam d f args S il : is_klam f = false ->
  ksimplify d (KApp f args) S il = kfold_app d (ksimplify d f S il) (map (fun a => ksimplify d a S il) args).
Proof. destruct f; intros H; try discriminate; reflexivity. Qed.

Lemma simplify_app_nonlam f args S il : is_klam f = false ->
  simplify (App (erase f) args) S il = fold_app (simplify (erase f) S il) (map (fun a => simplify a S il) args).
Proof. destruct f; intros H; try discriminate; cbn [erase simplify fold_app]; reflexivity. Qed.

Strategy transparent [prim_eval fold_eval is_arith all_simple kall_simple].

Definition commutes (e : kexpr) : Prop :=
  forall d S il, erase (ksimplify d e S il) = simplify (erase e) (map erase_subst S) il.

Lemma map_commutes es : Forall commutes es -> forall d S il,
  map (fun a => simplify a (map erase_subst S) il) (map erase es) = map erase (map (fun a => ksimplify d a S il) es).
Proof.
  intros H d S il. induction H as [|e r He _ IH]; [reflexivity|].
  cbn [map]. rewrite IH, (He d S il). reflexivity.
Qed.

(** ------------------------------------------------------------------ the kind-exact model refines the proved one *)
Theorem erase_ksimplify : forall e, commutes e.
Proof.
  induction e using kexpr_ind2; unfold commutes; intros d S il.
  - reflexivity.
  - reflexivity.
  - reflexivity.
  - (* KRef *) cbn [ksimplify erase simplify]. rewrite klookup_erase.
    destruct (klookup_subst x l S) as [[b c]|]; cbn [option_map snd]; [|reflexivity].
    destruct b; reflexivity.
  - (* KSet *) cbn [ksimplify erase simplify]. rewrite (IHe d S il). reflexivity.
  - (* KCnd *) cbn [ksimplify erase simplify]. rewrite <- (IHe1 d S il), ksimple_erase.
    destruct (ksimple (ksimplify d e1 S il)) as [k|]; cbn [option_map].
    + destruct (const_false (snd k)); [apply IHe3|apply IHe2].
    + cbn [erase]. rewrite (IHe2 d S il), (IHe3 d S il). reflexivity.
  - (* KSeq *) cbn [ksimplify erase simplify]. rewrite (map_commutes es H d S il), kseq_filter_erase.
    destruct (kseq_filter (map (fun a => ksimplify d a S il) es)) as [|x [|y r]]; reflexivity.
  - (* KLam *) cbn [ksimplify erase simplify]. rewrite (IHe d S true). reflexivity.
  - (* KApp *) destruct (is_klam e) eqn:EL.
    + destruct e as [| | | | | | |id ps rest sv body| |]; try discriminate. clear EL.
      assert (forall S', erase (ksimplify d body S' true) = simplify (erase body) (map erase_subst S') true) as Hb.
      { intros S'. specialize (IHe d S' true). cbn [ksimplify erase simplify] in IHe. injection IHe as IHe. exact IHe. }
      cbn [ksimplify erase simplify]. rewrite (map_commutes args H d S il). rewrite !map_length.
      destruct il.
      * destruct (Nat.eqb (proper_len ps rest) (length args)).
        -- rewrite klet_subst_erase.
           destruct (klet_subst id sv ps (map (fun a => ksimplify d a S true) args) S) as [[ps2 args2] S2].
           cbn [erase]. rewrite Hb. reflexivity.
        -- cbn [erase]. rewrite Hb. reflexivity.
      * reflexivity.
    + rewrite (ksimplify_app_nonlam d e args S il EL), erase_kfold_app.
      cbn [erase]. rewrite (simplify_app_nonlam e (map erase args) (map erase_subst S) il EL).
      rewrite (IHe d S il), (map_commutes args H d S il). reflexivity.
  - reflexivity.
Qed.

Corollary erase_ksexp_simplify d e : erase (ksexp_simplify d e) = sexp_simplify (erase e).
Proof. exact (erase_ksimplify e d [] false). Qed.

(** nothing of the compiling program's dynamic state (installed handler, parameter bindings) reaches the result *)
Theorem ksimplify_dyn_independent : forall e d d' S il, ksimplify d e S il = ksimplify d' e S il.
Proof.
  induction e using kexpr_ind2; intros d d' S il; try reflexivity.
  - cbn [ksimplify]. rewrite (IHe d d' S il). reflexivity.
  - cbn [ksimplify]. rewrite (IHe1 d d' S il), (IHe2 d d' S il), (IHe3 d d' S il). reflexivity.
  - cbn [ksimplify].
    assert (map (fun a => ksimplify d a S il) es = map (fun a => ksimplify d' a S il) es) as ->; [|reflexivity].
    induction H as [|a r Ha _ IH]; [reflexivity|]. cbn [map]. rewrite IH, (Ha d d' S il). reflexivity.
  - cbn [ksimplify]. rewrite (IHe d d' S true). reflexivity.
  - assert (map (fun a => ksimplify d a S il) args = map (fun a => ksimplify d' a S il) args) as Hm.
    { induction H as [|a r Ha _ IH]; [reflexivity|]. cbn [map]. rewrite IH, (Ha d d' S il). reflexivity. }
    destruct (is_klam e) eqn:EL.
    + destruct e as [| | | | | | |id ps rest sv body| |]; try discriminate. clear EL.
      assert (forall S', ksimplify d body S' true = ksimplify d' body S' true) as Hb.
      { intros S'. specialize (IHe d d' S' true). cbn [ksimplify] in IHe. injection IHe as IHe. exact IHe. }
      cbn [ksimplify]. rewrite Hm.
      destruct il; [|reflexivity].
      destruct (Nat.eqb (proper_len ps rest) (length (map (fun a => ksimplify d' a S true) args))).
      * destruct (klet_subst id sv ps (map (fun a => ksimplify d' a S true) args) S) as [[ps2 args2] S2]. rewrite Hb. reflexivity.
      * rewrite Hb. reflexivity.
    + rewrite !(ksimplify_app_nonlam _ e args S il EL), Hm, (IHe d d' S il).
      destruct (ksimplify d' e S il); try reflexivity.
      cbn [kfold_app]. destruct (is_arith o); [|reflexivity].
      destruct (kall_simple (map (fun a => ksimplify d' a S il) args)) as [cs|]; [|reflexivity].
      rewrite !fold_eval_unobservable. reflexivity.
Qed.

(** ------------------------------------------------------------------ the soundness theorems carried over *)
Theorem ksimplify_sound_program : forall d fuel e res o,
  kwf e = true -> run2 fuel (erase e) = Some (res, o) -> run2 fuel (erase (ksimplify d e [] true)) = Some (res, o).
Proof.
  intros d fuel e res o Hwf Hrun. rewrite (erase_ksimplify e d [] true). cbn [map].
  exact (Sem2Proofs.simplify_sound_program fuel (erase e) res o Hwf Hrun).
Qed.

Theorem ksexp_simplify_sound : forall d e s v s1,
  eval (erase e) s = (Some v, s1) -> eval (erase (ksexp_simplify d e)) s = (Some v, s1).
Proof.
  intros d e s v s1 H. rewrite erase_ksexp_simplify. exact (SimplifyProofs.sexp_simplify_sound (erase e) s v s1 H).
Qed.

(** a literal test is decided by the VALUE, whether it stands there as an immediate or inside a lit node:
    (if '#f a b) and (if #f a b) both become b; every other constant of either kind selects a *)
Theorem quoted_test_unwrapped : forall d c a b S il,
  ksimplify d (KCnd (KLit c) a b) S il = ksimplify d (KCnd (KImm c) a b) S il /\
  ksimplify d (KCnd (KLit c) a b) S il = (if const_false c then ksimplify d b S il else ksimplify d a S il).
Proof. intros. split; reflexivity. Qed.

(** a fold always yields a lit NODE and only when the handler-free evaluation yields a value *)
Theorem kfold_only_when_value : forall d o args S il e,
  ksimplify d (KApp (KOp o) args) S il = e -> e <> KApp (KOp o) (map (fun a => ksimplify d a S il) args) ->
  exists cs r, kall_simple (map (fun a => ksimplify d a S il) args) = Some cs /\ prim_eval o cs = Some r /\ is_arith o = true
               /\ e = KLit r /\ snd (fst (fold_eval d o cs)) = [] /\ snd (fold_eval d o cs) = d.
Proof.
  intros d o args S il e He Hne.
  rewrite (ksimplify_app_nonlam d (KOp o) args S il eq_refl) in He. cbn [ksimplify kfold_app] in He.
  destruct (is_arith o) eqn:EA; [|subst e; contradiction].
  destruct (kall_simple (map (fun a => ksimplify d a S il) args)) as [cs|] eqn:EC; [|subst e; contradiction].
  rewrite fold_eval_unobservable in He. cbn [fst] in He.
  destruct (prim_eval o cs) as [r|] eqn:EP; [|subst e; contradiction].
  exists cs, r. rewrite fold_eval_unobservable. repeat split; auto.
Qed.

(** examples: the hypotheses are satisfiable, the kinds are kept *)
Example ex_quoted_false :      (* (lambda () ((lambda (dbg) (if dbg 1 2)) '#f)) *)
  ksimplify dyn0 (KLam 1 [] false [] (KApp (KLam 2 [10] false [] (KCnd (KRef 10 2) (KImm (CInt 1)) (KImm (CInt 2)))) [KLit (CBool false)])) [] false
  = KLam 1 [] false [] (KApp (KLam 2 [] false [] (KImm (CInt 2))) []).
Proof. reflexivity. Qed.

Example ex_kinds_kept :        (* (lambda () ((lambda (a b) (out a) (out b) (+ a b)) '1 2)) : a is a node, b an immediate, the sum a node *)
  ksimplify dyn0 (KLam 1 [] false [] (KApp (KLam 2 [10; 11] false []
       (KSeq [KApp (KRef OUT 0) [KRef 10 2]; KApp (KRef OUT 0) [KRef 11 2]; KApp (KOp 0) [KRef 10 2; KRef 11 2]]))
       [KLit (CInt 1); KImm (CInt 2)])) [] false
  = KLam 1 [] false [] (KApp (KLam 2 [] false []
       (KSeq [KApp (KRef OUT 0) [KLit (CInt 1)]; KApp (KRef OUT 0) [KImm (CInt 2)]; KLit (CInt 3)])) []).
Proof. reflexivity. Qed.

Example ex_raising_fold_left_alone :   (* (quotient 1 0) under an installed handler 7: not folded, no event *)
  ksimplify {| handler := Some 7; params := [(1, CInt 5)] |} (KApp (KOp 4) [KImm (CInt 1); KLit (CInt 0)]) [] true
  = KApp (KOp 4) [KImm (CInt 1); KLit (CInt 0)]
  /\ fold_eval {| handler := Some 7; params := [(1, CInt 5)] |} 4 [CInt 1; CInt 0] = (None, [], {| handler := Some 7; params := [(1, CInt 5)] |}).
Proof. split; reflexivity. Qed.
