(** C09 (A): the translated 128-bit emulation helpers (Gen/C09_Luint.v, regenerated from include/chibi/bignum.h on
    every run) compute, on pairs (hi, lo) of 64-bit words, the operations of Z modulo 2^128. *)
From ChibiV Require Import C09.CSem C09.LuintLemmas Gen.C09_Luint.
Local Open Scope Z_scope.

Ltac Zify.zify_post_hook ::= Z.div_mod_to_equations.

(** SPEC side: the value of a {hi, lo} pair *)
Definition luval (p : Z * Z) : Z := fst p * M64 + snd p.
Definition u64 (x : Z) : Prop := 0 <= x < M64.
Definition s64 (x : Z) : Prop := - 9223372036854775808 <= x < 9223372036854775808.
Definition lu_ok (p : Z * Z) : Prop := u64 (fst p) /\ u64 (snd p).   (* a sexp_luint_t *)
Definition ls_ok (p : Z * Z) : Prop := s64 (fst p) /\ u64 (snd p).   (* a sexp_lsint_t: hi is int64_t *)

Lemma luval_range p : lu_ok p -> 0 <= luval p < M128.
Proof. unfold lu_ok, u64, luval. rewrite M128_M64. pose proof M64_pos. nia. Qed.

(** the 4-limb ripple adder shared by luint_add / luint_add_uint / lsint_negate *)
Lemma ripple4 a0 a1 a2 a3 b0 b1 b2 b3 :
  0 <= a0 < M32 -> 0 <= a1 < M32 -> 0 <= a2 < M32 -> 0 <= a3 < M32 ->
  0 <= b0 < M32 -> 0 <= b1 < M32 -> 0 <= b2 < M32 -> 0 <= b3 < M32 ->
  let s0 := (a0 + b0) mod M64 in
  let s1 := ((a1 + b1) mod M64 + s0 / M32) mod M64 in
  let s2 := ((a2 + b2) mod M64 + s1 / M32) mod M64 in
  let s3 := ((a3 + b3) mod M64 + s2 / M32) mod M64 in
  ((s3 mod M32) * M32 + s2 mod M32) * M64 + ((s1 mod M32) * M32 + s0 mod M32)
  = (((a3 * M32 + a2) * M64 + (a1 * M32 + a0)) + ((b3 * M32 + b2) * M64 + (b1 * M32 + b0))) mod M128
  /\ 0 <= (s3 mod M32) * M32 + s2 mod M32 < M64 /\ 0 <= (s1 mod M32) * M32 + s0 mod M32 < M64.
Proof.
  intros. subst s0 s1 s2 s3. unfold M32, M64, M128 in *. lia.
Qed.

Ltac norm32 :=
  rewrite ?land_mask32, ?shiftr32;
  rewrite ?join32 by (apply Z.mod_pos_bound; reflexivity);
  rewrite ?wrap64.

Lemma limbs64 x : 0 <= x < M64 ->
  0 <= x mod M32 < M32 /\ 0 <= x / M32 < M32 /\ x = (x / M32) * M32 + x mod M32.
Proof. unfold M32, M64. lia. Qed.

(** luint_add (bignum.h:202-233) *)
Theorem luint_add_Z a b : lu_ok a -> lu_ok b ->
  lu_ok (luint_add a b) /\ luval (luint_add a b) = (luval a + luval b) mod M128.
Proof.
  destruct a as [ah al], b as [bh bl]. unfold lu_ok, u64, luval. cbn [fst snd].
  intros [Hah Hal] [Hbh Hbl].
  unfold luint_add. cbv zeta. cbn [fst snd]. norm32.
  destruct (limbs64 _ Hah) as (A2 & A3 & EA1). destruct (limbs64 _ Hal) as (A0 & A1 & EA0).
  destruct (limbs64 _ Hbh) as (B2 & B3 & EB1). destruct (limbs64 _ Hbl) as (B0 & B1 & EB0).
  pose proof (ripple4 _ _ _ _ _ _ _ _ A0 A1 A2 A3 B0 B1 B2 B3) as R. cbv zeta in R.
  rewrite <- EA1, <- EA0, <- EB1, <- EB0 in R. destruct R as (R1 & R2 & R3).
  split; [split; assumption| exact R1].
Qed.

Lemma ripple4u a0 a1 a2 a3 b0 b1 :
  0 <= a0 < M32 -> 0 <= a1 < M32 -> 0 <= a2 < M32 -> 0 <= a3 < M32 ->
  0 <= b0 < M32 -> 0 <= b1 < M32 ->
  let s0 := (a0 + b0) mod M64 in
  let s1 := ((a1 + b1) mod M64 + s0 / M32) mod M64 in
  let s2 := (a2 + s1 / M32) mod M64 in
  let s3 := (a3 + s2 / M32) mod M64 in
  ((s3 mod M32) * M32 + s2 mod M32) * M64 + ((s1 mod M32) * M32 + s0 mod M32)
  = (((a3 * M32 + a2) * M64 + (a1 * M32 + a0)) + (b1 * M32 + b0)) mod M128
  /\ 0 <= (s3 mod M32) * M32 + s2 mod M32 < M64 /\ 0 <= (s1 mod M32) * M32 + s0 mod M32 < M64.
Proof.
  intros. subst s0 s1 s2 s3. unfold M32, M64, M128 in *. lia.
Qed.

(** luint_add_uint (bignum.h:235-264) *)
Theorem luint_add_uint_Z a b : lu_ok a -> u64 b ->
  lu_ok (luint_add_uint a b) /\ luval (luint_add_uint a b) = (luval a + b) mod M128.
Proof.
  destruct a as [ah al]. unfold lu_ok, u64, luval. cbn [fst snd].
  intros [Hah Hal] Hb.
  unfold luint_add_uint. cbv zeta. cbn [fst snd]. norm32.
  destruct (limbs64 _ Hah) as (A2 & A3 & EA1). destruct (limbs64 _ Hal) as (A0 & A1 & EA0).
  destruct (limbs64 _ Hb) as (B0 & B1 & EB0).
  pose proof (ripple4u _ _ _ _ _ _ A0 A1 A2 A3 B0 B1) as R. cbv zeta in R.
  rewrite <- EA1, <- EA0, <- EB0 in R. destruct R as (R1 & R2 & R3).
  split; [split; assumption| exact R1].
Qed.

Lemma lnot64 x : wrap 64 (Z.lnot x) = (- x - 1) mod M64.
Proof. rewrite wrap64. unfold Z.lnot, Z.pred. f_equal. Qed.

(** luint_sub (bignum.h:266-271): a + (~b + 1) *)
Theorem luint_sub_Z a b : lu_ok a -> lu_ok b ->
  lu_ok (luint_sub a b) /\ luval (luint_sub a b) = (luval a - luval b) mod M128.
Proof.
  intros Ha Hb. unfold luint_sub. cbv zeta. cbn [fst snd].
  set (nb := (wrap 64 (Z.lnot (fst b)), wrap 64 (Z.lnot (snd b)))).
  assert (lu_ok nb) as Hnb.
  { unfold nb, lu_ok, u64. cbn [fst snd]. rewrite !wrap64. split; apply Z.mod_pos_bound; reflexivity. }
  assert (luval nb = M128 - 1 - luval b) as Env.
  { destruct b as [bh bl]. destruct Hb as [Hbh Hbl]. unfold nb, luval, u64 in *. cbn [fst snd] in *. rewrite !lnot64.
    unfold M64, M128 in *. lia. }
  destruct (luint_add_uint_Z nb 1 Hnb) as [H1 E1]; [unfold u64, M64; lia|].
  destruct (luint_add_Z a _ Ha H1) as [H2 E2].
  split; [exact H2|]. rewrite E2, E1, Env.
  pose proof (luval_range _ Ha). pose proof (luval_range _ Hb). unfold M128 in *. lia.
Qed.

Definition smod128 (x : Z) : Z := (x + M128 / 2) mod M128 - M128 / 2.

Lemma ripple4n a0 a1 a2 a3 :
  0 <= a0 < M32 -> 0 <= a1 < M32 -> 0 <= a2 < M32 -> 0 <= a3 < M32 ->
  let s0 := (a0 + 1) mod M64 in
  let s1 := (a1 + s0 / M32) mod M64 in
  let s2 := (a2 + s1 / M32) mod M64 in
  let s3 := (a3 + s2 / M32) mod M64 in
  ((s3 mod M32) * M32 + s2 mod M32) * M64 + ((s1 mod M32) * M32 + s0 mod M32)
  = (((a3 * M32 + a2) * M64 + (a1 * M32 + a0)) + 1) mod M128
  /\ 0 <= (s3 mod M32) * M32 + s2 mod M32 < M64 /\ 0 <= (s1 mod M32) * M32 + s0 mod M32 < M64.
Proof.
  intros. subst s0 s1 s2 s3. unfold M32, M64, M128 in *. lia.
Qed.

(** lsint_negate (bignum.h:128-159): two's complement negation *)
Theorem lsint_negate_Z v : ls_ok v ->
  ls_ok (lsint_negate v) /\ luval (lsint_negate v) = smod128 (- luval v).
Proof.
  destruct v as [vh vl]. unfold ls_ok, s64, u64, luval, smod128. cbn [fst snd]. intros [Hvh Hvl].
  unfold lsint_negate. cbv zeta. cbn [fst snd]. rewrite !lnot64. norm32.
  assert (0 <= (- vh - 1) mod M64 < M64) as Hah by (apply Z.mod_pos_bound; reflexivity).
  assert (0 <= (- vl - 1) mod M64 < M64) as Hal by (apply Z.mod_pos_bound; reflexivity).
  destruct (limbs64 _ Hah) as (A2 & A3 & EA1). destruct (limbs64 _ Hal) as (A0 & A1 & EA0).
  pose proof (ripple4n _ _ _ _ A0 A1 A2 A3) as R. cbv zeta in R.
  rewrite <- EA1, <- EA0 in R. destruct R as (R1 & R2 & R3).
  rewrite swrap64.
  match goal with |- context [(?h + 9223372036854775808) mod M64] => set (H := h) in * end.
  match type of R3 with 0 <= ?l < _ => set (L := l) in * end.
  clearbody H L. clear A0 A1 A2 A3 EA0 EA1.
  unfold M64, M128 in *. lia.
Qed.

(** ------------------------------------------------------------------ shifts *)
Lemma pow_split s : 0 <= s <= 64 -> 2 ^ s * 2 ^ (64 - s) = M64 /\ 0 < 2 ^ s /\ 0 < 2 ^ (64 - s).
Proof.
  intros Hs. split; [|split; apply Z.pow_pos_nonneg; lia].
  rewrite <- Z.pow_add_r by lia. replace (s + (64 - s)) with 64 by lia. reflexivity.
Qed.

Lemma wrap64_small x : 0 <= x < M64 -> wrap 64 x = x.
Proof. intros. rewrite wrap64. apply Z.mod_small. assumption. Qed.

(** luint_shl (bignum.h:174-186), for the shift counts C defines: 0 <= shift < 128 *)
Theorem luint_shl_Z v s : lu_ok v -> 0 <= s < 128 ->
  lu_ok (luint_shl v s) /\ luval (luint_shl v s) = (luval v * 2 ^ s) mod M128.
Proof.
  destruct v as [vh vl]. unfold lu_ok, u64. cbn [fst snd]. intros [Hvh Hvl] Hs.
  unfold luint_shl. destruct (Z.eqb_spec s 0) as [->|Hs0].
  - cbn [fst snd]. split; [split; assumption|]. rewrite Z.pow_0_r, Z.mul_1_r.
    symmetry. apply Z.mod_small. apply (luval_range (vh, vl)). split; assumption.
  - cbv zeta. destruct (Z.geb_spec s 64) as [Hge|Hlt]; cbn [fst snd]; unfold luval; cbn [fst snd].
    + rewrite (wrap64_small (s - 64)) by (unfold M64; lia).
      rewrite Z.shiftl_mul_pow2 by lia. rewrite wrap64.
      split; [split; [apply Z.mod_pos_bound; reflexivity| unfold M64; lia]|].
      replace s with (64 + (s - 64)) at 2 by lia. rewrite Z.pow_add_r by lia.
      change (2 ^ 64) with M64. set (P := 2 ^ (s - 64)).
      replace ((vh * M64 + vl) * (M64 * P)) with ((vl * P) * M64 + (vh * P) * M128) by (rewrite M128_M64; ring).
      rewrite Z.mod_add by (unfold M128; lia).
      rewrite M128_M64, Z.mul_mod_distr_r by (unfold M64; lia). lia.
    + assert (0 < s < 64) as Hs' by lia.
      rewrite (wrap64_small (64 - s)) by (unfold M64; lia).
      rewrite !Z.shiftl_mul_pow2, Z.shiftr_div_pow2 by lia. rewrite !wrap64.
      destruct (pow_split s ltac:(lia)) as (HPQ & HP & HQ).
      set (P := 2 ^ s) in *. set (Q := 2 ^ (64 - s)) in *.
      assert (forall x, (x * P) mod M64 = (x mod Q) * P) as EM.
      { intros x. rewrite <- HPQ, (Z.mul_comm P Q), Z.mul_mod_distr_r by lia. reflexivity. }
      rewrite !EM.
      assert (Z.lor (vh mod Q * P) (vl / Q) = vh mod Q * P + vl / Q) as EL.
      { unfold P. apply lor_disjoint; [lia|]. fold P.
        split; [apply Z.div_pos; lia|]. apply Z.div_lt_upper_bound; [lia|]. rewrite Z.mul_comm. lia. }
      fold Q. rewrite !EL.
      pose proof (Z.div_mod vh Q ltac:(lia)) as Eh. pose proof (Z.mod_pos_bound vh Q HQ) as Rh.
      pose proof (Z.div_mod vl Q ltac:(lia)) as El. pose proof (Z.mod_pos_bound vl Q HQ) as Rl.
      assert (0 <= vl / Q < P) as Rql.
      { split; [apply Z.div_pos; lia|]. apply Z.div_lt_upper_bound; [lia|]. rewrite Z.mul_comm. lia. }
      set (qh := vh / Q) in *. set (rh := vh mod Q) in *. set (ql := vl / Q) in *. set (rl := vl mod Q) in *.
      clearbody qh rh ql rl.
      assert (0 <= rh * P + ql < M64) as R1 by nia.
      assert (0 <= rl * P < M64) as R2 by nia.
      split; [split; assumption|].
      apply (Z.mod_unique _ _ qh); [left; rewrite M128_M64; nia|].
      rewrite M128_M64, <- HPQ. subst vh vl. ring.
Qed.

(** luint_shr (bignum.h:188-200), 0 <= shift < 128 *)
Theorem luint_shr_Z v s : lu_ok v -> 0 <= s < 128 ->
  lu_ok (luint_shr v s) /\ luval (luint_shr v s) = luval v / 2 ^ s.
Proof.
  destruct v as [vh vl]. unfold lu_ok, u64. cbn [fst snd]. intros [Hvh Hvl] Hs.
  unfold luint_shr. destruct (Z.eqb_spec s 0) as [->|Hs0].
  - cbn [fst snd]. split; [split; assumption|]. rewrite Z.pow_0_r, Z.div_1_r. reflexivity.
  - cbv zeta. destruct (Z.geb_spec s 64) as [Hge|Hlt]; cbn [fst snd]; unfold luval; cbn [fst snd].
    + rewrite (wrap64_small (s - 64)) by (unfold M64; lia).
      rewrite Z.shiftr_div_pow2 by lia.
      assert (0 < 2 ^ (s - 64)) as HP by (apply Z.pow_pos_nonneg; lia).
      set (P := 2 ^ (s - 64)) in *.
      assert (0 <= vh / P <= vh) as Hq.
      { split; [apply Z.div_pos; lia|]. apply Z.div_le_upper_bound; [lia|]. nia. }
      split; [split; [unfold M64; lia| lia]|].
      replace s with (64 + (s - 64)) at 1 by lia. rewrite Z.pow_add_r by lia.
      change (2 ^ 64) with M64. fold P. rewrite <- Z.div_div by (unfold M64; lia).
      rewrite (Z.add_comm (vh * M64) vl), Z.div_add by (unfold M64; lia).
      rewrite (Z.div_small vl M64) by lia. rewrite Z.mul_0_l, !Z.add_0_l. reflexivity.
    + assert (0 < s < 64) as Hs' by lia.
      rewrite (wrap64_small (64 - s)) by (unfold M64; lia).
      rewrite Z.shiftl_mul_pow2, !Z.shiftr_div_pow2 by lia. rewrite wrap64.
      destruct (pow_split s ltac:(lia)) as (HPQ & HP & HQ).
      set (P := 2 ^ s) in *. set (Q := 2 ^ (64 - s)) in *.
      assert ((vh * Q) mod M64 = (vh mod P) * Q) as EM.
      { rewrite <- HPQ, Z.mul_mod_distr_r by lia. reflexivity. }
      rewrite EM.
      assert (Z.lor (vl / P) (vh mod P * Q) = vh mod P * Q + vl / P) as EL.
      { rewrite Z.lor_comm. unfold Q. apply lor_disjoint; [lia|]. fold Q.
        split; [apply Z.div_pos; lia|]. apply Z.div_lt_upper_bound; lia. }
      rewrite EL.
      pose proof (Z.div_mod vh P ltac:(lia)) as Eh. pose proof (Z.mod_pos_bound vh P HP) as Rh.
      assert (0 <= vl / P < Q) as Rql.
      { split; [apply Z.div_pos; lia|]. apply Z.div_lt_upper_bound; lia. }
      assert (0 <= vh / P <= vh) as Hq.
      { split; [apply Z.div_pos; lia|]. apply Z.div_le_upper_bound; [lia|]. nia. }
      set (qh := vh / P) in *. set (rh := vh mod P) in *. set (ql := vl / P) in *.
      assert (0 <= rh * Q + ql < M64) as R1 by nia.
      split; [split; [lia|assumption]|].
      assert (vh * M64 + vl = vl + (qh * M64 + rh * Q) * P) as ER.
      { clearbody qh rh ql. rewrite <- HPQ. rewrite Eh. ring. }
      rewrite ER, Z.div_add by lia. fold ql. ring.
Qed.

(** comparisons and bitwise and (bignum.h:161-172, 371-376) *)
Theorem luint_eq_Z a b : lu_ok a -> lu_ok b -> (luint_eq a b = 1 <-> luval a = luval b) /\ (luint_eq a b = 0 \/ luint_eq a b = 1).
Proof.
  destruct a as [ah al], b as [bh bl]. unfold lu_ok, u64, luval, luint_eq. cbn [fst snd]. intros [? ?] [? ?].
  destruct (Z.eqb_spec ah bh), (Z.eqb_spec al bl); cbn [andb]; unfold M64 in *; split; try lia; split; intros; try lia.
Qed.

Theorem luint_lt_Z a b : lu_ok a -> lu_ok b -> (luint_lt a b = 1 <-> luval a < luval b) /\ (luint_lt a b = 0 \/ luint_lt a b = 1).
Proof.
  destruct a as [ah al], b as [bh bl]. unfold lu_ok, u64, luval, luint_lt. cbn [fst snd]. intros [? ?] [? ?].
  destruct (Z.ltb_spec ah bh); [unfold M64 in *; split; [split; intros; lia|lia]|].
  destruct (Z.gtb_spec ah bh); [unfold M64 in *; split; [split; intros; lia|lia]|].
  destruct (Z.ltb_spec al bl); unfold M64 in *; split; try lia; split; intros; lia.
Qed.

Theorem luint_and_Z a b : lu_ok a -> lu_ok b ->
  lu_ok (luint_and a b) /\ luval (luint_and a b) = Z.land (luval a) (luval b).
Proof.
  destruct a as [ah al], b as [bh bl]. unfold lu_ok, u64, luval, luint_and. cbv zeta. cbn [fst snd]. intros [Hah Hal] [Hbh Hbl].
  assert (forall x y, 0 <= x < M64 -> 0 <= y < M64 -> 0 <= Z.land x y < M64) as HL.
  { intros x y Hx Hy. split; [apply Z.land_nonneg; lia|].
    destruct (Z.eq_dec (Z.land x y) 0) as [->|Hz]; [reflexivity|].
    assert (0 <= Z.land x y) as Hnn by (apply Z.land_nonneg; lia).
    rewrite M64_eq. apply Z.log2_lt_pow2; [lia|].
    eapply Z.le_lt_trans; [apply Z.log2_land; lia|].
    destruct (Z.eq_dec x 0) as [->|Hx0]; [rewrite Z.land_0_l in Hz; congruence|].
    apply Z.min_lt_iff. left. apply Z.log2_lt_pow2; [lia|]. rewrite <- M64_eq. lia. }
  split; [split; apply HL; assumption|].
  apply Z.bits_inj'. intros i Hi.
  rewrite Z.land_spec.
  assert (forall h l, 0 <= l < M64 -> Z.testbit (h * M64 + l) i = if i <? 64 then Z.testbit l i else Z.testbit h (i - 64)) as HT.
  { intros h l Hl. rewrite M64_eq. destruct (Z.ltb_spec i 64).
    - rewrite <- (Z.mod_pow2_bits_low _ 64) by lia. rewrite Z.add_comm, Z.mod_add by lia.
      rewrite Z.mod_small by (rewrite <- M64_eq; lia). reflexivity.
    - replace i with ((i - 64) + 64) at 1 by lia.
      rewrite <- (Z.div_pow2_bits _ 64) by lia. rewrite Z.add_comm, Z.div_add by lia.
      rewrite Z.div_small by (rewrite <- M64_eq; lia). rewrite Z.add_0_l. reflexivity. }
  rewrite !HT by (try assumption; apply HL; assumption).
  destruct (i <? 64); rewrite Z.land_spec; reflexivity.
Qed.

(** lsint_is_fixnum / luint_is_fixnum (bignum.h:378-390): SEXP_MIN_FIXNUM = -2^62 <= x <= SEXP_MAX_FIXNUM = 2^62-1 *)
Theorem lsint_is_fixnum_Z x : ls_ok x ->
  lsint_is_fixnum x = if (- 4611686018427387904 <=? luval x) && (luval x <=? 4611686018427387903) then 1 else 0.
Proof.
  destruct x as [xh xl]. unfold ls_ok, s64, u64, luval, lsint_is_fixnum. cbn [fst snd]. intros [Hh Hl].
  unfold M64 in *.
  destruct (Z.gtb_spec xh 0).
  { destruct (Z.leb_spec (-4611686018427387904) (xh * 18446744073709551616 + xl)), (Z.leb_spec (xh * 18446744073709551616 + xl) 4611686018427387903); cbn [andb]; lia. }
  destruct (Z.eqb_spec xh 0) as [->|].
  { destruct (Z.leb_spec xl 4611686018427387903), (Z.leb_spec (-4611686018427387904) (0 * 18446744073709551616 + xl)), (Z.leb_spec (0 * 18446744073709551616 + xl) 4611686018427387903); cbn [andb]; lia. }
  destruct (Z.eqb_spec xh (-1)) as [->|].
  { destruct (Z.leb_spec 13835058055282163712 xl), (Z.leb_spec (-4611686018427387904) (-1 * 18446744073709551616 + xl)), (Z.leb_spec (-1 * 18446744073709551616 + xl) 4611686018427387903); cbn [andb]; lia. }
  destruct (Z.leb_spec (-4611686018427387904) (xh * 18446744073709551616 + xl)), (Z.leb_spec (xh * 18446744073709551616 + xl) 4611686018427387903); cbn [andb]; lia.
Qed.

Theorem luint_is_fixnum_Z x : lu_ok x ->
  luint_is_fixnum x = if luval x <=? 4611686018427387903 then 1 else 0.
Proof.
  destruct x as [xh xl]. unfold lu_ok, u64, luval, luint_is_fixnum. cbn [fst snd]. intros [Hh Hl]. unfold M64 in *.
  destruct (Z.eqb_spec xh 0) as [E|E], (Z.leb_spec xl 4611686018427387903), (Z.leb_spec (xh * 18446744073709551616 + xl) 4611686018427387903); cbn [andb]; lia.
Qed.

(** ------------------------------------------------------------------ defined behaviour (generated [_safe] functions):
    on the stated argument ranges no shift count leaves [0, 64) and no signed operation overflows *)
Theorem luint_shl_defined v s : 0 <= s < 128 -> luint_shl_safe v s = true.
Proof.
  intros Hs. unfold luint_shl_safe. destruct (Z.eqb_spec s 0); [reflexivity|]. cbv zeta.
  destruct (Z.geb_spec s 64).
  - rewrite (wrap64_small (s - 64)) by (unfold M64; lia). lia.
  - rewrite (wrap64_small (64 - s)) by (unfold M64; lia). lia.
Qed.

Theorem luint_shr_defined v s : 0 <= s < 128 -> luint_shr_safe v s = true.
Proof.
  intros Hs. unfold luint_shr_safe. destruct (Z.eqb_spec s 0); [reflexivity|]. cbv zeta.
  destruct (Z.geb_spec s 64).
  - rewrite (wrap64_small (s - 64)) by (unfold M64; lia). lia.
  - rewrite (wrap64_small (64 - s)) by (unfold M64; lia). lia.
Qed.

Theorem carry_helpers_defined a b w v :
  luint_add_safe a b = true /\ luint_add_uint_safe a w = true /\ luint_sub_safe a b = true /\ lsint_negate_safe v = true
  /\ luint_eq_safe a b = true /\ luint_lt_safe a b = true /\ luint_and_safe a b = true
  /\ lsint_is_fixnum_safe v = true /\ luint_is_fixnum_safe a = true.
Proof. repeat split. Qed.

(** ------------------------------------------------------------------ multiplication *)
(** one half of luint_mul_uint (bignum.h:283-301 / 302-320): a (four 32-bit limbs) times a 32-bit half of b *)
Lemma mul_block a0 a1 a2 a3 bx :
  0 <= a0 < M32 -> 0 <= a1 < M32 -> 0 <= a2 < M32 -> 0 <= a3 < M32 -> 0 <= bx < M32 ->
  let R := luint_add (luint_add (luint_add (0, wrap 64 (a0 * bx))
                                           (Z.shiftr (wrap 64 (a1 * bx)) 32, wrap 64 (Z.shiftl (wrap 64 (a1 * bx)) 32)))
                                (wrap 64 (a2 * bx), 0))
                     (wrap 64 (Z.shiftl (wrap 64 (a3 * bx)) 32), 0) in
  lu_ok R /\ luval R = (((a3 * M32 + a2) * M64 + (a1 * M32 + a0)) * bx) mod M128.
Proof.
  intros H0 H1 H2 H3 Hb R.
  assert (forall x, 0 <= x < M32 -> 0 <= x * bx < M64) as Hp by (intros; rewrite M64_M32; nia).
  pose proof (Hp _ H0) as P0. pose proof (Hp _ H1) as P1. pose proof (Hp _ H2) as P2. pose proof (Hp _ H3) as P3.
  set (p0 := a0 * bx) in *. set (p1 := a1 * bx) in *. set (p2 := a2 * bx) in *. set (p3 := a3 * bx) in *.
  assert (lu_ok (0, wrap 64 p0) /\ luval (0, wrap 64 p0) = p0) as [K0 V0].
  { unfold lu_ok, u64, luval. cbn [fst snd]. rewrite wrap64_small by assumption. unfold M64 in *. lia. }
  assert (lu_ok (Z.shiftr (wrap 64 p1) 32, wrap 64 (Z.shiftl (wrap 64 p1) 32))
          /\ luval (Z.shiftr (wrap 64 p1) 32, wrap 64 (Z.shiftl (wrap 64 p1) 32)) = p1 * M32) as [K1 V1].
  { unfold lu_ok, u64, luval. cbn [fst snd]. rewrite (wrap64_small p1) by assumption. rewrite shiftr32, shiftl32, wrap64.
    unfold M32, M64 in *. lia. }
  assert (lu_ok (wrap 64 p2, 0) /\ luval (wrap 64 p2, 0) = p2 * M64) as [K2 V2].
  { unfold lu_ok, u64, luval. cbn [fst snd]. rewrite wrap64_small by assumption. unfold M64 in *. lia. }
  assert (lu_ok (wrap 64 (Z.shiftl (wrap 64 p3) 32), 0)
          /\ luval (wrap 64 (Z.shiftl (wrap 64 p3) 32), 0) mod M128 = (p3 * M32 * M64) mod M128) as [K3 V3].
  { unfold lu_ok, u64, luval. cbn [fst snd]. rewrite (wrap64_small p3) by assumption. rewrite shiftl32, wrap64.
    unfold M32, M64, M128 in *. lia. }
  destruct (luint_add_Z _ _ K0 K1) as [K01 V01]. destruct (luint_add_Z _ _ K01 K2) as [K012 V012].
  destruct (luint_add_Z _ _ K012 K3) as [K0123 V0123].
  split; [exact K0123|]. subst R. rewrite V0123, V012, V01, V0, V1, V2.
  rewrite Zplus_mod_idemp_l, <- Z.add_assoc, Zplus_mod_idemp_l, Z.add_assoc.
  rewrite <- Zplus_mod_idemp_r, V3, Zplus_mod_idemp_r.
  f_equal. subst p0 p1 p2 p3. ring.
Qed.

(** luint_mul_uint (bignum.h:273-325) *)
Theorem luint_mul_uint_Z a b : lu_ok a -> u64 b ->
  lu_ok (luint_mul_uint a b) /\ luval (luint_mul_uint a b) = (luval a * b) mod M128 /\ luint_mul_uint_safe a b = true.
Proof.
  destruct a as [ah al]. unfold lu_ok, u64. cbn [fst snd]. intros [Hah Hal] Hb.
  split; [|split].
  3:{ unfold luint_mul_uint_safe. cbv zeta. apply luint_shl_defined. lia. }
  all: unfold luint_mul_uint; cbv zeta; cbn [fst snd]; rewrite !land_mask32, !shiftr32.
  all: destruct (limbs64 _ Hah) as (A2 & A3 & EA1); destruct (limbs64 _ Hal) as (A0 & A1 & EA0);
    destruct (limbs64 _ Hb) as (B0 & B1 & EB0).
  all: pose proof (mul_block _ _ _ _ _ A0 A1 A2 A3 B0) as HL; pose proof (mul_block _ _ _ _ _ A0 A1 A2 A3 B1) as HH;
    cbv zeta in HL, HH; rewrite ?shiftr32 in HL, HH; destruct HL as [KL VL]; destruct HH as [KH VH].
  all: match type of KL with lu_ok ?t => set (X := t) in * end; match type of KH with lu_ok ?t => set (Y := t) in * end.
  all: destruct (luint_shl_Z Y 32 KH ltac:(lia)) as [KS VS]; destruct (luint_add_Z _ _ KL KS) as [KR VR].
  - exact KR.
  - rewrite VR, VS, VL, VH. change (2 ^ 32) with M32. unfold luval. cbn [fst snd].
    rewrite <- EA1, <- EA0.
    rewrite Zmult_mod_idemp_l, Zplus_mod_idemp_l, Zplus_mod_idemp_r. f_equal.
    rewrite EB0 at 3. ring.
Qed.
