(** C09 (B), round 3: proofs about the exact-order pass [Simplify2.simpN] and its kinded twin [Kinded2.ksimpN].
    (a) erase_ksimpN: the kind-exact exact-order model refines the plain exact-order model;
    (b) ksimpN_dyn_independent: nothing of the dynamic state is observable;
    (c) simpN_no_tower: where no application has an `if` or a `begin` in operator position, simpN IS simplify;
    (d) examples: the second pass really happens. *)
From ChibiV Require Import C09.Ast C09.Simplify C09.Simplify2 C09.Kinded C09.Kinded2 C09.KindedProofs.
Local Open Scope Z_scope.

(** ------------------------------------------------------------------ (d) the second pass really happens *)
Definition ex_tower : expr :=
  Lam 1 [] false []
    (App (Cnd (Lit (CBool true))
              (Lam 2 [10; 11] false [] (App (Op 0) [Ref 10 2; Ref 11 2; Lit (CInt 1)]))
              (Lit (CInt 0)))
         [Lit (CInt 5); Ref 12 0]).

Example ex_tower_simpN1 :
  simpN 1 ex_tower [] false
  = Lam 1 [] false [] (App (Lam 2 [11] false [] (App (Op 0) [Lit (CInt 5); Ref 11 2; Lit (CInt 1)])) [Ref 12 0]).
Proof. vm_compute. reflexivity. Qed.

Example ex_tower_simplify :
  simplify ex_tower [] false
  = Lam 1 [] false [] (App (Lam 2 [10; 11] false [] (App (Op 0) [Ref 10 2; Ref 11 2; Lit (CInt 1)])) [Lit (CInt 5); Ref 12 0]).
Proof. vm_compute. reflexivity. Qed.

Example ex_tower_differs : simpN 1 ex_tower [] false <> simplify ex_tower [] false.
Proof. rewrite ex_tower_simpN1, ex_tower_simplify. intros Heq. discriminate Heq. Qed.

Example ex_tower_stable : simpN 1 ex_tower [] false = simpN 2 ex_tower [] false.
Proof. vm_compute. reflexivity. Qed.

(** ------------------------------------------------------------------ one unfolding step of [simpN (S k)] *)
Definition is_lam (e : expr) : bool := match e with Lam _ _ _ _ _ => true | _ => false end.

(** the let handling of simplify.c:61-100 with [go] for the body *)
Definition let_app (go : expr -> list subst -> bool -> expr) (id : Z) (ps : list Z) (rest : bool) (sv : list Z)
           (body : expr) (args' : list expr) (S : list subst) : expr :=
  if Nat.eqb (proper_len ps rest) (length args') then
    let '(ps2, args2, S2) := let_subst id sv ps args' S in
    App (Lam id ps2 rest sv (go body S2 true)) args2
  else App (Lam id ps rest sv (go body S true)) args'.

(** the body of the inner [fix] of [simpN (S k)], with the recursive call [go] and the lower level [low] as parameters *)
Definition step (low go : expr -> list subst -> bool -> expr) (e : expr) (S : list subst) (inlam : bool) : expr :=
  match e with
  | App f args =>
      let f' := match f with Lam _ _ _ _ _ => f | _ => go f S inlam end in
      let args' := map (fun a => go a S inlam) args in
      match f with
      | Lam id ps rest sv body =>
          if inlam then
            if Nat.eqb (proper_len ps rest) (length args') then
              let '(ps2, args2, S2) := let_subst id sv ps args' S in
              App (Lam id ps2 rest sv (go body S2 true)) args2
            else App (Lam id ps rest sv (go body S true)) args'
          else App f' args'
      | _ =>
          match f' with
          | Op o =>
              if is_arith o then
                match all_simple args' with
                | Some cs => match prim_eval o cs with Some r => Lit r | None => App f' args' end
                | None => App f' args'
                end
              else App f' args'
          | Lam id ps rest sv body1 =>
              if inlam then
                if Nat.eqb (proper_len ps rest) (length args') then
                  let '(ps2, args2, S2) := let_subst id sv ps args' S in
                  App (Lam id ps2 rest sv (low body1 S2 true)) args2
                else App (Lam id ps rest sv (low body1 S true)) args'
              else App f' args'
          | _ => App f' args'
          end
      end
  | Lam id ps rest sv body => Lam id ps rest sv (go body S true)
  | Cnd t a b =>
      let t' := go t S inlam in
      match simple t' with
      | Some c => if const_false c then go b S inlam else go a S inlam
      | None => Cnd t' (go a S inlam) (go b S inlam)
      end
  | Ref x loc => match lookup_subst x loc S with Some c => Lit c | None => e end
  | SetE x loc v => SetE x loc (go v S inlam)
  | Seq es =>
      match seq_filter (map (fun a => go a S inlam) es) with
      | [x] => x
      | es' => Seq es'
      end
  | Lit _ | Obj _ | Op _ => e
  end.

(** [simpN (S k)] as a top-level fixpoint whose body is literally [step]: the one conversion that looks inside the
    nested fixpoint is [simpN_S_eq]; every later unfolding is a comparison of two applications of [step] *)
Section SimpS.
  Variable low : expr -> list subst -> bool -> expr.
  Fixpoint simpS (e : expr) (S : list subst) (il : bool) {struct e} : expr := step low simpS e S il.
End SimpS.

Lemma simpN_S_eq k : simpN (Datatypes.S k) = simpS (simpN k).
Proof. reflexivity. Qed.

Lemma simpS_unfold low e S il : simpS low e S il = step low (simpS low) e S il.
Proof. destruct e; reflexivity. Qed.

Lemma simpN_S_unfold k e S il : simpN (Datatypes.S k) e S il = step (simpN k) (simpN (Datatypes.S k)) e S il.
Proof. rewrite simpN_S_eq. apply simpS_unfold. Qed.

(** the same for [simplify] *)
Definition sstep (go : expr -> list subst -> bool -> expr) (e : expr) (S : list subst) (inlam : bool) : expr :=
  match e with
  | App f args =>
      let f' := match f with Lam _ _ _ _ _ => f | _ => go f S inlam end in
      let args' := map (fun a => go a S inlam) args in
      match f with
      | Lam id ps rest sv body =>
          if inlam then
            if Nat.eqb (proper_len ps rest) (length args') then
              let '(ps2, args2, S2) := let_subst id sv ps args' S in
              App (Lam id ps2 rest sv (go body S2 true)) args2
            else App (Lam id ps rest sv (go body S true)) args'
          else App f' args'
      | _ =>
          match f' with
          | Op o =>
              if is_arith o then
                match all_simple args' with
                | Some cs => match prim_eval o cs with Some r => Lit r | None => App f' args' end
                | None => App f' args'
                end
              else App f' args'
          | _ => App f' args'
          end
      end
  | Lam id ps rest sv body => Lam id ps rest sv (go body S true)
  | Cnd t a b =>
      let t' := go t S inlam in
      match simple t' with
      | Some c => if const_false c then go b S inlam else go a S inlam
      | None => Cnd t' (go a S inlam) (go b S inlam)
      end
  | Ref x loc => match lookup_subst x loc S with Some c => Lit c | None => e end
  | SetE x loc v => SetE x loc (go v S inlam)
  | Seq es =>
      match seq_filter (map (fun a => go a S inlam) es) with
      | [x] => x
      | es' => Seq es'
      end
  | Lit _ | Obj _ | Op _ => e
  end.

Fixpoint simplifyS (e : expr) (S : list subst) (il : bool) {struct e} : expr := sstep simplifyS e S il.

Lemma simplify_eq : simplify = simplifyS.
Proof. reflexivity. Qed.

Lemma simplifyS_unfold e S il : simplifyS e S il = sstep simplifyS e S il.
Proof. destruct e; reflexivity. Qed.

Lemma simplify_unfold e S il : simplify e S il = sstep simplify e S il.
Proof. rewrite simplify_eq. apply simplifyS_unfold. Qed.

Strategy opaque [prim_eval fold_eval is_arith all_simple kall_simple].

(** what level k+1 does with the SIMPLIFIED operator f' of an application whose operator is not a lambda
    ([low] = the level below) *)
Definition app2g (low : expr -> list subst -> bool -> expr) (f' : expr) (args' : list expr) (S : list subst) (il : bool) : expr :=
  match f' with
  | Op o =>
      if is_arith o then
        match all_simple args' with
        | Some cs => match prim_eval o cs with Some r => Lit r | None => App f' args' end
        | None => App f' args'
        end
      else App f' args'
  | Lam id ps rest sv body1 => if il then let_app low id ps rest sv body1 args' S else App f' args'
  | _ => App f' args'
  end.

Definition app2 (k : nat) : expr -> list expr -> list subst -> bool -> expr := app2g (simpN k).

Lemma step_app_nonlam low go f args S il : is_lam f = false ->
  step low go (App f args) S il = app2g low (go f S il) (map (fun a => go a S il) args) S il.
Proof. destruct f; intros Hf; try discriminate Hf; reflexivity. Qed.

Lemma step_app_lam low go id ps rest sv body args S il :
  step low go (App (Lam id ps rest sv body) args) S il =
  if il then let_app go id ps rest sv body (map (fun a => go a S il) args) S
  else App (Lam id ps rest sv body) (map (fun a => go a S il) args).
Proof. reflexivity. Qed.

Lemma sstep_app_nonlam go f args S il : is_lam f = false ->
  sstep go (App f args) S il = fold_app (go f S il) (map (fun a => go a S il) args).
Proof. destruct f; intros Hf; try discriminate Hf; reflexivity. Qed.

Lemma sstep_app_lam go id ps rest sv body args S il :
  sstep go (App (Lam id ps rest sv body) args) S il =
  if il then let_app go id ps rest sv body (map (fun a => go a S il) args) S
  else App (Lam id ps rest sv body) (map (fun a => go a S il) args).
Proof. reflexivity. Qed.

Lemma simpN_S_ref k x l S il :
  simpN (Datatypes.S k) (Ref x l) S il = match lookup_subst x l S with Some c => Lit c | None => Ref x l end.
Proof. rewrite simpN_S_unfold. reflexivity. Qed.

Lemma simpN_S_set k x l v S il : simpN (Datatypes.S k) (SetE x l v) S il = SetE x l (simpN (Datatypes.S k) v S il).
Proof. rewrite simpN_S_unfold. reflexivity. Qed.

Lemma simpN_S_cnd k t a b S il :
  simpN (Datatypes.S k) (Cnd t a b) S il =
  match simple (simpN (Datatypes.S k) t S il) with
  | Some c => if const_false c then simpN (Datatypes.S k) b S il else simpN (Datatypes.S k) a S il
  | None => Cnd (simpN (Datatypes.S k) t S il) (simpN (Datatypes.S k) a S il) (simpN (Datatypes.S k) b S il)
  end.
Proof. rewrite simpN_S_unfold. reflexivity. Qed.

Lemma simpN_S_seq k es S il :
  simpN (Datatypes.S k) (Seq es) S il =
  match seq_filter (map (fun a => simpN (Datatypes.S k) a S il) es) with
  | [x] => x
  | es' => Seq es'
  end.
Proof. rewrite simpN_S_unfold. reflexivity. Qed.

Lemma simpN_S_lam k id ps rest sv body S il :
  simpN (Datatypes.S k) (Lam id ps rest sv body) S il = Lam id ps rest sv (simpN (Datatypes.S k) body S true).
Proof. rewrite simpN_S_unfold. reflexivity. Qed.

Lemma simpN_S_app_lam k id ps rest sv body args S il :
  simpN (Datatypes.S k) (App (Lam id ps rest sv body) args) S il =
  if il then let_app (simpN (Datatypes.S k)) id ps rest sv body (map (fun a => simpN (Datatypes.S k) a S il) args) S
  else App (Lam id ps rest sv body) (map (fun a => simpN (Datatypes.S k) a S il) args).
Proof. rewrite simpN_S_unfold. apply step_app_lam. Qed.

Lemma simpN_S_app_nonlam k f args S il : is_lam f = false ->
  simpN (Datatypes.S k) (App f args) S il =
  app2 k (simpN (Datatypes.S k) f S il) (map (fun a => simpN (Datatypes.S k) a S il) args) S il.
Proof. intros Hf. rewrite simpN_S_unfold. exact (step_app_nonlam (simpN k) (simpN (Datatypes.S k)) f args S il Hf). Qed.

Lemma simplify_app_lam id ps rest sv body args S il :
  simplify (App (Lam id ps rest sv body) args) S il =
  if il then let_app simplify id ps rest sv body (map (fun a => simplify a S il) args) S
  else App (Lam id ps rest sv body) (map (fun a => simplify a S il) args).
Proof. rewrite simplify_unfold. apply sstep_app_lam. Qed.

Lemma simplify_app_nonlam' f args S il : is_lam f = false ->
  simplify (App f args) S il = fold_app (simplify f S il) (map (fun a => simplify a S il) args).
Proof. intros Hf. rewrite simplify_unfold. exact (sstep_app_nonlam simplify f args S il Hf). Qed.

Lemma app2g_nonlam low f' args' S il : is_lam f' = false -> app2g low f' args' S il = fold_app f' args'.
Proof. destruct f'; intros Hf; try discriminate Hf; reflexivity. Qed.

Strategy transparent [prim_eval fold_eval is_arith all_simple kall_simple].

(** ------------------------------------------------------------------ (c) without towers, [simpN] is [simplify] *)
Fixpoint no_tower (e : expr) : bool :=
  match e with
  | SetE _ _ v => no_tower v
  | Cnd t a b => no_tower t && no_tower a && no_tower b
  | Seq es => forallb no_tower es
  | Lam _ _ _ _ body => no_tower body
  | App f args => match f with Cnd _ _ _ | Seq _ => false | _ => true end && no_tower f && forallb no_tower args
  | _ => true
  end.

Lemma fold_app_not_lam f' args' : is_lam (fold_app f' args') = false.
Proof.
  destruct f'; try reflexivity.
  cbn [fold_app]. destruct (is_arith o); [|reflexivity].
  destruct (all_simple args') as [cs|]; [|reflexivity].
  destruct (prim_eval o cs); reflexivity.
Qed.

(** an operator that is neither an `if`, a `begin` nor a lambda never simplifies to a lambda *)
Lemma simplify_not_lam f S il :
  match f with Cnd _ _ _ | Seq _ | Lam _ _ _ _ _ => false | _ => true end = true -> is_lam (simplify f S il) = false.
Proof.
  destruct f as [c|c|x l|x l v|t a b|es|id ps rest sv body|g args|o]; intros Hf; try discriminate Hf; try reflexivity.
  - (* Ref *) cbn [simplify]. destruct (lookup_subst x l S); reflexivity.
  - (* App *) destruct (is_lam g) eqn:EL.
    + destruct g as [| | | | | |id ps rest sv body| |]; try discriminate EL.
      rewrite simplify_app_lam. destruct il; [|reflexivity].
      unfold let_app. destruct (Nat.eqb (proper_len ps rest) (length (map (fun a => simplify a S true) args))); [|reflexivity].
      destruct (let_subst id sv ps (map (fun a => simplify a S true) args) S) as [[ps2 args2] S2]. reflexivity.
    + rewrite (simplify_app_nonlam' g args S il EL). apply fold_app_not_lam.
Qed.

Lemma map_no_tower (F G : expr -> expr) es :
  Forall (fun e => no_tower e = true -> F e = G e) es -> forallb no_tower es = true -> map F es = map G es.
Proof.
  intros HF. induction HF as [|e r He _ IH]; intros Hnt; [reflexivity|].
  cbn [forallb] in Hnt. apply andb_true_iff in Hnt. destruct Hnt as [Hnt1 Hnt2].
  cbn [map]. rewrite (He Hnt1), (IH Hnt2). reflexivity.
Qed.

Lemma simpN_no_tower_aux n : forall e, no_tower e = true -> forall S il, simpN n e S il = simplify e S il.
Proof.
  induction n as [|k IHk]; [reflexivity|].
  induction e as [c|c|x l|x l v IHv|t a b IHt IHa IHb|es IHes|id ps rest sv body IHbody|f args IHf IHargs|o] using expr_ind2;
    intros Hnt S il.
  - reflexivity.
  - reflexivity.
  - rewrite simpN_S_ref. reflexivity.
  - cbn [no_tower] in Hnt. rewrite simpN_S_set, (IHv Hnt S il). reflexivity.
  - cbn [no_tower] in Hnt. apply andb_true_iff in Hnt. destruct Hnt as [Hnt Hb].
    apply andb_true_iff in Hnt. destruct Hnt as [Ht Ha].
    rewrite simpN_S_cnd, (IHt Ht S il), (IHa Ha S il), (IHb Hb S il). reflexivity.
  - cbn [no_tower] in Hnt. rewrite simpN_S_seq.
    assert (map (fun a => simpN (Datatypes.S k) a S il) es = map (fun a => simplify a S il) es) as Hm.
    { apply map_no_tower; [|exact Hnt]. apply Forall_impl with (2 := IHes). intros a Ha Hna. exact (Ha Hna S il). }
    rewrite Hm. reflexivity.
  - cbn [no_tower] in Hnt. rewrite simpN_S_lam, (IHbody Hnt S true). reflexivity.
  - cbn [no_tower] in Hnt. apply andb_true_iff in Hnt. destruct Hnt as [Hnt Hargs].
    apply andb_true_iff in Hnt. destruct Hnt as [Hshape Hf].
    assert (map (fun a => simpN (Datatypes.S k) a S il) args = map (fun a => simplify a S il) args) as Hm.
    { apply map_no_tower; [|exact Hargs]. apply Forall_impl with (2 := IHargs). intros a Ha Hna. exact (Ha Hna S il). }
    destruct (is_lam f) eqn:EL.
    + destruct f as [| | | | | |id ps rest sv body| |]; try discriminate EL. clear EL Hshape.
      assert (forall S', simpN (Datatypes.S k) body S' true = simplify body S' true) as Hb.
      { intros S'. specialize (IHf Hf S' true). rewrite simpN_S_lam in IHf. cbn [simplify] in IHf.
        injection IHf as IHf. exact IHf. }
      rewrite simpN_S_app_lam, simplify_app_lam, Hm. destruct il; [|reflexivity].
      unfold let_app. destruct (Nat.eqb (proper_len ps rest) (length (map (fun a => simplify a S true) args))).
      * destruct (let_subst id sv ps (map (fun a => simplify a S true) args) S) as [[ps2 args2] S2].
        rewrite Hb. reflexivity.
      * rewrite Hb. reflexivity.
    + rewrite (simpN_S_app_nonlam k f args S il EL), (simplify_app_nonlam' f args S il EL), Hm, (IHf Hf S il).
      apply app2g_nonlam. apply simplify_not_lam.
      destruct f; try discriminate EL; try discriminate Hshape; reflexivity.
  - reflexivity.
Qed.

Theorem simpN_no_tower : forall n e S il, no_tower e = true -> simpN n e S il = simplify e S il.
Proof. intros n e S il Hnt. exact (simpN_no_tower_aux n e Hnt S il). Qed.

(** ------------------------------------------------------------------ one unfolding step of [ksimpN (S k)] *)
Definition klet_app (go : kexpr -> list ksubst -> bool -> kexpr) (id : Z) (ps : list Z) (rest : bool) (sv : list Z)
           (body : kexpr) (args' : list kexpr) (S : list ksubst) : kexpr :=
  if Nat.eqb (proper_len ps rest) (length args') then
    let '(ps2, args2, S2) := klet_subst id sv ps args' S in
    KApp (KLam id ps2 rest sv (go body S2 true)) args2
  else KApp (KLam id ps rest sv (go body S true)) args'.

(** the body of the inner [fix] of [ksimpN (S k) d] *)
Definition kstep (d : dyn) (low go : kexpr -> list ksubst -> bool -> kexpr) (e : kexpr) (S : list ksubst) (inlam : bool) : kexpr :=
  match e with
  | KApp f args =>
      let f' := match f with KLam _ _ _ _ _ => f | _ => go f S inlam end in
      let args' := map (fun a => go a S inlam) args in
      match f with
      | KLam id ps rest sv body =>
          if inlam then
            if Nat.eqb (proper_len ps rest) (length args') then
              let '(ps2, args2, S2) := klet_subst id sv ps args' S in
              KApp (KLam id ps2 rest sv (go body S2 true)) args2
            else KApp (KLam id ps rest sv (go body S true)) args'
          else KApp f' args'
      | _ =>
          match f' with
          | KLam id ps rest sv body1 =>
              if inlam then
                if Nat.eqb (proper_len ps rest) (length args') then
                  let '(ps2, args2, S2) := klet_subst id sv ps args' S in
                  KApp (KLam id ps2 rest sv (low body1 S2 true)) args2
                else KApp (KLam id ps rest sv (low body1 S true)) args'
              else KApp f' args'
          | _ => kfold_app d f' args'
          end
      end
  | KLam id ps rest sv body => KLam id ps rest sv (go body S true)
  | KCnd t a b =>
      let t' := go t S inlam in
      match ksimple t' with
      | Some k => if const_false (snd k) then go b S inlam else go a S inlam
      | None => KCnd t' (go a S inlam) (go b S inlam)
      end
  | KRef x loc => match klookup_subst x loc S with Some k => klit_expr k | None => e end
  | KSet x loc v => KSet x loc (go v S inlam)
  | KSeq es =>
      match kseq_filter (map (fun a => go a S inlam) es) with
      | [x] => x
      | es' => KSeq es'
      end
  | KImm _ | KLit _ | KObj _ | KOp _ => e
  end.

Section KSimpS.
  Variable d : dyn.
  Variable low : kexpr -> list ksubst -> bool -> kexpr.
  Fixpoint ksimpS (e : kexpr) (S : list ksubst) (il : bool) {struct e} : kexpr := kstep d low ksimpS e S il.
End KSimpS.

Lemma ksimpN_S_eq k d : ksimpN (Datatypes.S k) d = ksimpS d (ksimpN k d).
Proof. reflexivity. Qed.

Lemma ksimpS_unfold d low e S il : ksimpS d low e S il = kstep d low (ksimpS d low) e S il.
Proof. destruct e; reflexivity. Qed.

Lemma ksimpN_S_unfold k d e S il :
  ksimpN (Datatypes.S k) d e S il = kstep d (ksimpN k d) (ksimpN (Datatypes.S k) d) e S il.
Proof. rewrite ksimpN_S_eq. apply ksimpS_unfold. Qed.

Strategy opaque [prim_eval fold_eval is_arith all_simple kall_simple].

Definition kapp2g (d : dyn) (low : kexpr -> list ksubst -> bool -> kexpr) (f' : kexpr) (args' : list kexpr)
           (S : list ksubst) (il : bool) : kexpr :=
  match f' with
  | KLam id ps rest sv body1 => if il then klet_app low id ps rest sv body1 args' S else KApp f' args'
  | _ => kfold_app d f' args'
  end.

Lemma kstep_app_nonlam d low go f args S il : is_klam f = false ->
  kstep d low go (KApp f args) S il = kapp2g d low (go f S il) (map (fun a => go a S il) args) S il.
Proof. destruct f; intros Hf; try discriminate Hf; reflexivity. Qed.

Lemma kstep_app_lam d low go id ps rest sv body args S il :
  kstep d low go (KApp (KLam id ps rest sv body) args) S il =
  if il then klet_app go id ps rest sv body (map (fun a => go a S il) args) S
  else KApp (KLam id ps rest sv body) (map (fun a => go a S il) args).
Proof. reflexivity. Qed.

Lemma ksimpN_S_ref k d x l S il :
  ksimpN (Datatypes.S k) d (KRef x l) S il = match klookup_subst x l S with Some c => klit_expr c | None => KRef x l end.
Proof. rewrite ksimpN_S_unfold. reflexivity. Qed.

Lemma ksimpN_S_set k d x l v S il :
  ksimpN (Datatypes.S k) d (KSet x l v) S il = KSet x l (ksimpN (Datatypes.S k) d v S il).
Proof. rewrite ksimpN_S_unfold. reflexivity. Qed.

Lemma ksimpN_S_cnd k d t a b S il :
  ksimpN (Datatypes.S k) d (KCnd t a b) S il =
  match ksimple (ksimpN (Datatypes.S k) d t S il) with
  | Some c => if const_false (snd c) then ksimpN (Datatypes.S k) d b S il else ksimpN (Datatypes.S k) d a S il
  | None => KCnd (ksimpN (Datatypes.S k) d t S il) (ksimpN (Datatypes.S k) d a S il) (ksimpN (Datatypes.S k) d b S il)
  end.
Proof. rewrite ksimpN_S_unfold. reflexivity. Qed.

Lemma ksimpN_S_seq k d es S il :
  ksimpN (Datatypes.S k) d (KSeq es) S il =
  match kseq_filter (map (fun a => ksimpN (Datatypes.S k) d a S il) es) with
  | [x] => x
  | es' => KSeq es'
  end.
Proof. rewrite ksimpN_S_unfold. reflexivity. Qed.

Lemma ksimpN_S_lam k d id ps rest sv body S il :
  ksimpN (Datatypes.S k) d (KLam id ps rest sv body) S il = KLam id ps rest sv (ksimpN (Datatypes.S k) d body S true).
Proof. rewrite ksimpN_S_unfold. reflexivity. Qed.

Lemma ksimpN_S_app_lam k d id ps rest sv body args S il :
  ksimpN (Datatypes.S k) d (KApp (KLam id ps rest sv body) args) S il =
  if il then klet_app (ksimpN (Datatypes.S k) d) id ps rest sv body (map (fun a => ksimpN (Datatypes.S k) d a S il) args) S
  else KApp (KLam id ps rest sv body) (map (fun a => ksimpN (Datatypes.S k) d a S il) args).
Proof. rewrite ksimpN_S_unfold. apply kstep_app_lam. Qed.

Lemma ksimpN_S_app_nonlam k d f args S il : is_klam f = false ->
  ksimpN (Datatypes.S k) d (KApp f args) S il =
  kapp2g d (ksimpN k d) (ksimpN (Datatypes.S k) d f S il) (map (fun a => ksimpN (Datatypes.S k) d a S il) args) S il.
Proof.
  intros Hf. rewrite ksimpN_S_unfold.
  exact (kstep_app_nonlam d (ksimpN k d) (ksimpN (Datatypes.S k) d) f args S il Hf).
Qed.

Strategy transparent [prim_eval fold_eval is_arith all_simple kall_simple].

(** ------------------------------------------------------------------ (b) the dynamic state is not observable *)
Lemma kfold_app_dyn d d' f' args' : kfold_app d f' args' = kfold_app d' f' args'.
Proof.
  destruct f'; try reflexivity.
  cbn [kfold_app]. destruct (is_arith o); [|reflexivity].
  destruct (kall_simple args') as [cs|]; [|reflexivity].
  rewrite !fold_eval_unobservable. reflexivity.
Qed.

Lemma kapp2g_dyn d d' low low' f' args' S il :
  (forall b S', low b S' true = low' b S' true) -> kapp2g d low f' args' S il = kapp2g d' low' f' args' S il.
Proof.
  intros Hlow. destruct f'; try (exact (kfold_app_dyn d d' _ args')).
  cbn [kapp2g]. destruct il; [|reflexivity].
  unfold klet_app. destruct (Nat.eqb (proper_len ps rest) (length args')).
  - destruct (klet_subst id sv ps args' S) as [[ps2 args2] S2]. rewrite Hlow. reflexivity.
  - rewrite Hlow. reflexivity.
Qed.

Lemma map_Forall_eq (F G : kexpr -> kexpr) es : Forall (fun e => F e = G e) es -> map F es = map G es.
Proof. intros HF. induction HF as [|e r He _ IH]; [reflexivity|]. cbn [map]. rewrite He, IH. reflexivity. Qed.

Theorem ksimpN_dyn_independent : forall n e d d' S il, ksimpN n d e S il = ksimpN n d' e S il.
Proof.
  induction n as [|k IHk]; [exact ksimplify_dyn_independent|].
  induction e as [c|c|c|x l|x l v IHv|t a b IHt IHa IHb|es IHes|id ps rest sv body IHbody|f args IHf IHargs|o] using kexpr_ind2;
    intros d d' S il; try reflexivity.
  - rewrite !ksimpN_S_set, (IHv d d' S il). reflexivity.
  - rewrite !ksimpN_S_cnd, (IHt d d' S il), (IHa d d' S il), (IHb d d' S il). reflexivity.
  - rewrite !ksimpN_S_seq.
    assert (map (fun a => ksimpN (Datatypes.S k) d a S il) es = map (fun a => ksimpN (Datatypes.S k) d' a S il) es) as Hm.
    { apply map_Forall_eq. apply Forall_impl with (2 := IHes). intros a Ha. exact (Ha d d' S il). }
    rewrite Hm. reflexivity.
  - rewrite !ksimpN_S_lam, (IHbody d d' S true). reflexivity.
  - assert (map (fun a => ksimpN (Datatypes.S k) d a S il) args = map (fun a => ksimpN (Datatypes.S k) d' a S il) args) as Hm.
    { apply map_Forall_eq. apply Forall_impl with (2 := IHargs). intros a Ha. exact (Ha d d' S il). }
    destruct (is_klam f) eqn:EL.
    + destruct f as [| | | | | | |id ps rest sv body| |]; try discriminate EL. clear EL.
      assert (forall S', ksimpN (Datatypes.S k) d body S' true = ksimpN (Datatypes.S k) d' body S' true) as Hb.
      { intros S'. specialize (IHf d d' S' true). rewrite !ksimpN_S_lam in IHf. injection IHf as IHf. exact IHf. }
      rewrite !ksimpN_S_app_lam, Hm. destruct il; [|reflexivity].
      unfold klet_app. destruct (Nat.eqb (proper_len ps rest) (length (map (fun a => ksimpN (Datatypes.S k) d' a S true) args))).
      * destruct (klet_subst id sv ps (map (fun a => ksimpN (Datatypes.S k) d' a S true) args) S) as [[ps2 args2] S2].
        rewrite Hb. reflexivity.
      * rewrite Hb. reflexivity.
    + rewrite !(ksimpN_S_app_nonlam k _ f args S il EL), Hm, (IHf d d' S il).
      apply kapp2g_dyn. intros b S'. exact (IHk b d d' S' true).
Qed.

(** ------------------------------------------------------------------ (a) the kinded exact-order model refines the plain one *)
Lemma is_lam_erase f : is_lam (erase f) = is_klam f.
Proof. destruct f; reflexivity. Qed.

Lemma erase_kapp2g d klow low f' args' S il :
  (forall b S', erase (klow b S' true) = low (erase b) (map erase_subst S') true) ->
  erase (kapp2g d klow f' args' S il) = app2g low (erase f') (map erase args') (map erase_subst S) il.
Proof.
  intros Hlow. destruct f'; try (exact (erase_kfold_app d _ args')).
  cbn [kapp2g erase app2g]. destruct il; [|reflexivity].
  unfold klet_app, let_app. rewrite map_length.
  destruct (Nat.eqb (proper_len ps rest) (length args')).
  - rewrite klet_subst_erase. destruct (klet_subst id sv ps args' S) as [[ps2 args2] S2].
    cbn [erase]. rewrite Hlow. reflexivity.
  - cbn [erase]. rewrite Hlow. reflexivity.
Qed.

Lemma map_Forall_erase (F : kexpr -> kexpr) (G : expr -> expr) es :
  Forall (fun e => erase (F e) = G (erase e)) es -> map erase (map F es) = map G (map erase es).
Proof. intros HF. induction HF as [|e r He _ IH]; [reflexivity|]. cbn [map]. rewrite He, IH. reflexivity. Qed.

Theorem erase_ksimpN : forall n e d S il, erase (ksimpN n d e S il) = simpN n (erase e) (map erase_subst S) il.
Proof.
  induction n as [|k IHk]; [exact erase_ksimplify|].
  induction e as [c|c|c|x l|x l v IHv|t a b IHt IHa IHb|es IHes|id ps rest sv body IHbody|f args IHf IHargs|o] using kexpr_ind2;
    intros d S il; try reflexivity.
  - (* KRef *) rewrite ksimpN_S_ref. cbn [erase]. rewrite simpN_S_ref, klookup_erase.
    destruct (klookup_subst x l S) as [[b c]|]; cbn [option_map snd]; [|reflexivity].
    destruct b; reflexivity.
  - (* KSet *) rewrite ksimpN_S_set. cbn [erase]. rewrite simpN_S_set, (IHv d S il). reflexivity.
  - (* KCnd *) rewrite ksimpN_S_cnd. cbn [erase]. rewrite simpN_S_cnd, <- (IHt d S il), ksimple_erase.
    destruct (ksimple (ksimpN (Datatypes.S k) d t S il)) as [c|]; cbn [option_map].
    + destruct (const_false (snd c)); [apply IHb|apply IHa].
    + cbn [erase]. rewrite (IHa d S il), (IHb d S il). reflexivity.
  - (* KSeq *) rewrite ksimpN_S_seq. cbn [erase]. rewrite simpN_S_seq.
    assert (map erase (map (fun a => ksimpN (Datatypes.S k) d a S il) es)
            = map (fun a => simpN (Datatypes.S k) a (map erase_subst S) il) (map erase es)) as Hm.
    { apply map_Forall_erase. apply Forall_impl with (2 := IHes). intros a Ha. exact (Ha d S il). }
    rewrite <- Hm, kseq_filter_erase.
    destruct (kseq_filter (map (fun a => ksimpN (Datatypes.S k) d a S il) es)) as [|x [|y r]]; reflexivity.
  - (* KLam *) rewrite ksimpN_S_lam. cbn [erase]. rewrite simpN_S_lam, (IHbody d S true). reflexivity.
  - (* KApp *)
    assert (map erase (map (fun a => ksimpN (Datatypes.S k) d a S il) args)
            = map (fun a => simpN (Datatypes.S k) a (map erase_subst S) il) (map erase args)) as Hm.
    { apply map_Forall_erase. apply Forall_impl with (2 := IHargs). intros a Ha. exact (Ha d S il). }
    destruct (is_klam f) eqn:EL.
    + destruct f as [| | | | | | |id ps rest sv body| |]; try discriminate EL. clear EL.
      assert (forall S', erase (ksimpN (Datatypes.S k) d body S' true)
                         = simpN (Datatypes.S k) (erase body) (map erase_subst S') true) as Hb.
      { intros S'. specialize (IHf d S' true). rewrite ksimpN_S_lam in IHf. cbn [erase] in IHf.
        rewrite simpN_S_lam in IHf. injection IHf as IHf. exact IHf. }
      rewrite ksimpN_S_app_lam. cbn [erase]. rewrite simpN_S_app_lam, <- Hm.
      destruct il.
      * unfold klet_app, let_app. rewrite !map_length.
        destruct (Nat.eqb (proper_len ps rest) (length args)).
        -- rewrite klet_subst_erase.
           destruct (klet_subst id sv ps (map (fun a => ksimpN (Datatypes.S k) d a S true) args) S) as [[ps2 args2] S2].
           cbn [erase]. rewrite Hb. reflexivity.
        -- cbn [erase]. rewrite Hb. reflexivity.
      * reflexivity.
    + assert (is_lam (erase f) = false) as EL' by (rewrite is_lam_erase; exact EL).
      rewrite (ksimpN_S_app_nonlam k d f args S il EL). cbn [erase].
      rewrite (simpN_S_app_nonlam k (erase f) (map erase args) (map erase_subst S) il EL').
      rewrite <- Hm, <- (IHf d S il). unfold app2.
      apply erase_kapp2g. intros b S'. exact (IHk b d S' true).
Qed.
