(** C09 (B) SPEC, second interpreter: the core language WITH first-class closures, recursion (through assigned
    variables) and a store.  No proofs here.
    Variables in a lambda's set-vars (sv) live in a box of the store, the others are bound directly — as the compiler
    does (only assigned variables are boxed), so deleting a never-assigned parameter does not change allocation.
    Fuel bounds the depth of the evaluation; every recursive call uses one unit less. *)
From ChibiV Require Import C09.Ast C09.Simplify.
Local Open Scope Z_scope.

Inductive val : Type :=
| VC (c : const)
| VClo (lam : expr) (r : list (key * slot))      (* lam is a Lam node, r the environment it was evaluated in *)
with slot : Type :=
| Direct (v : val)
| Boxed (loc : nat).

Definition env2 : Type := list (key * slot).
Definition store : Type := list val.

Fixpoint lookup2 (x loc : Z) (r : env2) : option slot :=
  match r with
  | [] => None
  | ((y, l), s) :: r' => if (y =? x) && (l =? loc) then Some s else lookup2 x loc r'
  end.

Fixpoint update (n : nat) (v : val) (s : store) : store :=
  match s, n with
  | [], _ => []
  | _ :: t, O => v :: t
  | h :: t, S m => h :: update m v t
  end.

(** bind parameters left to right: assigned ones get a fresh box *)
Fixpoint bind2 (id : Z) (sv ps : list Z) (vs : list val) (r : env2) (s : store) : env2 * store :=
  match ps, vs with
  | p :: ps', v :: vs' =>
      if memZ p sv then bind2 id sv ps' vs' (((p, id), Boxed (length s)) :: r) (s ++ [v])
      else bind2 id sv ps' vs' (((p, id), Direct v) :: r) s
  | _, _ => (r, s)
  end.

Definition consts_of (vs : list val) : option (list const) :=
  (fix go (l : list val) : option (list const) :=
     match l with
     | [] => Some []
     | VC c :: t => match go t with Some cs => Some (c :: cs) | None => None end
     | _ :: _ => None
     end) vs.

Definition res : Type := option (val * store * list const).

Fixpoint eval2 (n : nat) (e : expr) (r : env2) (s : store) (o : list const) {struct n} : res :=
  match n with
  | O => None
  | S m =>
      let args := fix args (es : list expr) (s : store) (o : list const) : option (list val * store * list const) :=
        match es with
        | [] => Some ([], s, o)
        | a :: t => match args t s o with
                    | Some (vs, s1, o1) => match eval2 m a r s1 o1 with
                                           | Some (v, s2, o2) => Some (v :: vs, s2, o2)
                                           | None => None
                                           end
                    | None => None
                    end
        end in
      match e with
      | Lit c | Obj c => Some (VC c, s, o)
      | Ref x loc => match lookup2 x loc r with
                     | Some (Direct v) => Some (v, s, o)
                     | Some (Boxed l) => match nth_error s l with Some v => Some (v, s, o) | None => None end
                     | None => None
                     end
      | SetE x loc v =>
          match eval2 m v r s o with
          | Some (w, s1, o1) => match lookup2 x loc r with
                                | Some (Boxed l) => if Nat.ltb l (length s1) then Some (VC CVoid, update l w s1, o1) else None
                                | _ => None
                                end
          | None => None
          end
      | Cnd t a b =>
          match eval2 m t r s o with
          | Some (VC c, s1, o1) => if const_false c then eval2 m b r s1 o1 else eval2 m a r s1 o1
          | Some (VClo _ _, s1, o1) => eval2 m a r s1 o1
          | None => None
          end
      | Seq es =>
          (fix seq (es : list expr) (s : store) (o : list const) : res :=
             match es with
             | [] => None
             | [a] => eval2 m a r s o
             | a :: t => match eval2 m a r s o with Some (_, s1, o1) => seq t s1 o1 | None => None end
             end) es s o
      | Lam id ps rest sv body => if rest then None else Some (VClo e r, s, o)
      | Op _ => None
      | App f es =>
          (* application of a closure value: operands right to left, then the operator *)
          let generic := fun (_ : unit) =>
            match args es s o with
            | Some (vs, s1, o1) =>
                match eval2 m f r s1 o1 with
                | Some (VClo (Lam id ps false sv body) rc, s2, o2) =>
                    if Nat.eqb (length ps) (length vs) then
                      let '(r3, s3) := bind2 id sv ps vs rc s2 in eval2 m body r3 s3 o2
                    else None
                | _ => None
                end
            | None => None
            end in
          match f with
          | Op op => match args es s o with
                     | Some (vs, s1, o1) => match consts_of vs with
                                            | Some cs => match prim_eval op cs with Some c => Some (VC c, s1, o1) | None => None end
                                            | None => None
                                            end
                     | None => None
                     end
          | Lam id ps false sv body =>                       (* let: no closure is built *)
              if Nat.eqb (length ps) (length es) then
                match args es s o with
                | Some (vs, s1, o1) => let '(r2, s2) := bind2 id sv ps vs r s1 in eval2 m body r2 s2 o1
                | None => None
                end
              else None
          | Ref x loc =>
              if (x =? OUT) && (loc =? 0) then
                match es with
                | [a] => match eval2 m a r s o with
                         | Some (VC c, s1, o1) => Some (VC CVoid, s1, o1 ++ [c])
                         | _ => None
                         end
                | _ => None
                end
              else generic tt
          | _ => generic tt
          end
      end
  end.

(** the argument evaluator and the sequence evaluator as top-level functions *)
Fixpoint args2 (m : nat) (es : list expr) (r : env2) (s : store) (o : list const) : option (list val * store * list const) :=
  match es with
  | [] => Some ([], s, o)
  | a :: t => match args2 m t r s o with
              | Some (vs, s1, o1) => match eval2 m a r s1 o1 with
                                     | Some (v, s2, o2) => Some (v :: vs, s2, o2)
                                     | None => None
                                     end
              | None => None
              end
  end.

Fixpoint seq2 (m : nat) (es : list expr) (r : env2) (s : store) (o : list const) : res :=
  match es with
  | [] => None
  | [a] => eval2 m a r s o
  | a :: t => match eval2 m a r s o with Some (_, s1, o1) => seq2 m t r s1 o1 | None => None end
  end.

(** whole program: value (constants only are shown) and output *)
Definition run2 (fuel : nat) (e : expr) : option (option const * list const) :=
  match eval2 fuel e [] [] [] with
  | Some (VC c, _, o) => Some (Some c, o)
  | Some (VClo _ _, _, o) => Some (None, o)
  | None => None
  end.
