(** C09: the few C integer notions the translated 128-bit helpers (Gen/C09_Luint.v) are phrased in.
    [wrap w x]  = conversion to / arithmetic in an unsigned type of w bits (mod 2^w);
    [swrap w x] = conversion to a signed type of w bits (two's complement, what gcc/clang do).
    A struct {hi, lo} is the Gallina pair (hi, lo). *)
From Coq Require Export ZArith List Bool Lia.
Local Open Scope Z_scope.

Definition wrap (w : Z) (x : Z) : Z := x mod 2 ^ w.
Definition swrap (w : Z) (x : Z) : Z := (x + 2 ^ (w - 1)) mod 2 ^ w - 2 ^ (w - 1).

(** iteration of a translated loop body: [for (i = 0; i < n; i++) body] with a body that does not read i *)
Fixpoint iter {A : Type} (n : nat) (f : A -> A) (x : A) : A :=
  match n with
  | O => x
  | S m => iter m f (f x)
  end.

(** every iteration of a translated loop stays inside defined C behaviour *)
Fixpoint iter_all {A : Type} (n : nat) (f : A -> A) (ok : A -> bool) (x : A) : bool :=
  match n with
  | O => true
  | S m => ok x && iter_all m f ok (f x)
  end.
