(** C09 (B) executable model.  No proofs here.
    [simplify] mirrors simplify.c:11-158 case by case; [eval] is the SPEC: a definitional interpreter of the
    let-fragment of the analysed core language (constants, lexical references, set!, if, begin, applications of
    arithmetic opcodes, of a literal lambda (= let) and of the output procedure). *)
From Coq Require Import QArith.
From ChibiV Require Import C09.Ast.
Local Open Scope Z_scope.

(** ------------------------------------------------------------------ constant folding oracle *)
Fixpoint ints_of (cs : list const) : option (list Z) :=
  match cs with
  | [] => Some []
  | CInt z :: r => match ints_of r with Some zs => Some (z :: zs) | None => None end
  | _ :: _ => None
  end.

Definition is_arith (o : Z) : bool := (0 <=? o) && (o <=? 5).    (* sexp_opcode_class == SEXP_OPC_ARITHMETIC, opcodes.c:84-89 *)

(** value of the application of arithmetic opcode [o] to constants, [None] when the evaluation raises
    (non-number, zero divisor, wrong number of arguments) — simplify.c:46-58 runs the real VM for this, vm.c.
    [/] (o = 3) and operands that are ratios go through [prim_eval_qs] below. *)
Definition prim_eval_ints (o : Z) (zs : list Z) : option const :=
  if o =? 0 then Some (CInt (fold_left Z.add zs 0))
  else if o =? 1 then Some (CInt (fold_left Z.mul zs 1))
  else if o =? 2 then match zs with
                      | [] => None
                      | [z] => Some (CInt (- z))
                      | z :: r => Some (CInt (fold_left Z.sub r z))
                      end
  else if o =? 4 then match zs with
                      | [a; b] => if b =? 0 then None else Some (CInt (Z.quot a b))
                      | _ => None
                      end
  else if o =? 5 then match zs with
                      | [a; b] => if b =? 0 then None else Some (CInt (Z.rem a b))
                      | _ => None
                      end
  else if o =? 10 then match zs with [a; b] => Some (CBool (a <? b)) | _ => None end      (* less-than: not SEXP_OPC_ARITHMETIC, never folded *)
  else if o =? 11 then match zs with [a; b] => Some (CBool (a =? b)) | _ => None end      (* numeric equality *)
  else None.

(** exact rationals (round 2): operands that are integers or ratios, at least one division or ratio involved.
    SPEC = Coq's Q, results brought to lowest terms; an integer-valued result is an integer (as the reader and the
    arithmetic of the implementation normalise it).  [/] raises on an exact zero divisor and without arguments. *)
Definition q_of (c : const) : option Q :=
  match c with CInt z => Some (inject_Z z) | CRat n d => Some (Qmake n d) | _ => None end.

Fixpoint qs_of (cs : list const) : option (list Q) :=
  match cs with
  | [] => Some []
  | c :: r => match q_of c, qs_of r with Some q, Some qs => Some (q :: qs) | _, _ => None end
  end.

Definition const_of_q (q : Q) : const :=
  let r := Qred q in if Pos.eqb (Qden r) 1 then CInt (Qnum r) else CRat (Qnum r) (Qden r).

Definition q_is_zero (q : Q) : bool := Qnum q =? 0.

(** (/ a b c ...) = ((a / b) / c) ...; None as soon as a divisor is zero *)
Fixpoint q_div_all (acc : Q) (qs : list Q) : option Q :=
  match qs with
  | [] => Some acc
  | q :: r => if q_is_zero q then None else q_div_all (Qdiv acc q) r
  end.

Definition prim_eval_qs (o : Z) (qs : list Q) : option const :=
  if o =? 0 then Some (const_of_q (fold_left Qplus qs (inject_Z 0)))
  else if o =? 1 then Some (const_of_q (fold_left Qmult qs (inject_Z 1)))
  else if o =? 2 then match qs with
                      | [] => None
                      | [q] => Some (const_of_q (Qopp q))
                      | q :: r => Some (const_of_q (fold_left Qminus r q))
                      end
  else if o =? 3 then match qs with
                      | [] => None
                      | [q] => if q_is_zero q then None else Some (const_of_q (Qinv q))
                      | q :: r => match q_div_all q r with Some x => Some (const_of_q x) | None => None end
                      end
  else None.      (* quotient / remainder of a ratio: outside the model (the generator never produces it) *)

Definition prim_eval (o : Z) (cs : list const) : option const :=
  match cs with
  | [c] => if (o =? 0) || (o =? 1)
           then Some c      (* one-argument sum and product compile to the argument itself, whatever it is (eval.c generate_opcode_app) *)
           else match ints_of cs with
                | Some zs => if o =? 3 then match qs_of cs with Some qs => prim_eval_qs o qs | None => None end else prim_eval_ints o zs
                | None => match qs_of cs with Some qs => prim_eval_qs o qs | None => None end
                end
  | _ => match ints_of cs with
         | Some zs => if o =? 3 then match qs_of cs with Some qs => prim_eval_qs o qs | None => None end else prim_eval_ints o zs
         | None => match qs_of cs with Some qs => prim_eval_qs o qs | None => None end
         end
  end.

(** ------------------------------------------------------------------ simplify (simplify.c:11-158) *)
Definition subst : Type := (Z * Z * const)%type.      (* (name lambda . constant), simplify.c:77-79 *)

(** sexp_litp(x) || !sexp_pointerp(x) *)
Definition simple (e : expr) : option const := match e with Lit c => Some c | _ => None end.

Fixpoint all_simple (es : list expr) : option (list const) :=
  match es with
  | [] => Some []
  | e :: r => match simple e, all_simple r with Some c, Some cs => Some (c :: cs) | _, _ => None end
  end.

(** simplify.c:122-129 *)
Fixpoint lookup_subst (x loc : Z) (S : list subst) : option const :=
  match S with
  | [] => None
  | (y, l, c) :: r => if (y =? x) && (l =? loc) then Some c else lookup_subst x loc r
  end.

Definition memZ (x : Z) (l : list Z) : bool := existsb (Z.eqb x) l.

(** simplify.c:69-89: walk parameters and (already simplified) arguments together; a parameter that is never
    assigned (not in sv) and is bound to a literal is recorded in the substitution and deleted with its argument *)
Fixpoint let_subst (id : Z) (sv ps : list Z) (args : list expr) (S : list subst) : list Z * list expr * list subst :=
  match ps, args with
  | p :: ps', a :: args' =>
      match (if memZ p sv then None else simple a) with
      | Some c => let_subst id sv ps' args' ((p, id, c) :: S)
      | None => let '(ps2, args2, S2) := let_subst id sv ps' args' S in (p :: ps2, a :: args2, S2)
      end
  | _, _ => (ps, args, S)
  end.

(** simplify.c:137-143: all but the last element are dropped when they are literals, references or lambdas *)
Definition droppable (e : expr) : bool :=
  match e with Lit _ | Ref _ _ | Lam _ _ _ _ _ => true | _ => false end.

Fixpoint seq_filter (es : list expr) : list expr :=
  match es with
  | [] => []
  | [e] => [e]
  | e :: r => if droppable e then seq_filter r else e :: seq_filter r
  end.

Definition const_false (c : const) : bool := match c with CBool false => true | _ => false end.

(** number of parameters sexp_length sees: the pairs of the (possibly dotted) parameter list *)
Definition proper_len (ps : list Z) (rest : bool) : nat := if rest then pred (length ps) else length ps.

Fixpoint simplify (e : expr) (S : list subst) (inlam : bool) {struct e} : expr :=
  match e with
  | App f args =>
      (* simplify.c:27-34: the operator is left alone when it is a lambda; operands use the incoming substs *)
      let f' := match f with Lam _ _ _ _ _ => f | _ => simplify f S inlam end in
      let args' := map (fun a => simplify a S inlam) args in
      match f with
      | Lam id ps rest sv body =>
          (* simplify.c:61-100 (only inside a lambda: the `lambda &&` test) *)
          if inlam then
            if Nat.eqb (proper_len ps rest) (length args') then
              let '(ps2, args2, S2) := let_subst id sv ps args' S in
              App (Lam id ps2 rest sv (simplify body S2 true)) args2
            else App (Lam id ps rest sv (simplify body S true)) args'
          else App f' args'
      | _ =>
          match f' with
          | Op o =>
              (* simplify.c:37-60 *)
              if is_arith o then
                match all_simple args' with
                | Some cs => match prim_eval o cs with Some r => Lit r | None => App f' args' end
                | None => App f' args'
                end
              else App f' args'
          | _ => App f' args'
          end
      end
  | Lam id ps rest sv body => Lam id ps rest sv (simplify body S true)            (* simplify.c:105-107 *)
  | Cnd t a b =>                                                                  (* simplify.c:109-120 *)
      let t' := simplify t S inlam in
      match simple t' with
      | Some c => if const_false c then simplify b S inlam else simplify a S inlam
      | None => Cnd t' (simplify a S inlam) (simplify b S inlam)
      end
  | Ref x loc => match lookup_subst x loc S with Some c => Lit c | None => e end  (* simplify.c:122-129 *)
  | SetE x loc v => SetE x loc (simplify v S inlam)                               (* simplify.c:131-133 *)
  | Seq es =>                                                                     (* simplify.c:135-148 *)
      match seq_filter (map (fun a => simplify a S inlam) es) with
      | [x] => x
      | es' => Seq es'
      end
  | Lit _ | Obj _ | Op _ => e
  end.

(** sexp_simplify (simplify.c:156-158) *)
Definition sexp_simplify (e : expr) : expr := simplify e [] false.

(** ------------------------------------------------------------------ SPEC: definitional interpreter *)
Definition key : Type := (Z * Z)%type.
Definition env : Type := list (key * const).
Definition state : Type := (env * list const)%type.      (* bindings, values written so far *)

Fixpoint lookup (x loc : Z) (r : env) : option const :=
  match r with
  | [] => None
  | ((y, l), c) :: r' => if (y =? x) && (l =? loc) then Some c else lookup x loc r'
  end.

Definition OUT : Z := 1.     (* the global procedure that writes its argument *)

Fixpoint bind (id : Z) (ps : list Z) (vs : list const) (r : env) : env :=
  match ps, vs with
  | p :: ps', v :: vs' => bind id ps' vs' (((p, id), v) :: r)
  | _, _ => r
  end.

Definition pop (id : Z) (r : env) : env := filter (fun kv => negb (snd (fst kv) =? id)) r.

(** [None] = no defined result (an error is raised, or the program leaves the fragment).
    Arguments are evaluated right to left, as the compiled code does (R7RS leaves the order open). *)
Fixpoint eval (e : expr) (s : state) {struct e} : option const * state :=
  let eval_args := fix eval_args (es : list expr) (s : state) : option (list const) * state :=
    match es with
    | [] => (Some [], s)
    | a :: r => match eval_args r s with
                | (Some vs, s1) => match eval a s1 with (Some v, s2) => (Some (v :: vs), s2) | (None, s2) => (None, s2) end
                | (None, s1) => (None, s1)
                end
    end in
  match e with
  | Lit c | Obj c => (Some c, s)
  | Ref x loc => (lookup x loc (fst s), s)
  | SetE x loc v =>
      match eval v s with
      | (Some c, (r, o)) => match lookup x loc r with
                            | Some _ => (Some CVoid, (((x, loc), c) :: r, o))
                            | None => (None, (r, o))
                            end
      | (None, s1) => (None, s1)
      end
  | Cnd t a b =>
      match eval t s with
      | (Some c, s1) => if const_false c then eval b s1 else eval a s1
      | (None, s1) => (None, s1)
      end
  | Seq es =>
      (fix eval_seq (es : list expr) (s : state) : option const * state :=
         match es with
         | [] => (None, s)
         | [a] => eval a s
         | a :: r => match eval a s with (Some _, s1) => eval_seq r s1 | (None, s1) => (None, s1) end
         end) es s
  | Lam _ _ _ _ _ => (None, s)
  | Op _ => (None, s)
  | App f args =>
      match f with
      | Op o => match eval_args args s with
                | (Some vs, s1) => (prim_eval o vs, s1)
                | (None, s1) => (None, s1)
                end
      | Ref x loc =>
          if (x =? OUT) && (loc =? 0) then
            match args with
            | [a] => match eval a s with
                     | (Some v, (r, o)) => (Some CVoid, (r, o ++ [v]))
                     | (None, s1) => (None, s1)
                     end
            | _ => (None, s)
            end
          else (None, s)
      | Lam id ps false sv body =>
          if Nat.eqb (length ps) (length args) then
            match eval_args args s with
            | (Some vs, (r, o)) =>
                (* the parameters go out of scope when the body returns (assignments to outer variables stay) *)
                match eval body (bind id ps vs r, o) with (v, (r1, o1)) => (v, (pop id r1, o1)) end
            | (None, s1) => (None, s1)
            end
          else (None, s)
      | _ => (None, s)
      end
  end.

(** the same argument evaluator, as a top-level function (for the proofs and the driver) *)
Fixpoint eval_args (es : list expr) (s : state) : option (list const) * state :=
  match es with
  | [] => (Some [], s)
  | a :: r => match eval_args r s with
              | (Some vs, s1) => match eval a s1 with (Some v, s2) => (Some (v :: vs), s2) | (None, s2) => (None, s2) end
              | (None, s1) => (None, s1)
              end
  end.

Fixpoint eval_seq (es : list expr) (s : state) : option const * state :=
  match es with
  | [] => (None, s)
  | [a] => eval a s
  | a :: r => match eval a s with (Some _, s1) => eval_seq r s1 | (None, s1) => (None, s1) end
  end.

(** run a whole (top-level) program: result and written values *)
Definition run (e : expr) : option const * list const :=
  let '(v, (_, o)) := eval e ([], []) in (v, o).

(** ------------------------------------------------------------------ well-formedness the analyser guarantees *)
Fixpoint assigned (e : expr) : list key :=
  match e with
  | SetE x loc v => (x, loc) :: assigned v
  | Cnd t a b => assigned t ++ assigned a ++ assigned b
  | Seq es => flat_map assigned es
  | Lam _ _ _ _ body => assigned body
  | App f args => assigned f ++ flat_map assigned args
  | _ => []
  end.

Fixpoint lam_ids (e : expr) : list Z :=
  match e with
  | SetE _ _ v => lam_ids v
  | Cnd t a b => lam_ids t ++ lam_ids a ++ lam_ids b
  | Seq es => flat_map lam_ids es
  | Lam id _ _ _ body => id :: lam_ids body
  | App f args => lam_ids f ++ flat_map lam_ids args
  | _ => []
  end.

Definition keyb (k1 k2 : key) : bool := (fst k1 =? fst k2) && (snd k1 =? snd k2).

Fixpoint nodupb (l : list Z) : bool :=
  match l with [] => true | x :: r => negb (memZ x r) && nodupb r end.

(** every lambda's sv lists all of its parameters that are assigned anywhere inside it (lambda-set-vars),
    and no lambda nested inside it reuses its identity *)
Fixpoint wf (e : expr) : bool :=
  match e with
  | SetE _ _ v => wf v
  | Cnd t a b => wf t && wf a && wf b
  | Seq es => forallb wf es
  | Lam id ps _ sv body =>
      wf body && forallb (fun k => negb (snd k =? id) || memZ (fst k) sv) (assigned body)
      && nodupb ps && negb (memZ id (lam_ids body)) && negb (id =? 0)
  | App f args => wf f && forallb wf args
  | _ => true
  end.
