(** C09 (A), continued: signed multiplication and the 128-step division of bignum.h. *)
From ChibiV Require Import C09.CSem C09.LuintLemmas Gen.C09_Luint C09.LuintProofs.
Local Open Scope Z_scope.

Ltac Zify.zify_post_hook ::= Z.div_mod_to_equations.

(** reinterpretations (bignum.h:76-88) *)
Lemma luint_from_lsint_Z v : ls_ok v -> lu_ok (luint_from_lsint v) /\ luval (luint_from_lsint v) = luval v mod M128.
Proof.
  destruct v as [vh vl]. unfold ls_ok, lu_ok, s64, u64, luval, luint_from_lsint. cbv zeta. cbn [fst snd]. intros [Hh Hl].
  rewrite wrap64. unfold M64, M128 in *. lia.
Qed.

Lemma lsint_from_luint_Z v : lu_ok v -> ls_ok (lsint_from_luint v) /\ luval (lsint_from_luint v) = smod128 (luval v).
Proof.
  destruct v as [vh vl]. unfold ls_ok, lu_ok, s64, u64, luval, lsint_from_luint, smod128. cbv zeta. cbn [fst snd]. intros [Hh Hl].
  rewrite swrap64. unfold M64, M128 in *. lia.
Qed.

Lemma smod128_mod x : smod128 x mod M128 = x mod M128.
Proof. unfold smod128, M128. lia. Qed.

Lemma smod128_congr x y : x mod M128 = y mod M128 -> smod128 x = smod128 y.
Proof. unfold smod128, M128. lia. Qed.

Lemma mul_mod_congr x y c : x mod M128 = y mod M128 -> (x * c) mod M128 = (y * c) mod M128.
Proof. intros H. rewrite <- Zmult_mod_idemp_l, H, Zmult_mod_idemp_l. reflexivity. Qed.

Lemma neg_congr x y : x mod M128 = y mod M128 -> (- x) mod M128 = (- y) mod M128.
Proof. unfold M128. lia. Qed.

Lemma neg_smod x : (- smod128 x) mod M128 = (- x) mod M128.
Proof. unfold smod128, M128. lia. Qed.

Lemma neg_mod x : (- (x mod M128)) mod M128 = (- x) mod M128.
Proof. unfold M128. lia. Qed.

Lemma ls_range v : ls_ok v -> - (M128 / 2) <= luval v < M128 / 2.
Proof. destruct v as [vh vl]. unfold ls_ok, s64, u64, luval, M64, M128. cbn [fst snd]. lia. Qed.

(** lsint_mul_sint (bignum.h:327-340): two's-complement product; b = INT64_MIN is excluded (-b overflows in C) *)
Theorem lsint_mul_sint_Z a b : ls_ok a -> s64 b -> b <> - 9223372036854775808 ->
  ls_ok (lsint_mul_sint a b) /\ luval (lsint_mul_sint a b) = smod128 (luval a * b) /\ lsint_mul_sint_safe a b = true.
Proof.
  intros Ha Hb Hmin.
  assert (forall x, lu_ok x -> forall w, u64 w -> luint_mul_uint_safe x w = true) as Hsafe
    by (intros x Hx w Hw; apply (luint_mul_uint_Z x w Hx Hw)).
  destruct (lsint_negate_Z a Ha) as [Kn Vn].
  destruct (luint_from_lsint_Z _ Kn) as [Kmn Vmn]. destruct (luint_from_lsint_Z _ Ha) as [Kpa Vpa].
  assert (u64 (wrap 64 b)) as Hwb by (unfold u64; rewrite wrap64; apply Z.mod_pos_bound; reflexivity).
  assert (u64 (wrap 64 (swrap 64 (- b)))) as Hwnb by (unfold u64; rewrite wrap64; apply Z.mod_pos_bound; reflexivity).
  assert (b < 0 -> wrap 64 (swrap 64 (- b)) = - b) as Enb.
  { intros Hneg. rewrite swrap64, wrap64. unfold s64, M64 in *. lia. }
  assert (0 <= b -> wrap 64 b = b) as Epb by (intros; rewrite wrap64; unfold s64, M64 in *; lia).
  unfold lsint_mul_sint, lsint_mul_sint_safe.
  assert (lsint_lt_0 a = if fst a <? 0 then 1 else 0) as Elt by reflexivity. rewrite Elt.
  pose proof (ls_range a Ha) as Ra.
  assert ((fst a <? 0) = (luval a <? 0)) as Esign.
  { destruct a as [ah al]. destruct Ha as [Hh Hl]. unfold luval, s64, u64, M64 in *. cbn [fst snd] in *.
    destruct (Z.ltb_spec ah 0), (Z.ltb_spec (ah * 18446744073709551616 + al) 0); lia. }
  rewrite Esign. destruct (Z.ltb_spec (luval a) 0) as [Hneg|Hpos]; cbn [Z.eqb negb]; cbv zeta.
  - (* a < 0 *)
    destruct (Z.ltb_spec b 0) as [Hbn|Hbp].
    + destruct (luint_mul_uint_Z _ _ Kmn Hwnb) as (Km & Vm & Sm). destruct (lsint_from_luint_Z _ Km) as [Kr Vr].
      split; [exact Kr|split].
      * rewrite Vr, Vm, Vmn, Vn, (Enb Hbn). apply smod128_congr. rewrite Zmod_mod.
        transitivity ((- luval a * - b) mod M128); [|f_equal; ring].
        apply mul_mod_congr. rewrite Zmod_mod. apply smod128_mod.
      * rewrite Sm. unfold s64 in Hb. lia.
    + destruct (luint_mul_uint_Z _ _ Kmn Hwb) as (Km & Vm & Sm). destruct (lsint_from_luint_Z _ Km) as [Kr Vr].
      destruct (lsint_negate_Z _ Kr) as [Kr2 Vr2].
      split; [exact Kr2|split; [|exact Sm]].
      rewrite Vr2, Vr, Vm, Vmn, Vn, (Epb Hbp). apply smod128_congr.
      rewrite neg_smod. rewrite neg_mod.
      transitivity ((- (- luval a * b)) mod M128); [|f_equal; ring].
      apply neg_congr. apply mul_mod_congr. rewrite Zmod_mod. apply smod128_mod.
  - (* 0 <= a *)
    destruct (Z.ltb_spec b 0) as [Hbn|Hbp].
    + destruct (luint_mul_uint_Z _ _ Kpa Hwnb) as (Km & Vm & Sm). destruct (lsint_from_luint_Z _ Km) as [Kr Vr].
      destruct (lsint_negate_Z _ Kr) as [Kr2 Vr2].
      split; [exact Kr2|split].
      * rewrite Vr2, Vr, Vm, Vpa, (Enb Hbn). apply smod128_congr.
        rewrite neg_smod. rewrite neg_mod.
        transitivity ((- (luval a * - b)) mod M128); [|f_equal; ring].
        apply neg_congr. apply mul_mod_congr. apply Zmod_mod.
      * rewrite Sm. unfold s64 in Hb. lia.
    + destruct (luint_mul_uint_Z _ _ Kpa Hwb) as (Km & Vm & Sm). destruct (lsint_from_luint_Z _ Km) as [Kr Vr].
      split; [exact Kr|split; [|exact Sm]].
      rewrite Vr, Vm, Vpa, (Epb Hbp). apply smod128_congr. rewrite Zmod_mod.
      apply mul_mod_congr. apply Zmod_mod.
Qed.

(** ------------------------------------------------------------------ luint_div (bignum.h:342-365) *)
Lemma lor_even_bit x t : 0 <= x -> x mod 2 = 0 -> t = 0 \/ t = 1 -> Z.lor x t = x + t.
Proof.
  intros Hx He Ht. replace x with (x / 2 * 2 ^ 1) at 1 2 by (change (2 ^ 1) with 2; lia).
  apply lor_disjoint; [lia|]. change (2 ^ 1) with 2. lia.
Qed.

Lemma lu_snd x : lu_ok x -> snd x = luval x mod M64 /\ fst x = luval x / M64.
Proof. destruct x as [h l]. unfold lu_ok, u64, luval. cbn [fst snd]. unfold M64. lia. Qed.

Lemma lu_of_parts h l : u64 h -> u64 l -> lu_ok (h, l) /\ luval (h, l) = h * M64 + l.
Proof. intros. split; [split; assumption|reflexivity]. Qed.

Definition div_inv (B : Z) (st : (Z * Z) * (Z * Z) * (Z * Z)) (P X : Z) : Prop :=
  let '(q, rem, a) := st in
  lu_ok q /\ lu_ok rem /\ lu_ok a /\
  X = (luval q * B + luval rem) * M128 + luval a /\ 0 <= luval rem < B /\ 0 <= X < M128 * P /\ 0 < P.

Lemma div_step b st P X : lu_ok b -> 0 < luval b -> P <= M128 / 2 ->
  div_inv (luval b) st P X -> div_inv (luval b) (luint_div_loop1 b st) (2 * P) (2 * X).
Proof.
  intros Hb HB HP. destruct st as [[q rem] a]. unfold div_inv. intros (Kq & Kr & Ka & EX & Rr & RX & P0).
  pose proof (luval_range _ Kq) as Rq. pose proof (luval_range _ Ka) as Ra. pose proof (luval_range _ Hb) as Rb.
  set (B := luval b) in *.
  assert (luval q * B + luval rem < P) as HH by (unfold M128 in *; nia).
  assert (luval q < P) as Hq by nia.
  unfold luint_div_loop1. cbv beta iota zeta.
  destruct (luint_shl_Z q 1 Kq ltac:(lia)) as [Kq1 Vq1]. destruct (luint_shl_Z rem 1 Kr ltac:(lia)) as [Kr1 Vr1].
  destruct (luint_shl_Z a 1 Ka ltac:(lia)) as [Ka1 Va1]. change (2 ^ 1) with 2 in *.
  rewrite Z.mod_small in Vq1 by (unfold M128 in *; lia).
  rewrite Z.mod_small in Vr1 by (unfold M128 in *; lia).
  set (q1 := luint_shl q 1) in *. set (r1 := luint_shl rem 1) in *. set (a1 := luint_shl a 1) in *.
  (* the bit shifted out of a *)
  set (t := Z.land (Z.shiftr (fst a) 63) 1).
  assert ((t = 0 \/ t = 1) /\ luval a1 = 2 * luval a - t * M128) as [Ht Ea1].
  { unfold t. rewrite land_1, Z.shiftr_div_pow2 by lia. change (2 ^ 63) with 9223372036854775808.
    destruct (lu_snd a Ka) as [_ Efa]. rewrite Va1, Efa. unfold M64, M128 in *. lia. }
  (* remainder.lo |= bit *)
  destruct (lu_snd r1 Kr1) as [Es1 Ef1].
  assert (Z.lor (snd r1) t = snd r1 + t) as EL1.
  { apply lor_even_bit; [destruct Kr1 as [_ [? _]]; assumption| rewrite Es1, Vr1; unfold M64; lia | exact Ht]. }
  assert (lu_ok (fst r1, Z.lor (snd r1) t) /\ luval (fst r1, Z.lor (snd r1) t) = 2 * luval rem + t) as [Kr2 Vr2].
  { rewrite EL1. unfold lu_ok, u64, luval. cbn [fst snd]. destruct Kr1 as [[? ?] [? ?]].
    assert (snd r1 mod 2 = 0) as Hev by (rewrite Es1, Vr1; unfold M64; lia).
    unfold luval in Vr1. unfold u64, M64 in *. lia. }
  set (r2 := (fst r1, Z.lor (snd r1) t)) in *.
  destruct (luint_lt_Z r2 b Kr2 Hb) as [Hlt Hlt01].
  destruct (Z.eqb_spec (luint_lt r2 b) 0) as [E0|E1]; cbn [negb].
  - (* remainder >= b: subtract, set the quotient bit *)
    assert (~ luval r2 < B) as Hge by (intros Hc; apply Hlt in Hc; lia).
    destruct (luint_sub_Z r2 b Kr2 Hb) as [Kr3 Vr3]. fold B in Vr3.
    rewrite Z.mod_small in Vr3 by (unfold M128 in *; lia).
    destruct (lu_snd q1 Kq1) as [Esq Efq].
    assert (Z.lor (snd q1) 1 = snd q1 + 1) as EL2.
    { apply lor_even_bit; [destruct Kq1 as [_ [? _]]; assumption| rewrite Esq, Vq1; unfold M64; lia | right; reflexivity]. }
    assert (lu_ok (fst q1, Z.lor (snd q1) 1) /\ luval (fst q1, Z.lor (snd q1) 1) = 2 * luval q + 1) as [Kq2 Vq2].
    { rewrite EL2. unfold lu_ok, u64, luval. cbn [fst snd]. destruct Kq1 as [[? ?] [? ?]].
      assert (snd q1 mod 2 = 0) as Hev by (rewrite Esq, Vq1; unfold M64; lia).
      unfold luval in Vq1. unfold u64, M64 in *. lia. }
    split; [exact Kq2|split; [exact Kr3|split; [exact Ka1|]]].
    rewrite Vq2, Vr3, Vr2, Ea1. rewrite Vr2 in Hge.
    split; [rewrite EX; ring|]. split; [clear - Ht Hge Rr; lia|]. split; [clear - RX; lia|clear - P0; lia].
  - (* remainder < b *)
    assert (luval r2 < B) as Hl by (apply Hlt; lia).
    split; [exact Kq1|split; [exact Kr2|split; [exact Ka1|]]].
    rewrite Vq1, Vr2, Ea1. rewrite Vr2 in Hl.
    split; [rewrite EX; ring|]. split; [clear - Ht Hl Rr; lia|]. split; [clear - RX; lia|clear - P0; lia].
Qed.

Lemma div_iter b : lu_ok b -> 0 < luval b -> forall n st P X,
  P * 2 ^ Z.of_nat n <= M128 ->
  div_inv (luval b) st P X ->
  div_inv (luval b) (iter n (luint_div_loop1 b) st) (P * 2 ^ Z.of_nat n) (X * 2 ^ Z.of_nat n).
Proof.
  intros Hb HB. induction n as [|n IH]; intros st P X HP Hinv.
  - cbn [iter]. change (2 ^ Z.of_nat 0) with 1. rewrite !Z.mul_1_r. exact Hinv.
  - cbn [iter]. rewrite Nat2Z.inj_succ, Z.pow_succ_r in * by lia.
    assert (0 < P) as P0 by (destruct st as [[q rem] a]; unfold div_inv in Hinv; tauto).
    assert (0 < 2 ^ Z.of_nat n) as Hpow by (apply Z.pow_pos_nonneg; lia).
    assert (P <= M128 / 2) as HP2 by (unfold M128 in *; nia).
    pose proof (div_step b st P X Hb HB HP2 Hinv) as Hstep.
    specialize (IH _ (2 * P) (2 * X) ltac:(lia) Hstep).
    replace (P * (2 * 2 ^ Z.of_nat n)) with (2 * P * 2 ^ Z.of_nat n) by ring.
    replace (X * (2 * 2 ^ Z.of_nat n)) with (2 * X * 2 ^ Z.of_nat n) by ring. exact IH.
Qed.

Lemma div_loop_safe b n st : iter_all n (luint_div_loop1 b) (luint_div_loop1_safe b) st = true.
Proof.
  revert st. induction n as [|n IH]; intros st; cbn [iter_all]; [reflexivity|]. rewrite IH, andb_true_r.
  destruct st as [[q rem] a]. unfold luint_div_loop1_safe. cbv beta iota zeta.
  rewrite !luint_shl_defined by lia. reflexivity.
Qed.

(** luint_div: truncating division of the 128-bit values, for every non-zero divisor *)
Theorem luint_div_Z a b : lu_ok a -> lu_ok b -> luval b <> 0 ->
  lu_ok (luint_div a b) /\ luval (luint_div a b) = luval a / luval b /\ luint_div_safe a b = true.
Proof.
  intros Ha Hb Hnz. pose proof (luval_range _ Ha) as Ra. pose proof (luval_range _ Hb) as Rb.
  assert (0 < luval b) as HB by lia.
  destruct (luint_lt_Z a b Ha Hb) as [Hlt _]. destruct (luint_eq_Z a b Ha Hb) as [Heq _].
  assert (lu_ok (luint_from_uint 0) /\ luval (luint_from_uint 0) = 0) as [K0 V0] by (split; [split; cbn; unfold u64, M64; lia|reflexivity]).
  assert (lu_ok (luint_from_uint 1) /\ luval (luint_from_uint 1) = 1) as [K1 V1] by (split; [split; cbn; unfold u64, M64; lia|reflexivity]).
  unfold luint_div, luint_div_safe.
  destruct (Z.eqb_spec (luint_lt a b) 0) as [El|El]; cbn [negb].
  2:{ assert (luval a < luval b) as Hl by (apply Hlt; destruct (luint_lt_Z a b Ha Hb) as [_ [?|?]]; lia).
      split; [exact K0|split; [|reflexivity]]. rewrite V0. symmetry. apply Z.div_small. lia. }
  destruct (Z.eqb_spec (luint_eq a b) 0) as [Ee|Ee]; cbn [negb].
  2:{ assert (luval a = luval b) as Hl by (apply Heq; destruct (luint_eq_Z a b Ha Hb) as [_ [?|?]]; lia).
      split; [exact K1|split; [|reflexivity]]. rewrite V1, Hl. symmetry. apply Z.div_same. lia. }
  cbv zeta.
  assert (div_inv (luval b) (luint_from_uint 0, luint_from_uint 0, a) 1 (luval a)) as Hinit.
  { unfold div_inv. rewrite V0. repeat split; try apply K0; try apply Ha; try lia. }
  pose proof (div_iter b Hb HB 128 _ 1 (luval a) ltac:(change (2 ^ Z.of_nat 128) with M128; lia) Hinit) as Hfin.
  rewrite div_loop_safe.
  destruct (iter 128 (luint_div_loop1 b) (luint_from_uint 0, luint_from_uint 0, a)) as [[q rem] a'].
  unfold div_inv in Hfin. destruct Hfin as (Kq & Kr & Ka' & EX & Rr & RX & _).
  change (2 ^ Z.of_nat 128) with M128 in *. pose proof (luval_range _ Ka') as Ra'.
  split; [exact Kq|split; [|reflexivity]].
  assert (luval a = luval q * luval b + luval rem) as Ediv by (unfold M128 in *; lia).
  apply (Z.div_unique_pos _ _ _ (luval rem)); [lia|]. rewrite Ediv. ring.
Qed.

Theorem luint_div_uint_Z a w : lu_ok a -> u64 w -> w <> 0 ->
  lu_ok (luint_div_uint a w) /\ luval (luint_div_uint a w) = luval a / w.
Proof.
  intros Ha Hw Hnz. unfold luint_div_uint.
  assert (lu_ok (luint_from_uint w) /\ luval (luint_from_uint w) = w) as [Kw Vw].
  { split; [split; cbn; unfold u64, M64 in *; lia|cbn; unfold luval; cbn; lia]. }
  destruct (luint_div_Z a _ Ha Kw ltac:(lia)) as (K & V & _). rewrite Vw in V. split; assumption.
Qed.

(** ------------------------------------------------------------------ the small conversion / test helpers (bignum.h:65-126) *)
Lemma lsint_lt_0_Z a : ls_ok a -> lsint_lt_0 a = if luval a <? 0 then 1 else 0.
Proof.
  destruct a as [ah al]. intros [Hh Hl]. unfold lsint_lt_0, luval, s64, u64 in *. cbn [fst snd] in *. unfold M64 in *.
  destruct (Z.ltb_spec ah 0), (Z.ltb_spec (ah * 18446744073709551616 + al) 0); lia.
Qed.

Lemma fits_sint_Z x : ls_ok x ->
  sexp_lsint_fits_sint x = if (- 9223372036854775808 <=? luval x) && (luval x <? 9223372036854775808) then 1 else 0.
Proof.
  destruct x as [xh xl]. intros [Hh Hl]. unfold sexp_lsint_fits_sint, luval, s64, u64 in *. cbn [fst snd] in *.
  rewrite wrap64, swrap64, Z.shiftr_div_pow2 by lia. change (2 ^ 63) with 9223372036854775808. unfold M64 in *.
  set (sl := (xl + 9223372036854775808) mod 18446744073709551616 - 9223372036854775808).
  assert (sl = xl \/ sl = xl - 18446744073709551616) as Hsl by (unfold sl; lia).
  assert (sl mod 18446744073709551616 = xl) as Em by (unfold sl; lia).
  rewrite Em, Z.eqb_refl, andb_true_r.
  assert (sl / 9223372036854775808 = if xl <? 9223372036854775808 then 0 else -1) as Ed.
  { unfold sl. destruct (Z.ltb_spec xl 9223372036854775808); lia. }
  rewrite Ed.
  destruct (Z.ltb_spec xl 9223372036854775808), (Z.leb_spec (-9223372036854775808) (xh * 18446744073709551616 + xl)),
    (Z.ltb_spec (xh * 18446744073709551616 + xl) 9223372036854775808); cbn [andb];
    match goal with |- (if ?a =? ?b then _ else _) = _ => destruct (Z.eqb_spec a b) end; lia.
Qed.

Lemma fits_uint_Z x : lu_ok x -> sexp_luint_fits_uint x = if luval x <? M64 then 1 else 0.
Proof.
  destruct x as [xh xl]. intros [Hh Hl]. unfold sexp_luint_fits_uint, luval, u64 in *. cbn [fst snd] in *.
  rewrite Z.eqb_refl, andb_true_r. unfold M64 in *.
  destruct (Z.eqb_spec xh 0), (Z.ltb_spec (xh * 18446744073709551616 + xl) 18446744073709551616); lia.
Qed.

Lemma lsint_from_sint_Z v : s64 v -> ls_ok (lsint_from_sint v) /\ luval (lsint_from_sint v) = v.
Proof.
  intros Hv. unfold lsint_from_sint, ls_ok, luval, s64, u64 in *. cbv zeta. cbn [fst snd].
  rewrite wrap64, Z.shiftr_div_pow2 by lia. change (2 ^ 63) with 9223372036854775808. unfold M64 in *. lia.
Qed.

Lemma luint_from_uint_Z v : u64 v -> lu_ok (luint_from_uint v) /\ luval (luint_from_uint v) = v.
Proof. intros Hv. unfold luint_from_uint, lu_ok, luval, u64 in *. cbv zeta. cbn [fst snd]. unfold M64 in *. lia. Qed.

Lemma lsint_to_sint_Z v : ls_ok v ->
  s64 (lsint_to_sint v) /\ lsint_to_sint v mod M64 = luval v mod M64 /\ lsint_to_sint_hi v = luval v / M64.
Proof.
  destruct v as [vh vl]. intros [Hh Hl]. unfold lsint_to_sint, lsint_to_sint_hi, luval, s64, u64 in *. cbn [fst snd] in *.
  rewrite swrap64. unfold M64 in *. lia.
Qed.

Lemma luint_to_uint_Z v : lu_ok v -> luint_to_uint v = luval v mod M64 /\ luint_to_uint_hi v = luval v / M64.
Proof.
  destruct v as [vh vl]. intros [Hh Hl]. unfold luint_to_uint, luint_to_uint_hi, luval, u64 in *. cbn [fst snd] in *. unfold M64 in *. lia.
Qed.

Theorem conversions_Z :
  (forall a, ls_ok a -> lsint_lt_0 a = if luval a <? 0 then 1 else 0) /\
  (forall x, ls_ok x -> sexp_lsint_fits_sint x = if (- 9223372036854775808 <=? luval x) && (luval x <? 9223372036854775808) then 1 else 0) /\
  (forall x, lu_ok x -> sexp_luint_fits_uint x = if luval x <? M64 then 1 else 0) /\
  (forall v, s64 v -> ls_ok (lsint_from_sint v) /\ luval (lsint_from_sint v) = v) /\
  (forall v, u64 v -> lu_ok (luint_from_uint v) /\ luval (luint_from_uint v) = v) /\
  (forall v, ls_ok v -> s64 (lsint_to_sint v) /\ lsint_to_sint v mod M64 = luval v mod M64 /\ lsint_to_sint_hi v = luval v / M64) /\
  (forall v, lu_ok v -> luint_to_uint v = luval v mod M64 /\ luint_to_uint_hi v = luval v / M64) /\
  (forall v, ls_ok v -> lu_ok (luint_from_lsint v) /\ luval (luint_from_lsint v) = luval v mod M128) /\
  (forall v, lu_ok v -> ls_ok (lsint_from_luint v) /\ luval (lsint_from_luint v) = smod128 (luval v)).
Proof.
  split; [exact lsint_lt_0_Z|]. split; [exact fits_sint_Z|]. split; [exact fits_uint_Z|]. split; [exact lsint_from_sint_Z|].
  split; [exact luint_from_uint_Z|]. split; [exact lsint_to_sint_Z|]. split; [exact luint_to_uint_Z|].
  split; [exact luint_from_lsint_Z|exact lsint_from_luint_Z].
Qed.

(** ------------------------------------------------------------------ custom long longs refine the native 128-bit type
    at the three places the code uses them (bignum.c:247-266 fxmul, 269-280 fxdiv, 1516-1521 fix*fix; vm.c multiply):
    the step each loop body computes with the struct helpers is the step on Z that C04's model takes. *)
Definition fxmul_step (x b carry : Z) : Z * Z :=       (* bignum.c:257-259 -> (digit written, new carry) *)
  let n := luint_add (luint_mul_uint (luint_from_uint x) b) (luint_from_uint carry) in
  (luint_to_uint n, luint_to_uint (luint_shr n 64)).

Definition fxdiv_step (r d b : Z) : Z * Z :=           (* bignum.c:274-278 -> (quotient digit, new remainder) *)
  let n := luint_add (luint_shl (luint_from_uint r) 64) (luint_from_uint d) in
  let q := luint_to_uint (luint_div_uint n b) in
  (q, luint_to_uint (luint_sub n (luint_mul_uint (luint_from_uint q) b))).

Definition fixmul (a b : Z) : option Z :=              (* bignum.c:1517-1521: Some = fixnum result, None = hand over to bignums *)
  let prod := lsint_mul_sint (lsint_from_sint a) b in
  if lsint_is_fixnum prod =? 0 then None else Some (lsint_to_sint prod).

Theorem custom_long_longs_refines_native :
  (forall x b carry, u64 x -> u64 b -> u64 carry ->
     fxmul_step x b carry = ((x * b + carry) mod M64, (x * b + carry) / M64)) /\
  (forall r d b, u64 r -> u64 d -> u64 b -> r < b ->
     fxdiv_step r d b = ((r * M64 + d) / b, (r * M64 + d) mod b)) /\
  (forall a b, - 4611686018427387904 <= a <= 4611686018427387903 -> - 4611686018427387904 <= b <= 4611686018427387903 ->
     fixmul a b = if (- 4611686018427387904 <=? a * b) && (a * b <=? 4611686018427387903) then Some (a * b) else None).
Proof.
  split; [|split].
  - intros x b carry Hx Hb Hc. unfold fxmul_step. cbv zeta.
    destruct (luint_from_uint_Z x Hx) as [Kx Vx]. destruct (luint_from_uint_Z carry Hc) as [Kc Vc].
    destruct (luint_mul_uint_Z _ b Kx Hb) as (Km & Vm & _). destruct (luint_add_Z _ _ Km Kc) as [Kn Vn].
    destruct (luint_shr_Z _ 64 Kn ltac:(lia)) as [Ks Vs].
    destruct (luint_to_uint_Z _ Kn) as [E1 _]. destruct (luint_to_uint_Z _ Ks) as [E2 _].
    rewrite E1, E2, Vs, Vn, Vm, Vx, Vc. change (2 ^ 64) with M64.
    assert (0 <= x * b + carry < M128) as R by (unfold u64 in *; rewrite M128_M64; pose proof M64_pos; nia).
    rewrite (Z.mod_small (x * b) M128) by (unfold u64 in *; rewrite M128_M64 in *; pose proof M64_pos; nia).
    rewrite (Z.mod_small (x * b + carry) M128) by exact R.
    f_equal. apply Z.mod_small. split; [apply Z.div_pos; [lia|reflexivity]|].
    apply Z.div_lt_upper_bound; [reflexivity|]. rewrite <- M128_M64. lia.
  - intros r d b Hr Hd Hb Hlt. unfold fxdiv_step. cbv zeta.
    destruct (luint_from_uint_Z r Hr) as [Kr Vr]. destruct (luint_from_uint_Z d Hd) as [Kd Vd].
    destruct (luint_shl_Z _ 64 Kr ltac:(lia)) as [Ks Vs]. destruct (luint_add_Z _ _ Ks Kd) as [Kn Vn].
    assert (0 < b) as Hb0 by (unfold u64 in *; lia).
    set (N := r * M64 + d).
    assert (0 <= N < b * M64) as RN by (unfold N, u64 in *; pose proof M64_pos; nia).
    assert (luval (luint_add (luint_shl (luint_from_uint r) 64) (luint_from_uint d)) = N) as VN.
    { rewrite Vn, Vs, Vr, Vd. change (2 ^ 64) with M64. unfold N.
      rewrite (Z.mod_small (r * M64) M128) by (unfold u64 in *; rewrite M128_M64; pose proof M64_pos; nia).
      apply Z.mod_small. unfold u64 in *. rewrite M128_M64. pose proof M64_pos. nia. }
    set (n := luint_add (luint_shl (luint_from_uint r) 64) (luint_from_uint d)) in *.
    destruct (luint_div_uint_Z n b Kn Hb ltac:(lia)) as [Kq Vq]. rewrite VN in Vq.
    assert (0 <= N / b < M64) as Rq.
    { split; [apply Z.div_pos; lia|]. apply Z.div_lt_upper_bound; [lia|]. lia. }
    destruct (luint_to_uint_Z _ Kq) as [Eq _]. rewrite Vq, (Z.mod_small _ _ Rq) in Eq. rewrite Eq.
    f_equal.
    destruct (luint_from_uint_Z (N / b) Rq) as [Kqq Vqq]. destruct (luint_mul_uint_Z _ b Kqq Hb) as (Km & Vm & _).
    destruct (luint_sub_Z n _ Kn Km) as [Ksb Vsb]. destruct (luint_to_uint_Z _ Ksb) as [Er _].
    rewrite Er, Vsb, Vm, Vqq, VN.
    pose proof (Z.div_mod N b ltac:(lia)) as EDM. pose proof (Z.mod_pos_bound N b Hb0) as RM.
    assert (0 <= N / b * b <= N) as Rp.
    { clear - EDM RM Rq Hb0. set (q := N / b) in *. set (rr := N mod b) in *. clearbody q rr. nia. }
    assert (b < M64) as HbM by (unfold u64 in Hb; lia).
    assert (N < M128) as RNM by (clear - RN HbM Hb0; rewrite M128_M64; pose proof M64_pos; nia).
    assert (M64 < M128) as HMM by reflexivity.
    rewrite (Z.mod_small (N / b * b) M128) by (clear - Rp RNM; lia).
    replace (N - N / b * b) with (N mod b) by (clear - EDM; lia).
    rewrite (Z.mod_small (N mod b) M128) by (clear - RM HbM HMM; lia).
    apply Z.mod_small. clear - RM HbM. lia.
  - intros a b Ha Hb. unfold fixmul. cbv zeta.
    assert (s64 a) as Sa by (unfold s64; lia). assert (s64 b) as Sb by (unfold s64; lia).
    destruct (lsint_from_sint_Z a Sa) as [Ka Va].
    destruct (lsint_mul_sint_Z _ b Ka Sb ltac:(lia)) as (Kp & Vp & _). rewrite Va in Vp.
    assert (- (M128 / 2) <= a * b < M128 / 2) as Rab by (unfold M128; nia).
    assert (smod128 (a * b) = a * b) as Esm by (unfold smod128, M128 in *; lia).
    rewrite Esm in Vp. rewrite (lsint_is_fixnum_Z _ Kp), Vp.
    destruct ((-4611686018427387904 <=? a * b) && (a * b <=? 4611686018427387903)) eqn:EF; cbn [Z.eqb]; [|reflexivity].
    f_equal. destruct (lsint_to_sint_Z _ Kp) as (S1 & S2 & _). rewrite Vp in S2.
    apply andb_prop in EF. destruct EF as [E1 E2]. apply Z.leb_le in E1, E2. unfold s64, M64 in *. lia.
Qed.
