(** C01 — evaluation never corrupts memory; errors stay contained: property theorems only. *)
From ChibiV Require Import Common.Words C01.Model C01.Proofs C01.TableProofs C01.Prims C01.PrimProofs
  C01.StackProofs C01.ConstProofs C01.Spec C01.SpecProofs Gen.C01_VmGuards Gen.C01_Stack Gen.C01_Consts
  C01.Recursion C01.RecursionProofs C01.RecursionGenProofs Gen.C01_Recursion
  C01.Frame C01.FrameProofs C01.FrameOps C01.FrameGen
  C01.ReadBuf C01.ReadBufProofs C01.ReadBufGenProofs Gen.C01_ReadBuf.
From Coq Require Import List ZArith.
Local Open Scope Z_scope.

(** ** part 1: opcode guards *)

(** the checker is sound: an accepted opcode body performs only rightly-typed, in-bounds accesses
    through its operands, for ALL operand values and all results of ill-typed unboxing *)
Theorem entry_safe_sound : forall e, entry_safe e = true -> forall st, trace_ok st (snd e).
Proof. exact entry_safe_sound_proof. Qed.
Print Assumptions entry_safe_sound.

(** generated obligation: every opcode body regenerated from vm.c is accepted *)
Theorem vm_ops_guarded : forallb entry_safe vm_table = true.
Proof. exact vm_ops_guarded_proof. Qed.
Print Assumptions vm_ops_guarded.

Theorem vm_table_size : (24 <= length vm_table)%nat.
Proof. exact vm_table_size_proof. Qed.
Print Assumptions vm_table_size.

(** hence: every access of every translated opcode of this vm.c is safe on every operand state *)
Theorem vm_ops_accesses_safe : forall e, In e vm_table -> forall st, trace_ok st (snd e).
Proof. exact vm_ops_accesses_safe_proof. Qed.
Print Assumptions vm_ops_accesses_safe.

(** the regenerated guards implement the hand-written SPEC of the 24 opcode-backed primitives (round 3: + char->integer,
    integer->char, char-upcase, char-downcase, write-char, read-char, peek-char):
    whenever no guard raises, the SPEC does not demand an error ... *)
Theorem guards_refine_spec : forall p a1 a2 a3 a4,
  passes (prim_code p) a1 a2 a3 a4 -> spec p (prim_args p a1 a2 a3) <> MustError.
Proof. exact guards_refine_spec_proof. Qed.
Print Assumptions guards_refine_spec.

(** ... and the guards are not stricter than the domain in which the SPEC demands a value *)
Theorem guards_complete_spec : forall p a1 a2 a3 a4,
  spec p (prim_args p a1 a2 a3) = MustValue -> passes (prim_code p) a1 a2 a3 a4.
Proof. exact guards_complete_spec_proof. Qed.
Print Assumptions guards_complete_spec.

(** ** part 2: foreign primitives — error, or every region inside its buffer, for all arguments *)

Theorem prim_regions_in_bounds_substring : forall str start end_,
  wf_val str -> regions_ok (prim_substring str start end_).
Proof. exact prim_substring_safe. Qed.
Print Assumptions prim_regions_in_bounds_substring.

Theorem prim_regions_in_bounds_subbytes : forall vec start end_,
  wf_val vec -> regions_ok (prim_subbytes vec start end_).
Proof. exact prim_subbytes_safe. Qed.
Print Assumptions prim_regions_in_bounds_subbytes.

Theorem prim_regions_in_bounds_cursor_to_index : forall str off, regions_ok (prim_cursor_to_index str off).
Proof. exact prim_cursor_to_index_safe. Qed.
Print Assumptions prim_regions_in_bounds_cursor_to_index.

Theorem prim_regions_in_bounds_index_to_cursor : forall p index, regions_ok (fst (prim_index_to_cursor p index)).
Proof. exact prim_index_to_cursor_safe. Qed.
Print Assumptions prim_regions_in_bounds_index_to_cursor.

Theorem index_scan_fuel_suffices : forall fuel p limit i j reads,
  limit <= j + Z.of_nat fuel ->
  let '(i', j', _) := index_scan fuel p limit i j reads in i' <= 0 \/ limit <= j'.
Proof. exact index_scan_fuel. Qed.
Print Assumptions index_scan_fuel_suffices.

Theorem prim_regions_in_bounds_make_bytes : forall len, regions_ok (prim_make_bytes len).
Proof. exact prim_make_bytes_safe. Qed.
Print Assumptions prim_regions_in_bounds_make_bytes.

(** string-cursor-ref reads the continuation bytes its lead byte announces: in bounds when every
    lead byte of the string has its continuation bytes inside the string ... *)
Theorem string_ref_continuation_in_bounds : forall p i,
  leads_complete p -> 0 <= i < Z.of_nat (length p) -> in_bounds (prim_utf8_ref p i).
Proof. exact prim_utf8_ref_safe. Qed.
Print Assumptions string_ref_continuation_in_bounds.

(** ... and NOT in general: sexp_string_utf8_ref trusts the lead byte (witness "a\xf0", cursor 1:
    two bytes past the terminator).  Candidate F-C01-2, recorded, not repaired. *)
Theorem string_ref_trusts_lead_byte_refuted :
  exists p i, 0 <= i < Z.of_nat (length p) /\ ~ in_bounds (prim_utf8_ref p i).
Proof. exact prim_utf8_ref_trusts_lead_byte_refuted. Qed.
Print Assumptions string_ref_trusts_lead_byte_refuted.

(** the REPAIRED sexp_string_utf8_ref (fixes/C01-utf8-truncated-lead-byte.patch) needs no premise on the bytes: for ANY byte
    content and any cursor inside the string, an error or a read inside the string ... *)
Theorem string_ref_checked_in_bounds : forall p i, 0 <= i < Z.of_nat (length p) ->
  match prim_utf8_ref_checked p i with POk rs => Forall in_bounds rs | PErr _ => True end.
Proof. exact prim_utf8_ref_checked_safe. Qed.
Print Assumptions string_ref_checked_in_bounds.

(** ... and the new error is raised only for a lead byte that really is cut off by the end of the string *)
Theorem string_ref_checked_complete : forall p i, 0 <= i < Z.of_nat (length p) ->
  i + utf8_ref_len (nth (Z.to_nat i) p 0) <= Z.of_nat (length p) ->
  prim_utf8_ref_checked p i = POk (cons (prim_utf8_ref p i) nil).
Proof. exact prim_utf8_ref_checked_complete. Qed.
Print Assumptions string_ref_checked_complete.

(** string-set! (sexp_string_utf8_set, repaired: old_len clamped to the bytes that are left): all five regions of the resize
    inside their buffers for ANY byte content, cursor inside the string and ANY character (1..4 bytes; integer->char accepts
    every fixnum and sexp_utf8_char_byte_count answers 1..4 for all of them) *)
Theorem string_set_regions_in_bounds : forall p i n, (forall k, 0 <= nth k p 0) -> 0 <= i < Z.of_nat (length p) -> 1 <= n <= 4 ->
  Forall in_bounds (prim_utf8_set true p i n).
Proof. exact prim_utf8_set_safe. Qed.
Print Assumptions string_set_regions_in_bounds.

(** the pinned arithmetic computes a negative copy length: witness "aaaa\xf0", (string-set! s 4 #\b) (F-C01-2, repaired) *)
Theorem string_set_pinned_refuted :
  exists p i n, (forall k, 0 <= nth k p 0) /\ 0 <= i < Z.of_nat (length p) /\ 1 <= n <= 4 /\
                ~ Forall in_bounds (prim_utf8_set false p i n).
Proof. exact prim_utf8_set_unclamped_refuted. Qed.
Print Assumptions string_set_pinned_refuted.

(** generated obligation: with the constants of the headers the vector allocation size cannot wrap *)
Theorem vector_size_no_wrap : max_vector_length * word_bytes + vector_header_bytes < B.
Proof. exact vector_size_no_wrap_proof. Qed.
Print Assumptions vector_size_no_wrap.

Theorem prim_regions_in_bounds_make_vector : forall clen,
  regions_ok (prim_make_vector max_vector_length vector_header_bytes word_bytes clen).
Proof. exact make_vector_in_bounds_proof. Qed.
Print Assumptions prim_regions_in_bounds_make_vector.

(** the bound of the pinned headers did not have the property (F-C01-4, repaired) *)
Theorem make_vector_pinned_bound_refuted :
  ~ regions_ok (prim_make_vector 2305843009213693951 16 8 2305843009213693951).
Proof. exact prim_make_vector_pinned_bound_refuted. Qed.
Print Assumptions make_vector_pinned_bound_refuted.

(** generated obligation: the cursor encoding assumed by the model is the one of the headers *)
Theorem cursor_encoding : cursor_bits = 3 /\ cursor_tag = 2 /\ disjoint_cursors = 1 /\ 2 ^ (64 - cursor_bits - 1) = Q60.
Proof. exact cursor_encoding_proof. Qed.
Print Assumptions cursor_encoding.

(** ** part 3: stack growth (functions regenerated from vm.c) *)

Theorem grow_policy : forall MAX len top n,
  0 <= top -> top + 2 <= len -> len <= MAX -> 0 <= n ->
  match gen_ensure_stack MAX len top n with
  | Some l => top + n < l /\ l <= MAX /\ len <= l
              /\ (l <> len -> gen_grow_copy top <= len /\ gen_grow_copy top <= l)
  | None => MAX <= top + n
  end.
Proof. exact grow_policy_proof. Qed.
Print Assumptions grow_policy.

Theorem stack_checks_enabled : check_stack = 1 /\ grow_stack = 1 /\ init_stack_size <= max_stack_size.
Proof. exact stack_checks_enabled_proof. Qed.
Print Assumptions stack_checks_enabled.

(** the arithmetic of the pinned tree did not have the property (F-C01-3, repaired) *)
Theorem pinned_grow_insufficient :
  exists MAX len top n l, 0 <= top /\ top + 2 <= len /\ len <= MAX /\ 0 <= n /\
    pinned_ensure_stack MAX len top n = Some l /\ l <= top + n.
Proof. exact pinned_grow_insufficient_proof. Qed.
Print Assumptions pinned_grow_insufficient.

(** ** part 4 (round 2): depth-bounded C recursion on data *)

(** for ANY table of call sites that pass bound+1 and ANY data (any sequence of sites a C stack of nested
    sexp_write_one activations goes through): at most WB+3 activations *)
Theorem write_depth_bounded : forall WB (table p : list site) f',
  forallb site_ok table = true -> (forall s, In s p -> In s table) ->
  run WB (Bounded 0) p = Some f' -> (length p <= WB + 3)%nat.
Proof. exact write_depth_bounded_proof. Qed.
Print Assumptions write_depth_bounded.

(** generated obligation: the call sites of sexp_write_one in THIS sexp.c (clang AST) all pass bound+1 *)
Theorem write_sites_pass_bound : forallb site_ok (map snd write_sites) = true /\ (7 <= length write_sites)%nat.
Proof. exact write_sites_pass_bound_proof. Qed.
Print Assumptions write_sites_pass_bound.

Theorem write_recursion_bounded : forall (p : list site) f',
  (forall s, In s p -> In s (map snd write_sites)) ->
  run (Z.to_nat write_bound) (Bounded 0) p = Some f' ->
  Z.of_nat (length p) <= write_bound + 3.
Proof. exact write_recursion_bounded_proof. Qed.
Print Assumptions write_recursion_bounded.

(** one site that keeps its bound (the seeded elts[0] change), or restarts it on an arbitrary object (the
    pinned SEXP_SYNCLO case, repaired), and the recursion is unbounded: witnesses of every length *)
Theorem write_depth_unbounded_if_a_site_keeps_bound : forall WB n, (0 < WB)%nat ->
  run WB (Bounded 0) (repeat (Rec 0) n) = Some (Bounded 0).
Proof. exact write_depth_unbounded_if_a_site_keeps_bound_proof. Qed.
Print Assumptions write_depth_unbounded_if_a_site_keeps_bound.

Theorem write_depth_unbounded_if_a_site_resets : forall WB n,
  run WB (Bounded 0) (repeat (Reset OtherObj) n) = Some (Bounded 0).
Proof. exact write_depth_unbounded_if_a_site_resets_proof. Qed.
Print Assumptions write_depth_unbounded_if_a_site_resets.

(** generated obligations: equal? / strip-syntactic-closures pass depth-1; analyzer call graph *)
Theorem equal_strip_sites_pass_bound :
  forallb site_ok (map snd equal_sites) = true /\ (1 <= length equal_sites)%nat /\
  forallb site_ok (map snd strip_sites) = true /\ (6 <= length strip_sites)%nat.
Proof. exact equal_strip_sites_pass_bound_proof. Qed.
Print Assumptions equal_strip_sites_pass_bound.

Theorem analyze_cycles_increment_depth : graph_ok analyze_nfun analyze_edges = true /\ (25 <= length analyze_edges)%nat.
Proof. exact analyze_cycles_increment_depth_proof. Qed.
Print Assumptions analyze_cycles_increment_depth.

(** with a rank certificate a chain of analyzer calls that all pass depth on unchanged is no longer than the rank of
    the function it starts in (for any graph); the certificate regenerated for THIS eval.c checks *)
Theorem same_chain_bounded : forall (rank : nat -> nat) (es : list edge),
  forallb (edge_ok rank) es = true -> forall p v, same_chain es v p -> (length p <= rank v)%nat.
Proof. exact same_chain_bounded_proof. Qed.
Print Assumptions same_chain_bounded.

Theorem analyze_same_chain_bounded : forall p v, same_chain analyze_edges v p -> (length p <= nth v analyze_rank 0)%nat.
Proof. exact analyze_same_chain_bounded_proof. Qed.
Print Assumptions analyze_same_chain_bounded.

Theorem equal_recursion_bounded : forall (p : list site) f',
  (forall s, In s p -> In s (map snd equal_sites)) ->
  run (Z.to_nat equal_depth + 1) (Bounded 0) p = Some f' ->
  Z.of_nat (length p) <= equal_depth + 4.
Proof. exact equal_recursion_bounded_proof. Qed.
Print Assumptions equal_recursion_bounded.

(** ** part 5: the call / return / raise frame protocol (coq/C01/Frame.v mirrors vm.c on the stack ARRAY: every index read or
    written is logged, the model does not protect itself) *)

(** make_call (vm.c make_call: fixed / rest-list / unused-rest protocols) with the growth arithmetic REGENERATED from vm.c:
    for all arities, argument counts and flags it writes only stack[top-i-1 .. top+3], reads only stack[top-i-1 .. top-1], all
    below the length of the (possibly regrown) stack, and changes nothing else *)
Theorem call_protocol_in_frame : forall MAX tmp1 p i ret_ip s s',
  0 <= i -> i + 1 <= top s -> 0 <= p_nargs p -> 0 <= p_depth p ->
  make_call (gen_grow MAX) tmp1 (Some p) i ret_ip s = Enter s' ->
  (exists new, wlog s' = new ++ wlog s /\
     Forall (fun k => 0 <= k /\ top s - i - 1 <= k <= top s + 3 /\ k < len s') new) /\
  (exists new, rlog s' = new ++ rlog s /\
     Forall (fun k => 0 <= k /\ top s - i - 1 <= k <= top s - 1 /\ k < len s') new) /\
  (forall k, ~ (top s - i - 1 <= k <= top s + 3) -> mem s' k = mem s k) /\
  len s <= len s'.
Proof. exact C01.FrameGen.call_protocol_in_frame_gen. Qed.
Print Assumptions call_protocol_in_frame.

(** the margin left by sexp_ensure_stack(max_depth+64): what RAISE's 4-word push and sexp_raise's 1-word push rely on *)
Theorem call_margin : forall MAX tmp1 p i ret_ip s s',
  0 <= i -> 0 <= p_nargs p -> 0 <= p_depth p ->
  make_call (gen_grow MAX) tmp1 (Some p) i ret_ip s = Enter s' ->
  forall t', t' <= fp s' + 4 + p_depth p -> t' + 59 < len s'.
Proof. exact C01.FrameGen.margin_after_call_gen. Qed.
Print Assumptions call_margin.

(** the same for ANY growth function with the grow_policy property *)
Theorem call_protocol_in_frame_any_growth : forall grow tmp1 p i ret_ip s s',
  grow_ok grow -> 0 <= i -> i + 1 <= top s -> 0 <= p_nargs p -> 0 <= p_depth p ->
  make_call grow tmp1 (Some p) i ret_ip s = Enter s' ->
  (exists new, wlog s' = new ++ wlog s /\
     Forall (fun k => 0 <= k /\ top s - i - 1 <= k <= top s + 3 /\ k < len s') new) /\
  (exists new, rlog s' = new ++ rlog s /\
     Forall (fun k => 0 <= k /\ top s - i - 1 <= k <= top s - 1 /\ k < len s') new) /\
  (forall k, ~ (top s - i - 1 <= k <= top s + 3) -> mem s' k = mem s k) /\
  len s <= len s'.
Proof. exact C01.FrameProofs.call_protocol_in_frame. Qed.
Print Assumptions call_protocol_in_frame_any_growth.

(** the frame the callee sees: header (argument count, return ip, caller, caller's fp), base = top-i-1 for all three protocols *)
Theorem make_call_frame_shape : forall grow tmp1 p i ret_ip s s',
  grow_ok grow -> 0 <= i -> 0 <= p_nargs p ->
  make_call grow tmp1 (Some p) i ret_ip s = Enter s' ->
  fp s' = top s' - 4 /\ self s' = tmp1 /\ ip s' = 0 /\
  (exists i', mem s' (fp s') = CFix i' /\ fp s' - i' = top s - i - 1 /\ 0 <= i') /\
  mem s' (fp s' + 1) = CFix ret_ip /\
  mem s' (fp s' + 2) = self s /\
  mem s' (fp s' + 3) = CFix (fp s) /\
  (forall k, k < top s - i - 1 -> mem s' k = mem s k).
Proof. exact C01.FrameProofs.make_call_frame_shape. Qed.
Print Assumptions make_call_frame_shape.

(** the arguments arrive: fixed ones unchanged, the surplus ones as a list in call order / '() / left in place *)
Theorem make_call_args_delivered : forall grow tmp1 p i ret_ip s s',
  grow_ok grow -> 0 <= i -> 0 <= p_nargs p ->
  make_call grow tmp1 (Some p) i ret_ip s = Enter s' ->
  (* fixed argument m (first argument = m 0, at top-2) unchanged, all protocols *)
  (forall m, 0 <= m < p_nargs p -> mem s' (fp s' - 1 - m) = mem s (top s - 2 - m)) /\
  (* rest USED, j = i - nargs > 0: the j surplus arguments, in call order *)
  (p_variadic p = true -> p_unused_rest p = false -> 0 < i - p_nargs p ->
   mem s' (fp s' - 1 - p_nargs p)
   = list_of (rev (seg_up (mem s) (top s - i - 1) (Z.to_nat (i - p_nargs p))))) /\
  (* rest USED, exact count: '() *)
  (p_variadic p = true -> p_unused_rest p = false -> i = p_nargs p ->
   mem s' (fp s' - 1 - p_nargs p) = CNull) /\
  (* rest UNUSED or not variadic: all i arguments stay in place *)
  (p_variadic p = false \/ p_unused_rest p = true ->
   forall m, 0 <= m < i -> mem s' (fp s' - 1 - m) = mem s (top s - 2 - m)).
Proof. exact C01.FrameOps.make_call_args_delivered. Qed.
Print Assumptions make_call_args_delivered.

(** RET after any of the protocols pops the procedure and ALL arguments, pushes the result, restores fp / self / ip; one write, at the base *)
Theorem frame_restored_by_ret : forall grow tmp1 p i ret_ip s s1 s2,
  grow_ok grow -> 0 <= i -> i + 1 <= top s -> 0 <= p_nargs p -> 0 <= p_depth p ->
  make_call grow tmp1 (Some p) i ret_ip s = Enter s1 ->
  fp s2 = fp s1 -> len s1 <= len s2 ->
  mem s2 (fp s1) = mem s1 (fp s1) -> mem s2 (fp s1 + 1) = mem s1 (fp s1 + 1) ->
  mem s2 (fp s1 + 2) = mem s1 (fp s1 + 2) -> mem s2 (fp s1 + 3) = mem s1 (fp s1 + 3) ->
  fp s1 + 5 <= top s2 ->
  (forall k, k < top s - i - 1 -> mem s2 k = mem s1 k) ->
  top (op_ret s2) = top s - i /\
  mem (op_ret s2) (top (op_ret s2) - 1) = mem s2 (top s2 - 1) /\
  fp (op_ret s2) = fp s /\ self (op_ret s2) = self s /\ ip (op_ret s2) = ret_ip /\
  (forall k, k < top s - i - 1 -> mem (op_ret s2) k = mem s k) /\
  wlog (op_ret s2) = (top s - i - 1) :: wlog s2 /\
  0 <= top s - i - 1 < len s2 /\
  (exists i', rlog (op_ret s2) = [fp s1 + 3; fp s1 + 1; fp s1 + 2; top s2 - 1; fp s1] ++ rlog s2 /\
              fp s1 - i' = top s - i - 1 /\ 0 <= i') /\
  len (op_ret s2) = len s2.
Proof. exact C01.FrameProofs.frame_restored_by_ret. Qed.
Print Assumptions frame_restored_by_ret.

(** SEXP_OP_CALL as a whole *)
Theorem op_call_in_frame : forall grow decode i s p s',
  grow_ok grow -> 0 <= i -> i + 1 <= top s ->
  decode (mem s (top s - 1)) = Some p -> 0 <= p_nargs p -> 0 <= p_depth p ->
  op_call grow decode i s = Enter s' ->
  acc (fun k => top s - i - 1 <= k <= top s + 3 /\ 0 <= k < len s')
      (fun k => top s - i - 1 <= k <= top s - 1 /\ 0 <= k < len s') s s' /\
  len s <= len s' /\ self s' = mem s (top s - 1) /\ fp s' = top s' - 4 /\
  (exists i', mem s' (fp s') = CFix i' /\ fp s' - i' = top s - i - 1 /\ 0 <= i') /\
  mem s' (fp s' + 1) = CFix (ip s + 1) /\ mem s' (fp s' + 2) = self s /\
  mem s' (fp s' + 3) = CFix (fp s).
Proof. exact C01.FrameOps.op_call_in_frame. Qed.
Print Assumptions op_call_in_frame.

(** SEXP_OP_TAIL_CALL: the frame is reused (same base), the argument copy never clobbers an unread source, old return info carried over *)
Theorem op_tail_call_in_frame : forall grow decode i s j p s',
  grow_ok grow -> mem s (fp s) = CFix j -> 0 <= j <= fp s -> 0 <= i ->
  fp s + 4 + i + 1 <= top s -> top s <= len s ->
  decode (mem s (top s - 1)) = Some p -> 0 <= p_nargs p -> 0 <= p_depth p ->
  op_tail_call grow decode i s = Enter s' ->
  acc (fun k => fp s - j <= k <= fp s - j + i + 4 /\ 0 <= k < len s')
      (fun k => fp s - j <= k <= top s - 1 /\ 0 <= k < len s') s s' /\
  len s <= len s' /\ self s' = mem s (top s - 1) /\ fp s' = top s' - 4 /\
  (exists i', mem s' (fp s') = CFix i' /\ fp s' - i' = fp s - j /\ 0 <= i') /\
  (* the return information of the reused frame is carried over *)
  mem s' (fp s' + 1) = CFix (unbox (mem s (fp s + 1))) /\
  mem s' (fp s' + 2) = mem s (fp s + 2) /\
  mem s' (fp s' + 3) = CFix (unbox (mem s (fp s + 3))).
Proof. exact C01.FrameOps.op_tail_call_in_frame. Qed.
Print Assumptions op_tail_call_in_frame.

(** SEXP_OP_APPLY1 with a proper list of any length: ensure(i+64+depth) makes room for the spread arguments *)
Theorem op_apply1_in_frame : forall grow decode args s j p s',
  grow_ok grow -> mem s (fp s) = CFix j -> 0 <= j <= fp s -> fp s + 6 <= top s ->
  decode (mem s (top s - 1)) = Some p -> 0 <= p_nargs p -> 0 <= p_depth p ->
  op_apply1 grow decode args true s = Enter s' ->
  acc (fun k => fp s - j <= k <= fp s - j + Z.of_nat (length args) + 4 /\ 0 <= k < len s')
      (fun k => (fp s - j <= k <= fp s - j + Z.of_nat (length args) \/ fp s <= k <= top s - 1)
                /\ 0 <= k < len s') s s' /\
  len s <= len s' /\ self s' = mem s (top s - 1) /\ fp s' = top s' - 4 /\
  (exists i', mem s' (fp s') = CFix i' /\ fp s' - i' = fp s - j /\ 0 <= i') /\
  mem s' (fp s' + 1) = CFix (unbox (mem s (fp s + 1))) /\
  mem s' (fp s' + 2) = mem s (fp s + 2) /\
  mem s' (fp s' + 3) = CFix (unbox (mem s (fp s + 3))).
Proof. exact C01.FrameOps.op_apply1_in_frame. Qed.
Print Assumptions op_apply1_in_frame.

(** ... and with an improper list: top restored, error raised, writes inside the stack *)
Theorem op_apply1_improper_in_frame : forall grow decode args s j msg s',
  grow_ok grow -> mem s (fp s) = CFix j -> 0 <= j <= fp s -> fp s + 6 <= top s ->
  (forall p, decode (mem s (top s - 1)) = Some p -> 0 <= p_depth p) ->
  op_apply1 grow decode args false s = Raise msg s' ->
  msg = MSG_IMPROPER /\ top s' = top s + 1 /\
  acc (fun k => (fp s - j <= k <= fp s - j + Z.of_nat (length args) \/ k = top s)
                /\ 0 <= k < len s')
      (fun k => fp s <= k <= top s /\ 0 <= k < len s') s s' /\
  fp s' = unbox (mem s (fp s + 3)) /\ len s <= len s'.
Proof. exact C01.FrameOps.op_apply1_improper_in_frame. Qed.
Print Assumptions op_apply1_improper_in_frame.

(** CALL ... RET round trip *)
Theorem frame_round_trip_call : forall grow decode i s p s1 s2,
  grow_ok grow -> 0 <= i -> i + 1 <= top s ->
  decode (mem s (top s - 1)) = Some p -> 0 <= p_nargs p -> 0 <= p_depth p ->
  op_call grow decode i s = Enter s1 ->
  fp s2 = fp s1 -> len s1 <= len s2 ->
  mem s2 (fp s1) = mem s1 (fp s1) -> mem s2 (fp s1 + 1) = mem s1 (fp s1 + 1) ->
  mem s2 (fp s1 + 2) = mem s1 (fp s1 + 2) -> mem s2 (fp s1 + 3) = mem s1 (fp s1 + 3) ->
  fp s1 + 5 <= top s2 ->
  (forall k, k < top s - i - 1 -> mem s2 k = mem s1 k) ->
  top (op_ret s2) = top s - i /\
  mem (op_ret s2) (top (op_ret s2) - 1) = mem s2 (top s2 - 1) /\
  fp (op_ret s2) = fp s /\ self (op_ret s2) = self s /\ ip (op_ret s2) = ip s + 1 /\
  (forall k, k < top s - i - 1 -> mem (op_ret s2) k = mem s k) /\
  wlog (op_ret s2) = (top s - i - 1) :: wlog s2 /\
  0 <= top s - i - 1 < len s2.
Proof. exact C01.FrameOps.frame_round_trip_call. Qed.
Print Assumptions frame_round_trip_call.

(** RAISE with a handler pushes exactly four words at top..top+3 *)
Theorem raise_push_in_bounds : forall htmp h is_exn s s',
  op_raise htmp (Some h) is_exn s = Handler s' ->
  wlog s' = [top s + 3; top s + 2; top s + 1; top s] ++ wlog s /\ rlog s' = rlog s /\
  top s' = top s + 4 /\ fp s' = top s /\ self s' = htmp /\ len s' = len s /\
  mem s' (fp s') = CFix 1 /\ mem s' (fp s' + 1) = CFix (ip s) /\
  mem s' (fp s' + 2) = self s /\ mem s' (fp s' + 3) = CFix (fp s) /\
  mem s' (fp s' - 1) = mem s (top s - 1) /\
  (forall k, k < top s -> mem s' k = mem s k) /\
  (0 <= top s -> top s + 3 < len s ->
   Forall (fun k => 0 <= k < len s') [top s + 3; top s + 2; top s + 1; top s]).
Proof. exact C01.FrameProofs.raise_push_in_bounds. Qed.
Print Assumptions raise_push_in_bounds.

(** the error exit of sexp_apply (repaired by /repo 8ddaf81) leaves the context's top where it was on entry, whatever the frames of the failed computation *)
Theorem raise_to_toplevel_restores : forall entry_top s, apply_exit entry_top true s = entry_top.
Proof. exact C01.FrameProofs.raise_to_toplevel_restores. Qed.
Print Assumptions raise_to_toplevel_restores.

(** ... and so does the normal exit (prologue, call, body, RET into the final resumer, DONE) *)
Theorem apply_normal_exit_restores_top : forall grow tmp1 p args s s1 s2,
  grow_ok grow -> 0 <= p_nargs p ->
  apply_entry grow tmp1 (Some p) args s = Enter s1 ->
  (* the body ran and left a result on top of the same frame *)
  fp s2 = fp s1 ->
  mem s2 (fp s1) = mem s1 (fp s1) -> mem s2 (fp s1 + 1) = mem s1 (fp s1 + 1) ->
  mem s2 (fp s1 + 2) = mem s1 (fp s1 + 2) -> mem s2 (fp s1 + 3) = mem s1 (fp s1 + 3) ->
  (* RET into the final resumer, whose code is DONE -> end_loop *)
  apply_exit (top s) false (op_ret s2) = top s /\
  fp (op_ret s2) = top s - 4 /\ self (op_ret s2) = FINAL_RESUMER /\ ip (op_ret s2) = 0 /\
  mem (op_ret s2) (top s) = mem s2 (top s2 - 1) /\
  wlog (op_ret s2) = top s :: wlog s2.
Proof. exact C01.FrameProofs.apply_normal_exit_restores_top. Qed.
Print Assumptions apply_normal_exit_restores_top.

(** sexp_eval_op: (top, params, child) of the calling context after = before, for a value and for an exception alike *)
Theorem eval_op_restores_context : forall ctx2 run c,
  c_top (fst (eval_op ctx2 run c)) = c_top c /\
  c_params (fst (eval_op ctx2 run c)) = c_params c /\
  c_child (fst (eval_op ctx2 run c)) = c_child c /\
  snd (eval_op ctx2 run c) = snd (run (mkctx (c_top c) CNull ctx2)).
Proof. exact C01.FrameProofs.eval_op_restores_context. Qed.
Print Assumptions eval_op_restores_context.

(** ** round 4: the buffer discipline of the reader's token collectors (model C01/ReadBuf.v, constants regenerated from sexp.c) *)

(** for constants with (largest write of one iteration) <= H + 1, where the code tests [i + H >= size] AFTER writing: every
    write, both sides of every memcpy of an expansion and the terminating NUL lie inside the buffer they go to, for ALL
    sequences of per-iteration write sizes, i.e. all tokens of all lengths *)
Theorem readbuf_discipline_in_bounds : forall p, rb_params_ok p = true ->
  forall ws, Forall (fun w => 0 <= w <= rb_maxw p) ws -> Forall region_ok (rb_collect p ws).
Proof. exact C01.ReadBufProofs.rb_collect_in_bounds. Qed.
Print Assumptions readbuf_discipline_in_bounds.

(** generated obligation: the constants of THIS sexp.c (initial size, the H of each expansion test, the most bytes
    sexp_utf8_char_byte_count can announce; the digit buffer's length, slack and snprintf bound) satisfy the condition *)
Theorem reader_buffers_have_headroom :
  rb_params_ok read_string_params = true /\ rb_params_ok read_symbol_params = true /\ fb_params_ok float_digits_params = true.
Proof. exact reader_buffers_have_headroom_proof. Qed.
Print Assumptions reader_buffers_have_headroom.

(** hence, for sexp_read_string as it is in this tree (string literals and |symbols|) ... *)
Theorem read_string_buffer_in_bounds : forall ws, Forall (fun w => 0 <= w <= rb_maxw read_string_params) ws ->
  Forall region_ok (rb_collect read_string_params ws).
Proof. exact read_string_in_bounds_proof. Qed.
Print Assumptions read_string_buffer_in_bounds.

(** ... for sexp_read_symbol (symbols, character names, #! names) ... *)
Theorem read_symbol_buffer_in_bounds : forall ws, Forall (fun w => 0 <= w <= rb_maxw read_symbol_params) ws ->
  Forall region_ok (rb_collect read_symbol_params ws).
Proof. exact read_symbol_in_bounds_proof. Qed.
Print Assumptions read_symbol_buffer_in_bounds.

(** ... and for the fixed digit buffer of sexp_read_float_tail, for any number of fraction digits *)
Theorem float_digit_buffer_in_bounds : forall w0 k, 1 <= w0 <= fb_whole float_digits_params -> 0 <= k ->
  Forall region_ok (fb_collect float_digits_params w0 k).
Proof. exact float_digits_in_bounds_proof. Qed.
Print Assumptions float_digit_buffer_in_bounds.

(** the condition is not slack: head-room 1 with the 4-byte escape (seeded change C01-c3) overruns on a 126-byte prefix *)
Theorem readbuf_headroom_one_refuted :
  ~ (forall ws, Forall (fun w => 0 <= w <= 4) ws -> Forall region_ok (rb_collect (mkrb 128 1 4) ws)).
Proof. exact C01.ReadBufProofs.rb_headroom_one_refuted. Qed.
Print Assumptions readbuf_headroom_one_refuted.

(** ** round 4: sexp_restore_stack (regenerated): the stack a continuation is restored onto — possibly the fresh, short stack of
    a later sexp_eval_string call — has room for the saved words plus the 64-word margin, or out-of-stack is reported *)
Theorem restore_policy : forall MAX slen n,
  0 <= n -> 0 < slen -> slen <= MAX ->
  match gen_restore_stack MAX slen n with
  | Some l => gen_restore_copy n + 64 <= l /\ l <= MAX /\ slen <= l
  | None => MAX <= n + 64
  end.
Proof. exact restore_policy_proof. Qed.
Print Assumptions restore_policy.
