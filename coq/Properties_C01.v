(** C01 — evaluation never corrupts memory; errors stay contained: property theorems only. *)
From ChibiV Require Import Common.Words C01.Model C01.Proofs C01.TableProofs C01.Prims C01.PrimProofs
  C01.StackProofs C01.ConstProofs C01.Spec C01.SpecProofs Gen.C01_VmGuards Gen.C01_Stack Gen.C01_Consts
  C01.Recursion C01.RecursionProofs C01.RecursionGenProofs Gen.C01_Recursion.
From Coq Require Import List ZArith.
Local Open Scope Z_scope.

(** ** part 1: opcode guards *)

(** the checker is sound: an accepted opcode body performs only rightly-typed, in-bounds accesses
    through its operands, for ALL operand values and all results of ill-typed unboxing *)
Theorem entry_safe_sound : forall e, entry_safe e = true -> forall st, trace_ok st (snd e).
Proof. exact entry_safe_sound_proof. Qed.
Print Assumptions entry_safe_sound.

(** generated obligation: every opcode body regenerated from vm.c is accepted *)
Theorem vm_ops_guarded : forallb entry_safe vm_table = true.
Proof. exact vm_ops_guarded_proof. Qed.
Print Assumptions vm_ops_guarded.

Theorem vm_table_size : (17 <= length vm_table)%nat.
Proof. exact vm_table_size_proof. Qed.
Print Assumptions vm_table_size.

(** hence: every access of every translated opcode of this vm.c is safe on every operand state *)
Theorem vm_ops_accesses_safe : forall e, In e vm_table -> forall st, trace_ok st (snd e).
Proof. exact vm_ops_accesses_safe_proof. Qed.
Print Assumptions vm_ops_accesses_safe.

(** the regenerated guards implement the hand-written SPEC of the 17 opcode-backed primitives:
    whenever no guard raises, the SPEC does not demand an error ... *)
Theorem guards_refine_spec : forall p a1 a2 a3 a4,
  passes (prim_code p) a1 a2 a3 a4 -> spec p (prim_args p a1 a2 a3) <> MustError.
Proof. exact guards_refine_spec_proof. Qed.
Print Assumptions guards_refine_spec.

(** ... and the guards are not stricter than the domain in which the SPEC demands a value *)
Theorem guards_complete_spec : forall p a1 a2 a3 a4,
  spec p (prim_args p a1 a2 a3) = MustValue -> passes (prim_code p) a1 a2 a3 a4.
Proof. exact guards_complete_spec_proof. Qed.
Print Assumptions guards_complete_spec.

(** ** part 2: foreign primitives — error, or every region inside its buffer, for all arguments *)

Theorem prim_regions_in_bounds_substring : forall str start end_,
  wf_val str -> regions_ok (prim_substring str start end_).
Proof. exact prim_substring_safe. Qed.
Print Assumptions prim_regions_in_bounds_substring.

Theorem prim_regions_in_bounds_subbytes : forall vec start end_,
  wf_val vec -> regions_ok (prim_subbytes vec start end_).
Proof. exact prim_subbytes_safe. Qed.
Print Assumptions prim_regions_in_bounds_subbytes.

Theorem prim_regions_in_bounds_cursor_to_index : forall str off, regions_ok (prim_cursor_to_index str off).
Proof. exact prim_cursor_to_index_safe. Qed.
Print Assumptions prim_regions_in_bounds_cursor_to_index.

Theorem prim_regions_in_bounds_index_to_cursor : forall p index, regions_ok (fst (prim_index_to_cursor p index)).
Proof. exact prim_index_to_cursor_safe. Qed.
Print Assumptions prim_regions_in_bounds_index_to_cursor.

Theorem index_scan_fuel_suffices : forall fuel p limit i j reads,
  limit <= j + Z.of_nat fuel ->
  let '(i', j', _) := index_scan fuel p limit i j reads in i' <= 0 \/ limit <= j'.
Proof. exact index_scan_fuel. Qed.
Print Assumptions index_scan_fuel_suffices.

Theorem prim_regions_in_bounds_make_bytes : forall len, regions_ok (prim_make_bytes len).
Proof. exact prim_make_bytes_safe. Qed.
Print Assumptions prim_regions_in_bounds_make_bytes.

(** string-cursor-ref reads the continuation bytes its lead byte announces: in bounds when every
    lead byte of the string has its continuation bytes inside the string ... *)
Theorem string_ref_continuation_in_bounds : forall p i,
  leads_complete p -> 0 <= i < Z.of_nat (length p) -> in_bounds (prim_utf8_ref p i).
Proof. exact prim_utf8_ref_safe. Qed.
Print Assumptions string_ref_continuation_in_bounds.

(** ... and NOT in general: sexp_string_utf8_ref trusts the lead byte (witness "a\xf0", cursor 1:
    two bytes past the terminator).  Candidate F-C01-2, recorded, not repaired. *)
Theorem string_ref_trusts_lead_byte_refuted :
  exists p i, 0 <= i < Z.of_nat (length p) /\ ~ in_bounds (prim_utf8_ref p i).
Proof. exact prim_utf8_ref_trusts_lead_byte_refuted. Qed.
Print Assumptions string_ref_trusts_lead_byte_refuted.

(** generated obligation: with the constants of the headers the vector allocation size cannot wrap *)
Theorem vector_size_no_wrap : max_vector_length * word_bytes + vector_header_bytes < B.
Proof. exact vector_size_no_wrap_proof. Qed.
Print Assumptions vector_size_no_wrap.

Theorem prim_regions_in_bounds_make_vector : forall clen,
  regions_ok (prim_make_vector max_vector_length vector_header_bytes word_bytes clen).
Proof. exact make_vector_in_bounds_proof. Qed.
Print Assumptions prim_regions_in_bounds_make_vector.

(** the bound of the pinned headers did not have the property (F-C01-4, repaired) *)
Theorem make_vector_pinned_bound_refuted :
  ~ regions_ok (prim_make_vector 2305843009213693951 16 8 2305843009213693951).
Proof. exact prim_make_vector_pinned_bound_refuted. Qed.
Print Assumptions make_vector_pinned_bound_refuted.

(** generated obligation: the cursor encoding assumed by the model is the one of the headers *)
Theorem cursor_encoding : cursor_bits = 3 /\ cursor_tag = 2 /\ disjoint_cursors = 1 /\ 2 ^ (64 - cursor_bits - 1) = Q60.
Proof. exact cursor_encoding_proof. Qed.
Print Assumptions cursor_encoding.

(** ** part 3: stack growth (functions regenerated from vm.c) *)

Theorem grow_policy : forall MAX len top n,
  0 <= top -> top + 2 <= len -> len <= MAX -> 0 <= n ->
  match gen_ensure_stack MAX len top n with
  | Some l => top + n < l /\ l <= MAX /\ len <= l
              /\ (l <> len -> gen_grow_copy top <= len /\ gen_grow_copy top <= l)
  | None => MAX <= top + n
  end.
Proof. exact grow_policy_proof. Qed.
Print Assumptions grow_policy.

Theorem stack_checks_enabled : check_stack = 1 /\ grow_stack = 1 /\ init_stack_size <= max_stack_size.
Proof. exact stack_checks_enabled_proof. Qed.
Print Assumptions stack_checks_enabled.

(** the arithmetic of the pinned tree did not have the property (F-C01-3, repaired) *)
Theorem pinned_grow_insufficient :
  exists MAX len top n l, 0 <= top /\ top + 2 <= len /\ len <= MAX /\ 0 <= n /\
    pinned_ensure_stack MAX len top n = Some l /\ l <= top + n.
Proof. exact pinned_grow_insufficient_proof. Qed.
Print Assumptions pinned_grow_insufficient.

(** ** part 4 (round 2): depth-bounded C recursion on data *)

(** for ANY table of call sites that pass bound+1 and ANY data (any sequence of sites a C stack of nested
    sexp_write_one activations goes through): at most WB+3 activations *)
Theorem write_depth_bounded : forall WB (table p : list site) f',
  forallb site_ok table = true -> (forall s, In s p -> In s table) ->
  run WB (Bounded 0) p = Some f' -> (length p <= WB + 3)%nat.
Proof. exact write_depth_bounded_proof. Qed.
Print Assumptions write_depth_bounded.

(** generated obligation: the call sites of sexp_write_one in THIS sexp.c (clang AST) all pass bound+1 *)
Theorem write_sites_pass_bound : forallb site_ok (map snd write_sites) = true /\ (7 <= length write_sites)%nat.
Proof. exact write_sites_pass_bound_proof. Qed.
Print Assumptions write_sites_pass_bound.

Theorem write_recursion_bounded : forall (p : list site) f',
  (forall s, In s p -> In s (map snd write_sites)) ->
  run (Z.to_nat write_bound) (Bounded 0) p = Some f' ->
  Z.of_nat (length p) <= write_bound + 3.
Proof. exact write_recursion_bounded_proof. Qed.
Print Assumptions write_recursion_bounded.

(** one site that keeps its bound (the seeded elts[0] change), or restarts it on an arbitrary object (the
    pinned SEXP_SYNCLO case, repaired), and the recursion is unbounded: witnesses of every length *)
Theorem write_depth_unbounded_if_a_site_keeps_bound : forall WB n, (0 < WB)%nat ->
  run WB (Bounded 0) (repeat (Rec 0) n) = Some (Bounded 0).
Proof. exact write_depth_unbounded_if_a_site_keeps_bound_proof. Qed.
Print Assumptions write_depth_unbounded_if_a_site_keeps_bound.

Theorem write_depth_unbounded_if_a_site_resets : forall WB n,
  run WB (Bounded 0) (repeat (Reset OtherObj) n) = Some (Bounded 0).
Proof. exact write_depth_unbounded_if_a_site_resets_proof. Qed.
Print Assumptions write_depth_unbounded_if_a_site_resets.

(** generated obligations: equal? / strip-syntactic-closures pass depth-1; analyzer call graph *)
Theorem equal_strip_sites_pass_bound :
  forallb site_ok (map snd equal_sites) = true /\ (1 <= length equal_sites)%nat /\
  forallb site_ok (map snd strip_sites) = true /\ (6 <= length strip_sites)%nat.
Proof. exact equal_strip_sites_pass_bound_proof. Qed.
Print Assumptions equal_strip_sites_pass_bound.

Theorem analyze_cycles_increment_depth : graph_ok analyze_nfun analyze_edges = true /\ (25 <= length analyze_edges)%nat.
Proof. exact analyze_cycles_increment_depth_proof. Qed.
Print Assumptions analyze_cycles_increment_depth.

(** with a rank certificate a chain of analyzer calls that all pass depth on unchanged is no longer than the rank of
    the function it starts in (for any graph); the certificate regenerated for THIS eval.c checks *)
Theorem same_chain_bounded : forall (rank : nat -> nat) (es : list edge),
  forallb (edge_ok rank) es = true -> forall p v, same_chain es v p -> (length p <= rank v)%nat.
Proof. exact same_chain_bounded_proof. Qed.
Print Assumptions same_chain_bounded.

Theorem analyze_same_chain_bounded : forall p v, same_chain analyze_edges v p -> (length p <= nth v analyze_rank 0)%nat.
Proof. exact analyze_same_chain_bounded_proof. Qed.
Print Assumptions analyze_same_chain_bounded.

Theorem equal_recursion_bounded : forall (p : list site) f',
  (forall s, In s p -> In s (map snd equal_sites)) ->
  run (Z.to_nat equal_depth + 1) (Bounded 0) p = Some f' ->
  Z.of_nat (length p) <= equal_depth + 4.
Proof. exact equal_recursion_bounded_proof. Qed.
Print Assumptions equal_recursion_bounded.
