(** C18 (G) tie: the guard / arithmetic functions regenerated from lib/chibi/iset/constructors.scm
    (coq/Gen/C18_ISetGuards.v, written by gen/c18_iset.py on every run) are equal to the hand-written
    model functions of coq/C18/ISet.v that the theorems of ISetProofs.v are about.  An edit of
    bits-thresh, range->bits, iset-should-merge-left? or iset-should-merge-right? in the Scheme
    source makes one of these lemmas fail, i.e. re-opens the proofs. *)
From Coq Require Import ZArith Bool.
From ChibiV Require Import C18.ISet Gen.C18_ISetGuards.
Local Open Scope Z_scope.

Lemma bits_thresh_tied : gen_bits_thresh = bits_thresh.
Proof. reflexivity. Qed.

Lemma range_bits_tied : forall s e, gen_range_bits s e = range_bits s e.
Proof. intros s e. reflexivity. Qed.

Lemma should_merge_left_tied : forall a b, gen_should_merge_left a b = should_merge_left a b.
Proof.
  intros a b. unfold gen_should_merge_left, should_merge_left, gen_bits_thresh, bits_thresh.
  destruct (t_left a); reflexivity.
Qed.

Lemma should_merge_right_tied : forall a b, gen_should_merge_right a b = should_merge_right a b.
Proof.
  intros a b. unfold gen_should_merge_right, should_merge_right, gen_bits_thresh, bits_thresh.
  destruct (t_right a); reflexivity.
Qed.

Theorem iset_guards_tied :
  gen_bits_thresh = bits_thresh /\
  (forall s e, gen_range_bits s e = range_bits s e) /\
  (forall a b, gen_should_merge_left a b = should_merge_left a b) /\
  (forall a b, gen_should_merge_right a b = should_merge_right a b).
Proof.
  split; [exact bits_thresh_tied|]. split; [exact range_bits_tied|]. split; [exact should_merge_left_tied | exact should_merge_right_tied].
Qed.
