(** C18 — SRFI 146 red-black tree: CONTENT theorems.  The model coq/C18/RBTree.v refines the finite-map oracle of
    coq/C18/SpecCont.v on the in-order listing [elements] (coq/C18/RBInv.v). *)
From Coq Require Import ZArith List Bool Lia Sorted.
From ChibiV Require Import C18.RBDefs C18.RBTree C18.RBInv C18.SpecCont C18.ContProofs.
Import ListNotations.
Local Open Scope Z_scope.

(** * A. the clause tables preserve the in-order listing *)

Ltac norm_app := cbn [elements]; repeat (rewrite <- app_assoc; cbn [app]); try reflexivity.
Ltac dmatch := repeat match goal with |- context [match ?u with _ => _ end] => destruct u end.

Lemma elements_blacken : forall t, elements (blacken t) = elements t.
Proof. intros t; unfold blacken; dmatch; reflexivity. Qed.

Lemma elements_redden : forall t, elements (redden t) = elements t.
Proof. intros t; unfold redden; dmatch; reflexivity. Qed.

Lemma elements_balance : forall t, elements (balance t) = elements t.
Proof. intros t; unfold balance; dmatch; norm_app. Qed.

Lemma elements_white_to_black : forall t t', white_to_black t = Some t' -> elements t' = elements t.
Proof.
  intros t t'; unfold white_to_black; dmatch; intros H; inversion H; reflexivity.
Qed.

Ltac dvar := repeat match goal with |- context [match ?u with _ => _ end] => is_var u; destruct u end.

Opaque balance.
Lemma elements_rotate : forall t t', rotate t = Some t' -> elements t' = elements t.
Proof.
  intros t t'; unfold rotate; dvar; cbn [white_to_black]; intros H; try discriminate H; injection H as <-;
    cbn [elements]; rewrite ?elements_balance; norm_app.
Qed.
Transparent balance.

Lemma min_delete_eq : forall c a x b,
  min_delete (Nd c a x b) =
  match c, a, b with
  | Red, Lf Black, Lf Black => Some (x, Lf Black)
  | Black, Lf Black, Lf Black => Some (x, Lf White)
  | Black, Lf Black, Nd Red a' y b' => Some (x, Nd Black a' y b')
  | _, _, _ => match min_delete a with
               | Some (v, a') => match rotate (Nd c a' x b) with Some o1 => Some (v, o1) | None => None end
               | None => None
               end
  end.
Proof. intros c a x b; destruct c, a as [[]|], b as [[]|[]]; reflexivity. Qed.

Lemma elements_min_delete : forall t x t', min_delete t = Some (x, t') -> elements t = x :: elements t'.
Proof.
  induction t as [c0|c l IHl x r _]; intros v t'.
  - destruct c0; discriminate.
  - rewrite min_delete_eq.
    assert (generic : match min_delete l with
               | Some (v, a') => match rotate (Nd c a' x r) with Some o1 => Some (v, o1) | None => None end
               | None => None
               end = Some (v, t') -> elements (Nd c l x r) = v :: elements t').
    { destruct (min_delete l) as [[v0 a']|] eqn:E; [|discriminate].
      destruct (rotate (Nd c a' x r)) as [o1|] eqn:R; [|discriminate].
      intros H; injection H as <- <-. apply elements_rotate in R. rewrite R.
      cbn [elements]. rewrite (IHl _ _ eq_refl). reflexivity. }
    dvar; try exact generic; intros H; injection H as <- <-; reflexivity.
Qed.

Lemma elements_remove_at : forall c a x b t',
  remove_at (Nd c a x b) c a b = Some t' -> elements t' = elements a ++ elements b.
Proof.
  intros c a x b t'. unfold remove_at.
  assert (generic : match min_delete b with
            | Some (x0, b0) => match rotate (Nd c a x0 b0) with Some o1 => Some o1 | None => None end
            | None => None
            end = Some t' -> elements t' = elements a ++ elements b).
  { destruct (min_delete b) as [[y b']|] eqn:E; [|discriminate].
    destruct (rotate (Nd c a y b')) as [o1|] eqn:R; [|discriminate].
    intros H; injection H as <-. apply elements_rotate in R. rewrite R.
    apply elements_min_delete in E. rewrite E. reflexivity. }
  dvar; try exact generic; intros H; injection H as <-; cbn [elements app]; rewrite ?app_nil_r; reflexivity.
Qed.

(** * B. sorted association lists of the form [l1 ++ (k,v) :: l2] *)

Definition ksorted (l : list (Z * Z)) : Prop := StronglySorted Z.lt (map fst l).
Definition all_lt (k : Z) (l : list (Z * Z)) : Prop := Forall (fun p => fst p < k) l.
Definition all_gt (k : Z) (l : list (Z * Z)) : Prop := Forall (fun p => k < fst p) l.

Lemma ksorted_nil : ksorted [].
Proof. constructor. Qed.

Lemma ksorted_cons_iff : forall k v l, ksorted ((k, v) :: l) <-> ksorted l /\ all_gt k l.
Proof.
  intros k v l; unfold ksorted, all_gt; cbn [map fst]; split.
  - intros H; inversion H as [|a l' Hs Hf]; subst; split; [assumption|].
    rewrite Forall_map in Hf; exact Hf.
  - intros [Hs Hf]; constructor; [assumption|]. rewrite Forall_map; exact Hf.
Qed.

Lemma ksorted_app_iff : forall l1 k v l2,
  ksorted (l1 ++ (k, v) :: l2) <-> ksorted l1 /\ ksorted l2 /\ all_lt k l1 /\ all_gt k l2.
Proof.
  induction l1 as [|[k1 v1] l1 IH]; intros k v l2; cbn [app].
  - rewrite ksorted_cons_iff; split.
    + intros [H1 H2]; repeat split; [constructor|assumption|constructor|assumption].
    + intros (_ & H1 & _ & H2); split; assumption.
  - rewrite !ksorted_cons_iff, IH; unfold all_gt, all_lt; split.
    + intros [(H1 & H2 & H3 & H4) H5]. apply Forall_app in H5 as [H5 H6].
      inversion H6 as [|? ? H7 H8]; subst; cbn [fst] in *.
      repeat split; try assumption. constructor; assumption.
    + intros ([H1 H1'] & H2 & H3 & H4). inversion H3 as [|? ? H5 H6]; subst; cbn [fst] in *.
      repeat split; try assumption.
      apply Forall_app; split; [assumption|]. constructor; [exact H5|].
      eapply Forall_impl; [|exact H4]. cbn beta; intros; lia.
Qed.

Lemma map_ref_all_gt : forall x l, all_gt x l -> map_ref x l = None.
Proof.
  intros x l H; induction H as [|[k v] l Hk _ IH]; [reflexivity|].
  cbn [map_ref fst] in *. destruct (Z.eqb_spec x k); [lia|exact IH].
Qed.

Lemma map_ref_all_lt : forall x l, all_lt x l -> map_ref x l = None.
Proof.
  intros x l H; induction H as [|[k v] l Hk _ IH]; [reflexivity|].
  cbn [map_ref fst] in *. destruct (Z.eqb_spec x k); [lia|exact IH].
Qed.

Lemma all_gt_weaken : forall x k l, x <= k -> all_gt k l -> all_gt x l.
Proof. intros x k l Hx H; eapply Forall_impl; [|exact H]; cbn beta; intros; lia. Qed.

Lemma all_lt_weaken : forall x k l, k <= x -> all_lt k l -> all_lt x l.
Proof. intros x k l Hx H; eapply Forall_impl; [|exact H]; cbn beta; intros; lia. Qed.

Lemma map_ref_app : forall x l1 k v l2, all_lt k l1 -> all_gt k l2 ->
  map_ref x (l1 ++ (k, v) :: l2) =
  if x =? k then Some v else if x <? k then map_ref x l1 else map_ref x l2.
Proof.
  intros x l1 k v l2 H1 H2; induction H1 as [|[k1 v1] l1 Hk _ IH]; cbn [app map_ref fst] in *.
  - destruct (Z.eqb_spec x k); [reflexivity|]. destruct (Z.ltb_spec x k); [|reflexivity].
    apply map_ref_all_gt. apply all_gt_weaken with k; [lia|assumption].
  - rewrite IH. destruct (Z.eqb_spec x k1), (Z.eqb_spec x k), (Z.ltb_spec x k); try lia; reflexivity.
Qed.

Lemma map_set_app : forall x w l1 k v l2, all_lt k l1 ->
  map_set x w (l1 ++ (k, v) :: l2) =
  if x =? k then l1 ++ (x, w) :: l2
  else if x <? k then map_set x w l1 ++ (k, v) :: l2 else l1 ++ (k, v) :: map_set x w l2.
Proof.
  intros x w l1 k v l2 H1; induction H1 as [|[k1 v1] l1 Hk _ IH]; cbn [app map_set fst] in *.
  - destruct (Z.eqb_spec x k), (Z.ltb_spec x k); try lia; reflexivity.
  - rewrite IH. destruct (Z.eqb_spec x k1), (Z.eqb_spec x k), (Z.ltb_spec x k), (Z.ltb_spec x k1); try lia; reflexivity.
Qed.

Lemma map_delete_absent : forall x l, map_ref x l = None -> map_delete x l = l.
Proof.
  intros x; induction l as [|[k v] l IH]; [reflexivity|]; cbn [map_ref map_delete filter fst].
  rewrite (Z.eqb_sym k x). destruct (x =? k); [discriminate|]. intros H; cbn [negb]. f_equal. apply IH, H.
Qed.

Lemma map_delete_app : forall x l1 k v l2, all_lt k l1 -> all_gt k l2 ->
  map_delete x (l1 ++ (k, v) :: l2) =
  if x =? k then l1 ++ l2
  else if x <? k then map_delete x l1 ++ (k, v) :: l2 else l1 ++ (k, v) :: map_delete x l2.
Proof.
  intros x l1 k v l2 H1 H2. unfold map_delete at 1. rewrite filter_app. cbn [filter fst].
  fold (map_delete x l1). fold (map_delete x l2). rewrite (Z.eqb_sym k x).
  destruct (Z.eqb_spec x k) as [->|Hne]; cbn [negb].
  - rewrite !map_delete_absent; [reflexivity|apply map_ref_all_gt, H2|apply map_ref_all_lt, H1].
  - destruct (Z.ltb_spec x k).
    + rewrite (map_delete_absent x l2); [reflexivity|].
      apply map_ref_all_gt, all_gt_weaken with k; [lia|assumption].
    + rewrite (map_delete_absent x l1); [reflexivity|].
      apply map_ref_all_lt, all_lt_weaken with k; [lia|assumption].
Qed.

(** the abstract effect of one search *)
Definition map_apply (obj : Z) (f : miss) (s : Z -> Z -> hit) (m : list (Z * Z)) : list (Z * Z) :=
  match map_ref obj m with
  | None => match f with Insert _ v => map_set obj v m | _ => m end
  | Some old => match s obj old with
                | Update _ v' => map_set obj v' m
                | Remove => map_delete obj m
                | HitEscape => m
                end
  end.

Lemma map_apply_app : forall obj f s l1 k v l2, all_lt k l1 -> all_gt k l2 ->
  map_apply obj f s (l1 ++ (k, v) :: l2) =
  if obj =? k then
    match s obj v with
    | Update _ v' => l1 ++ (obj, v') :: l2
    | Remove => l1 ++ l2
    | HitEscape => l1 ++ (k, v) :: l2
    end
  else if obj <? k then map_apply obj f s l1 ++ (k, v) :: l2
  else l1 ++ (k, v) :: map_apply obj f s l2.
Proof.
  intros obj f s l1 k v l2 H1 H2. unfold map_apply.
  rewrite (map_ref_app obj l1 k v l2 H1 H2).
  pose proof (map_set_app obj) as MS. pose proof (map_delete_app obj) as MD.
  destruct (obj =? k) eqn:E1.
  - destruct (s obj v); [rewrite MS by assumption|rewrite MD by assumption|]; rewrite ?E1; reflexivity.
  - destruct (obj <? k) eqn:E2.
    + destruct (map_ref obj l1) as [old|].
      * destruct (s obj old); [rewrite MS by assumption|rewrite MD by assumption|]; rewrite ?E1, ?E2; reflexivity.
      * destruct f; [rewrite MS by assumption| |]; rewrite ?E1, ?E2; reflexivity.
    + destruct (map_ref obj l2) as [old|].
      * destruct (s obj old); [rewrite MS by assumption|rewrite MD by assumption|]; rewrite ?E1, ?E2; reflexivity.
      * destruct f; [rewrite MS by assumption| |]; rewrite ?E1, ?E2; reflexivity.
Qed.

(** map_set / map_delete keep the keys strictly increasing *)
Lemma all_gt_map_set : forall a k v m, a < k -> all_gt a m -> all_gt a (map_set k v m).
Proof.
  intros a k v m Hk H; induction H as [|[k1 v1] m H1 H2 IH]; cbn [map_set].
  - constructor; [exact Hk|constructor].
  - cbn [fst] in H1. destruct (k <? k1); [|destruct (k =? k1)].
    + constructor; [exact Hk|]. constructor; assumption.
    + constructor; [exact Hk|assumption].
    + constructor; assumption.
Qed.

Lemma sorted_map_set : forall k v m, ksorted m -> ksorted (map_set k v m).
Proof.
  intros k v; induction m as [|[k1 v1] m IH]; intros H; cbn [map_set].
  - apply ksorted_cons_iff; split; constructor.
  - pose proof H as H0. apply ksorted_cons_iff in H as [H1 H2].
    destruct (Z.ltb_spec k k1); [|destruct (Z.eqb_spec k k1)].
    + apply ksorted_cons_iff; split; [exact H0|]. constructor; [exact H|].
      apply all_gt_weaken with k1; [lia|assumption].
    + subst k1. apply ksorted_cons_iff; split; assumption.
    + apply ksorted_cons_iff; split; [apply IH, H1|]. apply all_gt_map_set; [lia|assumption].
Qed.

Lemma ksorted_filter : forall (q : Z * Z -> bool) m, ksorted m -> ksorted (filter q m).
Proof.
  intros q; induction m as [|[k1 v1] m IH]; intros H; cbn [filter]; [exact H|].
  apply ksorted_cons_iff in H as [H1 H2]. destruct (q (k1, v1)); [|apply IH, H1].
  apply ksorted_cons_iff; split; [apply IH, H1|].
  unfold all_gt in *. rewrite Forall_forall in *. intros p Hp. apply H2. apply filter_In in Hp. tauto.
Qed.

Lemma sorted_map_delete : forall k m, ksorted m -> ksorted (map_delete k m).
Proof. intros k m; apply ksorted_filter. Qed.

Lemma sorted_map_apply : forall obj f s m, ksorted m -> ksorted (map_apply obj f s m).
Proof.
  intros obj f s m H; unfold map_apply.
  destruct (map_ref obj m) as [old|]; [destruct (s obj old)|destruct f];
    auto using sorted_map_set, sorted_map_delete.
Qed.

(** the search *)
Lemma elements_apply_op : forall op t t', apply_op op t = Some t' -> elements t' = elements t.
Proof.
  intros [] t t'; cbn [apply_op]; intros H.
  - injection H as <-; apply elements_balance.
  - injection H as <-; reflexivity.
  - apply elements_rotate, H.
Qed.

Definition keeps_key_miss (obj : Z) (f : miss) : Prop := forall k v, f = Insert k v -> k = obj.
Definition keeps_key_hit (obj : Z) (s : Z -> Z -> hit) : Prop := forall old k v, s obj old = Update k v -> k = obj.

Lemma search_refines : forall t obj f s, keys_sorted t -> keeps_key_miss obj f -> keeps_key_hit obj s ->
  match search t obj f s with
  | Built (t', _) => elements t' = map_apply obj f s (elements t)
  | Escaped => map_apply obj f s (elements t) = elements t
  | Raised => True
  end.
Proof.
  intros t obj f s Hs Hf Hh. induction t as [c0|c a IHa [k v] b IHb].
  - destruct c0; cbn [search]; try exact I.
    destruct f as [k' v'| |]; cbn [elements]; try reflexivity.
    rewrite (Hf k' v' eq_refl). reflexivity.
  - unfold keys_sorted in Hs, IHa, IHb. cbn [elements] in Hs. fold (ksorted (elements a ++ (k, v) :: elements b)) in Hs.
    apply ksorted_app_iff in Hs as (Sa & Sb & La & Gb).
    specialize (IHa Sa). specialize (IHb Sb).
    cbn [search elements]. unfold item_key, item_value, make_item. cbn [fst snd].
    generalize (map_apply_app obj f s _ k v _ La Gb).
    set (M := map_apply obj f s (elements a ++ (k, v) :: elements b)).
    destruct (Z.eqb_spec obj k) as [->|Hne].
    + destruct (s k v) as [k' v'| |] eqn:Es; intros MA.
      * rewrite (Hh _ _ _ Es). symmetry; exact MA.
      * destruct (remove_at (Nd c a (k, v) b) c a b) as [t'|] eqn:Er; [|exact I].
        apply elements_remove_at in Er. rewrite Er. symmetry; exact MA.
      * exact MA.
    + destruct (obj <? k); intros MA.
      * destruct (search a obj f s) as [[a' op]| |]; [|refine (eq_trans MA _); rewrite IHa; reflexivity|exact I].
        destruct (apply_op op (Nd c a' (k, v) b)) as [t'|] eqn:Eo; [|exact I].
        apply elements_apply_op in Eo. rewrite Eo. refine (eq_trans _ (eq_sym MA)). cbn [elements]. rewrite IHa. reflexivity.
      * destruct (search b obj f s) as [[b' op]| |]; [|refine (eq_trans MA _); rewrite IHb; reflexivity|exact I].
        destruct (apply_op op (Nd c a (k, v) b')) as [t'|] eqn:Eo; [|exact I].
        apply elements_apply_op in Eo. rewrite Eo. refine (eq_trans _ (eq_sym MA)). cbn [elements]. rewrite IHb. reflexivity.
Qed.

Lemma search_built_elements : forall t obj f s t' op,
  keys_sorted t -> (forall k v, f = Insert k v -> k = obj) -> (forall old k v, s obj old = Update k v -> k = obj) ->
  search t obj f s = Built (t', op) -> elements t' = map_apply obj f s (elements t).
Proof.
  intros t obj f s t' op Hs Hf Hh E. pose proof (search_refines t obj f s Hs Hf Hh) as H.
  rewrite E in H. exact H.
Qed.

(** an escaping search leaves the abstract map as it is (mapping-search then returns the original mapping) *)
Lemma search_escaped_or_built_same : forall t obj f s,
  keys_sorted t -> (forall k v, f = Insert k v -> k = obj) -> (forall old k v, s obj old = Update k v -> k = obj) ->
  search t obj f s = Escaped -> map_apply obj f s (elements t) = elements t.
Proof.
  intros t obj f s Hs Hf Hh E. pose proof (search_refines t obj f s Hs Hf Hh) as H.
  rewrite E in H. exact H.
Qed.

Lemma keys_sorted_redden : forall t, keys_sorted t -> keys_sorted (redden t).
Proof. intros t; unfold keys_sorted; rewrite elements_redden; trivial. Qed.

Theorem tree_search_refines_map : forall t obj f s t',
  keys_sorted t -> (forall k v, f = Insert k v -> k = obj) -> (forall old k v, s obj old = Update k v -> k = obj) ->
  tree_search t obj f s = Built t' ->
  elements t' = map_apply obj f s (elements t) /\ keys_sorted t'.
Proof.
  intros t obj f s t' Hs Hf Hh. unfold tree_search.
  destruct (search (redden t) obj f s) as [[t1 op]| |] eqn:E; try discriminate.
  intros H; injection H as <-.
  apply search_built_elements in E; [|apply keys_sorted_redden, Hs|assumption|assumption].
  rewrite elements_redden in E.
  assert (El : elements (blacken t1) = map_apply obj f s (elements t)) by (rewrite elements_blacken; exact E).
  split; [exact El|]. unfold keys_sorted. rewrite El. apply sorted_map_apply, Hs.
Qed.

Lemma tree_search_escaped_same : forall t obj f s,
  keys_sorted t -> (forall k v, f = Insert k v -> k = obj) -> (forall old k v, s obj old = Update k v -> k = obj) ->
  tree_search t obj f s = Escaped -> map_apply obj f s (elements t) = elements t.
Proof.
  intros t obj f s Hs Hf Hh. unfold tree_search.
  destruct (search (redden t) obj f s) as [[t1 op]| |] eqn:E; try discriminate.
  intros _. apply search_escaped_or_built_same in E; [|apply keys_sorted_redden, Hs|assumption|assumption].
  rewrite elements_redden in E. exact E.
Qed.

(** lookups *)
Lemma lookup_refines_map_ref : forall t obj r, keys_sorted t -> lookup t obj = Some r -> r = map_ref obj (elements t).
Proof.
  intros t obj r Hs; induction t as [c0|c a IHa [k v] b IHb].
  - destruct c0; cbn [lookup]; try discriminate. intros H; injection H as <-; reflexivity.
  - unfold keys_sorted in Hs, IHa, IHb. cbn [elements] in Hs. fold (ksorted (elements a ++ (k, v) :: elements b)) in Hs.
    apply ksorted_app_iff in Hs as (Sa & Sb & La & Gb).
    cbn [lookup elements]. unfold item_key, item_value. cbn [fst snd].
    unfold item. rewrite (map_ref_app obj _ k v _ La Gb).
    destruct (obj =? k); [intros H; injection H as <-; reflexivity|].
    destruct (obj <? k); [apply IHa, Sa|apply IHb, Sb].
Qed.

Lemma lookup_redden : forall t k, lookup (redden t) k = lookup t k.
Proof. intros t k; unfold redden; dvar; reflexivity. Qed.

Lemma mapping_ref_refines : forall m k r, keys_sorted m -> mapping_ref m k = Some r -> r = map_ref k (elements m).
Proof. intros m k r Hs; unfold mapping_ref; rewrite lookup_redden; apply lookup_refines_map_ref, Hs. Qed.

Lemma mapping_contains_refines : forall m k r, keys_sorted m -> mapping_contains m k = Some r -> r = map_has k (elements m).
Proof.
  intros m k r Hs; unfold mapping_contains, map_has.
  destruct (mapping_ref m k) as [o|] eqn:E; [|discriminate].
  apply mapping_ref_refines in E; [|exact Hs]. rewrite <- E.
  destruct o; intros H; injection H as <-; reflexivity.
Qed.

Lemma invc_children : forall c a x b, invc (Nd c a x b) -> invc a /\ invc b.
Proof. intros [] a x b; cbn [invc]; tauto. Qed.

Lemma lookup_total : forall t obj, invc t -> exists r, lookup t obj = Some r.
Proof.
  intros t obj; induction t as [c0|c a IHa x b IHb]; intros H.
  - destruct c0; cbn [invc] in H; try contradiction. eexists; reflexivity.
  - apply invc_children in H as [Ha Hb]. cbn [lookup].
    destruct (obj =? item_key x); [eexists; reflexivity|].
    destruct (obj <? item_key x); [apply IHa, Ha|apply IHb, Hb].
Qed.

Lemma mapping_ref_total : forall m k, invc m -> exists r, mapping_ref m k = Some r.
Proof. intros m k H; unfold mapping_ref; rewrite lookup_redden; apply lookup_total, H. Qed.

Lemma mapping_contains_total : forall m k, invc m -> exists r, mapping_contains m k = Some r.
Proof.
  intros m k H; unfold mapping_contains. destruct (mapping_ref_total m k H) as [[r|] ->]; eexists; reflexivity.
Qed.

(** * C. listings *)

Lemma elements_Nd : forall c l (x : Z * Z) r, elements (Nd c l x r) = elements l ++ x :: elements r.
Proof. reflexivity. Qed.

Lemma tree_fold_elements : forall (A : Type) (proc : Z -> Z -> A -> A) t acc, invc t ->
  tree_fold proc acc t = Some (fold_left (fun a p => proc (fst p) (snd p) a) (elements t) acc).
Proof.
  intros A proc; induction t as [c0|c a IHa x b IHb]; intros acc H.
  - destruct c0; cbn [invc] in H; try contradiction. reflexivity.
  - apply invc_children in H as [Ha Hb]. cbn [tree_fold]. rewrite (IHa _ Ha), (IHb _ Hb).
    rewrite elements_Nd, fold_left_app. reflexivity.
Qed.

Lemma tree_fold_reverse_elements : forall (A : Type) (proc : Z -> Z -> A -> A) t acc, invc t ->
  tree_fold_reverse proc acc t = Some (fold_right (fun p a => proc (fst p) (snd p) a) acc (elements t)).
Proof.
  intros A proc; induction t as [c0|c a IHa x b IHb]; intros acc H.
  - destruct c0; cbn [invc] in H; try contradiction. reflexivity.
  - apply invc_children in H as [Ha Hb]. cbn [tree_fold_reverse]. rewrite (IHb _ Hb), (IHa _ Ha).
    rewrite elements_Nd, fold_right_app. reflexivity.
Qed.

Lemma fold_left_cons_rev : forall (l acc : list (Z * Z)),
  fold_left (fun a p => (fst p, snd p) :: a) l acc = rev l ++ acc.
Proof.
  induction l as [|[k v] l IH]; intros acc; [reflexivity|].
  cbn [fold_left rev fst snd]. rewrite IH, <- app_assoc. reflexivity.
Qed.

Lemma mapping_to_alist_is_elements : forall m, invc m -> mapping_to_alist m = Some (elements m).
Proof.
  intros m H; unfold mapping_to_alist. rewrite (tree_fold_elements _ _ _ _ H).
  rewrite fold_left_cons_rev, app_nil_r, rev_involutive. reflexivity.
Qed.

Lemma mapping_keys_sorted_listing : forall m, invc m -> mapping_keys m = Some (map fst (elements m)).
Proof.
  intros m H; unfold mapping_keys. rewrite (tree_fold_reverse_elements _ _ _ _ H). apply f_equal.
  induction (elements m) as [|p l IH]; [reflexivity|]. cbn [fold_right map]. rewrite IH. reflexivity.
Qed.

Lemma mapping_size_is_length : forall m, invc m -> mapping_size m = Some (Z.of_nat (length (elements m))).
Proof.
  intros m H; unfold mapping_size. rewrite (tree_fold_elements _ _ _ _ H). apply f_equal.
  assert (G : forall (l : list (Z * Z)) acc, fold_left (fun a _ => 1 + a) l acc = acc + Z.of_nat (length l)).
  { induction l as [|p l IH]; intros acc; cbn [fold_left length]; [lia|]. rewrite IH. lia. }
  apply (G (elements m) 0).
Qed.

Lemma first_item_elements : forall t, invc t ->
  first_item t = Some (match elements t with [] => None | x :: _ => Some x end).
Proof.
  induction t as [c0|c a IHa x b _]; intros H.
  - destruct c0; cbn [invc] in H; try contradiction. reflexivity.
  - apply invc_children in H as [Ha _]. cbn [first_item]. rewrite (IHa Ha), elements_Nd.
    destruct (elements a); reflexivity.
Qed.

Lemma mapping_empty_refines : forall m, invc m ->
  mapping_empty m = Some (match elements m with [] => true | _ => false end).
Proof.
  intros m H; unfold mapping_empty. rewrite (first_item_elements _ H). destruct (elements m); reflexivity.
Qed.

(** * D. the mapping level *)

Definition own_miss (key : Z) (f : miss) : miss := match f with Insert _ v => Insert key v | _ => MissEscape end.

Lemma mapping_search_refines : forall m key f s m', keys_sorted m ->
  (forall old k v, s key old = Update k v -> k = key) ->
  mapping_search m key f s = Some m' ->
  elements m' = map_apply key (own_miss key f) s (elements m) /\ keys_sorted m'.
Proof.
  intros m key f s m' Hs Hh. unfold mapping_search. fold (own_miss key f).
  assert (Hf : forall k v, own_miss key f = Insert k v -> k = key).
  { intros k v; destruct f; cbn [own_miss]; intros E; try discriminate. injection E as <- _; reflexivity. }
  destruct (tree_search m key (own_miss key f) s) as [t| |] eqn:E; try discriminate.
  - intros H; injection H as <-. exact (tree_search_refines_map _ _ _ _ _ Hs Hf Hh E).
  - intros H; injection H as <-. split; [|exact Hs].
    symmetry. exact (tree_search_escaped_same _ _ _ _ Hs Hf Hh E).
Qed.

Lemma mapping_set_refines : forall m k v m', keys_sorted m -> mapping_set m k v = Some m' ->
  elements m' = map_set k v (elements m) /\ keys_sorted m'.
Proof.
  intros m k v m' Hs H. apply mapping_search_refines in H; [|exact Hs|intros ? ? ? E; injection E as <- _; reflexivity].
  destruct H as [H1 H2]; split; [|exact H2]. rewrite H1. unfold map_apply, own_miss.
  destruct (map_ref k (elements m)); reflexivity.
Qed.

Lemma mapping_delete_refines : forall m k m', keys_sorted m -> mapping_delete m k = Some m' ->
  elements m' = map_delete k (elements m) /\ keys_sorted m'.
Proof.
  intros m k m' Hs H. apply mapping_search_refines in H; [|exact Hs|intros ? ? ? E; discriminate E].
  destruct H as [H1 H2]; split; [|exact H2]. rewrite H1. unfold map_apply, own_miss.
  destruct (map_ref k (elements m)) eqn:E; [reflexivity|]. symmetry; apply map_delete_absent, E.
Qed.

Lemma mapping_adjoin_refines : forall m k v m', keys_sorted m -> mapping_adjoin m k v = Some m' ->
  elements m' = map_adjoin k v (elements m) /\ keys_sorted m'.
Proof.
  intros m k v m' Hs H. apply mapping_search_refines in H; [|exact Hs|intros ? ? ? E; discriminate E].
  destruct H as [H1 H2]; split; [|exact H2]. rewrite H1. unfold map_apply, own_miss, map_adjoin, map_has.
  destruct (map_ref k (elements m)); reflexivity.
Qed.

Lemma mapping_replace_refines : forall m k v m', keys_sorted m -> mapping_replace m k v = Some m' ->
  elements m' = map_replace k v (elements m) /\ keys_sorted m'.
Proof.
  intros m k v m' Hs H. apply mapping_search_refines in H; [|exact Hs|intros ? ? ? E; injection E as <- _; reflexivity].
  destruct H as [H1 H2]; split; [|exact H2]. rewrite H1. unfold map_apply, own_miss, map_replace, map_has.
  destruct (map_ref k (elements m)); reflexivity.
Qed.

Lemma mapping_bump_refines : forall m k d m', keys_sorted m -> mapping_update m k (fun y => y + 1) d = Some m' ->
  elements m' = map_bump k d (elements m) /\ keys_sorted m'.
Proof.
  intros m k d m' Hs H. apply mapping_search_refines in H; [|exact Hs|intros ? ? ? E; injection E as <- _; reflexivity].
  destruct H as [H1 H2]; split; [|exact H2]. rewrite H1. unfold map_apply, own_miss, map_bump.
  destruct (map_ref k (elements m)); reflexivity.
Qed.

Lemma mapping_delete_all_refines : forall ks m m', keys_sorted m -> mapping_delete_all m ks = Some m' ->
  elements m' = fold_left (fun a k => map_delete k a) ks (elements m) /\ keys_sorted m'.
Proof.
  induction ks as [|k ks IH]; intros m m' Hs; cbn [mapping_delete_all fold_left].
  - intros H; injection H as <-. split; [reflexivity|exact Hs].
  - destruct (mapping_delete m k) as [m1|] eqn:E; [|discriminate].
    apply mapping_delete_refines in E as [E1 E2]; [|exact Hs]. rewrite <- E1. apply IH, E2.
Qed.

(** * D'. the set-theory operations: folds of one-key operations over the listing of the second mapping *)

Lemma fold_opt_none : forall (step : Z -> Z -> option rbt -> option rbt) (l : list (Z * Z)),
  (forall k v, In (k, v) l -> step k v None = None) ->
  fold_left (fun a p => step (fst p) (snd p) a) l None = None.
Proof.
  intros step; induction l as [|[k v] l IH]; intros Hn; [reflexivity|].
  cbn [fold_left fst snd]. rewrite (Hn k v (or_introl eq_refl)). apply IH.
  intros k' v' Hin; apply Hn; right; exact Hin.
Qed.

Lemma fold_opt_refines : forall (step : Z -> Z -> option rbt -> option rbt)
    (g : Z -> Z -> list (Z * Z) -> list (Z * Z)) (l : list (Z * Z)),
  (forall k v, In (k, v) l -> step k v None = None) ->
  (forall k v m m', In (k, v) l -> keys_sorted m -> step k v (Some m) = Some m' ->
                    elements m' = g k v (elements m) /\ keys_sorted m') ->
  forall m1 m', keys_sorted m1 ->
    fold_left (fun a p => step (fst p) (snd p) a) l (Some m1) = Some m' ->
    elements m' = fold_left (fun a p => g (fst p) (snd p) a) l (elements m1) /\ keys_sorted m'.
Proof.
  intros step g; induction l as [|[k v] l IH]; intros Hn Hg m1 m' Hs; cbn [fold_left fst snd].
  - intros H; injection H as <-; split; [reflexivity|exact Hs].
  - assert (Hn' : forall k' v', In (k', v') l -> step k' v' None = None)
      by (intros k' v' Hin; apply Hn; right; exact Hin).
    destruct (step k v (Some m1)) as [m2|] eqn:E.
    + destruct (Hg k v m1 m2 (or_introl eq_refl) Hs E) as [E1 E2]. rewrite <- E1.
      apply IH; [exact Hn'| |exact E2].
      intros k' v' m m0 Hin; apply Hg; right; exact Hin.
    + rewrite (fold_opt_none step l Hn'). discriminate.
Qed.

Lemma fold_items_refines : forall (step : Z -> Z -> option rbt -> option rbt)
    (g : Z -> Z -> list (Z * Z) -> list (Z * Z)) (m1 m2 m' : rbt),
  invc m2 -> keys_sorted m1 ->
  (forall k v, In (k, v) (elements m2) -> step k v None = None) ->
  (forall k v m m', In (k, v) (elements m2) -> keys_sorted m -> step k v (Some m) = Some m' ->
                    elements m' = g k v (elements m) /\ keys_sorted m') ->
  fold_items step m1 m2 = Some m' ->
  elements m' = fold_left (fun a p => g (fst p) (snd p) a) (elements m2) (elements m1) /\ keys_sorted m'.
Proof.
  intros step g m1 m2 m' Hi Hs Hn Hg. unfold fold_items. rewrite (tree_fold_elements _ _ _ _ Hi).
  intros H. exact (fold_opt_refines step g (elements m2) Hn Hg m1 m' Hs H).
Qed.

Lemma map_set_same : forall k v m, ksorted m -> map_ref k m = Some v -> map_set k v m = m.
Proof.
  intros k v; induction m as [|[k1 v1] m IH]; intros Hs; [discriminate|].
  apply ksorted_cons_iff in Hs as [H1 H2]. cbn [map_ref map_set].
  destruct (Z.eqb_spec k k1) as [->|Hne].
  - intros H; injection H as <-. rewrite Z.ltb_irrefl. reflexivity.
  - intros H. destruct (Z.ltb_spec k k1).
    + rewrite (map_ref_all_gt k m) in H; [discriminate|]. apply all_gt_weaken with k1; [lia|exact H2].
    + rewrite (IH H1 H). reflexivity.
Qed.

(** mapping-union: the associations of the first mapping win *)
Theorem mapping_union_refines : forall m1 m2 m', invc m2 -> keys_sorted m1 -> mapping_union m1 m2 = Some m' ->
  elements m' = map_union (elements m1) (elements m2) /\ keys_sorted m'.
Proof.
  intros m1 m2 m' Hi Hs H. unfold mapping_union in H. unfold map_union.
  refine (fold_items_refines _ (fun k v a => map_adjoin k v a) m1 m2 m' Hi Hs _ _ H).
  - reflexivity.
  - intros k v m m0 _ Hm E. cbn [obind] in E.
    apply mapping_search_refines in E; [|exact Hm|intros ? ? ? E'; injection E' as <- _; reflexivity].
    destruct E as [E1 E2]; split; [|exact E2]. rewrite E1. unfold map_apply, own_miss, map_adjoin, map_has.
    destruct (map_ref k (elements m)) as [old|] eqn:Er; [|reflexivity].
    apply map_set_same; assumption.
Qed.

Lemma filter_true : forall (A : Type) (l : list A), filter (fun _ => true) l = l.
Proof. induction l as [|x l IH]; cbn [filter]; [|rewrite IH]; reflexivity. Qed.

Lemma fold_delete_diff : forall l2 l1,
  fold_left (fun a p => map_delete (fst p) a) l2 l1 = map_diff l1 l2.
Proof.
  unfold map_diff; induction l2 as [|[k v] l2 IH]; intros l1; cbn [fold_left fst].
  - unfold map_has; cbn [map_ref negb]. symmetry; apply filter_true.
  - rewrite IH. unfold map_delete, map_has. induction l1 as [|[k1 v1] l1 IH1]; [reflexivity|].
    cbn [filter fst map_ref]. destruct (k1 =? k); cbn [negb filter fst]; rewrite IH1; reflexivity.
Qed.

Theorem mapping_difference_refines : forall m1 m2 m', invc m2 -> keys_sorted m1 -> mapping_difference m1 m2 = Some m' ->
  elements m' = map_diff (elements m1) (elements m2) /\ keys_sorted m'.
Proof.
  intros m1 m2 m' Hi Hs H. unfold mapping_difference in H. rewrite <- fold_delete_diff.
  refine (fold_items_refines _ (fun k _ a => map_delete k a) m1 m2 m' Hi Hs _ _ H).
  - reflexivity.
  - intros k v m m0 _ Hm E. cbn [obind] in E. exact (mapping_delete_refines m k m0 Hm E).
Qed.

Lemma map_set_all_lt : forall k v m, all_lt k m -> map_set k v m = m ++ [(k, v)].
Proof.
  intros k v m H; induction H as [|[k1 v1] m H1 _ IH]; [reflexivity|]. cbn [map_set app fst] in *.
  destruct (Z.ltb_spec k k1); [lia|]. destruct (Z.eqb_spec k k1); [lia|]. rewrite IH; reflexivity.
Qed.

Lemma fold_set_filter : forall (q : Z -> Z -> bool) l acc, ksorted l ->
  (forall p, In p l -> all_lt (fst p) acc) ->
  fold_left (fun a p => if q (fst p) (snd p) then map_set (fst p) (snd p) a else a) l acc
  = acc ++ filter (fun p => q (fst p) (snd p)) l.
Proof.
  intros q; induction l as [|[k v] l IH]; intros acc Hs Hl; cbn [fold_left filter fst snd].
  - symmetry; apply app_nil_r.
  - apply ksorted_cons_iff in Hs as [H1 H2]. pose proof (Hl (k, v) (or_introl eq_refl)) as Hk. cbn [fst] in Hk.
    destruct (q k v).
    + rewrite (map_set_all_lt k v acc Hk), IH, <- app_assoc; [reflexivity|exact H1|].
      intros p Hp. unfold all_gt in H2. rewrite Forall_forall in H2. specialize (H2 p Hp).
      apply Forall_app; split; [|constructor; [exact H2|constructor]].
      apply all_lt_weaken with k; [lia|exact Hk].
    + apply IH; [exact H1|]. intros p Hp; apply Hl; right; exact Hp.
Qed.

(** mapping-filter with a predicate that answers [q] on every association of the mapping *)
Theorem mapping_filter_refines : forall (p : Z -> Z -> option bool) (q : Z -> Z -> bool) m m',
  invc m -> keys_sorted m -> (forall k v, In (k, v) (elements m) -> p k v = Some (q k v)) ->
  mapping_filter p m = Some m' ->
  elements m' = filter (fun kv => q (fst kv) (snd kv)) (elements m) /\ keys_sorted m'.
Proof.
  intros p q m m' Hi Hs Hp H. unfold mapping_filter in H.
  assert (S0 : keys_sorted make_tree) by constructor.
  match type of H with fold_items ?step _ _ = _ =>
    pose proof (fold_items_refines step (fun k v a => if q k v then map_set k v a else a) make_tree m m' Hi S0) as G end.
  cbv beta in G. rewrite fold_set_filter in G; [apply G; [| |exact H]|exact Hs|intros; constructor].
  - intros k v Hin. rewrite (Hp k v Hin). destruct (q k v); reflexivity.
  - intros k v m0 m1 Hin Hm. rewrite (Hp k v Hin). destruct (q k v); cbn [obind].
    + apply mapping_set_refines, Hm.
    + intros E; injection E as <-; split; [reflexivity|exact Hm].
Qed.

Theorem mapping_intersection_refines : forall m1 m2 m', invc m1 -> keys_sorted m1 -> invc m2 -> keys_sorted m2 ->
  mapping_intersection m1 m2 = Some m' ->
  elements m' = map_inter (elements m1) (elements m2) /\ keys_sorted m'.
Proof.
  intros m1 m2 m' Hi1 Hs1 Hi2 Hs2 H. unfold mapping_intersection in H.
  refine (mapping_filter_refines _ (fun k _ => map_has k (elements m2)) m1 m' Hi1 Hs1 _ H).
  intros k v _. destruct (mapping_contains_total m2 k Hi2) as [r Hr]. rewrite Hr.
  apply mapping_contains_refines in Hr; [|exact Hs2]. rewrite Hr; reflexivity.
Qed.

(** mapping-xor.  The oracle [map_xor] is a union of two differences; the model folds "insert if absent, remove if present".
    Both are strictly increasing lists with the same [map_ref], hence equal. *)
Lemma ksorted_ext : forall l1 l2, ksorted l1 -> ksorted l2 -> (forall j, map_ref j l1 = map_ref j l2) -> l1 = l2.
Proof.
  induction l1 as [|[k1 v1] l1 IH]; intros [|[k2 v2] l2] S1 S2 He.
  - reflexivity.
  - specialize (He k2); cbn [map_ref] in He; rewrite Z.eqb_refl in He; discriminate.
  - specialize (He k1); cbn [map_ref] in He; rewrite Z.eqb_refl in He; discriminate.
  - apply ksorted_cons_iff in S1 as [S1 G1]. apply ksorted_cons_iff in S2 as [S2 G2].
    assert (Hk : k1 = k2).
    { pose proof (He k1) as E1. pose proof (He k2) as E2. cbn [map_ref] in E1, E2.
      rewrite Z.eqb_refl in E1, E2.
      destruct (Z.eqb_spec k1 k2) as [e|ne]; [exact e|]. destruct (Z.eqb_spec k2 k1) as [e|_]; [lia|].
      destruct (Z.lt_total k1 k2) as [Hlt|[e|Hlt]]; [|exact e|].
      - rewrite (map_ref_all_gt k1 l2) in E1; [discriminate|]. apply all_gt_weaken with k2; [lia|exact G2].
      - rewrite (map_ref_all_gt k2 l1) in E2; [discriminate|]. apply all_gt_weaken with k1; [lia|exact G1]. }
    subst k2. pose proof (He k1) as E1. cbn [map_ref] in E1. rewrite Z.eqb_refl in E1. injection E1 as <-.
    f_equal. apply IH; [exact S1|exact S2|]. intros j. specialize (He j). cbn [map_ref] in He.
    revert He. destruct (Z.eqb_spec j k1) as [e|_]; [intros _|intros He; exact He].
    rewrite e, (map_ref_all_gt k1 l1 G1), (map_ref_all_gt k1 l2 G2). reflexivity.
Qed.

Definition xor_step (k v : Z) (a : list (Z * Z)) : list (Z * Z) :=
  match map_ref k a with None => map_set k v a | Some _ => map_delete k a end.

Lemma sorted_xor_step : forall k v a, ksorted a -> ksorted (xor_step k v a).
Proof. intros k v a H; unfold xor_step; destruct (map_ref k a); auto using sorted_map_set, sorted_map_delete. Qed.

Lemma map_ref_xor_step : forall j k v a,
  map_ref j (xor_step k v a) =
  if j =? k then match map_ref k a with None => Some v | Some _ => None end else map_ref j a.
Proof.
  intros j k v a; unfold xor_step. destruct (map_ref k a); [rewrite map_ref_delete|rewrite map_ref_set]; reflexivity.
Qed.

Lemma sorted_xor_fold : forall l2 l1, ksorted l1 -> ksorted (fold_left (fun a p => xor_step (fst p) (snd p) a) l2 l1).
Proof. induction l2 as [|[k v] l2 IH]; intros l1 H; cbn [fold_left]; [exact H|]. apply IH, sorted_xor_step, H. Qed.

Lemma map_ref_xor_fold : forall j l2 l1, ksorted l2 ->
  map_ref j (fold_left (fun a p => xor_step (fst p) (snd p) a) l2 l1) =
  match map_ref j l2 with
  | None => map_ref j l1
  | Some w => match map_ref j l1 with None => Some w | Some _ => None end
  end.
Proof.
  intros j; induction l2 as [|[k v] l2 IH]; intros l1 Hs; cbn [fold_left fst snd]; [reflexivity|].
  apply ksorted_cons_iff in Hs as [H1 H2]. rewrite (IH _ H1), map_ref_xor_step. cbn [map_ref].
  destruct (Z.eqb_spec j k) as [->|_]; [|reflexivity].
  rewrite (map_ref_all_gt k l2 H2). reflexivity.
Qed.

Lemma map_ref_filter_key : forall (qk : Z -> bool) j m,
  map_ref j (filter (fun p => qk (fst p)) m) = if qk j then map_ref j m else None.
Proof.
  intros qk j; induction m as [|[k v] m IH]; cbn [filter fst map_ref]; [destruct (qk j); reflexivity|].
  destruct (Z.eqb_spec j k) as [->|Hne].
  - destruct (qk k) eqn:E; cbn [map_ref]; [rewrite Z.eqb_refl; reflexivity|]. rewrite IH; rewrite ?E; reflexivity.
  - destruct (qk k); cbn [map_ref]; [destruct (Z.eqb_spec j k); [contradiction|]|]; exact IH.
Qed.

Lemma sorted_map_adjoin : forall k v m, ksorted m -> ksorted (map_adjoin k v m).
Proof. intros k v m H; unfold map_adjoin; destruct (map_has k m); auto using sorted_map_set. Qed.

Lemma sorted_map_union : forall m2 m1, ksorted m1 -> ksorted (map_union m1 m2).
Proof.
  unfold map_union; induction m2 as [|[k v] m2 IH]; intros m1 H; cbn [fold_left]; [exact H|].
  apply IH, sorted_map_adjoin, H.
Qed.

Lemma xor_fold_is_map_xor : forall l1 l2, ksorted l1 -> ksorted l2 ->
  fold_left (fun a p => xor_step (fst p) (snd p) a) l2 l1 = map_xor l1 l2.
Proof.
  intros l1 l2 S1 S2. apply ksorted_ext.
  - apply sorted_xor_fold, S1.
  - unfold map_xor, map_diff. apply sorted_map_union, ksorted_filter, S1.
  - intros j. rewrite (map_ref_xor_fold j l2 l1 S2). unfold map_xor. rewrite map_ref_union. unfold map_diff.
    rewrite (map_ref_filter_key (fun x => negb (map_has x l2)) j l1).
    rewrite (map_ref_filter_key (fun x => negb (map_has x l1)) j l2).
    unfold map_has. destruct (map_ref j l2), (map_ref j l1); reflexivity.
Qed.

Theorem mapping_xor_refines : forall m1 m2 m', invc m2 -> keys_sorted m1 -> keys_sorted m2 ->
  mapping_xor m1 m2 = Some m' ->
  elements m' = map_xor (elements m1) (elements m2) /\ keys_sorted m'.
Proof.
  intros m1 m2 m' Hi Hs1 Hs2 H. unfold mapping_xor in H. rewrite <- (xor_fold_is_map_xor _ _ Hs1 Hs2).
  refine (fold_items_refines _ xor_step m1 m2 m' Hi Hs1 _ _ H).
  - reflexivity.
  - intros k v m m0 _ Hm E. cbn [obind] in E.
    apply mapping_search_refines in E; [|exact Hm|intros ? ? ? E'; discriminate E'].
    destruct E as [E1 E2]; split; [|exact E2]. rewrite E1. unfold map_apply, own_miss, xor_step.
    destruct (map_ref k (elements m)); reflexivity.
Qed.

(** * E. non-vacuity: a tree built by mapping-set of 5 3 8 1 4, then one delete *)
Definition ex_build (ks : list Z) : option rbt :=
  fold_left (fun acc k => match acc with Some m => mapping_set m k (10 * k) | None => None end) ks (Some make_tree).

Definition ex_tree : rbt :=
  Nd Black (Nd Black (Lf Black) (1, 10) (Lf Black)) (3, 30)
           (Nd Black (Nd Red (Lf Black) (4, 40) (Lf Black)) (5, 50) (Nd Red (Lf Black) (8, 80) (Lf Black))).
Definition ex_tree_del3 : rbt :=
  Nd Black (Nd Black (Lf Black) (1, 10) (Lf Black)) (4, 40)
           (Nd Black (Lf Black) (5, 50) (Nd Red (Lf Black) (8, 80) (Lf Black))).
Definition ex_tree_del34 : rbt :=
  Nd Black (Nd Black (Lf Black) (1, 10) (Lf Black)) (5, 50) (Nd Black (Lf Black) (8, 80) (Lf Black)).

Example ex_build_5_3_8_1_4 :
  ex_build [5; 3; 8; 1; 4] = Some ex_tree /\
  elements ex_tree = [(1, 10); (3, 30); (4, 40); (5, 50); (8, 80)] /\
  keys_sorted ex_tree /\ rb_inv ex_tree /\
  mapping_ref ex_tree 4 = Some (Some 40) /\ mapping_ref ex_tree 7 = Some None /\
  mapping_to_alist ex_tree = Some (elements ex_tree) /\ mapping_size ex_tree = Some 5 /\
  mapping_delete ex_tree 3 = Some ex_tree_del3 /\ rb_inv ex_tree_del3 /\
  mapping_delete ex_tree_del3 4 = Some ex_tree_del34 /\ rb_inv ex_tree_del34 /\
  mapping_delete ex_tree 7 = Some ex_tree /\
  mapping_adjoin ex_tree 4 0 = Some ex_tree.
Proof.
  assert (I1 : rb_inv ex_tree) by (vm_compute; tauto).
  assert (I2 : rb_inv ex_tree_del3) by (vm_compute; tauto).
  assert (I3 : rb_inv ex_tree_del34) by (vm_compute; tauto).
  assert (S1 : keys_sorted ex_tree) by (unfold keys_sorted; vm_compute; repeat constructor).
  repeat (split; [first [assumption | vm_compute; reflexivity]|]). vm_compute; reflexivity.
Qed.

(** the hypotheses of the refinement theorems hold of the example, and the theorem then gives the listing *)
Example ex_delete_by_theorem : forall t', mapping_delete ex_tree 3 = Some t' ->
  elements t' = [(1, 10); (4, 40); (5, 50); (8, 80)].
Proof.
  intros t' Hd.
  apply mapping_delete_refines in Hd as [Hd _]; [rewrite Hd; vm_compute; reflexivity|].
  unfold keys_sorted; vm_compute; repeat constructor.
Qed.

Print Assumptions tree_search_refines_map.
Print Assumptions search_built_elements.
Print Assumptions lookup_refines_map_ref.
Print Assumptions mapping_ref_total.
Print Assumptions tree_fold_elements.
Print Assumptions mapping_to_alist_is_elements.
Print Assumptions mapping_keys_sorted_listing.
Print Assumptions mapping_size_is_length.
Print Assumptions mapping_empty_refines.
Print Assumptions mapping_set_refines.
Print Assumptions mapping_delete_refines.
Print Assumptions mapping_adjoin_refines.
Print Assumptions mapping_replace_refines.
Print Assumptions mapping_bump_refines.
Print Assumptions mapping_delete_all_refines.
Print Assumptions mapping_union_refines.
Print Assumptions mapping_difference_refines.
Print Assumptions mapping_xor_refines.
Print Assumptions mapping_filter_refines.
Print Assumptions mapping_intersection_refines.
Print Assumptions elements_remove_at.
Print Assumptions ex_build_5_3_8_1_4.
