(** C18 model of the sort code: lib/srfi/95/qsort.c (both C merge sorts and sexp_sort_x, with the
    three repairs of fixes/C18-*.patch applied) and lib/srfi/95/sort.scm (merge!).
    No proofs here.  An array segment vec[lo..hi] is a [list A]; the C functions read and write
    only the segment [lo..hi] of [vec] and [scratch], so each model function maps the segment's
    contents to (new vec segment, new scratch segment).  A scratch cell never written still holds
    the SEXP_VOID it was created with: [None]. *)
From Coq Require Export List Bool Arith ZArith Lia.
Export ListNotations.

Section MergeSort.
  Variable A : Type.
  (** [lt x y] is the macro if_is_less(x, y) (qsort.c:233-242): less(key(x), key(y)) is true.
      Exceptions raised by less/key are outside the model. *)
  Variable lt : A -> A -> bool.

  (** the merge loop, qsort.c:272-284 (and 210-222): i runs over r1 = vec[lo..mid], j over
      r2 = vec[mid+1..hi]; order of tests: i > mid, j > hi, if_is_less(j, i). *)
  Fixpoint merge_runs (r1 : list A) : list A -> list A :=
    fix go (r2 : list A) : list A :=
      match r1, r2 with
      | [], _ => r2
      | _, [] => r1
      | a :: r1', b :: r2' => if lt b a then b :: go r2' else a :: merge_runs r1' r2
      end.

  (** cases 1 and 2 of the switch (hi - lo), qsort.c:254-265 *)
  Definition sort2 (a b : A) : list A := if lt b a then [b; a] else [a; b].
  Definition sort3 (a b c : A) : list A :=
    let '(b1, c1) := if lt c b then (c, b) else (b, c) in      (* case 2: if_is_less(hi, hi-1) swap *)
    if lt b1 a                                                  (* case 1: if_is_less(lo+1, lo) swap *)
    then (if lt c1 a then [b1; c1; a] else [b1; a; c1])         (*   hi-lo>1: if_is_less(lo+2, lo+1) swap *)
    else [a; b1; c1].

  (** sexp_merge_sort_less, qsort.c:244-289.  Result: (vec segment, scratch segment) after the
      call; [None] when the recursion fuel ran out (never for fuel >= length, see Proofs). *)
  Fixpoint msort_less (fuel : nat) (v : list A) : option (list A * list (option A)) :=
    match v with
    | [] => Some ([], [])                                   (* not reached: sexp_sort_x returns early *)
    | [a] => Some ([a], [Some a])                           (* case 0: scratch[lo] = vec[lo] *)
    | [a; b] => Some (sort2 a b, [None; None])              (* case 1: swaps inside vec only *)
    | [a; b; c] => Some (sort3 a b c, [None; None; None])   (* case 2 *)
    | _ =>                                                  (* default: at least 4 elements *)
        match fuel with
        | O => None
        | S f =>
            let n1 := S ((length v - 1) / 2) in             (* mid = (hi+lo)/2; lo..mid has n1 cells *)
            match msort_less f (firstn n1 v), msort_less f (skipn n1 v) with
            | Some (r1, _), Some (r2, _) =>
                let m := merge_runs r1 r2 in
                Some (m, map Some m)                        (* scratch[lo..hi] = merge; memcpy back *)
            | _, _ => None
            end
        end
    end.
End MergeSort.

Arguments merge_runs {A} lt r1 r2.
Arguments sort2 {A} lt a b.
Arguments sort3 {A} lt a b c.
Arguments msort_less {A} lt fuel v.

Section MergeSortCmp.
  Variable A : Type.
  (** sexp_object_compare(ctx, a, b, COMPARE_DEPTH), as an integer *)
  Variable cmp : A -> A -> Z.
  Local Open Scope Z_scope.

  (** sexp_merge_sort, qsort.c:191-227: the same algorithm written a second time in C with
      [sexp_object_compare(..) < 0] as the test. *)
  Fixpoint merge_runs_cmp (r1 : list A) : list A -> list A :=
    fix go (r2 : list A) : list A :=
      match r1, r2 with
      | [], _ => r2
      | _, [] => r1
      | a :: r1', b :: r2' => if cmp b a <? 0 then b :: go r2' else a :: merge_runs_cmp r1' r2
      end.

  Definition sort2_cmp (a b : A) : list A := if cmp b a <? 0 then [b; a] else [a; b].
  Definition sort3_cmp (a b c : A) : list A :=
    let '(b1, c1) := if cmp c b <? 0 then (c, b) else (b, c) in
    if cmp b1 a <? 0
    then (if cmp c1 a <? 0 then [b1; c1; a] else [b1; a; c1])
    else [a; b1; c1].

  Fixpoint msort_cmp (fuel : nat) (v : list A) : option (list A) :=
    match v with
    | [] => Some []
    | [a] => Some [a]
    | [a; b] => Some (sort2_cmp a b)
    | [a; b; c] => Some (sort3_cmp a b c)
    | _ =>
        match fuel with
        | O => None
        | S f =>
            let n1 := S ((length v - 1) / 2)%nat in
            match msort_cmp f (firstn n1 v), msort_cmp f (skipn n1 v) with
            | Some r1, Some r2 => Some (merge_runs_cmp r1 r2)
            | _, _ => None
            end
        end
    end.
End MergeSortCmp.

Arguments merge_runs_cmp {A} cmp r1 r2.
Arguments msort_cmp {A} cmp fuel v.

Section SortX.
  Variable A : Type.

  (** sexp_sort_x, qsort.c:291-345, the [less]/[key] branch (a procedure, or a key is given):
      REPAIRED (fixes/C18-sort-vector-less-returns-scratch.patch): the result is [vec]. *)
  Definition sort_x_less (lt : A -> A -> bool) (v : list A) : option (list A) :=
    match v with
    | [] => Some []                                        (* null / empty vector: returned as is *)
    | _ => match msort_less lt (length v) v with
           | Some (vec, _) => Some vec
           | None => None
           end
    end.

  (** what the pinned code returned for a VECTOR argument on this branch: [scratch] (qsort.c:334
      before the repair).  Kept only to state the refutation. *)
  Definition sort_x_less_pinned_vector_result (lt : A -> A -> bool) (v : list A) : option (list (option A)) :=
    match v with
    | [] => Some []
    | _ => match msort_less lt (length v) v with
           | Some (_, scratch) => Some scratch
           | None => None
           end
    end.

  (** the branch for less = #f or an arithmetic comparison opcode and no key: sexp_merge_sort with
      sexp_object_compare; [inverse] = sexp_opcode_inverse(less) (the opcodes > and >=).
      REPAIRED (fixes/C18-sort-inverse-opcode-unstable.patch): reverse, sort ascending, reverse. *)
  Definition sort_x_basic (cmp : A -> A -> Z) (inverse : bool) (v : list A) : option (list A) :=
    match v with
    | [] => Some []
    | _ => if inverse
           then option_map (@rev A) (msort_cmp cmp (length v) (rev v))
           else msort_cmp cmp (length v) v
    end.

  (** what the pinned code did for an inverse opcode: sort ascending, then reverse *)
  Definition sort_x_basic_pinned (cmp : A -> A -> Z) (inverse : bool) (v : list A) : option (list A) :=
    match v with
    | [] => Some []
    | _ => if inverse
           then option_map (@rev A) (msort_cmp cmp (length v) v)
           else msort_cmp cmp (length v) v
    end.
End SortX.

Arguments sort_x_less {A} lt v.
Arguments sort_x_less_pinned_vector_result {A} lt v.
Arguments sort_x_basic {A} cmp inverse v.
Arguments sort_x_basic_pinned {A} cmp inverse v.

Section Merge95.
  Variable A : Type.
  Variable lt : A -> A -> bool.        (* less (key x) (key y) *)

  (** merge! of lib/srfi/95/sort.scm, inner loop [lp], REPAIRED
      (fixes/C18-merge-unstable-on-ties.patch): [ls1] = a :: r1 is the list whose head is linked
      after [prev], [ls2] = b :: r2 the other one, [first] says whether ls1 is a tail of the
      caller's first list.  The destructive splice is modelled by the list it builds after
      [prev].  The two lists exchange roles in the else branch, hence fuel. *)
  Fixpoint merge95_lp (fuel : nat) (a : A) (r1 : list A) (b : A) (r2 : list A) (first : bool)
    : option (list A) :=
    match fuel with
    | O => None
    | S f =>
        if (if first then negb (lt b a) else lt a b)
        then match r1 with
             | [] => Some (a :: b :: r2)                               (* (set-cdr! ls1 ls2) *)
             | a' :: r1' => option_map (cons a) (merge95_lp f a' r1' b r2 first)
             end
        else match r2 with                                             (* (set-cdr! prev ls2) *)
             | [] => Some (b :: a :: r1)                               (* (set-cdr! ls2 ls1) *)
             | b' :: r2' => option_map (cons b) (merge95_lp f b' r2' a r1 (negb first))
             end
    end.

  (** merge! (and merge, which runs merge! on copies) *)
  Definition merge95 (l1 l2 : list A) : option (list A) :=
    match l1, l2 with
    | [], _ => Some l2
    | _, [] => Some l1
    | a :: r1, b :: r2 => merge95_lp (length l1 + length l2) a r1 b r2 true
       (* the top-level cond is the same test as the first iteration of lp with first? = #t *)
    end.

  (** the pinned merge!: (less a b) in both roles, so on ties the head of ls2 is taken *)
  Fixpoint merge95_pinned_lp (fuel : nat) (a : A) (r1 : list A) (b : A) (r2 : list A) : option (list A) :=
    match fuel with
    | O => None
    | S f =>
        if lt a b
        then match r1 with
             | [] => Some (a :: b :: r2)
             | a' :: r1' => option_map (cons a) (merge95_pinned_lp f a' r1' b r2)
             end
        else match r2 with
             | [] => Some (b :: a :: r1)
             | b' :: r2' => option_map (cons b) (merge95_pinned_lp f b' r2' a r1)
             end
    end.
  Definition merge95_pinned (l1 l2 : list A) : option (list A) :=
    match l1, l2 with
    | [], _ => Some l2
    | _, [] => Some l1
    | a :: r1, b :: r2 => merge95_pinned_lp (length l1 + length l2) a r1 b r2
    end.

  (** vector-merge of lib/srfi/132/sort.scm:32-51 on the contents of the two vectors *)
  Fixpoint vmerge132 (v1 : list A) : list A -> list A :=
    fix go (v2 : list A) : list A :=
      match v1, v2 with
      | [], _ => v2                              (* (>= i1 e1): take from vec2 *)
      | _, [] => v1
      | a :: v1', b :: v2' => if lt b a then b :: go v2' else a :: vmerge132 v1' v2
      end.
End Merge95.

Arguments merge95_lp {A} lt fuel a r1 b r2 first.
Arguments merge95 {A} lt l1 l2.
Arguments merge95_pinned {A} lt l1 l2.
Arguments vmerge132 {A} lt v1 v2.
