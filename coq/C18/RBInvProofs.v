(** C18 — SRFI 146 red-black tree: the RED-BLACK INVARIANT ([rb_inv] of coq/C18/RBInv.v) is kept by the executable model
    coq/C18/RBTree.v of lib/srfi/146/rbtree.scm under insertion, update and deletion, and the search never raises
    "tree does not match any pattern" on a valid tree.  Keys play no role: every statement holds for every decision of the
    continuations. *)
From Coq Require Import ZArith List Bool Lia.
From ChibiV Require Import C18.RBDefs C18.RBTree C18.RBInv.
Import ListNotations.
Local Open Scope Z_scope.

(** ---- brute-force tactics over the decision trees of the deep pattern matches *)
Ltac destr_goal :=
  repeat match goal with
         | |- context [match ?u with _ => _ end] => is_var u; destruct u
         end.

(** ---- balance *)

Lemma balance_invh : forall t, invh t -> invh (balance t) /\ bh (balance t) = bh t.
Proof.
  intros t H. unfold balance. destr_goal; cbn [invh bh] in *;
    repeat match goal with Hc : _ /\ _ |- _ => destruct Hc end;
    repeat split; try assumption; lia.
Qed.

Lemma balance_red : forall l x r, balance (Nd Red l x r) = Nd Red l x r.
Proof. reflexivity. Qed.

(** "infrared" trees of the insertion (Okasaki): valid once the root is painted black *)
Definition invc2 (t : rbt) : Prop := invc (blacken t).

Lemma invc_invc2 : forall t, invc t -> invc2 t.
Proof.
  intros [[]|[] l x r] H; cbn [invc2 blacken invc] in *; tauto.
Qed.

Ltac crush_c :=
  cbn [invc2 blacken invc color_of] in *;
  repeat match goal with
         | H : match ?c with _ => _ end |- _ => is_var c; destruct c
         | H : _ /\ _ |- _ => destruct H
         | H : False |- _ => destruct H
         | H : Red = Black |- _ => discriminate H
         | H : White = Black |- _ => discriminate H
         end;
  repeat split; auto.

Lemma balance_l : forall l x r, invc2 l -> invc r -> invc (balance (Nd Black l x r)).
Proof.
  intros l x r Hl Hr. unfold balance. destr_goal; crush_c.
Qed.

Lemma balance_r : forall l x r, invc l -> invc2 r -> invc (balance (Nd Black l x r)).
Proof.
  intros l x r Hl Hr. unfold balance. destr_goal; crush_c.
Qed.

(** ---- rotate: black heights *)
Ltac destr_hyp H :=
  repeat match type of H with
         | context [match ?u with _ => _ end] => is_var u; destruct u
         end.

Lemma Some_eq : forall (A : Type) (a b : A), Some a = Some b -> a = b.
Proof. intros A a b H. congruence. Qed.

Lemma rotate_invh : forall t t', invh t -> rotate t = Some t' -> invh t' /\ bh t' = bh t.
Proof.
  intros t t' Hi Hr. unfold rotate in Hr. destr_hyp Hr; cbn [white_to_black] in Hr;
    apply Some_eq in Hr; subst t';
    try match goal with
        | |- context [balance ?X] =>
            let H := fresh "Hb" in
            assert (H : invh X) by (cbn [invh bh] in *; intuition lia);
            apply balance_invh in H; destruct H as [? ?]
        end;
    cbn [invh bh] in *; intuition lia.
Qed.

(** ---- deletion (Germane & Might): what a subtree looks like after the removal of one item *)
(** white-rooted (double black) but otherwise valid *)
Definition wroot (t : rbt) : Prop :=
  match t with
  | Lf White => True
  | Nd White l _ r => invc l /\ invc r
  | _ => False
  end.
Definition blackkids (t : rbt) : Prop :=
  match t with
  | Nd _ l _ r => color_of l = Black /\ color_of r = Black
  | Lf _ => False
  end.
(** colour part: [t] the valid tree before, [t'] after *)
Definition delc (t t' : rbt) : Prop :=
  match color_of t with
  | Red => invc t'
  | Black => (invc t' /\ color_of t' = Black) \/ (wroot t' /\ blackkids t)
  | White => False
  end.
Definition delres (t t' : rbt) : Prop := invh t' /\ bh t' = bh t /\ delc t t'.

Ltac crush_w :=
  cbn [wroot invc2 blacken invc color_of] in *;
  repeat match goal with
         | H : match ?c with _ => _ end |- _ => is_var c; destruct c
         | H : _ /\ _ |- _ => destruct H
         | H : False |- _ => destruct H
         | H : Red = Black |- _ => discriminate H
         | H : White = Black |- _ => discriminate H
         end;
  repeat split; auto.

Lemma invc_notwhite : forall t, invc t -> color_of t <> White.
Proof. intros [[]|[] l x r] H; cbn in *; try contradiction; discriminate. Qed.

Lemma rotate_nowhite : forall c a x b,
  color_of a <> White -> color_of b <> White -> rotate (Nd c a x b) = Some (Nd c a x b).
Proof.
  intros c a x b Ha Hb. unfold rotate. destr_goal; cbn [color_of] in *; try reflexivity; congruence.
Qed.

Lemma wroot_bh : forall t, wroot t -> (bh t >= 1)%nat.
Proof. intros [[]|[] l x r] H; cbn in *; try contradiction; lia. Qed.

Lemma shape_pos : forall b, invc b -> invh b -> (bh b >= 1)%nat ->
  (exists c z d, b = Nd Black c z d) \/
  (exists c1 y1 d1 z c2 y2 d2, b = Nd Red (Nd Black c1 y1 d1) z (Nd Black c2 y2 d2)).
Proof.
  intros [[]|[] l z r] Hc Hh Hb; cbn [invc invh bh] in *; try contradiction; try lia.
  - right. destruct Hc as (Hl & Hr & Hcl & Hcr). destruct Hh as (_ & _ & Hlr).
    destruct l as [[]|[] l1 ly l2]; cbn [color_of bh invc] in *; try discriminate; try contradiction; try lia.
    destruct r as [[]|[] r1 ry r2]; cbn [color_of bh invc] in *; try discriminate; try contradiction; try lia.
    repeat eexists.
  - left. repeat eexists.
Qed.

Lemma balance_white_l : forall a x c z d,
  invc a -> color_of a = Black -> invc c -> invc d ->
  let t := balance (Nd White (Nd Red a x c) z d) in (invc t /\ color_of t = Black) \/ wroot t.
Proof.
  intros a x c z d Ha Hab Hc Hd. cbv zeta. unfold balance.
  destr_goal; first [left; solve [crush_w] | right; solve [crush_w]].
Qed.

Lemma balance_white_r : forall a x b y c,
  invc a -> invc b -> invc c -> color_of c = Black ->
  let t := balance (Nd White a x (Nd Red b y c)) in (invc t /\ color_of t = Black) \/ wroot t.
Proof.
  intros a x b y c Ha Hb Hc Hcb. cbv zeta. unfold balance.
  destr_goal; first [left; solve [crush_w] | right; solve [crush_w]].
Qed.

(** the node rebuilt above a left child [a'] that lost one item: [rotate] always matches, and the result is again a deletion result *)
Lemma rotate_left_c : forall c a a' x b,
  rb_sub (Nd c a x b) -> invh a' -> bh a' = bh a -> delc a a' ->
  exists t', rotate (Nd c a' x b) = Some t' /\ delc (Nd c a x b) t'.
Proof.
  intros c a a' x b [Hc Hh] Hh' Hb' Hd.
  cbn [invh] in Hh. destruct Hh as (Hha & Hhb & Hbh).
  unfold delc. cbn [color_of].
  destruct c; cbn [invc] in Hc; [ | | contradiction].
  - (* red parent: [a] is black *)
    destruct Hc as (Hca & Hcb & Hia & Hib). unfold delc in Hd. rewrite Hca in Hd.
    destruct Hd as [[Hi' Hc']|[Hw _]].
    + exists (Nd Red a' x b). split.
      * apply rotate_nowhite; [rewrite Hc' | rewrite Hcb]; discriminate.
      * cbn [invc]. auto.
    + pose proof (wroot_bh _ Hw) as Hpos.
      destruct (shape_pos b Hib Hhb ltac:(lia)) as [(c1 & z & d & ->)|(c1 & y1 & d1 & z & c2 & y2 & d2 & ->)];
        [ | discriminate Hcb ].
      cbn [invc] in Hib. destruct Hib as (Hic1 & Hid).
      destruct a' as [[]|[] l y r]; cbn [wroot] in Hw; try contradiction.
      * eexists. split; [cbn [rotate white_to_black]; reflexivity | ].
        apply balance_l; [ | exact Hid]. cbn [invc2 blacken invc]. auto.
      * eexists. split; [cbn [rotate white_to_black]; reflexivity | ].
        apply balance_l; [ | exact Hid]. cbn [invc2 blacken invc]. tauto.
  - (* black parent *)
    destruct Hc as (Hia & Hib). unfold delc in Hd.
    assert (Hnw : color_of b <> White) by (apply invc_notwhite; exact Hib).
    destruct (color_of a) eqn:Hca; [ | | contradiction ].
    + exists (Nd Black a' x b). split.
      * apply rotate_nowhite; [apply invc_notwhite; exact Hd | exact Hnw].
      * left. cbn [invc color_of]. auto.
    + destruct Hd as [[Hi' Hc']|[Hw _]].
      * exists (Nd Black a' x b). split.
        -- apply rotate_nowhite; [rewrite Hc'; discriminate | exact Hnw].
        -- left. cbn [invc color_of]. auto.
      * pose proof (wroot_bh _ Hw) as Hpos.
        destruct (shape_pos b Hib Hhb ltac:(lia)) as [(c1 & z & d & ->)|(c1 & y1 & d1 & z & c2 & y2 & d2 & ->)].
        -- cbn [invc] in Hib. destruct Hib as (Hic1 & Hid).
           destruct a' as [[]|[] l y r]; cbn [wroot] in Hw; try contradiction.
           ++ eexists. split; [cbn [rotate white_to_black]; reflexivity | ].
              destruct (balance_white_l (Lf Black) x c1 z d I eq_refl Hic1 Hid) as [Hl|Hr];
                [left; exact Hl | right; split; [exact Hr | cbn [blackkids color_of]; auto]].
           ++ eexists. split; [cbn [rotate white_to_black]; reflexivity | ].
              destruct (balance_white_l (Nd Black l y r) x c1 z d Hw eq_refl Hic1 Hid) as [Hl|Hr];
                [left; exact Hl | right; split; [exact Hr | cbn [blackkids color_of]; auto]].
        -- cbn [invc color_of] in Hib. destruct Hib as (_ & _ & (Hic1 & Hid1) & Hie).
           destruct a' as [[]|[] l y r]; cbn [wroot] in Hw; try contradiction.
           ++ eexists. split; [cbn [rotate white_to_black]; reflexivity | ].
              left. cbn [invc color_of]. repeat split; try tauto.
              apply balance_l; [ | exact Hid1]. cbn [invc2 blacken invc]. auto.
           ++ eexists. split; [cbn [rotate white_to_black]; reflexivity | ].
              left. cbn [invc color_of]. repeat split; try tauto.
              apply balance_l; [ | exact Hid1]. cbn [invc2 blacken invc]. tauto.
Qed.

(** the same above a right child *)
Lemma rotate_right_c : forall c a x b b',
  rb_sub (Nd c a x b) -> invh b' -> bh b' = bh b -> delc b b' ->
  exists t', rotate (Nd c a x b') = Some t' /\ delc (Nd c a x b) t'.
Proof.
  intros c a x b b' [Hc Hh] Hh' Hb' Hd.
  cbn [invh] in Hh. destruct Hh as (Hha & Hhb & Hbh).
  unfold delc. cbn [color_of].
  destruct c; cbn [invc] in Hc; [ | | contradiction].
  - (* red parent: [b] is black *)
    destruct Hc as (Hca & Hcb & Hia & Hib). unfold delc in Hd. rewrite Hcb in Hd.
    destruct Hd as [[Hi' Hc']|[Hw _]].
    + exists (Nd Red a x b'). split.
      * apply rotate_nowhite; [rewrite Hca | rewrite Hc']; discriminate.
      * cbn [invc]. auto.
    + pose proof (wroot_bh _ Hw) as Hpos.
      destruct (shape_pos a Hia Hha ltac:(lia)) as [(a1 & z & b1 & ->)|(c1 & y1 & d1 & z & c2 & y2 & d2 & ->)];
        [ | discriminate Hca ].
      cbn [invc] in Hia. destruct Hia as (Hia1 & Hib1).
      destruct b' as [[]|[] l y r]; cbn [wroot] in Hw; try contradiction.
      * eexists. split; [cbn [rotate white_to_black]; reflexivity | ].
        apply balance_r; [exact Hia1 | ]. cbn [invc2 blacken invc]. auto.
      * eexists. split; [cbn [rotate white_to_black]; reflexivity | ].
        apply balance_r; [exact Hia1 | ]. cbn [invc2 blacken invc]. tauto.
  - (* black parent *)
    destruct Hc as (Hia & Hib). unfold delc in Hd.
    assert (Hnw : color_of a <> White) by (apply invc_notwhite; exact Hia).
    destruct (color_of b) eqn:Hcb; [ | | contradiction ].
    + exists (Nd Black a x b'). split.
      * apply rotate_nowhite; [exact Hnw | apply invc_notwhite; exact Hd].
      * left. cbn [invc color_of]. auto.
    + destruct Hd as [[Hi' Hc']|[Hw _]].
      * exists (Nd Black a x b'). split.
        -- apply rotate_nowhite; [exact Hnw | rewrite Hc'; discriminate].
        -- left. cbn [invc color_of]. auto.
      * pose proof (wroot_bh _ Hw) as Hpos.
        destruct (shape_pos a Hia Hha ltac:(lia)) as [(a1 & z & b1 & ->)|(c1 & y1 & d1 & z & c2 & y2 & d2 & ->)].
        -- cbn [invc] in Hia. destruct Hia as (Hia1 & Hib1).
           destruct b' as [[]|[] l y r]; cbn [wroot] in Hw; try contradiction.
           ++ eexists. split; [cbn [rotate white_to_black]; reflexivity | ].
              destruct (balance_white_r a1 z b1 x (Lf Black) Hia1 Hib1 I eq_refl) as [Hl|Hr];
                [left; exact Hl | right; split; [exact Hr | cbn [blackkids color_of]; auto]].
           ++ eexists. split; [cbn [rotate white_to_black]; reflexivity | ].
              destruct (balance_white_r a1 z b1 x (Nd Black l y r) Hia1 Hib1 Hw eq_refl) as [Hl|Hr];
                [left; exact Hl | right; split; [exact Hr | cbn [blackkids color_of]; auto]].
        -- cbn [invc color_of] in Hia. destruct Hia as (_ & _ & Hie & (Hic2 & Hid2)).
           destruct b' as [[]|[] l y r]; cbn [wroot] in Hw; try contradiction.
           ++ eexists. split; [cbn [rotate white_to_black]; reflexivity | ].
              left. cbn [invc color_of]. repeat split; try tauto.
              apply balance_r; [exact Hic2 | ]. cbn [invc2 blacken invc]. auto.
           ++ eexists. split; [cbn [rotate white_to_black]; reflexivity | ].
              left. cbn [invc color_of]. repeat split; try tauto.
              apply balance_r; [exact Hic2 | ]. cbn [invc2 blacken invc]. tauto.
Qed.

Lemma rotate_left : forall c a a' x b,
  rb_sub (Nd c a x b) -> delres a a' ->
  exists t', rotate (Nd c a' x b) = Some t' /\ delres (Nd c a x b) t'.
Proof.
  intros c a a' x b Hs (Hh' & Hb' & Hd).
  destruct (rotate_left_c c a a' x b Hs Hh' Hb' Hd) as (t' & Hr & Hd').
  exists t'. split; [exact Hr | ].
  destruct Hs as [_ Hh]. cbn [invh] in Hh.
  assert (Hi : invh (Nd c a' x b)) by (cbn [invh]; intuition lia).
  destruct (rotate_invh _ _ Hi Hr) as [H1 H2].
  unfold delres. repeat split; [exact H1 | | exact Hd'].
  rewrite H2. destruct c; cbn [bh]; lia.
Qed.

Lemma rotate_right : forall c a x b b',
  rb_sub (Nd c a x b) -> delres b b' ->
  exists t', rotate (Nd c a x b') = Some t' /\ delres (Nd c a x b) t'.
Proof.
  intros c a x b b' Hs (Hh' & Hb' & Hd).
  destruct (rotate_right_c c a x b b' Hs Hh' Hb' Hd) as (t' & Hr & Hd').
  exists t'. split; [exact Hr | ].
  destruct Hs as [_ Hh]. cbn [invh] in Hh.
  assert (Hi : invh (Nd c a x b')) by (cbn [invh]; intuition lia).
  destruct (rotate_invh _ _ Hi Hr) as [H1 H2].
  unfold delres. repeat split; [exact H1 | | exact Hd'].
  rewrite H2. destruct c; cbn [bh]; lia.
Qed.

(** ---- min+delete and the table of the [remove] continuation *)
Lemma min_delete_nd : forall c cl ll lx lr x r,
  min_delete (Nd c (Nd cl ll lx lr) x r) =
  match min_delete (Nd cl ll lx lr) with
  | Some (v, a) => match rotate (Nd c a x r) with Some o1 => Some (v, o1) | None => None end
  | None => None
  end.
Proof. intros c cl ll lx lr x r. destruct c; reflexivity. Qed.

Lemma black_bh0 : forall t, invc t -> color_of t = Black -> bh t = 0%nat -> t = Lf Black.
Proof.
  intros [[]|[] l y r] Hc Hb H0; cbn [invc bh color_of] in *; try contradiction; try discriminate; try lia.
  reflexivity.
Qed.

Lemma min_delete_res : forall t, rb_sub t -> (exists c l x r, t = Nd c l x r) ->
  exists v t', min_delete t = Some (v, t') /\ delres t t'.
Proof.
  induction t as [cl|c l IHl x r _]; intros Hs (c0 & l0 & x0 & r0 & E); [discriminate E | clear E c0 l0 x0 r0].
  pose proof Hs as [Hc Hh]. cbn [invh] in Hh. destruct Hh as (Hhl & Hhr & Hbh).
  destruct l as [cl|cl ll lx lr].
  - (* the minimum is here *)
    assert (cl = Black) as -> by (destruct c, cl; cbn [invc] in Hc; tauto).
    cbn [bh] in Hbh.
    destruct c; cbn [invc] in Hc; [ | | contradiction ].
    + destruct Hc as (_ & Hcr & _ & Hir).
      rewrite (black_bh0 r Hir Hcr ltac:(lia)).
      exists x, (Lf Black). split; [reflexivity | ].
      unfold delres, delc. cbn. intuition auto.
    + destruct Hc as (_ & Hir).
      destruct r as [[]|[] rl ry rr]; cbn [invc bh] in *; try contradiction; try lia.
      * exists x, (Lf White). split; [reflexivity | ].
        unfold delres, delc. cbn. intuition auto.
      * exists x, (Nd Black rl ry rr). split; [reflexivity | ].
        unfold delres, delc. cbn [invh bh color_of invc] in *. intuition lia.
  - rewrite min_delete_nd.
    assert (Hsl : rb_sub (Nd cl ll lx lr)).
    { split; [ | exact Hhl]. destruct c; cbn [invc] in Hc; tauto. }
    destruct (IHl Hsl) as (v & l' & Hm & Hd); [repeat eexists | ].
    rewrite Hm.
    destruct (rotate_left c _ l' x r Hs Hd) as (t' & Hr & Hd').
    rewrite Hr. exists v, t'. split; [reflexivity | exact Hd'].
Qed.

Lemma remove_at_nd : forall t c a cb bl bx br,
  (exists x, t = Nd c a x (Nd cb bl bx br)) ->
  remove_at t c a (Nd cb bl bx br) =
  match min_delete (Nd cb bl bx br) with
  | Some (x, b) => match rotate (Nd c a x b) with Some o1 => Some o1 | None => None end
  | None => None
  end.
Proof.
  intros t c a cb bl bx br (x & ->). unfold remove_at. destr_goal; reflexivity.
Qed.

Lemma remove_at_res : forall c a x b, rb_sub (Nd c a x b) ->
  exists t', remove_at (Nd c a x b) c a b = Some t' /\ delres (Nd c a x b) t'.
Proof.
  intros c a x b Hs.
  pose proof Hs as [Hc Hh]. cbn [invh] in Hh. destruct Hh as (Hhl & Hhr & Hbh).
  destruct b as [cb|cb bl bx br].
  - assert (cb = Black) as -> by (destruct c, cb; cbn [invc] in Hc; tauto).
    cbn [bh] in Hbh.
    destruct c; cbn [invc] in Hc; [ | | contradiction ].
    + destruct Hc as (Hca & _ & Hia & _).
      rewrite (black_bh0 a Hia Hca Hbh).
      exists (Lf Black). split; [reflexivity | ].
      unfold delres, delc. cbn. intuition auto.
    + destruct Hc as (Hia & _).
      destruct a as [[]|[] al ay ar]; cbn [invc bh] in *; try contradiction; try lia.
      * exists (Lf White). split; [reflexivity | ].
        unfold delres, delc. cbn. intuition auto.
      * exists (Nd Black al ay ar). split; [reflexivity | ].
        unfold delres, delc. cbn [invh bh color_of invc] in *. intuition lia.
  - rewrite remove_at_nd by (eexists; reflexivity).
    assert (Hsb : rb_sub (Nd cb bl bx br)).
    { split; [ | exact Hhr]. destruct c; cbn [invc] in Hc; tauto. }
    destruct (min_delete_res _ Hsb) as (v & b' & Hm & Hd); [repeat eexists | ].
    rewrite Hm.
    destruct (rotate_right c a v (Nd cb bl bx br) b' Hs Hd) as (t' & Hr & Hd').
    rewrite Hr. exists t'. split; [reflexivity | exact Hd'].
Qed.

(** ---- the search: what [search] returns on a valid subtree, per kind of operation *)
Definition search_post (t : rbt) (r : outcome (rbt * opk)) : Prop :=
  match r with
  | Raised => False
  | Escaped => True
  | Built (t', op) =>
      invh t' /\ bh t' = bh t /\
      match op with
      | OpIdentity => invc t' /\ color_of t' = color_of t
      | OpBalance => invc2 t' /\ (color_of t = Black -> invc t')
      | OpRotate => delc t t'
      end
  end.

Lemma rb_sub_l : forall c a x b, rb_sub (Nd c a x b) -> rb_sub a.
Proof. intros c a x b [Hc Hh]. cbn [invh] in Hh. split; [ | tauto]. destruct c; cbn [invc] in Hc; tauto. Qed.
Lemma rb_sub_r : forall c a x b, rb_sub (Nd c a x b) -> rb_sub b.
Proof. intros c a x b [Hc Hh]. cbn [invh] in Hh. split; [ | tauto]. destruct c; cbn [invc] in Hc; tauto. Qed.

Lemma bh_congr_l : forall c a a' x b, bh a' = bh a -> bh (Nd c a' x b) = bh (Nd c a x b).
Proof. intros c a a' x b H. destruct c; cbn [bh]; lia. Qed.

Lemma rebuild_left : forall c a x b a' op,
  rb_sub (Nd c a x b) -> search_post a (Built (a', op)) ->
  search_post (Nd c a x b)
    match apply_op op (Nd c a' x b) with Some t' => Built (t', op) | None => Raised end.
Proof.
  intros c a x b a' op Hs (Hh' & Hb' & Hop).
  pose proof Hs as [Hc Hh]. cbn [invh] in Hh. destruct Hh as (Hha & Hhb & Hbh).
  assert (Hi : invh (Nd c a' x b)) by (cbn [invh]; intuition lia).
  pose proof (bh_congr_l c a a' x b Hb') as Hbc.
  destruct op; cbn [apply_op].
  - (* insertion *)
    destruct (balance_invh _ Hi) as [Hbi Hbb].
    cbn [search_post]. split; [exact Hbi | ]. split; [congruence | ].
    destruct Hop as [H2 Hbl].
    destruct c; cbn [invc] in Hc; [ | | contradiction ].
    + rewrite balance_red. cbn [invc2 blacken invc color_of].
      split; [ | discriminate]. split; [apply Hbl; tauto | tauto].
    + assert (Hib : invc (balance (Nd Black a' x b))) by (apply balance_l; tauto).
      split; [apply invc_invc2; exact Hib | intros _; exact Hib].
  - (* update / ignore *)
    cbn [search_post]. split; [exact Hi | ]. split; [exact Hbc | ].
    destruct Hop as [Hia' Hca']. split; [ | reflexivity].
    destruct c; cbn [invc] in *; [ rewrite Hca' | | ]; tauto.
  - (* removal *)
    destruct (rotate_left c a a' x b Hs (conj Hh' (conj Hb' Hop))) as (t' & Hr & Hd').
    rewrite Hr. exact Hd'.
Qed.

Lemma rebuild_right : forall c a x b b' op,
  rb_sub (Nd c a x b) -> search_post b (Built (b', op)) ->
  search_post (Nd c a x b)
    match apply_op op (Nd c a x b') with Some t' => Built (t', op) | None => Raised end.
Proof.
  intros c a x b b' op Hs (Hh' & Hb' & Hop).
  pose proof Hs as [Hc Hh]. cbn [invh] in Hh. destruct Hh as (Hha & Hhb & Hbh).
  assert (Hi : invh (Nd c a x b')) by (cbn [invh]; intuition lia).
  assert (Hbc : bh (Nd c a x b') = bh (Nd c a x b)) by (destruct c; reflexivity).
  destruct op; cbn [apply_op].
  - destruct (balance_invh _ Hi) as [Hbi Hbb].
    cbn [search_post]. split; [exact Hbi | ]. split; [congruence | ].
    destruct Hop as [H2 Hbl].
    destruct c; cbn [invc] in Hc; [ | | contradiction ].
    + rewrite balance_red. cbn [invc2 blacken invc color_of].
      split; [ | discriminate]. split; [tauto | apply Hbl; tauto].
    + assert (Hib : invc (balance (Nd Black a x b'))) by (apply balance_r; tauto).
      split; [apply invc_invc2; exact Hib | intros _; exact Hib].
  - cbn [search_post]. split; [exact Hi | ]. split; [exact Hbc | ].
    destruct Hop as [Hib' Hcb']. split; [ | reflexivity].
    destruct c; cbn [invc] in *; [ rewrite Hcb' | | ]; tauto.
  - destruct (rotate_right c a x b b' Hs (conj Hh' (conj Hb' Hop))) as (t' & Hr & Hd').
    rewrite Hr. exact Hd'.
Qed.

Lemma search_inv : forall t obj f s, rb_sub t -> search_post t (search t obj f s).
Proof.
  induction t as [cl|c a IHa x b IHb]; intros obj f s Hs.
  - destruct cl; try (destruct Hs as [[] _]).
    cbn [search]. destruct f; cbn; intuition (auto; discriminate).
  - cbn [search]. cbv zeta.
    destruct (obj =? item_key x).
    + destruct (s (item_key x) (item_value x)) as [k v| |].
      * destruct Hs as [Hc Hh]. cbn [search_post].
        split; [exact Hh | ]. split; [destruct c; reflexivity | ]. split; [exact Hc | reflexivity].
      * destruct (remove_at_res c a x b Hs) as (t' & Hr & Hd). rewrite Hr. exact Hd.
      * exact I.
    + destruct (obj <? item_key x).
      * specialize (IHa obj f s (rb_sub_l _ _ _ _ Hs)).
        destruct (search a obj f s) as [[a' op]| |]; [ | exact I | exact IHa].
        apply rebuild_left; assumption.
      * specialize (IHb obj f s (rb_sub_r _ _ _ _ Hs)).
        destruct (search b obj f s) as [[b' op]| |]; [ | exact I | exact IHb].
        apply rebuild_right; assumption.
Qed.

(** ---- the root: redden before, blacken after *)
Lemma redden_cases : forall t, rb_inv t ->
  rb_sub (redden t) /\
  (color_of (redden t) = Red \/ redden t = Lf Black \/
   (color_of (redden t) = Black /\ ~ blackkids (redden t))).
Proof.
  intros t (Hb & Hc & Hh).
  destruct t as [[]|[] a x b]; cbn [color_of] in Hb; try discriminate Hb.
  - cbn [redden]. split; [split; assumption | right; left; reflexivity].
  - destruct a as [[]|[] a1 ax a2]; destruct b as [[]|[] b1 bx b2];
      cbn [redden color_of invc invh bh blackkids] in *; unfold rb_sub;
      cbn [color_of invc invh bh blackkids];
      try tauto;
      (split; [tauto | ]);
      first [ left; reflexivity
            | right; right; split; [reflexivity | intros [? ?]; discriminate] ].
Qed.

Lemma blacken_inv : forall t, invc2 t -> invh t -> rb_inv (blacken t).
Proof.
  intros [[]|[] l x r] Hc Hh; unfold rb_inv; cbn [invc2 blacken invc invh color_of] in *; tauto.
Qed.

Theorem rb_inv_invc : forall t, rb_inv t -> invc t.
Proof. intros t H. apply H. Qed.

Theorem rb_inv_invh : forall t, rb_inv t -> invh t.
Proof. intros t H. apply H. Qed.

Theorem rb_inv_rb_sub : forall t, rb_inv t -> rb_sub t.
Proof. intros t (_ & Hc & Hh). split; assumption. Qed.

(** MAIN THEOREM: on a valid tree, for every decision of the continuations, tree-search never raises "tree does not match any
    pattern" and the tree it returns is valid again *)
Theorem tree_search_keeps_rb_invariant : forall t obj f s,
  rb_inv t ->
  match tree_search t obj f s with
  | Built t' => rb_inv t'
  | Escaped => True
  | Raised => False
  end.
Proof.
  intros t obj f s Hi. unfold tree_search.
  destruct (redden_cases t Hi) as (Hs & Hcase).
  pose proof (search_inv (redden t) obj f s Hs) as Hp.
  destruct (search (redden t) obj f s) as [[t' op]| |]; cbn [search_post] in Hp; [ | exact I | exact Hp].
  destruct Hp as (Hh & _ & Hop).
  apply blacken_inv; [ | exact Hh].
  destruct op.
  - tauto.
  - apply invc_invc2. tauto.
  - unfold delc in Hop.
    destruct Hcase as [Hr | [Hl | [Hb Hnk]]].
    + rewrite Hr in Hop. apply invc_invc2. exact Hop.
    + rewrite Hl in Hop. cbn [color_of blackkids] in Hop. apply invc_invc2. tauto.
    + rewrite Hb in Hop. destruct Hop as [[Hc' _]|[_ Hk]]; [apply invc_invc2; exact Hc' | contradiction (Hnk Hk)].
Qed.

Corollary tree_search_never_raises : forall t obj f s, rb_inv t -> tree_search t obj f s <> Raised.
Proof.
  intros t obj f s Hi E. pose proof (tree_search_keeps_rb_invariant t obj f s Hi) as H. rewrite E in H. exact H.
Qed.

(** the special case of the continuations that never answer Remove (insertion, update, ignore, escape) *)
Corollary tree_search_insert_keeps_rb_invariant : forall t obj f s,
  (forall k v, s k v <> Remove) -> rb_inv t ->
  match tree_search t obj f s with Built t' => rb_inv t' | Escaped => True | Raised => False end.
Proof. intros t obj f s _ Hi. apply tree_search_keeps_rb_invariant. exact Hi. Qed.

(** ---- lib/srfi/146/mapping.scm: every procedure that is one mapping-search *)
Theorem make_tree_rb_inv : rb_inv make_tree.
Proof. unfold rb_inv, make_tree. cbn. auto. Qed.

Theorem mapping_search_keeps_rb_invariant : forall m key f s,
  rb_inv m -> exists m', mapping_search m key f s = Some m' /\ rb_inv m'.
Proof.
  intros m key f s Hi. unfold mapping_search.
  pose proof (tree_search_keeps_rb_invariant m key
                (match f with Insert _ v => Insert key v | _ => MissEscape end) s Hi) as H.
  destruct (tree_search m key _ s) as [t'| |].
  - exists t'. split; [reflexivity | exact H].
  - exists m. split; [reflexivity | exact Hi].
  - contradiction.
Qed.

Theorem mapping_set_keeps_rb_invariant : forall m key value,
  rb_inv m -> exists m', mapping_set m key value = Some m' /\ rb_inv m'.
Proof. intros m key value Hi. apply mapping_search_keeps_rb_invariant. exact Hi. Qed.

Theorem mapping_update_keeps_rb_invariant : forall m key updater default,
  rb_inv m -> exists m', mapping_update m key updater default = Some m' /\ rb_inv m'.
Proof. intros m key updater default Hi. apply mapping_search_keeps_rb_invariant. exact Hi. Qed.

Theorem mapping_replace_keeps_rb_invariant : forall m key value,
  rb_inv m -> exists m', mapping_replace m key value = Some m' /\ rb_inv m'.
Proof. intros m key value Hi. apply mapping_search_keeps_rb_invariant. exact Hi. Qed.

Theorem mapping_delete_keeps_rb_invariant : forall m key,
  rb_inv m -> exists m', mapping_delete m key = Some m' /\ rb_inv m'.
Proof. intros m key Hi. apply mapping_search_keeps_rb_invariant. exact Hi. Qed.

Theorem mapping_adjoin_keeps_rb_invariant : forall m key value,
  rb_inv m -> exists m', mapping_adjoin m key value = Some m' /\ rb_inv m'.
Proof. intros m key value Hi. apply mapping_search_keeps_rb_invariant. exact Hi. Qed.

Theorem mapping_delete_all_keeps_rb_invariant : forall keys m,
  rb_inv m -> exists m', mapping_delete_all m keys = Some m' /\ rb_inv m'.
Proof.
  induction keys as [|k ks IH]; intros m Hi; cbn [mapping_delete_all].
  - exists m. split; [reflexivity | exact Hi].
  - destruct (mapping_delete_keeps_rb_invariant m k Hi) as (m1 & E & Hi1). rewrite E. apply IH. exact Hi1.
Qed.

(** ---- the set-theory operations: folds of mapping-search over the second mapping *)
Definition good (o : option rbt) : Prop := exists m, o = Some m /\ rb_inv m.

Lemma tree_fold_good : forall (f : Z -> Z -> option rbt -> option rbt),
  (forall k v acc, good acc -> good (f k v acc)) ->
  forall t acc, invc t -> good acc -> exists acc', tree_fold f acc t = Some acc' /\ good acc'.
Proof.
  intros f Hf. induction t as [cl|c a IHa x b IHb]; intros acc Hc Hg.
  - destruct cl; cbn [invc] in Hc; try contradiction. exists acc. split; [reflexivity | exact Hg].
  - cbn [tree_fold].
    assert (Hab : invc a /\ invc b) by (destruct c; cbn [invc] in Hc; tauto).
    destruct (IHa acc (proj1 Hab) Hg) as (acc1 & E1 & Hg1). rewrite E1.
    apply IHb; [exact (proj2 Hab) | apply Hf; exact Hg1].
Qed.

Lemma fold_items_good : forall f,
  (forall k v acc, good acc -> good (f k v acc)) ->
  forall m1 m2, rb_inv m1 -> rb_inv m2 -> good (fold_items f m1 m2).
Proof.
  intros f Hf m1 m2 H1 H2. unfold fold_items.
  destruct (tree_fold_good f Hf m2 (Some m1) (rb_inv_invc _ H2)) as (acc' & E & Hg).
  - exists m1. split; [reflexivity | exact H1].
  - rewrite E. exact Hg.
Qed.

Lemma obind_search_good : forall acc key f s,
  good acc -> good (obind acc (fun m => mapping_search m key f s)).
Proof.
  intros acc key f s (m & -> & Hi). cbn [obind]. apply mapping_search_keeps_rb_invariant. exact Hi.
Qed.

Theorem mapping_union_keeps_rb_invariant : forall m1 m2,
  rb_inv m1 -> rb_inv m2 -> exists m', mapping_union m1 m2 = Some m' /\ rb_inv m'.
Proof. intros m1 m2 H1 H2. apply fold_items_good; [ | exact H1 | exact H2]. intros k v acc Hg. apply obind_search_good. exact Hg. Qed.

Theorem mapping_difference_keeps_rb_invariant : forall m1 m2,
  rb_inv m1 -> rb_inv m2 -> exists m', mapping_difference m1 m2 = Some m' /\ rb_inv m'.
Proof. intros m1 m2 H1 H2. apply fold_items_good; [ | exact H1 | exact H2]. intros k v acc Hg. apply obind_search_good. exact Hg. Qed.

Theorem mapping_xor_keeps_rb_invariant : forall m1 m2,
  rb_inv m1 -> rb_inv m2 -> exists m', mapping_xor m1 m2 = Some m' /\ rb_inv m'.
Proof. intros m1 m2 H1 H2. apply fold_items_good; [ | exact H1 | exact H2]. intros k v acc Hg. apply obind_search_good. exact Hg. Qed.

(** mapping-filter with a predicate that does not raise *)
Theorem mapping_filter_keeps_rb_invariant : forall p m,
  (forall k v, p k v <> None) -> rb_inv m -> exists m', mapping_filter p m = Some m' /\ rb_inv m'.
Proof.
  intros p m Hp Hi. unfold mapping_filter. apply fold_items_good; [ | exact make_tree_rb_inv | exact Hi].
  intros k v acc Hg. specialize (Hp k v). destruct (p k v) as [[]|]; [ | exact Hg | congruence].
  destruct Hg as (r & -> & Hr). cbn [obind]. apply mapping_set_keeps_rb_invariant. exact Hr.
Qed.

Lemma lookup_total : forall t k, invc t -> lookup t k <> None.
Proof.
  induction t as [cl|c a IHa x b IHb]; intros k Hc.
  - destruct cl; cbn [invc] in Hc; try contradiction. discriminate.
  - assert (Hab : invc a /\ invc b) by (destruct c; cbn [invc] in Hc; tauto).
    cbn [lookup]. destruct (k =? item_key x); [discriminate | ].
    destruct (k <? item_key x); [apply IHa | apply IHb]; tauto.
Qed.

Theorem mapping_ref_total : forall m k, rb_inv m -> mapping_ref m k <> None.
Proof.
  intros m k Hi. unfold mapping_ref. apply lookup_total. apply (redden_cases m Hi).
Qed.

Theorem mapping_intersection_keeps_rb_invariant : forall m1 m2,
  rb_inv m1 -> rb_inv m2 -> exists m', mapping_intersection m1 m2 = Some m' /\ rb_inv m'.
Proof.
  intros m1 m2 H1 H2. unfold mapping_intersection. apply mapping_filter_keeps_rb_invariant; [ | exact H1].
  intros k _. unfold mapping_contains. pose proof (mapping_ref_total m2 k H2) as Hr.
  destruct (mapping_ref m2 k) as [[v|]|]; [discriminate | discriminate | congruence].
Qed.

(** ---- the height bound that the invariant buys: no path is longer than twice the black height (+1 below a red root) *)
Fixpoint height (t : rbt) : nat :=
  match t with Lf _ => 0 | Nd _ l _ r => S (Nat.max (height l) (height r)) end.

Lemma height_bound_sub : forall t, rb_sub t ->
  (height t <= 2 * bh t + match color_of t with Red => 1 | _ => 0 end)%nat.
Proof.
  induction t as [cl|c l IHl x r IHr]; intros Hs.
  - cbn. lia.
  - specialize (IHl (rb_sub_l _ _ _ _ Hs)). specialize (IHr (rb_sub_r _ _ _ _ Hs)).
    destruct Hs as [Hc Hh]. cbn [invh] in Hh. destruct Hh as (_ & _ & Hb).
    destruct c; cbn [invc] in Hc; [ | | contradiction]; cbn [height bh color_of].
    + destruct Hc as (Hl & Hr & _). rewrite Hl in IHl. rewrite Hr in IHr. lia.
    + destruct (color_of l), (color_of r); lia.
Qed.

Theorem height_bound : forall t, rb_inv t -> (height t <= 2 * bh t)%nat.
Proof.
  intros t Hi. pose proof (height_bound_sub t (rb_inv_rb_sub t Hi)) as H.
  destruct Hi as (Hb & _). rewrite Hb in H. lia.
Qed.

(** ---- non-vacuity *)
Definition ex_sets (keys : list Z) : option rbt :=
  fold_left (fun acc k => match acc with Some m => mapping_set m k (k * k) | None => None end) keys (Some make_tree).

Example ex_build_and_delete :
  exists t, ex_sets [5; 2; 8; 1; 9; 3; 7; 4; 6; 10] = Some t /\ rb_inv t /\ height t = 4%nat /\
  exists t1, mapping_delete t 5 = Some t1 /\ rb_inv t1 /\ t1 <> t /\
  exists t2, mapping_delete_all t1 [1; 2; 3; 4] = Some t2 /\ rb_inv t2 /\
  exists t3, mapping_delete_all t2 [6; 7; 8; 9; 10] = Some t3 /\ t3 = make_tree.
Proof.
  eexists. split; [vm_compute; reflexivity | ]. split; [vm_compute; repeat split | ]. split; [reflexivity | ].
  eexists. split; [vm_compute; reflexivity | ]. split; [vm_compute; repeat split | ]. split; [discriminate | ].
  eexists. split; [vm_compute; reflexivity | ]. split; [vm_compute; repeat split | ].
  eexists. split; [vm_compute; reflexivity | reflexivity].
Qed.

Example ex_red_red_not_valid :
  ~ rb_inv (Nd Black (Nd Red (Nd Red (Lf Black) (1, 1) (Lf Black)) (2, 2) (Lf Black)) (3, 3) (Lf Black)).
Proof. intros (_ & Hc & _). cbn in Hc. destruct Hc as ((Hd & _) & _). discriminate Hd. Qed.

Example ex_unequal_heights_not_valid :
  ~ rb_inv (Nd Black (Nd Black (Lf Black) (1, 1) (Lf Black)) (2, 2) (Lf Black)).
Proof. intros (_ & _ & Hh). cbn in Hh. destruct Hh as (_ & _ & E). discriminate E. Qed.

Example ex_red_root_not_valid : ~ rb_inv (Nd Red (Lf Black) (1, 1) (Lf Black)).
Proof. intros (Hb & _). discriminate Hb. Qed.

Example ex_white_not_valid : ~ rb_inv (Nd Black (Lf White) (1, 1) (Lf Black)) /\ ~ rb_inv (Lf White).
Proof. split; intros (_ & Hc & _); cbn in Hc; tauto. Qed.

Print Assumptions tree_search_keeps_rb_invariant.
Print Assumptions mapping_search_keeps_rb_invariant.
Print Assumptions mapping_set_keeps_rb_invariant.
Print Assumptions mapping_delete_keeps_rb_invariant.
Print Assumptions mapping_delete_all_keeps_rb_invariant.
Print Assumptions mapping_adjoin_keeps_rb_invariant.
Print Assumptions mapping_replace_keeps_rb_invariant.
Print Assumptions mapping_update_keeps_rb_invariant.
Print Assumptions mapping_union_keeps_rb_invariant.
Print Assumptions mapping_difference_keeps_rb_invariant.
Print Assumptions mapping_xor_keeps_rb_invariant.
Print Assumptions mapping_intersection_keeps_rb_invariant.
Print Assumptions height_bound.
Print Assumptions ex_build_and_delete.
