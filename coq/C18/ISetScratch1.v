From Coq Require Import ZArith List Bool Lia Sorted.
From ChibiV Require Import C18.SpecCont C18.ContProofs C18.ISet.
Import ListNotations.
Local Open Scope Z_scope.
Definition should_merge_right_bad (a b : tree) : bool :=
  (t_start b - t_end a <? bits_thresh) &&
  match t_right a with Nil => true | Node _ _ _ _ _ => t_end b <? t_start (t_right a) end.
Fixpoint adjoin_node_bad (a b : tree) {struct a} : tree :=
  match a with
  | Nil => Nil
  | Node a_start a_end a_bits al ar =>
      if is_empty a then adjoin_clause_empty b
      else if is_empty b then a
      else
        let b_start := t_start b in
        let b_end := t_end b in
        if b_end <? a_start then
          if should_merge_left a b then merge_left a b
          else Node a_start a_end a_bits (adjoin_child (fun c => adjoin_node_bad c b) al b) ar
        else if b_start >? a_end then
          if should_merge_right_bad a b then merge_right a b
          else Node a_start a_end a_bits al (adjoin_child (fun c => adjoin_node_bad c b) ar b)
        else if (b_start >=? a_start) && (b_end <=? a_end) then adjoin_clause_inside a b
        else a (* general case: not reached by single-point nodes *)
  end.
Definition adjoin1_bad (t : tree) (n : Z) : tree := adjoin_node_bad t (Node n n None Nil Nil).
Definition l := [0; 1000; 500; 100; 200; 300; 400; 510].
Compute (fold_left adjoin1_bad l make_iset0).
Compute (contains (fold_left adjoin1_bad l make_iset0) 500, contains (fold_left adjoin1 l make_iset0) 500).
Compute (to_list (fold_left adjoin1_bad l make_iset0)).
