(** C18 SPEC for the container libraries: executable abstract models used as oracles.
    Finite sets of integers are strictly increasing lists, bags and mappings are association
    lists with strictly increasing keys, sequences (random-access lists, deques, list queues,
    SRFI 1 lists, SRFI 133 vectors) are lists.  All functions are pure, so an older version of a
    container is unchanged by construction: that is what the persistent libraries are compared to. *)
From Coq Require Export List ZArith Bool Lia Sorted.
Export ListNotations.
Local Open Scope Z_scope.

(* ------------------------------------------------------------------ sets (SRFI 113 sets, (chibi iset)) *)
Fixpoint set_mem (x : Z) (s : list Z) : bool :=
  match s with [] => false | y :: s' => (x =? y) || set_mem x s' end.
Fixpoint set_adjoin (x : Z) (s : list Z) : list Z :=
  match s with
  | [] => [x]
  | y :: s' => if x <? y then x :: s else if x =? y then s else y :: set_adjoin x s'
  end.
Definition set_delete (x : Z) (s : list Z) : list Z := filter (fun y => negb (y =? x)) s.
Definition set_union (s t : list Z) : list Z := fold_left (fun a x => set_adjoin x a) t s.
Definition set_of_list (l : list Z) : list Z := set_union [] l.
Definition set_inter (s t : list Z) : list Z := filter (fun x => set_mem x t) s.
Definition set_diff (s t : list Z) : list Z := filter (fun x => negb (set_mem x t)) s.
Definition set_xor (s t : list Z) : list Z := set_union (set_diff s t) (set_diff t s).
Definition set_subset (s t : list Z) : bool := forallb (fun x => set_mem x t) s.
Definition set_equal (s t : list Z) : bool := set_subset s t && set_subset t s.
Definition set_disjoint (s t : list Z) : bool := forallb (fun x => negb (set_mem x t)) s.
Definition set_filter_mod (m : Z) (s : list Z) : list Z := filter (fun x => x mod m =? 0) s.
Definition set_remove_mod (m : Z) (s : list Z) : list Z := filter (fun x => negb (x mod m =? 0)) s.
Definition set_map_half (s : list Z) : list Z := set_of_list (map (fun x => Z.quot x 2) s).
Definition zsum (l : list Z) : Z := fold_right Z.add 0 l.

(* ------------------------------------------------------------------ bags (SRFI 113) *)
Definition bag := list (Z * Z).          (* (element, count > 0), elements strictly increasing *)
Fixpoint bag_count (x : Z) (b : bag) : Z :=
  match b with [] => 0 | (y, c) :: b' => if x =? y then c else bag_count x b' end.
Fixpoint bag_put (x n : Z) (b : bag) : bag :=      (* set the count of x to n (n > 0) *)
  match b with
  | [] => [(x, n)]
  | (y, c) :: b' => if x <? y then (x, n) :: b else if x =? y then (y, n) :: b' else (y, c) :: bag_put x n b'
  end.
Definition bag_drop (x : Z) (b : bag) : bag := filter (fun p => negb (fst p =? x)) b.
(** bag-increment! with a possibly negative amount: a count that would not stay positive removes x *)
Definition bag_incr (x n : Z) (b : bag) : bag :=
  let c := bag_count x b + n in if c >? 0 then bag_put x c b else bag_drop x b.
Definition bag_size (b : bag) : Z := zsum (map snd b).
Definition bag_combine (f : Z -> Z -> Z) (b1 b2 : bag) : bag :=
  fold_left (fun a k => let c := f (bag_count k b1) (bag_count k b2) in if c >? 0 then bag_put k c a else a)
            (set_union (map fst b1) (map fst b2)) [].
Definition bag_union := bag_combine Z.max.
Definition bag_inter := bag_combine Z.min.
Definition bag_sum := bag_combine Z.add.
Definition bag_diff := bag_combine (fun a b => a - b).
Definition bag_of_list (l : list Z) : bag := fold_left (fun a x => bag_incr x 1 a) l [].

(* ------------------------------------------------------------------ mappings (SRFI 146 mapping / hashmap) *)
Definition amap := list (Z * Z).         (* (key, value), keys strictly increasing *)
(** mapping-range< / <= / > / >= (ordered mappings only): the associations whose key is below / above x *)
Definition map_range_lt (x : Z) (m : amap) : amap := filter (fun p => fst p <? x) m.
Definition map_range_le (x : Z) (m : amap) : amap := filter (fun p => fst p <=? x) m.
Definition map_range_gt (x : Z) (m : amap) : amap := filter (fun p => fst p >? x) m.
Definition map_range_ge (x : Z) (m : amap) : amap := filter (fun p => fst p >=? x) m.
Fixpoint map_ref (k : Z) (m : amap) : option Z :=
  match m with [] => None | (k', v) :: m' => if k =? k' then Some v else map_ref k m' end.
Fixpoint map_set (k v : Z) (m : amap) : amap :=
  match m with
  | [] => [(k, v)]
  | (k', v') :: m' => if k <? k' then (k, v) :: m else if k =? k' then (k, v) :: m' else (k', v') :: map_set k v m'
  end.
Definition map_has (k : Z) (m : amap) : bool := match map_ref k m with Some _ => true | None => false end.
Definition map_delete (k : Z) (m : amap) : amap := filter (fun p => negb (fst p =? k)) m.
Definition map_adjoin (k v : Z) (m : amap) : amap := if map_has k m then m else map_set k v m.
Definition map_replace (k v : Z) (m : amap) : amap := if map_has k m then map_set k v m else m.
(** mapping-update/default with updater (+ 1) and default d *)
Definition map_bump (k d : Z) (m : amap) : amap :=
  map_set k (match map_ref k m with Some v => v + 1 | None => d + 1 end) m.
(** union: associations of the first mapping take precedence *)
Definition map_union (m1 m2 : amap) : amap := fold_left (fun a p => map_adjoin (fst p) (snd p) a) m2 m1.
Definition map_inter (m1 m2 : amap) : amap := filter (fun p => map_has (fst p) m2) m1.
Definition map_diff (m1 m2 : amap) : amap := filter (fun p => negb (map_has (fst p) m2)) m1.
Definition map_xor (m1 m2 : amap) : amap := map_union (map_diff m1 m2) (map_diff m2 m1).
Definition map_filter_mod (d : Z) (m : amap) : amap := filter (fun p => fst p mod d =? 0) m.

(* ------------------------------------------------------------------ sequences *)
Fixpoint seq_set (i : nat) (x : Z) (l : list Z) : list Z :=
  match l, i with
  | [], _ => []
  | _ :: l', O => x :: l'
  | y :: l', S i' => y :: seq_set i' x l'
  end.
Definition seq_take_right (i : nat) (l : list Z) : list Z := skipn (length l - i) l.
Definition seq_drop_right (i : nat) (l : list Z) : list Z := firstn (length l - i) l.
Fixpoint seq_index_mod (m : Z) (l : list Z) : Z :=        (* position of the first multiple of m, or -1 *)
  match l with
  | [] => -1
  | x :: l' => if x mod m =? 0 then 0 else let r := seq_index_mod m l' in if r <? 0 then -1 else r + 1
  end.
Definition seq_delete_dups (l : list Z) : list Z :=      (* SRFI 1 delete-duplicates: first occurrence stays *)
  fold_left (fun acc x => if set_mem x acc then acc else acc ++ [x]) l [].
Definition seq_delete (x : Z) (l : list Z) : list Z := filter (fun y => negb (y =? x)) l.
Definition seq_count_mod (m : Z) (l : list Z) : Z := Z.of_nat (length (filter (fun x => x mod m =? 0) l)).
Fixpoint seq_cumulate (acc : Z) (l : list Z) : list Z :=   (* SRFI 133 vector-cumulate + *)
  match l with [] => [] | x :: l' => (acc + x) :: seq_cumulate (acc + x) l' end.
Fixpoint seq_take_while_mod (m : Z) (l : list Z) : list Z :=
  match l with [] => [] | x :: l' => if x mod m =? 0 then x :: seq_take_while_mod m l' else [] end.
Fixpoint seq_drop_while_mod (m : Z) (l : list Z) : list Z :=
  match l with [] => [] | x :: l' => if x mod m =? 0 then seq_drop_while_mod m l' else l end.
Fixpoint seq_skip_mod (m : Z) (l : list Z) : Z :=         (* position of the first non-multiple of m, or -1 *)
  match l with
  | [] => -1
  | x :: l' => if x mod m =? 0 then (let r := seq_skip_mod m l' in if r <? 0 then -1 else r + 1) else 0
  end.
Definition seq_index_right_mod (m : Z) (l : list Z) : Z :=
  let r := seq_index_mod m (rev l) in if r <? 0 then -1 else Z.of_nat (length l) - 1 - r.
Definition seq_sub (s e : nat) (l : list Z) : list Z := firstn (e - s) (skipn s l).
Definition seq_reverse_range (s e : nat) (l : list Z) : list Z := firstn s l ++ rev (seq_sub s e l) ++ skipn e l.
Definition seq_fill_range (x : Z) (s e : nat) (l : list Z) : list Z := firstn s l ++ repeat x (e - s) ++ skipn e l.
Definition seq_swap (i j : nat) (l : list Z) : list Z :=
  let a := nth i l 0 in let b := nth j l 0 in seq_set j a (seq_set i b l).
Definition seq_iota (n : nat) (start : Z) : list Z := map (fun k => start + Z.of_nat k) (seq 0 n).
Definition seq_partition_mod (m : Z) (l : list Z) : list Z * list Z :=
  (filter (fun x => x mod m =? 0) l, filter (fun x => negb (x mod m =? 0)) l).
Definition seq_remove_front (l : list Z) : list Z := tl l.
Definition seq_remove_back (l : list Z) : list Z := removelast l.
Definition seq_back (l : list Z) : Z := last l 0.
Definition seq_add_back (l : list Z) (x : Z) : list Z := l ++ [x].
Definition seq_take (i : nat) (l : list Z) : list Z := firstn i l.
Definition seq_drop (i : nat) (l : list Z) : list Z := skipn i l.
Definition seq_append_reverse (l t : list Z) : list Z := rev l ++ t.
Definition seq_map1 (l : list Z) : list Z := map (fun x => x + 1) l.
Definition seq_filter_mod (m : Z) (l : list Z) : list Z := filter (fun x => x mod m =? 0) l.
Definition seq_remove_mod (m : Z) (l : list Z) : list Z := filter (fun x => negb (x mod m =? 0)) l.
Definition seq_any_mod (m : Z) (l : list Z) : bool := existsb (fun x => x mod m =? 0) l.
Definition seq_every_mod (m : Z) (l : list Z) : bool := forallb (fun x => x mod m =? 0) l.
Definition seq_equal (l t : list Z) : bool := (length l =? length t)%nat && forallb (fun p => fst p =? snd p) (combine l t).
