(** C18 PROOFS about the SRFI 134 deque model C18/Deque.v: every operation keeps the balance
    invariant of the banker's deque and refines the list operation it denotes. *)
From Coq Require Import List Arith Bool Lia.
From ChibiV Require Import C18.Deque.
Import ListNotations.

Definition dq_wf {A} (d : dq A) : Prop :=
  lenf d = length (fr d) /\ lenr d = length (rr d) /\ lenf d <= 3 * lenr d + 1 /\ lenr d <= 3 * lenf d + 1.

(** * Arithmetic and list helpers *)

Lemma dqp_half_bounds : forall n, 2 * (n / 2) <= n /\ n < 2 * (n / 2) + 2.
Proof.
  intros n. pose proof (Nat.div_mod n 2) as Hdm. pose proof (Nat.mod_upper_bound n 2) as Hub. lia.
Qed.

Lemma dqp_filter_map_app : forall A B (g : A -> option B) a b,
  filter_map_list g (a ++ b) = filter_map_list g a ++ filter_map_list g b.
Proof.
  intros A B g a b. induction a as [|x a IH]; simpl; [reflexivity|].
  destruct (g x) as [y|]; simpl; rewrite IH; reflexivity.
Qed.

Lemma dqp_filter_map_rev : forall A B (g : A -> option B) l,
  filter_map_list g (rev l) = rev (filter_map_list g l).
Proof.
  intros A B g l. induction l as [|x l IH]; simpl; [reflexivity|].
  rewrite dqp_filter_map_app, IH. simpl. destruct (g x) as [y|]; simpl; [reflexivity|apply app_nil_r].
Qed.

Lemma dqp_filter_rev : forall A (p : A -> bool) l, filter p (rev l) = rev (filter p l).
Proof.
  intros A p l. induction l as [|x l IH]; simpl; [reflexivity|].
  rewrite filter_app, IH. simpl. destruct (p x); simpl; [reflexivity|apply app_nil_r].
Qed.

Lemma dqp_partition_filter : forall A (p : A -> bool) l,
  partition p l = (filter p l, filter (fun x => negb (p x)) l).
Proof.
  intros A p l. induction l as [|x l IH]; simpl; [reflexivity|].
  rewrite IH. destruct (p x); reflexivity.
Qed.

Lemma dqp_span_app : forall A (p : A -> bool) a b,
  span_list p (a ++ b) =
  match snd (span_list p a) with
  | [] => (a ++ fst (span_list p b), snd (span_list p b))
  | _ :: _ => (fst (span_list p a), snd (span_list p a) ++ b)
  end.
Proof.
  intros A p a b. induction a as [|x a IH]; simpl.
  - destruct (span_list p b); reflexivity.
  - destruct (p x); simpl; [|reflexivity].
    rewrite IH. destruct (span_list p a) as [h t]; simpl. destruct t; reflexivity.
Qed.

Lemma dqp_span_nil_fst : forall A (p : A -> bool) a, snd (span_list p a) = [] -> fst (span_list p a) = a.
Proof.
  intros A p a. induction a as [|x a IH]; simpl; [reflexivity|].
  destruct (p x); simpl; [|discriminate].
  destruct (span_list p a) as [h t]; simpl in *. intros Ht. rewrite IH; auto.
Qed.

Lemma dqp_find_app : forall A (p : A -> bool) a b,
  find p (a ++ b) = match find p a with Some x => Some x | None => find p b end.
Proof.
  intros A p a b. induction a as [|x a IH]; simpl; [reflexivity|]. destruct (p x); auto.
Qed.

Lemma dqp_nth_error_rev : forall A (l : list A) k,
  k < length l -> nth_error (rev l) k = nth_error l (length l - S k).
Proof.
  intros A l. induction l as [|a l IH]; intros k Hk; simpl in *; [lia|].
  destruct (Nat.eq_dec k (length l)) as [Heq|Hne].
  - rewrite nth_error_app2 by (rewrite rev_length; lia).
    rewrite rev_length. subst k. rewrite !Nat.sub_diag. reflexivity.
  - rewrite nth_error_app1 by (rewrite rev_length; lia).
    rewrite IH by lia.
    replace (length l - k) with (S (length l - S k)) by lia. reflexivity.
Qed.

Lemma dqp_tab_rev : forall A (init : nat -> A) size k, k <= size ->
  rev (map (fun n => init (size - n - 1)) (seq 0 k)) = map init (seq (size - k) k).
Proof.
  intros A init size k. induction k as [|k IH]; intros Hk; [reflexivity|].
  rewrite seq_S, map_app, rev_app_distr. simpl. rewrite IH by lia.
  replace (size - k - 1) with (size - S k) by lia.
  replace (size - k) with (S (size - S k)) by lia. reflexivity.
Qed.

Lemma dqp_tl_app : forall A (a b : list A), a <> [] -> tl (a ++ b) = tl a ++ b.
Proof. intros A a b Ha. destruct a; [congruence|reflexivity]. Qed.

Lemma dqp_length_le1 : forall A (l : list A), length l <= 1 -> l = [] \/ exists x, l = [x].
Proof.
  intros A l H. destruct l as [|x [|y l]]; simpl in *; [left; reflexivity|right; eauto|lia].
Qed.

(** * 1. The balancing constructor *)

Theorem dq_check_balances : forall A lf (f : list A) lr r, lf = length f -> lr = length r ->
  dq_wf (dq_check lf f lr r) /\ dq_to_list (dq_check lf f lr r) = f ++ rev r.
Proof.
  intros A lf f lr r Hf Hr. unfold dq_check, dq_C.
  pose proof (dqp_half_bounds (lf + lr)) as [Hlo Hhi].
  destruct (lr * 3 + 1 <? lf) eqn:E1.
  - apply Nat.ltb_lt in E1.
    remember ((lf + lr) / 2) as i eqn:Hi.
    unfold dq_wf, dq_to_list; simpl.
    split; [split; [|split; [|split]]|].
    + rewrite firstn_length_le; lia.
    + rewrite app_length, rev_length, skipn_length. lia.
    + lia.
    + lia.
    + rewrite rev_app_distr, rev_involutive, app_assoc, firstn_skipn. reflexivity.
  - apply Nat.ltb_ge in E1. destruct (lf * 3 + 1 <? lr) eqn:E2.
    + apply Nat.ltb_lt in E2.
      remember ((lf + lr) / 2) as j eqn:Hj.
      unfold dq_wf, dq_to_list; simpl.
      split; [split; [|split; [|split]]|].
      * rewrite app_length, rev_length, skipn_length. lia.
      * rewrite firstn_length_le; lia.
      * lia.
      * lia.
      * rewrite <- app_assoc, <- rev_app_distr, firstn_skipn. reflexivity.
    + apply Nat.ltb_ge in E2.
      unfold dq_wf, dq_to_list; simpl.
      split; [split; [|split; [|split]]|]; try assumption; try lia. reflexivity.
Qed.

Lemma dqp_check : forall A lf (f : list A) lr r l, lf = length f -> lr = length r -> f ++ rev r = l ->
  dq_wf (dq_check lf f lr r) /\ dq_to_list (dq_check lf f lr r) = l.
Proof.
  intros A lf f lr r l Hf Hr Hl. subst l. apply dq_check_balances; assumption.
Qed.

Example dq_check_balances_ex :
  dq_wf (dq_check 7 [1;2;3;4;5;6;7] 0 []) /\ dq_to_list (dq_check 7 [1;2;3;4;5;6;7] 0 []) = [1;2;3;4;5;6;7].
Proof. apply (dq_check_balances nat 7 [1;2;3;4;5;6;7] 0 []); reflexivity. Qed.

(** * 2. Constructors *)

Ltac dqp_proj := cbn [lenf lenr fr rr] in *.
Ltac dqp_wf_split := split; [split; [|split; [|split]]|].
(* splits only syntactic conjunctions (never unfolds dq_wf) and closes every part from the context *)
Ltac dqp_conj :=
  repeat match goal with |- _ /\ _ => split; [first [assumption|lia]|] end; first [assumption|lia].

Lemma dq_length_ok : forall A (d : dq A), dq_wf d -> dq_length d = length (dq_to_list d).
Proof.
  intros A [lf f lr r] (Hf & Hr & _ & _). dqp_proj. subst lf lr.
  unfold dq_length, dq_to_list. dqp_proj. rewrite app_length, rev_length. reflexivity.
Qed.

Lemma dq_empty_ok : forall A, dq_wf (@dq_empty A) /\ dq_to_list (@dq_empty A) = [].
Proof. intros A. unfold dq_wf, dq_to_list, dq_empty. dqp_proj. simpl. dqp_wf_split; try reflexivity; lia. Qed.

Lemma dq_of_list_ok : forall A (l : list A), dq_wf (dq_of_list l) /\ dq_to_list (dq_of_list l) = l.
Proof.
  intros A l. unfold dq_of_list. apply dqp_check; [reflexivity|reflexivity|simpl; apply app_nil_r].
Qed.

Lemma dq_tabulate_ok : forall A size (init : nat -> A),
  dq_wf (dq_tabulate size init) /\ dq_to_list (dq_tabulate size init) = map init (seq 0 size).
Proof.
  intros A size init.
  pose proof (dqp_half_bounds size) as [Ha Hb]. pose proof (dqp_half_bounds (size + 1)) as [Hc Hd].
  unfold dq_tabulate.
  remember (size / 2) as lf eqn:Elf. remember ((size + 1) / 2) as lr eqn:Elr.
  cbv zeta. unfold dq_wf, dq_to_list. dqp_proj.
  dqp_wf_split.
  - rewrite map_length, seq_length. reflexivity.
  - rewrite map_length, seq_length. reflexivity.
  - lia.
  - lia.
  - rewrite dqp_tab_rev by lia. replace (size - lr) with (0 + lf) by lia.
    rewrite <- map_app, <- seq_app. replace (lf + lr) with size by lia. reflexivity.
Qed.

Lemma dq_add_front_ok : forall A (d : dq A) x, dq_wf d ->
  dq_wf (dq_add_front d x) /\ dq_to_list (dq_add_front d x) = x :: dq_to_list d.
Proof.
  intros A [lf f lr r] x (Hf & Hr & _ & _). dqp_proj. subst lf lr.
  unfold dq_add_front, dq_to_list. dqp_proj.
  apply dqp_check; [simpl; lia|reflexivity|reflexivity].
Qed.

Lemma dq_add_back_ok : forall A (d : dq A) x, dq_wf d ->
  dq_wf (dq_add_back d x) /\ dq_to_list (dq_add_back d x) = dq_to_list d ++ [x].
Proof.
  intros A [lf f lr r] x (Hf & Hr & _ & _). dqp_proj. subst lf lr.
  unfold dq_add_back, dq_to_list. dqp_proj.
  apply dqp_check; [reflexivity|simpl; lia|simpl; apply app_assoc].
Qed.

Lemma dq_remove_front_ok : forall A (d : dq A), dq_wf d ->
  (forall d', dq_remove_front d = Some d' -> dq_wf d' /\ dq_to_list d' = tl (dq_to_list d)) /\
  (dq_remove_front d = None <-> dq_to_list d = []).
Proof.
  intros A [lf f lr r] (Hf & Hr & Hb1 & Hb2). dqp_proj.
  unfold dq_remove_front, dq_to_list. dqp_proj.
  destruct (lf =? 0) eqn:E0.
  - apply Nat.eqb_eq in E0. assert (Ef : f = []) by (apply length_zero_iff_nil; lia). subst f.
    destruct (lr =? 0) eqn:E1.
    + apply Nat.eqb_eq in E1. assert (Er : r = []) by (apply length_zero_iff_nil; lia). subst r. simpl.
      split; [intros d' Hd; discriminate Hd|split; reflexivity].
    + apply Nat.eqb_neq in E1.
      destruct (dqp_length_le1 _ r) as [Hn|[y Hy]]; [simpl in Hf; lia|subst r; simpl in Hr; lia|subst r].
      split.
      * intros d' Hd. injection Hd as Hd. subst d'. split; [apply dq_empty_ok|reflexivity].
      * simpl. split; intros Hd; discriminate Hd.
  - apply Nat.eqb_neq in E0. destruct f as [|a f]; [simpl in Hf; lia|].
    split.
    + intros d' Hd. injection Hd as Hd. subst d'.
      apply dqp_check; [simpl in *; lia|assumption|reflexivity].
    + simpl. split; intros Hd; discriminate Hd.
Qed.

Lemma dq_remove_back_ok : forall A (d : dq A), dq_wf d ->
  (forall d', dq_remove_back d = Some d' -> dq_wf d' /\ dq_to_list d' = removelast (dq_to_list d)) /\
  (dq_remove_back d = None <-> dq_to_list d = []).
Proof.
  intros A [lf f lr r] (Hf & Hr & Hb1 & Hb2). dqp_proj.
  unfold dq_remove_back, dq_to_list. dqp_proj.
  destruct (lr =? 0) eqn:E0.
  - apply Nat.eqb_eq in E0. assert (Er : r = []) by (apply length_zero_iff_nil; lia). subst r.
    destruct (lf =? 0) eqn:E1.
    + apply Nat.eqb_eq in E1. assert (Ef : f = []) by (apply length_zero_iff_nil; lia). subst f. simpl.
      split; [intros d' Hd; discriminate Hd|split; reflexivity].
    + apply Nat.eqb_neq in E1.
      destruct (dqp_length_le1 _ f) as [Hn|[y Hy]]; [simpl in Hr; lia|subst f; simpl in Hf; lia|subst f].
      split.
      * intros d' Hd. injection Hd as Hd. subst d'. split; [apply dq_empty_ok|reflexivity].
      * simpl. split; intros Hd; discriminate Hd.
  - apply Nat.eqb_neq in E0. destruct r as [|a r]; [simpl in Hr; lia|].
    split.
    + intros d' Hd. injection Hd as Hd. subst d'.
      apply dqp_check; [assumption|simpl in *; lia|].
      simpl. rewrite app_assoc, removelast_last. reflexivity.
    + split; [intros Hd; discriminate Hd|].
      simpl. intros Hd. apply app_eq_nil in Hd as [_ Hd]. apply app_eq_nil in Hd as [_ Hd]. discriminate Hd.
Qed.

Lemma dq_reverse_ok : forall A (d : dq A), dq_wf d ->
  dq_wf (dq_reverse d) /\ dq_to_list (dq_reverse d) = rev (dq_to_list d).
Proof.
  intros A [lf f lr r] (Hf & Hr & Hb1 & Hb2). dqp_proj.
  unfold dq_reverse, dq_is_empty. dqp_proj.
  destruct ((lf =? 0) && (lr =? 0)) eqn:E.
  - apply andb_true_iff in E as [E0 E1]. apply Nat.eqb_eq in E0, E1.
    assert (Ef : f = []) by (apply length_zero_iff_nil; lia).
    assert (Er : r = []) by (apply length_zero_iff_nil; lia). subst f r. apply dq_empty_ok.
  - unfold dq_wf, dq_to_list. dqp_proj. dqp_wf_split; try assumption.
    rewrite rev_app_distr, rev_involutive. reflexivity.
Qed.

Lemma dq_take__ok : forall A (d : dq A) n, dq_wf d -> n <= dq_length d ->
  dq_wf (dq_take_ d n) /\ dq_to_list (dq_take_ d n) = firstn n (dq_to_list d).
Proof.
  intros A [lf f lr r] n (Hf & Hr & _ & _) Hn. unfold dq_length in Hn. dqp_proj. subst lf lr.
  unfold dq_take_, dq_to_list, take_right_list. dqp_proj.
  destruct (n <=? length f) eqn:E.
  - apply Nat.leb_le in E. apply dqp_check.
    + rewrite firstn_length_le; lia.
    + reflexivity.
    + simpl. rewrite app_nil_r, firstn_app. replace (n - length f) with 0 by lia.
      simpl. rewrite app_nil_r. reflexivity.
  - apply Nat.leb_gt in E. cbv zeta. apply dqp_check.
    + reflexivity.
    + rewrite skipn_length. lia.
    + rewrite firstn_app, firstn_all2 by lia. rewrite firstn_rev. reflexivity.
Qed.

Lemma dq_drop__ok : forall A (d : dq A) n, dq_wf d -> n <= dq_length d ->
  dq_wf (dq_drop_ d n) /\ dq_to_list (dq_drop_ d n) = skipn n (dq_to_list d).
Proof.
  intros A [lf f lr r] n (Hf & Hr & _ & _) Hn. unfold dq_length in Hn. dqp_proj. subst lf lr.
  unfold dq_drop_, dq_to_list. dqp_proj.
  destruct (n <=? length f) eqn:E.
  - apply Nat.leb_le in E. apply dqp_check.
    + rewrite skipn_length. reflexivity.
    + reflexivity.
    + rewrite skipn_app. replace (n - length f) with 0 by lia. reflexivity.
  - apply Nat.leb_gt in E. cbv zeta. apply dqp_check.
    + reflexivity.
    + rewrite firstn_length_le; lia.
    + rewrite skipn_app, skipn_all2 by lia. rewrite skipn_rev. reflexivity.
Qed.

Lemma dq_take_ok : forall A (d : dq A) n, dq_wf d ->
  match dq_take d n with
  | Some d' => n <= length (dq_to_list d) /\ dq_wf d' /\ dq_to_list d' = firstn n (dq_to_list d)
  | None => length (dq_to_list d) < n
  end.
Proof.
  intros A d n Hwf. unfold dq_take, dq_in_range. pose proof (dq_length_ok _ d Hwf) as Hlen.
  destruct (n <=? dq_length d) eqn:E.
  - apply Nat.leb_le in E. split; [lia|]. apply dq_take__ok; assumption.
  - apply Nat.leb_gt in E. lia.
Qed.

Lemma dq_drop_ok : forall A (d : dq A) n, dq_wf d ->
  match dq_drop d n with
  | Some d' => n <= length (dq_to_list d) /\ dq_wf d' /\ dq_to_list d' = skipn n (dq_to_list d)
  | None => length (dq_to_list d) < n
  end.
Proof.
  intros A d n Hwf. unfold dq_drop, dq_in_range. pose proof (dq_length_ok _ d Hwf) as Hlen.
  destruct (n <=? dq_length d) eqn:E.
  - apply Nat.leb_le in E. split; [lia|]. apply dq_drop__ok; assumption.
  - apply Nat.leb_gt in E. lia.
Qed.

Lemma dq_take_right_ok : forall A (d : dq A) n, dq_wf d ->
  match dq_take_right d n with
  | Some d' => n <= length (dq_to_list d) /\ dq_wf d' /\
               dq_to_list d' = skipn (length (dq_to_list d) - n) (dq_to_list d)
  | None => length (dq_to_list d) < n
  end.
Proof.
  intros A d n Hwf. unfold dq_take_right, dq_in_range. pose proof (dq_length_ok _ d Hwf) as Hlen.
  destruct (n <=? dq_length d) eqn:E.
  - apply Nat.leb_le in E. split; [lia|]. rewrite <- Hlen. apply dq_drop__ok; [assumption|lia].
  - apply Nat.leb_gt in E. lia.
Qed.

Lemma dq_drop_right_ok : forall A (d : dq A) n, dq_wf d ->
  match dq_drop_right d n with
  | Some d' => n <= length (dq_to_list d) /\ dq_wf d' /\
               dq_to_list d' = firstn (length (dq_to_list d) - n) (dq_to_list d)
  | None => length (dq_to_list d) < n
  end.
Proof.
  intros A d n Hwf. unfold dq_drop_right, dq_in_range. pose proof (dq_length_ok _ d Hwf) as Hlen.
  destruct (n <=? dq_length d) eqn:E.
  - apply Nat.leb_le in E. split; [lia|]. rewrite <- Hlen. apply dq_take__ok; [assumption|lia].
  - apply Nat.leb_gt in E. lia.
Qed.

Lemma dq_split_at_ok : forall A (d : dq A) n, dq_wf d ->
  match dq_split_at d n with
  | Some (d1, d2) => n <= length (dq_to_list d) /\ dq_wf d1 /\ dq_wf d2 /\
                     dq_to_list d1 = firstn n (dq_to_list d) /\ dq_to_list d2 = skipn n (dq_to_list d)
  | None => length (dq_to_list d) < n
  end.
Proof.
  intros A d n Hwf. unfold dq_split_at, dq_in_range. pose proof (dq_length_ok _ d Hwf) as Hlen.
  destruct (n <=? dq_length d) eqn:E.
  - apply Nat.leb_le in E.
    destruct (dq_take__ok _ d n Hwf E) as [Hw1 Hl1]. destruct (dq_drop__ok _ d n Hwf E) as [Hw2 Hl2].
    dqp_conj.
  - apply Nat.leb_gt in E. lia.
Qed.

Lemma dq_append_all_ok : forall A (ds : list (dq A)),
  dq_wf (dq_append_all ds) /\ dq_to_list (dq_append_all ds) = concat (map (@dq_to_list A) ds).
Proof. intros A ds. unfold dq_append_all. apply dq_of_list_ok. Qed.

Lemma dq_append_ok : forall A (d1 d2 : dq A),
  dq_wf (dq_append d1 d2) /\ dq_to_list (dq_append d1 d2) = dq_to_list d1 ++ dq_to_list d2.
Proof.
  intros A d1 d2. unfold dq_append. destruct (dq_append_all_ok _ [d1; d2]) as [Hw Hl].
  split; [exact Hw|]. rewrite Hl. simpl. rewrite app_nil_r. reflexivity.
Qed.

Lemma dq_map_ok : forall A B (g : A -> B) (d : dq A), dq_wf d ->
  dq_wf (dq_map g d) /\ dq_to_list (dq_map g d) = map g (dq_to_list d).
Proof.
  intros A B g [lf f lr r] (Hf & Hr & Hb1 & Hb2). dqp_proj.
  unfold dq_map, dq_wf, dq_to_list. dqp_proj.
  dqp_wf_split; try assumption.
  - rewrite map_length. assumption.
  - rewrite map_length. assumption.
  - rewrite map_app, map_rev. reflexivity.
Qed.

Lemma dq_filter_map_ok : forall A B (g : A -> option B) (d : dq A),
  dq_wf (dq_filter_map g d) /\ dq_to_list (dq_filter_map g d) = filter_map_list g (dq_to_list d).
Proof.
  intros A B g d. unfold dq_filter_map, dq_to_list. cbv zeta.
  apply dqp_check; [reflexivity|reflexivity|].
  rewrite dqp_filter_map_app, dqp_filter_map_rev. reflexivity.
Qed.

Lemma dq_append_map_ok : forall A B (g : A -> list B) (d : dq A),
  dq_wf (dq_append_map g d) /\ dq_to_list (dq_append_map g d) = flat_map g (dq_to_list d).
Proof. intros A B g d. unfold dq_append_map. apply dq_of_list_ok. Qed.

Lemma dq_filter_ok : forall A (p : A -> bool) (d : dq A),
  dq_wf (dq_filter p d) /\ dq_to_list (dq_filter p d) = filter p (dq_to_list d).
Proof.
  intros A p d. unfold dq_filter, dq_filter_remove, dq_to_list. cbv zeta.
  apply dqp_check; [reflexivity|reflexivity|].
  rewrite filter_app, dqp_filter_rev. reflexivity.
Qed.

Lemma dq_remove_ok : forall A (p : A -> bool) (d : dq A),
  dq_wf (dq_remove p d) /\ dq_to_list (dq_remove p d) = remove_list p (dq_to_list d).
Proof.
  intros A p d. unfold dq_remove, dq_filter_remove, dq_to_list, remove_list. cbv zeta.
  apply dqp_check; [reflexivity|reflexivity|].
  rewrite filter_app, dqp_filter_rev. reflexivity.
Qed.

Lemma dq_partition_ok : forall A (p : A -> bool) (d : dq A),
  dq_wf (fst (dq_partition p d)) /\ dq_wf (snd (dq_partition p d)) /\
  dq_to_list (fst (dq_partition p d)) = fst (partition p (dq_to_list d)) /\
  dq_to_list (snd (dq_partition p d)) = snd (partition p (dq_to_list d)) /\
  dq_to_list (fst (dq_partition p d)) = filter p (dq_to_list d) /\
  dq_to_list (snd (dq_partition p d)) = filter (fun x => negb (p x)) (dq_to_list d).
Proof.
  intros A p d. unfold dq_partition, dq_to_list. rewrite !dqp_partition_filter. cbn [fst snd].
  assert (H1 : dq_wf (dq_check (length (filter p (fr d))) (filter p (fr d)) (length (filter p (rr d))) (filter p (rr d))) /\
               dq_to_list (dq_check (length (filter p (fr d))) (filter p (fr d)) (length (filter p (rr d))) (filter p (rr d))) =
               filter p (fr d ++ rev (rr d))).
  { apply dqp_check; [reflexivity|reflexivity|]. rewrite filter_app, dqp_filter_rev. reflexivity. }
  set (q := fun x => negb (p x)) in *.
  assert (H2 : dq_wf (dq_check (length (filter q (fr d))) (filter q (fr d)) (length (filter q (rr d))) (filter q (rr d))) /\
               dq_to_list (dq_check (length (filter q (fr d))) (filter q (fr d)) (length (filter q (rr d))) (filter q (rr d))) =
               filter q (fr d ++ rev (rr d))).
  { apply dqp_check; [reflexivity|reflexivity|]. rewrite filter_app, dqp_filter_rev. reflexivity. }
  destruct H1 as [Hw1 Hl1]. destruct H2 as [Hw2 Hl2]. unfold dq_to_list in Hl1, Hl2.
  dqp_conj.
Qed.

Lemma dq_take_while_ok : forall A (p : A -> bool) (d : dq A), dq_wf d ->
  dq_wf (dq_take_while p d) /\ dq_to_list (dq_take_while p d) = fst (span_list p (dq_to_list d)).
Proof.
  intros A p [lf f lr r] (Hf & Hr & _ & _). dqp_proj. subst lf lr.
  unfold dq_take_while, dq_to_list. dqp_proj.
  rewrite dqp_span_app.
  pose proof (dqp_span_nil_fst _ p f) as Hnil.
  destruct (span_list p f) as [hd tl]. cbn [fst snd] in *. destruct tl as [|t tl].
  - specialize (Hnil eq_refl). subst hd.
    destruct (span_list p (rev r)) as [hd' tl']. cbn [fst snd].
    apply dqp_check; [reflexivity|rewrite rev_length; reflexivity|rewrite rev_involutive; reflexivity].
  - cbn [fst snd]. apply dqp_check; [reflexivity|reflexivity|apply app_nil_r].
Qed.

Lemma dq_drop_while_ok : forall A (p : A -> bool) (d : dq A), dq_wf d ->
  dq_wf (dq_drop_while p d) /\ dq_to_list (dq_drop_while p d) = snd (span_list p (dq_to_list d)).
Proof.
  intros A p [lf f lr r] (Hf & Hr & _ & _). dqp_proj. subst lf lr.
  unfold dq_drop_while, dq_to_list. dqp_proj.
  rewrite dqp_span_app.
  destruct (span_list p f) as [hd tl]. cbn [fst snd] in *. destruct tl as [|t tl].
  - destruct (span_list p (rev r)) as [hd' tl']. cbn [fst snd].
    apply dqp_check; [reflexivity|reflexivity|apply app_nil_r].
  - cbn [fst snd]. apply dqp_check; [reflexivity|reflexivity|reflexivity].
Qed.

Lemma dq_take_while_right_ok : forall A (p : A -> bool) (d : dq A), dq_wf d ->
  dq_wf (dq_take_while_right p d) /\
  dq_to_list (dq_take_while_right p d) = rev (fst (span_list p (rev (dq_to_list d)))).
Proof.
  intros A p d Hwf. unfold dq_take_while_right.
  destruct (dq_reverse_ok _ d Hwf) as [Hw1 Hl1].
  destruct (dq_take_while_ok _ p _ Hw1) as [Hw2 Hl2].
  destruct (dq_reverse_ok _ _ Hw2) as [Hw3 Hl3].
  split; [exact Hw3|]. rewrite Hl3, Hl2, Hl1. reflexivity.
Qed.

Lemma dq_drop_while_right_ok : forall A (p : A -> bool) (d : dq A), dq_wf d ->
  dq_wf (dq_drop_while_right p d) /\
  dq_to_list (dq_drop_while_right p d) = rev (snd (span_list p (rev (dq_to_list d)))).
Proof.
  intros A p d Hwf. unfold dq_drop_while_right.
  destruct (dq_reverse_ok _ d Hwf) as [Hw1 Hl1].
  destruct (dq_drop_while_ok _ p _ Hw1) as [Hw2 Hl2].
  destruct (dq_reverse_ok _ _ Hw2) as [Hw3 Hl3].
  split; [exact Hw3|]. rewrite Hl3, Hl2, Hl1. reflexivity.
Qed.

Lemma dq_span_ok : forall A (p : A -> bool) (d : dq A), dq_wf d ->
  dq_wf (fst (dq_span p d)) /\ dq_wf (snd (dq_span p d)) /\
  dq_to_list (fst (dq_span p d)) = fst (span_list p (dq_to_list d)) /\
  dq_to_list (snd (dq_span p d)) = snd (span_list p (dq_to_list d)).
Proof.
  intros A p [lf f lr r] (Hf & Hr & _ & _). dqp_proj. subst lf lr.
  unfold dq_span, dq_span_break, dq_to_list. dqp_proj.
  rewrite dqp_span_app.
  pose proof (dqp_span_nil_fst _ p f) as Hnil.
  destruct (span_list p f) as [hd tl]. cbn [fst snd] in *. destruct tl as [|t tl].
  - specialize (Hnil eq_refl). subst hd.
    destruct (span_list p (rev r)) as [hd' tl']. cbn [fst snd].
    destruct (dqp_check A (length f) f (length hd') (rev hd') (f ++ hd')) as [Hw1 Hl1];
      [reflexivity|rewrite rev_length; reflexivity|rewrite rev_involutive; reflexivity|].
    destruct (dqp_check A (length tl') tl' 0 [] tl') as [Hw2 Hl2];
      [reflexivity|reflexivity|apply app_nil_r|].
    unfold dq_to_list in Hl1, Hl2. dqp_conj.
  - cbn [fst snd].
    destruct (dqp_check A (length hd) hd 0 [] hd) as [Hw1 Hl1];
      [reflexivity|reflexivity|apply app_nil_r|].
    destruct (dqp_check A (length (t :: tl)) (t :: tl) (length r) r ((t :: tl) ++ rev r)) as [Hw2 Hl2];
      [reflexivity|reflexivity|reflexivity|].
    unfold dq_to_list in Hl1, Hl2. dqp_conj.
Qed.

Lemma dq_break_ok : forall A (p : A -> bool) (d : dq A), dq_wf d ->
  dq_wf (fst (dq_break p d)) /\ dq_wf (snd (dq_break p d)) /\
  dq_to_list (fst (dq_break p d)) = fst (break_list p (dq_to_list d)) /\
  dq_to_list (snd (dq_break p d)) = snd (break_list p (dq_to_list d)).
Proof.
  intros A p d Hwf.
  change (dq_break p d) with (dq_span (fun x => negb (p x)) d). unfold break_list.
  apply dq_span_ok. exact Hwf.
Qed.

Lemma dq_zip2_ok : forall A B (d1 : dq A) (d2 : dq B),
  dq_wf (dq_zip2 d1 d2) /\ dq_to_list (dq_zip2 d1 d2) = combine (dq_to_list d1) (dq_to_list d2).
Proof.
  intros A B d1 d2. unfold dq_zip2. cbv zeta.
  apply dqp_check; [reflexivity|reflexivity|apply app_nil_r].
Qed.

(** * 3. Observers *)

Lemma dq_front_ok : forall A (d : dq A), dq_wf d -> dq_front d = hd_error (dq_to_list d).
Proof.
  intros A [lf f lr r] (Hf & Hr & Hb1 & Hb2). dqp_proj. unfold dq_front, dq_to_list. dqp_proj.
  destruct (lf =? 0) eqn:E0.
  - apply Nat.eqb_eq in E0. assert (Ef : f = []) by (apply length_zero_iff_nil; lia). subst f.
    destruct (lr =? 0) eqn:E1.
    + apply Nat.eqb_eq in E1. assert (Er : r = []) by (apply length_zero_iff_nil; lia). subst r. reflexivity.
    + destruct (dqp_length_le1 _ r) as [Hn|[y Hy]]; [simpl in Hf; lia|subst r; reflexivity|subst r; reflexivity].
  - apply Nat.eqb_neq in E0. destruct f as [|a f]; [simpl in Hf; lia|reflexivity].
Qed.

Lemma dq_back_ok : forall A (d : dq A), dq_wf d -> dq_back d = hd_error (rev (dq_to_list d)).
Proof.
  intros A [lf f lr r] (Hf & Hr & Hb1 & Hb2). dqp_proj. unfold dq_back, dq_to_list. dqp_proj.
  rewrite rev_app_distr, rev_involutive.
  destruct (lr =? 0) eqn:E0.
  - apply Nat.eqb_eq in E0. assert (Er : r = []) by (apply length_zero_iff_nil; lia). subst r.
    destruct (lf =? 0) eqn:E1.
    + apply Nat.eqb_eq in E1. assert (Ef : f = []) by (apply length_zero_iff_nil; lia). subst f. reflexivity.
    + destruct (dqp_length_le1 _ f) as [Hn|[y Hy]]; [simpl in Hr; lia|subst f; reflexivity|subst f; reflexivity].
  - apply Nat.eqb_neq in E0. destruct r as [|a r]; [simpl in Hr; lia|reflexivity].
Qed.

Lemma dq_ref_ok : forall A (d : dq A) n, dq_wf d -> dq_ref d n = nth_error (dq_to_list d) n.
Proof.
  intros A [lf f lr r] n (Hf & Hr & _ & _). dqp_proj. subst lf lr.
  unfold dq_ref, dq_to_list. dqp_proj. cbv zeta.
  destruct (length f + length r <=? n) eqn:E.
  - apply Nat.leb_le in E. symmetry. apply nth_error_None. rewrite app_length, rev_length. lia.
  - apply Nat.leb_gt in E. destruct (n <? length f) eqn:E2.
    + apply Nat.ltb_lt in E2. symmetry. apply nth_error_app1. exact E2.
    + apply Nat.ltb_ge in E2. rewrite nth_error_app2 by lia. rewrite dqp_nth_error_rev by lia.
      f_equal. lia.
Qed.

Lemma dq_is_empty_ok : forall A (d : dq A), dq_wf d -> (dq_is_empty d = true <-> dq_to_list d = []).
Proof.
  intros A [lf f lr r] (Hf & Hr & _ & _). dqp_proj. subst lf lr.
  unfold dq_is_empty, dq_to_list. dqp_proj.
  destruct f as [|a f]; destruct r as [|b r]; simpl; split; intros H;
    try reflexivity; try discriminate H.
  destruct (rev r); discriminate H.
Qed.

Lemma dq_fold_ok : forall A S (proc : A -> S -> S) (knil : S) (d : dq A),
  dq_fold proc knil d = fold_left (fun acc x => proc x acc) (dq_to_list d) knil.
Proof. intros A S proc knil d. unfold dq_fold, dq_to_list. rewrite fold_left_app. reflexivity. Qed.

Lemma dq_fold_right_ok : forall A S (proc : A -> S -> S) (knil : S) (d : dq A),
  dq_fold_right proc knil d = fold_right proc knil (dq_to_list d).
Proof. intros A S proc knil d. unfold dq_fold_right, dq_to_list. rewrite fold_right_app. reflexivity. Qed.

Lemma dq_any_ok : forall A (p : A -> bool) (d : dq A), dq_any p d = existsb p (dq_to_list d).
Proof.
  intros A p d. unfold dq_any, dq_to_list. rewrite existsb_app.
  destruct (rr d) as [|b r]; [simpl; rewrite orb_false_r; reflexivity|reflexivity].
Qed.

Lemma dq_every_ok : forall A (p : A -> bool) (d : dq A), dq_every p d = forallb p (dq_to_list d).
Proof.
  intros A p d. unfold dq_every, dq_to_list. rewrite forallb_app.
  destruct (rr d) as [|b r]; [simpl; rewrite andb_true_r; reflexivity|reflexivity].
Qed.

Lemma dq_find_ok : forall A (p : A -> bool) (d : dq A), dq_find p d = find p (dq_to_list d).
Proof. intros A p d. unfold dq_find, dq_search, dq_to_list. rewrite dqp_find_app. reflexivity. Qed.

Lemma dq_find_right_ok : forall A (p : A -> bool) (d : dq A), dq_find_right p d = find p (rev (dq_to_list d)).
Proof.
  intros A p d. unfold dq_find_right, dq_search, dq_to_list.
  rewrite rev_app_distr, rev_involutive, dqp_find_app. reflexivity.
Qed.

Lemma dq_count_ok : forall A (p : A -> bool) (d : dq A), dq_count p d = count_list p (dq_to_list d).
Proof.
  intros A p d. unfold dq_count, count_list, dq_to_list.
  rewrite filter_app, app_length, dqp_filter_rev, rev_length. reflexivity.
Qed.

Lemma dq_for_each_order_ok : forall A (d : dq A), dq_for_each_order d = dq_to_list d.
Proof. intros A d. reflexivity. Qed.

Lemma dq_for_each_right_order_ok : forall A (d : dq A), dq_for_each_right_order d = rev (dq_to_list d).
Proof.
  intros A d. unfold dq_for_each_right_order, dq_to_list. rewrite rev_app_distr, rev_involutive. reflexivity.
Qed.

Lemma dq_drain_ok_gen : forall A n (d : dq A), dq_wf d -> dq_length d = n -> dq_drain n d = Some (dq_to_list d).
Proof.
  intros A n. induction n as [|n IH]; intros d Hwf Hn.
  - pose proof (dq_length_ok _ d Hwf) as Hlen.
    assert (Hl : dq_to_list d = []) by (apply length_zero_iff_nil; lia).
    cbn [dq_drain]. replace (dq_is_empty d) with true by (symmetry; apply dq_is_empty_ok; assumption).
    rewrite Hl. reflexivity.
  - pose proof (dq_length_ok _ d Hwf) as Hlen.
    assert (He : dq_is_empty d = false).
    { destruct (dq_is_empty d) eqn:E; [|reflexivity].
      apply dq_is_empty_ok in E; [|assumption]. rewrite E in Hlen. simpl in Hlen. lia. }
    cbn [dq_drain]. rewrite He. rewrite dq_front_ok by assumption.
    destruct (dq_remove_front_ok _ d Hwf) as [Hsome Hnone].
    destruct (dq_remove_front d) as [d'|] eqn:Erf.
    + destruct (Hsome d' eq_refl) as [Hw' Hl'].
      destruct (dq_to_list d) as [|v l] eqn:El; [simpl in Hlen; lia|]. cbn [hd_error].
      rewrite IH; [rewrite Hl'; reflexivity|assumption|].
      rewrite dq_length_ok by assumption. rewrite Hl'. simpl in *. lia.
    + assert (Hl : dq_to_list d = []) by (apply Hnone; reflexivity).
      rewrite Hl in Hlen. simpl in Hlen. lia.
Qed.

Lemma dq_drain_ok : forall A (d : dq A), dq_wf d -> dq_drain (dq_length d) d = Some (dq_to_list d).
Proof. intros A d Hwf. apply dq_drain_ok_gen; [assumption|reflexivity]. Qed.

(** ** ideque= with two deques *)

Lemma dqp_list_eq_length : forall A (eqb : A -> A -> bool) a b, list_eq eqb a b = true -> length a = length b.
Proof.
  intros A eqb a. induction a as [|x a IH]; intros [|y b] H; simpl in *; try discriminate H; [reflexivity|].
  apply andb_true_iff in H as [_ H]. f_equal. apply IH. exact H.
Qed.

Lemma dqp_list_eq_length_ne : forall A (eqb : A -> A -> bool) a b, length a <> length b -> list_eq eqb a b = false.
Proof.
  intros A eqb a b Hne. destruct (list_eq eqb a b) eqn:E; [|reflexivity].
  apply dqp_list_eq_length in E. contradiction.
Qed.

Lemma dqp_list_eq_app : forall A (eqb : A -> A -> bool) c c' a b, length c = length c' ->
  list_eq eqb (c ++ a) (c' ++ b) = list_eq eqb c c' && list_eq eqb a b.
Proof.
  intros A eqb c. induction c as [|x c IH]; intros [|y c'] a b Hlen; simpl in *; try discriminate Hlen; [reflexivity|].
  rewrite IH by lia. apply andb_assoc.
Qed.

Lemma dqp_list_eq_app_r : forall A (eqb : A -> A -> bool) a b e e', length e = length e' ->
  list_eq eqb (a ++ e) (b ++ e') = list_eq eqb a b && list_eq eqb e e'.
Proof.
  intros A eqb a b e e' Hlen. destruct (Nat.eq_dec (length a) (length b)) as [Heq|Hne].
  - apply dqp_list_eq_app. exact Heq.
  - rewrite (dqp_list_eq_length_ne _ eqb a b Hne). simpl.
    apply dqp_list_eq_length_ne. rewrite !app_length. lia.
Qed.

Lemma dqp_list_eq_rev : forall A (eqb : A -> A -> bool) a b, list_eq eqb (rev a) (rev b) = list_eq eqb a b.
Proof.
  intros A eqb a. induction a as [|x a IH]; intros [|y b]; simpl.
  - reflexivity.
  - destruct (rev b); reflexivity.
  - destruct (rev a); reflexivity.
  - rewrite dqp_list_eq_app_r by reflexivity. rewrite IH. simpl. rewrite andb_true_r. apply andb_comm.
Qed.

Lemma dqp_list_eq_sym : forall A (eqb : A -> A -> bool), (forall x y, eqb x y = eqb y x) ->
  forall a b, list_eq eqb a b = list_eq eqb b a.
Proof.
  intros A eqb Hsym a. induction a as [|x a IH]; intros [|y b]; simpl; try reflexivity.
  rewrite IH, (Hsym x y). reflexivity.
Qed.

Lemma dqp_prefix_spec : forall A (eqb : A -> A -> bool) a b x ta tb,
  list_prefix_eq eqb a b = (x, ta, tb) ->
  exists c c', a = c ++ ta /\ b = c' ++ tb /\ length c = length c' /\ list_eq eqb c c' = true /\
    (if x then ta = [] \/ tb = []
     else exists u ta' v tb', ta = u :: ta' /\ tb = v :: tb' /\ eqb u v = false).
Proof.
  intros A eqb a. induction a as [|u a IH]; intros b x ta tb H; simpl in H.
  - injection H as Hx Hta Htb. subst x ta tb. exists [], []. simpl. auto 6.
  - destruct b as [|v b].
    + injection H as Hx Hta Htb. subst x ta tb. exists [], []. simpl. auto 6.
    + destruct (eqb u v) eqn:E.
      * destruct (IH b x ta tb H) as (c & c' & Ha & Hb & Hlen & Heq & Hx).
        exists (u :: c), (v :: c'). simpl. rewrite E, Heq, Hlen. subst a b. auto 6.
      * injection H as Hx Hta Htb. subst x ta tb. exists [], []. simpl.
        repeat (split; [reflexivity|]). exists u, a, v, b. auto.
Qed.

(** [ideque=] calls [elt=] with the element of the SECOND deque first when the front chain of the
    first deque is the shorter one (134.scm:197 (list= elt= t2 (reverse r1))): it agrees with
    [list=] on the two element lists when [elt=] is symmetric ... *)
Theorem dq_equal_refines_list_eq_partial : forall A (eqb : A -> A -> bool) (d1 d2 : dq A),
  (forall x y, eqb x y = eqb y x) -> dq_wf d1 -> dq_wf d2 ->
  dq_equal eqb d1 d2 = list_eq eqb (dq_to_list d1) (dq_to_list d2).
Proof.
  intros A eqb [lf1 f1 lr1 r1] [lf2 f2 lr2 r2] Hsym (Hf1 & Hr1 & _ & _) (Hf2 & Hr2 & _ & _).
  dqp_proj. subst lf1 lr1 lf2 lr2. unfold dq_equal, dq_to_list. dqp_proj. cbv zeta.
  destruct (length f1 + length r1 =? length f2 + length r2) eqn:El.
  2:{ apply Nat.eqb_neq in El. simpl. symmetry. apply dqp_list_eq_length_ne.
      rewrite !app_length, !rev_length. exact El. }
  apply Nat.eqb_eq in El. rewrite andb_true_l.
  destruct (list_prefix_eq eqb f1 f2) as [[x t1] t2] eqn:Ep1.
  destruct (list_prefix_eq eqb r1 r2) as [[y s1] s2] eqn:Ep2.
  destruct (dqp_prefix_spec _ eqb f1 f2 x t1 t2 Ep1) as (c & c' & Hc1 & Hc2 & Hclen & Hceq & Hx).
  destruct (dqp_prefix_spec _ eqb r1 r2 y s1 s2 Ep2) as (e & e' & He1 & He2 & Helen & Heeq & Hy).
  clear Ep1 Ep2. subst f1 f2 r1 r2.
  rewrite !app_length in El.
  rewrite !rev_app_distr, <- !app_assoc.
  rewrite dqp_list_eq_app by exact Hclen. rewrite Hceq, andb_true_l.
  rewrite !app_assoc. rewrite dqp_list_eq_app_r by (rewrite !rev_length; exact Helen).
  rewrite dqp_list_eq_rev, Heeq, andb_true_r.
  destruct x.
  2:{ destruct Hx as (u & ta' & v & tb' & Ht1 & Ht2 & Huv). subst t1 t2. simpl. rewrite Huv. reflexivity. }
  rewrite andb_true_l. destruct y.
  2:{ destruct Hy as (u & sa' & v & sb' & Hs1 & Hs2 & Huv). subst s1 s2. simpl.
      rewrite !app_assoc. rewrite dqp_list_eq_app_r by reflexivity.
      simpl. rewrite Huv. simpl. rewrite andb_false_r. reflexivity. }
  rewrite andb_true_l.
  destruct t1 as [|u t1].
  - simpl. destruct Hy as [Hs|Hs]; subst.
    + simpl in *. assert (Ht2 : t2 = []) by (apply length_zero_iff_nil; lia).
      assert (Hs2 : s2 = []) by (apply length_zero_iff_nil; lia). subst. reflexivity.
    + simpl. rewrite app_nil_r. apply dqp_list_eq_sym. exact Hsym.
  - destruct Hx as [Ht|Ht]; [discriminate Ht|]. subst t2. simpl app at 2.
    destruct Hy as [Hs|Hs]; subst.
    + simpl. rewrite app_nil_r. reflexivity.
    + simpl in El. lia.
Qed.

(** ... and it does not for an asymmetric one (here [<=?]: list= answers #t, ideque= answers #f) *)
Theorem dq_equal_swaps_elt_eq_arguments :
  exists (d1 d2 : dq nat), dq_wf d1 /\ dq_wf d2 /\
    dq_equal Nat.leb d1 d2 = false /\ list_eq Nat.leb (dq_to_list d1) (dq_to_list d2) = true.
Proof.
  exists (Dq 1 [1] 2 [3; 2]), (Dq 2 [1; 5] 1 [3]).
  unfold dq_wf. dqp_proj. simpl. repeat (split; [first [reflexivity|lia]|]). reflexivity.
Qed.

(** * Summary theorems *)

(** every constructor of 134.scm keeps the invariant and refines the list operation it denotes
    (conjunction of the lemmas above, in the same order) *)
Theorem dq_constructors_keep_invariant_and_refine_lists :
  (forall A, dq_wf (@dq_empty A) /\ dq_to_list (@dq_empty A) = []) /\
  (forall A (l : list A), dq_wf (dq_of_list l) /\ dq_to_list (dq_of_list l) = l) /\
  (forall A size (init : nat -> A),
     dq_wf (dq_tabulate size init) /\ dq_to_list (dq_tabulate size init) = map init (seq 0 size)) /\
  (forall A (d : dq A) x, dq_wf d ->
     dq_wf (dq_add_front d x) /\ dq_to_list (dq_add_front d x) = x :: dq_to_list d) /\
  (forall A (d : dq A) x, dq_wf d ->
     dq_wf (dq_add_back d x) /\ dq_to_list (dq_add_back d x) = dq_to_list d ++ [x]) /\
  (forall A (d : dq A), dq_wf d ->
     (forall d', dq_remove_front d = Some d' -> dq_wf d' /\ dq_to_list d' = tl (dq_to_list d)) /\
     (dq_remove_front d = None <-> dq_to_list d = [])) /\
  (forall A (d : dq A), dq_wf d ->
     (forall d', dq_remove_back d = Some d' -> dq_wf d' /\ dq_to_list d' = removelast (dq_to_list d)) /\
     (dq_remove_back d = None <-> dq_to_list d = [])) /\
  (forall A (d : dq A), dq_wf d ->
     dq_wf (dq_reverse d) /\ dq_to_list (dq_reverse d) = rev (dq_to_list d)) /\
  (forall A (d : dq A) n, dq_wf d -> n <= dq_length d ->
     dq_wf (dq_take_ d n) /\ dq_to_list (dq_take_ d n) = firstn n (dq_to_list d)) /\
  (forall A (d : dq A) n, dq_wf d -> n <= dq_length d ->
     dq_wf (dq_drop_ d n) /\ dq_to_list (dq_drop_ d n) = skipn n (dq_to_list d)) /\
  (forall A (d : dq A) n, dq_wf d ->
     match dq_take d n with
     | Some d' => n <= length (dq_to_list d) /\ dq_wf d' /\ dq_to_list d' = firstn n (dq_to_list d)
     | None => length (dq_to_list d) < n
     end) /\
  (forall A (d : dq A) n, dq_wf d ->
     match dq_drop d n with
     | Some d' => n <= length (dq_to_list d) /\ dq_wf d' /\ dq_to_list d' = skipn n (dq_to_list d)
     | None => length (dq_to_list d) < n
     end) /\
  (forall A (d : dq A) n, dq_wf d ->
     match dq_take_right d n with
     | Some d' => n <= length (dq_to_list d) /\ dq_wf d' /\
                  dq_to_list d' = skipn (length (dq_to_list d) - n) (dq_to_list d)
     | None => length (dq_to_list d) < n
     end) /\
  (forall A (d : dq A) n, dq_wf d ->
     match dq_drop_right d n with
     | Some d' => n <= length (dq_to_list d) /\ dq_wf d' /\
                  dq_to_list d' = firstn (length (dq_to_list d) - n) (dq_to_list d)
     | None => length (dq_to_list d) < n
     end) /\
  (forall A (d : dq A) n, dq_wf d ->
     match dq_split_at d n with
     | Some (d1, d2) => n <= length (dq_to_list d) /\ dq_wf d1 /\ dq_wf d2 /\
                        dq_to_list d1 = firstn n (dq_to_list d) /\ dq_to_list d2 = skipn n (dq_to_list d)
     | None => length (dq_to_list d) < n
     end) /\
  (forall A (ds : list (dq A)),
     dq_wf (dq_append_all ds) /\ dq_to_list (dq_append_all ds) = concat (map (@dq_to_list A) ds)) /\
  (forall A (d1 d2 : dq A),
     dq_wf (dq_append d1 d2) /\ dq_to_list (dq_append d1 d2) = dq_to_list d1 ++ dq_to_list d2) /\
  (forall A B (g : A -> B) (d : dq A), dq_wf d ->
     dq_wf (dq_map g d) /\ dq_to_list (dq_map g d) = map g (dq_to_list d)) /\
  (forall A B (g : A -> option B) (d : dq A),
     dq_wf (dq_filter_map g d) /\ dq_to_list (dq_filter_map g d) = filter_map_list g (dq_to_list d)) /\
  (forall A B (g : A -> list B) (d : dq A),
     dq_wf (dq_append_map g d) /\ dq_to_list (dq_append_map g d) = flat_map g (dq_to_list d)) /\
  (forall A (p : A -> bool) (d : dq A),
     dq_wf (dq_filter p d) /\ dq_to_list (dq_filter p d) = filter p (dq_to_list d)) /\
  (forall A (p : A -> bool) (d : dq A),
     dq_wf (dq_remove p d) /\ dq_to_list (dq_remove p d) = remove_list p (dq_to_list d)) /\
  (forall A (p : A -> bool) (d : dq A),
     dq_wf (fst (dq_partition p d)) /\ dq_wf (snd (dq_partition p d)) /\
     dq_to_list (fst (dq_partition p d)) = fst (partition p (dq_to_list d)) /\
     dq_to_list (snd (dq_partition p d)) = snd (partition p (dq_to_list d)) /\
     dq_to_list (fst (dq_partition p d)) = filter p (dq_to_list d) /\
     dq_to_list (snd (dq_partition p d)) = filter (fun x => negb (p x)) (dq_to_list d)) /\
  (forall A (p : A -> bool) (d : dq A), dq_wf d ->
     dq_wf (dq_take_while p d) /\ dq_to_list (dq_take_while p d) = fst (span_list p (dq_to_list d))) /\
  (forall A (p : A -> bool) (d : dq A), dq_wf d ->
     dq_wf (dq_drop_while p d) /\ dq_to_list (dq_drop_while p d) = snd (span_list p (dq_to_list d))) /\
  (forall A (p : A -> bool) (d : dq A), dq_wf d ->
     dq_wf (dq_take_while_right p d) /\
     dq_to_list (dq_take_while_right p d) = rev (fst (span_list p (rev (dq_to_list d))))) /\
  (forall A (p : A -> bool) (d : dq A), dq_wf d ->
     dq_wf (dq_drop_while_right p d) /\
     dq_to_list (dq_drop_while_right p d) = rev (snd (span_list p (rev (dq_to_list d))))) /\
  (forall A (p : A -> bool) (d : dq A), dq_wf d ->
     dq_wf (fst (dq_span p d)) /\ dq_wf (snd (dq_span p d)) /\
     dq_to_list (fst (dq_span p d)) = fst (span_list p (dq_to_list d)) /\
     dq_to_list (snd (dq_span p d)) = snd (span_list p (dq_to_list d))) /\
  (forall A (p : A -> bool) (d : dq A), dq_wf d ->
     dq_wf (fst (dq_break p d)) /\ dq_wf (snd (dq_break p d)) /\
     dq_to_list (fst (dq_break p d)) = fst (break_list p (dq_to_list d)) /\
     dq_to_list (snd (dq_break p d)) = snd (break_list p (dq_to_list d))) /\
  (forall A B (d1 : dq A) (d2 : dq B),
     dq_wf (dq_zip2 d1 d2) /\ dq_to_list (dq_zip2 d1 d2) = combine (dq_to_list d1) (dq_to_list d2)).
Proof.
  repeat apply conj.
  - exact dq_empty_ok.
  - exact dq_of_list_ok.
  - exact dq_tabulate_ok.
  - exact dq_add_front_ok.
  - exact dq_add_back_ok.
  - exact dq_remove_front_ok.
  - exact dq_remove_back_ok.
  - exact dq_reverse_ok.
  - exact dq_take__ok.
  - exact dq_drop__ok.
  - exact dq_take_ok.
  - exact dq_drop_ok.
  - exact dq_take_right_ok.
  - exact dq_drop_right_ok.
  - exact dq_split_at_ok.
  - exact dq_append_all_ok.
  - exact dq_append_ok.
  - exact dq_map_ok.
  - exact dq_filter_map_ok.
  - exact dq_append_map_ok.
  - exact dq_filter_ok.
  - exact dq_remove_ok.
  - exact dq_partition_ok.
  - exact dq_take_while_ok.
  - exact dq_drop_while_ok.
  - exact dq_take_while_right_ok.
  - exact dq_drop_while_right_ok.
  - exact dq_span_ok.
  - exact dq_break_ok.
  - exact dq_zip2_ok.
Qed.

(** every observer of 134.scm answers what the list operation answers on the denoted list *)
Theorem dq_observers_refine_lists :
  (forall A (d : dq A), dq_wf d -> dq_front d = hd_error (dq_to_list d)) /\
  (forall A (d : dq A), dq_wf d -> dq_back d = hd_error (rev (dq_to_list d))) /\
  (forall A (d : dq A) n, dq_wf d -> dq_ref d n = nth_error (dq_to_list d) n) /\
  (forall A (d : dq A), dq_wf d -> dq_length d = length (dq_to_list d)) /\
  (forall A (d : dq A), dq_wf d -> (dq_is_empty d = true <-> dq_to_list d = [])) /\
  (forall A S (proc : A -> S -> S) (knil : S) (d : dq A),
     dq_fold proc knil d = fold_left (fun acc x => proc x acc) (dq_to_list d) knil) /\
  (forall A S (proc : A -> S -> S) (knil : S) (d : dq A),
     dq_fold_right proc knil d = fold_right proc knil (dq_to_list d)) /\
  (forall A (p : A -> bool) (d : dq A), dq_any p d = existsb p (dq_to_list d)) /\
  (forall A (p : A -> bool) (d : dq A), dq_every p d = forallb p (dq_to_list d)) /\
  (forall A (p : A -> bool) (d : dq A), dq_find p d = find p (dq_to_list d)) /\
  (forall A (p : A -> bool) (d : dq A), dq_find_right p d = find p (rev (dq_to_list d))) /\
  (forall A (p : A -> bool) (d : dq A), dq_count p d = count_list p (dq_to_list d)) /\
  (forall A (d : dq A), dq_for_each_order d = dq_to_list d) /\
  (forall A (d : dq A), dq_for_each_right_order d = rev (dq_to_list d)) /\
  (forall A (d : dq A), dq_wf d -> dq_drain (dq_length d) d = Some (dq_to_list d)).
Proof.
  repeat apply conj.
  - exact dq_front_ok.
  - exact dq_back_ok.
  - exact dq_ref_ok.
  - exact dq_length_ok.
  - exact dq_is_empty_ok.
  - exact dq_fold_ok.
  - exact dq_fold_right_ok.
  - exact dq_any_ok.
  - exact dq_every_ok.
  - exact dq_find_ok.
  - exact dq_find_right_ok.
  - exact dq_count_ok.
  - exact dq_for_each_order_ok.
  - exact dq_for_each_right_order_ok.
  - exact dq_drain_ok.
Qed.

(** * 4. Why %ideque-filter-remove must end in [check] *)

Theorem dq_filter_unchecked_refuted :
  exists (d : dq nat) (p : nat -> bool),
    dq_wf d /\ dq_front (dq_filter_unchecked p d) <> hd_error (dq_to_list (dq_filter_unchecked p d)).
Proof.
  exists (dq_of_list [1; 2; 3; 4; 5; 6]), (fun x => 4 <=? x). split.
  - vm_compute. repeat split; lia.
  - vm_compute. intros H. discriminate H.
Qed.

(** * 5. The hypotheses of the summary theorems are satisfiable on non-trivial deques *)

Example dq_wf_ex : dq_wf (dq_of_list [1; 2; 3; 4; 5; 6; 7]).
Proof. vm_compute. repeat split; lia. Qed.

(** [dq_of_list [1..7]] has both chains non-empty: front (1 2 3), rear (7 6 5 4) *)
Example dq_wf_ex_shape : dq_of_list [1; 2; 3; 4; 5; 6; 7] = Dq 3 [1; 2; 3] 4 [7; 6; 5; 4].
Proof. vm_compute. reflexivity. Qed.

(** hypotheses of the constructor summary: a well formed deque, an index in range, a removal that
    answers [Some], and the answers computed on that deque *)
Example dq_constructors_ex :
  let d := dq_of_list [1; 2; 3; 4; 5; 6; 7] in
  dq_wf d /\ 5 <= dq_length d /\
  (exists d', dq_remove_front d = Some d' /\ dq_to_list d' = [2; 3; 4; 5; 6; 7]) /\
  (exists d', dq_remove_back d = Some d' /\ dq_to_list d' = [1; 2; 3; 4; 5; 6]) /\
  (exists d1 d2, dq_split_at d 5 = Some (d1, d2) /\ dq_to_list d1 = [1; 2; 3; 4; 5] /\ dq_to_list d2 = [6; 7]) /\
  dq_take d 8 = None /\
  dq_to_list (dq_take_while (fun x => x <=? 4) d) = [1; 2; 3; 4] /\
  dq_to_list (dq_drop_while_right (fun x => 4 <=? x) d) = [1; 2; 3] /\
  dq_to_list (dq_filter Nat.even d) = [2; 4; 6].
Proof.
  cbv zeta. split; [exact dq_wf_ex|]. split; [vm_compute; lia|].
  split; [eexists; split; vm_compute; reflexivity|].
  split; [eexists; split; vm_compute; reflexivity|].
  split; [eexists; eexists; split; [vm_compute; reflexivity|split; vm_compute; reflexivity]|].
  repeat split; vm_compute; reflexivity.
Qed.

(** hypotheses of the observer summary, and the answers on that deque *)
Example dq_observers_ex :
  let d := dq_of_list [1; 2; 3; 4; 5; 6; 7] in
  dq_wf d /\ dq_front d = Some 1 /\ dq_back d = Some 7 /\ dq_ref d 4 = Some 5 /\ dq_ref d 7 = None /\
  dq_drain (dq_length d) d = Some [1; 2; 3; 4; 5; 6; 7] /\
  dq_find_right Nat.even d = Some 6.
Proof. cbv zeta. split; [exact dq_wf_ex|]. repeat split; vm_compute; reflexivity. Qed.

(** hypotheses of [dq_equal_refines_list_eq_partial]: a symmetric [elt=] and two well formed deques
    of different shapes denoting the same list *)
Example dq_equal_ex :
  (forall x y, Nat.eqb x y = Nat.eqb y x) /\
  dq_wf (Dq 1 [1] 2 [3; 2]) /\ dq_wf (Dq 2 [1; 2] 1 [3]) /\
  dq_equal Nat.eqb (Dq 1 [1] 2 [3; 2]) (Dq 2 [1; 2] 1 [3]) = true.
Proof.
  split; [exact Nat.eqb_sym|]. unfold dq_wf. dqp_proj. simpl.
  repeat (split; [first [reflexivity|lia]|]). reflexivity.
Qed.

Print Assumptions dq_check_balances.
Print Assumptions dq_constructors_keep_invariant_and_refine_lists.
Print Assumptions dq_observers_refine_lists.
Print Assumptions dq_equal_refines_list_eq_partial.
Print Assumptions dq_equal_swaps_elt_eq_arguments.
Print Assumptions dq_filter_unchecked_refuted.
