(** C18 MODEL of iset-intersection2! (lib/chibi/iset/constructors.scm:294-326) and iset-difference2!
    (342-379) of (chibi iset), on top of the bit-trie model of ISet.v.  Executable, no proofs (they are
    in ISetInterProofs.v).  Both Scheme functions walk [iset->node-list a] against [iset->node-list b]
    and mutate the nodes of [a] that they find in the list, i.e. through aliases of the tree.

    INTERSECTION.  The loop [lp] sets start/end/bits of the node [a] at the head of nodes-a, conses it on
    [res], pushes the fresh remainders a-right / b-right (from iset-node-split) back on the two lists,
    and finally adjoins every node of [res] to a fresh (iset) with iset-adjoin-node!.  The tree of [a]
    is abandoned, child pointers are never changed.  iset-adjoin-node! reads start/end/bits of its
    second argument AND calls (iset-empty? b), which walks the children of b: for a node of the
    original tree these children are the nodes of a's tree IN THEIR FINAL STATE (the loop has finished
    when the for-each runs, so children that come later in the list have been mutated too).  A node
    whose new bits are 0 is skipped by iset-adjoin-node! only when everything below it is empty as
    well; otherwise it is adjoined as an empty range and can extend a neighbour by a merge.  To get the
    real tree shape the model therefore tags every element of nodes-a with its in-order index in a
    ([Some i]: i-th original node; [None]: a fresh a-right remainder, which has no children), computes
    the final state of a's tree from the tags ([inter_final_tree]) and gives every tagged node of res
    the children it has there ([inter_finish]); start/end/bits of the res nodes are those computed by
    the loop.  The proofs never look at the children (iset-adjoin-node! is proved for any children).

    DIFFERENCE.  The loop mutates the node [a] at the head of nodes-a in place, hangs the fresh [left]
    remainder below it with iset-insert-left! (it inherits a's current left subtree), and hangs the fresh
    [right] remainder with iset-insert-right! (it inherits a's current right subtree R, as ITS right
    child when R's root starts above right's end - always the case in a wf tree - else as its left
    child) and pushes [right] back on nodes-a, where it is mutated again later although it already sits
    in the tree.  nodes-a is the in-order list of a's tree, and [right] is pushed exactly where the
    in-order walk of the MUTATED tree meets it (after a, before the nodes of R), so the loop is an
    in-order traversal of the tree that threads nodes-b: no node is reachable by two paths, and a
    functional formulation is faithful:
      [diff_tree t nb]  = left subtree first, then the node itself ([diff_node]), whose loop continues
                          with the [right] node as it hangs in the tree (the right child of a after
                          insert_right; the continuation's result is put back as a's right child);
                          when the node and its chain of remainders are done ("next a-node": the test
                          start-b > end-a, or no right remainder), the original right subtree R - by
                          then the right child of the last remainder - is traversed with the
                          remaining nodes-b and put back there ([recR], = [diff_tree r]).
      When nodes-b runs empty everything else stays as it is.
    insert_left / insert_right / set_start / set_end / set_bits of ISet.v are applied to the node with
    its current children in the order of the Scheme code.  (Not faithful only for a non-wf tree in
    which iset-insert-right! takes its else branch and hangs a non-empty R to the LEFT of [right]: the
    list order would then not be the in-order of the mutated tree.)

    FUEL.  The loops are not structural: a step drops a head, or replaces both heads by remainders -
    and then the a-remainder starts above the b-remainder's end, so the next step drops that b-head.
    Fuel 2 * (number of list elements) + 2 always suffices (ISetInterProofs.v: inter_loop_total,
    diff_tree_total; no wf needed).  [None] = fuel exhausted, never returned. *)
From Coq Require Import ZArith List Bool.
From ChibiV Require Import C18.ISet.
Import ListNotations.
Local Open Scope Z_scope.

(* ------------------------------------------------------------------ one step, common part *)
(** the let* of the else clause: (left, overlap, right) of a against b, (b-overlap, b-right) of b
    against overlap *)
Definition split_ab (a b : tree) : option tree * tree * option tree * tree * option tree :=
  let '(a_left, overlap, a_right) := node_split a (t_start b) (t_end b) in
  let '(_, b_overlap, b_right) := node_split b (t_start overlap) (t_end overlap) in
  (a_left, overlap, a_right, b_overlap, b_right).

(** (iset-start-set! a (iset-start overlap)) (iset-end-set! a (iset-end overlap)) *)
Definition set_range (a overlap : tree) : tree := set_end (set_start a (t_start overlap)) (t_end overlap).

(** (or (iset-bits overlap) (range->bits (iset-start a) (iset-end a))), a already has overlap's range *)
Definition overlap_bits (a overlap : tree) : Z :=
  match t_bits overlap with Some x => x | None => range_bits (t_start a) (t_end a) end.

(** constructors.scm:315-320: the new bits of a in iset-intersection2! *)
Definition inter_bits (a overlap b_overlap : tree) : tree :=
  match t_bits b_overlap with
  | Some b_bits => set_bits a (Some (Z.land (overlap_bits a overlap) b_bits))
  | None => set_bits a (t_bits overlap)
  end.

(** constructors.scm:365-370: the new bits of a in iset-difference2! *)
Definition diff_bits (a overlap b_overlap : tree) : tree :=
  match t_bits b_overlap with
  | None => set_bits a (Some 0)
  | Some bb => set_bits a (Some (Z.land (overlap_bits a overlap) (Z.lnot bb)))
  end.

Definition push {A} (o : option A) (l : list A) : list A := match o with Some x => x :: l | None => l end.

(* ------------------------------------------------------------------ iset-intersection2! *)
(** an element of nodes-a / res: the node and its in-order index in a's tree (None: fresh remainder) *)
Definition anode : Type := option nat * tree.

Fixpoint number_from (i : nat) (l : list tree) : list anode :=
  match l with [] => [] | x :: l' => (Some i, x) :: number_from (S i) l' end.

(** the named let lp of iset-intersection2!, clause by clause; the first clause returns res *)
Fixpoint inter_loop (fuel : nat) (nodes_a : list anode) (nodes_b : list tree) (res : list anode)
  : option (list anode) :=
  match fuel with
  | O => None
  | S fuel' =>
      match nodes_a, nodes_b with
      | [], _ => Some res
      | _, [] => Some res
      | (ia, a) :: na', b :: nb' =>
          if t_start b >? t_end a then inter_loop fuel' na' nodes_b res
          else if t_start a >? t_end b then inter_loop fuel' nodes_a nb' res
          else
            let '(_, overlap, a_right, b_overlap, b_right) := split_ab a b in
            let a1 := inter_bits (set_range a overlap) overlap b_overlap in
            inter_loop fuel'
              (match a_right with Some x => (None, x) :: na' | None => na' end)
              (push b_right nb')
              ((ia, a1) :: res)
      end
  end.

Definition inter_fuel (na : list anode) (nb : list tree) : nat := 2 * (length na + length nb) + 2.

(** number of nodes; the i-th node in visiting order; start/end/bits of the i-th node replaced *)
Fixpoint tsize (t : tree) : nat := match t with Nil => O | Node _ _ _ l r => S (tsize l + tsize r) end.
Fixpoint nth_node (i : nat) (t : tree) : tree :=
  match t with
  | Nil => Nil
  | Node _ _ _ l r =>
      let k := tsize l in
      if Nat.ltb i k then nth_node i l else if Nat.eqb i k then t else nth_node (i - k - 1) r
  end.
Fixpoint set_fields_at (i : nat) (n : tree) (t : tree) : tree :=
  match t with
  | Nil => Nil
  | Node s e b l r =>
      let k := tsize l in
      if Nat.ltb i k then Node s e b (set_fields_at i n l) r
      else if Nat.eqb i k then Node (t_start n) (t_end n) (t_bits n) l r
      else Node s e b l (set_fields_at (i - k - 1) n r)
  end.

(** a's tree when the loop has finished: the nodes on res that are nodes of the tree carry their new
    start/end/bits (every node of the tree is put on res at most once) *)
Definition inter_final_tree (a : tree) (res : list anode) : tree :=
  fold_left (fun t (x : anode) => match fst x with Some i => set_fields_at i (snd x) t | None => t end) res a.

(** the node of res as iset-adjoin-node! sees it: fields from the loop, children from the final tree *)
Definition inter_finish (final : tree) (x : anode) : tree :=
  let n := snd x in
  match fst x with
  | Some i => let y := nth_node i final in Node (t_start n) (t_end n) (t_bits n) (t_left y) (t_right y)
  | None => Node (t_start n) (t_end n) (t_bits n) Nil Nil
  end.

(** the result list of the loop, ready for the for-each *)
Definition inter_res (a b : tree) : option (list tree) :=
  let na := number_from 0 (nodes a) in
  let nb := nodes b in
  match inter_loop (inter_fuel na nb) na nb [] with
  | Some res => Some (map (inter_finish (inter_final_tree a res)) res)
  | None => None
  end.

(** iset-intersection2!: (let ((is (iset))) (for-each (lambda (x) (iset-adjoin-node! is x)) res) is) *)
Definition intersection2 (a b : tree) : option tree :=
  match inter_res a b with
  | Some res => Some (fold_left adjoin_node res make_iset0)
  | None => None
  end.

(* ------------------------------------------------------------------ iset-difference2! *)
(** the loop while the head of nodes-a is the node [a] (a node of the tree with its current children,
    the right one not yet traversed) or one of its right remainders.  [recR nb] traverses the
    original right subtree with the nodes-b that are left; its result is the right child of the last
    node of the chain. *)
Fixpoint diff_node (recR : list tree -> option (tree * list tree)) (fuel : nat) (a : tree) (nodes_b : list tree)
  : option (tree * list tree) :=
  match fuel with
  | O => None
  | S fuel' =>
      match nodes_b with
      | [] => Some (a, [])
      | b :: nb' =>
          if t_start b >? t_end a then
            (* (lp (cdr nodes-a) nodes-b): the next a-nodes are those of the right subtree *)
            match recR nodes_b with
            | Some (r', nb2) => Some (set_right a r', nb2)
            | None => None
            end
          else if t_start a >? t_end b then diff_node recR fuel' a nb'
          else
            let '(a_left, overlap, a_right, b_overlap, b_right) := split_ab a b in
            let a1 := match a_left with Some x => insert_left a x | None => a end in
            let a2 := diff_bits (set_range a1 overlap) overlap b_overlap in
            let nb2 := push b_right nb' in
            match a_right with
            | Some x =>
                let a3 := insert_right a2 x in
                (* (cons right (cdr nodes-a)): right is the right child of a now *)
                match diff_node recR fuel' (t_right a3) nb2 with
                | Some (x', nb3) => Some (set_right a3 x', nb3)
                | None => None
                end
            | None =>
                match recR nb2 with
                | Some (r', nb3) => Some (set_right a2 r', nb3)
                | None => None
                end
            end
      end
  end.

Definition diff_fuel (nb : list tree) : nat := 2 * length nb + 2.

(** the loop over the nodes of the subtree t (in order), threading nodes-b; returns the mutated subtree
    and the nodes-b that are left *)
Fixpoint diff_tree (t : tree) (nodes_b : list tree) {struct t} : option (tree * list tree) :=
  match t with
  | Nil => Some (Nil, nodes_b)
  | Node s e bits l r =>
      match nodes_b with
      | [] => Some (t, [])
      | _ :: _ =>
          match diff_tree l nodes_b with
          | Some (l', nb1) => diff_node (diff_tree r) (diff_fuel nb1) (Node s e bits l' r) nb1
          | None => None
          end
      end
  end.

(** iset-difference2!: returns a (mutated) *)
Definition difference2 (a b : tree) : option tree :=
  match diff_tree a (nodes b) with
  | Some (t, _) => Some t
  | None => None
  end.

(* ------------------------------------------------------------------ the n-ary API with two sets *)
(** constructors.scm:339-340 iset-intersection, 391-392 iset-difference: (iset-copy a) first, the
    identity here *)
Definition iset_intersection (a b : tree) : option tree := intersection2 a b.
Definition iset_difference (a b : tree) : option tree := difference2 a b.
