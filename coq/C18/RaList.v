(** C18 MODEL of SRFI 101 purely functional random-access lists: lib/srfi/101.scm (Okasaki's
    skew-binary random-access lists).  Executable, no proofs.  One Gallina function per Scheme
    function, same case split and order of tests.

    A random-access list is a chain of kons records (size tree rest) ending in '():  here a
    [list (nat * tree A)].  A tree is either a bare element ([Leaf x]: the Scheme code stores the
    element itself, not a record) or a node record (val left right).  Sizes are the cached numbers the
    code computes with ([half], [sub1], ...), not recomputed from the trees.

    Operations that raise an error in Scheme (accessor of a record applied to a non-record, car of
    '()) return [None].  A tree-map/n that meets a leaf in its first tree and a node in another one
    applies the procedure to the node record itself (garbage, or an error inside the procedure):
    modelled as [None] too.  Elements that are themselves node records, improper lists (pairs whose
    cdr is not a list) and the quote syntax are outside the model. *)
From Coq Require Import List Arith Bool.
Import ListNotations.

Set Implicit Arguments.

Inductive tree (A : Type) : Type :=
| Leaf (x : A)
| Node (x : A) (l r : tree A).
Arguments Leaf {A} _.
Arguments Node {A} _ _ _.

Definition ralist (A : Type) : Type := list (nat * tree A).

(** 101.scm:113-114 half = shift right by one *)
Definition ra_half (n : nat) : nat := n / 2.

(** 101.scm:51-54 tree-val *)
Definition ra_tree_val {A} (t : tree A) : A := match t with Leaf x => x | Node x _ _ => x end.

(** 101.scm:57-63 tree-map (unary); tree-for-each visits in the same (pre)order *)
Fixpoint ra_tree_map {A B} (f : A -> B) (t : tree A) : tree B :=
  match t with
  | Leaf x => Leaf (f x)
  | Node x l r => Node (f x) (ra_tree_map f l) (ra_tree_map f r)
  end.

(** 101.scm:75-83 tree-map/n with two / three trees: the shape is read off the FIRST tree only *)
Fixpoint ra_tree_map2 {A B C} (f : A -> B -> C) (t1 : tree A) (t2 : tree B) : option (tree C) :=
  match t1 with
  | Node x l r =>
    match t2 with
    | Node y l2 r2 =>
      match ra_tree_map2 f l l2, ra_tree_map2 f r r2 with
      | Some l', Some r' => Some (Node (f x y) l' r')
      | _, _ => None
      end
    | Leaf _ => None                      (* node-val of a non-node *)
    end
  | Leaf x =>
    match t2 with
    | Leaf y => Some (Leaf (f x y))
    | Node _ _ _ => None                  (* f applied to a node record *)
    end
  end.
Fixpoint ra_tree_map3 {A B C D} (f : A -> B -> C -> D) (t1 : tree A) (t2 : tree B) (t3 : tree C) : option (tree D) :=
  match t1 with
  | Node x l r =>
    match t2, t3 with
    | Node y l2 r2, Node z l3 r3 =>
      match ra_tree_map3 f l l2 l3, ra_tree_map3 f r r2 r3 with
      | Some l', Some r' => Some (Node (f x y z) l' r')
      | _, _ => None
      end
    | _, _ => None
    end
  | Leaf x =>
    match t2, t3 with
    | Leaf y, Leaf z => Some (Leaf (f x y z))
    | _, _ => None
    end
  end.

(** preorder listing of a tree: the order in which car/cdr, tree-for-each and tree-map/n visit it *)
Fixpoint ra_tree_list {A} (t : tree A) : list A :=
  match t with
  | Leaf x => [x]
  | Node x l r => x :: ra_tree_list l ++ ra_tree_list r
  end.

(** 101.scm:117-123 tr:make-tree i x, i = 2^j-1 (on any other i the Scheme loop does not end: [None] when
    the fuel runs out) *)
Fixpoint ra_make_tree {A} (fuel i : nat) (x : A) : option (tree A) :=
  match fuel with
  | O => None
  | S fuel' =>
    if i =? 1 then Some (Leaf x)
    else match ra_make_tree fuel' (ra_half i) x with
         | Some n => Some (Node x n n)
         | None => None
         end
  end.

(** 101.scm:126-147 tree-ref/update mid t i f *)
Fixpoint ra_tree_ref_update {A} (mid : nat) (t : tree A) (i : nat) (f : A -> A) : option (A * tree A) :=
  if i =? 0 then
    match t with
    | Node x l r => Some (x, Node (f x) l r)
    | Leaf x => Some (x, Leaf (f x))
    end
  else
    match t with
    | Leaf _ => None                                    (* node-left of a non-node *)
    | Node x l r =>
      if i <=? mid then
        match ra_tree_ref_update (ra_half (mid - 1)) l (i - 1) f with
        | Some (v, t') => Some (v, Node x t' r)
        | None => None
        end
      else
        match ra_tree_ref_update (ra_half (mid - 1)) r (i - mid - 1) f with
        | Some (v, t') => Some (v, Node x l t')
        | None => None
        end
    end.

(** 101.scm:153-163 tree-ref/a t i mid *)
Fixpoint ra_tree_ref_a {A} (t : tree A) (i mid : nat) : option A :=
  if i =? 0 then Some (ra_tree_val t)
  else
    match t with
    | Leaf _ => None
    | Node _ l r =>
      if i <=? mid then ra_tree_ref_a l (i - 1) (ra_half (mid - 1))
      else ra_tree_ref_a r (i - mid - 1) (ra_half (mid - 1))
    end.

(** 101.scm:167-170 tree-ref size t i *)
Definition ra_tree_ref {A} (size : nat) (t : tree A) (i : nat) : option A :=
  if i =? 0 then Some (ra_tree_val t) else ra_tree_ref_a t i (ra_half (size - 1)).

(** 101.scm:208-220 ra:cons *)
Definition ra_cons {A} (x : A) (ls : ralist A) : ralist A :=
  match ls with
  | (s, t) :: rest =>
    match rest with
    | (s2, t2) :: rest2 =>
      if s2 =? s then (1 + s + s, Node x t t2) :: rest2 else (1, Leaf x) :: ls
    | [] => (1, Leaf x) :: ls
    end
  | [] => (1, Leaf x) :: ls
  end.

(** 101.scm:224-236 ra:car+cdr *)
Definition ra_car_cdr {A} (p : ralist A) : option (A * ralist A) :=
  match p with
  | [] => None
  | (s, Node x l r) :: rest => let s' := ra_half s in Some (x, (s', l) :: (s', r) :: rest)
  | (s, Leaf x) :: rest => Some (x, rest)
  end.
Definition ra_car {A} (p : ralist A) : option A := match ra_car_cdr p with Some (a, _) => Some a | None => None end.
Definition ra_cdr {A} (p : ralist A) : option (ralist A) := match ra_car_cdr p with Some (_, d) => Some d | None => None end.

(** 101.scm:249-266 ra:list-ref/update ls i f *)
Fixpoint ra_list_ref_update {A} (xs : ralist A) (j : nat) (f : A -> A) : option (A * ralist A) :=
  match xs with
  | [] => None                                          (* kons-size of '() *)
  | (s, t) :: rest =>
    if j <? s then
      match ra_tree_ref_update (ra_half (s - 1)) t j f with
      | Some (v, t') => Some (v, (s, t') :: rest)
      | None => None
      end
    else
      match ra_list_ref_update rest (j - s) f with
      | Some (v, r') => Some (v, (s, t) :: r')
      | None => None
      end
  end.

(** 101.scm:403-409 ra:list-ref *)
Fixpoint ra_list_ref {A} (xs : ralist A) (j : nat) : option A :=
  match xs with
  | [] => None
  | (s, t) :: rest => if j <? s then ra_tree_ref s t j else ra_list_ref rest (j - s)
  end.

(** 101.scm:279-280 ra:list-ref/set, 412-413 ra:list-set *)
Definition ra_list_set {A} (ls : ralist A) (i : nat) (v : A) : option (ralist A) :=
  match ra_list_ref_update ls i (fun _ => v) with Some (_, l') => Some l' | None => None end.

(** 101.scm:283-284 ra:list, 457-458 linear-access-list->random-access-list *)
Definition ra_of_list {A} (xs : list A) : ralist A := fold_right ra_cons [] xs.

(** 101.scm:305 skew-succ *)
Definition ra_skew_succ (t : nat) : nat := S (2 * t).

(** 101.scm:309-314 largest-skew-binary n (n >= 1; on 0 the Scheme recursion does not end) *)
Fixpoint ra_largest_skew_binary (fuel n : nat) : option nat :=
  match fuel with
  | O => None
  | S fuel' =>
    if n =? 1 then Some 1
    else match ra_largest_skew_binary fuel' (ra_half n) with
         | Some t => let s := ra_skew_succ t in Some (if n <? s then t else s)
         | None => None
         end
  end.

(** 101.scm:287-297 ra:make-list k obj: the loop (n, a) *)
Fixpoint ra_make_list_loop {A} (fuel n : nat) (obj : A) (a : ralist A) : option (ralist A) :=
  if n =? 0 then Some a else
  match fuel with
  | O => None
  | S fuel' =>
    match ra_largest_skew_binary n n with
    | Some t =>
      match ra_make_tree t t obj with
      | Some tr => ra_make_list_loop fuel' (n - t) obj ((t, tr) :: a)
      | None => None
      end
    | None => None
    end
  end.
Definition ra_make_list {A} (k : nat) (obj : A) : option (ralist A) := ra_make_list_loop k k obj [].

(** 101.scm:345-351 ra:length: the sum of the cached sizes *)
Fixpoint ra_length {A} (ls : ralist A) : nat :=
  match ls with [] => 0 | (s, _) :: rest => s + ra_length rest end.

(** 101.scm:453-454 random-access-list->linear-access-list = foldr/1 over ra:car / ra:cdr
    (101.scm:361-379); at most [fuel] elements *)
Fixpoint ra_to_list {A} (fuel : nat) (ls : ralist A) : option (list A) :=
  match ls with
  | [] => Some []
  | _ :: _ =>
    match fuel with
    | O => None
    | S fuel' =>
      match ra_car_cdr ls with
      | Some (a, d) => match ra_to_list fuel' d with Some l => Some (a :: l) | None => None end
      | None => None
      end
    end
  end.
(** the same listing read off the trees directly (equal to [ra_to_list] on well-formed lists: a theorem) *)
Definition ra_flat {A} (ls : ralist A) : list A := flat_map (fun st => ra_tree_list (snd st)) ls.

(** 101.scm:382-390 ra:append with two lists; 393-394 ra:reverse *)
Definition ra_append {A} (l1 l2 : ralist A) : ralist A := fold_right ra_cons l2 (ra_flat l1).
Definition ra_reverse {A} (ls : ralist A) : ralist A := fold_left (fun acc x => ra_cons x acc) (ra_flat ls) [].

(** 101.scm:397-400 ra:list-tail *)
Fixpoint ra_list_tail {A} (xs : ralist A) (j : nat) : option (ralist A) :=
  match j with
  | O => Some xs
  | S j' => match ra_cdr xs with Some d => ra_list_tail d j' | None => None end
  end.

(** 101.scm:417-436 ra:map, unary and with two / three lists: the sizes and the end are read off the FIRST list *)
Definition ra_map {A B} (f : A -> B) (ls : ralist A) : ralist B := map (fun st => (fst st, ra_tree_map f (snd st))) ls.
Fixpoint ra_map2 {A B C} (f : A -> B -> C) (l1 : ralist A) (l2 : ralist B) : option (ralist C) :=
  match l1 with
  | [] => Some []
  | (s, t) :: r1 =>
    match l2 with
    | [] => None                                        (* kons-tree of '() *)
    | (_, t2) :: r2 =>
      match ra_tree_map2 f t t2, ra_map2 f r1 r2 with
      | Some t', Some r' => Some ((s, t') :: r')
      | _, _ => None
      end
    end
  end.
Fixpoint ra_map3 {A B C D} (f : A -> B -> C -> D) (l1 : ralist A) (l2 : ralist B) (l3 : ralist C) : option (ralist D) :=
  match l1 with
  | [] => Some []
  | (s, t) :: r1 =>
    match l2, l3 with
    | (_, t2) :: r2, (_, t3) :: r3 =>
      match ra_tree_map3 f t t2 t3, ra_map3 f r1 r2 r3 with
      | Some t', Some r' => Some ((s, t') :: r')
      | _, _ => None
      end
    | _, _ => None
    end
  end.
(** 101.scm:440-450 ra:for-each with two lists calls the procedure in the order of [ra_flat] of the map *)
Definition ra_for_each2 {A B C} (f : A -> B -> C) (l1 : ralist A) (l2 : ralist B) : option (list C) :=
  match ra_map2 f l1 l2 with Some l => Some (ra_flat l) | None => None end.

(** [equal?] of two random-access lists = structural equality of the records *)
Fixpoint ra_tree_eqb {A} (eqb : A -> A -> bool) (t1 t2 : tree A) : bool :=
  match t1, t2 with
  | Leaf x, Leaf y => eqb x y
  | Node x l r, Node y l2 r2 => eqb x y && ra_tree_eqb eqb l l2 && ra_tree_eqb eqb r r2
  | _, _ => false
  end.
Fixpoint ra_equal {A} (eqb : A -> A -> bool) (l1 l2 : ralist A) : bool :=
  match l1, l2 with
  | [], [] => true
  | (s, t) :: r1, (s2, t2) :: r2 => (s =? s2) && ra_tree_eqb eqb t t2 && ra_equal eqb r1 r2
  | _, _ => false
  end.

(** the list of cached tree sizes (what the inner tie compares with the real records) *)
Definition ra_sizes {A} (ls : ralist A) : list nat := map fst ls.

(** the change class "largest-skew-binary off by one at n = 2^k-1": [>=] for [>] *)
Fixpoint ra_largest_skew_binary_ge (fuel n : nat) : option nat :=
  match fuel with
  | O => None
  | S fuel' =>
    if n =? 1 then Some 1
    else match ra_largest_skew_binary_ge fuel' (ra_half n) with
         | Some t => let s := ra_skew_succ t in Some (if n <=? s then t else s)
         | None => None
         end
  end.
