(** C18 MODEL of (chibi iset): lib/chibi/iset/base.scm, constructors.scm, iterators.scm (the part that
    builds, queries and lists integer sets).  Executable, no proofs.  One Gallina function per Scheme
    function, same case split and order of tests.

    An iset is a binary tree of nodes (start end bits left right); [bits = None] is Scheme's [#f]
    (the node is the whole range [start,end]); [Some b]: element start+i is present iff bit i of b.
    A child [#f] is [Nil].  The Scheme code mutates nodes in place; the trees it builds are trees
    (no node is shared: every node put below another one is fresh from iset-copy-node /
    iset-node-extract / make-iset), so "mutate the node a and return" is modelled as "return the new
    node".  The functional entry points iset-adjoin / iset-delete / iset-union copy their first
    argument before mutating (iset-copy = identity here).

    OUTSIDE this model: iset-intersection2! and iset-difference2! (they mutate nodes of a node list
    collected beforehand, i.e. real aliasing), cursors, iset-rank/select, (chibi iset optimize). *)
From Coq Require Import ZArith List Bool.
Import ListNotations.
Local Open Scope Z_scope.

Inductive tree : Type := Nil | Node (s e : Z) (bits : option Z) (l r : tree).

(* record accessors / setters of base.scm:7-13 (on Nil: never called by the code; default values) *)
Definition t_start t := match t with Node s _ _ _ _ => s | Nil => 0 end.
Definition t_end t := match t with Node _ e _ _ _ => e | Nil => 0 end.
Definition t_bits t := match t with Node _ _ b _ _ => b | Nil => None end.
Definition t_left t := match t with Node _ _ _ l _ => l | Nil => Nil end.
Definition t_right t := match t with Node _ _ _ _ r => r | Nil => Nil end.
Definition set_start t x := match t with Node _ e b l r => Node x e b l r | Nil => Nil end.
Definition set_end t x := match t with Node s _ b l r => Node s x b l r | Nil => Nil end.
Definition set_bits t x := match t with Node s e _ l r => Node s e x l r | Nil => Nil end.
Definition set_left t x := match t with Node s e b _ r => Node s e b x r | Nil => Nil end.
Definition set_right t x := match t with Node s e b l _ => Node s e b l x | Nil => Nil end.
Definition is_some {A} (o : option A) := match o with Some _ => true | None => false end.

(** base.scm:21-25 make-iset with 0 / 2 arguments *)
Definition make_iset0 : tree := Node 0 0 (Some 0) Nil Nil.
Definition make_iset2 (n m : Z) : tree := Node n m None Nil Nil.

(** base.scm:29-40 iset-contains? *)
Fixpoint contains (t : tree) (n : Z) : bool :=
  match t with
  | Nil => false
  | Node s e bits l r =>
      if n <? s then contains l n
      else if n >? e then contains r n
      else match bits with None => true | Some b => Z.testbit b (n - s) end
  end.

(** iterators.scm:7-11 iset-empty? (a missing child counts as empty) *)
Fixpoint is_empty (t : tree) : bool :=
  match t with
  | Nil => true
  | Node _ _ bits l r =>
      match bits with Some b => b =? 0 | None => false end && is_empty l && is_empty r
  end.

(* constructors.scm:5 *)
Definition bits_thresh : Z := 128.
(** constructors.scm:11-14 bit-clear *)
Definition bit_clear (n index : Z) : Z := if Z.testbit n index then n - Z.shiftl 1 index else n.
(** constructors.scm:78-79 range->bits *)
Definition range_bits (s e : Z) : Z := Z.shiftl 1 (1 + (e - s)) - 1.
(** integer-length (SRFI 151) *)
Definition integer_length (b : Z) : Z :=
  let m := if b <? 0 then - b - 1 else b in if m =? 0 then 0 else Z.log2 m + 1.

(** constructors.scm:50-51 iset-copy-node *)
Definition copy_node (t : tree) : tree := Node (t_start t) (t_end t) (t_bits t) Nil Nil.

(** constructors.scm:53-55 iset-max-end, 57-59 iset-min-start *)
Fixpoint max_end (t : tree) : Z :=
  match t with Nil => 0 | Node _ e _ _ r => match r with Nil => e | Node _ _ _ _ _ => max_end r end end.
Fixpoint min_start (t : tree) : Z :=
  match t with Nil => 0 | Node s _ _ l _ => match l with Nil => s | Node _ _ _ _ _ => min_start l end end.

(** constructors.scm:61-66 iset-insert-left!, 68-73 iset-insert-right! (new is a fresh node) *)
Definition insert_left (iset new : tree) : tree :=
  let left := t_left iset in
  let new' := match left with
              | Node _ _ _ _ _ => if t_end new <? t_start left then set_right new left else set_left new left
              | Nil => set_left new left
              end in
  set_left iset new'.
Definition insert_right (iset new : tree) : tree :=
  let right := t_right iset in
  let new' := match right with
              | Node _ _ _ _ _ => if t_end new <? t_start right then set_right new right else set_left new right
              | Nil => set_left new right
              end in
  set_right iset new'.

(** constructors.scm:81-84 iset-squash-bits! *)
Definition squash_bits (t : tree) : tree :=
  match t_bits t with
  | Some b => if b =? range_bits (t_start t) (t_end t) then set_bits t None else t
  | None => t
  end.

(** constructors.scm:86-90 iset-should-merge-left?, 92-96 iset-should-merge-right? *)
Definition should_merge_left (a b : tree) : bool :=
  (t_start a - t_end b <? bits_thresh) &&
  match t_left a with Nil => true | Node _ _ _ _ _ => t_start b >? max_end (t_left a) end.
Definition should_merge_right (a b : tree) : bool :=
  (t_start b - t_end a <? bits_thresh) &&
  match t_right a with Nil => true | Node _ _ _ _ _ => t_end b <? min_start (t_right a) end.

Definition bits_or_range (t : tree) : Z :=
  match t_bits t with Some x => x | None => range_bits (t_start t) (t_end t) end.

(** constructors.scm:98-108 iset-merge-left!, 110-120 iset-merge-right! *)
Definition merge_left (a b : tree) : tree :=
  let a1 := if is_some (t_bits a) || is_some (t_bits b) || (1 + t_end b <? t_start a) then
              let shift := t_start a - t_start b in
              set_bits a (Some (Z.lor (bits_or_range b) (Z.shiftl (bits_or_range a) shift)))
            else a in
  set_start a1 (t_start b).
Definition merge_right (a b : tree) : tree :=
  let a1 := if is_some (t_bits a) || is_some (t_bits b) || (1 + t_end a <? t_start b) then
              let shift := t_start b - t_start a in
              set_bits a (Some (Z.lor (bits_or_range a) (Z.shiftl (bits_or_range b) shift)))
            else a in
  set_end a1 (t_end b).

(** constructors.scm:190-203 iset-node-extract, 181-188 iset-node-split *)
Definition node_extract (node : tree) (s e : Z) : tree :=
  match t_bits node with
  | Some nb =>
      let bits := Z.land (Z.shiftl nb (t_start node - s)) (range_bits s e) in
      let new_end := Z.min e (Z.max s (s + integer_length bits - 1)) in
      Node s new_end (Some bits) Nil Nil
  | None => Node (Z.max s (t_start node)) (Z.min e (t_end node)) None Nil Nil
  end.
Definition node_split (node : tree) (s e : Z) : option tree * tree * option tree :=
  (if t_start node <? s then Some (node_extract node (t_start node) (s - 1)) else None,
   node_extract node s e,
   if t_end node >? e then Some (node_extract node (e + 1) (t_end node)) else None).

(** the clauses of iset-adjoin-node! (constructors.scm:126-171) that do not recurse: a is empty
    (127-133), or b lies inside [a-start,a-end] (153-159).  [None]: another clause applies. *)
Definition adjoin_clause_empty (b : tree) : tree :=
  Node (t_start b) (t_end b) (t_bits b) Nil Nil.
Definition adjoin_clause_inside (a b : tree) : tree :=
  match t_bits a with
  | Some abits =>
      let bb := Z.shiftl (bits_or_range b) (t_start b - t_start a) in
      squash_bits (set_bits a (Some (Z.lor abits bb)))
  | None => a
  end.

(** constructors.scm:173-176 iset-adjoin-node-left! / 177-180 -right!, given the recursive function *)
Definition adjoin_child (rec : tree -> tree) (child node : tree) : tree :=
  match child with Nil => copy_node node | Node _ _ _ _ _ => rec child end.

(** iset-adjoin-node! restricted to a node b inside [a-start,a-end] or an empty a: what the
    recursive call [(iset-adjoin-node! a (cadr ls))] of the general case can reach *)
Definition adjoin_node_top (a b : tree) : tree :=
  if is_empty a then adjoin_clause_empty b
  else if is_empty b then a
  else if (t_start b >=? t_start a) && (t_end b <=? t_end a) then adjoin_clause_inside a b
  else a.

(** constructors.scm:126-171 iset-adjoin-node!: adjoin the node b (its children ignored, except by
    iset-empty?) to the tree a.  Structural on a; the general case's recursive call on a itself is
    [adjoin_node_top] (lemma [adjoin_node_top_eq] in ISetProofs.v: they agree there). *)
Fixpoint adjoin_node (a b : tree) {struct a} : tree :=
  match a with
  | Nil => Nil
  | Node a_start a_end a_bits al ar =>
      if is_empty a then adjoin_clause_empty b
      else if is_empty b then a
      else
        let b_start := t_start b in
        let b_end := t_end b in
        if b_end <? a_start then
          if should_merge_left a b then merge_left a b
          else Node a_start a_end a_bits (adjoin_child (fun c => adjoin_node c b) al b) ar
        else if b_start >? a_end then
          if should_merge_right a b then merge_right a b
          else Node a_start a_end a_bits al (adjoin_child (fun c => adjoin_node c b) ar b)
        else if (b_start >=? a_start) && (b_end <=? a_end) then adjoin_clause_inside a b
        else
          let '(lp, mid, rp) := node_split b a_start a_end in
          let a1 := match lp with
                    | Some x => Node a_start a_end a_bits (adjoin_child (fun c => adjoin_node c x) al x) ar
                    | None => a
                    end in
          let a2 := adjoin_node_top a1 mid in
          match rp with
          | Some x =>
              (* (iset-adjoin-node-right! a x): the right child of a2 is still ar (adjoin_node_top only
                 replaces it by #f when it overwrites an empty a; lemma adjoin_node_top_right) *)
              set_right a2 (match t_right a2 with
                            | Nil => copy_node x
                            | Node _ _ _ _ _ => adjoin_node ar x
                            end)
          | None => a2
          end
  end.

(** constructors.scm:122-123 iset-adjoin1! *)
Definition adjoin1 (t : tree) (n : Z) : tree := adjoin_node t (Node n n None Nil Nil).

(** constructors.scm:218-233 %iset-delete1! *)
Definition delete1_here (iset : tree) (n : Z) : tree :=
  let s := t_start iset in
  let e := t_end iset in
  match t_bits iset with
  | Some b => set_bits iset (Some (bit_clear b (n - s)))
  | None =>
      if n =? s then (if n =? e then set_bits iset (Some 0) else set_start iset (n + 1))
      else if n =? e then set_end iset (n - 1)
      else insert_right (set_end iset (n - 1)) (make_iset2 (n + 1) e)
  end.

(** constructors.scm:235-246 iset-delete1! *)
Fixpoint delete1 (t : tree) (n : Z) : tree :=
  match t with
  | Nil => Nil
  | Node s e bits l r =>
      if n <? s then Node s e bits (delete1 l n) r
      else if n >? e then Node s e bits l (delete1 r n)
      else delete1_here t n
  end.

(** iterators.scm:226-231 iset-fold-node in visiting order: left subtree, node, right subtree *)
Fixpoint nodes (t : tree) : list tree :=
  match t with Nil => [] | Node _ _ _ l r => nodes l ++ t :: nodes r end.

(** constructors.scm:271-275 iset-union2! *)
Definition union2 (a b : tree) : tree := fold_left adjoin_node (nodes b) a.

(** list->iset! / iset-adjoin, iset-delete on a list of integers *)
Definition adjoin_list (t : tree) (ls : list Z) : tree := fold_left adjoin1 ls t.
Definition delete_list (t : tree) (ls : list Z) : tree := fold_left delete1 ls t.

(** iterators.scm:237-255 iset-fold, 266-267 iset->list: the elements in visiting order *)
Fixpoint zrange_n (n : nat) (s : Z) : list Z := match n with O => [] | S k => s :: zrange_n k (s + 1) end.
Definition zrange (s e : Z) : list Z := zrange_n (Z.to_nat (e - s + 1)) s.
(* the do loop of iset-fold peels the lowest set bit: the set bits of the bitmap in increasing position; i is the
   element that bit 0 of p stands for *)
Fixpoint pos_elems (p : positive) (i : Z) : list Z :=
  match p with xH => [i] | xO q => pos_elems q (i + 1) | xI q => i :: pos_elems q (i + 1) end.
Definition node_elems (s e : Z) (bits : option Z) : list Z :=
  match bits with
  | Some (Zpos p) => pos_elems p s
  | Some _ => []
  | None => zrange s e
  end.
Fixpoint to_list (t : tree) : list Z :=
  match t with Nil => [] | Node s e bits l r => to_list l ++ node_elems s e bits ++ to_list r end.

(** iterators.scm:107-110 iset-node-size, 271-275 iset-size *)
Fixpoint popcount_pos (p : positive) : Z :=
  match p with xH => 1 | xO q => popcount_pos q | xI q => 1 + popcount_pos q end.
Definition bit_count (b : Z) : Z := match b with Z0 => 0 | Zpos p => popcount_pos p | Zneg _ => 0 end.
Definition node_size (t : tree) : Z :=
  match t_bits t with Some b => bit_count b | None => 1 + (t_end t - t_start t) end.
Fixpoint iset_size (t : tree) : Z :=
  match t with Nil => 0 | Node _ _ _ l r => iset_size l + node_size t + iset_size r end.
