(** C18: the (chibi iset) model of ISet.v keeps the node invariant [wf] and refines the abstract set
    oracle of SpecCont.v (strictly increasing lists).  No axioms (Print Assumptions at the end).
    Main results: adjoin_node_wf/_contains (iset-adjoin-node!, every clause including node-split),
    adjoin1_wf/_contains, delete1_wf/_contains, to_list_spec, contains_set_mem, adjoin1_to_list,
    delete1_to_list, adjoin_list_refines, delete_list_refines, size_spec, adjoin_node_top_eq,
    union2_wf/_contains/_to_list, and the negative example bad_guard_loses_500.
    The invariant [wf] is exactly the one asked for (not strengthened). *)
From Coq Require Import ZArith List Bool Lia Sorted.
From ChibiV Require Import C18.SpecCont C18.ContProofs C18.ISet.
Import ListNotations.
Local Open Scope Z_scope.

(* ------------------------------------------------------------------ the invariant *)
Fixpoint tree_all (P : Z -> Z -> Prop) (t : tree) : Prop :=
  match t with Nil => True | Node s e _ l r => P s e /\ tree_all P l /\ tree_all P r end.
Definition bits_ok (s e : Z) (bits : option Z) : Prop :=
  match bits with None => True | Some b => 0 <= b < 2 ^ (e - s + 1) end.
Fixpoint wf (t : tree) : Prop :=
  match t with
  | Nil => True
  | Node s e bits l r =>
      s <= e /\ bits_ok s e bits /\
      tree_all (fun _ e' => e' < s) l /\      (* left subtree entirely below start *)
      tree_all (fun s' _ => e < s') r /\      (* right subtree entirely above end *)
      wf l /\ wf r
  end.

Example wf_make_iset0 : wf make_iset0.
Proof. cbn. repeat split; lia. Qed.

(** a node taken alone (children ignored): what iset-adjoin-node! is given as b *)
Definition node_ok (b : tree) : Prop :=
  t_start b <= t_end b /\ bits_ok (t_start b) (t_end b) (t_bits b).

(* ------------------------------------------------------------------ tactics *)
Ltac zb :=
  repeat match goal with
  | |- context [?x >? ?y] => rewrite (Z.gtb_ltb x y)
  | |- context [?x >=? ?y] => rewrite (Z.geb_leb x y)
  | |- context [?x <? ?y] => destruct (Z.ltb_spec x y)
  | |- context [?x <=? ?y] => destruct (Z.leb_spec x y)
  | |- context [?x =? ?y] => destruct (Z.eqb_spec x y)
  end.
Ltac zbh H :=
  repeat match type of H with
  | context [?x >? ?y] => rewrite (Z.gtb_ltb x y) in H
  | context [?x >=? ?y] => rewrite (Z.geb_leb x y) in H
  | context [?x <? ?y] => destruct (Z.ltb_spec x y)
  | context [?x <=? ?y] => destruct (Z.leb_spec x y)
  | context [?x =? ?y] => destruct (Z.eqb_spec x y)
  end.

(* ------------------------------------------------------------------ bits *)
Lemma small_iff : forall k x, 0 <= k ->
  (0 <= x < 2 ^ k <-> 0 <= x /\ forall i, k <= i -> Z.testbit x i = false).
Proof.
  intros k x Hk. split.
  - intros [H0 H1]. split; [exact H0|]. intros i Hi.
    destruct (Z.eq_dec x 0) as [->|Hx]; [apply Z.testbit_0_l|].
    apply Z.bits_above_log2; [exact H0|].
    assert (Z.log2 x < k) by (apply Z.log2_lt_pow2; lia). lia.
  - intros [H0 H1]. split; [exact H0|].
    assert (E : x = x mod 2 ^ k).
    { apply Z.bits_inj'. intros i Hi. destruct (Z_lt_le_dec i k) as [Hlt|Hge].
      - rewrite Z.mod_pow2_bits_low by exact Hlt. reflexivity.
      - rewrite Z.mod_pow2_bits_high by lia. apply H1. exact Hge. }
    rewrite E. apply Z.mod_pos_bound. apply Z.pow_pos_nonneg; lia.
Qed.

Lemma range_bits_ones : forall s e, range_bits s e = Z.ones (1 + (e - s)).
Proof. reflexivity. Qed.

Lemma range_bits_spec : forall s e i, s <= e + 1 ->
  Z.testbit (range_bits s e) i = (0 <=? i) && (i <? e - s + 1).
Proof.
  intros s e i H. rewrite range_bits_ones, Z.testbit_ones by lia.
  replace (1 + (e - s)) with (e - s + 1) by lia. reflexivity.
Qed.

Lemma range_bits_nonneg : forall s e, s <= e + 1 -> 0 <= range_bits s e.
Proof.
  intros s e H. rewrite range_bits_ones, Z.ones_equiv.
  assert (0 < 2 ^ (1 + (e - s))) by (apply Z.pow_pos_nonneg; lia). lia.
Qed.

(** the bits of a node, or of its range: bit i is "start+i is in the node" *)
Definition bor (s e : Z) (bits : option Z) : Z :=
  match bits with Some x => x | None => range_bits s e end.
Definition nmem (s e : Z) (bits : option Z) (m : Z) : bool :=
  (s <=? m) && (m <=? e) && match bits with None => true | Some x => Z.testbit x (m - s) end.

Lemma bor_eq : forall s e bits l r, bits_or_range (Node s e bits l r) = bor s e bits.
Proof. reflexivity. Qed.

Lemma bor_nonneg : forall s e bits, s <= e -> bits_ok s e bits -> 0 <= bor s e bits.
Proof. intros s e [x|] Hse H; cbn [bor bits_ok] in *; [lia | apply range_bits_nonneg; lia]. Qed.

Lemma bor_spec : forall s e bits i, s <= e -> bits_ok s e bits ->
  Z.testbit (bor s e bits) i = nmem s e bits (s + i).
Proof.
  intros s e [x|] i Hse Hok; unfold nmem; cbn [bor bits_ok] in *.
  - replace (s + i - s) with i by lia.
    apply small_iff in Hok; [|lia]. destruct Hok as [H0 Hhi].
    zb; cbn [andb]; try reflexivity; try (apply Hhi; lia); apply Z.testbit_neg_r; lia.
  - rewrite range_bits_spec by lia. zb; cbn [andb]; try reflexivity; lia.
Qed.

Lemma nmem_contains : forall s e bits m, contains (Node s e bits Nil Nil) m = nmem s e bits m.
Proof.
  intros s e bits m. cbn [contains]. unfold nmem. zb; cbn [andb]; try reflexivity; lia.
Qed.

Lemma nmem_range : forall s e bits m, nmem s e bits m = true -> s <= m <= e.
Proof. intros s e bits m H. unfold nmem in H. apply andb_prop in H. destruct H as [H _]. apply andb_prop in H. lia. Qed.

(* ------------------------------------------------------------------ trees *)
Lemma tree_all_impl : forall (P Q : Z -> Z -> Prop) t,
  (forall s e, P s e -> Q s e) -> tree_all P t -> tree_all Q t.
Proof.
  intros P Q t HPQ. induction t as [|s e b l IHl r IHr]; [trivial|].
  cbn [tree_all]. intros (H1 & H2 & H3). auto.
Qed.

Lemma tree_all_and : forall (P Q : Z -> Z -> Prop) t,
  tree_all P t -> tree_all Q t -> tree_all (fun s e => P s e /\ Q s e) t.
Proof.
  intros P Q t. induction t as [|s e b l IHl r IHr]; [trivial|].
  cbn [tree_all]. intros (H1 & H2 & H3) (K1 & K2 & K3). auto.
Qed.

Lemma wf_all_le : forall t, wf t -> tree_all (fun s e => s <= e) t.
Proof.
  induction t as [|s e b l IHl r IHr]; [trivial|].
  cbn [wf tree_all]. intros (H1 & _ & _ & _ & H5 & H6). auto.
Qed.

Lemma is_empty_contains : forall t m, is_empty t = true -> contains t m = false.
Proof.
  induction t as [|s e b l IHl r IHr]; intros m H; [reflexivity|].
  cbn [is_empty] in H. apply andb_prop in H. destruct H as [H Hr].
  apply andb_prop in H. destruct H as [Hb Hl].
  destruct b as [x|]; [|discriminate]. apply Z.eqb_eq in Hb. subst x.
  cbn [contains]. rewrite (IHl m Hl), (IHr m Hr), Z.testbit_0_l.
  destruct (m <? s), (m >? e); reflexivity.
Qed.

(** nothing at or above x in a tree whose ends are all below x; nothing at or below x ... *)
Lemma contains_above : forall t x m, wf t -> tree_all (fun _ e => e < x) t -> x <= m -> contains t m = false.
Proof.
  induction t as [|s e b l IHl r IHr]; intros x m Hwf Ha Hm; [reflexivity|].
  cbn [wf] in Hwf. destruct Hwf as (Hse & Hb & Hl & Hr & Hwl & Hwr).
  cbn [tree_all] in Ha. destruct Ha as (Ha1 & Ha2 & Ha3).
  cbn [contains]. zb; try lia. apply (IHr x); assumption.
Qed.

Lemma contains_below : forall t x m, wf t -> tree_all (fun s _ => x < s) t -> m <= x -> contains t m = false.
Proof.
  induction t as [|s e b l IHl r IHr]; intros x m Hwf Ha Hm; [reflexivity|].
  cbn [wf] in Hwf. destruct Hwf as (Hse & Hb & Hl & Hr & Hwl & Hwr).
  cbn [tree_all] in Ha. destruct Ha as (Ha1 & Ha2 & Ha3).
  cbn [contains]. zb; try lia. apply (IHl x); assumption.
Qed.

Lemma max_end_bound : forall t, wf t -> t <> Nil -> tree_all (fun _ e => e <= max_end t) t.
Proof.
  induction t as [|s e b l IHl r IHr]; intros Hwf Hn; [congruence|].
  cbn [wf] in Hwf. destruct Hwf as (Hse & Hb & Hl & Hr & Hwl & Hwr).
  destruct r as [|rs re rb rl rr].
  - cbn [max_end tree_all]. split; [lia|]. split; [|trivial].
    eapply tree_all_impl; [|exact Hl]. cbn beta. intros; lia.
  - assert (IH := IHr Hwr ltac:(discriminate)).
    set (M := max_end (Node rs re rb rl rr)) in *.
    assert (HM : e < M).
    { cbn [tree_all] in IH, Hr. cbn [wf] in Hwr. lia. }
    change (max_end (Node s e b l (Node rs re rb rl rr))) with M.
    cbn [tree_all]. split; [lia|]. split; [|exact IH].
    eapply tree_all_impl; [|exact Hl]. cbn beta. intros; lia.
Qed.

Lemma min_start_bound : forall t, wf t -> t <> Nil -> tree_all (fun s _ => min_start t <= s) t.
Proof.
  induction t as [|s e b l IHl r IHr]; intros Hwf Hn; [congruence|].
  cbn [wf] in Hwf. destruct Hwf as (Hse & Hb & Hl & Hr & Hwl & Hwr).
  destruct l as [|ls le lb ll lr].
  - cbn [min_start tree_all]. split; [lia|]. split; [trivial|].
    eapply tree_all_impl; [|exact Hr]. cbn beta. intros; lia.
  - assert (IH := IHl Hwl ltac:(discriminate)).
    set (M := min_start (Node ls le lb ll lr)) in *.
    assert (HM : M < s).
    { cbn [tree_all] in IH, Hl. cbn [wf] in Hwl. lia. }
    change (min_start (Node s e b (Node ls le lb ll lr) r)) with M.
    cbn [tree_all]. split; [lia|]. split; [exact IH|].
    eapply tree_all_impl; [|exact Hr]. cbn beta. intros; lia.
Qed.

(* ------------------------------------------------------------------ iset-adjoin-node! *)
Lemma adjoin_node_eq : forall s e bits l r b,
  adjoin_node (Node s e bits l r) b =
  let a := Node s e bits l r in
  if is_empty a then adjoin_clause_empty b
  else if is_empty b then a
  else if t_end b <? s then
    if should_merge_left a b then merge_left a b
    else Node s e bits (adjoin_child (fun c => adjoin_node c b) l b) r
  else if t_start b >? e then
    if should_merge_right a b then merge_right a b
    else Node s e bits l (adjoin_child (fun c => adjoin_node c b) r b)
  else if (t_start b >=? s) && (t_end b <=? e) then adjoin_clause_inside a b
  else
    let '(lp, mid, rp) := node_split b s e in
    let a1 := match lp with
              | Some x => Node s e bits (adjoin_child (fun c => adjoin_node c x) l x) r
              | None => a
              end in
    let a2 := adjoin_node_top a1 mid in
    match rp with
    | Some x => set_right a2 (match t_right a2 with
                              | Nil => copy_node x
                              | Node _ _ _ _ _ => adjoin_node r x
                              end)
    | None => a2
    end.
Proof. reflexivity. Qed.

Lemma merge_left_ok : forall s e bits l r bs be bb bl br,
  wf (Node s e bits l r) -> bs <= be -> bits_ok bs be bb -> be < s ->
  tree_all (fun _ e' => e' < bs) l ->
  wf (merge_left (Node s e bits l r) (Node bs be bb bl br)) /\
  forall m, contains (merge_left (Node s e bits l r) (Node bs be bb bl br)) m =
            nmem bs be bb m || contains (Node s e bits l r) m.
Proof.
  intros s e bits l r bs be bb bl br Hwf Hbse Hbok Hlt Hl'.
  assert (Hwf' := Hwf). cbn [wf] in Hwf'. destruct Hwf' as (Hse & Hok & Hl & Hr & Hwl & Hwr).
  assert (Hcl : forall m, bs <= m -> contains l m = false).
  { intros m Hm. apply (contains_above l bs); assumption. }
  unfold merge_left. cbn [t_bits t_start t_end]. rewrite !bor_eq.
  destruct (is_some bits || is_some bb || (1 + be <? s)) eqn:C; cbn [set_bits set_start].
  - split.
    + cbn [wf]. repeat split; try assumption; try lia.
      * apply Z.lor_nonneg. split; [apply bor_nonneg; assumption|].
        apply Z.shiftl_nonneg. apply bor_nonneg; assumption.
      * apply small_iff; [lia|]. split.
        -- apply Z.lor_nonneg. split; [apply bor_nonneg; assumption|].
           apply Z.shiftl_nonneg. apply bor_nonneg; assumption.
        -- intros i Hi. rewrite Z.lor_spec, Z.shiftl_spec by lia. rewrite !bor_spec by assumption.
           unfold nmem. zb; cbn [andb orb]; try reflexivity; lia.
    + intro m. cbn [contains].
      destruct (Z.ltb_spec m bs) as [Hm|Hm].
      * unfold nmem. zb; cbn [andb orb]; try reflexivity; lia.
      * rewrite Z.lor_spec, Z.shiftl_spec by lia. rewrite !bor_spec by assumption.
        replace (bs + (m - bs)) with m by lia. replace (s + (m - bs - (s - bs))) with m by lia.
        unfold nmem. rewrite (Hcl m Hm).
        zb; cbn [andb orb]; try reflexivity; try lia.
        all: destruct bits; rewrite ?orb_true_r, ?orb_false_r; reflexivity.
  - apply orb_false_elim in C. destruct C as [C C3]. apply orb_false_elim in C. destruct C as [C1 C2].
    destruct bits; [discriminate|]. destruct bb; [discriminate|].
    apply Z.ltb_ge in C3. split.
    + cbn [wf]. repeat split; try assumption; try lia.
    + intro m. cbn [contains]. unfold nmem. destruct (Z.ltb_spec m bs) as [Hm|Hm].
      * zb; cbn [andb orb]; try reflexivity; lia.
      * rewrite (Hcl m Hm). zb; cbn [andb orb]; try reflexivity; lia.
Qed.

Lemma merge_right_ok : forall s e bits l r bs be bb bl br,
  wf (Node s e bits l r) -> bs <= be -> bits_ok bs be bb -> e < bs ->
  tree_all (fun s' _ => be < s') r ->
  wf (merge_right (Node s e bits l r) (Node bs be bb bl br)) /\
  forall m, contains (merge_right (Node s e bits l r) (Node bs be bb bl br)) m =
            nmem bs be bb m || contains (Node s e bits l r) m.
Proof.
  intros s e bits l r bs be bb bl br Hwf Hbse Hbok Hlt Hr'.
  assert (Hwf' := Hwf). cbn [wf] in Hwf'. destruct Hwf' as (Hse & Hok & Hl & Hr & Hwl & Hwr).
  assert (Hcr : forall m, m <= be -> contains r m = false).
  { intros m Hm. apply (contains_below r be); assumption. }
  unfold merge_right. cbn [t_bits t_start t_end]. rewrite !bor_eq.
  destruct (is_some bits || is_some bb || (1 + e <? bs)) eqn:C; cbn [set_bits set_end].
  - split.
    + cbn [wf]. repeat split; try assumption; try lia.
      * apply Z.lor_nonneg. split; [apply bor_nonneg; assumption|].
        apply Z.shiftl_nonneg. apply bor_nonneg; assumption.
      * apply small_iff; [lia|]. split.
        -- apply Z.lor_nonneg. split; [apply bor_nonneg; assumption|].
           apply Z.shiftl_nonneg. apply bor_nonneg; assumption.
        -- intros i Hi. rewrite Z.lor_spec, Z.shiftl_spec by lia. rewrite !bor_spec by assumption.
           unfold nmem. zb; cbn [andb orb]; try reflexivity; lia.
    + intro m. cbn [contains].
      destruct (Z.ltb_spec m s) as [Hm|Hm].
      * unfold nmem. zb; cbn [andb orb]; try reflexivity; lia.
      * rewrite Z.lor_spec, Z.shiftl_spec by lia. rewrite !bor_spec by assumption.
        replace (s + (m - s)) with m by lia. replace (bs + (m - s - (bs - s))) with m by lia.
        unfold nmem.
        zb; cbn [andb orb]; rewrite ?Hcr by lia; try reflexivity; try lia.
        all: destruct bits; destruct bb; rewrite ?orb_true_r, ?orb_false_r; try reflexivity.
  - apply orb_false_elim in C. destruct C as [C C3]. apply orb_false_elim in C. destruct C as [C1 C2].
    destruct bits; [discriminate|]. destruct bb; [discriminate|].
    apply Z.ltb_ge in C3. split.
    + cbn [wf]. repeat split; try assumption; try lia.
    + intro m. cbn [contains]. unfold nmem.
      zb; cbn [andb orb]; rewrite ?Hcr by lia; try reflexivity; lia.
Qed.

Lemma squash_ok : forall s e bits l r,
  wf (Node s e bits l r) ->
  wf (squash_bits (Node s e bits l r)) /\
  forall m, contains (squash_bits (Node s e bits l r)) m = contains (Node s e bits l r) m.
Proof.
  intros s e bits l r Hwf. unfold squash_bits. cbn [t_bits t_start t_end].
  destruct bits as [x|]; [|split; [exact Hwf|reflexivity]].
  destruct (Z.eqb_spec x (range_bits s e)) as [E|E]; [|split; [exact Hwf|reflexivity]].
  cbn [set_bits]. cbn [wf] in Hwf. destruct Hwf as (Hse & Hok & Hl & Hr & Hwl & Hwr). split.
  - cbn [wf bits_ok]. repeat split; assumption.
  - intro m. cbn [contains]. subst x. rewrite range_bits_spec by lia.
    zb; cbn [andb]; try reflexivity; lia.
Qed.

Lemma inside_ok : forall s e bits l r bs be bb bl br,
  wf (Node s e bits l r) -> bs <= be -> bits_ok bs be bb -> s <= bs -> be <= e ->
  wf (adjoin_clause_inside (Node s e bits l r) (Node bs be bb bl br)) /\
  forall m, contains (adjoin_clause_inside (Node s e bits l r) (Node bs be bb bl br)) m =
            nmem bs be bb m || contains (Node s e bits l r) m.
Proof.
  intros s e bits l r bs be bb bl br Hwf Hbse Hbok H1 H2.
  assert (Hwf' := Hwf). cbn [wf] in Hwf'. destruct Hwf' as (Hse & Hok & Hl & Hr & Hwl & Hwr).
  unfold adjoin_clause_inside. cbn [t_bits t_start t_end]. rewrite bor_eq.
  destruct bits as [x|].
  - cbn [set_bits].
    assert (Hwf2 : wf (Node s e (Some (Z.lor x (Z.shiftl (bor bs be bb) (bs - s)))) l r)).
    { cbn [wf]. repeat split; try assumption.
      - apply Z.lor_nonneg. cbn [bits_ok] in Hok. split; [lia|].
        apply Z.shiftl_nonneg. apply bor_nonneg; assumption.
      - apply small_iff; [lia|]. split.
        + apply Z.lor_nonneg. cbn [bits_ok] in Hok. split; [lia|].
          apply Z.shiftl_nonneg. apply bor_nonneg; assumption.
        + intros i Hi. rewrite Z.lor_spec, Z.shiftl_spec by lia. rewrite bor_spec by assumption.
          change x with (bor s e (Some x)). rewrite bor_spec by assumption.
          unfold nmem. zb; cbn [andb orb]; try reflexivity; lia. }
    destruct (squash_ok _ _ _ _ _ Hwf2) as [Hw Hc]. split; [exact Hw|].
    intro m. rewrite Hc. cbn [contains].
    destruct (Z.ltb_spec m s) as [Hm|Hm].
    + unfold nmem. zb; cbn [andb orb]; try reflexivity; lia.
    + rewrite Z.lor_spec, Z.shiftl_spec by lia. rewrite bor_spec by assumption.
      replace (bs + (m - s - (bs - s))) with m by lia.
      unfold nmem. zb; cbn [andb orb]; try reflexivity; try lia.
      all: rewrite ?orb_true_r, ?orb_false_r; try reflexivity; apply orb_comm.
  - split; [exact Hwf|]. intro m. cbn [contains]. unfold nmem.
    zb; cbn [andb orb]; try reflexivity; try lia.
    all: rewrite ?orb_true_r, ?orb_false_r; reflexivity.
Qed.

Lemma merge_left_shape : forall s e bits l r b, exists bits',
  merge_left (Node s e bits l r) b = Node (t_start b) e bits' l r.
Proof.
  intros. unfold merge_left.
  destruct (is_some (t_bits (Node s e bits l r)) || is_some (t_bits b) || (1 + t_end b <? t_start (Node s e bits l r)));
    cbn [set_bits set_start]; eexists; reflexivity.
Qed.
Lemma merge_right_shape : forall s e bits l r b, exists bits',
  merge_right (Node s e bits l r) b = Node s (t_end b) bits' l r.
Proof.
  intros. unfold merge_right.
  destruct (is_some (t_bits (Node s e bits l r)) || is_some (t_bits b) || (1 + t_end (Node s e bits l r) <? t_start b));
    cbn [set_bits set_end]; eexists; reflexivity.
Qed.
Lemma inside_shape : forall s e bits l r b, exists bits',
  adjoin_clause_inside (Node s e bits l r) b = Node s e bits' l r.
Proof.
  intros. unfold adjoin_clause_inside. cbn [t_bits]. destruct bits as [x|]; [|eexists; reflexivity].
  cbn [set_bits]. unfold squash_bits. cbn [t_bits t_start t_end].
  match goal with |- context [if ?c then _ else _] => destruct c end; cbn [set_bits]; eexists; reflexivity.
Qed.

Lemma is_empty_nmem : forall bs be bb bl br m, is_empty (Node bs be bb bl br) = true -> nmem bs be bb m = false.
Proof.
  intros bs be bb bl br m H. cbn [is_empty] in H. destruct bb as [x|]; [|discriminate].
  cbn [andb] in H. apply andb_prop in H. destruct H as [H _]. apply andb_prop in H. destruct H as [H _].
  apply Z.eqb_eq in H. subst x. unfold nmem. rewrite Z.testbit_0_l. apply andb_false_r.
Qed.

(* ------------------------------------------------------------------ T7: iset-adjoin-node! for any node b (all clauses, incl. node-split) *)
Lemma extract_shape : forall b s' e', exists xs xe xb,
  node_extract b s' e' = Node xs xe xb Nil Nil /\ s' <= xs /\ xe <= e'.
Proof.
  intros b s' e'. unfold node_extract. destruct (t_bits b) as [nb|].
  - eexists _, _, _. split; [reflexivity|]. lia.
  - eexists _, _, _. split; [reflexivity|]. lia.
Qed.

Lemma top_cases : forall s e bits l r mid,
  adjoin_node_top (Node s e bits l r) mid = Node (t_start mid) (t_end mid) (t_bits mid) Nil Nil \/
  exists bits', adjoin_node_top (Node s e bits l r) mid = Node s e bits' l r.
Proof.
  intros. unfold adjoin_node_top. destruct (is_empty (Node s e bits l r)); [left; reflexivity|]. right.
  destruct (is_empty mid); [eexists; reflexivity|].
  match goal with |- context [if ?c then _ else _] => destruct c end; [apply inside_shape | eexists; reflexivity].
Qed.

Lemma adjoin_all_gen : forall (Qs Qe : Z -> Prop),
  (forall x y, Qs x -> x <= y -> Qs y) -> (forall x y, Qe x -> y <= x -> Qe y) ->
  forall a b, Qs (t_start b) -> Qe (t_end b) -> tree_all (fun s e => s <= e) a ->
  tree_all (fun s e => Qs s /\ Qe e) a -> tree_all (fun s e => Qs s /\ Qe e) (adjoin_node a b).
Proof.
  intros Qs Qe HQs HQe. induction a as [|s e bits l IHl r IHr]; intros b Hs He Hle Ha; [exact I|].
  rewrite adjoin_node_eq. cbv zeta. cbn [tree_all] in Ha. destruct Ha as ((Ha1 & Ha2) & Hal & Har).
  cbn [tree_all] in Hle. destruct Hle as (Hse & Hlel & Hler).
  destruct (is_empty (Node s e bits l r)); [cbn; auto|].
  destruct (is_empty b); [cbn [tree_all]; auto|].
  destruct (Z.ltb_spec (t_end b) s) as [C1|C1].
  { destruct (should_merge_left (Node s e bits l r) b).
    - destruct (merge_left_shape s e bits l r b) as [x ->]. cbn [tree_all]. auto.
    - cbn [tree_all]. repeat split; auto. destruct l; [cbn; auto|]. cbn [adjoin_child]. auto. }
  rewrite Z.gtb_ltb. destruct (Z.ltb_spec e (t_start b)) as [C2|C2].
  { destruct (should_merge_right (Node s e bits l r) b).
    - destruct (merge_right_shape s e bits l r b) as [x ->]. cbn [tree_all]. auto.
    - cbn [tree_all]. repeat split; auto. destruct r; [cbn; auto|]. cbn [adjoin_child]. auto. }
  destruct ((t_start b >=? s) && (t_end b <=? e)).
  { destruct (inside_shape s e bits l r b) as [x ->]. cbn [tree_all]. auto. }
  unfold node_split. cbv beta iota.
  (* left part *)
  assert (A1 : exists l1,
    match (if t_start b <? s then Some (node_extract b (t_start b) (s - 1)) else None) with
    | Some x => Node s e bits (adjoin_child (fun c => adjoin_node c x) l x) r
    | None => Node s e bits l r
    end = Node s e bits l1 r /\ tree_all (fun s e => Qs s /\ Qe e) l1).
  { destruct (t_start b <? s); [|exists l; auto].
    destruct (extract_shape b (t_start b) (s - 1)) as (xs & xe & xb & Ex & Hxs & Hxe). rewrite Ex.
    eexists. split; [reflexivity|].
    assert (Qs xs) by (apply (HQs (t_start b)); assumption).
    assert (Qe xe) by (apply (HQe e); [assumption|lia]).
    destruct l; [cbn; auto|]. cbn [adjoin_child]. apply IHl; assumption. }
  destruct A1 as (l1 & -> & Hl1).
  destruct (extract_shape b s e) as (ms & me & mb & Em & Hms & Hme). rewrite Em.
  assert (A2 : exists s2 e2 b2 l2 r2, adjoin_node_top (Node s e bits l1 r) (Node ms me mb Nil Nil) = Node s2 e2 b2 l2 r2 /\
            tree_all (fun s e => Qs s /\ Qe e) (Node s2 e2 b2 l2 r2)).
  { destruct (top_cases s e bits l1 r (Node ms me mb Nil Nil)) as [E|[bits' E]]; rewrite E.
    - cbn [t_start t_end t_bits]. eexists _, _, _, _, _. split; [reflexivity|]. cbn [tree_all].
      repeat split; auto; [apply (HQs s) | apply (HQe e)]; assumption.
    - eexists _, _, _, _, _. split; [reflexivity|]. cbn [tree_all]. auto. }
  destruct A2 as (s2 & e2 & b2 & l2 & r2 & -> & H2).
  destruct (t_end b >? e); [|exact H2].
  destruct (extract_shape b (e + 1) (t_end b)) as (xs & xe & xb & Ex & Hxs & Hxe). rewrite Ex.
  cbn [set_right t_right]. cbn [tree_all] in H2. destruct H2 as (H21 & H22 & H23).
  assert (Qs xs) by (apply (HQs s); [assumption|lia]).
  assert (Qe xe) by (apply (HQe (t_end b)); assumption).
  cbn [tree_all]. repeat split; try tauto.
  destruct r2; [cbn; auto|]. apply IHr; assumption.
Qed.

Lemma il_nonneg : forall x, 0 <= integer_length x.
Proof.
  intro x. unfold integer_length. destruct (_ =? 0); [lia|]. pose proof (Z.log2_nonneg (if x <? 0 then - x - 1 else x)). lia.
Qed.
Lemma il_high : forall x i, 0 <= x -> integer_length x <= i -> Z.testbit x i = false.
Proof.
  intros x i Hx Hi. unfold integer_length in Hi. destruct (Z.ltb_spec x 0) as [C|C]; [lia|].
  destruct (Z.eqb_spec x 0) as [E|E]; [subst x; apply Z.testbit_0_l|].
  apply Z.bits_above_log2; lia.
Qed.
Lemma il_le : forall x k, 0 <= k -> 0 <= x < 2 ^ k -> integer_length x <= k.
Proof.
  intros x k Hk Hx. unfold integer_length. destruct (Z.ltb_spec x 0) as [C|C]; [lia|].
  destruct (Z.eqb_spec x 0) as [E|E]; [lia|].
  assert (Z.log2 x < k) by (apply Z.log2_lt_pow2; lia). lia.
Qed.

(** iset-node-extract: the part of the node b inside [s',e'] *)
Lemma extract_ok : forall bs be bb bl br s' e',
  bs <= be -> bits_ok bs be bb -> s' <= e' -> s' <= be -> bs <= e' ->
  exists xs xe xb, node_extract (Node bs be bb bl br) s' e' = Node xs xe xb Nil Nil /\
    xs <= xe /\ bits_ok xs xe xb /\ s' <= xs /\ xe <= e' /\
    forall m, nmem xs xe xb m = (s' <=? m) && (m <=? e') && nmem bs be bb m.
Proof.
  intros bs be bb bl br s' e' Hbse Hbok Hse' H1 H2. unfold node_extract. cbn [t_bits t_start t_end].
  destruct bb as [nb|].
  - set (bits := Z.land (Z.shiftl nb (bs - s')) (range_bits s' e')).
    cbn [bits_ok] in Hbok. apply small_iff in Hbok; [|lia]. destruct Hbok as [Hnb Hnbhi].
    assert (Hspec : forall i, 0 <= i -> Z.testbit bits i = Z.testbit nb (i + s' - bs) && (i <? e' - s' + 1)).
    { intros i Hi. unfold bits. rewrite Z.land_spec, Z.shiftl_spec, range_bits_spec by lia.
      replace (i - (bs - s')) with (i + s' - bs) by lia.
      destruct (Z.leb_spec 0 i); [reflexivity|lia]. }
    assert (Hb0 : 0 <= bits).
    { unfold bits. apply Z.land_nonneg. right. apply range_bits_nonneg. lia. }
    assert (Hbsmall : 0 <= bits < 2 ^ (e' - s' + 1)).
    { apply small_iff; [lia|]. split; [exact Hb0|]. intros i Hi. rewrite Hspec by lia.
      destruct (Z.ltb_spec i (e' - s' + 1)); [lia|apply andb_false_r]. }
    pose proof (il_le bits (e' - s' + 1) ltac:(lia) Hbsmall) as Hil. pose proof (il_nonneg bits) as Hil0.
    set (ne := Z.min e' (Z.max s' (s' + integer_length bits - 1))).
    assert (Hhigh : forall i, ne - s' + 1 <= i -> Z.testbit bits i = false).
    { intros i Hi. apply il_high; [exact Hb0|]. unfold ne in Hi. lia. }
    exists s', ne, (Some bits). split; [reflexivity|]. split; [unfold ne; lia|]. split.
    { cbn [bits_ok]. apply small_iff; [unfold ne; lia|]. split; assumption. }
    split; [lia|]. split; [unfold ne; lia|].
    intro m. unfold nmem. destruct (Z.leb_spec s' m) as [Hm|Hm]; cbn [andb]; [|reflexivity].
    assert (HX : Z.testbit nb (m - bs) = true -> bs <= m <= be).
    { intro T. destruct (Z_lt_le_dec (m - bs) 0) as [Hn|Hn]; [rewrite Z.testbit_neg_r in T by lia; discriminate|].
      destruct (Z_lt_le_dec (m - bs) (be - bs + 1)) as [Hn2|Hn2]; [lia|]. rewrite (Hnbhi _ Hn2) in T. discriminate. }
    destruct (Z.leb_spec m ne) as [Hm2|Hm2]; cbn [andb].
    + rewrite Hspec by lia. replace (m - s' + s' - bs) with (m - bs) by lia.
      destruct (Z.testbit nb (m - bs)) eqn:T.
      * specialize (HX eq_refl). zb; cbn [andb]; try reflexivity; unfold ne in *; lia.
      * cbn [andb]. rewrite !andb_false_r. reflexivity.
    + pose proof (Hhigh (m - s') ltac:(lia)) as Hf. rewrite Hspec in Hf by lia.
      replace (m - s' + s' - bs) with (m - bs) in Hf by lia.
      destruct (Z.testbit nb (m - bs)) eqn:T; [|rewrite !andb_false_r; reflexivity].
      specialize (HX eq_refl). cbn [andb] in Hf. revert Hf. zb; cbn [andb]; intros; try reflexivity; try discriminate; lia.
  - exists (Z.max s' bs), (Z.min e' be), None. split; [reflexivity|]. split; [lia|]. split; [exact I|].
    split; [lia|]. split; [lia|]. intro m. unfold nmem. zb; cbn [andb]; try reflexivity; lia.
Qed.

Definition adj_spec (a : tree) (bs be : Z) (bb : option Z) (r' : tree) : Prop :=
  wf r' /\ r' <> Nil /\ forall m, contains r' m = nmem bs be bb m || contains a m.

Ltac bfin :=
  zb; cbn [andb orb negb]; rewrite ?orb_true_r, ?orb_false_r, ?andb_true_r, ?andb_false_r;
  try reflexivity; try lia; try discriminate.
Ltac nmem_case bs be bb m :=
  let NR := fresh "NR" in let Nm := fresh "Nm" in
  pose proof (nmem_range bs be bb m) as NR; destruct (nmem bs be bb m) eqn:Nm; [specialize (NR eq_refl)|clear NR].

Lemma child_left_ok : forall c xs xe xb xl xr s,
  wf c -> tree_all (fun _ e' => e' < s) c -> xs <= xe -> bits_ok xs xe xb -> xe < s ->
  (c <> Nil -> adj_spec c xs xe xb (adjoin_node c (Node xs xe xb xl xr))) ->
  let c' := match c with Nil => copy_node (Node xs xe xb xl xr) | Node _ _ _ _ _ => adjoin_node c (Node xs xe xb xl xr) end in
  wf c' /\ tree_all (fun _ e' => e' < s) c' /\ forall m, contains c' m = nmem xs xe xb m || contains c m.
Proof.
  intros c xs xe xb xl xr s Hw Ht Hx1 Hx2 Hx3 IH. destruct c as [|cs ce cb cl cr].
  - cbn zeta. unfold copy_node. cbn [t_start t_end t_bits]. split; [cbn [wf tree_all]; repeat split; assumption|].
    split; [cbn [tree_all]; repeat split; assumption|]. intro m. rewrite nmem_contains. cbn [contains]. rewrite orb_false_r. reflexivity.
  - cbn zeta. destruct (IH ltac:(discriminate)) as (W & _ & Cn). split; [exact W|]. split; [|exact Cn].
    apply (tree_all_impl (fun s' e' => True /\ e' < s)); [intros ? ? [_ H]; exact H|].
    apply adjoin_all_gen; [auto | intros; lia | exact I | exact Hx3 | apply wf_all_le; exact Hw |].
    eapply tree_all_impl; [|exact Ht]. cbn beta. auto.
Qed.

Lemma child_right_ok : forall c xs xe xb xl xr e,
  wf c -> tree_all (fun s' _ => e < s') c -> xs <= xe -> bits_ok xs xe xb -> e < xs ->
  (c <> Nil -> adj_spec c xs xe xb (adjoin_node c (Node xs xe xb xl xr))) ->
  let c' := match c with Nil => copy_node (Node xs xe xb xl xr) | Node _ _ _ _ _ => adjoin_node c (Node xs xe xb xl xr) end in
  wf c' /\ tree_all (fun s' _ => e < s') c' /\ forall m, contains c' m = nmem xs xe xb m || contains c m.
Proof.
  intros c xs xe xb xl xr e Hw Ht Hx1 Hx2 Hx3 IH. destruct c as [|cs ce cb cl cr].
  - cbn zeta. unfold copy_node. cbn [t_start t_end t_bits]. split; [cbn [wf tree_all]; repeat split; assumption|].
    split; [cbn [tree_all]; repeat split; assumption|]. intro m. rewrite nmem_contains. cbn [contains]. rewrite orb_false_r. reflexivity.
  - cbn zeta. destruct (IH ltac:(discriminate)) as (W & _ & Cn). split; [exact W|]. split; [|exact Cn].
    apply (tree_all_impl (fun s' e' => e < s' /\ True)); [intros ? ? [H _]; exact H|].
    apply adjoin_all_gen; [intros; lia | auto | exact Hx3 | exact I | apply wf_all_le; exact Hw |].
    eapply tree_all_impl; [|exact Ht]. cbn beta. auto.
Qed.

Lemma adjoin_node_ok : forall a, wf a -> a <> Nil ->
  forall bs be bb bl br, bs <= be -> bits_ok bs be bb ->
  adj_spec a bs be bb (adjoin_node a (Node bs be bb bl br)).
Proof.
  induction a as [|s e bits l IHl r IHr]; intros Hwf Hn bs be bb bl br Hbse Hbok; [congruence|]. clear Hn.
  assert (Hwf' := Hwf). cbn [wf] in Hwf'. destruct Hwf' as (Hse & Hok & Hl & Hr & Hwl & Hwr).
  unfold adj_spec. rewrite adjoin_node_eq. cbv zeta.
  destruct (is_empty (Node s e bits l r)) eqn:Ea.
  { unfold adjoin_clause_empty. cbn [t_start t_end t_bits]. split; [|split; [discriminate|]].
    - cbn [wf tree_all]. repeat split; assumption.
    - intro m. rewrite nmem_contains, (is_empty_contains _ m Ea). rewrite orb_false_r. reflexivity. }
  destruct (is_empty (Node bs be bb bl br)) eqn:Eb.
  { split; [exact Hwf|]. split; [discriminate|]. intro m.
    rewrite (is_empty_nmem _ _ _ _ _ m Eb). reflexivity. }
  cbn [t_start t_end].
  destruct (Z.ltb_spec be s) as [C1|C1].
  { destruct (should_merge_left (Node s e bits l r) (Node bs be bb bl br)) eqn:M.
    - assert (Hl' : tree_all (fun _ e' => e' < bs) l).
      { unfold should_merge_left in M. apply andb_prop in M. destruct M as [_ M]. cbn [t_left t_start] in M.
        destruct l as [|ls le lb ll lr]; [exact I|].
        apply Z.gtb_lt in M. eapply tree_all_impl; [|apply max_end_bound; [exact Hwl|discriminate]].
        cbn beta. intros; lia. }
      destruct (merge_left_ok s e bits l r bs be bb bl br Hwf Hbse Hbok C1 Hl') as [Hw Hc].
      split; [exact Hw|]. split; [|exact Hc].
      destruct (merge_left_shape s e bits l r (Node bs be bb bl br)) as [x E]. rewrite E. discriminate.
    - unfold adjoin_child.
      destruct (child_left_ok l bs be bb bl br s Hwl Hl Hbse Hbok C1
                  (fun Hn => IHl Hwl Hn bs be bb bl br Hbse Hbok)) as (W & T & Cn).
      split; [|split; [discriminate|]].
      + cbn [wf]. repeat split; assumption.
      + intro m. cbn [contains]. rewrite Cn. unfold nmem. bfin. }
  rewrite Z.gtb_ltb. destruct (Z.ltb_spec e bs) as [C2|C2].
  { destruct (should_merge_right (Node s e bits l r) (Node bs be bb bl br)) eqn:M.
    - assert (Hr' : tree_all (fun s' _ => be < s') r).
      { unfold should_merge_right in M. apply andb_prop in M. destruct M as [_ M]. cbn [t_right t_end] in M.
        destruct r as [|rs re rb rl rr]; [exact I|].
        apply Z.ltb_lt in M. eapply tree_all_impl; [|apply min_start_bound; [exact Hwr|discriminate]].
        cbn beta. intros; lia. }
      destruct (merge_right_ok s e bits l r bs be bb bl br Hwf Hbse Hbok C2 Hr') as [Hw Hc].
      split; [exact Hw|]. split; [|exact Hc].
      destruct (merge_right_shape s e bits l r (Node bs be bb bl br)) as [x E]. rewrite E. discriminate.
    - unfold adjoin_child.
      destruct (child_right_ok r bs be bb bl br e Hwr Hr Hbse Hbok C2
                  (fun Hn => IHr Hwr Hn bs be bb bl br Hbse Hbok)) as (W & T & Cn).
      split; [|split; [discriminate|]].
      + cbn [wf]. repeat split; assumption.
      + intro m. cbn [contains]. rewrite Cn. unfold nmem. bfin. }
  rewrite !Z.geb_leb.
  destruct ((s <=? bs) && (be <=? e)) eqn:C34.
  { apply andb_prop in C34. destruct C34 as [C3 C4]. apply Z.leb_le in C3, C4.
    destruct (inside_ok s e bits l r bs be bb bl br Hwf Hbse Hbok C3 C4) as [Hw Hc].
    split; [exact Hw|]. split; [|exact Hc].
    destruct (inside_shape s e bits l r (Node bs be bb bl br)) as [x E]. rewrite E. discriminate. }
  (* general case *)
  unfold node_split. cbn [t_start t_end]. cbv beta iota. unfold adjoin_child.
  match goal with |- context [adjoin_node_top ?X ?M] => set (A1 := X) in *; set (MID := M) in * end.
  assert (HA1 : exists l1, A1 = Node s e bits l1 r /\ wf (Node s e bits l1 r) /\
            forall m, contains (Node s e bits l1 r) m = ((m <? s) && nmem bs be bb m) || contains (Node s e bits l r) m).
  { unfold A1. destruct (Z.ltb_spec bs s) as [L|L].
    - destruct (extract_ok bs be bb bl br bs (s - 1) Hbse Hbok ltac:(lia) ltac:(lia) ltac:(lia))
        as (xs & xe & xb & Ex & Hx1 & Hx2 & Hx3 & Hx4 & Hx5). rewrite Ex.
      destruct (child_left_ok l xs xe xb Nil Nil s Hwl Hl Hx1 Hx2 ltac:(lia)
                  (fun Hn => IHl Hwl Hn xs xe xb Nil Nil Hx1 Hx2)) as (W & T & Cn).
      eexists. split; [reflexivity|]. split; [cbn [wf]; repeat split; assumption|].
      intro m. cbn [contains]. rewrite Cn, Hx5. nmem_case bs be bb m; bfin.
    - exists l. split; [reflexivity|]. split; [exact Hwf|]. intro m. nmem_case bs be bb m; bfin. }
  destruct HA1 as (l1 & EA1 & W1 & Cn1). clearbody A1. subst A1.
  destruct (extract_ok bs be bb bl br s e Hbse Hbok Hse C1 C2)
    as (ms & me & mb & Em & Hm1 & Hm2 & Hm3 & Hm4 & Hm5).
  unfold MID in *. clear MID. rewrite Em.
  assert (HA2 : exists s2 e2 b2 l2 r2,
            adjoin_node_top (Node s e bits l1 r) (Node ms me mb Nil Nil) = Node s2 e2 b2 l2 r2 /\
            wf (Node s2 e2 b2 l2 r2) /\ e2 <= e /\
            (forall m, contains (Node s2 e2 b2 l2 r2) m = ((m <=? e) && nmem bs be bb m) || contains (Node s e bits l r) m) /\
            (forall m, contains r2 m = contains r m) /\ (r2 = r \/ r2 = Nil)).
  { unfold adjoin_node_top. destruct (is_empty (Node s e bits l1 r)) eqn:E1.
    - unfold adjoin_clause_empty. cbn [t_start t_end t_bits]. eexists _, _, _, _, _. split; [reflexivity|].
      split; [cbn [wf tree_all]; repeat split; assumption|]. split; [lia|]. split; [|split; [|right; reflexivity]].
      + intro m. pose proof (is_empty_contains _ m E1) as F. rewrite Cn1 in F.
        apply orb_false_elim in F. destruct F as [F1 F2]. rewrite nmem_contains, Hm5, F2. revert F1.
        nmem_case bs be bb m; bfin.
      + intro m. cbn [is_empty] in E1. apply andb_prop in E1. destruct E1 as [_ E1].
        rewrite (is_empty_contains r m E1). reflexivity.
    - destruct (is_empty (Node ms me mb Nil Nil)) eqn:E2.
      + eexists _, _, _, _, _. split; [reflexivity|]. split; [exact W1|]. split; [lia|].
        split; [|split; [reflexivity|left; reflexivity]].
        intro m. rewrite Cn1. pose proof (is_empty_nmem _ _ _ _ _ m E2) as F. rewrite Hm5 in F. revert F.
        nmem_case bs be bb m; bfin.
      + cbn [t_start t_end]. rewrite !Z.geb_leb.
        destruct (Z.leb_spec s ms) as [K1|K1]; [|lia]. destruct (Z.leb_spec me e) as [K2|K2]; [|lia]. cbn [andb].
        destruct (inside_ok s e bits l1 r ms me mb Nil Nil W1 Hm1 Hm2 K1 K2) as [Hw Hc].
        destruct (inside_shape s e bits l1 r (Node ms me mb Nil Nil)) as [x E]. rewrite E in *.
        eexists _, _, _, _, _. split; [reflexivity|]. split; [exact Hw|]. split; [lia|].
        split; [|split; [reflexivity|left; reflexivity]].
        intro m. rewrite Hc, Cn1, Hm5. nmem_case bs be bb m; bfin. }
  destruct HA2 as (s2 & e2 & b2 & l2 & r2 & E2 & W2 & He2 & Cn2 & Hcr2 & Hr2). rewrite E2.
  rewrite Z.gtb_ltb. destruct (Z.ltb_spec e be) as [R|R].
  - destruct (extract_ok bs be bb bl br (e + 1) be Hbse Hbok ltac:(lia) ltac:(lia) ltac:(lia))
      as (xs & xe & xb & Ex & Hx1 & Hx2 & Hx3 & Hx4 & Hx5). rewrite Ex.
    cbn [set_right t_right].
    assert (HR : let r' := match r2 with Nil => copy_node (Node xs xe xb Nil Nil)
                                     | Node _ _ _ _ _ => adjoin_node r (Node xs xe xb Nil Nil) end in
                 wf r' /\ tree_all (fun s' _ => e < s') r' /\ forall m, contains r' m = nmem xs xe xb m || contains r m).
    { destruct Hr2 as [->| ->].
      - apply (child_right_ok r xs xe xb Nil Nil e Hwr Hr Hx1 Hx2 ltac:(lia)
                 (fun Hn => IHr Hwr Hn xs xe xb Nil Nil Hx1 Hx2)).
      - cbn zeta. unfold copy_node. cbn [t_start t_end t_bits].
        split; [cbn [wf tree_all]; repeat split; assumption|].
        split; [cbn [tree_all]; repeat split; try exact I; lia|].
        intro m. rewrite nmem_contains, <- (Hcr2 m). cbn [contains]. rewrite orb_false_r. reflexivity. }
    cbv zeta in HR. destruct HR as (Wr & Tr & Cr).
    cbn [wf] in W2. destruct W2 as (W21 & W22 & W23 & W24 & W25 & W26).
    split; [|split; [discriminate|]].
    + cbn [wf]. repeat split; try assumption.
      eapply tree_all_impl; [|exact Tr]. cbn beta. intros; lia.
    + intro m. pose proof (Cn2 m) as K. cbn [contains] in K. cbn [contains].
      destruct (Z.ltb_spec m s2) as [Q1|Q1].
      * rewrite K. nmem_case bs be bb m; bfin.
      * rewrite Z.gtb_ltb in *. destruct (Z.ltb_spec e2 m) as [Q2|Q2].
        -- rewrite Cr, Hx5. rewrite Hcr2 in K. rewrite K. nmem_case bs be bb m; bfin.
        -- rewrite K. nmem_case bs be bb m; bfin.
  - split; [exact W2|]. split; [discriminate|]. intro m. rewrite Cn2. nmem_case bs be bb m; bfin.
Qed.

Theorem adjoin_node_wf : forall a b, wf a -> a <> Nil -> b <> Nil -> node_ok b ->
  wf (adjoin_node a b) /\ adjoin_node a b <> Nil.
Proof.
  intros a [|bs be bb bl br] Hwf Hn Hb [H1 H2]; [congruence|]. cbn [t_start t_end t_bits] in *.
  destruct (adjoin_node_ok a Hwf Hn bs be bb bl br H1 H2) as (W & N & _). auto.
Qed.
Theorem adjoin_node_contains : forall a b m, wf a -> a <> Nil -> b <> Nil -> node_ok b ->
  contains (adjoin_node a b) m = contains (copy_node b) m || contains a m.
Proof.
  intros a [|bs be bb bl br] m Hwf Hn Hb [H1 H2]; [congruence|]. cbn [t_start t_end t_bits] in *.
  destruct (adjoin_node_ok a Hwf Hn bs be bb bl br H1 H2) as (_ & _ & C).
  unfold copy_node. cbn [t_start t_end t_bits]. rewrite nmem_contains. apply C.
Qed.

(* ------------------------------------------------------------------ T1, T2: iset-adjoin1! *)
Theorem adjoin1_wf : forall t n, wf t -> t <> Nil -> wf (adjoin1 t n) /\ adjoin1 t n <> Nil.
Proof.
  intros t n Hwf Hn. unfold adjoin1.
  destruct (adjoin_node_ok t Hwf Hn n n None Nil Nil ltac:(lia) I) as (H1 & H2 & _). auto.
Qed.

Theorem adjoin1_contains : forall t n m, wf t -> t <> Nil ->
  contains (adjoin1 t n) m = (m =? n) || contains t m.
Proof.
  intros t n m Hwf Hn. unfold adjoin1.
  destruct (adjoin_node_ok t Hwf Hn n n None Nil Nil ltac:(lia) I) as (_ & _ & H).
  rewrite H. f_equal. unfold nmem. zb; cbn [andb]; try reflexivity; lia.
Qed.

Definition ex_tree : tree := fold_left adjoin1 [0; 1000; 500; 100; 200; 300; 400; 510] make_iset0.

Lemma wf_adjoin_list : forall ls t, wf t -> t <> Nil -> wf (fold_left adjoin1 ls t) /\ fold_left adjoin1 ls t <> Nil.
Proof.
  induction ls as [|n ls IH]; intros t Hwf Hn; cbn [fold_left]; [auto|].
  destruct (adjoin1_wf t n Hwf Hn) as [H1 H2]. apply IH; assumption.
Qed.

Example ex_tree_wf : wf ex_tree /\ ex_tree <> Nil.
Proof. apply wf_adjoin_list; [exact wf_make_iset0 | discriminate]. Qed.
Example ex_tree_shape : ex_tree =
  Node 0 400
    (Some 2582249878086908589655919172005048910306040278915491958519070341639743349400782672842373836159745335166889692968469397505)
    Nil (Node 1000 1000 None (Node 500 510 (Some 1025) Nil Nil) Nil).
Proof. vm_compute. reflexivity. Qed.
Example ex_adjoin1 : wf (adjoin1 ex_tree 450) /\ contains (adjoin1 ex_tree 450) 450 = true /\
  contains (adjoin1 ex_tree 450) 500 = true /\ contains (adjoin1 ex_tree 450) 451 = false.
Proof.
  split; [apply adjoin1_wf; apply ex_tree_wf|].
  rewrite !adjoin1_contains by apply ex_tree_wf. vm_compute. auto.
Qed.

(* ------------------------------------------------------------------ T3: iset-delete1! *)
Lemma bit_clear_spec : forall b i j, Z.testbit (bit_clear b i) j = Z.testbit b j && negb (j =? i).
Proof.
  intros b i j. unfold bit_clear. destruct (Z.testbit b i) eqn:E.
  - assert (Hi : 0 <= i).
    { destruct (Z_lt_le_dec i 0) as [Hlt|Hge]; [|exact Hge]. rewrite Z.testbit_neg_r in E by lia. discriminate. }
    rewrite Z.sub_nocarry_ldiff.
    + rewrite Z.ldiff_spec, Z.shiftl_1_l, Z.pow2_bits_eqb by lia. rewrite (Z.eqb_sym i j). reflexivity.
    + apply Z.bits_inj'. intros k Hk. rewrite Z.ldiff_spec, Z.shiftl_1_l, Z.pow2_bits_eqb, Z.bits_0 by lia.
      destruct (Z.eqb_spec i k) as [->|Hne]; [rewrite E|]; reflexivity.
  - destruct (Z.eqb_spec j i) as [->|Hne]; [rewrite E; reflexivity | rewrite andb_true_r; reflexivity].
Qed.

Lemma bit_clear_nonneg : forall b i, 0 <= b -> 0 <= bit_clear b i.
Proof.
  intros b i Hb.
  destruct (Z.eq_dec (bit_clear b i) b) as [->|Hne]; [exact Hb|].
  unfold bit_clear in *. destruct (Z.testbit b i) eqn:E; [|congruence].
  assert (Hi : 0 <= i).
  { destruct (Z_lt_le_dec i 0) as [Hlt|Hge]; [|exact Hge]. rewrite Z.testbit_neg_r in E by lia. discriminate. }
  rewrite Z.sub_nocarry_ldiff.
  - apply Z.ldiff_nonneg. left. exact Hb.
  - apply Z.bits_inj'. intros k Hk. rewrite Z.ldiff_spec, Z.shiftl_1_l, Z.pow2_bits_eqb, Z.bits_0 by lia.
    destruct (Z.eqb_spec i k) as [->|Hne']; [rewrite E|]; reflexivity.
Qed.

Lemma insert_right_wf_shape : forall s e bits l r n e0,
  tree_all (fun s' _ => e0 < s') r ->
  insert_right (Node s e bits l r) (Node n e0 None Nil Nil) = Node s e bits l (Node n e0 None Nil r).
Proof.
  intros s e bits l r n e0 Hr. unfold insert_right. cbn [t_right set_right t_end].
  destruct r as [|rs re rb rl rr]; [reflexivity|]. cbn [t_start tree_all] in *.
  destruct (Z.ltb_spec e0 rs) as [H|H]; [reflexivity|lia].
Qed.

Lemma delete_all : forall (Qs Qe : Z -> Prop),
  (forall x y, Qs x -> x <= y -> Qs y) -> (forall x y, Qe x -> y <= x -> Qe y) ->
  forall t n, wf t -> tree_all (fun s e => Qs s /\ Qe e) t -> tree_all (fun s e => Qs s /\ Qe e) (delete1 t n).
Proof.
  intros Qs Qe HQs HQe t n. induction t as [|s e bits l IHl r IHr]; intros Hwf Ha; [exact I|].
  cbn [wf] in Hwf. destruct Hwf as (Hse & Hok & Hl & Hr & Hwl & Hwr).
  cbn [tree_all] in Ha. destruct Ha as ((Ha1 & Ha2) & Hal & Har).
  cbn [delete1]. destruct (Z.ltb_spec n s) as [C1|C1]; [cbn [tree_all]; auto|].
  rewrite Z.gtb_ltb. destruct (Z.ltb_spec e n) as [C2|C2]; [cbn [tree_all]; auto|].
  unfold delete1_here. cbn [t_start t_end t_bits]. destruct bits as [x|]; [cbn [set_bits tree_all]; auto|].
  destruct (Z.eqb_spec n s) as [E1|E1].
  - destruct (Z.eqb_spec n e) as [E2|E2]; [cbn [set_bits tree_all]; auto|].
    cbn [set_start tree_all]. repeat split; auto. apply (HQs s); [exact Ha1|lia].
  - destruct (Z.eqb_spec n e) as [E2|E2].
    + cbn [set_end tree_all]. repeat split; auto. apply (HQe e); [exact Ha2|lia].
    + cbn [set_end]. unfold make_iset2. rewrite insert_right_wf_shape by exact Hr.
      cbn [tree_all]. repeat split; auto.
      * apply (HQe e); [exact Ha2|lia].
      * apply (HQs s); [exact Ha1|lia].
Qed.

Lemma delete1_here_ok : forall s e bits l r n,
  wf (Node s e bits l r) -> s <= n <= e ->
  wf (delete1_here (Node s e bits l r) n) /\
  forall m, contains (delete1_here (Node s e bits l r) n) m = negb (m =? n) && contains (Node s e bits l r) m.
Proof.
  intros s e bits l r n Hwf Hn.
  cbn [wf] in Hwf. destruct Hwf as (Hse & Hok & Hl & Hr & Hwl & Hwr).
  assert (Hcl : forall m, s <= m -> contains l m = false).
  { intros m Hm. apply (contains_above l s); assumption. }
  assert (Hcr : forall m, m <= e -> contains r m = false).
  { intros m Hm. apply (contains_below r e); assumption. }
  unfold delete1_here. cbn [t_start t_end t_bits]. destruct bits as [x|].
  - cbn [set_bits]. split.
    + cbn [wf bits_ok] in *. repeat split; try assumption.
      * apply bit_clear_nonneg. lia.
      * apply small_iff; [lia|]. split; [apply bit_clear_nonneg; lia|].
        intros i Hi. rewrite bit_clear_spec. apply small_iff in Hok; [|lia].
        rewrite (proj2 Hok i Hi). reflexivity.
    + intro m. cbn [contains]. rewrite bit_clear_spec.
      zb; cbn [andb negb]; try reflexivity; try lia. apply andb_comm.
  - destruct (Z.eqb_spec n s) as [E1|E1].
    + destruct (Z.eqb_spec n e) as [E2|E2].
      * cbn [set_bits]. split.
        -- cbn [wf bits_ok]. repeat split; try assumption; try lia.
        -- intro m. cbn [contains]. rewrite Z.testbit_0_l.
           zb; cbn [andb negb]; try reflexivity; lia.
      * cbn [set_start]. split.
        -- cbn [wf bits_ok]. repeat split; try assumption; try lia.
           eapply tree_all_impl; [|exact Hl]. cbn beta. intros; lia.
        -- intro m. cbn [contains].
           zb; cbn [andb negb]; rewrite ?Hcl by lia; try reflexivity; lia.
    + destruct (Z.eqb_spec n e) as [E2|E2].
      * cbn [set_end]. split.
        -- cbn [wf bits_ok]. repeat split; try assumption; try lia.
           eapply tree_all_impl; [|exact Hr]. cbn beta. intros; lia.
        -- intro m. cbn [contains].
           zb; cbn [andb negb]; rewrite ?Hcr by lia; try reflexivity; lia.
      * cbn [set_end]. unfold make_iset2. rewrite insert_right_wf_shape by exact Hr. split.
        -- cbn [wf bits_ok tree_all]. repeat split; try assumption; try lia.
           eapply tree_all_impl; [|exact Hr]. cbn beta. intros; lia.
        -- intro m. cbn [contains].
           zb; cbn [andb negb]; try reflexivity; lia.
Qed.

Lemma delete1_ok : forall t n, wf t ->
  wf (delete1 t n) /\ forall m, contains (delete1 t n) m = negb (m =? n) && contains t m.
Proof.
  intros t n. induction t as [|s e bits l IHl r IHr]; intro Hwf; [split; [exact I|intro m; apply eq_sym, andb_false_r]|].
  assert (Hwf' := Hwf). cbn [wf] in Hwf'. destruct Hwf' as (Hse & Hok & Hl & Hr & Hwl & Hwr).
  cbn [delete1]. destruct (Z.ltb_spec n s) as [C1|C1].
  { destruct (IHl Hwl) as [Hw Hc]. split.
    - cbn [wf]. repeat split; try assumption.
      apply (tree_all_impl (fun s' e' => True /\ e' < s)); [intros ? ? [_ H]; exact H|].
      apply delete_all; [auto | intros; lia | exact Hwl |].
      eapply tree_all_impl; [|exact Hl]. cbn beta. auto.
    - intro m. cbn [contains]. rewrite Hc. zb; cbn [andb negb]; try reflexivity; lia. }
  rewrite Z.gtb_ltb. destruct (Z.ltb_spec e n) as [C2|C2].
  { destruct (IHr Hwr) as [Hw Hc]. split.
    - cbn [wf]. repeat split; try assumption.
      apply (tree_all_impl (fun s' e' => e < s' /\ True)); [intros ? ? [H _]; exact H|].
      apply delete_all; [intros; lia | auto | exact Hwr |].
      eapply tree_all_impl; [|exact Hr]. cbn beta. auto.
    - intro m. cbn [contains]. rewrite Hc. zb; cbn [andb negb]; try reflexivity; lia. }
  apply delete1_here_ok; [exact Hwf|lia].
Qed.

Theorem delete1_wf : forall t n, wf t -> wf (delete1 t n).
Proof. intros t n H. apply (delete1_ok t n H). Qed.
Theorem delete1_contains : forall t n m, wf t -> contains (delete1 t n) m = negb (m =? n) && contains t m.
Proof. intros t n m H. apply (delete1_ok t n H). Qed.
Lemma delete1_not_nil : forall t n, t <> Nil -> delete1 t n <> Nil.
Proof.
  intros [|s e bits l r] n H; [congruence|]. cbn [delete1].
  destruct (n <? s); [discriminate|]. destruct (n >? e); [discriminate|].
  unfold delete1_here. cbn [t_bits t_start t_end]. destruct bits; [discriminate|].
  destruct (n =? s), (n =? e); discriminate.
Qed.

Example ex_delete1 : wf (delete1 ex_tree 200) /\ contains (delete1 ex_tree 200) 200 = false /\
  contains (delete1 ex_tree 200) 300 = true.
Proof.
  split; [apply delete1_wf; apply ex_tree_wf|].
  rewrite !delete1_contains by apply ex_tree_wf. vm_compute. auto.
Qed.

(* ------------------------------------------------------------------ T4: iset->list *)
Lemma zrange_n_In : forall n s m, In m (zrange_n n s) <-> s <= m < s + Z.of_nat n.
Proof.
  induction n as [|n IH]; intros s m; cbn [zrange_n In]; [lia|].
  rewrite IH. lia.
Qed.
Lemma zrange_In : forall s e m, In m (zrange s e) <-> s <= m <= e.
Proof. intros s e m. unfold zrange. rewrite zrange_n_In. lia. Qed.

Lemma zrange_n_sorted : forall n s, StronglySorted Z.lt (zrange_n n s).
Proof.
  induction n as [|n IH]; intro s; cbn [zrange_n]; constructor; [apply IH|].
  apply Forall_forall. intros x Hx. apply zrange_n_In in Hx. lia.
Qed.
Lemma zrange_sorted : forall s e, StronglySorted Z.lt (zrange s e).
Proof. intros. apply zrange_n_sorted. Qed.

Lemma sorted_map_add : forall s l, StronglySorted Z.lt l -> StronglySorted Z.lt (map (fun i => s + i) l).
Proof.
  intros s l H. induction H as [|a l Hl IH Hf]; cbn [map]; constructor; [exact IH|].
  apply Forall_forall. intros x Hx. apply in_map_iff in Hx. destruct Hx as (i & Hi & Hin).
  rewrite Forall_forall in Hf. specialize (Hf i Hin). lia.
Qed.

Lemma sorted_app : forall l1 l2, StronglySorted Z.lt l1 -> StronglySorted Z.lt l2 ->
  (forall x y, In x l1 -> In y l2 -> x < y) -> StronglySorted Z.lt (l1 ++ l2).
Proof.
  intros l1 l2 H1 H2 H. induction H1 as [|a l Hl IH Hf]; [exact H2|].
  cbn [app]. constructor.
  - apply IH. intros x y Hx Hy. apply H; [right; exact Hx|exact Hy].
  - apply Forall_app. split; [exact Hf|]. apply Forall_forall. intros y Hy. apply H; [left; reflexivity|exact Hy].
Qed.

Lemma testbit_true_range : forall b i, 0 <= b -> Z.testbit b i = true -> 0 <= i <= integer_length b - 1.
Proof.
  intros b i Hb Ht. unfold integer_length.
  destruct (Z.ltb_spec b 0) as [C|C]; [lia|].
  destruct (Z.eqb_spec b 0) as [E|E]; [subst b; rewrite Z.testbit_0_l in Ht; discriminate|].
  split.
  - destruct (Z_lt_le_dec i 0) as [Hlt|Hge]; [|exact Hge]. rewrite Z.testbit_neg_r in Ht by lia. discriminate.
  - destruct (Z_lt_le_dec (Z.log2 b) i) as [Hlt|Hge]; [|lia].
    rewrite Z.bits_above_log2 in Ht by lia. discriminate.
Qed.

Lemma testbit_xO : forall q k, Z.testbit (Zpos q~0) k = (0 <? k) && Z.testbit (Zpos q) (k - 1).
Proof.
  intros q k. rewrite Pos2Z.inj_xO. destruct (Z.ltb_spec 0 k) as [H|H]; cbn [andb].
  - replace k with (Z.succ (k - 1)) at 1 by lia. apply Z.testbit_even_succ. lia.
  - destruct (Z.eq_dec k 0) as [->|Hne]; [apply Z.testbit_even_0 | apply Z.testbit_neg_r; lia].
Qed.
Lemma testbit_xI : forall q k, Z.testbit (Zpos q~1) k = (k =? 0) || Z.testbit (Zpos q) (k - 1).
Proof.
  intros q k. rewrite Pos2Z.inj_xI. destruct (Z.eqb_spec k 0) as [->|Hne]; cbn [orb]; [apply Z.testbit_odd_0|].
  destruct (Z_lt_le_dec k 0) as [H|H]; [rewrite !Z.testbit_neg_r by lia; reflexivity|].
  replace k with (Z.succ (k - 1)) at 1 by lia. apply Z.testbit_odd_succ. lia.
Qed.
Lemma testbit_xH : forall k, Z.testbit 1 k = (k =? 0).
Proof. intros [|k|k]; reflexivity. Qed.

Lemma pos_elems_In : forall p i m, In m (pos_elems p i) <-> i <= m /\ Z.testbit (Zpos p) (m - i) = true.
Proof.
  induction p as [q IH|q IH|]; intros i m; cbn [pos_elems In].
  - rewrite IH, testbit_xI. replace (m - (i + 1)) with (m - i - 1) by lia.
    destruct (Z.eqb_spec (m - i) 0) as [E|E]; cbn [orb].
    + split; [intro; split; [lia|reflexivity]|]. intros _. left. lia.
    + split; [intros [H|[H1 H2]]; [lia|split; [lia|exact H2]] | intros [H1 H2]; right; split; [lia|exact H2]].
  - rewrite IH, testbit_xO. replace (m - (i + 1)) with (m - i - 1) by lia.
    destruct (Z.ltb_spec 0 (m - i)) as [E|E]; cbn [andb];
      [split; intros [H1 H2]; (split; [lia|exact H2])|].
    split; [intros [H1 H2]|intros [_ H]; discriminate].
    rewrite Z.testbit_neg_r in H2 by lia. discriminate.
  - rewrite testbit_xH. destruct (Z.eqb_spec (m - i) 0) as [E|E]; [|split; [lia|intros [_ H]; discriminate]].
    split; [intro; split; [lia|reflexivity]|]. intros _. left. lia.
Qed.

Lemma pos_elems_sorted : forall p i, StronglySorted Z.lt (pos_elems p i).
Proof.
  induction p as [q IH|q IH|]; intro i; cbn [pos_elems].
  - constructor; [apply IH|]. apply Forall_forall. intros x Hx. apply pos_elems_In in Hx. lia.
  - apply IH.
  - repeat constructor.
Qed.

Lemma node_elems_In : forall s e bits m, s <= e -> bits_ok s e bits ->
  (In m (node_elems s e bits) <-> nmem s e bits m = true).
Proof.
  intros s e bits m Hse Hok. unfold node_elems, nmem. destruct bits as [b|].
  - cbn [bits_ok] in Hok. destruct b as [|p|p]; [| |lia].
    + rewrite Z.testbit_0_l, andb_false_r. cbn [In]. split; [tauto|discriminate].
    + rewrite pos_elems_In. apply small_iff in Hok; [|lia]. destruct Hok as [Hb Hhi]. split.
      * intros [H1 Ht]. rewrite Ht.
        assert (m - s < e - s + 1).
        { destruct (Z_lt_le_dec (m - s) (e - s + 1)) as [Hlt|Hge]; [exact Hlt|]. rewrite (Hhi _ Hge) in Ht. discriminate. }
        zb; cbn [andb]; try reflexivity; lia.
      * intro H. apply andb_prop in H. destruct H as [H Ht]. apply andb_prop in H. split; [lia|exact Ht].
  - rewrite zrange_In. zb; cbn [andb]; split; intros; try lia; try reflexivity; discriminate.
Qed.

Lemma node_elems_sorted : forall s e bits, StronglySorted Z.lt (node_elems s e bits).
Proof.
  intros s e [[|p|p]|]; cbn [node_elems]; [constructor | apply pos_elems_sorted | constructor | apply zrange_sorted].
Qed.

Lemma contains_lt : forall t x m, wf t -> tree_all (fun _ e => e < x) t -> contains t m = true -> m < x.
Proof.
  intros t x m Hwf Ha Hc. destruct (Z_lt_le_dec m x) as [H|H]; [exact H|].
  rewrite (contains_above t x m Hwf Ha H) in Hc. discriminate.
Qed.
Lemma contains_gt : forall t x m, wf t -> tree_all (fun s _ => x < s) t -> contains t m = true -> x < m.
Proof.
  intros t x m Hwf Ha Hc. destruct (Z_lt_le_dec x m) as [H|H]; [exact H|].
  rewrite (contains_below t x m Hwf Ha H) in Hc. discriminate.
Qed.

Lemma contains_node_iff : forall s e bits l r m, wf (Node s e bits l r) ->
  (contains (Node s e bits l r) m = true <->
   contains l m = true \/ nmem s e bits m = true \/ contains r m = true).
Proof.
  intros s e bits l r m Hwf. cbn [wf] in Hwf. destruct Hwf as (Hse & Hok & Hl & Hr & Hwl & Hwr).
  cbn [contains]. split.
  - unfold nmem. zb; cbn [andb]; auto; lia.
  - intros [H|[H|H]].
    + pose proof (contains_lt l s m Hwl Hl H). zb; first [exact H | lia].
    + pose proof (nmem_range _ _ _ _ H). unfold nmem in H. revert H.
      zb; cbn [andb]; auto; lia.
    + pose proof (contains_gt r e m Hwr Hr H). zb; first [exact H | lia].
Qed.

Theorem to_list_spec : forall t, wf t ->
  StronglySorted Z.lt (to_list t) /\ forall m, In m (to_list t) <-> contains t m = true.
Proof.
  induction t as [|s e bits l IHl r IHr]; intro Hwf.
  { split; [constructor|]. intro m. cbn. split; [tauto|discriminate]. }
  assert (Hwf' := Hwf). cbn [wf] in Hwf'. destruct Hwf' as (Hse & Hok & Hl & Hr & Hwl & Hwr).
  destruct (IHl Hwl) as [Sl Il]. destruct (IHr Hwr) as [Sr Ir]. cbn [to_list]. split.
  - apply sorted_app; [exact Sl | |].
    + apply sorted_app; [apply node_elems_sorted | exact Sr |].
      intros x y Hx Hy. apply node_elems_In in Hx; [|assumption..]. apply nmem_range in Hx.
      apply Ir in Hy. pose proof (contains_gt r e y Hwr Hr Hy). lia.
    + intros x y Hx Hy. apply Il in Hx. pose proof (contains_lt l s x Hwl Hl Hx).
      apply in_app_or in Hy. destruct Hy as [Hy|Hy].
      * apply node_elems_In in Hy; [|assumption..]. apply nmem_range in Hy. lia.
      * apply Ir in Hy. pose proof (contains_gt r e y Hwr Hr Hy). lia.
  - intro m. rewrite contains_node_iff by exact Hwf. rewrite !in_app_iff, Il, Ir.
    rewrite (node_elems_In s e bits m Hse Hok). tauto.
Qed.

Example ex_to_list : to_list ex_tree = [0; 100; 200; 300; 400; 500; 510; 1000] /\
  StronglySorted Z.lt (to_list ex_tree).
Proof. split; [vm_compute; reflexivity | apply to_list_spec, ex_tree_wf]. Qed.

(* ------------------------------------------------------------------ T5: refinement of the set oracle *)
Lemma set_mem_In : forall x s, set_mem x s = true <-> In x s.
Proof.
  intros x s. induction s as [|y s IH]; cbn [set_mem In]; [split; [discriminate|tauto]|].
  rewrite orb_true_iff, IH, Z.eqb_eq. split; intros [H|H]; auto.
Qed.

Lemma bool_ext : forall a b : bool, (a = true <-> b = true) -> a = b.
Proof. intros [|] [|] H; try reflexivity; [symmetry|]; apply H; reflexivity. Qed.

Theorem contains_set_mem : forall t m, wf t -> contains t m = set_mem m (to_list t).
Proof.
  intros t m Hwf. apply bool_ext. rewrite set_mem_In. symmetry. apply to_list_spec. exact Hwf.
Qed.

Theorem adjoin1_to_list : forall t n, wf t -> t <> Nil ->
  to_list (adjoin1 t n) = set_adjoin n (to_list t).
Proof.
  intros t n Hwf Hn. destruct (adjoin1_wf t n Hwf Hn) as [Hw' _].
  apply canon_ext.
  - apply to_list_spec. exact Hw'.
  - apply canon_adjoin. apply to_list_spec. exact Hwf.
  - intro x. rewrite set_mem_adjoin, <- !contains_set_mem by assumption.
    apply adjoin1_contains; assumption.
Qed.

Theorem delete1_to_list : forall t n, wf t ->
  to_list (delete1 t n) = set_delete n (to_list t).
Proof.
  intros t n Hwf. pose proof (delete1_wf t n Hwf) as Hw'.
  apply canon_ext.
  - apply to_list_spec. exact Hw'.
  - apply canon_filter. apply to_list_spec. exact Hwf.
  - intro x. rewrite set_mem_delete, <- !contains_set_mem by assumption.
    apply delete1_contains; assumption.
Qed.

(** the two list drivers: any sequence of adjoins / deletes from a well-formed non-empty-tree start *)
Theorem adjoin_list_refines : forall ls t, wf t -> t <> Nil ->
  wf (adjoin_list t ls) /\ to_list (adjoin_list t ls) = fold_left (fun a x => set_adjoin x a) ls (to_list t).
Proof.
  unfold adjoin_list. induction ls as [|n ls IH]; intros t Hwf Hn; cbn [fold_left]; [auto|].
  destruct (adjoin1_wf t n Hwf Hn) as [H1 H2].
  rewrite <- (adjoin1_to_list t n Hwf Hn). apply IH; assumption.
Qed.
Theorem delete_list_refines : forall ls t, wf t ->
  wf (delete_list t ls) /\ to_list (delete_list t ls) = fold_left (fun a x => set_delete x a) ls (to_list t).
Proof.
  unfold delete_list. induction ls as [|n ls IH]; intros t Hwf; cbn [fold_left]; [auto|].
  rewrite <- (delete1_to_list t n Hwf). apply IH. apply delete1_wf. exact Hwf.
Qed.

Example ex_refine : to_list (delete1 (adjoin1 ex_tree 450) 100) = set_delete 100 (set_adjoin 450 (to_list ex_tree)).
Proof.
  rewrite delete1_to_list by (apply adjoin1_wf; apply ex_tree_wf).
  rewrite adjoin1_to_list by apply ex_tree_wf. reflexivity.
Qed.

(* ------------------------------------------------------------------ why iset-should-merge-right? looks at min-start *)
(** A variant of the guard that compares b's end with the START OF THE RIGHT CHILD instead of the
    minimum start below it: the root then grows over an element held deeper in the right subtree,
    which iset-contains? no longer finds. *)
Definition should_merge_right_bad (a b : tree) : bool :=
  (t_start b - t_end a <? bits_thresh) &&
  match t_right a with Nil => true | Node _ _ _ _ _ => t_end b <? t_start (t_right a) end.
Fixpoint adjoin_node_bad (a b : tree) {struct a} : tree :=
  match a with
  | Nil => Nil
  | Node a_start a_end a_bits al ar =>
      if is_empty a then adjoin_clause_empty b
      else if is_empty b then a
      else
        let b_start := t_start b in
        let b_end := t_end b in
        if b_end <? a_start then
          if should_merge_left a b then merge_left a b
          else Node a_start a_end a_bits (adjoin_child (fun c => adjoin_node_bad c b) al b) ar
        else if b_start >? a_end then
          if should_merge_right_bad a b then merge_right a b
          else Node a_start a_end a_bits al (adjoin_child (fun c => adjoin_node_bad c b) ar b)
        else if (b_start >=? a_start) && (b_end <=? a_end) then adjoin_clause_inside a b
        else a (* general case: not reached by single-point nodes *)
  end.
Definition adjoin1_bad (t : tree) (n : Z) : tree := adjoin_node_bad t (Node n n None Nil Nil).

Example bad_guard_loses_500 :
  let ls := [0; 1000; 500; 100; 200; 300; 400; 510] in
  contains (fold_left adjoin1_bad ls make_iset0) 500 = false /\
  contains (fold_left adjoin1 ls make_iset0) 500 = true /\
  to_list (fold_left adjoin1_bad ls make_iset0) = [0; 100; 200; 300; 400; 510; 500; 1000] /\
  ~ wf (fold_left adjoin1_bad ls make_iset0).
Proof.
  cbv zeta. repeat split; try (vm_compute; reflexivity).
  intro H. apply to_list_spec in H. destruct H as [_ H]. specialize (H 500).
  assert (E : contains (fold_left adjoin1_bad [0; 1000; 500; 100; 200; 300; 400; 510] make_iset0) 500 = false)
    by (vm_compute; reflexivity).
  assert (L : to_list (fold_left adjoin1_bad [0; 1000; 500; 100; 200; 300; 400; 510] make_iset0) =
              [0; 100; 200; 300; 400; 510; 500; 1000]) by (vm_compute; reflexivity).
  rewrite E, L in H. assert (F : false = true) by (apply H; cbn [In]; do 6 right; left; reflexivity).
  discriminate F.
Qed.

(* ------------------------------------------------------------------ T6: iset-size *)
Lemma zrange_n_length : forall n s, length (zrange_n n s) = n.
Proof. induction n as [|n IH]; intro s; cbn [zrange_n length]; [reflexivity|]. rewrite IH. reflexivity. Qed.

Lemma pos_elems_length : forall p i, Z.of_nat (length (pos_elems p i)) = popcount_pos p.
Proof.
  induction p as [q IH|q IH|]; intro i; cbn [pos_elems popcount_pos length]; [|apply IH|reflexivity].
  rewrite Nat2Z.inj_succ, IH. lia.
Qed.

Theorem size_spec : forall t, wf t -> iset_size t = Z.of_nat (length (to_list t)).
Proof.
  induction t as [|s e bits l IHl r IHr]; intro Hwf; [reflexivity|].
  cbn [wf] in Hwf. destruct Hwf as (Hse & Hok & Hl & Hr & Hwl & Hwr).
  cbn [iset_size to_list]. rewrite !app_length, !Nat2Z.inj_add, <- (IHl Hwl), <- (IHr Hwr).
  unfold node_size. cbn [t_bits t_start t_end].
  assert (E : Z.of_nat (length (node_elems s e bits)) =
              match bits with Some b => bit_count b | None => 1 + (e - s) end).
  { destruct bits as [[|p|p]|]; cbn [node_elems bit_count length]; try reflexivity.
    - apply pos_elems_length.
    - unfold zrange. rewrite zrange_n_length. lia. }
  rewrite E. lia.
Qed.

Example ex_size : iset_size ex_tree = 8.
Proof. rewrite size_spec by apply ex_tree_wf. vm_compute. reflexivity. Qed.

(* ------------------------------------------------------------------ T7 (continued): adjoin_node_top, iset-union2! *)
(** the recursive call of the general case on a itself only meets the two non-recursive clauses *)
Theorem adjoin_node_top_eq : forall a b, a <> Nil -> t_start b <= t_end b ->
  is_empty a = true \/ (t_start a <= t_start b /\ t_end b <= t_end a) ->
  adjoin_node a b = adjoin_node_top a b.
Proof.
  intros [|s e bits l r] b Hn Hb H; [congruence|]. rewrite adjoin_node_eq. cbv zeta. unfold adjoin_node_top.
  destruct (is_empty (Node s e bits l r)) eqn:Ea; [reflexivity|].
  destruct (is_empty b); [reflexivity|].
  destruct H as [H|[H1 H2]]; [discriminate|]. cbn [t_start t_end] in *.
  destruct (Z.ltb_spec (t_end b) s) as [C1|C1]; [lia|].
  rewrite Z.gtb_ltb. destruct (Z.ltb_spec e (t_start b)) as [C2|C2]; [lia|].
  rewrite Z.geb_leb. destruct (Z.leb_spec s (t_start b)); [|lia]. destruct (Z.leb_spec (t_end b) e); [|lia].
  reflexivity.
Qed.

(* iset-union2!: adjoin every node of b *)
Lemma contains_node_bool : forall s e bits l r m, wf (Node s e bits l r) ->
  contains (Node s e bits l r) m = contains l m || nmem s e bits m || contains r m.
Proof.
  intros. apply bool_ext. rewrite contains_node_iff by assumption. rewrite !orb_true_iff. tauto.
Qed.

Definition node_mem (m : Z) (n : tree) : bool := nmem (t_start n) (t_end n) (t_bits n) m.

Lemma contains_nodes : forall b m, wf b -> contains b m = existsb (node_mem m) (nodes b).
Proof.
  induction b as [|s e bits l IHl r IHr]; intros m Hwf; [reflexivity|].
  rewrite contains_node_bool by exact Hwf.
  cbn [wf] in Hwf. destruct Hwf as (Hse & Hok & Hl & Hr & Hwl & Hwr).
  cbn [nodes]. rewrite existsb_app. cbn [existsb]. rewrite <- IHl, <- IHr by assumption.
  unfold node_mem at 1. cbn [t_start t_end t_bits]. rewrite orb_assoc. reflexivity.
Qed.

Lemma nodes_ok : forall b, wf b -> Forall (fun n => n <> Nil /\ node_ok n) (nodes b).
Proof.
  induction b as [|s e bits l IHl r IHr]; intro Hwf; [constructor|].
  cbn [wf] in Hwf. destruct Hwf as (Hse & Hok & Hl & Hr & Hwl & Hwr).
  cbn [nodes]. apply Forall_app. split; [auto|]. constructor; [|auto].
  split; [discriminate|]. split; assumption.
Qed.

Lemma fold_adjoin_node_ok : forall ns a, wf a -> a <> Nil -> Forall (fun n => n <> Nil /\ node_ok n) ns ->
  wf (fold_left adjoin_node ns a) /\ fold_left adjoin_node ns a <> Nil /\
  forall m, contains (fold_left adjoin_node ns a) m = contains a m || existsb (node_mem m) ns.
Proof.
  induction ns as [|n ns IH]; intros a Hwf Hn Hns; cbn [fold_left existsb].
  - split; [exact Hwf|]. split; [exact Hn|]. intro m. rewrite orb_false_r. reflexivity.
  - inversion Hns as [|? ? [Hn1 Hn2] Hns']. subst.
    destruct (adjoin_node_wf a n Hwf Hn Hn1 Hn2) as [W N].
    destruct (IH (adjoin_node a n) W N Hns') as (W' & N' & C'). split; [exact W'|]. split; [exact N'|].
    intro m. rewrite C', (adjoin_node_contains a n m Hwf Hn Hn1 Hn2).
    destruct n as [|bs be bb bl br]; [congruence|].
    unfold copy_node, node_mem. cbn [t_start t_end t_bits]. rewrite nmem_contains.
    destruct (nmem bs be bb m), (contains a m); reflexivity.
Qed.

Theorem union2_wf : forall a b, wf a -> a <> Nil -> wf b -> wf (union2 a b) /\ union2 a b <> Nil.
Proof.
  intros a b Ha Hn Hb. destruct (fold_adjoin_node_ok (nodes b) a Ha Hn (nodes_ok b Hb)) as (W & N & _). auto.
Qed.
Theorem union2_contains : forall a b m, wf a -> a <> Nil -> wf b ->
  contains (union2 a b) m = contains a m || contains b m.
Proof.
  intros a b m Ha Hn Hb. destruct (fold_adjoin_node_ok (nodes b) a Ha Hn (nodes_ok b Hb)) as (_ & _ & C).
  unfold union2. rewrite C, <- contains_nodes by exact Hb. reflexivity.
Qed.
Theorem union2_to_list : forall a b, wf a -> a <> Nil -> wf b ->
  to_list (union2 a b) = set_union (to_list a) (to_list b).
Proof.
  intros a b Ha Hn Hb. destruct (union2_wf a b Ha Hn Hb) as [W _]. apply canon_ext.
  - apply to_list_spec. exact W.
  - apply canon_union. apply to_list_spec. exact Ha.
  - intro x. rewrite set_mem_union, <- !contains_set_mem by assumption. apply union2_contains; assumption.
Qed.

Definition ex_tree2 : tree := fold_left adjoin1 [90; 250; 505; 2000; 350] (Node 350 700 None Nil Nil).
Example ex_tree2_wf : wf ex_tree2.
Proof. apply wf_adjoin_list; [cbn; repeat split; lia | discriminate]. Qed.
Example ex_union2 : wf (union2 ex_tree ex_tree2) /\
  to_list (union2 ex_tree ex_tree2) = set_union (to_list ex_tree) (to_list ex_tree2) /\
  contains (union2 ex_tree ex_tree2) 600 = true /\ contains (union2 ex_tree ex_tree2) 301 = false.
Proof.
  pose proof ex_tree_wf as [W1 N1]. pose proof ex_tree2_wf as W2.
  split; [apply union2_wf; assumption|].
  split; [apply union2_to_list; assumption|].
  rewrite (union2_contains ex_tree ex_tree2 600 W1 N1 W2), (union2_contains ex_tree ex_tree2 301 W1 N1 W2).
  split; vm_compute; reflexivity.
Qed.
(* the general (node-split) clause is exercised: a range node straddling the root of ex_tree *)
Example ex_split : let b := Node 300 1200 None Nil Nil in
  wf (adjoin_node ex_tree b) /\ contains (adjoin_node ex_tree b) 1100 = true /\
  contains (adjoin_node ex_tree b) 299 = false /\
  adjoin_node ex_tree b <> adjoin_node_top ex_tree b.
Proof.
  cbv zeta. split; [apply adjoin_node_wf; [apply ex_tree_wf | apply ex_tree_wf | discriminate | unfold node_ok; cbn [t_start t_end t_bits bits_ok]; split; [lia|exact I]]|].
  split; [vm_compute; reflexivity|]. split; [vm_compute; reflexivity|]. vm_compute. discriminate.
Qed.

Print Assumptions adjoin1_wf.
Print Assumptions adjoin1_contains.
Print Assumptions delete1_wf.
Print Assumptions delete1_contains.
Print Assumptions to_list_spec.
Print Assumptions adjoin1_to_list.
Print Assumptions delete1_to_list.
Print Assumptions contains_set_mem.
Print Assumptions size_spec.
Print Assumptions adjoin_node_wf.
Print Assumptions adjoin_node_contains.
Print Assumptions adjoin_node_top_eq.
Print Assumptions union2_wf.
Print Assumptions union2_contains.
Print Assumptions union2_to_list.
Print Assumptions bad_guard_loses_500.
