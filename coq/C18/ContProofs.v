(** C18: algebraic laws of the abstract container models (the oracles the libraries are run against). *)
From ChibiV Require Import C18.SpecCont.
Local Open Scope Z_scope.

(* ------------------------------------------------------------------ sets *)
Lemma set_mem_adjoin : forall y x s, set_mem y (set_adjoin x s) = (y =? x) || set_mem y s.
Proof.
  intros y x s. induction s as [|z s IH]; [cbn [set_adjoin set_mem]; reflexivity|].
  cbn [set_adjoin]. destruct (x <? z) eqn:E1; [reflexivity|].
  destruct (x =? z) eqn:E2.
  - apply Z.eqb_eq in E2. subst z. cbn [set_mem]. destruct (y =? x); reflexivity.
  - cbn [set_mem]. rewrite IH. destruct (y =? z), (y =? x); reflexivity.
Qed.

Lemma set_mem_filter : forall (p : Z -> bool) y s, set_mem y (filter p s) = p y && set_mem y s.
Proof.
  intros p y s. induction s as [|z s IH]; [cbn; rewrite andb_false_r; reflexivity|].
  cbn [filter]. destruct (p z) eqn:Pz; cbn [set_mem]; rewrite IH.
  - destruct (y =? z) eqn:E; [apply Z.eqb_eq in E; subst z; rewrite Pz; reflexivity|].
    reflexivity.
  - destruct (y =? z) eqn:E; [apply Z.eqb_eq in E; subst z; rewrite Pz; reflexivity|].
    reflexivity.
Qed.

Lemma set_mem_delete : forall y x s, set_mem y (set_delete x s) = negb (y =? x) && set_mem y s.
Proof. intros. unfold set_delete. apply set_mem_filter. Qed.

Lemma set_mem_union : forall y t s, set_mem y (set_union s t) = set_mem y s || set_mem y t.
Proof.
  intros y t. unfold set_union. induction t as [|x t IH]; intro s; cbn [fold_left set_mem].
  - rewrite orb_false_r. reflexivity.
  - rewrite IH, set_mem_adjoin. destruct (y =? x), (set_mem y s), (set_mem y t); reflexivity.
Qed.

Lemma set_mem_inter : forall y s t, set_mem y (set_inter s t) = set_mem y s && set_mem y t.
Proof. intros. unfold set_inter. rewrite set_mem_filter. apply andb_comm. Qed.
Lemma set_mem_diff : forall y s t, set_mem y (set_diff s t) = set_mem y s && negb (set_mem y t).
Proof. intros. unfold set_diff. rewrite set_mem_filter. apply andb_comm. Qed.
Lemma set_mem_xor : forall y s t, set_mem y (set_xor s t) = xorb (set_mem y s) (set_mem y t).
Proof.
  intros. unfold set_xor. rewrite set_mem_union, !set_mem_diff.
  destruct (set_mem y s), (set_mem y t); reflexivity.
Qed.

(** canonical form: strictly increasing *)
Definition canon (s : list Z) : Prop := StronglySorted Z.lt s.

Lemma canon_adjoin : forall x s, canon s -> canon (set_adjoin x s).
Proof.
  intros x s H. induction H as [|z s Hs IH Hf]; [repeat constructor|].
  cbn [set_adjoin]. destruct (x <? z) eqn:E1.
  - apply Z.ltb_lt in E1. constructor; [constructor; assumption|].
    constructor; [exact E1|]. eapply Forall_impl; [|exact Hf]. intros; lia.
  - destruct (x =? z) eqn:E2; [constructor; assumption|].
    apply Z.ltb_ge in E1. apply Z.eqb_neq in E2.
    constructor; [exact IH|].
    apply Forall_forall. intros w Hw.
    assert (Hm : set_mem w (set_adjoin x s) = true).
    { clear - Hw. induction (set_adjoin x s) as [|u l IHl]; [destruct Hw|].
      cbn [set_mem]. destruct Hw as [->|Hw]; [rewrite Z.eqb_refl; reflexivity | rewrite (IHl Hw); apply orb_true_r]. }
    rewrite set_mem_adjoin in Hm. apply orb_prop in Hm. destruct Hm as [Hm|Hm].
    + apply Z.eqb_eq in Hm. lia.
    + rewrite Forall_forall in Hf. apply Hf.
      clear - Hm. induction s as [|u l IHl]; [discriminate|].
      cbn [set_mem] in Hm. apply orb_prop in Hm. destruct Hm as [Hm|Hm]; [apply Z.eqb_eq in Hm; left; congruence | right; auto].
Qed.

Lemma canon_filter : forall (p : Z -> bool) s, canon s -> canon (filter p s).
Proof.
  intros p s H. induction H as [|z s Hs IH Hf]; [constructor|].
  cbn [filter]. destruct (p z); [|exact IH].
  constructor; [exact IH|]. apply Forall_forall. intros w Hw. apply filter_In in Hw.
  rewrite Forall_forall in Hf. apply Hf. exact (proj1 Hw).
Qed.

Lemma canon_union : forall t s, canon s -> canon (set_union s t).
Proof.
  unfold set_union. induction t as [|x t IH]; intros s H; [exact H|].
  cbn [fold_left]. apply IH, canon_adjoin, H.
Qed.

Lemma canon_mem_gt : forall a s x, canon (a :: s) -> set_mem x s = true -> a < x.
Proof.
  intros a s x H Hm. apply StronglySorted_inv in H. destruct H as [_ Hf].
  rewrite Forall_forall in Hf. apply Hf.
  induction s as [|u l IHl]; [discriminate|].
  cbn [set_mem] in Hm. apply orb_prop in Hm. destruct Hm as [Hm|Hm]; [apply Z.eqb_eq in Hm; left; congruence|].
  right. apply IHl; [|exact Hm]. intros w Hw. apply Hf. right. exact Hw.
Qed.

(** two canonical lists with the same members are the same list: comparing dumps compares sets *)
Lemma canon_ext : forall s t, canon s -> canon t -> (forall x, set_mem x s = set_mem x t) -> s = t.
Proof.
  induction s as [|a s IH]; intros t Hs Ht Hm.
  - destruct t as [|b t]; [reflexivity|]. specialize (Hm b). cbn [set_mem] in Hm. rewrite Z.eqb_refl in Hm. discriminate.
  - destruct t as [|b t]; [specialize (Hm a); cbn [set_mem] in Hm; rewrite Z.eqb_refl in Hm; discriminate|].
    assert (Hab : a = b).
    { pose proof (Hm a) as H1. pose proof (Hm b) as H2. cbn [set_mem] in H1, H2. rewrite Z.eqb_refl in H1, H2.
      cbn [orb] in H1, H2.
      destruct (a =? b) eqn:E; [apply Z.eqb_eq in E; exact E|].
      rewrite (Z.eqb_sym b a), E in H2. cbn [orb] in H1, H2.
      symmetry in H1. pose proof (canon_mem_gt b t a Ht H1). pose proof (canon_mem_gt a s b Hs H2). lia. }
    subst b. f_equal. apply IH.
    + apply StronglySorted_inv in Hs. exact (proj1 Hs).
    + apply StronglySorted_inv in Ht. exact (proj1 Ht).
    + intro x. specialize (Hm x). cbn [set_mem] in Hm.
      destruct (x =? a) eqn:E; [|exact Hm].
      apply Z.eqb_eq in E. subst x.
      destruct (set_mem a s) eqn:E1; [pose proof (canon_mem_gt a s a Hs E1); lia|].
      destruct (set_mem a t) eqn:E2; [pose proof (canon_mem_gt a t a Ht E2); lia|]. reflexivity.
Qed.

(* ------------------------------------------------------------------ mappings *)
Lemma map_ref_set : forall j k v m, map_ref j (map_set k v m) = if j =? k then Some v else map_ref j m.
Proof.
  intros j k v m. induction m as [|[k' v'] m IH]; [cbn; reflexivity|].
  cbn [map_set]. destruct (k <? k') eqn:E1; [cbn [map_ref]; reflexivity|].
  destruct (k =? k') eqn:E2.
  - apply Z.eqb_eq in E2. subst k'. cbn [map_ref]. destruct (j =? k); reflexivity.
  - cbn [map_ref]. rewrite IH. destruct (j =? k') eqn:E3; [|reflexivity].
    apply Z.eqb_eq in E3. subst k'. rewrite Z.eqb_sym, E2. reflexivity.
Qed.

Lemma map_ref_delete : forall j k m, map_ref j (map_delete k m) = if j =? k then None else map_ref j m.
Proof.
  intros j k m. unfold map_delete. induction m as [|[k' v'] m IH]; [cbn; destruct (j =? k); reflexivity|].
  cbn [filter fst]. destruct (k' =? k) eqn:E; cbn [negb].
  - apply Z.eqb_eq in E. subst k'. rewrite IH. cbn [map_ref]. destruct (j =? k); reflexivity.
  - cbn [map_ref]. rewrite IH. destruct (j =? k') eqn:E3; [|reflexivity].
    apply Z.eqb_eq in E3. subst k'. rewrite E. reflexivity.
Qed.

Lemma map_ref_adjoin : forall j k v m,
  map_ref j (map_adjoin k v m) = match map_ref j m with Some w => Some w | None => if j =? k then Some v else None end.
Proof.
  intros j k v m. unfold map_adjoin, map_has. destruct (map_ref k m) eqn:E.
  - destruct (map_ref j m) eqn:Ej; [reflexivity|].
    destruct (j =? k) eqn:E2; [apply Z.eqb_eq in E2; subst j; congruence | reflexivity].
  - rewrite map_ref_set. destruct (j =? k) eqn:E2; [apply Z.eqb_eq in E2; subst j; rewrite E; reflexivity|].
    destruct (map_ref j m); reflexivity.
Qed.

Lemma map_ref_union : forall j m2 m1,
  map_ref j (map_union m1 m2) = match map_ref j m1 with Some w => Some w | None => map_ref j m2 end.
Proof.
  intros j m2. unfold map_union. induction m2 as [|[k v] m2 IH]; intro m1; cbn [fold_left fst snd].
  - cbn [map_ref]. destruct (map_ref j m1); reflexivity.
  - rewrite IH, map_ref_adjoin. cbn [map_ref]. destruct (map_ref j m1); [reflexivity|].
    destruct (j =? k); reflexivity.
Qed.

(* ------------------------------------------------------------------ bags *)
Lemma bag_count_put : forall y x n b, bag_count y (bag_put x n b) = if y =? x then n else bag_count y b.
Proof.
  intros y x n b. induction b as [|[z c] b IH]; [cbn; reflexivity|].
  cbn [bag_put]. destruct (x <? z) eqn:E1; [cbn [bag_count]; reflexivity|].
  destruct (x =? z) eqn:E2.
  - apply Z.eqb_eq in E2. subst z. cbn [bag_count]. destruct (y =? x); reflexivity.
  - cbn [bag_count]. rewrite IH. destruct (y =? z) eqn:E3; [|reflexivity].
    apply Z.eqb_eq in E3. subst z. rewrite Z.eqb_sym, E2. reflexivity.
Qed.

Lemma bag_count_drop : forall y x b, bag_count y (bag_drop x b) = if y =? x then 0 else bag_count y b.
Proof.
  intros y x b. unfold bag_drop. induction b as [|[z c] b IH]; [cbn; destruct (y =? x); reflexivity|].
  cbn [filter fst]. destruct (z =? x) eqn:E; cbn [negb].
  - apply Z.eqb_eq in E. subst z. rewrite IH. cbn [bag_count]. destruct (y =? x); reflexivity.
  - cbn [bag_count]. rewrite IH. destruct (y =? z) eqn:E3; [|reflexivity].
    apply Z.eqb_eq in E3. subst z. rewrite E. reflexivity.
Qed.

(** bag-increment!/bag-decrement!/bag-adjoin: the count moves by n, never below zero, others unchanged *)
Lemma bag_count_incr : forall y x n b, (forall z, 0 <= bag_count z b) ->
  bag_count y (bag_incr x n b) = if y =? x then Z.max 0 (bag_count x b + n) else bag_count y b.
Proof.
  intros y x n b Hb. unfold bag_incr. destruct (bag_count x b + n >? 0) eqn:E.
  - rewrite bag_count_put. destruct (y =? x); [|reflexivity]. apply Z.gtb_lt in E. lia.
  - rewrite bag_count_drop. destruct (y =? x); [|reflexivity].
    assert (bag_count x b + n <= 0) by (destruct (Z.gtb_spec (bag_count x b + n) 0); [discriminate | lia]). lia.
Qed.

(* ------------------------------------------------------------------ sequences *)
Lemma seq_set_same : forall l i x d, (i < length l)%nat -> nth i (seq_set i x l) d = x.
Proof.
  induction l as [|y l IH]; intros i x d H; [cbn in H; lia|].
  destruct i; [reflexivity|]. cbn [seq_set nth]. apply IH. cbn [length] in H. lia.
Qed.
Lemma seq_set_other : forall l i j x d, i <> j -> nth j (seq_set i x l) d = nth j l d.
Proof.
  induction l as [|y l IH]; intros i j x d H; [destruct i; reflexivity|].
  destruct i, j; try reflexivity; [congruence|]. cbn [seq_set nth]. apply IH. congruence.
Qed.
Lemma seq_set_length : forall l i x, length (seq_set i x l) = length l.
Proof. induction l as [|y l IH]; intros [|i] x; cbn [seq_set length]; auto. Qed.

(** queue / deque laws on the list model *)
Lemma deque_remove_back_add_back : forall (l : list Z) x, removelast (l ++ [x]) = l /\ last (l ++ [x]) 0 = x.
Proof. intros. split; [apply removelast_last | apply last_last]. Qed.

(** FIFO: what is added at the back comes out at the front in the order it went in *)
Lemma fifo : forall (q added : list Z), firstn (length q + length added) (q ++ added) = q ++ added /\
  skipn (length q) (q ++ added) = added.
Proof.
  intros. split.
  - rewrite <- app_length. apply firstn_all.
  - rewrite skipn_app, skipn_all, Nat.sub_diag. reflexivity.
Qed.

(** persistence is trivial for the spec: an operation is a function of the versions it is given *)
Lemma old_version_unchanged : forall (A B : Type) (op : A -> B) (old : A), let new := op old in old = old.
Proof. reflexivity. Qed.

Example set_example : set_xor (set_of_list [3; 1; 2; 3]) (set_of_list [2; 5]) = [1; 3; 5].
Proof. reflexivity. Qed.
Example map_example : map_ref 2 (map_union (map_set 2 7 []) (map_set 2 9 (map_set 1 1 []))) = Some 7.
Proof. reflexivity. Qed.
Example bag_example : bag_sum (bag_of_list [1; 1; 2]) (bag_of_list [1; 3]) = [(1, 3); (2, 1); (3, 1)].
Proof. reflexivity. Qed.
