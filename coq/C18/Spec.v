(** C18 SPEC for the sort procedures: what "ordered, permutation, stable" mean, and the
    reference stable sort (insertion sort) that is extracted and used as the oracle. *)
From Coq Require Export List Bool Arith Lia Permutation Sorted.
Export ListNotations.

Section SortSpec.
  Variable A : Type.
  Variable lt : A -> A -> bool.          (* the caller's [less] composed with [key] *)

  (** a <= b in the sense the SRFIs use for "sorted": not (b < a) *)
  Definition le (a b : A) : Prop := lt b a = false.
  (** a and b are tied (incomparable) *)
  Definition equivb (a b : A) : bool := negb (lt a b) && negb (lt b a).

  (** "any consistent ordering": a strict weak order, given as asymmetry + negative transitivity *)
  Definition strict_weak_order : Prop :=
    (forall x y, lt x y = true -> lt y x = false) /\
    (forall x y z, lt x y = false -> lt y z = false -> lt x z = false).

  (** stability: the elements tied with any x appear in the output in their input order *)
  Definition stable_of (inp out : list A) : Prop :=
    forall x, filter (equivb x) out = filter (equivb x) inp.

  Definition is_stable_sort (inp out : list A) : Prop :=
    Permutation inp out /\ StronglySorted le out /\ stable_of inp out.

  (** merge contract (SRFI 95 merge, SRFI 132 list-merge / vector-merge): for sorted inputs the
      result is the stable sort of l1 ++ l2, i.e. on ties the elements of l1 come first *)
  Definition is_stable_merge (l1 l2 out : list A) : Prop := is_stable_sort (l1 ++ l2) out.

  (** reference: stable insertion sort *)
  Fixpoint insert (x : A) (l : list A) : list A :=
    match l with
    | [] => [x]
    | y :: l' => if lt y x then y :: insert x l' else x :: l
    end.
  Definition ssort (l : list A) : list A := fold_right insert [] l.

  (** executable checkers used by the driver on results whose order among ties is free
      (SRFI 132 list-sort / vector-sort need not be stable) *)
  Fixpoint sortedb (l : list A) : bool :=
    match l with
    | a :: (b :: _) as t => negb (lt b a) && sortedb t
    | _ => true
    end.
End SortSpec.

Arguments le {A} lt a b.
Arguments equivb {A} lt a b.
Arguments strict_weak_order {A} lt.
Arguments stable_of {A} lt inp out.
Arguments is_stable_sort {A} lt inp out.
Arguments is_stable_merge {A} lt l1 l2 out.
Arguments insert {A} lt x l.
Arguments ssort {A} lt l.
Arguments sortedb {A} lt l.
