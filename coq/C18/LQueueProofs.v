(** C18 PROOFS about the SRFI 117 list-queue model C18/LQueue.v: every constructor and mutator of
    lib/srfi/117/queue.scm keeps the representation invariant [last = (last-pair list)] and refines
    the list operation it denotes; observers read the list; an operation on one queue leaves every
    queue with disjoint pairs alone (frame); what goes wrong when two queues share pairs. *)
From Coq Require Import List Arith Bool ZArith Lia.
From ChibiV Require Import C18.LQueue.
Import ListNotations.

Set Implicit Arguments.

(** * List segments

    [lseg h p t locs xs]: in heap [h] the cdr chain that starts at [p] reaches [t] after exactly the
    pairs at locations [locs], whose cars are [xs].  A Scheme list is a segment that ends in '(). *)
Inductive lseg (h : heap) : ptr -> ptr -> list loc -> list Z -> Prop :=
| lseg_nil : forall t, lseg h t t [] []
| lseg_cons : forall l a d t locs xs,
    nth_error h l = Some (a, d) -> lseg h d t locs xs -> lseg h (PPair l) t (l :: locs) (a :: xs).

(** queue [q] occupies the pairs [locs] of [h], in this order, and denotes the list [xs] *)
Definition lq_repr (h : heap) (q : lq) (locs : list loc) (xs : list Z) : Prop :=
  lseg h (q_first q) PNil locs xs /\ q_last q = last_ptr locs.

(** THE REPRESENTATION INVARIANT: the [list] field is a finite (hence acyclic) chain inside the
    heap and the [last] field is its last pair, '() iff the chain is empty *)
Definition lq_wf (h : heap) (q : lq) : Prop := exists locs xs, lq_repr h q locs xs.

(** [q] is a well-formed queue of [h] that denotes [xs] *)
Definition lq_is (h : heap) (q : lq) (xs : list Z) : Prop := lq_wf h q /\ lq_list h q = Some xs.

(** the cells of [h] outside [locs] are the same in [h'] (and [h'] is not shorter) *)
Definition same_outside (h h' : heap) (locs : list loc) : Prop :=
  forall l, l < length h -> ~ In l locs -> nth_error h' l = nth_error h l.

Definition disjoint (a b : list loc) : Prop := forall l, In l a -> ~ In l b.

(** every location is one of the old ones or fresh *)
Definition old_or_fresh (h : heap) (locs locs' : list loc) : Prop :=
  forall l, In l locs' -> In l locs \/ length h <= l.

(** * Heap lemmas *)

Lemma lqp_length_upd : forall h l c, length (h_upd h l c) = length h.
Proof.
  intros h. induction h as [|x h IH]; intros l c; [reflexivity|].
  destruct l as [|l]; cbn [h_upd length]; [reflexivity|]. rewrite IH. reflexivity.
Qed.

Lemma lqp_upd_same : forall h l c, l < length h -> nth_error (h_upd h l c) l = Some c.
Proof.
  intros h. induction h as [|x h IH]; intros l c Hl; cbn [length] in Hl; [lia|].
  destruct l as [|l]; cbn [h_upd nth_error]; [reflexivity|]. apply IH. lia.
Qed.

Lemma lqp_upd_other : forall h l c l', l <> l' -> nth_error (h_upd h l c) l' = nth_error h l'.
Proof.
  intros h. induction h as [|x h IH]; intros l c l' Hne; [reflexivity|].
  destruct l as [|l]; destruct l' as [|l']; cbn [h_upd nth_error]; try reflexivity; try lia.
  apply IH. lia.
Qed.

Lemma lqp_nth_lt : forall (h : heap) l c, nth_error h l = Some c -> l < length h.
Proof. intros h l c H. apply nth_error_Some. rewrite H. discriminate. Qed.

Lemma lqp_nth_ext : forall (h e : heap) l, l < length h -> nth_error (h ++ e) l = nth_error h l.
Proof. intros h e l Hl. apply nth_error_app1. exact Hl. Qed.

Lemma lqp_nth_fresh : forall (h : heap) c, nth_error (h ++ [c]) (length h) = Some c.
Proof. intros h c. rewrite nth_error_app2 by lia. rewrite Nat.sub_diag. reflexivity. Qed.

(** * Segment lemmas *)

Lemma lqp_lseg_length : forall h p t locs xs, lseg h p t locs xs -> length locs = length xs.
Proof. intros h p t locs xs H. induction H; cbn [length]; congruence. Qed.

Lemma lqp_lseg_bound : forall h p t locs xs, lseg h p t locs xs -> forall l, In l locs -> l < length h.
Proof.
  intros h p t locs xs H. induction H as [|l a d t locs xs Hn H IH]; intros l' Hin; [destruct Hin|].
  destruct Hin as [<-|Hin]; [eapply lqp_nth_lt; eassumption|auto].
Qed.

(** the general frame lemma: a segment only depends on its own cells *)
Lemma lqp_lseg_frame : forall h h' p t locs xs,
  lseg h p t locs xs -> (forall l, In l locs -> nth_error h' l = nth_error h l) -> lseg h' p t locs xs.
Proof.
  intros h h' p t locs xs H. induction H as [|l a d t locs xs Hn H IH]; intros Hsame; [constructor|].
  apply lseg_cons with (d := d).
  - rewrite Hsame by (left; reflexivity). exact Hn.
  - apply IH. intros l' Hin. apply Hsame. right. exact Hin.
Qed.

Lemma lqp_lseg_ext : forall h e p t locs xs, lseg h p t locs xs -> lseg (h ++ e) p t locs xs.
Proof.
  intros h e p t locs xs H. eapply lqp_lseg_frame; [exact H|].
  intros l Hin. apply lqp_nth_ext. eapply lqp_lseg_bound; eassumption.
Qed.

Lemma lqp_lseg_upd : forall h l c p t locs xs,
  lseg h p t locs xs -> ~ In l locs -> lseg (h_upd h l c) p t locs xs.
Proof.
  intros h l c p t locs xs H Hnin. eapply lqp_lseg_frame; [exact H|].
  intros l' Hin. apply lqp_upd_other. intros ->. contradiction.
Qed.

Lemma lqp_lseg_same_outside : forall h h' own p t locs xs,
  lseg h p t locs xs -> same_outside h h' own -> disjoint own locs -> lseg h' p t locs xs.
Proof.
  intros h h' own p t locs xs H Hso Hdis. eapply lqp_lseg_frame; [exact H|].
  intros l Hin. apply Hso; [eapply lqp_lseg_bound; eassumption|].
  intros Hown. exact (Hdis l Hown Hin).
Qed.

Lemma lqp_lseg_app : forall h p t u l1 x1 l2 x2,
  lseg h p t l1 x1 -> lseg h t u l2 x2 -> lseg h p u (l1 ++ l2) (x1 ++ x2).
Proof.
  intros h p t u l1 x1 l2 x2 H1 H2. induction H1 as [|l a d t l1 x1 Hn H1 IH]; [exact H2|].
  cbn [app]. econstructor; [exact Hn|auto].
Qed.

Lemma lqp_lseg_nil_inv : forall h t locs xs, lseg h PNil t locs xs -> t = PNil /\ locs = [] /\ xs = [].
Proof. intros h t locs xs H. inversion H; subst. auto. Qed.

Lemma lqp_lseg_pair_inv : forall h l locs xs,
  lseg h (PPair l) PNil locs xs ->
  exists a d locs' xs', nth_error h l = Some (a, d) /\ lseg h d PNil locs' xs' /\
                        locs = l :: locs' /\ xs = a :: xs'.
Proof. intros h l locs xs H. inversion H; subst. eauto 8. Qed.

Lemma lqp_lseg_func : forall h p l1 x1,
  lseg h p PNil l1 x1 -> forall l2 x2, lseg h p PNil l2 x2 -> l1 = l2 /\ x1 = x2.
Proof.
  intros h p l1 x1 H. remember PNil as t eqn:Ht.
  induction H as [|l a d t l1 x1 Hn H IH]; intros l2 x2 H2; subst.
  - apply lqp_lseg_nil_inv in H2. destruct H2 as (_ & -> & ->). auto.
  - apply lqp_lseg_pair_inv in H2. destruct H2 as (a' & d' & l2' & x2' & Hn' & H2 & -> & ->).
    rewrite Hn in Hn'. inversion Hn'; subst.
    destruct (IH eq_refl _ _ H2) as [-> ->]. auto.
Qed.

Lemma lqp_lseg_suffix : forall h p locs xs,
  lseg h p PNil locs xs -> forall l, In l locs ->
  exists locs' xs', lseg h (PPair l) PNil locs' xs' /\ length locs' <= length locs.
Proof.
  intros h p locs xs H. remember PNil as t eqn:Ht.
  induction H as [|l a d t locs xs Hn H IH]; intros l' Hin; subst; [destruct Hin|].
  destruct Hin as [<-|Hin].
  - exists (l :: locs), (a :: xs). split; [econstructor; eassumption|lia].
  - destruct (IH eq_refl _ Hin) as (locs' & xs' & H' & Hlen). exists locs', xs'.
    split; [exact H'|cbn [length]; lia].
Qed.

(** a list that ends in '() never visits a pair twice *)
Lemma lqp_lseg_NoDup : forall h p locs xs, lseg h p PNil locs xs -> NoDup locs.
Proof.
  intros h p locs xs H. remember PNil as t eqn:Ht.
  induction H as [|l a d t locs xs Hn H IH]; subst; constructor; [|auto].
  intros Hin. destruct (lqp_lseg_suffix H _ Hin) as (locs' & xs' & H' & Hlen).
  assert (Hfull : lseg h (PPair l) PNil (l :: locs) (a :: xs)) by (econstructor; eassumption).
  destruct (lqp_lseg_func Hfull H') as [Heq _]. subst locs'. cbn [length] in Hlen. lia.
Qed.

Lemma lqp_NoDup_bounded : forall (locs : list nat) n,
  NoDup locs -> (forall l, In l locs -> l < n) -> length locs <= n.
Proof.
  intros locs n Hnd Hb. rewrite <- (seq_length n 0). apply NoDup_incl_length; [exact Hnd|].
  intros l Hin. apply in_seq. specialize (Hb l Hin). lia.
Qed.

Lemma lqp_lseg_short : forall h p locs xs, lseg h p PNil locs xs -> length locs <= length h.
Proof.
  intros h p locs xs H. apply lqp_NoDup_bounded; [eapply lqp_lseg_NoDup; eassumption|].
  eapply lqp_lseg_bound; eassumption.
Qed.

Lemma lqp_lseg_snoc : forall h p l a locs xs,
  lseg h p (PPair l) locs xs -> nth_error h l = Some (a, PNil) ->
  lseg h p PNil (locs ++ [l]) (xs ++ [a]).
Proof.
  intros h p l a locs xs H Hn. eapply lqp_lseg_app; [exact H|]. econstructor; [exact Hn|constructor].
Qed.

(** a non-empty list = a segment up to its last pair + that pair, whose cdr is '() *)
Lemma lqp_lseg_split_last : forall h locs l p xs',
  lseg h p PNil (locs ++ [l]) xs' ->
  exists xs a, xs' = xs ++ [a] /\ lseg h p (PPair l) locs xs /\ nth_error h l = Some (a, PNil).
Proof.
  intros h locs. induction locs as [|l0 locs IH]; intros l p xs' H.
  - cbn [app] in H. inversion H as [|l1 a d t locs1 xs1 Hn Hd]; subst.
    inversion Hd; subst.
    exists [], a. repeat split; [constructor|exact Hn].
  - cbn [app] in H. inversion H as [|l1 a d t locs1 xs1 Hn Hd]; subst.
    destruct (IH _ _ _ Hd) as (xs & b & -> & Hseg & Hl).
    exists (a :: xs), b. repeat split; [econstructor; eassumption|exact Hl].
Qed.

Lemma lqp_last_ptr_cons : forall l locs, locs <> [] -> last_ptr (l :: locs) = last_ptr locs.
Proof. intros l locs Hne. destruct locs as [|l' locs]; [contradiction|reflexivity]. Qed.

Lemma lqp_last_ptr_snoc : forall locs l, last_ptr (locs ++ [l]) = PPair l.
Proof.
  intros locs l. unfold last_ptr. destruct (locs ++ [l]) eqn:E.
  - destruct locs; discriminate.
  - rewrite <- E. rewrite last_last. reflexivity.
Qed.

(** * The abstraction functions compute the segment *)

Lemma lqp_chain_fuel : forall h p locs xs,
  lseg h p PNil locs xs -> forall n, length locs <= n ->
  chain_fuel n h p = Some xs /\ chain_locs_fuel n h p = Some locs.
Proof.
  intros h p locs xs H. remember PNil as t eqn:Ht.
  induction H as [|l a d t locs xs Hn H IH]; intros n Hlen; subst.
  - destruct n; auto.
  - cbn [length] in Hlen. destruct n as [|n]; [lia|].
    cbn [chain_fuel chain_locs_fuel]. rewrite Hn.
    destruct (IH eq_refl n) as [-> ->]; [lia|auto].
Qed.

Lemma lqp_chain : forall h p locs xs,
  lseg h p PNil locs xs -> chain h p = Some xs /\ chain_locs h p = Some locs.
Proof.
  intros h p locs xs H. apply lqp_chain_fuel; [exact H|].
  pose proof (lqp_lseg_short H). lia.
Qed.

Lemma lqp_chain_locs_lseg : forall n h p locs,
  chain_locs_fuel n h p = Some locs -> exists xs, lseg h p PNil locs xs.
Proof.
  intros n. induction n as [|n IH]; intros h p locs H.
  - destruct p; cbn [chain_locs_fuel] in H; [|discriminate]. inversion H. exists []. constructor.
  - destruct p as [|l]; cbn [chain_locs_fuel] in H.
    + inversion H. exists []. constructor.
    + destruct (nth_error h l) as [[a d]|] eqn:Hn; [|discriminate].
      destruct (chain_locs_fuel n h d) as [ls|] eqn:Hd; [|discriminate].
      inversion H; subst. destruct (IH _ _ _ Hd) as (xs & Hxs).
      exists (a :: xs). econstructor; eassumption.
Qed.

Lemma lqp_repr_list : forall h q locs xs,
  lq_repr h q locs xs -> lq_list h q = Some xs /\ lq_locs h q = Some locs.
Proof. intros h q locs xs [H _]. apply lqp_chain. exact H. Qed.

Lemma lqp_repr_is : forall h q locs xs, lq_repr h q locs xs -> lq_is h q xs.
Proof.
  intros h q locs xs H. split; [exists locs, xs; exact H|]. apply (lqp_repr_list H).
Qed.

Lemma lqp_is_repr : forall h q xs, lq_is h q xs -> exists locs, lq_repr h q locs xs.
Proof.
  intros h q xs [(locs & xs' & H) Hl]. destruct (lqp_repr_list H) as [Hl' _].
  rewrite Hl in Hl'. inversion Hl'; subst. exists locs. exact H.
Qed.

Lemma lqp_repr_func : forall h q l1 x1 l2 x2,
  lq_repr h q l1 x1 -> lq_repr h q l2 x2 -> l1 = l2 /\ x1 = x2.
Proof. intros h q l1 x1 l2 x2 [H1 _] [H2 _]. eapply lqp_lseg_func; eassumption. Qed.

(** the decidable check of LQueue.v is the invariant *)
Lemma lq_wf_b_spec : forall h q, lq_wf_b h q = true <-> lq_wf h q.
Proof.
  intros h q. unfold lq_wf_b. split.
  - destruct (lq_locs h q) as [locs|] eqn:Hl; [|discriminate]. intros Hb.
    unfold lq_locs, chain_locs in Hl. destruct (lqp_chain_locs_lseg _ _ _ Hl) as (xs & Hxs).
    exists locs, xs. split; [exact Hxs|].
    destruct (q_last q) as [|a]; destruct (last_ptr locs) as [|b]; cbn [ptr_eqb] in Hb;
      try discriminate; [reflexivity|]. apply Nat.eqb_eq in Hb. congruence.
  - intros (locs & xs & H). destruct (lqp_repr_list H) as [_ ->]. destruct H as [_ ->].
    destruct (last_ptr locs) as [|b]; cbn [ptr_eqb]; [reflexivity|apply Nat.eqb_refl].
Qed.

(** * SRFI 1 helpers *)

Lemma lqp_last_pair_fuel : forall h p locs xs,
  lseg h p PNil locs xs -> locs <> [] -> forall n, length locs <= n ->
  h_last_pair_fuel n h p = Some (last_ptr locs).
Proof.
  intros h p locs xs H. remember PNil as t eqn:Ht.
  induction H as [|l a d t locs xs Hn H IH]; intros Hne n Hlen; subst; [contradiction|].
  cbn [length] in Hlen. destruct n as [|n]; [lia|].
  cbn [h_last_pair_fuel]. unfold h_cdr, h_get. rewrite Hn.
  destruct d as [|l'].
  - apply lqp_lseg_nil_inv in H. destruct H as (_ & -> & _). reflexivity.
  - assert (Hne' : locs <> []) by (intros ->; inversion H).
    rewrite lqp_last_ptr_cons by exact Hne'. apply IH; [reflexivity|exact Hne'|lia].
Qed.

Lemma lqp_last_pair : forall h p locs xs,
  lseg h p PNil locs xs -> locs <> [] -> h_last_pair h p = Some (last_ptr locs).
Proof.
  intros h p locs xs H Hne. eapply lqp_last_pair_fuel; [exact H|exact Hne|].
  pose proof (lqp_lseg_short H). lia.
Qed.

(** make-list-queue / list-queue-set-list! without the optional argument recompute [last] *)
Lemma lqp_make1 : forall h p locs xs,
  lseg h p PNil locs xs -> lq_make1 h p = Some (Lq p (last_ptr locs)).
Proof.
  intros h p locs xs H. unfold lq_make1. destruct p as [|l]; cbn [is_pair].
  - apply lqp_lseg_nil_inv in H. destruct H as (_ & -> & _). reflexivity.
  - rewrite (lqp_last_pair H); [reflexivity|]. intros ->. inversion H.
Qed.

Lemma lqp_set_list1 : forall h q p locs xs,
  lseg h p PNil locs xs -> lq_set_list1 h q p = Some (Lq p (last_ptr locs)).
Proof.
  intros h q p locs xs H. unfold lq_set_list1. destruct p as [|l]; cbn [is_pair q_first].
  - apply lqp_lseg_nil_inv in H. destruct H as (_ & -> & _). reflexivity.
  - rewrite (lqp_last_pair H); [reflexivity|]. intros ->. inversion H.
Qed.

Definition all_fresh (h : heap) (locs : list loc) : Prop := forall l, In l locs -> length h <= l.

(** allocation of a chain [xs] in front of [tl]: the heap grows, the new pairs are fresh *)
Lemma lqp_alloc_list : forall xs h tl h' p,
  h_alloc_list h xs tl = (h', p) ->
  exists e nl, h' = h ++ e /\ all_fresh h nl /\
    forall u locs ys, lseg h tl u locs ys -> lseg h' p u (nl ++ locs) (xs ++ ys).
Proof.
  intros xs. induction xs as [|x xs IH]; intros h tl h' p Halloc.
  - cbn [h_alloc_list] in Halloc. inversion Halloc; subst. exists [], []. rewrite app_nil_r.
    repeat split; [intros l []|]. intros u locs ys H. exact H.
  - cbn [h_alloc_list] in Halloc. destruct (h_alloc_list h xs tl) as [h1 p1] eqn:E.
    unfold h_cons in Halloc. inversion Halloc; subst h' p.
    destruct (IH _ _ _ _ E) as (e & nl & -> & Hfresh & Hseg).
    exists (e ++ [(x, p1)]), (length (h ++ e) :: nl). rewrite app_assoc. repeat split.
    + intros l [<-|Hin]; [rewrite app_length; lia|auto].
    + intros u locs ys H. cbn [app]. apply lseg_cons with (d := p1).
      * apply lqp_nth_fresh.
      * apply lqp_lseg_ext. apply Hseg. exact H.
Qed.

Lemma lqp_alloc_list_nil : forall xs h h' p,
  h_alloc_list h xs PNil = (h', p) ->
  exists e nl, h' = h ++ e /\ all_fresh h nl /\ lseg h' p PNil nl xs.
Proof.
  intros xs h h' p H. destruct (lqp_alloc_list _ _ _ H) as (e & nl & -> & Hf & Hseg).
  exists e, nl. repeat split; [exact Hf|].
  specialize (Hseg PNil [] [] (lseg_nil h PNil)). rewrite !app_nil_r in Hseg. exact Hseg.
Qed.

Lemma lqp_same_outside_ext : forall h e own, same_outside h (h ++ e) own.
Proof. intros h e own l Hl _. apply lqp_nth_ext. exact Hl. Qed.

Lemma lqp_same_outside_trans : forall h1 h2 h3 own,
  same_outside h1 h2 own -> same_outside h2 h3 own -> length h1 <= length h2 -> same_outside h1 h3 own.
Proof.
  intros h1 h2 h3 own H12 H23 Hlen l Hl Hn. rewrite H23 by (auto; lia). apply H12; assumption.
Qed.

Lemma lqp_fresh_old_or_fresh : forall h locs nl, all_fresh h nl -> old_or_fresh h locs nl.
Proof. intros h locs nl Hf l Hin. right. auto. Qed.

(** * Constructors *)

(** the state after an operation: the queue [q'] denotes [xs'], occupies old or fresh pairs, and
    the cells outside the pairs [locs] the queue occupied before are untouched *)
Definition lq_post (h : heap) (locs : list loc) (h' : heap) (q' : lq) (xs' : list Z) : Prop :=
  exists locs', lq_repr h' q' locs' xs' /\ same_outside h h' locs /\ old_or_fresh h locs locs' /\
                length h <= length h'.

Lemma lqp_post_fresh_list : forall h own xs h1 p,
  h_alloc_list h xs PNil = (h1, p) ->
  exists q, lq_make1 h1 p = Some q /\ lq_post h own h1 q xs.
Proof.
  intros h own xs h1 p Halloc. destruct (lqp_alloc_list_nil _ _ Halloc) as (e & nl & -> & Hf & Hseg).
  rewrite (lqp_make1 Hseg).
  eexists. split; [reflexivity|]. exists nl. repeat split.
  - exact Hseg.
  - apply lqp_same_outside_ext.
  - apply lqp_fresh_old_or_fresh. exact Hf.
  - rewrite app_length. lia.
Qed.

Lemma lqp_of_list : forall h own xs,
  exists h' q, lq_of_list h xs = Some (h', q) /\ lq_post h own h' q xs.
Proof.
  intros h own xs. unfold lq_of_list. destruct (h_alloc_list h xs PNil) as [h1 p] eqn:E.
  destruct (lqp_post_fresh_list _ own _ E) as (q & Hm & Hpost). rewrite Hm. eauto.
Qed.

Lemma lqp_copy : forall h q locs xs,
  lq_repr h q locs xs -> exists h' q', lq_copy h q = Some (h', q') /\ lq_post h [] h' q' xs.
Proof.
  intros h q locs xs Hr. unfold lq_copy, h_list_copy.
  destruct Hr as [Hseg _]. destruct (lqp_chain Hseg) as [-> _].
  destruct (h_alloc_list h xs PNil) as [h1 p] eqn:E.
  destruct (lqp_post_fresh_list _ [] _ E) as (q' & Hm & Hpost). rewrite Hm. eauto.
Qed.

Lemma lqp_map : forall f h q locs xs,
  lq_repr h q locs xs -> exists h' q', lq_map f h q = Some (h', q') /\ lq_post h [] h' q' (map f xs).
Proof.
  intros f h q locs xs Hr. unfold lq_map, h_map.
  destruct Hr as [Hseg _]. destruct (lqp_chain Hseg) as [-> _].
  destruct (h_alloc_list h (map f xs) PNil) as [h1 p] eqn:E.
  destruct (lqp_post_fresh_list _ [] _ E) as (q' & Hm & Hpost). rewrite Hm. eauto.
Qed.

Lemma lqp_map_bang : forall f h q locs xs,
  lq_repr h q locs xs ->
  exists h' q', lq_map_bang f h q = Some (h', q') /\ lq_post h [] h' q' (map f xs).
Proof.
  intros f h q locs xs Hr. unfold lq_map_bang, h_map.
  destruct Hr as [Hseg _]. destruct (lqp_chain Hseg) as [-> _].
  destruct (h_alloc_list h (map f xs) PNil) as [h1 p] eqn:E.
  destruct (lqp_alloc_list_nil _ _ E) as (e & nl & -> & Hf & Hseg').
  rewrite (lqp_set_list1 q Hseg'). do 2 eexists. split; [reflexivity|].
  exists nl. repeat split.
  - exact Hseg'.
  - apply lqp_same_outside_ext.
  - apply lqp_fresh_old_or_fresh. exact Hf.
  - rewrite app_length. lia.
Qed.

(** * Mutators *)

Lemma lqp_same_outside_weaken : forall h h' own, same_outside h h' [] -> same_outside h h' own.
Proof. intros h h' own H l Hl _. apply H; [exact Hl|intros []]. Qed.

Lemma lqp_add_front : forall h q x locs xs,
  lq_repr h q locs xs ->
  exists h' q', lq_add_front h q x = (h', q') /\ lq_post h locs h' q' (x :: xs).
Proof.
  intros h q x locs xs [Hseg Hlast]. unfold lq_add_front, h_cons. cbn [q_last q_first].
  assert (Hseg' : lseg (h ++ [(x, q_first q)]) (PPair (length h)) PNil (length h :: locs) (x :: xs)).
  { apply lseg_cons with (d := q_first q); [apply lqp_nth_fresh|apply lqp_lseg_ext; exact Hseg]. }
  assert (Hrest : forall q', q_first q' = PPair (length h) -> q_last q' = last_ptr (length h :: locs) ->
            lq_post h locs (h ++ [(x, q_first q)]) q' (x :: xs)).
  { intros q' Hf Hl. exists (length h :: locs). repeat split.
    - rewrite Hf. exact Hseg'.
    - exact Hl.
    - apply lqp_same_outside_ext.
    - intros l [<-|Hin]; [right; lia|left; exact Hin].
    - rewrite app_length. lia. }
  rewrite Hlast. destruct locs as [|l0 locs]; cbn [last_ptr is_pair].
  - do 2 eexists. split; [reflexivity|]. apply Hrest; reflexivity.
  - do 2 eexists. split; [reflexivity|]. apply Hrest; [reflexivity|].
    cbn [q_last]. symmetry. apply lqp_last_ptr_cons. discriminate.
Qed.

Lemma lqp_list_last_case : forall (A : Type) (l : list A), l = [] \/ exists l0 a, l = l0 ++ [a].
Proof. intros A l. destruct l using rev_ind; [left; reflexivity|right; eauto]. Qed.

Lemma lqp_NoDup_snoc_notin : forall (l0 : list nat) a, NoDup (l0 ++ [a]) -> ~ In a l0.
Proof.
  intros l0 a Hnd Hin. apply NoDup_remove_2 in Hnd. rewrite app_nil_r in Hnd. contradiction.
Qed.

Lemma lqp_add_back : forall h q x locs xs,
  lq_repr h q locs xs ->
  exists h' q', lq_add_back h q x = Some (h', q') /\ lq_post h locs h' q' (xs ++ [x]).
Proof.
  intros h q x locs xs [Hseg Hlast]. unfold lq_add_back, h_cons. rewrite Hlast.
  destruct (lqp_list_last_case locs) as [->|(locs0 & l & ->)].
  - (* the empty queue: both fields become the fresh pair *)
    cbn [last_ptr is_pair q_first].
    assert (Hxs : xs = []) by (apply lqp_lseg_length in Hseg; destruct xs; [reflexivity|discriminate]).
    subst xs. do 2 eexists. split; [reflexivity|].
    exists [length h]. repeat split.
    + cbn [q_first app]. apply lseg_cons with (d := PNil); [apply lqp_nth_fresh|constructor].
    + apply lqp_same_outside_ext.
    + intros l [<-|[]]. right. lia.
    + rewrite app_length. lia.
  - (* (set-cdr! last (list element)) *)
    rewrite lqp_last_ptr_snoc. cbn [is_pair].
    pose proof (lqp_lseg_NoDup Hseg) as Hnd.
    destruct (lqp_lseg_split_last _ _ Hseg) as (xs0 & a & -> & Hseg0 & Hl).
    pose proof (lqp_nth_lt _ _ Hl) as Hlt.
    unfold h_set_cdr. rewrite lqp_nth_ext by exact Hlt. rewrite Hl.
    unfold h_cdr, h_get. rewrite lqp_upd_same by (rewrite app_length; lia).
    do 2 eexists. split; [reflexivity|].
    set (h2 := h_upd (h ++ [(x, PNil)]) l (a, PPair (length h))).
    assert (Hcl : nth_error h2 l = Some (a, PPair (length h))).
    { apply lqp_upd_same. rewrite app_length. lia. }
    assert (Hcn : nth_error h2 (length h) = Some (x, PNil)).
    { unfold h2. rewrite lqp_upd_other by lia. apply lqp_nth_fresh. }
    exists ((locs0 ++ [l]) ++ [length h]). repeat split.
    + cbn [q_first]. rewrite <- !app_assoc. cbn [app].
      eapply lqp_lseg_app with (t := PPair l).
      * apply lqp_lseg_upd; [apply lqp_lseg_ext; exact Hseg0|].
        apply lqp_NoDup_snoc_notin. exact Hnd.
      * apply lseg_cons with (d := PPair (length h)); [exact Hcl|].
        apply lseg_cons with (d := PNil); [exact Hcn|constructor].
    + cbn [q_last]. symmetry. apply lqp_last_ptr_snoc.
    + intros l' Hl' Hnin. unfold h2. rewrite lqp_upd_other.
      * apply lqp_nth_ext. exact Hl'.
      * intros <-. apply Hnin. apply in_or_app. right. left. reflexivity.
    + intros l' Hin. apply in_app_or in Hin. destruct Hin as [Hin|[<-|[]]]; [left; exact Hin|right; lia].
    + unfold h2. rewrite lqp_length_upd, app_length. lia.
Qed.

Lemma lqp_remove_front : forall h q locs xs,
  lq_repr h q locs xs ->
  match xs with
  | [] => lq_remove_front h q = None
  | a :: xs' => exists q', lq_remove_front h q = Some (q', a) /\ lq_post h locs h q' xs'
  end.
Proof.
  intros h [fp lp] locs xs [Hseg Hlast]. unfold lq_remove_front, h_cdr, h_car.
  cbn [q_first q_last] in *.
  inversion Hseg as [t|l a d t locs' xs' Hn Hd]; subst.
  - reflexivity.
  - cbn [h_get]. rewrite Hn. eexists. split; [reflexivity|].
    exists locs'. repeat split.
    + destruct d; cbn [is_pair q_first]; exact Hd.
    + destruct d as [|l']; cbn [is_pair q_last q_first].
      * apply lqp_lseg_nil_inv in Hd. destruct Hd as (_ & -> & _). reflexivity.
      * apply lqp_last_ptr_cons. intros ->. inversion Hd.
    + intros l' Hin. left. right. exact Hin.
    + lia.
Qed.

Lemma lqp_remove_all : forall h q locs xs,
  lq_repr h q locs xs ->
  lq_post h locs h (fst (lq_remove_all q)) [] /\ chain h (snd (lq_remove_all q)) = Some xs.
Proof.
  intros h q locs xs [Hseg Hlast]. cbn [lq_remove_all fst snd]. split.
  - exists []. repeat split; [constructor|intros l []|lia].
  - apply (lqp_chain Hseg).
Qed.

(** the loop [lp head tail] of list-queue-remove-back!: [pre] are the pairs before [head] *)
Lemma lqp_remove_back_lp : forall n h q pre xpre lh ah lt locst xst,
  lseg h (q_first q) (PPair lh) pre xpre -> nth_error h lh = Some (ah, PPair lt) ->
  lseg h (PPair lt) PNil locst xst -> NoDup (pre ++ lh :: locst) -> length locst <= n ->
  exists locs0 xs0 l z h',
    pre ++ lh :: locst = locs0 ++ [l] /\ xpre ++ ah :: xst = xs0 ++ [z] /\
    lq_remove_back_lp n h q (PPair lh) (PPair lt) = Some (h', Lq (q_first q) (last_ptr locs0), z) /\
    lseg h' (q_first q) PNil locs0 xs0 /\ same_outside h h' (pre ++ lh :: locst) /\
    length h' = length h.
Proof.
  intros n. induction n as [|n IH]; intros h q pre xpre lh ah lt locst xst Hpre Hh Ht Hnd Hlen.
  - inversion Ht; subst. cbn [length] in Hlen. lia.
  - destruct (lqp_lseg_pair_inv Ht) as (at_ & dt & locst' & xst' & Hnt & Hdt & -> & ->).
    cbn [lq_remove_back_lp]. unfold h_cdr at 1. cbn [h_get]. rewrite Hnt.
    destruct dt as [|lt2].
    + (* tail is the last pair: (set-cdr! head '()) *)
      apply lqp_lseg_nil_inv in Hdt. destruct Hdt as (_ & -> & ->).
      unfold h_set_cdr. rewrite Hh. unfold h_car, h_get.
      assert (Hne : lh <> lt).
      { intros ->. apply NoDup_remove_2 in Hnd. apply Hnd. apply in_or_app. right. left. reflexivity. }
      rewrite lqp_upd_other by exact Hne. rewrite Hnt.
      exists (pre ++ [lh]), (xpre ++ [ah]), lt, at_, (h_upd h lh (ah, PNil)).
      rewrite <- !app_assoc. cbn [app]. rewrite lqp_last_ptr_snoc. repeat split.
      * apply lqp_lseg_snoc.
        -- apply lqp_lseg_upd; [exact Hpre|]. intros Hin. apply NoDup_remove_2 in Hnd.
           apply Hnd. apply in_or_app. left. exact Hin.
        -- apply lqp_upd_same. eapply lqp_nth_lt. exact Hh.
      * intros l' _ Hnin. apply lqp_upd_other. intros <-. apply Hnin. apply in_or_app. right. left. reflexivity.
      * apply lqp_length_upd.
    + (* (lp tail (cdr tail)) *)
      cbn [length] in Hlen.
      destruct (IH h q (pre ++ [lh]) (xpre ++ [ah]) lt at_ lt2 locst' xst') as
          (locs0 & xs0 & l & z & h' & E1 & E2 & Hrun & Hseg' & Hso & Hlen').
      * eapply lqp_lseg_app; [exact Hpre|]. apply lseg_cons with (d := PPair lt); [exact Hh|constructor].
      * exact Hnt.
      * exact Hdt.
      * rewrite <- app_assoc. exact Hnd.
      * lia.
      * exists locs0, xs0, l, z, h'. rewrite <- !app_assoc in E1, E2, Hso. cbn [app] in E1, E2, Hso.
        repeat split; assumption.
Qed.

Lemma lqp_remove_back : forall h q locs xs,
  lq_repr h q locs xs ->
  (xs = [] -> lq_remove_back h q = None) /\
  (forall xs0 z, xs = xs0 ++ [z] ->
     exists h' q', lq_remove_back h q = Some (h', q', z) /\ lq_post h locs h' q' xs0).
Proof.
  intros h [fp lp] locs xs [Hseg Hlast]. unfold lq_remove_back. cbn [q_first q_last] in *. split.
  - intros ->. inversion Hseg; subst. reflexivity.
  - intros xs0 z Hx.
    inversion Hseg as [t|l a d t locs' xs' Hn Hd]; subst;
      [destruct xs0; discriminate|].
    match goal with H : _ :: _ = _ ++ [_] |- _ => rename H into Hx end.
    unfold h_cdr, h_get. rewrite Hn. destruct d as [|l2].
    + (* one element: (car (list-queue-remove-all! q)) *)
      apply lqp_lseg_nil_inv in Hd. destruct Hd as (_ & -> & ->).
      unfold lq_remove_all, h_car, h_get. cbn [q_first]. rewrite Hn.
      destruct xs0 as [|y xs0]; [|destruct xs0; discriminate].
      cbn [app] in Hx. inversion Hx; subst. do 2 eexists. split; [reflexivity|].
      exists []. repeat split; [constructor|intros l' []|lia].
    + pose proof (lqp_lseg_NoDup Hseg) as Hnd.
      destruct (@lqp_remove_back_lp (S (length h)) h (Lq (PPair l) (last_ptr (l :: locs'))) [] [] l a l2 locs' xs') as
          (locs0 & ys0 & l' & z' & h' & E1 & E2 & Hrun & Hseg' & Hso & Hlen').
      * constructor.
      * exact Hn.
      * exact Hd.
      * exact Hnd.
      * pose proof (lqp_lseg_short Hd). lia.
      * cbn [app] in E1, E2, Hso. rewrite Hx in E2. apply app_inj_tail in E2. destruct E2 as [-> ->].
        rewrite Hrun. do 2 eexists. split; [reflexivity|].
        exists locs0. repeat split.
        -- exact Hseg'.
        -- exact Hso.
        -- intros l0 Hin. left.
           assert (Hin' : In l0 (locs0 ++ [l'])) by (apply in_or_app; left; exact Hin).
           rewrite <- E1 in Hin'. exact Hin'.
        -- lia.
Qed.

(** * Procedures that build a list from several queues, or from a generator *)

Definition is_list (h : heap) (p : ptr) (xs : list Z) : Prop := exists locs, lseg h p PNil locs xs.

Lemma lqp_post_ext : forall h e h2 q xs own,
  lq_post (h ++ e) [] h2 q xs -> lq_post h own h2 q xs.
Proof.
  intros h e h2 q xs own (locs' & Hr & Hso & Hof & Hlen). rewrite app_length in Hlen.
  exists locs'. repeat split.
  - apply Hr.
  - apply Hr.
  - intros l Hl _. rewrite Hso; [apply lqp_nth_ext; exact Hl|rewrite app_length; lia|intros []].
  - intros l Hin. destruct (Hof l Hin) as [[]|Hge]. rewrite app_length in Hge. right. lia.
  - lia.
Qed.

Lemma lqp_append_lists : forall h ps xss,
  Forall2 (is_list h) ps xss ->
  exists e nl p, h_append_lists h ps = Some (h ++ e, p) /\ all_fresh h nl /\
                 lseg (h ++ e) p PNil nl (concat xss).
Proof.
  intros h ps xss HF. induction HF as [|p xs ps xss (locs & Hp) HF IH].
  - exists [], [], PNil. cbn [h_append_lists concat]. rewrite app_nil_r.
    repeat split; [intros l []|constructor].
  - destruct IH as (e1 & nl1 & r & Hrun & Hf1 & Hr). cbn [h_append_lists concat]. rewrite Hrun.
    unfold h_append2. destruct (lqp_chain (lqp_lseg_ext e1 Hp)) as [-> _].
    destruct (h_alloc_list (h ++ e1) xs r) as [h' p'] eqn:E.
    destruct (lqp_alloc_list _ _ _ E) as (e2 & nl2 & -> & Hf2 & Hseg).
    exists (e1 ++ e2), (nl2 ++ nl1), p'. rewrite app_assoc. repeat split.
    + intros l Hin. apply in_app_or in Hin. destruct Hin as [Hin|Hin]; [|auto].
      specialize (Hf2 l Hin). rewrite app_length in Hf2. lia.
    + apply Hseg. exact Hr.
Qed.

Lemma lqp_Forall2_is_list : forall h qs xss,
  Forall2 (lq_is h) qs xss -> Forall2 (is_list h) (map q_first qs) xss.
Proof.
  intros h qs xss HF. induction HF as [|q xs qs xss Hq HF IH]; cbn [map]; constructor; [|exact IH].
  destruct (lqp_is_repr Hq) as (locs & Hseg & _). exists locs. exact Hseg.
Qed.

Lemma lqp_append_bang : forall h qs xss,
  Forall2 (lq_is h) qs xss ->
  exists h' q, lq_append_bang h qs = Some (h', q) /\ lq_post h [] h' q (concat xss).
Proof.
  intros h qs xss HF. unfold lq_append_bang.
  destruct (lqp_append_lists (lqp_Forall2_is_list HF)) as (e & nl & p & -> & Hf & Hseg).
  rewrite (lqp_make1 Hseg). do 2 eexists. split; [reflexivity|]. exists nl. repeat split.
  - exact Hseg.
  - apply lqp_same_outside_ext.
  - apply lqp_fresh_old_or_fresh. exact Hf.
  - rewrite app_length. lia.
Qed.

Lemma lqp_concatenate : forall h qs xss,
  Forall2 (lq_is h) qs xss ->
  exists h' q, lq_concatenate h qs = Some (h', q) /\ lq_post h [] h' q (concat xss).
Proof.
  intros h qs xss HF. unfold lq_concatenate, h_list_copy.
  destruct (lqp_append_lists (lqp_Forall2_is_list HF)) as (e & nl & p & -> & Hf & Hseg).
  destruct (lqp_chain Hseg) as [-> _].
  destruct (h_alloc_list (h ++ e) (concat xss) PNil) as [h2 p2] eqn:E.
  destruct (lqp_post_fresh_list _ [] _ E) as (q' & Hm & Hpost). rewrite Hm.
  do 2 eexists. split; [reflexivity|]. eapply lqp_post_ext. exact Hpost.
Qed.

Lemma lqp_unfold : forall fuel stop mapper succ seed ys h,
  unfold_list fuel stop mapper succ seed = Some ys ->
  (exists h' q', lq_unfold fuel stop mapper succ seed h None = Some (h', q') /\ lq_post h [] h' q' ys) /\
  (forall q locs xs, lq_repr h q locs xs ->
     exists h' q', lq_unfold fuel stop mapper succ seed h (Some q) = Some (h', q') /\
                   lq_post h locs h' q' (ys ++ xs)).
Proof.
  intros fuel stop mapper succ seed ys h Hu. unfold lq_unfold. rewrite Hu.
  destruct (h_alloc_list h ys PNil) as [h1 ls] eqn:E. split.
  - destruct (lqp_post_fresh_list _ [] _ E) as (q' & Hm & Hpost). rewrite Hm. eauto.
  - intros q locs xs [Hseg Hlast].
    destruct (lqp_alloc_list_nil _ _ E) as (e1 & nl1 & -> & Hf1 & Hls).
    unfold h_append2. destruct (lqp_chain Hls) as [-> _].
    destruct (h_alloc_list (h ++ e1) ys (q_first q)) as [h2 p] eqn:E2.
    destruct (lqp_alloc_list _ _ _ E2) as (e2 & nl2 & -> & Hf2 & Happ).
    specialize (Happ _ _ _ (lqp_lseg_ext e1 Hseg)).
    rewrite (lqp_set_list1 q Happ). do 2 eexists. split; [reflexivity|].
    exists (nl2 ++ locs). repeat split.
    + exact Happ.
    + rewrite <- app_assoc. apply lqp_same_outside_ext.
    + intros l Hin. apply in_app_or in Hin. destruct Hin as [Hin|Hin]; [right|left; exact Hin].
      specialize (Hf2 l Hin). rewrite app_length in Hf2. lia.
    + rewrite !app_length. lia.
Qed.

Lemma lqp_unfold_right : forall fuel stop mapper succ seed ys h,
  unfold_right_list fuel stop mapper succ seed [] = Some ys ->
  (exists h' q', lq_unfold_right fuel stop mapper succ seed h None = Some (h', q') /\
                 lq_post h [] h' q' ys) /\
  (forall q locs xs, lq_repr h q locs xs ->
     exists h' q', lq_unfold_right fuel stop mapper succ seed h (Some q) = Some (h', q') /\
                   lq_post h [] h' q' (xs ++ ys)).
Proof.
  intros fuel stop mapper succ seed ys h Hu. unfold lq_unfold_right. rewrite Hu.
  destruct (h_alloc_list h ys PNil) as [h1 ls] eqn:E. split.
  - destruct (lqp_post_fresh_list _ [] _ E) as (q' & Hm & Hpost). rewrite Hm. eauto.
  - intros q locs xs [Hseg Hlast].
    destruct (lqp_alloc_list_nil _ _ E) as (e1 & nl1 & -> & Hf1 & Hls).
    unfold h_append2. destruct (lqp_chain (lqp_lseg_ext e1 Hseg)) as [-> _].
    destruct (h_alloc_list (h ++ e1) xs ls) as [h2 p] eqn:E2.
    destruct (lqp_alloc_list _ _ _ E2) as (e2 & nl2 & -> & Hf2 & Happ).
    specialize (Happ _ _ _ Hls).
    rewrite (lqp_set_list1 q Happ). do 2 eexists. split; [reflexivity|].
    exists (nl2 ++ nl1). repeat split.
    + exact Happ.
    + rewrite <- app_assoc. apply lqp_same_outside_ext.
    + intros l Hin. right. apply in_app_or in Hin. destruct Hin as [Hin|Hin]; [|auto].
      specialize (Hf2 l Hin). rewrite app_length in Hf2. lia.
    + rewrite !app_length. lia.
Qed.

(** * Observers *)

Lemma lqp_front : forall h q locs xs, lq_repr h q locs xs -> lq_front h q = hd_error xs.
Proof.
  intros h [fp lp] locs xs [Hseg _]. unfold lq_front, h_car. cbn [q_first] in *.
  inversion Hseg; subst; cbn [h_get hd_error]; [reflexivity|].
  match goal with H : nth_error _ _ = _ |- _ => rewrite H end. reflexivity.
Qed.

Lemma lqp_back : forall h q locs xs,
  lq_repr h q locs xs ->
  (xs = [] -> lq_back h q = None) /\ (forall xs0 z, xs = xs0 ++ [z] -> lq_back h q = Some z).
Proof.
  intros h q locs xs [Hseg Hlast]. unfold lq_back, h_car. rewrite Hlast. split.
  - intros ->. apply lqp_lseg_length in Hseg. destruct locs; [reflexivity|discriminate].
  - intros xs0 z ->. destruct (lqp_list_last_case locs) as [->|(locs0 & l & ->)].
    + apply lqp_lseg_length in Hseg. rewrite app_length in Hseg. cbn [length] in Hseg. lia.
    + destruct (lqp_lseg_split_last _ _ Hseg) as (ys & a & E & _ & Hl).
      apply app_inj_tail in E. destruct E as [_ ->].
      rewrite lqp_last_ptr_snoc. cbn [h_get]. rewrite Hl. reflexivity.
Qed.

Lemma lqp_is_empty : forall h q locs xs,
  lq_repr h q locs xs -> lq_is_empty q = match xs with [] => true | _ :: _ => false end.
Proof.
  intros h [fp lp] locs xs [Hseg _]. unfold lq_is_empty. cbn [q_first] in *.
  inversion Hseg; subst; reflexivity.
Qed.

Lemma lqp_for1 : forall (S : Type) (f : Z -> S -> S) h p locs xs,
  lseg h p PNil locs xs -> forall n s, length locs <= n ->
  h_for1_fuel f n h p s = Some (fold_left (fun s x => f x s) xs s).
Proof.
  intros S f h p locs xs H. remember PNil as t eqn:Ht.
  induction H as [|l a d t locs xs Hn H IH]; intros n s Hlen; subst.
  - destruct n; reflexivity.
  - cbn [length] in Hlen. destruct n as [|n]; [lia|].
    cbn [h_for1_fuel fold_left]. rewrite Hn. apply IH; [reflexivity|lia].
Qed.

Lemma lqp_for_each : forall (S : Type) (f : Z -> S -> S) h q locs xs s,
  lq_repr h q locs xs -> lq_for_each f h q s = Some (fold_left (fun s x => f x s) xs s).
Proof.
  intros S f h q locs xs s [Hseg _]. unfold lq_for_each. eapply lqp_for1; [exact Hseg|].
  pose proof (lqp_lseg_short Hseg). lia.
Qed.

Lemma lqp_trace : forall (xs acc : list Z), fold_left (fun s x => s ++ [x]) xs acc = acc ++ xs.
Proof.
  intros xs. induction xs as [|x xs IH]; intros acc; cbn [fold_left]; [symmetry; apply app_nil_r|].
  rewrite IH, <- app_assoc. reflexivity.
Qed.

(** * Frame: an operation on one queue and the other queues of the heap *)

Lemma lqp_post_is : forall h own h' q' xs', lq_post h own h' q' xs' -> lq_is h' q' xs'.
Proof. intros h own h' q' xs' (locs' & Hr & _). eapply lqp_repr_is. exact Hr. Qed.

(** [q2] does not use the pairs [own]: it is the same queue after the operation, and the queue the
    operation produced is still disjoint from it *)
Lemma lqp_frame : forall h own h' q' xs' q2 locs2 xs2,
  lq_post h own h' q' xs' -> lq_repr h q2 locs2 xs2 -> disjoint own locs2 ->
  lq_repr h' q2 locs2 xs2 /\ exists locs', lq_repr h' q' locs' xs' /\ disjoint locs' locs2.
Proof.
  intros h own h' q' xs' q2 locs2 xs2 (locs' & Hr & Hso & Hof & Hlen) [Hseg2 Hlast2] Hdis. split.
  - split; [|exact Hlast2]. eapply lqp_lseg_same_outside; eassumption.
  - exists locs'. split; [exact Hr|]. intros l Hin Hin2. destruct (Hof l Hin) as [Hown|Hge].
    + exact (Hdis l Hown Hin2).
    + pose proof (lqp_lseg_bound Hseg2 l Hin2). lia.
Qed.

(** two queues of one heap that have no pair in common *)
Definition lq_disjoint (h : heap) (q1 q2 : lq) : Prop :=
  exists l1 l2, lq_locs h q1 = Some l1 /\ lq_locs h q2 = Some l2 /\ disjoint l1 l2.

(** what "q2 is not disturbed" means: it denotes the same list, it is still well formed, it still
    occupies the same pairs, and it is still disjoint from the queue that was operated on *)
Definition lq_undisturbed (h h' : heap) (q1' q2 : lq) (xs2 : list Z) : Prop :=
  lq_is h' q2 xs2 /\ lq_locs h' q2 = lq_locs h q2 /\ lq_disjoint h' q1' q2.

Lemma lqp_frame_is : forall h locs1 h' q1 q1' xs1 xs1' q2 xs2,
  lq_repr h q1 locs1 xs1 -> lq_post h locs1 h' q1' xs1' -> lq_is h q2 xs2 -> lq_disjoint h q1 q2 ->
  lq_undisturbed h h' q1' q2 xs2.
Proof.
  intros h locs1 h' q1 q1' xs1 xs1' q2 xs2 Hr1 Hpost H2 (l1 & l2 & Hl1 & Hl2 & Hdis).
  destruct (lqp_is_repr H2) as (locs2 & Hr2).
  destruct (lqp_repr_list Hr1) as [_ Hl1']. rewrite Hl1 in Hl1'. inversion Hl1'; subst l1.
  destruct (lqp_repr_list Hr2) as [_ Hl2']. rewrite Hl2 in Hl2'. inversion Hl2'; subst l2.
  destruct (lqp_frame Hpost Hr2 Hdis) as (Hr2' & locs' & Hr1' & Hdis').
  repeat split.
  - exists locs2, xs2. exact Hr2'.
  - apply (lqp_repr_list Hr2').
  - rewrite Hl2. apply (lqp_repr_list Hr2').
  - exists locs', locs2. repeat split; [apply (lqp_repr_list Hr1')|apply (lqp_repr_list Hr2')|exact Hdis'].
Qed.

(** THEOREM 3.  Several queues in one heap: list-queue-add-back! (the [set-cdr!] that extends),
    list-queue-remove-back! (the [set-cdr! head '()]) and list-queue-map! on [q1] do not disturb a
    well-formed queue [q2] that shares no pair with [q1].  list-queue-map! needs no disjointness at
    all: chibi's [map!] is [map], it allocates and mutates nothing (so [q2] may even be an alias of
    the old [q1]). *)
Theorem lq_frame :
  (forall h q1 q2 x xs2,
     lq_wf h q1 -> lq_is h q2 xs2 -> lq_disjoint h q1 q2 ->
     exists h' q1', lq_add_back h q1 x = Some (h', q1') /\ lq_undisturbed h h' q1' q2 xs2) /\
  (forall h q1 q2 xs2 h' q1' z,
     lq_wf h q1 -> lq_is h q2 xs2 -> lq_disjoint h q1 q2 ->
     lq_remove_back h q1 = Some (h', q1', z) -> lq_undisturbed h h' q1' q2 xs2) /\
  (forall f h q1 q2 xs2 h' q1',
     lq_wf h q1 -> lq_is h q2 xs2 ->
     lq_map_bang f h q1 = Some (h', q1') ->
     lq_is h' q2 xs2 /\ lq_locs h' q2 = lq_locs h q2 /\ lq_disjoint h' q1' q2).
Proof.
  split; [|split].
  - intros h q1 q2 x xs2 (locs1 & xs1 & Hr1) H2 Hdis.
    destruct (lqp_add_back x Hr1) as (h' & q1' & Hrun & Hpost).
    exists h', q1'. split; [exact Hrun|]. eapply lqp_frame_is; eassumption.
  - intros h q1 q2 xs2 h' q1' z (locs1 & xs1 & Hr1) H2 Hdis Hrun.
    destruct (lqp_remove_back Hr1) as [Hnil Hsnoc].
    destruct (lqp_list_last_case xs1) as [->|(xs0 & z0 & ->)].
    + rewrite (Hnil eq_refl) in Hrun. discriminate.
    + destruct (Hsnoc _ _ eq_refl) as (h'' & q'' & Hrun' & Hpost).
      rewrite Hrun in Hrun'. inversion Hrun'; subst. eapply lqp_frame_is; eassumption.
  - intros f h q1 q2 xs2 h' q1' (locs1 & xs1 & Hr1) H2 Hrun.
    destruct (lqp_map_bang f Hr1) as (h'' & q'' & Hrun' & Hpost).
    rewrite Hrun in Hrun'. inversion Hrun'; subst.
    destruct (lqp_is_repr H2) as (locs2 & Hr2).
    assert (Hdis : disjoint [] locs2) by (intros l []).
    destruct (lqp_frame Hpost Hr2 Hdis) as (Hr2' & locs' & Hr1' & Hdis').
    repeat split.
    + exists locs2, xs2. exact Hr2'.
    + apply (lqp_repr_list Hr2').
    + destruct (lqp_repr_list Hr2) as [_ ->]. apply (lqp_repr_list Hr2').
    + exists locs', locs2. repeat split; [apply (lqp_repr_list Hr1')|apply (lqp_repr_list Hr2')|exact Hdis'].
Qed.

(** * THEOREM 1: constructors and mutators keep the invariant and refine the list operations *)

Lemma lqp_is_list_repr : forall h p locs xs,
  lseg h p PNil locs xs -> lq_repr h (Lq p (last_ptr locs)) locs xs.
Proof. intros h p locs xs H. split; [exact H|reflexivity]. Qed.

Theorem lq_mutators_keep_invariant_and_refine_lists :
  (* make-list-queue, one argument: any proper list of the heap; the new queue SHARES its pairs *)
  (forall h p xs, is_list h p xs -> exists q, lq_make1 h p = Some q /\ q_first q = p /\ lq_is h q xs) /\
  (* make-list-queue, two arguments: correct iff the caller passes the last pair *)
  (forall h p locs xs, lseg h p PNil locs xs -> lq_is h (lq_make2 p (last_ptr locs)) xs) /\
  (* (list-queue x ...) *)
  (forall h xs, exists h' q, lq_of_list h xs = Some (h', q) /\ lq_is h' q xs) /\
  (* list-queue-copy: a new queue with the same elements, the old one is as before *)
  (forall h q xs, lq_is h q xs ->
     exists h' q', lq_copy h q = Some (h', q') /\ lq_is h' q' xs /\ lq_is h' q xs /\ lq_disjoint h' q' q) /\
  (* list-queue-add-front!: cons *)
  (forall h q x xs, lq_is h q xs ->
     exists h' q', lq_add_front h q x = (h', q') /\ lq_is h' q' (x :: xs)) /\
  (* list-queue-add-back!: snoc *)
  (forall h q x xs, lq_is h q xs ->
     exists h' q', lq_add_back h q x = Some (h', q') /\ lq_is h' q' (xs ++ [x])) /\
  (* list-queue-remove-front!: an error on the empty queue, else returns the head, leaves the tail *)
  (forall h q, lq_is h q [] -> lq_remove_front h q = None) /\
  (forall h q a xs, lq_is h q (a :: xs) ->
     exists q', lq_remove_front h q = Some (q', a) /\ lq_is h q' xs) /\
  (* list-queue-remove-back!: an error on the empty queue, else returns the last element, leaves
     the list without it *)
  (forall h q, lq_is h q [] -> lq_remove_back h q = None) /\
  (forall h q xs z, lq_is h q (xs ++ [z]) ->
     exists h' q', lq_remove_back h q = Some (h', q', z) /\ lq_is h' q' xs) /\
  (forall h q xs, lq_is h q xs -> xs <> [] ->
     exists h' q', lq_remove_back h q = Some (h', q', last xs 0%Z) /\ lq_is h' q' (removelast xs)) /\
  (* list-queue-remove-all!: the queue is empty, the result is the old list *)
  (forall h q xs, lq_is h q xs ->
     lq_is h (fst (lq_remove_all q)) [] /\ is_list h (snd (lq_remove_all q)) xs) /\
  (* list-queue-set-list!, no optional argument: any proper list; the old value of q is irrelevant *)
  (forall h q p xs, is_list h p xs -> exists q', lq_set_list1 h q p = Some q' /\ q_first q' = p /\ lq_is h q' xs) /\
  (* list-queue-set-list! with [last]: correct iff the caller passes the last pair *)
  (forall h q p locs xs, lseg h p PNil locs xs -> lq_is h (lq_set_list2 q p (last_ptr locs)) xs) /\
  (* list-queue-concatenate / list-queue-append / list-queue-append!: concat, in fresh pairs *)
  (forall h qs xss, Forall2 (lq_is h) qs xss ->
     exists h' q, lq_concatenate h qs = Some (h', q) /\ lq_is h' q (concat xss) /\ Forall2 (lq_is h') qs xss) /\
  (forall h qs xss, Forall2 (lq_is h) qs xss ->
     exists h' q, lq_append h qs = Some (h', q) /\ lq_is h' q (concat xss) /\ Forall2 (lq_is h') qs xss) /\
  (forall h qs xss, Forall2 (lq_is h) qs xss ->
     exists h' q, lq_append_bang h qs = Some (h', q) /\ lq_is h' q (concat xss) /\ Forall2 (lq_is h') qs xss) /\
  (* list-queue-map: a new queue; list-queue-map!: the same queue with a new list *)
  (forall f h q xs, lq_is h q xs ->
     exists h' q', lq_map f h q = Some (h', q') /\ lq_is h' q' (map f xs) /\ lq_is h' q xs) /\
  (forall f h q xs, lq_is h q xs ->
     exists h' q', lq_map_bang f h q = Some (h', q') /\ lq_is h' q' (map f xs)) /\
  (* list-queue-unfold: [ys] is what SRFI 1 unfold returns; with a queue the elements go in front *)
  (forall fuel stop mapper succ seed ys h, unfold_list fuel stop mapper succ seed = Some ys ->
     (exists h' q', lq_unfold fuel stop mapper succ seed h None = Some (h', q') /\ lq_is h' q' ys) /\
     (forall q xs, lq_is h q xs ->
        exists h' q', lq_unfold fuel stop mapper succ seed h (Some q) = Some (h', q') /\
                      lq_is h' q' (ys ++ xs))) /\
  (* list-queue-unfold-right: with a queue the elements go to the back *)
  (forall fuel stop mapper succ seed ys h, unfold_right_list fuel stop mapper succ seed [] = Some ys ->
     (exists h' q', lq_unfold_right fuel stop mapper succ seed h None = Some (h', q') /\ lq_is h' q' ys) /\
     (forall q xs, lq_is h q xs ->
        exists h' q', lq_unfold_right fuel stop mapper succ seed h (Some q) = Some (h', q') /\
                      lq_is h' q' (xs ++ ys))).
Proof.
  assert (Hkeep : forall h h' q' xs' qs xss, lq_post h [] h' q' xs' ->
            Forall2 (lq_is h) qs xss -> Forall2 (lq_is h') qs xss).
  { intros h h' q' xs' qs xss Hpost HF. induction HF as [|q xs qs xss Hq HF IH]; constructor; [|exact IH].
    destruct (lqp_is_repr Hq) as (locs & Hr).
    assert (Hdis : disjoint [] locs) by (intros l []).
    destruct (lqp_frame Hpost Hr Hdis) as (Hr' & _). eapply lqp_repr_is. exact Hr'. }
  repeat match goal with |- _ /\ _ => split end.
  - intros h p xs (locs & Hseg). rewrite (lqp_make1 Hseg). eexists. split; [reflexivity|].
    split; [reflexivity|]. eapply lqp_repr_is. apply lqp_is_list_repr. exact Hseg.
  - intros h p locs xs Hseg. eapply lqp_repr_is. apply lqp_is_list_repr. exact Hseg.
  - intros h xs. destruct (lqp_of_list h [] xs) as (h' & q & Hrun & Hpost).
    exists h', q. split; [exact Hrun|]. eapply lqp_post_is. exact Hpost.
  - intros h q xs Hq. destruct (lqp_is_repr Hq) as (locs & Hr).
    destruct (lqp_copy Hr) as (h' & q' & Hrun & Hpost). exists h', q'. split; [exact Hrun|].
    assert (Hdis : disjoint [] locs) by (intros l []).
    destruct (lqp_frame Hpost Hr Hdis) as (Hr' & locs' & Hr1' & Hdis').
    repeat split.
    + eapply lqp_post_is. exact Hpost.
    + apply (lqp_repr_list Hr1').
    + exists locs, xs. exact Hr'.
    + apply (lqp_repr_list Hr').
    + exists locs', locs. repeat split; [apply (lqp_repr_list Hr1')|apply (lqp_repr_list Hr')|exact Hdis'].
  - intros h q x xs Hq. destruct (lqp_is_repr Hq) as (locs & Hr).
    destruct (lqp_add_front x Hr) as (h' & q' & Hrun & Hpost). exists h', q'.
    split; [exact Hrun|]. eapply lqp_post_is. exact Hpost.
  - intros h q x xs Hq. destruct (lqp_is_repr Hq) as (locs & Hr).
    destruct (lqp_add_back x Hr) as (h' & q' & Hrun & Hpost). exists h', q'.
    split; [exact Hrun|]. eapply lqp_post_is. exact Hpost.
  - intros h q Hq. destruct (lqp_is_repr Hq) as (locs & Hr). exact (lqp_remove_front Hr).
  - intros h q a xs Hq. destruct (lqp_is_repr Hq) as (locs & Hr).
    destruct (lqp_remove_front Hr) as (q' & Hrun & Hpost). exists q'.
    split; [exact Hrun|]. eapply lqp_post_is. exact Hpost.
  - intros h q Hq. destruct (lqp_is_repr Hq) as (locs & Hr).
    destruct (lqp_remove_back Hr) as [Hnil _]. auto.
  - intros h q xs z Hq. destruct (lqp_is_repr Hq) as (locs & Hr).
    destruct (lqp_remove_back Hr) as [_ Hsnoc].
    destruct (Hsnoc _ _ eq_refl) as (h' & q' & Hrun & Hpost). exists h', q'.
    split; [exact Hrun|]. eapply lqp_post_is. exact Hpost.
  - intros h q xs Hq Hne. destruct (lqp_is_repr Hq) as (locs & Hr).
    destruct (lqp_remove_back Hr) as [_ Hsnoc].
    destruct (lqp_list_last_case xs) as [->|(xs0 & z & ->)]; [contradiction|].
    destruct (Hsnoc _ _ eq_refl) as (h' & q' & Hrun & Hpost). exists h', q'.
    rewrite last_last, removelast_last. split; [exact Hrun|]. eapply lqp_post_is. exact Hpost.
  - intros h q xs Hq. destruct (lqp_is_repr Hq) as (locs & Hr).
    destruct (lqp_remove_all Hr) as [Hpost Hch]. split; [eapply lqp_post_is; exact Hpost|].
    exists locs. destruct Hr as [Hseg _]. exact Hseg.
  - intros h q p xs (locs & Hseg). rewrite (lqp_set_list1 q Hseg). eexists. split; [reflexivity|].
    split; [reflexivity|]. eapply lqp_repr_is. apply lqp_is_list_repr. exact Hseg.
  - intros h q p locs xs Hseg. eapply lqp_repr_is. apply lqp_is_list_repr. exact Hseg.
  - intros h qs xss HF. destruct (lqp_concatenate HF) as (h' & q & Hrun & Hpost). exists h', q.
    split; [exact Hrun|]. split; [eapply lqp_post_is; exact Hpost|eapply Hkeep; eassumption].
  - intros h qs xss HF. destruct (lqp_concatenate HF) as (h' & q & Hrun & Hpost). exists h', q.
    split; [exact Hrun|]. split; [eapply lqp_post_is; exact Hpost|eapply Hkeep; eassumption].
  - intros h qs xss HF. destruct (lqp_append_bang HF) as (h' & q & Hrun & Hpost). exists h', q.
    split; [exact Hrun|]. split; [eapply lqp_post_is; exact Hpost|eapply Hkeep; eassumption].
  - intros f h q xs Hq. destruct (lqp_is_repr Hq) as (locs & Hr).
    destruct (lqp_map f Hr) as (h' & q' & Hrun & Hpost). exists h', q'. split; [exact Hrun|].
    split; [eapply lqp_post_is; exact Hpost|].
    assert (Hdis : disjoint [] locs) by (intros l []).
    destruct (lqp_frame Hpost Hr Hdis) as (Hr' & _). eapply lqp_repr_is. exact Hr'.
  - intros f h q xs Hq. destruct (lqp_is_repr Hq) as (locs & Hr).
    destruct (lqp_map_bang f Hr) as (h' & q' & Hrun & Hpost). exists h', q'. split; [exact Hrun|].
    eapply lqp_post_is; exact Hpost.
  - intros fuel stop mapper succ seed ys h Hu.
    destruct (lqp_unfold fuel stop mapper succ seed h Hu) as [(h' & q' & Hrun & Hpost) Hq'].
    split.
    + exists h', q'. split; [exact Hrun|eapply lqp_post_is; exact Hpost].
    + intros q xs Hq. destruct (lqp_is_repr Hq) as (locs & Hr).
      destruct (Hq' _ _ _ Hr) as (h2 & q2 & Hrun2 & Hpost2).
      exists h2, q2. split; [exact Hrun2|eapply lqp_post_is; exact Hpost2].
  - intros fuel stop mapper succ seed ys h Hu.
    destruct (lqp_unfold_right fuel stop mapper succ seed h Hu) as [(h' & q' & Hrun & Hpost) Hq'].
    split.
    + exists h', q'. split; [exact Hrun|eapply lqp_post_is; exact Hpost].
    + intros q xs Hq. destruct (lqp_is_repr Hq) as (locs & Hr).
      destruct (Hq' _ _ _ Hr) as (h2 & q2 & Hrun2 & Hpost2).
      exists h2, q2. split; [exact Hrun2|eapply lqp_post_is; exact Hpost2].
Qed.

(** * THEOREM 2: the observers read the list *)

Theorem lq_observers_refine_lists :
  (* list-queue-front = car of the list, an error on the empty queue *)
  (forall h q xs, lq_is h q xs -> lq_front h q = hd_error xs) /\
  (* list-queue-back = the last element, an error on the empty queue *)
  (forall h q, lq_is h q [] -> lq_back h q = None) /\
  (forall h q xs z, lq_is h q (xs ++ [z]) -> lq_back h q = Some z) /\
  (forall h q xs, lq_is h q xs -> xs <> [] -> lq_back h q = Some (last xs 0%Z)) /\
  (* list-queue-empty? *)
  (forall h q xs, lq_is h q xs -> (lq_is_empty q = true <-> xs = [])) /\
  (* list-queue-list returns the pointer to the list itself (no copy) *)
  (forall h q xs, lq_is h q xs -> chain h (lq_list_ptr q) = Some xs) /\
  (* list-queue-first-last: the list and its last pair, which make-list-queue accepts back *)
  (forall h q xs, lq_is h q xs ->
     exists locs, lseg h (fst (lq_first_last q)) PNil locs xs /\ snd (lq_first_last q) = last_ptr locs /\
                  lq_make2 (fst (lq_first_last q)) (snd (lq_first_last q)) = q) /\
  (* list-queue-for-each calls proc on the elements from first to last *)
  (forall (S : Type) (f : Z -> S -> S) h q xs s, lq_is h q xs ->
     lq_for_each f h q s = Some (fold_left (fun s x => f x s) xs s)) /\
  (forall h q xs, lq_is h q xs -> lq_for_each (fun x tr => tr ++ [x]) h q [] = Some xs).
Proof.
  repeat match goal with |- _ /\ _ => split end.
  - intros h q xs Hq. destruct (lqp_is_repr Hq) as (locs & Hr). exact (lqp_front Hr).
  - intros h q Hq. destruct (lqp_is_repr Hq) as (locs & Hr). destruct (lqp_back Hr) as [Hnil _]. auto.
  - intros h q xs z Hq. destruct (lqp_is_repr Hq) as (locs & Hr). destruct (lqp_back Hr) as [_ Hs].
    eapply Hs. reflexivity.
  - intros h q xs Hq Hne. destruct (lqp_is_repr Hq) as (locs & Hr). destruct (lqp_back Hr) as [_ Hs].
    destruct (lqp_list_last_case xs) as [->|(xs0 & z & ->)]; [contradiction|].
    rewrite last_last. eapply Hs. reflexivity.
  - intros h q xs Hq. destruct (lqp_is_repr Hq) as (locs & Hr). rewrite (lqp_is_empty Hr).
    destruct xs; split; intros; try reflexivity; discriminate.
  - intros h q xs [_ Hl]. exact Hl.
  - intros h q xs Hq. destruct (lqp_is_repr Hq) as (locs & Hseg & Hlast). exists locs.
    destruct q as [fp lp]. cbn [lq_first_last fst snd q_first q_last] in *. auto.
  - intros S f h q xs s Hq. destruct (lqp_is_repr Hq) as (locs & Hr). exact (lqp_for_each f s Hr).
  - intros h q xs Hq. destruct (lqp_is_repr Hq) as (locs & Hr).
    rewrite (lqp_for_each (fun x tr => tr ++ [x]) [] Hr). rewrite lqp_trace. reflexivity.
Qed.

(** * THEOREM 3, general form: every mutator, several queues *)

(** one destructive operation on the queue held in a variable: heap and record before and after *)
Inductive lq_step (h : heap) (q : lq) : heap -> lq -> Prop :=
| lq_step_add_front : forall x h' q', lq_add_front h q x = (h', q') -> lq_step h q h' q'
| lq_step_add_back : forall x h' q', lq_add_back h q x = Some (h', q') -> lq_step h q h' q'
| lq_step_remove_front : forall q' a, lq_remove_front h q = Some (q', a) -> lq_step h q h q'
| lq_step_remove_back : forall h' q' a, lq_remove_back h q = Some (h', q', a) -> lq_step h q h' q'
| lq_step_remove_all : lq_step h q h (fst (lq_remove_all q))
| lq_step_map_bang : forall f h' q', lq_map_bang f h q = Some (h', q') -> lq_step h q h' q'
| lq_step_set_list_new : forall xs h1 p q',
    h_alloc_list h xs PNil = (h1, p) -> lq_set_list1 h1 q p = Some q' -> lq_step h q h1 q'
| lq_step_unfold : forall fuel stop mapper succ seed h' q',
    lq_unfold fuel stop mapper succ seed h (Some q) = Some (h', q') -> lq_step h q h' q'
| lq_step_unfold_right : forall fuel stop mapper succ seed h' q',
    lq_unfold_right fuel stop mapper succ seed h (Some q) = Some (h', q') -> lq_step h q h' q'.

Lemma lqp_step_post : forall h q locs xs h' q',
  lq_repr h q locs xs -> lq_step h q h' q' -> exists xs', lq_post h locs h' q' xs'.
Proof.
  intros h q locs xs h' q' Hr Hstep.
  assert (Hweak : forall xs', lq_post h [] h' q' xs' -> lq_post h locs h' q' xs').
  { intros xs' (locs' & Hr' & Hso & Hof & Hlen). exists locs'. repeat split; try apply Hr'; try exact Hlen.
    - apply lqp_same_outside_weaken. exact Hso.
    - intros l Hin. destruct (Hof l Hin) as [[]|Hge]. right. exact Hge. }
  destruct Hstep as [x h' q' Hrun|x h' q' Hrun|q' a Hrun|h' q' a Hrun| |f h' q' Hrun
                     |ys h1 p q' Halloc Hrun|fuel stop mapper succ seed h' q' Hrun
                     |fuel stop mapper succ seed h' q' Hrun].
  - destruct (lqp_add_front x Hr) as (h2 & q2 & Hrun2 & Hpost). rewrite Hrun in Hrun2.
    inversion Hrun2; subst. eauto.
  - destruct (lqp_add_back x Hr) as (h2 & q2 & Hrun2 & Hpost). rewrite Hrun in Hrun2.
    inversion Hrun2; subst. eauto.
  - pose proof (lqp_remove_front Hr) as Hrf. destruct xs as [|a0 xs]; [congruence|].
    destruct Hrf as (q2 & Hrun2 & Hpost). rewrite Hrun in Hrun2. inversion Hrun2; subst. eauto.
  - destruct (lqp_remove_back Hr) as [Hnil Hsnoc].
    destruct (lqp_list_last_case xs) as [->|(xs0 & z & ->)]; [rewrite (Hnil eq_refl) in Hrun; discriminate|].
    destruct (Hsnoc _ _ eq_refl) as (h2 & q2 & Hrun2 & Hpost). rewrite Hrun in Hrun2.
    inversion Hrun2; subst. eauto.
  - destruct (lqp_remove_all Hr) as [Hpost _]. eauto.
  - destruct (lqp_map_bang f Hr) as (h2 & q2 & Hrun2 & Hpost). rewrite Hrun in Hrun2.
    inversion Hrun2; subst. eauto.
  - destruct (lqp_alloc_list_nil _ _ Halloc) as (e & nl & -> & Hf & Hseg).
    rewrite (lqp_set_list1 q Hseg) in Hrun. inversion Hrun; subst. exists ys. apply Hweak.
    exists nl. repeat split.
    + exact Hseg.
    + apply lqp_same_outside_ext.
    + apply lqp_fresh_old_or_fresh. exact Hf.
    + rewrite app_length. lia.
  - destruct (unfold_list fuel stop mapper succ seed) as [ys|] eqn:Hu;
      [|unfold lq_unfold in Hrun; rewrite Hu in Hrun; discriminate].
    destruct (lqp_unfold fuel stop mapper succ seed h Hu) as [_ Hq].
    destruct (Hq _ _ _ Hr) as (h2 & q2 & Hrun2 & Hpost). rewrite Hrun in Hrun2.
    inversion Hrun2; subst. eauto.
  - destruct (unfold_right_list fuel stop mapper succ seed []) as [ys|] eqn:Hu;
      [|unfold lq_unfold_right in Hrun; rewrite Hu in Hrun; discriminate].
    destruct (lqp_unfold_right fuel stop mapper succ seed h Hu) as [_ Hq].
    destruct (Hq _ _ _ Hr) as (h2 & q2 & Hrun2 & Hpost). rewrite Hrun in Hrun2.
    inversion Hrun2; subst. eauto.
Qed.

(** any destructive operation on [q1] keeps [q1] well formed and does not disturb a disjoint [q2];
    the conclusion re-establishes the hypotheses, so it holds along any sequence of operations on
    any number of pairwise disjoint queues of one heap *)
Theorem lq_frame_all_mutators : forall h q1 h' q1' q2 xs2,
  lq_wf h q1 -> lq_step h q1 h' q1' -> lq_is h q2 xs2 -> lq_disjoint h q1 q2 ->
  lq_wf h' q1' /\ lq_undisturbed h h' q1' q2 xs2.
Proof.
  intros h q1 h' q1' q2 xs2 (locs1 & xs1 & Hr1) Hstep H2 Hdis.
  destruct (lqp_step_post Hr1 Hstep) as (xs1' & Hpost). split.
  - apply (lqp_post_is Hpost).
  - eapply lqp_frame_is; eassumption.
Qed.

(** * Non-vacuity: scripts run by the entry points of LQueue.v ([vm_compute]) *)

Definition lq_script (cs : list lq_cmd) : option (list lq_res) := option_map snd (lqs_run_all cs lqs_init).

(** adds and removes on the empty queue; remove-back! down to empty, then add-back! *)
Example lq_example_adds_removes :
  lq_script [CEmptyP 0; CAddBack 0 1%Z; CAddBack 0 2%Z; CAddFront 0 0%Z; CList 0; CFront 0; CBack 0;
             CRemoveFront 0; CRemoveBack 0; CList 0; CWf 0; CRemoveBack 0; CEmptyP 0; CWf 0;
             CAddBack 0 7%Z; CList 0; CBack 0; CWf 0]
  = Some [RBool true; RUnit; RUnit; RUnit; RList [0; 1; 2]%Z; RInt 0%Z; RInt 2%Z;
          RInt 0%Z; RInt 2%Z; RList [1%Z]; RBool true; RInt 1%Z; RBool true; RBool true;
          RUnit; RList [7%Z]; RInt 7%Z; RBool true].
Proof. vm_compute. reflexivity. Qed.

Example lq_example_remove_back_to_empty_then_add :
  lq_script [CNew 0 [1; 2; 3]%Z; CRemoveBack 0; CRemoveBack 0; CRemoveBack 0; CWf 0;
             CAddBack 0 9%Z; CAddBack 0 10%Z; CList 0; CBack 0; CWf 0]
  = Some [RUnit; RInt 3%Z; RInt 2%Z; RInt 1%Z; RBool true; RUnit; RUnit; RList [9; 10]%Z; RInt 10%Z;
          RBool true].
Proof. vm_compute. reflexivity. Qed.

(** the four procedures that raise on the empty queue *)
Example lq_example_errors_on_empty :
  lq_script [CRemoveFront 0] = None /\ lq_script [CRemoveBack 0] = None /\
  lq_script [CFront 0] = None /\ lq_script [CBack 0] = None.
Proof. vm_compute. repeat split; reflexivity. Qed.

(** three queues in one heap, interleaved destructive operations, concatenate, append!, map!,
    for-each: every queue stays well formed and keeps its own elements *)
Example lq_example_three_queues :
  lq_script [CNew 0 [1; 2]%Z; CNew 1 [10; 20]%Z; CNew 2 []; CAddBack 0 3%Z; CRemoveBack 1;
             CAddBack 2 100%Z; CMapBang 0 2%Z 1%Z; CAddFront 1 5%Z; CConcat 2 [0; 1; 2];
             CList 0; CList 1; CList 2; CWf 0; CWf 1; CWf 2;
             CAppendBang 1 [0; 2]; CAddBack 1 0%Z; CList 1; CList 0; CList 2; CWf 0; CWf 2; CForEach 1]
  = Some [RUnit; RUnit; RUnit; RUnit; RInt 20%Z; RUnit; RUnit; RUnit; RUnit;
          RList [3; 5; 7]%Z; RList [5; 10]%Z; RList [3; 5; 7; 5; 10; 100]%Z;
          RBool true; RBool true; RBool true; RUnit; RUnit;
          RList [3; 5; 7; 3; 5; 7; 5; 10; 100; 0]%Z; RList [3; 5; 7]%Z; RList [3; 5; 7; 5; 10; 100]%Z;
          RBool true; RBool true; RList [3; 5; 7; 3; 5; 7; 5; 10; 100; 0]%Z].
Proof. vm_compute. reflexivity. Qed.

Example lq_example_unfold :
  lq_script [CUnfold 0 false 0%Z 4%Z 1%Z 0%Z; CList 0; CUnfold 0 true 10%Z 12%Z 1%Z 0%Z; CList 0;
             CUnfoldRight 0 true 20%Z 22%Z 1%Z 0%Z; CList 0; CWf 0;
             CUnfoldRight 1 false 0%Z 3%Z 2%Z 1%Z; CList 1; CWf 1]
  = Some [RUnit; RList [0; 1; 2; 3]%Z; RUnit; RList [10; 11; 0; 1; 2; 3]%Z; RUnit;
          RList [10; 11; 0; 1; 2; 3; 21; 20]%Z; RBool true; RUnit; RList [5; 3; 1]%Z; RBool true].
Proof. vm_compute. reflexivity. Qed.

(** * Shared structure: the caller's problem (SRFI 117: "it is an error" to keep using a list that
    was handed to make-list-queue / list-queue-set-list!, or the result of list-queue-list /
    list-queue-first-last, once either side is mutated)

    [(define a (list-queue 1 2)) (define b (make-list-queue (list-queue-list a)))]: two records on
    the same two pairs.  [(list-queue-add-back! a 3)] does a [set-cdr!] on the pair both call their
    last one: the LIST of [b] becomes (1 2 3) but [b]'s [last] field still points at the pair of 2,
    so [(list-queue-back b)] answers 2 and [b] violates the invariant.  Then
    [(list-queue-add-back! b 4)] overwrites that cdr: the 3 is lost from [a], whose [last] field now
    points at a pair that is no longer in its list ([(list-queue-back a)] answers 3, the list is
    (1 2 4)). *)
Example lq_example_shared_structure :
  lq_script [CNew 0 [1; 2]%Z; CMake1 1 0; CAddBack 0 3%Z; CList 1; CBack 1; CWf 1;
             CAddBack 1 4%Z; CList 0; CBack 0; CWf 0; CList 1; CWf 1]
  = Some [RUnit; RUnit; RUnit; RList [1; 2; 3]%Z; RInt 2%Z; RBool false;
          RUnit; RList [1; 2; 4]%Z; RInt 3%Z; RBool false; RList [1; 2; 4]%Z; RBool true].
Proof. vm_compute. reflexivity. Qed.

(** the same with list-queue-first-last + two-argument make-list-queue and with
    list-queue-set-list!: after [(list-queue-remove-back! a)] the sharing queues see the shorter list
    but keep a [last] pair that is outside it *)
Example lq_example_shared_structure_remove_back :
  lq_script [CNew 0 [1; 2; 3]%Z; CMake2 1 0; CWf 1; CSetList1 2 0; CWf 2; CRemoveBack 0;
             CWf 1; CList 1; CBack 1; CList 2; CBack 2]
  = Some [RUnit; RUnit; RBool true; RUnit; RBool true; RInt 3%Z;
          RBool false; RList [1; 2]%Z; RInt 3%Z; RList [1; 2]%Z; RInt 3%Z].
Proof. vm_compute. reflexivity. Qed.

(** so the disjointness hypothesis of [lq_frame] cannot be dropped: concrete heap
    0: (2 . ())  1: (1 . #0), two records {list = #1, last = #0} *)
Example lq_frame_without_disjointness_refuted :
  ~ (forall h q1 q2 x xs2 h' q1',
       lq_wf h q1 -> lq_is h q2 xs2 -> lq_add_back h q1 x = Some (h', q1') -> lq_is h' q2 xs2).
Proof.
  intros H.
  set (h := [(2%Z, PNil); (1%Z, PPair 0)]). set (q := Lq (PPair 1) (PPair 0)).
  assert (Hwf : lq_wf h q) by (apply lq_wf_b_spec; vm_compute; reflexivity).
  assert (His : lq_is h q [1; 2]%Z) by (split; [exact Hwf|vm_compute; reflexivity]).
  destruct (H h q q 3%Z [1; 2]%Z [(2%Z, PPair 2); (1%Z, PPair 0); (3%Z, PNil)] (Lq (PPair 1) (PPair 2))
              Hwf His eq_refl) as [Hwf' _].
  apply lq_wf_b_spec in Hwf'. vm_compute in Hwf'. discriminate.
Qed.

(** the two-argument forms trust the caller: a wrong [last] gives an ill-formed queue at once *)
Example lq_make2_wrong_last_refuted :
  ~ (forall h p lastp xs, is_list h p xs -> lq_wf h (lq_make2 p lastp)).
Proof.
  intros H.
  assert (Hl : is_list [(2%Z, PNil); (1%Z, PPair 0)] (PPair 1) [1; 2]%Z).
  { exists [1; 0]. apply lseg_cons with (d := PPair 0); [reflexivity|].
    apply lseg_cons with (d := PNil); [reflexivity|constructor]. }
  specialize (H _ _ (PPair 1) _ Hl). apply lq_wf_b_spec in H. vm_compute in H. discriminate.
Qed.

(** * Regression witnesses: the two defects of the pinned queue.scm that /repo already repairs

    (1) list-queue-remove-back! before the fix: the loop did [(set-cdr! head '())] without
    [(list-queue-last-set! list-queue head)].  The model of THAT loop breaks the invariant on
    (list-queue 1 2 3): [last] stays on the removed pair and the next add-back! is lost. *)
Fixpoint lq_remove_back_lp_before_fix (n : nat) (h : heap) (q : lq) (head tail : ptr)
  : option (heap * lq * Z) :=
  match n with
  | O => None
  | S n' =>
      match h_cdr h tail with
      | None => None
      | Some PNil =>
          match h_set_cdr h head PNil with
          | None => None
          | Some h1 => match h_car h1 tail with Some a => Some (h1, q, a) | None => None end
          end
      | Some d => lq_remove_back_lp_before_fix n' h q tail d
      end
  end.

Definition lq_remove_back_before_fix (h : heap) (q : lq) : option (heap * lq * Z) :=
  match h_cdr h (q_first q) with
  | None => None
  | Some PNil => match h_car h (q_first q) with Some a => Some (h, Lq PNil PNil, a) | None => None end
  | Some d => lq_remove_back_lp_before_fix (S (length h)) h q (q_first q) d
  end.

Example lq_remove_back_before_fix_refuted :
  exists h q h1 q1 h2 q2,
    lq_is h q [1; 2; 3]%Z /\
    lq_remove_back_before_fix h q = Some (h1, q1, 3%Z) /\ lq_list h1 q1 = Some [1; 2]%Z /\
    ~ lq_wf h1 q1 /\ lq_back h1 q1 = Some 3%Z /\
    lq_add_back h1 q1 4%Z = Some (h2, q2) /\ lq_list h2 q2 = Some [1; 2]%Z.
Proof.
  exists [(3%Z, PNil); (2%Z, PPair 0); (1%Z, PPair 1)], (Lq (PPair 2) (PPair 0)).
  do 4 eexists. split; [|split; [vm_compute; reflexivity|]].
  - split; [apply lq_wf_b_spec|]; vm_compute; reflexivity.
  - split; [vm_compute; reflexivity|]. split.
    + intros Hwf. apply lq_wf_b_spec in Hwf. vm_compute in Hwf. discriminate.
    + split; [vm_compute; reflexivity|]. split; vm_compute; reflexivity.
Qed.

(** (2) list-queue-set-list! before the fix called [(last-pair list)] without the [(pair? list)]
    test: on '() that is [(cdr '())], an error; list-queue-map! on an empty queue hit it. *)
Example lq_set_list_before_fix_raises : forall h, h_last_pair h PNil = None.
Proof. intros h. reflexivity. Qed.

Example lq_map_bang_on_empty_queue_now_works :
  lq_script [CMapBang 0 2%Z 1%Z; CList 0; CWf 0] = Some [RUnit; RList []; RBool true].
Proof. vm_compute. reflexivity. Qed.

Print Assumptions lq_mutators_keep_invariant_and_refine_lists.
Print Assumptions lq_observers_refine_lists.
Print Assumptions lq_frame.
Print Assumptions lq_frame_all_mutators.
Print Assumptions lq_wf_b_spec.
Print Assumptions lq_frame_without_disjointness_refuted.
Print Assumptions lq_remove_back_before_fix_refuted.
