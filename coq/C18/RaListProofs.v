(** C18 PROOFS about the SRFI 101 random-access list model [RaList.v]: the canonical (skew-binary)
    form, its preservation by every constructor, uniqueness of the shape per length, and the
    refinement of the list operations ([ra_flat] is the denoted list). *)
From Coq Require Import List Arith Bool Lia.
From ChibiV Require Import C18.RaList.
Import ListNotations.

(* a perfect binary tree of height h >= 1 (a leaf has height 1): it holds 2^h - 1 elements *)
Fixpoint ra_perfect {A} (h : nat) (t : tree A) : Prop :=
  match t with
  | Leaf _ => h = 1
  | Node _ l r => match h with S h' => 1 <= h' /\ ra_perfect h' l /\ ra_perfect h' r | O => False end
  end.
(* heights strictly increasing, except that the first two may be equal *)
Fixpoint ra_increasing (hs : list nat) : Prop :=
  match hs with a :: ((b :: _) as tl) => a < b /\ ra_increasing tl | _ => True end.
Definition ra_heights_ok (hs : list nat) : Prop :=
  match hs with a :: ((b :: _) as tl) => a <= b /\ ra_increasing tl | _ => True end.
(* the canonical form of 101.scm: every kons holds a perfect tree of height h with cached size 2^h - 1 *)
Definition ra_canon {A} (ls : ralist A) : Prop :=
  exists hs, Forall2 (fun h st => 1 <= h /\ fst st = 2 ^ h - 1 /\ ra_perfect h (snd st)) hs ls /\ ra_heights_ok hs.

(** * Auxiliary vocabulary *)
Definition ra_entry {A} (h : nat) (st : nat * tree A) : Prop :=
  1 <= h /\ fst st = 2 ^ h - 1 /\ ra_perfect h (snd st).
Definition ra_canon_h {A} (hs : list nat) (ls : ralist A) : Prop :=
  Forall2 ra_entry hs ls /\ ra_heights_ok hs.

Lemma ra_canon_iff : forall A (ls : ralist A), ra_canon ls <-> exists hs, ra_canon_h hs ls.
Proof. intros A ls. unfold ra_canon, ra_canon_h. split; intros (hs & H1 & H2); exists hs; split; assumption. Qed.

(** * Arithmetic *)
Lemma pow2_pos h : 1 <= 2 ^ h.
Proof. pose proof (Nat.pow_nonzero 2 h). lia. Qed.
Lemma pow2_S h : 2 ^ S h = 2 * 2 ^ h.
Proof. apply Nat.pow_succ_r'. Qed.
Lemma pow2_1 : 2 ^ 1 = 2.
Proof. reflexivity. Qed.
Lemma pow2_inj a b : 2 ^ a - 1 = 2 ^ b - 1 -> a = b.
Proof.
  intros H. pose proof (pow2_pos a). pose proof (pow2_pos b).
  apply (Nat.pow_inj_r 2); lia.
Qed.
Lemma pow2_le a b : 2 ^ a - 1 <= 2 ^ b - 1 -> a <= b.
Proof.
  intros H. pose proof (pow2_pos a). pose proof (pow2_pos b).
  apply (Nat.pow_le_mono_r_iff 2); lia.
Qed.
Lemma pow2_lt a b : 2 ^ a - 1 < 2 ^ b - 1 -> a < b.
Proof.
  intros H. pose proof (pow2_pos a). pose proof (pow2_pos b).
  apply (Nat.pow_lt_mono_r_iff 2); lia.
Qed.
Lemma pow2_ge2 h : 1 <= h -> 2 <= 2 ^ h.
Proof. intros H. destruct h as [|h]; [lia|]. rewrite pow2_S. pose proof (pow2_pos h). lia. Qed.
Lemma half_spec n : 2 * ra_half n <= n /\ n <= 2 * ra_half n + 1.
Proof.
  unfold ra_half. pose proof (Nat.div_mod n 2). pose proof (Nat.mod_upper_bound n 2). lia.
Qed.
Lemma half_odd m : ra_half (2 * m + 1) = m.
Proof. pose proof (half_spec (2 * m + 1)). lia. Qed.
Lemma half_even m : ra_half (2 * m) = m.
Proof. pose proof (half_spec (2 * m)). lia. Qed.

(** * Generic list facts *)
Lemma Forall2_cons_inv_r {X Y} (R : X -> Y -> Prop) hs y l :
  Forall2 R hs (y :: l) -> exists h hs', hs = h :: hs' /\ R h y /\ Forall2 R hs' l.
Proof. intros H. inversion H; subst. eauto. Qed.
Lemma Forall2_nil_inv_r {X Y} (R : X -> Y -> Prop) hs : Forall2 R hs (@nil Y) -> hs = [].
Proof. intros H. inversion H; reflexivity. Qed.
Lemma app_inv_len {X} (a c b d : list X) : length a = length c -> a ++ b = c ++ d -> a = c /\ b = d.
Proof.
  revert c. induction a as [|x a IH]; intros [|y c] HL HE; simpl in *; try discriminate.
  - auto.
  - injection HE as -> HE. destruct (IH c) as [-> ->]; [lia|assumption|auto].
Qed.
Lemma combine_app_len {X Y} (a b : list X) (c d : list Y) :
  length a = length c -> combine (a ++ b) (c ++ d) = combine a c ++ combine b d.
Proof.
  revert c. induction a as [|x a IH]; intros [|y c] HL; simpl in *; try discriminate.
  - reflexivity.
  - rewrite IH by lia. reflexivity.
Qed.
Lemma upd_app_l {X} (l1 l2 : list X) i y : i < length l1 ->
  firstn i (l1 ++ l2) ++ y :: skipn (S i) (l1 ++ l2) = (firstn i l1 ++ y :: skipn (S i) l1) ++ l2.
Proof.
  intros H. rewrite firstn_app, skipn_app.
  replace (i - length l1) with 0 by lia. replace (S i - length l1) with 0 by lia.
  simpl firstn at 2. rewrite app_nil_r. rewrite <- app_assoc. reflexivity.
Qed.
Lemma upd_app_r {X} (l1 l2 : list X) i y : length l1 <= i ->
  firstn i (l1 ++ l2) ++ y :: skipn (S i) (l1 ++ l2) =
  l1 ++ (firstn (i - length l1) l2 ++ y :: skipn (S (i - length l1)) l2).
Proof.
  intros H. rewrite firstn_app, skipn_app.
  rewrite firstn_all2 by lia. rewrite (skipn_all2 l1) by lia.
  replace (S i - length l1) with (S (i - length l1)) by lia.
  rewrite <- app_assoc. reflexivity.
Qed.

Lemma upd_cons {X} (x : X) (l : list X) i y :
  firstn (S i) (x :: l) ++ y :: skipn (S (S i)) (x :: l) = x :: (firstn i l ++ y :: skipn (S i) l).
Proof. reflexivity. Qed.

(** * Perfect trees *)
(* [ra_perfect] is structural on its height argument: unfolding equations *)
Lemma perfect_leaf {A} h (x : A) : ra_perfect h (Leaf x) <-> h = 1.
Proof. destruct h; simpl; tauto. Qed.
Lemma perfect_node {A} h (x : A) l r :
  ra_perfect h (Node x l r) <-> exists h', h = S h' /\ 1 <= h' /\ ra_perfect h' l /\ ra_perfect h' r.
Proof.
  destruct h as [|h']; simpl.
  - split; [contradiction|]. intros (h' & H & _). discriminate.
  - split.
    + intros H. exists h'. split; [reflexivity|exact H].
    + intros (h2 & H & H2). injection H as ->. exact H2.
Qed.
Lemma perfect_pos {A} h (t : tree A) : ra_perfect h t -> 1 <= h.
Proof.
  destruct t; intros H.
  - apply perfect_leaf in H. lia.
  - apply perfect_node in H. destruct H as (h' & -> & _). lia.
Qed.
Lemma perfect_length {A} (t : tree A) : forall h, ra_perfect h t -> length (ra_tree_list t) = 2 ^ h - 1.
Proof.
  induction t as [x|x l IHl r IHr]; intros h H.
  - apply perfect_leaf in H. subst. reflexivity.
  - apply perfect_node in H. destruct H as (h' & -> & Hh & Hl & Hr).
    cbn [ra_tree_list length].
    rewrite app_length, (IHl _ Hl), (IHr _ Hr). pose proof (pow2_pos h'). rewrite pow2_S. lia.
Qed.
Lemma entry_size {A} h s (t : tree A) : ra_entry h (s, t) -> s = length (ra_tree_list t) /\ 1 <= s.
Proof.
  intros (H1 & H2 & H3). simpl in H2, H3. rewrite (perfect_length _ _ H3). pose proof (pow2_ge2 h H1). lia.
Qed.
Lemma entry_mk {A} h (t : tree A) : ra_perfect h t -> ra_entry h (2 ^ h - 1, t).
Proof. intros H. split; [eapply perfect_pos; exact H|]. split; [reflexivity|exact H]. Qed.
Lemma entry_leaf {A} (x : A) : ra_entry 1 (1, Leaf x).
Proof. split; [lia|]. split; [reflexivity|]. apply perfect_leaf. reflexivity. Qed.
Lemma entry_node {A} a s (x : A) t t2 :
  ra_entry a (s, t) -> ra_entry a (s, t2) -> ra_entry (S a) (1 + s + s, Node x t t2).
Proof.
  intros (H1 & H2 & H3) (_ & _ & H4). unfold ra_entry. cbn [fst snd] in *. split; [lia|]. split.
  - rewrite pow2_S. pose proof (pow2_pos a). lia.
  - apply perfect_node. exists a. auto.
Qed.
Lemma entry_leaf_inv {A} h s (x : A) : ra_entry h (s, Leaf x) -> h = 1 /\ s = 1.
Proof.
  intros (H1 & H2 & H3). cbn [fst snd] in *. apply perfect_leaf in H3. subst h. rewrite pow2_1 in H2. lia.
Qed.
Lemma entry_node_inv {A} h s (x : A) l r : ra_entry h (s, Node x l r) ->
  exists h', h = S h' /\ 1 <= h' /\ s = 2 * (2 ^ h' - 1) + 1 /\ ra_perfect h' l /\ ra_perfect h' r.
Proof.
  intros (H1 & H2 & H3). cbn [fst snd] in *. apply perfect_node in H3.
  destruct H3 as (h' & -> & Hh & Hl & Hr). exists h'. rewrite pow2_S in H2. pose proof (pow2_pos h').
  repeat split; auto. lia.
Qed.

(** * Heights *)
Lemma increasing_heights_ok hs : ra_increasing hs -> ra_heights_ok hs.
Proof. destruct hs as [|a [|b tl]]; simpl; auto. intros [H1 H2]; split; [lia|exact H2]. Qed.
Lemma heights_ok_tail a hs : ra_heights_ok (a :: hs) -> ra_increasing hs.
Proof. destruct hs as [|b tl]; simpl; [auto|]. intros [_ H]; exact H. Qed.
Lemma canon_tail {A} (st : nat * tree A) ls : ra_canon (st :: ls) -> ra_canon ls.
Proof.
  intros (hs & HF & HO). apply Forall2_cons_inv_r in HF. destruct HF as (h & hs' & -> & _ & HF).
  exists hs'. split; [exact HF|]. apply increasing_heights_ok. eapply heights_ok_tail; eassumption.
Qed.

(** the weaker invariant "every kons holds a perfect tree with the right cached size" *)
Definition ra_ok {A} (ls : ralist A) : Prop := Forall (fun st => exists h, ra_entry h st) ls.
Lemma Forall2_entry_ok {A} hs (ls : ralist A) : Forall2 ra_entry hs ls -> ra_ok ls.
Proof. induction 1; constructor; eauto. Qed.
Lemma canon_ok {A} (ls : ralist A) : ra_canon ls -> ra_ok ls.
Proof. intros (hs & HF & _). eapply Forall2_entry_ok; exact HF. Qed.

(** * 1. cons *)
Theorem ra_cons_canon : forall A (x : A) ls, ra_canon ls ->
  ra_canon (ra_cons x ls) /\ ra_flat (ra_cons x ls) = x :: ra_flat ls /\
  ra_length (ra_cons x ls) = S (ra_length ls).
Proof.
  intros A x ls (hs & HF & HO).
  pose proof (entry_leaf x) as HL.
  destruct ls as [|[s t] [|[s2 t2] rest2]].
  - apply Forall2_nil_inv_r in HF. subst hs. split; [|split; reflexivity].
    exists [1]. split; [|exact I]. constructor; [exact HL|constructor].
  - apply Forall2_cons_inv_r in HF. destruct HF as (a & hs' & -> & Ha & HF).
    apply Forall2_nil_inv_r in HF. subst hs'. split; [|split; reflexivity].
    exists [1; a]. split.
    + constructor; [exact HL|]. constructor; [exact Ha|constructor].
    + simpl. split; [apply Ha|exact I].
  - apply Forall2_cons_inv_r in HF. destruct HF as (a & hs' & -> & Ha & HF).
    apply Forall2_cons_inv_r in HF. destruct HF as (b & tl & -> & Hb & HF).
    destruct HO as [Hab Hinc].
    unfold ra_cons. destruct (s2 =? s) eqn:E.
    + apply Nat.eqb_eq in E. subst s2.
      assert (b = a) by (apply pow2_inj; destruct Ha as (_ & Ha2 & _); destruct Hb as (_ & Hb2 & _);
                         cbn [fst] in *; lia).
      subst b. split; [|split].
      * exists (S a :: tl). split.
        -- constructor; [|exact HF]. apply entry_node; assumption.
        -- destruct tl as [|c tl']; [exact I|]. simpl in Hinc |- *. destruct Hinc as [H1 H2].
           split; [lia|exact H2].
      * unfold ra_flat. cbn [flat_map snd ra_tree_list app]. rewrite <- app_assoc. reflexivity.
      * cbn [ra_length]. lia.
    + apply Nat.eqb_neq in E. split; [|split; reflexivity].
      exists (1 :: a :: b :: tl). split.
      * constructor; [exact HL|]. constructor; [exact Ha|]. constructor; [exact Hb|exact HF].
      * assert (a <> b).
        { intros ->. destruct Ha as (_ & Ha2 & _); destruct Hb as (_ & Hb2 & _). cbn [fst] in *. lia. }
        simpl. split; [apply Ha|]. split; [lia|]. exact Hinc.
Qed.

(** * 2. car+cdr *)
Theorem ra_car_cdr_canon : forall A (ls : ralist A), ra_canon ls -> ls <> [] ->
  exists a d, ra_car_cdr ls = Some (a, d) /\ ra_canon d /\ ra_flat ls = a :: ra_flat d /\
              ra_length ls = S (ra_length d).
Proof.
  intros A ls HC Hne. destruct ls as [|[s t] rest]; [congruence|].
  pose proof (canon_tail _ _ HC) as HCt.
  destruct HC as (hs & HF & HO).
  apply Forall2_cons_inv_r in HF. destruct HF as (a & hs' & -> & Ha & HF).
  destruct t as [x|x l r].
  - exists x, rest. apply entry_leaf_inv in Ha. destruct Ha as [-> ->].
    split; [reflexivity|]. split; [exact HCt|]. split; reflexivity.
  - apply entry_node_inv in Ha. destruct Ha as (a' & -> & Hh & Hs & Hl & Hr).
    exists x, ((ra_half s, l) :: (ra_half s, r) :: rest).
    split; [reflexivity|].
    assert (Hhalf : ra_half s = 2 ^ a' - 1) by (rewrite Hs; apply half_odd).
    rewrite Hhalf. split; [|split].
    + exists (a' :: a' :: hs'). split.
      * constructor; [apply entry_mk; exact Hl|]. constructor; [apply entry_mk; exact Hr|exact HF].
      * simpl. split; [lia|]. destruct hs' as [|b tl]; [exact I|].
        simpl in HO. destruct HO as [H1 H2]. split; [lia|exact H2].
    + unfold ra_flat. cbn [flat_map snd ra_tree_list app]. rewrite <- app_assoc. reflexivity.
    + cbn [ra_length]. lia.
Qed.

Lemma ra_car_cdr_nil : forall A, ra_car_cdr (@nil (nat * tree A)) = None.
Proof. reflexivity. Qed.

(** * 3. length and to-list *)
Lemma ok_length_flat {A} (ls : ralist A) : ra_ok ls -> ra_length ls = length (ra_flat ls).
Proof.
  induction 1 as [|[s t] rest (h & Hh) _ IH]; [reflexivity|].
  unfold ra_flat in *. cbn [ra_length flat_map snd]. rewrite app_length, <- IH.
  apply entry_size in Hh. lia.
Qed.
Theorem ra_length_flat : forall A (ls : ralist A), ra_canon ls -> ra_length ls = length (ra_flat ls).
Proof. intros A ls H. apply ok_length_flat, canon_ok, H. Qed.

Lemma canon_length_pos {A} (ls : ralist A) : ra_canon ls -> ls <> [] -> 1 <= ra_length ls.
Proof.
  intros H Hne. destruct ls as [|[s t] rest]; [congruence|].
  apply canon_ok in H. inversion H as [|? ? (h & Hh) _]; subst. apply entry_size in Hh. cbn [ra_length]. lia.
Qed.

Theorem ra_to_list_flat : forall A (ls : ralist A), ra_canon ls ->
  ra_to_list (ra_length ls) ls = Some (ra_flat ls).
Proof.
  intros A ls. remember (ra_length ls) as n eqn:En. revert ls En.
  induction n as [|n IH]; intros ls En HC.
  - destruct ls as [|st rest]; [reflexivity|].
    pose proof (canon_length_pos _ HC ltac:(discriminate)). lia.
  - destruct ls as [|st rest]; [discriminate|].
    destruct (ra_car_cdr_canon _ _ HC ltac:(discriminate)) as (a & d & E1 & HCd & E2 & E3).
    cbn [ra_to_list]. rewrite E1. rewrite (IH d) by (assumption || lia). rewrite E2. reflexivity.
Qed.

(** * 4. the canonical shape is unique per length *)
Definition hw (h : nat) : nat := 2 ^ h - 1.
Fixpoint hsum (hs : list nat) : nat := match hs with [] => 0 | h :: tl => hw h + hsum tl end.
Definition cons_h (hs : list nat) : list nat :=
  match hs with
  | a :: b :: tl => if a =? b then S a :: tl else 1 :: hs
  | _ => 1 :: hs
  end.
Definition cdr_h (hs : list nat) : list nat :=
  match hs with
  | [] => []
  | S (S a) :: tl => S a :: S a :: tl
  | _ :: tl => tl
  end.
Lemma hw_pos h : 1 <= h -> 1 <= hw h.
Proof. intros H. unfold hw. pose proof (pow2_ge2 h H). lia. Qed.
Lemma hw_SS a : hw (S (S a)) = S (hw (S a) + hw (S a)).
Proof. unfold hw. rewrite (pow2_S (S a)). pose proof (pow2_pos (S a)). lia. Qed.

Lemma cdr_h_spec hs : Forall (le 1) hs -> ra_heights_ok hs -> hs <> [] ->
  cons_h (cdr_h hs) = hs /\ Forall (le 1) (cdr_h hs) /\ ra_heights_ok (cdr_h hs) /\
  hsum hs = S (hsum (cdr_h hs)).
Proof.
  intros HP HO Hne. destruct hs as [|h tl]; [congruence|].
  inversion HP as [|? ? Hh HPt]; subst.
  destruct h as [|[|a]]; [lia| |].
  - cbn [cdr_h]. split; [|split; [exact HPt|split]].
    + destruct tl as [|b [|c tl']]; try reflexivity.
      simpl in HO. destruct HO as (_ & Hbc & _). cbn [cons_h].
      destruct (b =? c) eqn:E; [apply Nat.eqb_eq in E; lia|reflexivity].
    + apply increasing_heights_ok. eapply heights_ok_tail; exact HO.
    + reflexivity.
  - cbn [cdr_h]. split; [|split; [|split]].
    + cbn [cons_h]. rewrite Nat.eqb_refl. reflexivity.
    + constructor; [lia|]. constructor; [lia|exact HPt].
    + destruct tl as [|b tl']; [simpl; lia|]. simpl in HO |- *. destruct HO as [H1 H2].
      split; [lia|]. split; [lia|exact H2].
    + cbn [hsum]. rewrite hw_SS. lia.
Qed.

Lemma hsum_zero hs : Forall (le 1) hs -> hsum hs = 0 -> hs = [].
Proof.
  intros HP H. destruct hs as [|h tl]; [reflexivity|]. inversion HP; subst.
  cbn [hsum] in H. pose proof (hw_pos h). lia.
Qed.

Lemma heights_unique : forall n hs1 hs2,
  Forall (le 1) hs1 -> Forall (le 1) hs2 -> ra_heights_ok hs1 -> ra_heights_ok hs2 ->
  hsum hs1 = n -> hsum hs2 = n -> hs1 = hs2.
Proof.
  induction n as [|n IH]; intros hs1 hs2 P1 P2 O1 O2 E1 E2.
  - rewrite (hsum_zero _ P1 E1), (hsum_zero _ P2 E2). reflexivity.
  - assert (N1 : hs1 <> []) by (intros ->; discriminate).
    assert (N2 : hs2 <> []) by (intros ->; discriminate).
    destruct (cdr_h_spec _ P1 O1 N1) as (C1 & P1' & O1' & S1).
    destruct (cdr_h_spec _ P2 O2 N2) as (C2 & P2' & O2' & S2).
    rewrite <- C1, <- C2. f_equal. apply IH; auto; lia.
Qed.

Lemma canon_h_facts {A} hs (ls : ralist A) : Forall2 ra_entry hs ls ->
  Forall (le 1) hs /\ ra_sizes ls = map hw hs /\ ra_length ls = hsum hs.
Proof.
  induction 1 as [|h [s t] hs' rest Hh _ (IH1 & IH2 & IH3)]; [repeat split; constructor|].
  destruct Hh as (H1 & H2 & H3). cbn [fst snd] in *. split; [constructor; assumption|]. split.
  - unfold ra_sizes in *. cbn [map fst]. rewrite IH2, H2. reflexivity.
  - cbn [ra_length hsum]. rewrite IH3, H2. reflexivity.
Qed.

Lemma canon_h_unique {A B} hs1 hs2 (l1 : ralist A) (l2 : ralist B) :
  ra_canon_h hs1 l1 -> ra_canon_h hs2 l2 -> ra_length l1 = ra_length l2 -> hs1 = hs2.
Proof.
  intros (F1 & O1) (F2 & O2) E.
  destruct (canon_h_facts _ _ F1) as (P1 & _ & L1). destruct (canon_h_facts _ _ F2) as (P2 & _ & L2).
  apply (heights_unique (ra_length l1)); auto; lia.
Qed.

Theorem ra_canon_unique_shape : forall A B (l1 : ralist A) (l2 : ralist B),
  ra_canon l1 -> ra_canon l2 -> ra_length l1 = ra_length l2 -> ra_sizes l1 = ra_sizes l2.
Proof.
  intros A B l1 l2 (hs1 & C1) (hs2 & C2) E.
  assert (hs1 = hs2) by (eapply canon_h_unique; [split; apply C1|split; apply C2|exact E]).
  subst hs2. destruct C1 as [F1 _]. destruct C2 as [F2 _].
  destruct (canon_h_facts _ _ F1) as (_ & -> & _). destruct (canon_h_facts _ _ F2) as (_ & -> & _).
  reflexivity.
Qed.

(** * 5. largest-skew-binary *)
Lemma largest_skew_binary_fuel : forall fuel n, 1 <= n -> n <= fuel ->
  exists k, 1 <= k /\ ra_largest_skew_binary fuel n = Some (2 ^ k - 1) /\ 2 ^ k - 1 <= n /\ n < 2 ^ (S k) - 1.
Proof.
  induction fuel as [|fuel IH]; intros n H1 H2; [lia|].
  cbn [ra_largest_skew_binary]. destruct (n =? 1) eqn:E.
  - apply Nat.eqb_eq in E. subst n. exists 1. split; [lia|]. split; [reflexivity|]. simpl. lia.
  - apply Nat.eqb_neq in E. pose proof (half_spec n) as Hh.
    destruct (IH (ra_half n)) as (k & Hk & -> & Hlo & Hhi); [lia|lia|].
    unfold ra_skew_succ. rewrite pow2_S in Hhi. pose proof (pow2_pos k).
    destruct (n <? S (2 * (2 ^ k - 1))) eqn:E2.
    + apply Nat.ltb_lt in E2. exists k. split; [exact Hk|]. split; [reflexivity|].
      rewrite pow2_S. lia.
    + apply Nat.ltb_ge in E2. exists (S k). split; [lia|]. split.
      * f_equal. rewrite pow2_S. lia.
      * rewrite (pow2_S (S k)), (pow2_S k). lia.
Qed.
Theorem ra_largest_skew_binary_spec : forall n, 1 <= n ->
  exists k, 1 <= k /\ ra_largest_skew_binary n n = Some (2 ^ k - 1) /\ 2 ^ k - 1 <= n /\ n < 2 ^ (S k) - 1.
Proof. intros n H. apply largest_skew_binary_fuel; lia. Qed.

(** * 6. make-list *)
Lemma pow_ge_lin k : k <= 2 ^ k - 1.
Proof. pose proof (Nat.pow_gt_lin_r 2 k). lia. Qed.

Lemma make_tree_perfect {A} (x : A) : forall k fuel, 1 <= k -> k <= fuel ->
  exists t, ra_make_tree fuel (2 ^ k - 1) x = Some t /\ ra_perfect k t /\
            ra_tree_list t = repeat x (2 ^ k - 1).
Proof.
  induction k as [|k IH]; intros fuel Hk Hf; [lia|].
  destruct fuel as [|fuel]; [lia|]. cbn [ra_make_tree].
  destruct (Nat.eq_dec k 0) as [->|Hk0].
  - exists (Leaf x). split; [reflexivity|]. split; [apply perfect_leaf; reflexivity|reflexivity].
  - pose proof (pow2_ge2 k ltac:(lia)) as H2.
    assert (E : (2 ^ S k - 1 =? 1) = false) by (apply Nat.eqb_neq; rewrite pow2_S; lia).
    rewrite E.
    assert (Hh : ra_half (2 ^ S k - 1) = 2 ^ k - 1).
    { rewrite pow2_S. replace (2 * 2 ^ k - 1) with (2 * (2 ^ k - 1) + 1) by lia. apply half_odd. }
    rewrite Hh. destruct (IH fuel) as (t & -> & Hp & Hl); [lia|lia|].
    exists (Node x t t). split; [reflexivity|]. split.
    + apply perfect_node. exists k. repeat split; auto. lia.
    + cbn [ra_tree_list]. rewrite Hl.
      replace (2 ^ S k - 1) with (S ((2 ^ k - 1) + (2 ^ k - 1))) by (rewrite pow2_S; lia).
      cbn [repeat]. rewrite repeat_app. reflexivity.
Qed.

Definition loop_inv (n : nat) (hs : list nat) : Prop :=
  (n = 0 /\ ra_heights_ok hs) \/
  (0 < n /\ ra_increasing hs /\ match hs with [] => True | h :: _ => n <= 2 ^ h - 1 end).

Lemma make_list_loop_canon {A} (x : A) : forall fuel n a hs, n <= fuel ->
  Forall2 ra_entry hs a -> loop_inv n hs -> ra_flat a = repeat x (ra_length a) ->
  exists ls, ra_make_list_loop fuel n x a = Some ls /\ ra_canon ls /\
             ra_flat ls = repeat x (ra_length ls) /\ ra_length ls = n + ra_length a.
Proof.
  induction fuel as [|fuel IH]; intros n a hs Hf HF Hinv Hfl.
  - assert (n = 0) by lia. subst n. exists a. split; [reflexivity|]. split; [|split; [exact Hfl|reflexivity]].
    exists hs. split; [exact HF|]. destruct Hinv as [[_ H]|[H _]]; [exact H|lia].
  - destruct (Nat.eq_dec n 0) as [->|Hn].
    + exists a. split; [reflexivity|]. split; [|split; [exact Hfl|reflexivity]].
      exists hs. split; [exact HF|]. destruct Hinv as [[_ H]|[H _]]; [exact H|lia].
    + destruct Hinv as [[-> _]|(Hpos & Hinc & Hhd)]; [lia|].
      destruct (ra_largest_skew_binary_spec n ltac:(lia)) as (k & Hk & Hlsb & Hlo & Hhi).
      destruct (make_tree_perfect x k (2 ^ k - 1) Hk (pow_ge_lin k)) as (tr & Htr & Hp & Hl).
      pose proof (pow2_ge2 k Hk) as H2k.
      assert (Hstep : ra_make_list_loop (S fuel) n x a =
                      ra_make_list_loop fuel (n - (2 ^ k - 1)) x ((2 ^ k - 1, tr) :: a)).
      { cbn [ra_make_list_loop]. destruct (n =? 0) eqn:E; [apply Nat.eqb_eq in E; lia|].
        rewrite Hlsb, Htr. reflexivity. }
      rewrite Hstep.
      destruct (IH (n - (2 ^ k - 1)) ((2 ^ k - 1, tr) :: a) (k :: hs)) as (ls & E & HC & Hfl' & Hlen).
      * lia.
      * constructor; [apply entry_mk; exact Hp|exact HF].
      * destruct (Nat.eq_dec (n - (2 ^ k - 1)) 0) as [E0|E0].
        -- left. split; [exact E0|]. destruct hs as [|h tl]; [exact I|].
           change (k <= h /\ ra_increasing (h :: tl)). split; [apply pow2_le; lia|exact Hinc].
        -- right. split; [lia|]. split.
           ++ destruct hs as [|h tl]; [exact I|].
              change (k < h /\ ra_increasing (h :: tl)). split; [apply pow2_lt; lia|exact Hinc].
           ++ rewrite pow2_S in Hhi. lia.
      * unfold ra_flat in *. cbn [flat_map snd ra_length]. rewrite Hl, Hfl, repeat_app. reflexivity.
      * exists ls. split; [exact E|]. split; [exact HC|]. split; [exact Hfl'|].
        rewrite Hlen. cbn [ra_length]. lia.
Qed.

Theorem ra_make_list_canon : forall A k (x : A),
  exists ls, ra_make_list k x = Some ls /\ ra_canon ls /\ ra_flat ls = repeat x k /\ ra_length ls = k.
Proof.
  intros A k x. unfold ra_make_list.
  destruct (make_list_loop_canon x k k [] [] (le_n k)) as (ls & E & HC & Hfl & Hlen).
  - constructor.
  - destruct (Nat.eq_dec k 0) as [->|Hk]; [left; split; [reflexivity|exact I]|].
    right. split; [lia|]. split; exact I.
  - reflexivity.
  - cbn [ra_length] in Hlen. rewrite Nat.add_0_r in Hlen. exists ls. rewrite Hlen in Hfl. auto.
Qed.

(** * 7. n-ary map *)
Lemma tree_map2_perfect {A B C} (f : A -> B -> C) : forall (t1 : tree A) (t2 : tree B) h,
  ra_perfect h t1 -> ra_perfect h t2 ->
  exists t', ra_tree_map2 f t1 t2 = Some t' /\ ra_perfect h t' /\
    ra_tree_list t' = map (fun p => f (fst p) (snd p)) (combine (ra_tree_list t1) (ra_tree_list t2)).
Proof.
  induction t1 as [x|x l IHl r IHr]; intros t2 h H1 H2.
  - apply perfect_leaf in H1. subst h. destruct t2 as [y|y l2 r2].
    + exists (Leaf (f x y)). split; [reflexivity|]. split; [apply perfect_leaf; reflexivity|reflexivity].
    + apply perfect_node in H2. destruct H2 as (h' & E & Hh & _). lia.
  - apply perfect_node in H1. destruct H1 as (h' & -> & Hh & Hl & Hr). destruct t2 as [y|y l2 r2].
    + apply perfect_leaf in H2. lia.
    + apply perfect_node in H2. destruct H2 as (h2 & E & _ & Hl2 & Hr2). injection E as <-.
      destruct (IHl _ _ Hl Hl2) as (l' & El & Pl & Ll). destruct (IHr _ _ Hr Hr2) as (r' & Er & Pr & Lr).
      exists (Node (f x y) l' r'). cbn [ra_tree_map2]. rewrite El, Er. split; [reflexivity|]. split.
      * apply perfect_node. exists h'. auto.
      * cbn [ra_tree_list combine map fst snd].
        rewrite combine_app_len by (rewrite (perfect_length _ _ Hl), (perfect_length _ _ Hl2); reflexivity).
        rewrite map_app, Ll, Lr. reflexivity.
Qed.

Lemma map2_entries {A B C} (f : A -> B -> C) : forall hs (l1 : ralist A) (l2 : ralist B),
  Forall2 ra_entry hs l1 -> Forall2 ra_entry hs l2 ->
  exists r, ra_map2 f l1 l2 = Some r /\ Forall2 ra_entry hs r /\
    ra_flat r = map (fun p => f (fst p) (snd p)) (combine (ra_flat l1) (ra_flat l2)) /\
    ra_sizes r = ra_sizes l1.
Proof.
  intros hs l1 l2 F1. revert l2. induction F1 as [|h [s t] hs' r1 Hh F1 IH]; intros l2 F2.
  - exists []. split; [reflexivity|]. split; [constructor|]. split; reflexivity.
  - inversion F2 as [|h2 [s2 t2] hs2 r2 Hh2 F2']; subst.
    destruct (IH _ F2') as (r' & E & Fr & Lr & Sr).
    destruct Hh as (P1 & Q1 & R1). destruct Hh2 as (_ & Q2 & R2). cbn [fst snd] in *.
    destruct (tree_map2_perfect f _ _ _ R1 R2) as (t' & Et & Pt & Lt).
    exists ((s, t') :: r'). cbn [ra_map2]. rewrite Et, E. split; [reflexivity|]. split; [|split].
    + constructor; [|exact Fr]. split; [exact P1|]. split; [exact Q1|exact Pt].
    + unfold ra_flat in *. cbn [flat_map snd].
      rewrite combine_app_len by (rewrite (perfect_length _ _ R1), (perfect_length _ _ R2); reflexivity).
      rewrite map_app, Lt, Lr. reflexivity.
    + unfold ra_sizes in *. cbn [map fst]. rewrite Sr. reflexivity.
Qed.

Theorem ra_map2_canon : forall A B C (f : A -> B -> C) l1 l2,
  ra_canon l1 -> ra_canon l2 -> ra_length l1 = ra_length l2 ->
  exists r, ra_map2 f l1 l2 = Some r /\ ra_canon r /\
    ra_flat r = map (fun p => f (fst p) (snd p)) (combine (ra_flat l1) (ra_flat l2)) /\
    ra_sizes r = ra_sizes l1.
Proof.
  intros A B C f l1 l2 (hs1 & F1 & O1) (hs2 & F2 & O2) E.
  assert (hs1 = hs2) by (eapply canon_h_unique; [split; [exact F1|exact O1]|split; [exact F2|exact O2]|exact E]).
  subst hs2. destruct (map2_entries f _ _ _ F1 F2) as (r & Er & Fr & Lr & Sr).
  exists r. split; [exact Er|]. split; [exists hs1; split; [exact Fr|exact O1]|]. split; assumption.
Qed.

Theorem ra_for_each2_canon : forall A B C (f : A -> B -> C) l1 l2,
  ra_canon l1 -> ra_canon l2 -> ra_length l1 = ra_length l2 ->
  ra_for_each2 f l1 l2 = Some (map (fun p => f (fst p) (snd p)) (combine (ra_flat l1) (ra_flat l2))).
Proof.
  intros A B C f l1 l2 C1 C2 E. unfold ra_for_each2.
  destruct (ra_map2_canon _ _ _ f _ _ C1 C2 E) as (r & -> & _ & -> & _). reflexivity.
Qed.

Lemma tree_map3_perfect {A B C D} (f : A -> B -> C -> D) :
  forall (t1 : tree A) (t2 : tree B) (t3 : tree C) h,
  ra_perfect h t1 -> ra_perfect h t2 -> ra_perfect h t3 ->
  exists t', ra_tree_map3 f t1 t2 t3 = Some t' /\ ra_perfect h t' /\
    ra_tree_list t' = map (fun p => f (fst (fst p)) (snd (fst p)) (snd p))
                          (combine (combine (ra_tree_list t1) (ra_tree_list t2)) (ra_tree_list t3)).
Proof.
  induction t1 as [x|x l IHl r IHr]; intros t2 t3 h H1 H2 H3.
  - apply perfect_leaf in H1. subst h. destruct t2 as [y|y l2 r2].
    + destruct t3 as [z|z l3 r3].
      * exists (Leaf (f x y z)). split; [reflexivity|]. split; [apply perfect_leaf; reflexivity|reflexivity].
      * apply perfect_node in H3. destruct H3 as (h' & E & Hh & _). lia.
    + apply perfect_node in H2. destruct H2 as (h' & E & Hh & _). lia.
  - apply perfect_node in H1. destruct H1 as (h' & -> & Hh & Hl & Hr). destruct t2 as [y|y l2 r2].
    + apply perfect_leaf in H2. lia.
    + destruct t3 as [z|z l3 r3]; [apply perfect_leaf in H3; lia|].
      apply perfect_node in H2. destruct H2 as (h2 & E & _ & Hl2 & Hr2). injection E as <-.
      apply perfect_node in H3. destruct H3 as (h3 & E & _ & Hl3 & Hr3). injection E as <-.
      destruct (IHl _ _ _ Hl Hl2 Hl3) as (l' & El & Pl & Ll).
      destruct (IHr _ _ _ Hr Hr2 Hr3) as (r' & Er & Pr & Lr).
      exists (Node (f x y z) l' r'). cbn [ra_tree_map3]. rewrite El, Er. split; [reflexivity|]. split.
      * apply perfect_node. exists h'. auto.
      * cbn [ra_tree_list combine map fst snd].
        pose proof (perfect_length _ _ Hl) as L1. pose proof (perfect_length _ _ Hl2) as L2.
        pose proof (perfect_length _ _ Hl3) as L3.
        rewrite (combine_app_len (ra_tree_list l)) by lia.
        rewrite combine_app_len by (rewrite combine_length; lia).
        rewrite map_app, Ll, Lr. reflexivity.
Qed.

Lemma map3_entries {A B C D} (f : A -> B -> C -> D) :
  forall hs (l1 : ralist A) (l2 : ralist B) (l3 : ralist C),
  Forall2 ra_entry hs l1 -> Forall2 ra_entry hs l2 -> Forall2 ra_entry hs l3 ->
  exists r, ra_map3 f l1 l2 l3 = Some r /\ Forall2 ra_entry hs r /\
    ra_flat r = map (fun p => f (fst (fst p)) (snd (fst p)) (snd p))
                    (combine (combine (ra_flat l1) (ra_flat l2)) (ra_flat l3)) /\
    ra_sizes r = ra_sizes l1.
Proof.
  intros hs l1 l2 l3 F1. revert l2 l3. induction F1 as [|h [s t] hs' r1 Hh F1 IH]; intros l2 l3 F2 F3.
  - exists []. split; [reflexivity|]. split; [constructor|]. split; reflexivity.
  - inversion F2 as [|h2 [s2 t2] hs2 r2 Hh2 F2']; subst.
    inversion F3 as [|h3 [s3 t3] hs3 r3 Hh3 F3']; subst.
    destruct (IH _ _ F2' F3') as (r' & E & Fr & Lr & Sr).
    destruct Hh as (P1 & Q1 & R1). destruct Hh2 as (_ & Q2 & R2). destruct Hh3 as (_ & Q3 & R3).
    cbn [fst snd] in *.
    destruct (tree_map3_perfect f _ _ _ _ R1 R2 R3) as (t' & Et & Pt & Lt).
    exists ((s, t') :: r'). cbn [ra_map3]. rewrite Et, E. split; [reflexivity|]. split; [|split].
    + constructor; [|exact Fr]. split; [exact P1|]. split; [exact Q1|exact Pt].
    + unfold ra_flat in *. cbn [flat_map snd].
      pose proof (perfect_length _ _ R1) as L1. pose proof (perfect_length _ _ R2) as L2.
      pose proof (perfect_length _ _ R3) as L3.
      rewrite (combine_app_len (ra_tree_list t)) by lia.
      rewrite combine_app_len by (rewrite combine_length; lia).
      rewrite map_app, Lt, Lr. reflexivity.
    + unfold ra_sizes in *. cbn [map fst]. rewrite Sr. reflexivity.
Qed.

Theorem ra_map3_canon : forall A B C D (f : A -> B -> C -> D) l1 l2 l3,
  ra_canon l1 -> ra_canon l2 -> ra_canon l3 ->
  ra_length l1 = ra_length l2 -> ra_length l1 = ra_length l3 ->
  exists r, ra_map3 f l1 l2 l3 = Some r /\ ra_canon r /\
    ra_flat r = map (fun p => f (fst (fst p)) (snd (fst p)) (snd p))
                    (combine (combine (ra_flat l1) (ra_flat l2)) (ra_flat l3)) /\
    ra_sizes r = ra_sizes l1.
Proof.
  intros A B C D f l1 l2 l3 (hs1 & F1 & O1) (hs2 & F2 & O2) (hs3 & F3 & O3) E2 E3.
  assert (hs1 = hs2) by (eapply canon_h_unique; [split; [exact F1|exact O1]|split; [exact F2|exact O2]|exact E2]).
  assert (hs1 = hs3) by (eapply canon_h_unique; [split; [exact F1|exact O1]|split; [exact F3|exact O3]|exact E3]).
  subst hs2 hs3. destruct (map3_entries f _ _ _ _ F1 F2 F3) as (r & Er & Fr & Lr & Sr).
  exists r. split; [exact Er|]. split; [exists hs1; split; [exact Fr|exact O1]|]. split; assumption.
Qed.

(** * 8. list-ref *)
Lemma mid_step h mid : 1 <= h -> 2 * mid + 2 = 2 * 2 ^ h ->
  2 * ra_half (mid - 1) + 2 = 2 ^ h /\ mid = 2 ^ h - 1.
Proof.
  intros Hh Hm. destruct h as [|h']; [lia|]. rewrite pow2_S in *. pose proof (pow2_pos h').
  pose proof (half_spec (mid - 1)). lia.
Qed.
Lemma mid_top h : 1 <= h -> 2 * ra_half (2 ^ h - 1 - 1) + 2 = 2 ^ h.
Proof.
  intros Hh. destruct h as [|h']; [lia|]. rewrite pow2_S. pose proof (pow2_pos h').
  pose proof (half_spec (2 * 2 ^ h' - 1 - 1)). lia.
Qed.

Lemma tree_ref_a_nth {A} : forall (t : tree A) h i mid,
  ra_perfect h t -> i < 2 ^ h - 1 -> 2 * mid + 2 = 2 ^ h ->
  ra_tree_ref_a t i mid = nth_error (ra_tree_list t) i.
Proof.
  induction t as [x|x l IHl r IHr]; intros h i mid Hp Hi Hm.
  - apply perfect_leaf in Hp. subst h. rewrite pow2_1 in Hi. assert (i = 0) by lia. subst i. reflexivity.
  - apply perfect_node in Hp. destruct Hp as (h' & -> & Hh & Hl & Hr).
    rewrite pow2_S in Hi, Hm. destruct (mid_step _ _ Hh Hm) as [Hm' Hmid].
    pose proof (perfect_length _ _ Hl) as HL. pose proof (pow2_ge2 h' Hh) as H2.
    destruct i as [|i']; [reflexivity|].
    cbn [ra_tree_ref_a Nat.eqb ra_tree_list nth_error].
    destruct (S i' <=? mid) eqn:E.
    + apply Nat.leb_le in E. replace (S i' - 1) with i' by lia.
      rewrite (IHl h' i' _ Hl) by (lia || exact Hm').
      rewrite nth_error_app1 by lia. reflexivity.
    + apply Nat.leb_gt in E.
      rewrite (IHr h' (S i' - mid - 1) _ Hr) by (lia || exact Hm').
      rewrite nth_error_app2 by lia. f_equal. lia.
Qed.

Lemma tree_ref_nth {A} (t : tree A) h i : ra_perfect h t -> i < 2 ^ h - 1 ->
  ra_tree_ref (2 ^ h - 1) t i = nth_error (ra_tree_list t) i.
Proof.
  intros Hp Hi. unfold ra_tree_ref. destruct i as [|i'].
  - destruct t; reflexivity.
  - cbn [Nat.eqb]. apply (tree_ref_a_nth t h); [exact Hp|exact Hi|]. apply mid_top. eapply perfect_pos; exact Hp.
Qed.

Lemma ok_list_ref_nth {A} (ls : ralist A) : ra_ok ls ->
  forall i, ra_list_ref ls i = nth_error (ra_flat ls) i.
Proof.
  induction 1 as [|[s t] rest (h & Hh) _ IH]; intros i.
  - destruct i; reflexivity.
  - cbn [ra_list_ref]. unfold ra_flat in *. cbn [flat_map snd].
    destruct Hh as (H1 & H2 & H3); cbn [fst snd] in *. pose proof (perfect_length _ _ H3) as HL.
    subst s. destruct (i <? 2 ^ h - 1) eqn:E.
    + apply Nat.ltb_lt in E. rewrite nth_error_app1 by lia. apply tree_ref_nth; assumption.
    + apply Nat.ltb_ge in E. rewrite nth_error_app2 by lia. rewrite IH. f_equal. lia.
Qed.

Theorem ra_list_ref_refines_nth : forall A (ls : ralist A) i, ra_canon ls ->
  ra_list_ref ls i = nth_error (ra_flat ls) i.
Proof. intros A ls i H. apply ok_list_ref_nth, canon_ok, H. Qed.

(** * 9. list-ref/update and list-set *)
Lemma tree_ref_update_spec {A} (f : A -> A) : forall (t : tree A) h i mid,
  ra_perfect h t -> i < 2 ^ h - 1 -> 2 * mid + 2 = 2 ^ h ->
  exists v t', ra_tree_ref_update mid t i f = Some (v, t') /\ nth_error (ra_tree_list t) i = Some v /\
    ra_tree_list t' = firstn i (ra_tree_list t) ++ f v :: skipn (S i) (ra_tree_list t) /\
    ra_perfect h t'.
Proof.
  induction t as [x|x l IHl r IHr]; intros h i mid Hp Hi Hm.
  - apply perfect_leaf in Hp. subst h. rewrite pow2_1 in Hi. assert (i = 0) by lia. subst i.
    exists x, (Leaf (f x)). split; [reflexivity|]. split; [reflexivity|]. split; [reflexivity|].
    apply perfect_leaf. reflexivity.
  - pose proof Hp as Hp0. apply perfect_node in Hp. destruct Hp as (h' & -> & Hh & Hl & Hr).
    rewrite pow2_S in Hi, Hm. destruct (mid_step _ _ Hh Hm) as [Hm' Hmid].
    pose proof (perfect_length _ _ Hl) as HL. pose proof (pow2_ge2 h' Hh) as H2.
    destruct i as [|i'].
    + exists x, (Node (f x) l r). split; [reflexivity|]. split; [reflexivity|]. split; [reflexivity|].
      apply perfect_node. exists h'. auto.
    + cbn [ra_tree_ref_update Nat.eqb ra_tree_list nth_error].
      destruct (S i' <=? mid) eqn:E.
      * apply Nat.leb_le in E. replace (S i' - 1) with i' by lia.
        destruct (IHl h' i' (ra_half (mid - 1)) Hl) as (v & l' & E1 & E2 & E3 & E4); [lia|exact Hm'|].
        exists v, (Node x l' r). rewrite E1. split; [reflexivity|]. split; [|split].
        -- rewrite nth_error_app1 by lia. exact E2.
        -- rewrite upd_cons. rewrite upd_app_l by lia. cbn [ra_tree_list]. rewrite E3. reflexivity.
        -- apply perfect_node. exists h'. auto.
      * apply Nat.leb_gt in E.
        destruct (IHr h' (S i' - mid - 1) (ra_half (mid - 1)) Hr) as (v & r' & E1 & E2 & E3 & E4);
          [lia|exact Hm'|].
        assert (Hidx : S i' - mid - 1 = i' - length (ra_tree_list l)) by lia.
        exists v, (Node x l r'). rewrite E1. split; [reflexivity|]. split; [|split].
        -- rewrite nth_error_app2 by lia. rewrite <- Hidx. exact E2.
        -- rewrite upd_cons. rewrite upd_app_r by lia. cbn [ra_tree_list]. rewrite E3, Hidx. reflexivity.
        -- apply perfect_node. exists h'. auto.
Qed.

Lemma entries_list_ref_update {A} (f : A -> A) hs (ls : ralist A) : Forall2 ra_entry hs ls ->
  forall i, i < ra_length ls ->
  exists v ls', ra_list_ref_update ls i f = Some (v, ls') /\ nth_error (ra_flat ls) i = Some v /\
    ra_flat ls' = firstn i (ra_flat ls) ++ f v :: skipn (S i) (ra_flat ls) /\
    Forall2 ra_entry hs ls' /\ ra_sizes ls' = ra_sizes ls.
Proof.
  induction 1 as [|h [s t] hs' rest Hh HF IH]; intros i Hi; [cbn [ra_length] in Hi; lia|].
  cbn [ra_list_ref_update ra_length] in *. unfold ra_flat in *. cbn [flat_map snd].
  destruct Hh as (H1 & H2 & H3); cbn [fst snd] in *. pose proof (perfect_length _ _ H3) as HL.
  assert (Hs : s = length (ra_tree_list t)) by lia.
  destruct (i <? s) eqn:E.
  - apply Nat.ltb_lt in E.
    destruct (tree_ref_update_spec f t h i (ra_half (s - 1)) H3) as (v & t' & E1 & E2 & E3 & E4);
      [lia|rewrite H2; apply mid_top; exact H1|].
    exists v, ((s, t') :: rest). rewrite E1. split; [reflexivity|]. split; [|split; [|split]].
    + rewrite nth_error_app1 by lia. exact E2.
    + cbn [flat_map snd]. rewrite upd_app_l by lia. rewrite E3. reflexivity.
    + constructor; [|exact HF]. split; [exact H1|]. split; [exact H2|exact E4].
    + reflexivity.
  - apply Nat.ltb_ge in E.
    destruct (IH (i - s)) as (v & r' & E1 & E2 & E3 & E4 & E5); [lia|].
    exists v, ((s, t) :: r'). rewrite E1. split; [reflexivity|]. split; [|split; [|split]].
    + rewrite nth_error_app2 by lia. rewrite <- Hs. exact E2.
    + cbn [flat_map snd]. rewrite upd_app_r by lia. rewrite <- Hs, E3. reflexivity.
    + constructor; [|exact E4]. split; [exact H1|]. split; [exact H2|exact H3].
    + unfold ra_sizes in *. cbn [map fst]. rewrite E5. reflexivity.
Qed.

Theorem ra_list_ref_update_refines : forall A (ls : ralist A) i (f : A -> A),
  ra_canon ls -> i < ra_length ls ->
  exists v ls', ra_list_ref_update ls i f = Some (v, ls') /\ nth_error (ra_flat ls) i = Some v /\
    ra_flat ls' = firstn i (ra_flat ls) ++ f v :: skipn (S i) (ra_flat ls) /\
    ra_canon ls' /\ ra_sizes ls' = ra_sizes ls.
Proof.
  intros A ls i f (hs & HF & HO) Hi.
  destruct (entries_list_ref_update f _ _ HF i Hi) as (v & ls' & E1 & E2 & E3 & E4 & E5).
  exists v, ls'. split; [exact E1|]. split; [exact E2|]. split; [exact E3|]. split; [|exact E5].
  exists hs. split; [exact E4|exact HO].
Qed.

Theorem ra_list_ref_update_out_of_range : forall A (ls : ralist A) i (f : A -> A),
  ra_length ls <= i -> ra_list_ref_update ls i f = None.
Proof.
  intros A ls. induction ls as [|[s t] rest IH]; intros i f H; [reflexivity|].
  cbn [ra_list_ref_update ra_length] in *.
  destruct (i <? s) eqn:E; [apply Nat.ltb_lt in E; lia|]. rewrite IH by lia. reflexivity.
Qed.

Corollary ra_list_set_refines : forall A (ls : ralist A) i (v : A), ra_canon ls -> i < ra_length ls ->
  exists ls', ra_list_set ls i v = Some ls' /\
    ra_flat ls' = firstn i (ra_flat ls) ++ v :: skipn (S i) (ra_flat ls) /\
    ra_canon ls' /\ ra_sizes ls' = ra_sizes ls.
Proof.
  intros A ls i v HC Hi. unfold ra_list_set.
  destruct (ra_list_ref_update_refines _ ls i (fun _ => v) HC Hi) as (w & ls' & -> & _ & E3 & E4 & E5).
  exists ls'. auto.
Qed.
Corollary ra_list_set_out_of_range : forall A (ls : ralist A) i (v : A),
  ra_length ls <= i -> ra_list_set ls i v = None.
Proof. intros A ls i v H. unfold ra_list_set. rewrite ra_list_ref_update_out_of_range by exact H. reflexivity. Qed.

(** * 10. the constructors keep the canonical form and refine lists *)
Lemma canon_nil {A} : ra_canon (@nil (nat * tree A)).
Proof. exists []. split; [constructor|exact I]. Qed.

Lemma fold_cons_canon {A} (xs : list A) (l2 : ralist A) : ra_canon l2 ->
  ra_canon (fold_right ra_cons l2 xs) /\ ra_flat (fold_right ra_cons l2 xs) = xs ++ ra_flat l2.
Proof.
  intros H. induction xs as [|a xs [IC IF]]; cbn [fold_right app]; [split; [exact H|reflexivity]|].
  destruct (ra_cons_canon _ a _ IC) as (C' & F' & _). split; [exact C'|]. rewrite F', IF. reflexivity.
Qed.

Theorem ra_of_list_canon : forall A (xs : list A),
  ra_canon (ra_of_list xs) /\ ra_flat (ra_of_list xs) = xs.
Proof.
  intros A xs. unfold ra_of_list. destruct (fold_cons_canon xs [] canon_nil) as [C F].
  split; [exact C|]. rewrite F. apply app_nil_r.
Qed.

Theorem ra_append_canon : forall A (l1 l2 : ralist A), ra_canon l2 ->
  ra_canon (ra_append l1 l2) /\ ra_flat (ra_append l1 l2) = ra_flat l1 ++ ra_flat l2.
Proof. intros A l1 l2 H. unfold ra_append. apply fold_cons_canon, H. Qed.

Lemma fold_left_cons_canon {A} (xs : list A) : forall acc : ralist A, ra_canon acc ->
  ra_canon (fold_left (fun acc x => ra_cons x acc) xs acc) /\
  ra_flat (fold_left (fun acc x => ra_cons x acc) xs acc) = rev xs ++ ra_flat acc.
Proof.
  induction xs as [|a xs IH]; intros acc H; cbn [fold_left rev app]; [split; [exact H|reflexivity]|].
  destruct (ra_cons_canon _ a _ H) as (C' & F' & _). destruct (IH _ C') as [C2 F2].
  split; [exact C2|]. rewrite F2, F', <- app_assoc. reflexivity.
Qed.

Theorem ra_reverse_canon : forall A (ls : ralist A),
  ra_canon (ra_reverse ls) /\ ra_flat (ra_reverse ls) = rev (ra_flat ls).
Proof.
  intros A ls. unfold ra_reverse. destruct (fold_left_cons_canon (ra_flat ls) [] canon_nil) as [C F].
  split; [exact C|]. rewrite F. apply app_nil_r.
Qed.

Lemma tree_map_list {A B} (f : A -> B) (t : tree A) : ra_tree_list (ra_tree_map f t) = map f (ra_tree_list t).
Proof.
  induction t as [x|x l IHl r IHr]; cbn [ra_tree_map ra_tree_list map]; [reflexivity|].
  rewrite map_app, IHl, IHr. reflexivity.
Qed.
Lemma tree_map_perfect {A B} (f : A -> B) (t : tree A) : forall h, ra_perfect h t -> ra_perfect h (ra_tree_map f t).
Proof.
  induction t as [x|x l IHl r IHr]; intros h H; cbn [ra_tree_map].
  - apply perfect_leaf in H. apply perfect_leaf. exact H.
  - apply perfect_node in H. destruct H as (h' & -> & Hh & Hl & Hr). apply perfect_node. exists h'. auto.
Qed.

Theorem ra_map_canon : forall A B (f : A -> B) (ls : ralist A), ra_canon ls ->
  ra_canon (ra_map f ls) /\ ra_flat (ra_map f ls) = map f (ra_flat ls) /\
  ra_sizes (ra_map f ls) = ra_sizes ls.
Proof.
  intros A B f ls (hs & HF & HO). split; [|split].
  - exists hs. split; [|exact HO]. unfold ra_map.
    induction HF as [|h [s t] hs' rest (H1 & H2 & H3) HF IH]; cbn [map]; constructor.
    + cbn [fst snd] in *. split; [exact H1|]. split; [exact H2|]. apply tree_map_perfect, H3.
    + apply IH. eapply increasing_heights_ok, heights_ok_tail, HO.
  - clear. unfold ra_flat, ra_map. induction ls as [|[s t] rest IH]; [reflexivity|].
    cbn [map flat_map fst snd]. rewrite map_app, tree_map_list, IH. reflexivity.
  - unfold ra_sizes, ra_map. rewrite map_map. apply map_ext. intros [s t]. reflexivity.
Qed.

Theorem ra_list_tail_canon : forall A (ls : ralist A) j, ra_canon ls -> j <= ra_length ls ->
  exists d, ra_list_tail ls j = Some d /\ ra_canon d /\ ra_flat d = skipn j (ra_flat ls).
Proof.
  intros A ls j. revert ls. induction j as [|j IH]; intros ls HC Hj.
  - exists ls. split; [reflexivity|]. split; [exact HC|reflexivity].
  - assert (Hne : ls <> []) by (intros ->; cbn [ra_length] in Hj; lia).
    destruct (ra_car_cdr_canon _ _ HC Hne) as (a & d & E1 & HCd & E2 & E3).
    cbn [ra_list_tail]. unfold ra_cdr. rewrite E1.
    destruct (IH d HCd) as (d' & E4 & HC' & E5); [lia|].
    exists d'. split; [exact E4|]. split; [exact HC'|]. rewrite E5, E2. reflexivity.
Qed.

(** * 11. equal? *)
Lemma tree_eqb_eq {A} (eqb : A -> A -> bool) (Heqb : forall x y, eqb x y = true <-> x = y) :
  forall t1 t2 : tree A, ra_tree_eqb eqb t1 t2 = true <-> t1 = t2.
Proof.
  induction t1 as [x|x l IHl r IHr]; intros [y|y l2 r2]; cbn [ra_tree_eqb];
    try (split; intros H; discriminate).
  - rewrite Heqb. split; [intros ->; reflexivity|intros [= ->]; reflexivity].
  - rewrite !andb_true_iff, Heqb, IHl, IHr.
    split; [intros [[-> ->] ->]; reflexivity|intros [= -> -> ->]; auto].
Qed.
Lemma ra_equal_eq {A} (eqb : A -> A -> bool) (Heqb : forall x y, eqb x y = true <-> x = y) :
  forall l1 l2 : ralist A, ra_equal eqb l1 l2 = true <-> l1 = l2.
Proof.
  induction l1 as [|[s t] r1 IH]; intros [|[s2 t2] r2]; cbn [ra_equal];
    try (split; intros H; discriminate).
  - split; reflexivity.
  - rewrite !andb_true_iff, Nat.eqb_eq, (tree_eqb_eq eqb Heqb), IH.
    split; [intros [[-> ->] ->]; reflexivity|intros [= -> -> ->]; auto].
Qed.

Lemma perfect_list_inj {A} : forall (t1 t2 : tree A) h, ra_perfect h t1 -> ra_perfect h t2 ->
  ra_tree_list t1 = ra_tree_list t2 -> t1 = t2.
Proof.
  induction t1 as [x|x l IHl r IHr]; intros [y|y l2 r2] h H1 H2 E.
  - cbn [ra_tree_list] in E. injection E as ->. reflexivity.
  - apply perfect_leaf in H1. apply perfect_node in H2. destruct H2 as (h' & -> & Hh & _). lia.
  - apply perfect_leaf in H2. apply perfect_node in H1. destruct H1 as (h' & -> & Hh & _). lia.
  - apply perfect_node in H1. destruct H1 as (h' & -> & Hh & Hl & Hr).
    apply perfect_node in H2. destruct H2 as (h2 & E2 & _ & Hl2 & Hr2). injection E2 as <-.
    cbn [ra_tree_list] in E. injection E as -> E.
    apply app_inv_len in E; [|rewrite (perfect_length _ _ Hl), (perfect_length _ _ Hl2); reflexivity].
    destruct E as [El Er]. rewrite (IHl _ _ Hl Hl2 El), (IHr _ _ Hr Hr2 Er). reflexivity.
Qed.

Lemma entries_flat_inj {A} hs : forall l1 l2 : ralist A,
  Forall2 ra_entry hs l1 -> Forall2 ra_entry hs l2 -> ra_flat l1 = ra_flat l2 -> l1 = l2.
Proof.
  intros l1 l2 F1. revert l2. induction F1 as [|h [s t] hs' r1 Hh F1 IH]; intros l2 F2 E.
  - inversion F2; reflexivity.
  - inversion F2 as [|h2 [s2 t2] hs2 r2 Hh2 F2']; subst.
    destruct Hh as (P1 & Q1 & R1). destruct Hh2 as (_ & Q2 & R2). cbn [fst snd] in *.
    unfold ra_flat in *. cbn [flat_map snd] in E.
    apply app_inv_len in E; [|rewrite (perfect_length _ _ R1), (perfect_length _ _ R2); reflexivity].
    destruct E as [Et Er]. rewrite (perfect_list_inj _ _ _ R1 R2 Et), (IH _ F2' Er), Q1, Q2. reflexivity.
Qed.

Theorem ra_equal_sound : forall A (eqb : A -> A -> bool), (forall x y, eqb x y = true <-> x = y) ->
  forall l1 l2, ra_equal eqb l1 l2 = true -> ra_flat l1 = ra_flat l2.
Proof. intros A eqb Heqb l1 l2 H. apply (ra_equal_eq eqb Heqb) in H. subst. reflexivity. Qed.

Theorem ra_equal_canon : forall A (eqb : A -> A -> bool), (forall x y, eqb x y = true <-> x = y) ->
  forall l1 l2, ra_canon l1 -> ra_canon l2 -> (ra_equal eqb l1 l2 = true <-> ra_flat l1 = ra_flat l2).
Proof.
  intros A eqb Heqb l1 l2 C1 C2. split; [apply ra_equal_sound, Heqb|]. intros E.
  apply (ra_equal_eq eqb Heqb).
  assert (EL : ra_length l1 = ra_length l2) by (rewrite (ra_length_flat _ _ C1), (ra_length_flat _ _ C2), E; reflexivity).
  destruct C1 as (hs1 & F1 & O1). destruct C2 as (hs2 & F2 & O2).
  assert (hs1 = hs2) by (eapply canon_h_unique; [split; [exact F1|exact O1]|split; [exact F2|exact O2]|exact EL]).
  subst hs2. eapply entries_flat_inj; eassumption.
Qed.

(** * 12. refutation of the change class "largest-skew-binary with >= for >" *)
Definition ra_bad3 : ralist nat := [(1, Leaf 0); (1, Leaf 0); (1, Leaf 0)].

Theorem ra_noncanonical_make_list_refuted :
  ra_largest_skew_binary_ge 3 3 = Some 1 /\
  ra_largest_skew_binary 3 3 = Some 3 /\
  ~ ra_canon ra_bad3 /\
  ra_flat ra_bad3 = [0; 0; 0] /\ ra_length ra_bad3 = 3 /\
  (forall i, ra_list_ref ra_bad3 i = nth_error [0; 0; 0] i) /\
  ra_to_list 3 ra_bad3 = Some [0; 0; 0] /\
  ra_map2 Nat.add ra_bad3 (ra_of_list [1; 2; 3]) = None /\
  (exists r, ra_make_list 3 0 = Some r /\ ra_sizes r = [3] /\
             ra_map2 Nat.add r (ra_of_list [1; 2; 3]) = Some (ra_of_list [1; 2; 3])).
Proof.
  split; [vm_compute; reflexivity|]. split; [vm_compute; reflexivity|]. split.
  - intros (hs & HF & HO). unfold ra_bad3 in HF.
    apply Forall2_cons_inv_r in HF. destruct HF as (a & hs1 & -> & Ha & HF).
    apply Forall2_cons_inv_r in HF. destruct HF as (b & hs2 & -> & Hb & HF).
    apply Forall2_cons_inv_r in HF. destruct HF as (c & hs3 & -> & Hc & HF).
    apply entry_leaf_inv in Hb. apply entry_leaf_inv in Hc. destruct Hb as [-> _]. destruct Hc as [-> _].
    simpl in HO. lia.
  - split; [reflexivity|]. split; [reflexivity|]. split.
    + intros i. destruct i as [|[|[|[|i]]]]; reflexivity.
    + split; [vm_compute; reflexivity|]. split; [vm_compute; reflexivity|].
      eexists. split; [vm_compute; reflexivity|]. split; vm_compute; reflexivity.
Qed.

(** * Satisfiability of the hypotheses on concrete values *)
Example ra_canon_example : ra_canon (ra_of_list [1; 2; 3; 4; 5; 6]).
Proof. apply ra_of_list_canon. Qed.
Example ra_canon_example_direct : ra_canon (ra_of_list [1; 2; 3; 4; 5; 6]) /\ ra_sizes (ra_of_list [1; 2; 3; 4; 5; 6]) = [3; 3].
Proof.
  split; [|reflexivity]. exists [2; 2]. split; [|simpl; lia].
  vm_compute. repeat constructor.
Qed.
Example ra_cons_example : ra_sizes (ra_cons 0 (ra_of_list [1; 2; 3; 4; 5; 6])) = [7] /\
  ra_flat (ra_cons 0 (ra_of_list [1; 2; 3; 4; 5; 6])) = [0; 1; 2; 3; 4; 5; 6].
Proof. split; reflexivity. Qed.
Example ra_car_cdr_example : ra_canon (ra_of_list [1; 2; 3; 4; 5; 6]) /\ ra_of_list [1; 2; 3; 4; 5; 6] <> [] /\
  ra_car_cdr (ra_of_list [1; 2; 3; 4; 5; 6]) = Some (1, [(1, Leaf 2); (1, Leaf 3); (3, Node 4 (Leaf 5) (Leaf 6))]).
Proof. split; [apply ra_of_list_canon|]. split; [discriminate|reflexivity]. Qed.
Example ra_unique_shape_example :
  ra_canon (ra_of_list [1; 2; 3; 4; 5]) /\ ra_canon (ra_of_list [true; false; true; false; true]) /\
  ra_length (ra_of_list [1; 2; 3; 4; 5]) = ra_length (ra_of_list [true; false; true; false; true]) /\
  ra_sizes (ra_of_list [1; 2; 3; 4; 5]) = [1; 1; 3].
Proof. split; [apply ra_of_list_canon|]. split; [apply ra_of_list_canon|]. split; reflexivity. Qed.
Example ra_largest_skew_binary_example : ra_largest_skew_binary 10 10 = Some 7 /\ ra_largest_skew_binary 7 7 = Some 7.
Proof. split; vm_compute; reflexivity. Qed.
Example ra_make_list_example : exists ls, ra_make_list 9 5 = Some ls /\ ra_sizes ls = [1; 1; 7].
Proof. eexists. split; vm_compute; reflexivity. Qed.
Example ra_map2_example :
  ra_map2 Nat.add (ra_of_list [1; 2; 3; 4; 5]) (ra_of_list [10; 20; 30; 40; 50]) = Some (ra_of_list [11; 22; 33; 44; 55]).
Proof. vm_compute. reflexivity. Qed.
Example ra_list_ref_example : ra_list_ref (ra_of_list [1; 2; 3; 4; 5; 6]) 4 = Some 5 /\
  ra_list_ref (ra_of_list [1; 2; 3; 4; 5; 6]) 6 = None.
Proof. split; vm_compute; reflexivity. Qed.
Example ra_list_ref_update_example : 4 < ra_length (ra_of_list [1; 2; 3; 4; 5; 6]) /\
  ra_list_ref_update (ra_of_list [1; 2; 3; 4; 5; 6]) 4 (Nat.mul 10) = Some (5, ra_of_list [1; 2; 3; 4; 50; 6]).
Proof. split; [vm_compute; lia|vm_compute; reflexivity]. Qed.
Example ra_list_tail_example : 2 <= ra_length (ra_of_list [1; 2; 3; 4; 5; 6]) /\
  ra_list_tail (ra_of_list [1; 2; 3; 4; 5; 6]) 2 = Some (ra_of_list [3; 4; 5; 6]).
Proof. split; [vm_compute; lia|vm_compute; reflexivity]. Qed.
Example ra_equal_example : ra_equal Nat.eqb (ra_append (ra_of_list [1; 2]) (ra_of_list [3; 4])) (ra_of_list [1; 2; 3; 4]) = true /\
  (forall x y, Nat.eqb x y = true <-> x = y).
Proof. split; [vm_compute; reflexivity|apply Nat.eqb_eq]. Qed.

Print Assumptions ra_cons_canon.
Print Assumptions ra_car_cdr_canon.
Print Assumptions ra_length_flat.
Print Assumptions ra_to_list_flat.
Print Assumptions ra_canon_unique_shape.
Print Assumptions ra_largest_skew_binary_spec.
Print Assumptions ra_make_list_canon.
Print Assumptions ra_map2_canon.
Print Assumptions ra_map3_canon.
Print Assumptions ra_for_each2_canon.
Print Assumptions ra_list_ref_refines_nth.
Print Assumptions ra_list_ref_update_refines.
Print Assumptions ra_list_ref_update_out_of_range.
Print Assumptions ra_list_set_refines.
Print Assumptions ra_list_set_out_of_range.
Print Assumptions ra_of_list_canon.
Print Assumptions ra_append_canon.
Print Assumptions ra_reverse_canon.
Print Assumptions ra_map_canon.
Print Assumptions ra_list_tail_canon.
Print Assumptions ra_equal_sound.
Print Assumptions ra_equal_canon.
Print Assumptions ra_noncanonical_make_list_refuted.
