(** C18 — (chibi iset) intersection / difference: termination (fuel suffices) and listing theorems of ISetInterProofs.v combined. *)
From Coq Require Import ZArith List.
From ChibiV Require Import C18.SpecCont C18.ISet C18.ISetProofs C18.ISetInter C18.ISetInterProofs.

Theorem iset_interdiff_listings_total : forall a b, wf a -> wf b ->
  (exists t, intersection2 a b = Some t /\ to_list t = set_inter (to_list a) (to_list b)) /\
  (exists t, difference2 a b = Some t /\ to_list t = set_diff (to_list a) (to_list b)).
Proof.
  intros a b Ha Hb. destruct (iset_interdiff_fuel_suffices a b Ha Hb) as [[t1 H1] [t2 H2]]. split.
  - exists t1. split; [exact H1 | exact (iset_intersection_to_list a b t1 Ha Hb H1)].
  - exists t2. split; [exact H2 | exact (iset_difference_to_list a b t2 Ha Hb H2)].
Qed.
