(** C18 MODEL of the SRFI 146 red-black tree: lib/srfi/146/rbtree.scm (the tree) and the procedures of lib/srfi/146/mapping.scm
    that drive it through the search/update continuation protocol.  Executable, no proofs.  One Gallina function per Scheme
    function, same clauses in the same order.

    Trees: coq/C18/RBDefs.v.  Keys and values are integers, the comparator is the integer order (comparator-if<=> of
    srfi/128/comparators.scm:37-46 tests equality first, then the ordering predicate).  "tree does not match any pattern"
    (rbtree.scm:66) is [None] / [Raised].  The [ret] payload that tree-search threads through its continuations is left out (it
    does not influence the tree).

    The `tree-match` clause tables below (blacken, redden, white->black, balance, rotate, min+delete, and the table of the
    `remove` continuation) are REGENERATED from the Scheme source on every run (gen/c18_rbtree.py -> coq/Gen/C18_RBTables.v) and
    proved equal to these by conversion (coq/C18/RBTie.v): a Coq [match] with overlapping deep patterns tries its clauses in
    order like tree-match does.

    OUTSIDE this model: tree-catenate / tree-split / black-height (mapping-range*, mapping-split, mapping-catenate: known finding
    F-C18-14, black-height binds the colour instead of testing it), tree-key-successor/predecessor, tree-map, tree-generator
    (coroutine), mapping<=? etc., mapping-pop, mapping-map. *)
From Coq Require Import ZArith List Bool.
From ChibiV Require Import C18.RBDefs.
Import ListNotations.
Local Open Scope Z_scope.

(** rbtree.scm:159-164 blacken *)
Definition blacken (tree : rbt) : rbt :=
  match tree with
  | Nd Red a x b =>
      (Nd Black a x b)
  | t =>
      t
  end.

(** rbtree.scm:166-170 redden: only a black node whose two children are black (leaves included) becomes red *)
Definition redden (tree : rbt) : rbt :=
  match tree with
  | Nd Black ((Lf Black | Nd Black _ _ _) as a) x ((Lf Black | Nd Black _ _ _) as b) =>
      (Nd Red a x b)
  | t =>
      t
  end.

(** rbtree.scm:172-177 white->black (no catch-all clause: raises on a tree that is not white) *)
Definition white_to_black (tree : rbt) : option rbt :=
  match tree with
  | Lf White =>
      Some (Lf Black)
  | Nd White a x b =>
      Some (Nd Black a x b)
  | _ => None
  end.

(** rbtree.scm:400-415 balance: the four red-red repairs below a black node, the two below a white (double black) node *)
Definition balance (tree : rbt) : rbt :=
  match tree with
  | Nd Black (Nd Red (Nd Red a x b) y c) z d =>
      (Nd Red (Nd Black a x b) y (Nd Black c z d))
  | Nd Black (Nd Red a x (Nd Red b y c)) z d =>
      (Nd Red (Nd Black a x b) y (Nd Black c z d))
  | Nd Black a x (Nd Red (Nd Red b y c) z d) =>
      (Nd Red (Nd Black a x b) y (Nd Black c z d))
  | Nd Black a x (Nd Red b y (Nd Red c z d)) =>
      (Nd Red (Nd Black a x b) y (Nd Black c z d))
  | Nd White (Nd Red a x (Nd Red b y c)) z d =>
      (Nd Black (Nd Black a x b) y (Nd Black c z d))
  | Nd White a x (Nd Red (Nd Red b y c) z d) =>
      (Nd Black (Nd Black a x b) y (Nd Black c z d))
  | t =>
      t
  end.

(** rbtree.scm:417-432 rotate: pushes a white child up or resolves it against its sibling *)
Definition rotate (tree : rbt) : option rbt :=
  match tree with
  | Nd Red ((Lf White | Nd White _ _ _) as a_x_b) y (Nd Black c z d) =>
      match white_to_black a_x_b with Some o1 => Some (balance (Nd Black (Nd Red o1 y c) z d)) | None => None end
  | Nd Red (Nd Black a x b) y ((Lf White | Nd White _ _ _) as c_z_d) =>
      match white_to_black c_z_d with Some o1 => Some (balance (Nd Black a x (Nd Red b y o1))) | None => None end
  | Nd Black ((Lf White | Nd White _ _ _) as a_x_b) y (Nd Black c z d) =>
      match white_to_black a_x_b with Some o1 => Some (balance (Nd White (Nd Red o1 y c) z d)) | None => None end
  | Nd Black (Nd Black a x b) y ((Lf White | Nd White _ _ _) as c_z_d) =>
      match white_to_black c_z_d with Some o1 => Some (balance (Nd White a x (Nd Red b y o1))) | None => None end
  | Nd Black ((Lf White | Nd White _ _ _) as a_w_b) x (Nd Red (Nd Black c y d) z e) =>
      match white_to_black a_w_b with Some o1 => Some (Nd Black (balance (Nd Black (Nd Red o1 x c) y d)) z e) | None => None end
  | Nd Black (Nd Red a w (Nd Black b x c)) y ((Lf White | Nd White _ _ _) as d_z_e) =>
      match white_to_black d_z_e with Some o1 => Some (Nd Black a w (balance (Nd Black b x (Nd Red c y o1)))) | None => None end
  | t =>
      Some t
  end.

(** rbtree.scm:388-398 min+delete: (values minimal-item tree-without-it); the result may have a white root *)
Fixpoint min_delete (tree : rbt) {struct tree} : option (item * rbt) :=
  match tree with
  | Nd Red (Lf Black) x (Lf Black) =>
      Some (x, (Lf Black))
  | Nd Black (Lf Black) x (Lf Black) =>
      Some (x, (Lf White))
  | Nd Black (Lf Black) x (Nd Red a y b) =>
      Some (x, (Nd Black a y b))
  | Nd c a x b =>
      match min_delete a with Some (v, a) => match rotate (Nd c a x b) with Some o1 => Some (v, o1) | None => None end | None => None end
  | _ => None
  end.

(** rbtree.scm:262-272 the table of the `remove` continuation inside tree-search: [t] is the node (node c a x b) that holds the key *)
Definition remove_at (t : rbt) (c : color) (a : rbt) (b : rbt) : option rbt :=
  match t with
  | Nd Red (Lf Black) x (Lf Black) =>
      Some (Lf Black)
  | Nd Black (Nd Red a x b) _ (Lf Black) =>
      Some (Nd Black a x b)
  | Nd Black (Lf Black) _ (Lf Black) =>
      Some (Lf White)
  | _ =>
      match min_delete b with Some (x, b) => match rotate (Nd c a x b) with Some o1 => Some o1 | None => None end | None => None end
  end.

(** rbtree.scm:181 make-tree *)
Definition make_tree : rbt := Lf Black.

(** rbtree.scm:183-194 tree-fold (in order): (black) -> acc; (node _ a x b) -> left, item, right; no clause for another leaf *)
Fixpoint tree_fold {A : Type} (proc : Z -> Z -> A -> A) (acc : A) (tree : rbt) : option A :=
  match tree with
  | Lf Black => Some acc
  | Nd _ a x b =>
      match tree_fold proc acc a with
      | Some acc1 => tree_fold proc (proc (item_key x) (item_value x) acc1) b
      | None => None
      end
  | _ => None
  end.

(** rbtree.scm:196-207 tree-fold/reverse *)
Fixpoint tree_fold_reverse {A : Type} (proc : Z -> Z -> A -> A) (acc : A) (tree : rbt) : option A :=
  match tree with
  | Lf Black => Some acc
  | Nd _ a x b =>
      match tree_fold_reverse proc acc b with
      | Some acc1 => tree_fold_reverse proc (proc (item_key x) (item_value x) acc1) a
      | None => None
      end
  | _ => None
  end.

(** the update protocol of tree-search (rbtree.scm:221-279).  [failure] is called when the key is absent and must call
    insert / ignore (or escape); [success key value] is called when it is present and must call update / remove (or escape).
    An escape is a continuation captured by the caller (mapping-search's call/cc): the search never returns. *)
Inductive miss : Type := Insert (k v : Z) | Ignore | MissEscape.
Inductive hit : Type := Update (k v : Z) | Remove | HitEscape.
(** the procedure [op] that the search applies to every rebuilt node on the way up *)
Inductive opk : Type := OpBalance | OpIdentity | OpRotate.
Inductive outcome (A : Type) : Type := Built (a : A) | Escaped | Raised.
Arguments Built {A} a.
Arguments Escaped {A}.
Arguments Raised {A}.

Definition apply_op (op : opk) (t : rbt) : option rbt :=
  match op with OpBalance => Some (balance t) | OpIdentity => Some t | OpRotate => rotate t end.

(** rbtree.scm:225-277 the named let [search] *)
Fixpoint search (tree : rbt) (obj : Z) (failure : miss) (success : Z -> Z -> hit) : outcome (rbt * opk) :=
  match tree with
  | Lf Black =>
      match failure with
      | Insert new_key new_value => Built (Nd Red (Lf Black) (make_item new_key new_value) (Lf Black), OpBalance)
      | Ignore => Built (Lf Black, OpIdentity)
      | MissEscape => Escaped
      end
  | Nd c a x b =>
      let key := item_key x in
      if obj =? key then
        match success key (item_value x) with
        | Update new_key new_value => Built (Nd c a (make_item new_key new_value) b, OpIdentity)
        | Remove => match remove_at tree c a b with Some t' => Built (t', OpRotate) | None => Raised end
        | HitEscape => Escaped
        end
      else if obj <? key then
        match search a obj failure success with
        | Built (a', op) => match apply_op op (Nd c a' x b) with Some t' => Built (t', op) | None => Raised end
        | Escaped => Escaped
        | Raised => Raised
        end
      else
        match search b obj failure success with
        | Built (b', op) => match apply_op op (Nd c a x b') with Some t' => Built (t', op) | None => Raised end
        | Escaped => Escaped
        | Raised => Raised
        end
  | _ => Raised
  end.

(** rbtree.scm:221-279 tree-search: redden the root, search, blacken the result *)
Definition tree_search (tree : rbt) (obj : Z) (failure : miss) (success : Z -> Z -> hit) : outcome rbt :=
  match search (redden tree) obj failure success with
  | Built (t', _) => Built (blacken t')
  | Escaped => Escaped
  | Raised => Raised
  end.

(** ---- lib/srfi/146/mapping.scm on top of tree-search.  A mapping is (comparator, tree); only the tree is modelled. *)

(** mapping.scm:254-275 mapping-search: its own [ignore] escapes with the ORIGINAL mapping (call/cc return), and so does every
    continuation that does not call insert / update / remove *)
Definition mapping_search (m : rbt) (key : Z) (failure : miss) (success : Z -> Z -> hit) : option rbt :=
  match tree_search m key (match failure with Insert _ v => Insert key v | _ => MissEscape end) success with
  | Built t => Some t
  | Escaped => Some m
  | Raised => None
  end.

(** mapping.scm:76-86 mapping-contains?, 91-117 mapping-ref with a default: both escape from the search *)
Fixpoint lookup (tree : rbt) (obj : Z) : option (option Z) :=      (* the path of [search] with escaping continuations *)
  match tree with
  | Lf Black => Some None
  | Nd _ a x b => if obj =? item_key x then Some (Some (item_value x)) else if obj <? item_key x then lookup a obj else lookup b obj
  | _ => None
  end.
Definition mapping_ref (m : rbt) (key : Z) : option (option Z) := lookup (redden m) key.
Definition mapping_contains (m : rbt) (key : Z) : option bool :=
  match mapping_ref m key with Some (Some _) => Some true | Some None => Some false | None => None end.

(** mapping.scm:200-223 mapping-update with failure = a default value and an updater; 137-148 mapping-set is the updater
    (lambda (value) new); mapping-update/default *)
Definition mapping_update (m : rbt) (key : Z) (updater : Z -> Z) (default : Z) : option rbt :=
  mapping_search m key (Insert key (updater default)) (fun k old => Update key (updater old)).
Definition mapping_set (m : rbt) (key value : Z) : option rbt :=
  mapping_search m key (Insert key value) (fun _ _ => Update key value).
(** mapping.scm:152-161 mapping-replace *)
Definition mapping_replace (m : rbt) (key value : Z) : option rbt :=
  mapping_search m key MissEscape (fun _ _ => Update key value).
(** mapping.scm:165-183 mapping-delete / mapping-delete-all *)
Definition mapping_delete (m : rbt) (key : Z) : option rbt :=
  mapping_search m key MissEscape (fun _ _ => Remove).
Fixpoint mapping_delete_all (m : rbt) (keys : list Z) : option rbt :=
  match keys with
  | [] => Some m
  | k :: ks => match mapping_delete m k with Some m' => mapping_delete_all m' ks | None => None end
  end.
(** mapping.scm:185-198 mapping-intern, 123-133 mapping-adjoin with one association *)
Definition mapping_adjoin (m : rbt) (key value : Z) : option rbt :=
  mapping_search m key (Insert key value) (fun _ _ => HitEscape).

(** the folds of the set-theory operations run over [mapping-fold] of the second mapping (tree-fold: in order) *)
Definition fold_items (f : Z -> Z -> option rbt -> option rbt) (m1 m2 : rbt) : option rbt :=
  match tree_fold f (Some m1) m2 with Some r => r | None => None end.
Definition obind (o : option rbt) (f : rbt -> option rbt) : option rbt := match o with Some m => f m | None => None end.
(** mapping.scm:573-583 %mapping-union: absent -> insert, present -> update with the OLD key and value *)
Definition mapping_union (m1 m2 : rbt) : option rbt :=
  fold_items (fun k2 v2 acc => obind acc (fun m => mapping_search m k2 (Insert k2 v2) (fun k1 v1 => Update k1 v1))) m1 m2.
(** mapping.scm:590-600 %mapping-difference *)
Definition mapping_difference (m1 m2 : rbt) : option rbt :=
  fold_items (fun k2 _ acc => obind acc (fun m => mapping_search m k2 MissEscape (fun _ _ => Remove))) m1 m2.
(** mapping.scm:602-612 %mapping-xor *)
Definition mapping_xor (m1 m2 : rbt) : option rbt :=
  fold_items (fun k2 v2 acc => obind acc (fun m => mapping_search m k2 (Insert k2 v2) (fun _ _ => Remove))) m1 m2.
(** mapping.scm:367-376 mapping-filter: fold over the mapping, mapping-set into an empty one (a predicate that raises: None) *)
Definition mapping_filter (p : Z -> Z -> option bool) (m : rbt) : option rbt :=
  fold_items (fun k v acc => match p k v with
                             | Some true => obind acc (fun r => mapping_set r k v)
                             | Some false => acc
                             | None => None
                             end) make_tree m.
(** mapping.scm:585-588 %mapping-intersection: filter mapping1 by (mapping-contains? mapping2 key) *)
Definition mapping_intersection (m1 m2 : rbt) : option rbt :=
  mapping_filter (fun k _ => mapping_contains m2 k) m1.

(** mapping.scm:68-70 mapping-empty? = not (mapping-any? always-true): tree-for-each escapes at the first association, so only
    the left spine is walked *)
Fixpoint first_item (tree : rbt) : option (option item) :=
  match tree with
  | Lf Black => Some None
  | Nd _ a x _ => match first_item a with Some None => Some (Some x) | r => r end
  | _ => None
  end.
Definition mapping_empty (m : rbt) : option bool :=
  match first_item m with Some None => Some true | Some (Some _) => Some false | None => None end.

(** mapping.scm:398-404 mapping->alist = reverse of the fold that conses; 320-324 mapping-keys by fold/reverse;
    279-283 mapping-size counts by fold *)
Definition mapping_to_alist (m : rbt) : option (list (Z * Z)) :=
  match tree_fold (fun k v acc => (k, v) :: acc) [] m with Some l => Some (rev l) | None => None end.
Definition mapping_keys (m : rbt) : option (list Z) := tree_fold_reverse (fun k _ acc => k :: acc) [] m.
Definition mapping_size (m : rbt) : option Z := tree_fold (fun _ _ n => 1 + n) 0 m.
