(** C18 MODEL of SRFI 134 immutable deques: lib/srfi/134.scm (banker's deque of Okasaki).
    Executable, no proofs.  One Gallina function per Scheme function, same case split and order of
    tests.  A deque is the record (lenf f lenr r) of 134.scm:52-56: [f] the front chain (first
    element first), [r] the rear chain (LAST element first), [lenf]/[lenr] their cached lengths.
    The deque denotes the list [f ++ rev r].

    Conventions: SRFI 1 [take l i] / [drop l i] are [firstn i l] / [skipn i l] (the code only calls
    them with i <= length l when the record is well formed); [take-right l k] is
    [skipn (length l - k) l]; SRFI 1 [fold kons knil l] is [fold_left (fun acc x => kons x acc)].
    Operations that raise an error in Scheme return [None].  Procedure arguments (pred / proc) are
    total Gallina functions: exceptions and non-local exits of callbacks are outside the model.
    [ideque=] with more than two deques, [ideque-zip] with more than two deques and the type checks
    (%check-ideque) are outside the model. *)
From Coq Require Import List Arith Bool.
Import ListNotations.

Set Implicit Arguments.

Record dq (A : Type) : Type := Dq { lenf : nat; fr : list A; lenr : nat; rr : list A }.
Arguments Dq {A} _ _ _ _.

(** 134.scm:59 *empty* *)
Definition dq_empty {A} : dq A := Dq 0 [] 0 [].

(** 134.scm:97 (define C 3) *)
Definition dq_C : nat := 3.

(** 134.scm:99-113 check: the balancing constructor *)
Definition dq_check {A} (lf : nat) (f : list A) (lr : nat) (r : list A) : dq A :=
  if lr * dq_C + 1 <? lf then
    let i := (lf + lr) / 2 in
    let j := (lf + lr) - i in
    Dq i (firstn i f) j (r ++ rev (skipn i f))
  else if lf * dq_C + 1 <? lr then
    let j := (lf + lr) / 2 in
    let i := (lf + lr) - j in
    Dq i (f ++ rev (skipn j r)) j (firstn j r)
  else Dq lf f lr r.

(** the list a deque denotes = 134.scm:437-439 ideque->list *)
Definition dq_to_list {A} (d : dq A) : list A := fr d ++ rev (rr d).

(** 134.scm:442 list->ideque (also generator->ideque, ideque-unfold, ideque-unfold-right: they build
    the list with SRFI 1 / SRFI 121 and call list->ideque) *)
Definition dq_of_list {A} (l : list A) : dq A := dq_check (length l) l 0 [].

(** 134.scm:70-78 ideque-tabulate *)
Definition dq_tabulate {A} (size : nat) (init : nat -> A) : dq A :=
  let lf := size / 2 in
  let lr := (size + 1) / 2 in
  Dq lf (map init (seq 0 lf)) lr (map (fun n => init (size - n - 1)) (seq 0 lr)).

(** 134.scm:120-123 ideque-empty? *)
Definition dq_is_empty {A} (d : dq A) : bool := (lenf d =? 0) && (lenr d =? 0).

(** 134.scm:126-128 ideque-add-front *)
Definition dq_add_front {A} (d : dq A) (x : A) : dq A := dq_check (lenf d + 1) (x :: fr d) (lenr d) (rr d).

(** 134.scm:131-137 ideque-front ([car] of the empty list is an error: hd_error gives None) *)
Definition dq_front {A} (d : dq A) : option A :=
  if lenf d =? 0 then (if lenr d =? 0 then None else hd_error (rr d)) else hd_error (fr d).

(** 134.scm:140-146 ideque-remove-front *)
Definition dq_remove_front {A} (d : dq A) : option (dq A) :=
  if lenf d =? 0 then (if lenr d =? 0 then None else Some dq_empty)
  else Some (dq_check (lenf d - 1) (tl (fr d)) (lenr d) (rr d)).

(** 134.scm:149-151 ideque-add-back *)
Definition dq_add_back {A} (d : dq A) (x : A) : dq A := dq_check (lenf d) (fr d) (lenr d + 1) (x :: rr d).

(** 134.scm:154-160 ideque-back *)
Definition dq_back {A} (d : dq A) : option A :=
  if lenr d =? 0 then (if lenf d =? 0 then None else hd_error (fr d)) else hd_error (rr d).

(** 134.scm:163-169 ideque-remove-back *)
Definition dq_remove_back {A} (d : dq A) : option (dq A) :=
  if lenr d =? 0 then (if lenf d =? 0 then None else Some dq_empty)
  else Some (dq_check (lenf d) (fr d) (lenr d - 1) (tl (rr d))).

(** 134.scm:172-176 ideque-reverse *)
Definition dq_reverse {A} (d : dq A) : dq A :=
  if dq_is_empty d then dq_empty else Dq (lenr d) (rr d) (lenf d) (fr d).

(** 134.scm:278-280 ideque-length *)
Definition dq_length {A} (d : dq A) : nat := lenf d + lenr d.

(** 134.scm:214-220 ideque-ref *)
Definition dq_ref {A} (d : dq A) (n : nat) : option A :=
  let len := lenf d + lenr d in
  if len <=? n then None
  else if n <? lenf d then nth_error (fr d) n
  else nth_error (rr d) (len - n - 1).

Definition take_right_list {A} (l : list A) (k : nat) : list A := skipn (length l - k) l.

(** 134.scm:222-228 %ideque-take *)
Definition dq_take_ {A} (d : dq A) (n : nat) : dq A :=
  if n <=? lenf d then dq_check n (firstn n (fr d)) 0 []
  else let lr := n - lenf d in dq_check (lenf d) (fr d) lr (take_right_list (rr d) lr).

(** 134.scm:230-239 %ideque-drop *)
Definition dq_drop_ {A} (d : dq A) (n : nat) : dq A :=
  if n <=? lenf d then dq_check (lenf d - n) (skipn n (fr d)) (lenr d) (rr d)
  else let lr := lenr d - (n - lenf d) in dq_check 0 [] lr (firstn lr (rr d)).

(** 134.scm:241-243 %check-length, and the five API procedures 246-275 *)
Definition dq_in_range {A} (d : dq A) (n : nat) : bool := n <=? dq_length d.
Definition dq_take {A} (d : dq A) (n : nat) : option (dq A) := if dq_in_range d n then Some (dq_take_ d n) else None.
Definition dq_take_right {A} (d : dq A) (n : nat) : option (dq A) := if dq_in_range d n then Some (dq_drop_ d (dq_length d - n)) else None.
Definition dq_drop {A} (d : dq A) (n : nat) : option (dq A) := if dq_in_range d n then Some (dq_drop_ d n) else None.
Definition dq_drop_right {A} (d : dq A) (n : nat) : option (dq A) := if dq_in_range d n then Some (dq_take_ d (dq_length d - n)) else None.
Definition dq_split_at {A} (d : dq A) (n : nat) : option (dq A * dq A) := if dq_in_range d n then Some (dq_take_ d n, dq_drop_ d n) else None.

(** 134.scm:283-286 ideque-append *)
Definition dq_append_all {A} (ds : list (dq A)) : dq A := dq_of_list (concat (map dq_to_list ds)).
Definition dq_append {A} (d1 d2 : dq A) : dq A := dq_append_all [d1; d2].

(** 134.scm:289-291 ideque-count *)
Definition count_list {A} (p : A -> bool) (l : list A) : nat := length (filter p l).
Definition dq_count {A} (p : A -> bool) (d : dq A) : nat := count_list p (fr d) + count_list p (rr d).

(** 134.scm:294-297 ideque-zip (two deques) *)
Definition dq_zip2 {A B} (d1 : dq A) (d2 : dq B) : dq (A * B) :=
  let elts := combine (dq_to_list d1) (dq_to_list d2) in dq_check (length elts) elts 0 [].

(** 134.scm:300-303 ideque-map *)
Definition dq_map {A B} (g : A -> B) (d : dq A) : dq B := Dq (lenf d) (map g (fr d)) (lenr d) (map g (rr d)).

(** SRFI 1 filter-map *)
Fixpoint filter_map_list {A B} (g : A -> option B) (l : list A) : list B :=
  match l with [] => [] | x :: l' => match g x with Some y => y :: filter_map_list g l' | None => filter_map_list g l' end end.

(** 134.scm:306-310 ideque-filter-map *)
Definition dq_filter_map {A B} (g : A -> option B) (d : dq A) : dq B :=
  let f := filter_map_list g (fr d) in
  let r := filter_map_list g (rr d) in
  dq_check (length f) f (length r) r.

(** 134.scm:325-327 ideque-fold, 330-332 ideque-fold-right; 313-322 ideque-for-each(-right) visit in the same orders *)
Definition dq_fold {A S} (proc : A -> S -> S) (knil : S) (d : dq A) : S :=
  fold_left (fun acc x => proc x acc) (rev (rr d)) (fold_left (fun acc x => proc x acc) (fr d) knil).
Definition dq_fold_right {A S} (proc : A -> S -> S) (knil : S) (d : dq A) : S :=
  fold_right proc (fold_right proc knil (rev (rr d))) (fr d).
Definition dq_for_each_order {A} (d : dq A) : list A := fr d ++ rev (rr d).
Definition dq_for_each_right_order {A} (d : dq A) : list A := rr d ++ rev (fr d).

(** 134.scm:335-337 ideque-append-map *)
Definition dq_append_map {A B} (g : A -> list B) (d : dq A) : dq B := dq_of_list (flat_map g (dq_to_list d)).

(** 134.scm:339-347 %ideque-filter-remove with op = filter / remove *)
Definition dq_filter_remove {A} (op : (A -> bool) -> list A -> list A) (p : A -> bool) (d : dq A) : dq A :=
  let f := op p (fr d) in
  let r := op p (rr d) in
  dq_check (length f) f (length r) r.
Definition remove_list {A} (p : A -> bool) (l : list A) : list A := filter (fun x => negb (p x)) l.
Definition dq_filter {A} (p : A -> bool) (d : dq A) : dq A := dq_filter_remove (@filter A) p d.
Definition dq_remove {A} (p : A -> bool) (d : dq A) : dq A := dq_filter_remove (@remove_list A) p d.

(** 134.scm:350-355 ideque-partition *)
Definition dq_partition {A} (p : A -> bool) (d : dq A) : dq A * dq A :=
  let '(f1, f2) := partition p (fr d) in
  let '(r1, r2) := partition p (rr d) in
  (dq_check (length f1) f1 (length r1) r1, dq_check (length f2) f2 (length r2) r2).

(** 134.scm:359-373 %search; 376-385 ideque-find / ideque-find-right (failure thunk = None) *)
Definition dq_search {A} (p : A -> bool) (s1 s2 : list A) : option A :=
  match find p s1 with Some x => Some x | None => find p (rev s2) end.
Definition dq_find {A} (p : A -> bool) (d : dq A) : option A := dq_search p (fr d) (rr d).
Definition dq_find_right {A} (p : A -> bool) (d : dq A) : option A := dq_search p (rr d) (fr d).

(** SRFI 1 span / break *)
Fixpoint span_list {A} (p : A -> bool) (l : list A) : list A * list A :=
  match l with
  | [] => ([], [])
  | x :: l' => if p x then let '(h, t) := span_list p l' in (x :: h, t) else ([], l)
  end.
Definition break_list {A} (p : A -> bool) (l : list A) : list A * list A := span_list (fun x => negb (p x)) l.

(** 134.scm:388-395 ideque-take-while *)
Definition dq_take_while {A} (p : A -> bool) (d : dq A) : dq A :=
  let '(hd, tl) := span_list p (fr d) in
  match tl with
  | [] => let '(hd', tl') := span_list p (rev (rr d)) in dq_check (lenf d) (fr d) (length hd') (rev hd')
  | _ :: _ => dq_check (length hd) hd 0 []
  end.

(** 134.scm:398-400 ideque-take-while-right *)
Definition dq_take_while_right {A} (p : A -> bool) (d : dq A) : dq A := dq_reverse (dq_take_while p (dq_reverse d)).

(** 134.scm:403-410 ideque-drop-while *)
Definition dq_drop_while {A} (p : A -> bool) (d : dq A) : dq A :=
  let '(hd, tl) := span_list p (fr d) in
  match tl with
  | [] => let '(hd', tl') := span_list p (rev (rr d)) in dq_check (length tl') tl' 0 []
  | _ :: _ => dq_check (length tl) tl (lenr d) (rr d)
  end.

(** 134.scm:413-415 ideque-drop-while-right *)
Definition dq_drop_while_right {A} (p : A -> bool) (d : dq A) : dq A := dq_reverse (dq_drop_while p (dq_reverse d)).

(** 134.scm:417-429 %idq-span-break with op = span / break *)
Definition dq_span_break {A} (op : (A -> bool) -> list A -> list A * list A) (p : A -> bool) (d : dq A) : dq A * dq A :=
  let '(head, tail) := op p (fr d) in
  match tail with
  | [] => let '(head', tail') := op p (rev (rr d)) in
          (dq_check (length head) head (length head') (rev head'), dq_check (length tail') tail' 0 [])
  | _ :: _ => (dq_check (length head) head 0 [], dq_check (length tail) tail (lenr d) (rr d))
  end.
Definition dq_span {A} (p : A -> bool) (d : dq A) := dq_span_break (@span_list A) p d.
Definition dq_break {A} (p : A -> bool) (d : dq A) := dq_span_break (@break_list A) p d.

(** 134.scm:432-437 ideque-any, 440-445 ideque-every (boolean predicates) *)
Definition dq_any {A} (p : A -> bool) (d : dq A) : bool :=
  match rr d with
  | [] => existsb p (fr d)
  | _ :: _ => existsb p (fr d) || existsb p (rev (rr d))
  end.
Definition dq_every {A} (p : A -> bool) (d : dq A) : bool :=
  match rr d with
  | [] => forallb p (fr d)
  | _ :: _ => forallb p (fr d) && forallb p (rev (rr d))
  end.

(** 134.scm:445-453 ideque->generator, drained: front / remove-front until empty ([fuel] steps at most) *)
Fixpoint dq_drain {A} (fuel : nat) (d : dq A) : option (list A) :=
  if dq_is_empty d then Some [] else
  match fuel with
  | O => None
  | S fuel' =>
    match dq_front d, dq_remove_front d with
    | Some v, Some d' => match dq_drain fuel' d' with Some l => Some (v :: l) | None => None end
    | _, _ => None
    end
  end.

(** 134.scm:205-211 list-prefix= *)
Fixpoint list_prefix_eq {A} (eqb : A -> A -> bool) (a b : list A) : bool * list A * list A :=
  match a, b with
  | x :: a', y :: b' => if eqb x y then list_prefix_eq eqb a' b' else (false, a, b)
  | _, _ => (true, a, b)
  end.
(** SRFI 1 list= on two lists *)
Fixpoint list_eq {A} (eqb : A -> A -> bool) (a b : list A) : bool :=
  match a, b with
  | [], [] => true
  | x :: a', y :: b' => eqb x y && list_eq eqb a' b'
  | _, _ => false
  end.

(** 134.scm:183-199 ideque= with two deques (the [eq?] shortcut is absorbed by a reflexive elt=) *)
Definition dq_equal {A} (eqb : A -> A -> bool) (d1 d2 : dq A) : bool :=
  let len1 := lenf d1 + lenr d1 in
  let len2 := lenf d2 + lenr d2 in
  (len1 =? len2) &&
  (let '(x, t1, t2) := list_prefix_eq eqb (fr d1) (fr d2) in
   x &&
   (let '(y, r1, r2) := list_prefix_eq eqb (rr d1) (rr d2) in
    y &&
    match t1 with
    | [] => list_eq eqb t2 (rev r1)
    | _ :: _ => list_eq eqb t1 (rev r2)
    end)).

(** the change class "a constructor skips [check]": %ideque-filter-remove ending in %make-dq *)
Definition dq_filter_unchecked {A} (p : A -> bool) (d : dq A) : dq A :=
  let f := filter p (fr d) in let r := filter p (rr d) in Dq (length f) f (length r) r.
