(** C18: the extracted model instances agree with the extracted spec instances (so the
    correspondence run compares the implementation with a proved-equal pair). *)
From ChibiV Require Import C18.Spec C18.Model C18.Proofs C18.Proofs2 C18.Oracle.
Local Open Scope Z_scope.

Lemma zlt_swo : forall desc, strict_weak_order (zlt desc).
Proof.
  intros [|]; split; unfold zlt.
  - intros x y H. apply Z.ltb_lt in H. apply Z.ltb_ge. lia.
  - intros x y z H1 H2. apply Z.ltb_ge in H1, H2. apply Z.ltb_ge. lia.
  - intros x y H. apply Z.ltb_lt in H. apply Z.ltb_ge. lia.
  - intros x y z H1 H2. apply Z.ltb_ge in H1, H2. apply Z.ltb_ge. lia.
Qed.

Lemma insert_ext : forall (A : Type) (f g : A -> A -> bool), (forall x y, f x y = g x y) ->
  forall x l, insert f x l = insert g x l.
Proof. intros A f g H x l. induction l as [|y l IH]; [reflexivity|]. cbn [insert]. rewrite H, IH. reflexivity. Qed.

Lemma ssort_ext : forall (A : Type) (f g : A -> A -> bool), (forall x y, f x y = g x y) ->
  forall l, ssort f l = ssort g l.
Proof.
  intros A f g H l. induction l as [|x l IH]; [reflexivity|].
  cbn [ssort fold_right]. fold (ssort f l). fold (ssort g l). rewrite IH. apply insert_ext, H.
Qed.

Lemma zcmp_lt : forall x y, cmp_lt _ zcmp x y = zlt false x y.
Proof.
  intros x y. unfold cmp_lt, zcmp, zlt.
  destruct (fst x <? fst y) eqn:E; [apply Z.ltb_lt in E; apply Z.ltb_lt; lia | apply Z.ltb_ge in E; apply Z.ltb_ge; lia].
Qed.
Lemma zcmp_gt : forall x y, cmp_gt _ zcmp x y = zlt true x y.
Proof. intros x y. unfold cmp_gt. rewrite zcmp_lt. reflexivity. Qed.

Lemma zcmp_swo : strict_weak_order (cmp_lt _ zcmp).
Proof.
  destruct (zlt_swo false) as [Ha Hn]. split.
  - intros x y. rewrite !zcmp_lt. apply Ha.
  - intros x y z. rewrite !zcmp_lt. apply Hn.
Qed.

Theorem model_sort_less_is_spec : forall desc keys, model_sort_less desc keys = Some (spec_sort desc keys).
Proof.
  intros desc keys. unfold model_sort_less, spec_sort.
  rewrite (sort_x_less_is_ssort _ (zlt desc) (zlt_swo desc)). reflexivity.
Qed.

Theorem model_sort_basic_is_spec : forall inverse keys, model_sort_basic inverse keys = Some (spec_sort inverse keys).
Proof.
  intros inverse keys. unfold model_sort_basic, spec_sort.
  rewrite (sort_x_basic_is_ssort _ zcmp zcmp_swo). cbn [option_map]. f_equal. f_equal.
  destruct inverse; apply ssort_ext; [apply zcmp_gt | apply zcmp_lt].
Qed.

(** keys sorted (ascending, or descending when [desc]) as the merge procedures require *)
Definition keys_sorted (desc : bool) (keys : list Z) : Prop :=
  forall start, StronglySorted (le (zlt desc)) (tagged_from start keys).

Theorem model_merge95_is_spec : forall desc k1 k2, keys_sorted desc k1 -> keys_sorted desc k2 ->
  model_merge95 desc k1 k2 = Some (spec_merge desc k1 k2) /\ model_vmerge132 desc k1 k2 = spec_merge desc k1 k2.
Proof.
  intros desc k1 k2 H1 H2. unfold model_merge95, model_vmerge132, spec_merge.
  assert (S1 : StronglySorted (le (zlt desc)) (tagged k1)) by exact (H1 0%nat).
  pose proof (H2 (length k1)) as S2.
  destruct (merge95_is_stable_merge _ (zlt desc) (zlt_swo desc) _ _ S1 S2) as (r & E & Hr).
  pose proof (vmerge132_is_stable_merge _ (zlt desc) (zlt_swo desc) _ _ S1 S2) as Hv.
  pose proof (ssort_is_stable_sort _ (zlt desc) (zlt_swo desc) (tagged k1 ++ tagged_from (length k1) k2)) as Hs.
  rewrite E. cbn [option_map].
  rewrite (stable_sort_unique _ (zlt desc) (zlt_swo desc) _ _ _ Hr Hs).
  rewrite (stable_sort_unique _ (zlt desc) (zlt_swo desc) _ _ _ Hv Hs).
  split; reflexivity.
Qed.

Example keys_sorted_example : keys_sorted false [1; 1; 2; 5].
Proof. intro start. unfold tagged_from. cbn. repeat constructor. Qed.

Example oracle_example : spec_sort true [1; 2; 1; 2; 0] = [1; 3; 0; 2; 4]%Z.
Proof. reflexivity. Qed.
