(** C18 — known finding F-C18-14, stated about the code AS IT IS: lib/srfi/146/rbtree.scm black-height (369-377) and tree-catenate
    (311-333).  The patterns of black-height are (black), (node red a x b), (node black a x b): in `tree-match` a bare `red` /
    `black` inside a (node ...) pattern is a pattern VARIABLE that is bound to the colour (rbtree.scm:116-117, compile-pattern's last
    rule), not a test, so the second clause matches every non-leaf node and the third is unreachable (Coq rejects the literal
    transcription with three clauses as redundant: the model below has two).  Hence black-height is 0 for every valid tree,
    tree-catenate always takes its equal-height branch and builds (black tree1 pivot tree2) whatever the heights are.
    tree-split (335-367) only calls tree-catenate; mapping-range< ... / mapping-split / mapping-catenate sit on top.
    Executable model + the refutation; not part of the extracted model (the `omap` history family stays on the list oracle and
    reports its failures under the known-finding signature). *)
From Coq Require Import ZArith List Bool Lia.
From ChibiV Require Import C18.RBDefs C18.RBTree C18.RBInv.
Import ListNotations.
Local Open Scope Z_scope.

(** rbtree.scm:369-377 black-height, as coded *)
Fixpoint black_height (tree : rbt) : option nat :=
  match tree with
  | Lf Black => Some 0%nat
  | Nd red a x b => black_height b          (* [red] is a variable: any colour *)
  | _ => None                               (* a non-black leaf: no pattern *)
  end.

(** the loops of tree-catenate's unequal-height branches (rbtree.scm:320-333); (left tree) of a leaf is #f: raises *)
Fixpoint cat_into_left (tree1 : rbt) (pivot : item) (tree : rbt) (depth : nat) : option rbt :=
  match depth with
  | O => Some (balance (Nd Red tree1 pivot tree))
  | S d => match tree with
           | Nd c l x r => match cat_into_left tree1 pivot l d with Some l' => Some (balance (Nd c l' x r)) | None => None end
           | Lf _ => None
           end
  end.
Fixpoint cat_into_right (tree : rbt) (pivot : item) (tree2 : rbt) (depth : nat) : option rbt :=
  match depth with
  | O => Some (balance (Nd Red tree pivot tree2))
  | S d => match tree with
           | Nd c l x r => match cat_into_right r pivot tree2 d with Some r' => Some (balance (Nd c l x r')) | None => None end
           | Lf _ => None
           end
  end.

(** rbtree.scm:311-333 tree-catenate *)
Definition tree_catenate (tree1 : rbt) (pivot_key pivot_value : Z) (tree2 : rbt) : option rbt :=
  let pivot := make_item pivot_key pivot_value in
  match black_height tree1, black_height tree2 with
  | Some height1, Some height2 =>
      if Nat.eqb height1 height2 then Some (Nd Black tree1 pivot tree2)
      else if Nat.ltb height1 height2 then
        match cat_into_left tree1 pivot tree2 (height2 - height1) with Some t => Some (blacken t) | None => None end
      else
        match cat_into_right tree1 pivot tree2 (height1 - height2) with Some t => Some (blacken t) | None => None end
  | _, _ => None
  end.

Lemma black_height_constant_zero : forall t, invc t -> black_height t = Some 0%nat.
Proof.
  induction t as [c|c l IHl x r IHr]; intros Hc.
  - destruct c; cbn [invc] in Hc; try contradiction. reflexivity.
  - cbn [black_height]. apply IHr. destruct c; cbn [invc] in Hc; tauto.
Qed.

(** on valid trees tree-catenate is the constant "put a black node on top" *)
Lemma tree_catenate_as_coded : forall t1 k v t2, invc t1 -> invc t2 ->
  tree_catenate t1 k v t2 = Some (Nd Black t1 (k, v) t2).
Proof.
  intros t1 k v t2 H1 H2. unfold tree_catenate. rewrite (black_height_constant_zero t1 H1), (black_height_constant_zero t2 H2).
  reflexivity.
Qed.

(** F-C18-14: two valid mappings, all keys of the first below the pivot below all keys of the second, whose catenation violates
    the red-black invariant (unequal black heights); a deletion on the result then leaves a WHITE leaf in the tree, on which the
    next traversal (mapping->alist, mapping-size, ...) raises "tree does not match any pattern" *)
Definition f14_t1 : rbt := Nd Black (Lf Black) (1, 0) (Lf Black).
Definition f14_t2 : rbt := Lf Black.
Theorem tree_catenate_keeps_invariant_refuted :
  rb_inv f14_t1 /\ rb_inv f14_t2 /\ keys_sorted f14_t1 /\ keys_sorted f14_t2 /\
  exists t, tree_catenate f14_t1 2 0 f14_t2 = Some t /\ ~ rb_inv t /\
    exists t', mapping_delete t 1 = Some t' /\ ~ rb_inv t' /\ mapping_to_alist t' = None.
Proof.
  split; [unfold rb_inv, f14_t1; cbn [color_of invc invh bh]; auto|]. split; [unfold rb_inv, f14_t2; cbn [color_of invc invh]; auto|].
  split; [unfold keys_sorted; cbn; repeat constructor|]. split; [unfold keys_sorted; cbn; constructor|].
  eexists. split; [reflexivity|]. split.
  - intros (_ & _ & Hh). cbn in Hh. destruct Hh as (_ & _ & Hh). discriminate.
  - eexists. split; [vm_compute; reflexivity|]. split; [|vm_compute; reflexivity].
    intros (_ & Hc & _). cbn in Hc. tauto.
Qed.
Print Assumptions tree_catenate_keeps_invariant_refuted.
