(** C18 — SRFI 146 red-black tree: the SPEC side of the theorems about coq/C18/RBTree.v.
    [elements]: the association list a tree denotes (in order); [rb_inv]: the red-black invariant as rbtree.scm keeps it between
    operations (root black, no red node with a red child, no white node or leaf, no red leaf, equal black height on every path);
    [keys_sorted]: the search-tree order (the in-order keys strictly increase). *)
From Coq Require Import ZArith List Bool Sorted.
From ChibiV Require Import C18.RBDefs.
Import ListNotations.
Local Open Scope Z_scope.

Fixpoint elements (t : rbt) : list (Z * Z) :=
  match t with
  | Lf _ => []
  | Nd _ l x r => elements l ++ x :: elements r
  end.

Definition keys_sorted (t : rbt) : Prop := StronglySorted Z.lt (map fst (elements t)).

Definition color_of (t : rbt) : color := match t with Lf c => c | Nd c _ _ _ => c end.

(** black height along the left spine; a white (double black) node counts 2, a white leaf 1 *)
Fixpoint bh (t : rbt) : nat :=
  match t with
  | Lf Black => 0 | Lf White => 1 | Lf Red => 0
  | Nd Red l _ _ => bh l
  | Nd Black l _ _ => S (bh l)
  | Nd White l _ _ => S (S (bh l))
  end.

(** every node has children of equal black height *)
Fixpoint invh (t : rbt) : Prop :=
  match t with
  | Lf _ => True
  | Nd _ l _ r => invh l /\ invh r /\ bh l = bh r
  end.

(** colours: only black leaves, no white node, a red node has black children *)
Fixpoint invc (t : rbt) : Prop :=
  match t with
  | Lf Black => True
  | Lf _ => False
  | Nd Red l _ r => color_of l = Black /\ color_of r = Black /\ invc l /\ invc r
  | Nd Black l _ r => invc l /\ invc r
  | Nd White _ _ _ => False
  end.

(** a valid subtree *)
Definition rb_sub (t : rbt) : Prop := invc t /\ invh t.
(** what a mapping holds between operations *)
Definition rb_inv (t : rbt) : Prop := color_of t = Black /\ invc t /\ invh t.
