(** C18 MODEL of SRFI 117 list queues: lib/srfi/117/queue.scm (107 lines) with the SRFI 1 / init-7
    list procedures it calls.  Executable, NO proofs (they are in C18/LQueueProofs.v).  One Gallina
    function per Scheme procedure, same case split and order of tests.

    WHY A STORE.  A List-Queue record (queue.scm:2-6) has two fields, [list] and [last], that are
    POINTERS INTO ONE MUTABLE LIST; add-back! and remove-back! use [set-cdr!].  So the model passes a
    heap of pairs explicitly:
      - [loc] = nat, a value that a cdr or a queue field can hold is [ptr] = PNil | PPair l,
      - [heap] = list of cells (car : Z, cdr : ptr); the pair at location i is [nth_error h i];
        allocation appends at the end ([length h] is the fresh location).  Nothing is ever collected:
        the intermediate lists Scheme builds and drops ([reverse] inside append2 / map1 / list-copy)
        are not allocated at all, they are unobservable garbage.  Location NUMBERS carry no meaning
        (which address the allocator hands out is not observable); only the sharing graph does.
      - the record itself is mutable in Scheme: a mutator is [heap -> lq -> .. -> (heap * lq * result)];
        the caller stores the returned [lq] back into the variable that held the queue.
    An operation that raises in Scheme ([(car '())], [(cdr '())]) returns [None].  A walk along a
    cdr chain takes fuel [S (length h)]: a chain of distinct locations of [h] is never longer, so
    running out of fuel means the chain is cyclic (Scheme: does not return) or leaves the heap
    (impossible in Scheme) - both are [None].

    WHAT CHIBI REALLY DOES (checked in the sources, mirrored here):
      - srfi/1/fold.scm:76 [(define map! map)]: list-queue-map! allocates a FRESH list (init-7.scm:59
        map1) and stores it with list-queue-set-list!; no car is ever mutated ([h_set_car] is given
        for completeness but no procedure of queue.scm reaches a [set-car!]).
      - srfi/1/fold.scm:57-63 append-map with one list is the loop
        [(lp (reverse ls) '())] with [res := (append (f (car ls)) res)], and init-7.scm:38-48 / sexp.c
        sexp_append2_op copies its FIRST argument in front of the second.  The first step is
        [(append last-list '())]: so ALL lists are copied, the last one too.  list-queue-append! of
        chibi therefore shares NOTHING with its arguments (SRFI 117 merely allows sharing).
      - init-7.scm:654 list-copy and srfi/1/selectors.scm:58 last-pair [(cdr '())] raises.
    Procedure arguments (proc / stop? / mapper / successor) are total Gallina functions on Z:
    callbacks that raise, escape or mutate the queue are outside the model.  [list-queue?] and the
    generic-element type are outside the model (elements are Z). *)
From Coq Require Import List Arith Bool ZArith.
Import ListNotations.

(** * The heap of pairs *)

Definition loc := nat.

Inductive ptr : Type := PNil | PPair (l : loc).

Definition cell : Type := (Z * ptr)%type.
Definition heap : Type := list cell.

Definition ptr_eqb (a b : ptr) : bool :=
  match a, b with
  | PNil, PNil => true
  | PPair x, PPair y => Nat.eqb x y
  | _, _ => false
  end.

(** (pair? p) *)
Definition is_pair (p : ptr) : bool := match p with PNil => false | PPair _ => true end.

Definition h_get (h : heap) (p : ptr) : option cell :=
  match p with PNil => None | PPair l => nth_error h l end.

(** (car p) / (cdr p): an error on '() *)
Definition h_car (h : heap) (p : ptr) : option Z :=
  match h_get h p with Some (a, _) => Some a | None => None end.
Definition h_cdr (h : heap) (p : ptr) : option ptr :=
  match h_get h p with Some (_, d) => Some d | None => None end.

(** (cons x p): the fresh pair is at [length h] *)
Definition h_cons (h : heap) (x : Z) (p : ptr) : heap * ptr := (h ++ [(x, p)], PPair (length h)).

Fixpoint h_upd (h : heap) (l : loc) (c : cell) : heap :=
  match h, l with
  | [], _ => []
  | _ :: t, O => c :: t
  | x :: t, S l' => x :: h_upd t l' c
  end.

(** (set-cdr! p v) / (set-car! p x) *)
Definition h_set_cdr (h : heap) (p v : ptr) : option heap :=
  match p with
  | PNil => None
  | PPair l => match nth_error h l with Some (a, _) => Some (h_upd h l (a, v)) | None => None end
  end.
Definition h_set_car (h : heap) (p : ptr) (x : Z) : option heap :=
  match p with
  | PNil => None
  | PPair l => match nth_error h l with Some (_, d) => Some (h_upd h l (x, d)) | None => None end
  end.

(** a fresh chain with the elements [xs] whose last cdr is [tl]; conses from the back as sexp.c
    sexp_append2_op does ([b1 = cons (car a1) b1] along the reversed list) *)
Fixpoint h_alloc_list (h : heap) (xs : list Z) (tl : ptr) : heap * ptr :=
  match xs with
  | [] => (h, tl)
  | x :: xs' => let (h1, p) := h_alloc_list h xs' tl in h_cons h1 x p
  end.

(** * The abstraction: the Scheme list a pointer denotes *)

Fixpoint chain_fuel (n : nat) (h : heap) (p : ptr) : option (list Z) :=
  match p with
  | PNil => Some []
  | PPair l =>
      match n with
      | O => None
      | S n' =>
          match nth_error h l with
          | None => None
          | Some (a, d) =>
              match chain_fuel n' h d with Some xs => Some (a :: xs) | None => None end
          end
      end
  end.

Definition chain (h : heap) (p : ptr) : option (list Z) := chain_fuel (S (length h)) h p.

(** the locations of the pairs of that list, in order *)
Fixpoint chain_locs_fuel (n : nat) (h : heap) (p : ptr) : option (list loc) :=
  match p with
  | PNil => Some []
  | PPair l =>
      match n with
      | O => None
      | S n' =>
          match nth_error h l with
          | None => None
          | Some (_, d) =>
              match chain_locs_fuel n' h d with Some ls => Some (l :: ls) | None => None end
          end
      end
  end.

Definition chain_locs (h : heap) (p : ptr) : option (list loc) := chain_locs_fuel (S (length h)) h p.

(** * The SRFI 1 / init-7 list procedures that queue.scm calls *)

(** srfi/1/selectors.scm:58 (define (last-pair ls) (if (null? (cdr ls)) ls (last-pair (cdr ls)))) *)
Fixpoint h_last_pair_fuel (n : nat) (h : heap) (p : ptr) : option ptr :=
  match n with
  | O => None
  | S n' =>
      match h_cdr h p with
      | None => None
      | Some PNil => Some p
      | Some d => h_last_pair_fuel n' h d
      end
  end.

Definition h_last_pair (h : heap) (p : ptr) : option ptr := h_last_pair_fuel (S (length h)) h p.

(** init-7.scm:654-658 list-copy: fresh pairs *)
Definition h_list_copy (h : heap) (p : ptr) : option (heap * ptr) :=
  match chain h p with Some xs => Some (h_alloc_list h xs PNil) | None => None end.

(** init-7.scm:43-48 (append a b) = append2 a b: copies [a] in front of [b], shares [b] *)
Definition h_append2 (h : heap) (a b : ptr) : option (heap * ptr) :=
  match chain h a with Some xs => Some (h_alloc_list h xs b) | None => None end.

(** srfi/1/fold.scm:57-63 (append-map list-queue-list queues), the one-list case: from the LAST
    list to the first, [res := (append list res)] starting from '() *)
Fixpoint h_append_lists (h : heap) (ps : list ptr) : option (heap * ptr) :=
  match ps with
  | [] => Some (h, PNil)
  | p :: ps' =>
      match h_append_lists h ps' with
      | None => None
      | Some (h1, res) => h_append2 h1 p res
      end
  end.

(** init-7.scm:59-65 (map proc ls), one list: a fresh list *)
Definition h_map (f : Z -> Z) (h : heap) (p : ptr) : option (heap * ptr) :=
  match chain h p with Some xs => Some (h_alloc_list h (map f xs) PNil) | None => None end.

(** init-7.scm:78-84 for1: [(begin (f (car ls)) (for1 f (cdr ls)))].  The callback is a state
    transformer; with [f x s := s ++ [x]] the final state is the trace of the calls. *)
Fixpoint h_for1_fuel {S : Type} (f : Z -> S -> S) (n : nat) (h : heap) (p : ptr) (s : S) : option S :=
  match p with
  | PNil => Some s
  | PPair l =>
      match n with
      | O => None
      | Datatypes.S n' =>
          match nth_error h l with
          | None => None
          | Some (a, d) => h_for1_fuel f n' h d (f a s)
          end
      end
  end.

(** srfi/1/fold.scm:47-51 unfold (no tail generator).  [fuel] bounds the number of elements: a
    [stop?] that never answers true makes Scheme loop, here [None]. *)
Fixpoint unfold_list (fuel : nat) (stop : Z -> bool) (mapper succ : Z -> Z) (seed : Z) : option (list Z) :=
  if stop seed then Some []
  else match fuel with
       | O => None
       | S fuel' =>
           match unfold_list fuel' stop mapper succ (succ seed) with
           | Some r => Some (mapper seed :: r)
           | None => None
           end
       end.

(** srfi/1/fold.scm:53-55 unfold-right: [(lp (g seed) (cons (f seed) res))] *)
Fixpoint unfold_right_list (fuel : nat) (stop : Z -> bool) (mapper succ : Z -> Z) (seed : Z) (res : list Z)
  : option (list Z) :=
  if stop seed then Some res
  else match fuel with
       | O => None
       | S fuel' => unfold_right_list fuel' stop mapper succ (succ seed) (mapper seed :: res)
       end.

(** * The queue record: queue.scm:2-6 *)

Record lq : Type := Lq { q_first : ptr; q_last : ptr }.

(** the list a queue denotes, and the locations it occupies *)
Definition lq_list (h : heap) (q : lq) : option (list Z) := chain h (q_first q).
Definition lq_locs (h : heap) (q : lq) : option (list loc) := chain_locs h (q_first q).

(** the last pair of a chain of locations ('() for the empty chain) *)
Definition last_ptr (locs : list loc) : ptr :=
  match locs with [] => PNil | _ :: _ => PPair (last locs O) end.

(** decidable form of the representation invariant [last = (last-pair list)], '() when empty *)
Definition lq_wf_b (h : heap) (q : lq) : bool :=
  match lq_locs h q with
  | Some locs => ptr_eqb (q_last q) (last_ptr locs)
  | None => false
  end.

(** queue.scm:8-9 make-list-queue, one argument:
    (make-queue ls (if (pair? ls) (last-pair ls) '())) *)
Definition lq_make1 (h : heap) (p : ptr) : option lq :=
  if is_pair p then
    match h_last_pair h p with Some lp => Some (Lq p lp) | None => None end
  else Some (Lq p PNil).

(** queue.scm:8-9 make-list-queue, two arguments: (make-queue ls (car o)), nothing is checked *)
Definition lq_make2 (p lastp : ptr) : lq := Lq p lastp.

(** queue.scm:11-12 (list-queue x ...): the rest list is fresh *)
Definition lq_of_list (h : heap) (xs : list Z) : option (heap * lq) :=
  let (h1, p) := h_alloc_list h xs PNil in
  match lq_make1 h1 p with Some q => Some (h1, q) | None => None end.

(** queue.scm:14-15 list-queue-copy *)
Definition lq_copy (h : heap) (q : lq) : option (heap * lq) :=
  match h_list_copy h (q_first q) with
  | None => None
  | Some (h1, p) => match lq_make1 h1 p with Some q' => Some (h1, q') | None => None end
  end.

(** queue.scm:33-34 list-queue-empty? *)
Definition lq_is_empty (q : lq) : bool := negb (is_pair (q_first q)).

(** queue.scm:36-37 list-queue-front *)
Definition lq_front (h : heap) (q : lq) : option Z := h_car h (q_first q).

(** queue.scm:39-40 list-queue-back *)
Definition lq_back (h : heap) (q : lq) : option Z := h_car h (q_last q).

(** queue.scm:5 list-queue-list: the field accessor returns the POINTER [q_first q]; the list it
    denotes is [lq_list h q] above. *)
Definition lq_list_ptr (q : lq) : ptr := q_first q.

(** queue.scm:42-43 list-queue-first-last *)
Definition lq_first_last (q : lq) : ptr * ptr := (q_first q, q_last q).

(** queue.scm:45-48 list-queue-add-front! *)
Definition lq_add_front (h : heap) (q : lq) (x : Z) : heap * lq :=
  let (h1, p) := h_cons h x (q_first q) in
  let q1 := Lq p (q_last q) in
  if is_pair (q_last q1) then (h1, q1) else (h1, Lq (q_first q1) (q_first q1)).

(** queue.scm:50-58 list-queue-add-back! *)
Definition lq_add_back (h : heap) (q : lq) (x : Z) : option (heap * lq) :=
  let lastp := q_last q in
  if is_pair lastp then
    let (h1, p) := h_cons h x PNil in                    (* (list element) *)
    match h_set_cdr h1 lastp p with                      (* (set-cdr! last ..) *)
    | None => None
    | Some h2 =>
        match h_cdr h2 lastp with                        (* (list-queue-last-set! q (cdr last)) *)
        | None => None
        | Some d => Some (h2, Lq (q_first q) d)
        end
    end
  else
    let (h1, p) := h_cons h x PNil in
    let q1 := Lq p (q_last q) in
    Some (h1, Lq (q_first q1) (q_first q1)).

(** queue.scm:60-65 list-queue-remove-front!  ([(cdr ls)] is evaluated before any field is set) *)
Definition lq_remove_front (h : heap) (q : lq) : option (lq * Z) :=
  let ls := q_first q in
  match h_cdr h ls with
  | None => None
  | Some d =>
      let q1 := Lq d (q_last q) in
      let q2 := if is_pair d then q1 else Lq (q_first q1) PNil in
      match h_car h ls with Some a => Some (q2, a) | None => None end
  end.

(** queue.scm:80-84 list-queue-remove-all!: returns the old list *)
Definition lq_remove_all (q : lq) : lq * ptr := (Lq PNil PNil, q_first q).

(** queue.scm:71-78 the named let [lp head tail] of list-queue-remove-back! *)
Fixpoint lq_remove_back_lp (n : nat) (h : heap) (q : lq) (head tail : ptr) : option (heap * lq * Z) :=
  match n with
  | O => None
  | S n' =>
      match h_cdr h tail with
      | None => None
      | Some PNil =>
          match h_set_cdr h head PNil with
          | None => None
          | Some h1 =>
              match h_car h1 tail with
              | Some a => Some (h1, Lq (q_first q) head, a)
              | None => None
              end
          end
      | Some d => lq_remove_back_lp n' h q tail d
      end
  end.

(** queue.scm:67-78 list-queue-remove-back! *)
Definition lq_remove_back (h : heap) (q : lq) : option (heap * lq * Z) :=
  let ls := q_first q in
  match h_cdr h ls with
  | None => None
  | Some PNil =>
      let (q1, res) := lq_remove_all q in
      match h_car h res with Some a => Some (h, q1, a) | None => None end
  | Some d => lq_remove_back_lp (S (length h)) h q ls d
  end.

(** queue.scm:86-88 list-queue-set-list!, no optional argument:
    last := (if (pair? list) (last-pair list) '()) *)
Definition lq_set_list1 (h : heap) (q : lq) (p : ptr) : option lq :=
  let q1 := Lq p (q_last q) in
  if is_pair p then
    match h_last_pair h p with Some lp => Some (Lq (q_first q1) lp) | None => None end
  else Some (Lq (q_first q1) PNil).

(** queue.scm:86-88 list-queue-set-list! with the [last] argument: nothing is checked *)
Definition lq_set_list2 (q : lq) (p lastp : ptr) : lq := Lq p lastp.

(** queue.scm:90-91 list-queue-concatenate: (make-list-queue (list-copy (append-map ..))) *)
Definition lq_concatenate (h : heap) (qs : list lq) : option (heap * lq) :=
  match h_append_lists h (map q_first qs) with
  | None => None
  | Some (h1, p) =>
      match h_list_copy h1 p with
      | None => None
      | Some (h2, p2) => match lq_make1 h2 p2 with Some q => Some (h2, q) | None => None end
      end
  end.

(** queue.scm:93-94 list-queue-append *)
Definition lq_append (h : heap) (qs : list lq) : option (heap * lq) := lq_concatenate h qs.

(** queue.scm:96-97 list-queue-append!: (make-list-queue (append-map list-queue-list queues)) *)
Definition lq_append_bang (h : heap) (qs : list lq) : option (heap * lq) :=
  match h_append_lists h (map q_first qs) with
  | None => None
  | Some (h1, p) => match lq_make1 h1 p with Some q => Some (h1, q) | None => None end
  end.

(** queue.scm:99-100 list-queue-map *)
Definition lq_map (f : Z -> Z) (h : heap) (q : lq) : option (heap * lq) :=
  match h_map f h (q_first q) with
  | None => None
  | Some (h1, p) => match lq_make1 h1 p with Some q' => Some (h1, q') | None => None end
  end.

(** queue.scm:102-104 list-queue-map!: [map!] is [map] (srfi/1/fold.scm:76), then set-list! *)
Definition lq_map_bang (f : Z -> Z) (h : heap) (q : lq) : option (heap * lq) :=
  match h_map f h (q_first q) with
  | None => None
  | Some (h1, p) => match lq_set_list1 h1 q p with Some q' => Some (h1, q') | None => None end
  end.

(** queue.scm:106-107 list-queue-for-each *)
Definition lq_for_each {S : Type} (f : Z -> S -> S) (h : heap) (q : lq) (s : S) : option S :=
  h_for1_fuel f (Datatypes.S (length h)) h (q_first q) s.

(** queue.scm:17-23 list-queue-unfold.  [oq = Some q]: the optional queue argument, whose new
    list is (append ls (list-queue-list queue)): [ls] copied in front of the OLD pairs. *)
Definition lq_unfold (fuel : nat) (stop : Z -> bool) (mapper succ : Z -> Z) (seed : Z)
           (h : heap) (oq : option lq) : option (heap * lq) :=
  match unfold_list fuel stop mapper succ seed with
  | None => None
  | Some xs =>
      let (h1, ls) := h_alloc_list h xs PNil in
      match oq with
      | Some q =>
          match h_append2 h1 ls (q_first q) with
          | None => None
          | Some (h2, p) => match lq_set_list1 h2 q p with Some q' => Some (h2, q') | None => None end
          end
      | None => match lq_make1 h1 ls with Some q' => Some (h1, q') | None => None end
      end
  end.

(** queue.scm:25-31 list-queue-unfold-right.  With a queue: (append (list-queue-list queue) ls):
    the OLD list is copied in front of the fresh [ls]. *)
Definition lq_unfold_right (fuel : nat) (stop : Z -> bool) (mapper succ : Z -> Z) (seed : Z)
           (h : heap) (oq : option lq) : option (heap * lq) :=
  match unfold_right_list fuel stop mapper succ seed [] with
  | None => None
  | Some xs =>
      let (h1, ls) := h_alloc_list h xs PNil in
      match oq with
      | Some q =>
          match h_append2 h1 (q_first q) ls with
          | None => None
          | Some (h2, p) => match lq_set_list1 h2 q p with Some q' => Some (h2, q') | None => None end
          end
      | None => match lq_make1 h1 ls with Some q' => Some (h1, q') | None => None end
      end
  end.

(** * Entry points for the OCaml driver: one heap, queue slots addressed by index *)

Definition lqs : Type := (heap * list lq)%type.

(** three slots, each holding the empty queue (make-list-queue '()) *)
Definition lqs_init : lqs := ([], [Lq PNil PNil; Lq PNil PNil; Lq PNil PNil]).

Definition lqs_get (s : lqs) (i : nat) : option lq := nth_error (snd s) i.

Fixpoint slot_set (qs : list lq) (i : nat) (q : lq) : option (list lq) :=
  match qs, i with
  | [], _ => None
  | _ :: t, O => Some (q :: t)
  | x :: t, S i' => match slot_set t i' q with Some t' => Some (x :: t') | None => None end
  end.

Fixpoint slots_get (qs : list lq) (is : list nat) : option (list lq) :=
  match is with
  | [] => Some []
  | i :: is' =>
      match nth_error qs i, slots_get qs is' with
      | Some q, Some r => Some (q :: r)
      | _, _ => None
      end
  end.

Inductive lq_cmd : Type :=
| CNew (dst : nat) (xs : list Z)            (* (set! q_dst (list-queue x ...)) *)
| CMake1 (dst src : nat)                    (* (set! q_dst (make-list-queue (list-queue-list q_src))): SHARES *)
| CMake2 (dst src : nat)                    (* (call-with-values (lambda () (list-queue-first-last q_src)) make-list-queue) *)
| CCopy (dst src : nat)                     (* (set! q_dst (list-queue-copy q_src)) *)
| CEmptyP (i : nat)
| CFront (i : nat)
| CBack (i : nat)
| CList (i : nat)                           (* the elements of (list-queue-list q_i) *)
| CAddFront (i : nat) (x : Z)
| CAddBack (i : nat) (x : Z)
| CRemoveFront (i : nat)
| CRemoveBack (i : nat)
| CRemoveAll (i : nat)                      (* result: the elements of the returned list *)
| CSetList1 (dst src : nat)                 (* (list-queue-set-list! q_dst (list-queue-list q_src)): SHARES *)
| CSetList2 (dst src : nat)                 (* (list-queue-set-list! q_dst first last) with first, last of q_src *)
| CSetListNew (dst : nat) (xs : list Z)     (* (list-queue-set-list! q_dst (list x ...)) *)
| CConcat (dst : nat) (srcs : list nat)     (* (set! q_dst (list-queue-concatenate (list q_s ...))) *)
| CAppendBang (dst : nat) (srcs : list nat) (* (set! q_dst (list-queue-append! q_s ...)) *)
| CMap (dst src : nat) (a b : Z)            (* (set! q_dst (list-queue-map (lambda (x) [a*x+b]) q_src)) *)
| CMapBang (i : nat) (a b : Z)              (* (list-queue-map! (lambda (x) [a*x+b]) q_i) *)
| CForEach (i : nat)                        (* the trace of list-queue-for-each *)
| CUnfold (dst : nat) (into : bool) (seed stop a b : Z)
    (* (list-queue-unfold (lambda (s) (>= s stop)) (lambda (s) [a*s+b]) (lambda (s) (+ s 1)) seed [q_dst]) *)
| CUnfoldRight (dst : nat) (into : bool) (seed stop a b : Z)
| CWf (i : nat).                            (* model-only: does last = (last-pair list) hold? *)

Inductive lq_res : Type :=
| RUnit
| RBool (b : bool)
| RInt (z : Z)
| RList (l : list Z).

Definition affine (a b : Z) (x : Z) : Z := (a * x + b)%Z.

Definition put (h : heap) (qs : list lq) (i : nat) (q : lq) (r : lq_res) : option (lqs * lq_res) :=
  match slot_set qs i q with Some qs' => Some ((h, qs'), r) | None => None end.

(** [None] = the Scheme program raises (or a slot index is out of range) *)
Definition lqs_run (c : lq_cmd) (s : lqs) : option (lqs * lq_res) :=
  let (h, qs) := s in
  match c with
  | CNew dst xs =>
      match lq_of_list h xs with Some (h', q) => put h' qs dst q RUnit | None => None end
  | CMake1 dst src =>
      match nth_error qs src with
      | Some q => match lq_make1 h (lq_list_ptr q) with Some q' => put h qs dst q' RUnit | None => None end
      | None => None
      end
  | CMake2 dst src =>
      match nth_error qs src with
      | Some q => let (f, l) := lq_first_last q in put h qs dst (lq_make2 f l) RUnit
      | None => None
      end
  | CCopy dst src =>
      match nth_error qs src with
      | Some q => match lq_copy h q with Some (h', q') => put h' qs dst q' RUnit | None => None end
      | None => None
      end
  | CEmptyP i =>
      match nth_error qs i with Some q => Some (s, RBool (lq_is_empty q)) | None => None end
  | CFront i =>
      match nth_error qs i with
      | Some q => match lq_front h q with Some a => Some (s, RInt a) | None => None end
      | None => None
      end
  | CBack i =>
      match nth_error qs i with
      | Some q => match lq_back h q with Some a => Some (s, RInt a) | None => None end
      | None => None
      end
  | CList i =>
      match nth_error qs i with
      | Some q => match lq_list h q with Some l => Some (s, RList l) | None => None end
      | None => None
      end
  | CAddFront i x =>
      match nth_error qs i with
      | Some q => let (h', q') := lq_add_front h q x in put h' qs i q' RUnit
      | None => None
      end
  | CAddBack i x =>
      match nth_error qs i with
      | Some q => match lq_add_back h q x with Some (h', q') => put h' qs i q' RUnit | None => None end
      | None => None
      end
  | CRemoveFront i =>
      match nth_error qs i with
      | Some q => match lq_remove_front h q with Some (q', a) => put h qs i q' (RInt a) | None => None end
      | None => None
      end
  | CRemoveBack i =>
      match nth_error qs i with
      | Some q =>
          match lq_remove_back h q with Some (h', q', a) => put h' qs i q' (RInt a) | None => None end
      | None => None
      end
  | CRemoveAll i =>
      match nth_error qs i with
      | Some q =>
          let (q', p) := lq_remove_all q in
          match chain h p with Some l => put h qs i q' (RList l) | None => None end
      | None => None
      end
  | CSetList1 dst src =>
      match nth_error qs dst, nth_error qs src with
      | Some q, Some q2 =>
          match lq_set_list1 h q (lq_list_ptr q2) with Some q' => put h qs dst q' RUnit | None => None end
      | _, _ => None
      end
  | CSetList2 dst src =>
      match nth_error qs dst, nth_error qs src with
      | Some q, Some q2 => let (f, l) := lq_first_last q2 in put h qs dst (lq_set_list2 q f l) RUnit
      | _, _ => None
      end
  | CSetListNew dst xs =>
      match nth_error qs dst with
      | Some q =>
          let (h1, p) := h_alloc_list h xs PNil in
          match lq_set_list1 h1 q p with Some q' => put h1 qs dst q' RUnit | None => None end
      | None => None
      end
  | CConcat dst srcs =>
      match slots_get qs srcs with
      | Some l => match lq_concatenate h l with Some (h', q) => put h' qs dst q RUnit | None => None end
      | None => None
      end
  | CAppendBang dst srcs =>
      match slots_get qs srcs with
      | Some l => match lq_append_bang h l with Some (h', q) => put h' qs dst q RUnit | None => None end
      | None => None
      end
  | CMap dst src a b =>
      match nth_error qs src with
      | Some q => match lq_map (affine a b) h q with Some (h', q') => put h' qs dst q' RUnit | None => None end
      | None => None
      end
  | CMapBang i a b =>
      match nth_error qs i with
      | Some q => match lq_map_bang (affine a b) h q with Some (h', q') => put h' qs i q' RUnit | None => None end
      | None => None
      end
  | CForEach i =>
      match nth_error qs i with
      | Some q =>
          match lq_for_each (fun x tr => tr ++ [x]) h q [] with Some tr => Some (s, RList tr) | None => None end
      | None => None
      end
  | CUnfold dst into seed stop a b =>
      let oq := if into then nth_error qs dst else None in
      if into && negb (match oq with Some _ => true | None => false end) then None else
      match lq_unfold (Z.to_nat (stop - seed)) (fun z => Z.leb stop z) (affine a b) Z.succ seed h oq with
      | Some (h', q') => put h' qs dst q' RUnit
      | None => None
      end
  | CUnfoldRight dst into seed stop a b =>
      let oq := if into then nth_error qs dst else None in
      if into && negb (match oq with Some _ => true | None => false end) then None else
      match lq_unfold_right (Z.to_nat (stop - seed)) (fun z => Z.leb stop z) (affine a b) Z.succ seed h oq with
      | Some (h', q') => put h' qs dst q' RUnit
      | None => None
      end
  | CWf i =>
      match nth_error qs i with Some q => Some (s, RBool (lq_wf_b h q)) | None => None end
  end.

(** run a script; the results of the commands in order.  Stops with [None] at the first raise. *)
Fixpoint lqs_run_all (cs : list lq_cmd) (s : lqs) : option (lqs * list lq_res) :=
  match cs with
  | [] => Some (s, [])
  | c :: cs' =>
      match lqs_run c s with
      | None => None
      | Some (s1, r) =>
          match lqs_run_all cs' s1 with
          | Some (s2, rs) => Some (s2, r :: rs)
          | None => None
          end
      end
  end.
