(** C18 — SRFI 146 mappings (coq/C18/RBTree.v): the invariant theorems (RBInvProofs.v) and the content theorems (RBContent.v)
    put together: on a VALID mapping ([mapping_ok]: red-black invariant + search-tree order) every modelled procedure of
    mapping.scm returns (never raises "tree does not match any pattern"), returns a valid mapping again, and the association
    list it denotes is what the abstract finite-map oracle of SpecCont.v computes. *)
From Coq Require Import ZArith List Bool Sorted.
From ChibiV Require Import C18.RBDefs C18.RBTree C18.RBInv C18.SpecCont C18.RBContent C18.RBInvProofs.
Import ListNotations.
Local Open Scope Z_scope.

Definition mapping_ok (m : rbt) : Prop := rb_inv m /\ keys_sorted m.

Lemma mapping_ok_empty : mapping_ok make_tree /\ elements make_tree = [].
Proof. split; [split; [exact make_tree_rb_inv | constructor] | reflexivity]. Qed.

(* combine "returns a valid tree" with "if it returns, the listing is the oracle's and the order is kept" *)
Lemma combine_ok : forall (o : option rbt) (spec : list (Z * Z)),
  (exists m', o = Some m' /\ rb_inv m') ->
  (forall m', o = Some m' -> elements m' = spec /\ keys_sorted m') ->
  exists m', o = Some m' /\ mapping_ok m' /\ elements m' = spec.
Proof.
  intros o spec (m' & Ho & Hi) Hc. exists m'. destruct (Hc m' Ho) as [He Hs].
  split; [exact Ho | split; [split; assumption | exact He]].
Qed.

Theorem mapping_updates_total_correct : forall m, mapping_ok m ->
  (forall k v, exists m', mapping_set m k v = Some m' /\ mapping_ok m' /\ elements m' = map_set k v (elements m)) /\
  (forall k, exists m', mapping_delete m k = Some m' /\ mapping_ok m' /\ elements m' = map_delete k (elements m)) /\
  (forall k v, exists m', mapping_adjoin m k v = Some m' /\ mapping_ok m' /\ elements m' = map_adjoin k v (elements m)) /\
  (forall k v, exists m', mapping_replace m k v = Some m' /\ mapping_ok m' /\ elements m' = map_replace k v (elements m)) /\
  (forall k d, exists m', mapping_update m k (fun y => y + 1) d = Some m' /\ mapping_ok m' /\ elements m' = map_bump k d (elements m)) /\
  (forall ks, exists m', mapping_delete_all m ks = Some m' /\ mapping_ok m' /\
              elements m' = fold_left (fun a k => map_delete k a) ks (elements m)).
Proof.
  intros m [Hi Hs]. repeat split; intros.
  - apply combine_ok; [apply mapping_set_keeps_rb_invariant; exact Hi | intros m' H; exact (mapping_set_refines m k v m' Hs H)].
  - apply combine_ok; [apply mapping_delete_keeps_rb_invariant; exact Hi | intros m' H; exact (mapping_delete_refines m k m' Hs H)].
  - apply combine_ok; [apply mapping_adjoin_keeps_rb_invariant; exact Hi | intros m' H; exact (mapping_adjoin_refines m k v m' Hs H)].
  - apply combine_ok; [apply mapping_replace_keeps_rb_invariant; exact Hi | intros m' H; exact (mapping_replace_refines m k v m' Hs H)].
  - apply combine_ok; [apply mapping_update_keeps_rb_invariant; exact Hi | intros m' H; exact (mapping_bump_refines m k d m' Hs H)].
  - apply combine_ok; [apply mapping_delete_all_keeps_rb_invariant; exact Hi | intros m' H; exact (mapping_delete_all_refines ks m m' Hs H)].
Qed.

Theorem mapping_set_operations_total_correct : forall m1 m2, mapping_ok m1 -> mapping_ok m2 ->
  (exists m', mapping_union m1 m2 = Some m' /\ mapping_ok m' /\ elements m' = map_union (elements m1) (elements m2)) /\
  (exists m', mapping_intersection m1 m2 = Some m' /\ mapping_ok m' /\ elements m' = map_inter (elements m1) (elements m2)) /\
  (exists m', mapping_difference m1 m2 = Some m' /\ mapping_ok m' /\ elements m' = map_diff (elements m1) (elements m2)) /\
  (exists m', mapping_xor m1 m2 = Some m' /\ mapping_ok m' /\ elements m' = map_xor (elements m1) (elements m2)).
Proof.
  intros m1 m2 [Hi1 Hs1] [Hi2 Hs2].
  pose proof (rb_inv_invc m1 Hi1) as Hc1. pose proof (rb_inv_invc m2 Hi2) as Hc2.
  repeat split.
  - apply combine_ok; [apply mapping_union_keeps_rb_invariant; assumption | intros m' H; exact (mapping_union_refines m1 m2 m' Hc2 Hs1 H)].
  - apply combine_ok; [apply mapping_intersection_keeps_rb_invariant; assumption
                      | intros m' H; exact (mapping_intersection_refines m1 m2 m' Hc1 Hs1 Hc2 Hs2 H)].
  - apply combine_ok; [apply mapping_difference_keeps_rb_invariant; assumption | intros m' H; exact (mapping_difference_refines m1 m2 m' Hc2 Hs1 H)].
  - apply combine_ok; [apply mapping_xor_keeps_rb_invariant; assumption | intros m' H; exact (mapping_xor_refines m1 m2 m' Hc2 Hs1 Hs2 H)].
Qed.

Theorem mapping_filter_total_correct : forall (q : Z -> Z -> bool) m, mapping_ok m ->
  exists m', mapping_filter (fun k v => Some (q k v)) m = Some m' /\ mapping_ok m' /\
             elements m' = filter (fun kv => q (fst kv) (snd kv)) (elements m).
Proof.
  intros q m [Hi Hs]. apply combine_ok.
  - apply mapping_filter_keeps_rb_invariant; [intros k v; discriminate | exact Hi].
  - intros m' H. exact (mapping_filter_refines (fun k v => Some (q k v)) q m m' (rb_inv_invc m Hi) Hs (fun k v _ => eq_refl) H).
Qed.

(** the observers: mapping-ref, mapping-contains?, mapping->alist (in increasing key order), mapping-keys, mapping-size,
    mapping-empty? answer what the association list answers *)
Theorem mapping_observers_refine_map : forall m, mapping_ok m ->
  (forall k, mapping_ref m k = Some (map_ref k (elements m))) /\
  (forall k, mapping_contains m k = Some (map_has k (elements m))) /\
  mapping_to_alist m = Some (elements m) /\ StronglySorted Z.lt (map fst (elements m)) /\
  mapping_keys m = Some (map fst (elements m)) /\
  mapping_size m = Some (Z.of_nat (length (elements m))) /\
  mapping_empty m = Some (match elements m with [] => true | _ => false end).
Proof.
  intros m [Hi Hs]. pose proof (rb_inv_invc m Hi) as Hc.
  split; [|split; [|split; [|split; [|split; [|split]]]]].
  - intros k. destruct (RBContent.mapping_ref_total m k Hc) as [r Hr]. rewrite Hr. f_equal. exact (mapping_ref_refines m k r Hs Hr).
  - intros k. destruct (mapping_contains_total m k Hc) as [r Hr]. rewrite Hr. f_equal. exact (mapping_contains_refines m k r Hs Hr).
  - exact (mapping_to_alist_is_elements m Hc).
  - exact Hs.
  - exact (mapping_keys_sorted_listing m Hc).
  - exact (mapping_size_is_length m Hc).
  - exact (mapping_empty_refines m Hc).
Qed.

Example mapping_ok_example :
  exists m, mapping_set make_tree 5 1 = Some m /\ mapping_ok m /\ elements m = [(5, 1)].
Proof.
  destruct (mapping_updates_total_correct make_tree (proj1 mapping_ok_empty)) as [Hset _].
  destruct (Hset 5 1) as (m & H1 & H2 & H3). exists m. split; [exact H1 | split; [exact H2 | exact H3]].
Qed.
