(** C18 proofs about the sort model: both C merge sorts, sexp_sort_x, merge!, vector-merge. *)
From ChibiV Require Import C18.Spec C18.Model.

(* ------------------------------------------------------------------ generic list facts *)
Lemma filter_nil_Forall : forall (A : Type) (P : A -> bool) l,
  Forall (fun y => P y = false) l -> filter P l = [].
Proof.
  intros A P l H. induction H as [|y l Hy Hl IH]; [reflexivity|].
  cbn [filter]. rewrite Hy. exact IH.
Qed.

Lemma filter_rev' : forall (A : Type) (P : A -> bool) l, filter P (rev l) = rev (filter P l).
Proof.
  intros A P l. induction l as [|a l IH]; [reflexivity|].
  cbn [rev filter]. rewrite filter_app, IH. cbn [filter].
  destruct (P a); cbn [rev]; [reflexivity | apply app_nil_r].
Qed.

Lemma SSorted_app : forall (A : Type) (R : A -> A -> Prop) l1 l2,
  StronglySorted R l1 -> StronglySorted R l2 ->
  (forall x y, In x l1 -> In y l2 -> R x y) -> StronglySorted R (l1 ++ l2).
Proof.
  intros A R l1 l2 H1 H2 H12. induction H1 as [|a l1 Hs IH Hf]; [exact H2|].
  cbn [app]. constructor.
  - apply IH. intros x y Hx Hy. apply H12; [right; exact Hx | exact Hy].
  - apply Forall_app. split; [exact Hf|].
    apply Forall_forall. intros y Hy. apply H12; [left; reflexivity | exact Hy].
Qed.

Lemma SSorted_rev : forall (A : Type) (R : A -> A -> Prop) l,
  StronglySorted R l -> StronglySorted (fun a b => R b a) (rev l).
Proof.
  intros A R l H. induction H as [|a l Hs IH Hf]; [constructor|].
  cbn [rev]. apply SSorted_app; [exact IH | repeat constructor |].
  intros x y Hx Hy. destruct Hy as [<-|[]].
  rewrite Forall_forall in Hf. apply Hf. apply in_rev. exact Hx.
Qed.

Lemma perm3_213 : forall (A : Type) (a b c : A), Permutation [a;b;c] [b;a;c].
Proof. intros. apply perm_swap. Qed.
Lemma perm3_132 : forall (A : Type) (a b c : A), Permutation [a;b;c] [a;c;b].
Proof. intros. apply perm_skip, perm_swap. Qed.
Lemma perm3_231 : forall (A : Type) (a b c : A), Permutation [a;b;c] [b;c;a].
Proof. intros. eapply perm_trans; [apply perm3_213 | apply perm3_132]. Qed.
Lemma perm3_312 : forall (A : Type) (a b c : A), Permutation [a;b;c] [c;a;b].
Proof. intros. eapply perm_trans; [apply perm3_132 | apply perm3_213]. Qed.
Lemma perm3_321 : forall (A : Type) (a b c : A), Permutation [a;b;c] [c;b;a].
Proof. intros. eapply perm_trans; [apply perm3_312 | apply perm3_132]. Qed.

(* ------------------------------------------------------------------ the order *)
Section Order.
  Variable A : Type.
  Variable lt : A -> A -> bool.
  Hypothesis SWO : strict_weak_order lt.

  Lemma lt_asym : forall x y, lt x y = true -> lt y x = false.
  Proof. exact (proj1 SWO). Qed.
  Lemma lt_negtrans : forall x y z, lt x y = false -> lt y z = false -> lt x z = false.
  Proof. exact (proj2 SWO). Qed.
  Lemma lt_irrefl : forall x, lt x x = false.
  Proof. intro x. destruct (lt x x) eqn:E; [|reflexivity]. rewrite (lt_asym _ _ E) in E. discriminate. Qed.

  Lemma le_trans : forall a b c, le lt a b -> le lt b c -> le lt a c.
  Proof. unfold le. intros a b c Hab Hbc. exact (lt_negtrans _ _ _ Hbc Hab). Qed.

  Lemma equivb_refl : forall x, equivb lt x x = true.
  Proof. intro x. unfold equivb. rewrite lt_irrefl. reflexivity. Qed.

  Lemma equivb_false_le : forall a p, equivb lt a p = false -> lt a p = false -> lt p a = true.
  Proof. unfold equivb. intros a p H1 H2. rewrite H2 in H1. destruct (lt p a); [reflexivity | discriminate]. Qed.

  (** two elements tied with the same x are never strictly ordered, even through a third
      element y that is not below a *)
  Lemma tie_block : forall x a b y,
    lt b a = true -> lt y a = false -> equivb lt x b = true -> equivb lt x y = true -> False.
  Proof.
    unfold equivb. intros x a b y Hba Hya Hb Hy.
    apply andb_prop in Hb. destruct Hb as [Hxb Hbx].
    apply andb_prop in Hy. destruct Hy as [Hxy Hyx].
    apply negb_true_iff in Hxb, Hbx, Hxy, Hyx.
    pose proof (lt_negtrans _ _ _ Hbx Hxy) as Hby.
    pose proof (lt_negtrans _ _ _ Hby Hya) as H. rewrite H in Hba. discriminate.
  Qed.

  Lemma tie_conflict : forall x u w,
    lt u w = true -> equivb lt x u = true -> equivb lt x w = true -> False.
  Proof. intros x u w Huw Hu Hw. exact (tie_block x w u w Huw (lt_irrefl w) Hu Hw). Qed.

  (* ---------------------------------------------------------------- merge_runs *)
  Lemma merge_runs_nil_l : forall r2, merge_runs lt [] r2 = r2.
  Proof. intros [|b r2]; reflexivity. Qed.
  Lemma merge_runs_nil_r : forall r1, merge_runs lt r1 [] = r1.
  Proof. intros [|a r1]; reflexivity. Qed.
  Lemma merge_runs_cons : forall a r1 b r2,
    merge_runs lt (a :: r1) (b :: r2) =
    if lt b a then b :: merge_runs lt (a :: r1) r2 else a :: merge_runs lt r1 (b :: r2).
  Proof. reflexivity. Qed.

  Lemma merge_runs_perm : forall r1 r2, Permutation (r1 ++ r2) (merge_runs lt r1 r2).
  Proof.
    induction r1 as [|a r1 IH1]; [intro r2; rewrite merge_runs_nil_l; apply Permutation_refl|].
    induction r2 as [|b r2 IH2].
    - rewrite merge_runs_nil_r, app_nil_r. apply Permutation_refl.
    - rewrite merge_runs_cons. destruct (lt b a).
      + apply Permutation_sym. eapply perm_trans; [|apply Permutation_middle].
        apply perm_skip. apply Permutation_sym. exact IH2.
      + cbn [app]. apply perm_skip. apply IH1.
  Qed.

  Lemma merge_runs_sorted : forall r1 r2,
    StronglySorted (le lt) r1 -> StronglySorted (le lt) r2 -> StronglySorted (le lt) (merge_runs lt r1 r2).
  Proof.
    induction r1 as [|a r1 IH1]; [intros r2 _ H2; rewrite merge_runs_nil_l; exact H2|].
    induction r2 as [|b r2 IH2]; intros H1 H2.
    - rewrite merge_runs_nil_r. exact H1.
    - rewrite merge_runs_cons.
      pose proof (StronglySorted_inv H1) as [H1s H1f].
      pose proof (StronglySorted_inv H2) as [H2s H2f].
      destruct (lt b a) eqn:E.
      + constructor; [apply IH2; assumption|].
        eapply Permutation_Forall; [apply merge_runs_perm|].
        assert (Hba : le lt b a) by (apply lt_asym; exact E).
        apply Forall_app. split; [|exact H2f].
        constructor; [exact Hba|].
        eapply Forall_impl; [|exact H1f]. intros y Hy. exact (le_trans _ _ _ Hba Hy).
      + constructor; [apply IH1; assumption|].
        eapply Permutation_Forall; [apply merge_runs_perm|].
        apply Forall_app. split; [exact H1f|].
        constructor; [exact E|].
        eapply Forall_impl; [|exact H2f]. intros y Hy. exact (le_trans _ _ _ E Hy).
  Qed.

  (** merge_stable: on ties the element of the left run comes first *)
  Lemma merge_runs_stable : forall r1 r2, StronglySorted (le lt) r1 ->
    forall x, filter (equivb lt x) (merge_runs lt r1 r2) = filter (equivb lt x) r1 ++ filter (equivb lt x) r2.
  Proof.
    induction r1 as [|a r1 IH1]; [intros; rewrite merge_runs_nil_l; reflexivity|].
    induction r2 as [|b r2 IH2]; intros H1 x.
    - rewrite merge_runs_nil_r. cbn [filter]. rewrite app_nil_r. reflexivity.
    - rewrite merge_runs_cons.
      pose proof (StronglySorted_inv H1) as [H1s H1f].
      destruct (lt b a) eqn:E.
      + assert (St1 : forall l, filter (equivb lt x) (b :: l) =
                  if equivb lt x b then b :: filter (equivb lt x) l else filter (equivb lt x) l) by reflexivity.
        rewrite (St1 (merge_runs lt (a :: r1) r2)), (IH2 H1 x), (St1 r2).
        destruct (equivb lt x b) eqn:Pb; [|reflexivity].
        assert (Hnil : filter (equivb lt x) (a :: r1) = []).
        { apply filter_nil_Forall. constructor.
          - destruct (equivb lt x a) eqn:Pa; [|reflexivity].
            exfalso. exact (tie_conflict x b a E Pb Pa).
          - eapply Forall_impl; [|exact H1f]. intros y Hy.
            destruct (equivb lt x y) eqn:Py; [|reflexivity].
            exfalso. exact (tie_block x a b y E Hy Pb Py). }
        rewrite Hnil. reflexivity.
      + cbn [filter]. rewrite (IH1 (b :: r2) H1s x). cbn [filter].
        destruct (equivb lt x a); reflexivity.
  Qed.

  Theorem merge_runs_is_stable_merge : forall l1 l2,
    StronglySorted (le lt) l1 -> StronglySorted (le lt) l2 -> is_stable_merge lt l1 l2 (merge_runs lt l1 l2).
  Proof.
    intros l1 l2 H1 H2. split; [apply merge_runs_perm|]. split; [apply merge_runs_sorted; assumption|].
    intro x. rewrite merge_runs_stable by exact H1. symmetry. apply filter_app.
  Qed.

  (* ---------------------------------------------------------------- the 2- and 3-element cases *)
  Ltac le_solve :=
    unfold le;
    first [ assumption
          | apply lt_asym; assumption
          | eapply lt_negtrans; first [eassumption | apply lt_asym; eassumption] ].

  Lemma sort2_stable_sort : forall a b, is_stable_sort lt [a; b] (sort2 lt a b).
  Proof.
    intros a b. unfold sort2. destruct (lt b a) eqn:E; split; [apply perm_swap | | apply Permutation_refl | ].
    - split; [repeat constructor; le_solve|].
      intro x. cbn [filter].
      destruct (equivb lt x a) eqn:Pa; destruct (equivb lt x b) eqn:Pb; try reflexivity.
      exfalso. exact (tie_conflict x b a E Pb Pa).
    - split; [repeat constructor; le_solve | intro x; reflexivity].
  Qed.

  Lemma sort3_stable_sort : forall a b c, is_stable_sort lt [a; b; c] (sort3 lt a b c).
  Proof.
    intros a b c. unfold sort3.
    destruct (lt c b) eqn:E1.
    - destruct (lt c a) eqn:E2.
      + destruct (lt b a) eqn:E3.
        * split; [apply perm3_321|]. split; [repeat constructor; le_solve|].
          intro x. cbn [filter].
          destruct (equivb lt x a) eqn:Pa; destruct (equivb lt x b) eqn:Pb; destruct (equivb lt x c) eqn:Pc;
            try reflexivity; exfalso;
            first [exact (tie_conflict x c b E1 Pc Pb) | exact (tie_conflict x c a E2 Pc Pa) | exact (tie_conflict x b a E3 Pb Pa)].
        * split; [apply perm3_312|]. split; [repeat constructor; le_solve|].
          intro x. cbn [filter].
          destruct (equivb lt x a) eqn:Pa; destruct (equivb lt x b) eqn:Pb; destruct (equivb lt x c) eqn:Pc;
            try reflexivity; exfalso;
            first [exact (tie_conflict x c b E1 Pc Pb) | exact (tie_conflict x c a E2 Pc Pa)].
      + split; [apply perm3_132|]. split.
        * assert (Hcb : lt b c = false) by (apply lt_asym; exact E1).
          assert (Hab : lt b a = false) by exact (lt_negtrans _ _ _ Hcb E2).
          repeat constructor; le_solve.
        * intro x. cbn [filter].
          destruct (equivb lt x a) eqn:Pa; destruct (equivb lt x b) eqn:Pb; destruct (equivb lt x c) eqn:Pc;
            try reflexivity; exfalso; exact (tie_conflict x c b E1 Pc Pb).
    - destruct (lt b a) eqn:E2.
      + destruct (lt c a) eqn:E3.
        * split; [apply perm3_231|]. split; [repeat constructor; le_solve|].
          intro x. cbn [filter].
          destruct (equivb lt x a) eqn:Pa; destruct (equivb lt x b) eqn:Pb; destruct (equivb lt x c) eqn:Pc;
            try reflexivity; exfalso;
            first [exact (tie_conflict x b a E2 Pb Pa) | exact (tie_conflict x c a E3 Pc Pa)].
        * split; [apply perm3_213|]. split; [repeat constructor; le_solve|].
          intro x. cbn [filter].
          destruct (equivb lt x a) eqn:Pa; destruct (equivb lt x b) eqn:Pb; destruct (equivb lt x c) eqn:Pc;
            try reflexivity; exfalso; exact (tie_conflict x b a E2 Pb Pa).
      + split; [apply Permutation_refl|]. split.
        * assert (Hca : lt c a = false) by exact (lt_negtrans _ _ _ E1 E2).
          repeat constructor; le_solve.
        * intro x. reflexivity.
  Qed.

  (* ---------------------------------------------------------------- sexp_merge_sort_less *)
  Lemma msort_less_default : forall f a b c d v',
    msort_less lt (S f) (a :: b :: c :: d :: v') =
    let v := a :: b :: c :: d :: v' in
    let n1 := S ((length v - 1) / 2) in
    match msort_less lt f (firstn n1 v), msort_less lt f (skipn n1 v) with
    | Some (r1, _), Some (r2, _) => let m := merge_runs lt r1 r2 in Some (m, map Some m)
    | _, _ => None
    end.
  Proof. reflexivity. Qed.

  Lemma split_point : forall n, 4 <= n -> S ((n - 1) / 2) <= n - 1 /\ 1 <= S ((n - 1) / 2).
  Proof.
    intros n Hn. split; [|lia].
    pose proof (Nat.div_lt_upper_bound (n - 1) 2 (n - 2)) as H.
    assert ((n - 1) / 2 < n - 2) by (apply H; lia). lia.
  Qed.

  Lemma msort_less_correct : forall fuel v, length v <= fuel ->
    exists r s, msort_less lt fuel v = Some (r, s) /\ is_stable_sort lt v r /\
                (length v >= 4 -> s = map Some r).
  Proof.
    induction fuel as [|f IH]; intros v Hlen.
    - destruct v; [|cbn [length] in Hlen; lia].
      exists [], []. split; [reflexivity|]. split; [|cbn [length]; lia].
      split; [constructor|]. split; [constructor | intro x; reflexivity].
    - destruct v as [|a [|b [|c [|d v']]]].
      + exists [], []. split; [reflexivity|]. split; [|cbn [length]; lia].
        split; [constructor|]. split; [constructor | intro x; reflexivity].
      + exists [a], [Some a]. split; [reflexivity|]. split; [|cbn [length]; lia].
        split; [apply Permutation_refl|]. split; [repeat constructor | intro x; reflexivity].
      + exists (sort2 lt a b), [None; None]. split; [reflexivity|]. split; [apply sort2_stable_sort | cbn [length]; lia].
      + exists (sort3 lt a b c), [None; None; None]. split; [reflexivity|]. split; [apply sort3_stable_sort | cbn [length]; lia].
      + rewrite msort_less_default. cbv zeta.
        set (v := a :: b :: c :: d :: v') in *.
        assert (Hn : 4 <= length v) by (subst v; cbn [length]; lia).
        set (n1 := S ((length v - 1) / 2)).
        pose proof (split_point (length v) Hn) as [Hn1 Hn1'].
        fold n1 in Hn1, Hn1'.
        destruct (IH (firstn n1 v)) as (r1 & s1 & E1 & (P1 & S1 & T1) & _).
        { rewrite firstn_length. lia. }
        destruct (IH (skipn n1 v)) as (r2 & s2 & E2 & (P2 & S2 & T2) & _).
        { rewrite skipn_length. lia. }
        rewrite E1, E2.
        exists (merge_runs lt r1 r2), (map Some (merge_runs lt r1 r2)).
        split; [reflexivity|]. split; [|intros _; reflexivity].
        split; [|split].
        * eapply perm_trans; [|apply merge_runs_perm].
          rewrite <- (firstn_skipn n1 v) at 1. apply Permutation_app; assumption.
        * apply merge_runs_sorted; assumption.
        * intro x. rewrite merge_runs_stable by exact S1.
          rewrite (T1 x), (T2 x), <- filter_app, firstn_skipn. reflexivity.
  Qed.
End Order.
