(** C18 proofs, part 2: the reference sort, uniqueness of the stable sort, sexp_sort_x (both
    branches), merge! and vector-merge, and the refutations for the pinned (unrepaired) code. *)
From ChibiV Require Import C18.Spec C18.Model C18.Proofs.

Section Order2.
  Variable A : Type.
  Variable lt : A -> A -> bool.
  Hypothesis SWO : strict_weak_order lt.

  (* ---------------------------------------------------------------- reference insertion sort *)
  Lemma insert_perm : forall x l, Permutation (x :: l) (insert lt x l).
  Proof.
    intros x l. induction l as [|y l IH]; [apply Permutation_refl|].
    cbn [insert]. destruct (lt y x); [|apply Permutation_refl].
    eapply perm_trans; [apply perm_swap | apply perm_skip, IH].
  Qed.

  Lemma insert_sorted : forall x l, StronglySorted (le lt) l -> StronglySorted (le lt) (insert lt x l).
  Proof.
    intros x l H. induction H as [|y l Hs IH Hf]; [repeat constructor|].
    cbn [insert]. destruct (lt y x) eqn:E.
    - constructor; [exact IH|].
      eapply Permutation_Forall; [apply insert_perm|].
      constructor; [apply (lt_asym A lt SWO); exact E | exact Hf].
    - constructor; [constructor; assumption|].
      constructor; [exact E|].
      eapply Forall_impl; [|exact Hf]. intros z Hz. exact (le_trans A lt SWO _ _ _ E Hz).
  Qed.

  Lemma insert_stable : forall x l z,
    filter (equivb lt z) (insert lt x l) = filter (equivb lt z) (x :: l).
  Proof.
    intros x l z. induction l as [|y l IH]; [reflexivity|].
    cbn [insert]. destruct (lt y x) eqn:E; [|reflexivity].
    assert (St : forall u l, filter (equivb lt z) (u :: l) =
              if equivb lt z u then u :: filter (equivb lt z) l else filter (equivb lt z) l) by reflexivity.
    rewrite (St y (insert lt x l)), IH, (St x (y :: l)), (St x l), (St y l).
    destruct (equivb lt z y) eqn:Py; destruct (equivb lt z x) eqn:Px; try reflexivity.
    exfalso. exact (tie_conflict A lt SWO z y x E Py Px).
  Qed.

  Theorem ssort_is_stable_sort : forall l, is_stable_sort lt l (ssort lt l).
  Proof.
    induction l as [|x l (P & S & T)].
    - split; [constructor|]. split; [constructor | intro z; reflexivity].
    - cbn [ssort fold_right]. fold (ssort lt l). split; [|split].
      + eapply perm_trans; [apply perm_skip, P | apply insert_perm].
      + apply insert_sorted, S.
      + intro z. rewrite insert_stable. cbn [filter]. rewrite (T z). reflexivity.
  Qed.

  (* ---------------------------------------------------------------- the stable sort is unique *)
  Lemma stable_sorted_unique : forall l l',
    StronglySorted (le lt) l -> StronglySorted (le lt) l' ->
    (forall x, filter (equivb lt x) l = filter (equivb lt x) l') -> l = l'.
  Proof.
    induction l as [|a t IH]; intros l' Hs Hs' Hf.
    - destruct l' as [|p t']; [reflexivity|].
      specialize (Hf p). cbn [filter] in Hf. rewrite (equivb_refl A lt SWO) in Hf. discriminate.
    - destruct l' as [|p t'].
      { specialize (Hf a). cbn [filter] in Hf. rewrite (equivb_refl A lt SWO) in Hf. discriminate. }
      pose proof (StronglySorted_inv Hs) as [Hst Hft].
      pose proof (StronglySorted_inv Hs') as [Hst' Hft'].
      destruct (equivb lt a p) eqn:Eap.
      + pose proof (Hf a) as Ha. cbn [filter] in Ha. rewrite (equivb_refl A lt SWO), Eap in Ha.
        injection Ha as Hap _. subst p. f_equal.
        apply IH; [assumption | assumption|].
        intro x. specialize (Hf x). cbn [filter] in Hf.
        destruct (equivb lt x a); [injection Hf as Hf|]; exact Hf.
      + exfalso.
        (* a occurs in t' *)
        assert (Ha : In a (p :: t')).
        { assert (H : In a (filter (equivb lt a) (p :: t'))).
          { rewrite <- (Hf a). cbn [filter]. rewrite (equivb_refl A lt SWO). left. reflexivity. }
          apply filter_In in H. exact (proj1 H). }
        destruct Ha as [Hpa | Hat'].
        { subst p. rewrite (equivb_refl A lt SWO) in Eap. discriminate. }
        rewrite Forall_forall in Hft'. pose proof (Hft' a Hat') as Hpa. unfold le in Hpa.
        pose proof (equivb_false_le A lt a p Eap Hpa) as Hlt.
        (* p occurs in t *)
        assert (Hp : In p (a :: t)).
        { assert (H : In p (filter (equivb lt p) (a :: t))).
          { rewrite (Hf p). cbn [filter]. rewrite (equivb_refl A lt SWO). left. reflexivity. }
          apply filter_In in H. exact (proj1 H). }
        destruct Hp as [Hap | Hpt].
        { subst p. rewrite (equivb_refl A lt SWO) in Eap. discriminate. }
        rewrite Forall_forall in Hft. pose proof (Hft p Hpt) as Hap. unfold le in Hap.
        rewrite Hap in Hlt. discriminate.
  Qed.

  Theorem stable_sort_unique : forall inp o1 o2,
    is_stable_sort lt inp o1 -> is_stable_sort lt inp o2 -> o1 = o2.
  Proof.
    intros inp o1 o2 (_ & S1 & T1) (_ & S2 & T2).
    apply stable_sorted_unique; [assumption | assumption|].
    intro x. rewrite (T1 x), (T2 x). reflexivity.
  Qed.

  (* ---------------------------------------------------------------- sexp_sort_x, less branch *)
  Theorem msort_less_sorted_perm_stable : forall v,
    exists r s, msort_less lt (length v) v = Some (r, s) /\ is_stable_sort lt v r.
  Proof.
    intro v. destruct (msort_less_correct A lt SWO (length v) v (le_n _)) as (r & s & E & H & _).
    exists r, s. split; assumption.
  Qed.

  Theorem sort_x_less_is_ssort : forall v, sort_x_less lt v = Some (ssort lt v).
  Proof.
    intro v. unfold sort_x_less.
    destruct (msort_less_sorted_perm_stable v) as (r & s & E & H).
    rewrite E. rewrite (stable_sort_unique v r (ssort lt v) H (ssort_is_stable_sort v)).
    destruct v; reflexivity.
  Qed.

  (** on four or more elements the scratch array also holds the result, which is why the pinned
      code's [res = scratch] went unnoticed except on vectors of 2 or 3 elements *)
  Theorem sort_x_less_pinned_ok_from_4 : forall v, length v >= 4 ->
    sort_x_less_pinned_vector_result lt v = Some (map Some (ssort lt v)).
  Proof.
    intros v Hl. unfold sort_x_less_pinned_vector_result.
    destruct (msort_less_correct A lt SWO (length v) v (le_n _)) as (r & s & E & H & Hs).
    rewrite E, (Hs Hl). rewrite (stable_sort_unique v r (ssort lt v) H (ssort_is_stable_sort v)).
    destruct v; [cbn [length] in Hl; lia | reflexivity].
  Qed.

  (* ---------------------------------------------------------------- merge!, vector-merge *)
  Lemma merge95_lp_eq : forall fuel a r1 b r2 first,
    length r1 + length r2 < fuel ->
    merge95_lp lt fuel a r1 b r2 first =
    Some (if first then merge_runs lt (a :: r1) (b :: r2) else merge_runs lt (b :: r2) (a :: r1)).
  Proof.
    induction fuel as [|f IH]; intros a r1 b r2 first Hf; [lia|].
    cbn [merge95_lp]. destruct first.
    - rewrite merge_runs_cons. destruct (lt b a) eqn:E; cbn [negb].
      + destruct r2 as [|b' r2'].
        * rewrite merge_runs_nil_r. reflexivity.
        * rewrite IH by (cbn [length] in *; lia). reflexivity.
      + destruct r1 as [|a' r1'].
        * rewrite merge_runs_nil_l. reflexivity.
        * rewrite IH by (cbn [length] in *; lia). reflexivity.
    - rewrite merge_runs_cons. destruct (lt a b) eqn:E.
      + destruct r1 as [|a' r1'].
        * rewrite merge_runs_nil_r. reflexivity.
        * rewrite IH by (cbn [length] in *; lia). reflexivity.
      + destruct r2 as [|b' r2'].
        * rewrite merge_runs_nil_l. reflexivity.
        * rewrite IH by (cbn [length] in *; lia). cbn [negb]. reflexivity.
  Qed.

  Theorem merge95_is_stable_merge : forall l1 l2,
    StronglySorted (le lt) l1 -> StronglySorted (le lt) l2 ->
    exists r, merge95 lt l1 l2 = Some r /\ is_stable_merge lt l1 l2 r.
  Proof.
    intros l1 l2 H1 H2. exists (merge_runs lt l1 l2).
    split; [|apply (merge_runs_is_stable_merge A lt SWO); assumption].
    unfold merge95. destruct l1 as [|a r1]; [rewrite merge_runs_nil_l; reflexivity|].
    destruct l2 as [|b r2]; [reflexivity|].
    rewrite merge95_lp_eq by (cbn [length]; lia). reflexivity.
  Qed.

  Lemma vmerge132_eq : forall v1 v2, vmerge132 lt v1 v2 = merge_runs lt v1 v2.
  Proof. reflexivity. Qed.

  Theorem vmerge132_is_stable_merge : forall v1 v2,
    StronglySorted (le lt) v1 -> StronglySorted (le lt) v2 -> is_stable_merge lt v1 v2 (vmerge132 lt v1 v2).
  Proof. intros. rewrite vmerge132_eq. apply (merge_runs_is_stable_merge A lt SWO); assumption. Qed.
End Order2.

(* ------------------------------------------------------------------ sexp_sort_x, basic branch *)
Section Basic.
  Variable A : Type.
  Variable cmp : A -> A -> Z.
  Definition cmp_lt (a b : A) : bool := (cmp a b <? 0)%Z.
  Definition cmp_gt (a b : A) : bool := cmp_lt b a.

  Lemma merge_runs_cmp_eq : forall r1 r2, merge_runs_cmp cmp r1 r2 = merge_runs cmp_lt r1 r2.
  Proof.
    induction r1 as [|a r1 IH1]; [intros [|b r2]; reflexivity|].
    induction r2 as [|b r2 IH2]; [reflexivity|].
    assert (U : merge_runs_cmp cmp (a :: r1) (b :: r2) =
      if (cmp b a <? 0)%Z then b :: merge_runs_cmp cmp (a :: r1) r2 else a :: merge_runs_cmp cmp r1 (b :: r2)) by reflexivity.
    rewrite merge_runs_cons, U, IH2, IH1. reflexivity.
  Qed.

  Lemma msort_cmp_eq : forall fuel v,
    msort_cmp cmp fuel v = option_map fst (msort_less cmp_lt fuel v).
  Proof.
    induction fuel as [|f IH]; intros v.
    - destruct v as [|a [|b [|c [|d v']]]]; reflexivity.
    - destruct v as [|a [|b [|c [|d v']]]]; try reflexivity.
      rewrite msort_less_default. cbv zeta.
      assert (U : msort_cmp cmp (S f) (a :: b :: c :: d :: v') =
        (let v := a :: b :: c :: d :: v' in
         let n1 := S ((length v - 1) / 2) in
         match msort_cmp cmp f (firstn n1 v), msort_cmp cmp f (skipn n1 v) with
         | Some r1, Some r2 => Some (merge_runs_cmp cmp r1 r2)
         | _, _ => None
         end)) by reflexivity.
      rewrite U. cbv zeta. rewrite !IH.
      destruct (msort_less cmp_lt f (firstn _ _)) as [[r1 s1]|]; [|reflexivity].
      destruct (msort_less cmp_lt f (skipn _ _)) as [[r2 s2]|]; [|reflexivity].
      cbn [option_map fst]. rewrite merge_runs_cmp_eq. reflexivity.
  Qed.

  Hypothesis SWO : strict_weak_order cmp_lt.

  Lemma swo_flip : strict_weak_order cmp_gt.
  Proof.
    destruct SWO as [Ha Hn]. split; unfold cmp_gt.
    - intros x y H. apply Ha. exact H.
    - intros x y z H1 H2. exact (Hn _ _ _ H2 H1).
  Qed.

  Lemma stable_sort_rev : forall v r,
    is_stable_sort cmp_lt (rev v) r -> is_stable_sort cmp_gt v (rev r).
  Proof.
    intros v r (P & S & T). split; [|split].
    - eapply perm_trans; [apply Permutation_rev|].
      eapply perm_trans; [exact P | apply Permutation_rev].
    - apply (SSorted_rev A (le cmp_lt) r) in S.
      eapply StronglySorted_ind with (P := fun l => StronglySorted (le cmp_gt) l) in S;
        [exact S | constructor | ].
      intros a l _ IH Hf. constructor; [exact IH|]. exact Hf.
    - intro x.
      assert (E : forall y, equivb cmp_gt x y = equivb cmp_lt x y).
      { intro y. unfold equivb, cmp_gt. apply andb_comm. }
      rewrite (filter_ext _ _ E), (filter_ext _ _ E), filter_rev', (T x), filter_rev', rev_involutive.
      reflexivity.
  Qed.

  Theorem sort_x_basic_is_ssort : forall inverse v,
    sort_x_basic cmp inverse v = Some (ssort (if inverse then cmp_gt else cmp_lt) v).
  Proof.
    intros inverse v. unfold sort_x_basic. destruct inverse.
    - assert (H0 : option_map (@rev A) (msort_cmp cmp (length v) (rev v)) = Some (ssort cmp_gt v)).
      { rewrite <- (rev_length v). rewrite msort_cmp_eq.
        destruct (msort_less_sorted_perm_stable A cmp_lt SWO (rev v)) as (r & s & E & H).
        rewrite E. cbn [option_map fst].
        apply stable_sort_rev in H.
        rewrite (stable_sort_unique A cmp_gt swo_flip v (rev r) (ssort cmp_gt v) H
                   (ssort_is_stable_sort A cmp_gt swo_flip v)).
        reflexivity. }
      destruct v; [reflexivity | exact H0].
    - assert (H0 : msort_cmp cmp (length v) v = Some (ssort cmp_lt v)).
      { rewrite msort_cmp_eq.
        destruct (msort_less_sorted_perm_stable A cmp_lt SWO v) as (r & s & E & H).
        rewrite E. cbn [option_map fst].
        rewrite (stable_sort_unique A cmp_lt SWO v r (ssort cmp_lt v) H (ssort_is_stable_sort A cmp_lt SWO v)).
        reflexivity. }
      destruct v; [reflexivity | exact H0].
  Qed.
End Basic.

(* ------------------------------------------------------------------ non-vacuity and refutations *)
(** elements are (key, original index); the order looks at the key only *)
Definition klt (x y : nat * nat) : bool := fst x <? fst y.
Definition kcmp (x y : nat * nat) : Z := (Z.of_nat (fst x) - Z.of_nat (fst y))%Z.

Lemma klt_swo : strict_weak_order klt.
Proof.
  split; unfold klt.
  - intros x y H. apply Nat.ltb_lt in H. apply Nat.ltb_ge. lia.
  - intros x y z H1 H2. apply Nat.ltb_ge in H1, H2. apply Nat.ltb_ge. lia.
Qed.

Lemma kcmp_swo : strict_weak_order (cmp_lt _ kcmp).
Proof.
  split; unfold cmp_lt, kcmp.
  - intros x y H. apply Z.ltb_lt in H. apply Z.ltb_ge. lia.
  - intros x y z H1 H2. apply Z.ltb_ge in H1, H2. apply Z.ltb_ge. lia.
Qed.

Example sort_x_less_example :
  sort_x_less klt [(3,0); (1,1); (2,2); (1,3); (3,4); (0,5); (2,6)]
  = Some [(0,5); (1,1); (1,3); (2,2); (2,6); (3,0); (3,4)].
Proof. reflexivity. Qed.

Example sort_x_basic_inverse_example :
  sort_x_basic kcmp true [(1,0); (1,1); (2,2); (2,3); (0,4)] = Some [(2,2); (2,3); (1,0); (1,1); (0,4)].
Proof. reflexivity. Qed.

Example merge95_example :
  merge95 klt [(1,0); (1,1); (2,2)] [(1,3); (1,4); (2,5)] = Some [(1,0); (1,1); (1,3); (1,4); (2,2); (2,5)].
Proof. reflexivity. Qed.

(** F-C18-1: the value the pinned sexp_sort_x returned for a 3-element vector on the less branch is
    the untouched scratch vector, not the sorted elements *)
Theorem sort_x_less_pinned_vector_result_refuted :
  exists (lt : nat * nat -> nat * nat -> bool) v, strict_weak_order lt /\
    sort_x_less_pinned_vector_result lt v <> Some (map Some (ssort lt v)).
Proof.
  exists klt, [(3,0); (1,1); (2,2)]. split; [exact klt_swo|]. vm_compute. discriminate.
Qed.

(** the pinned (sort seq >): ascending sort then reverse is a sort, but not a stable one *)
Theorem sort_x_basic_pinned_inverse_refuted :
  exists v, sort_x_basic_pinned kcmp true v <> Some (ssort (cmp_gt _ kcmp) v).
Proof. exists [(1,0); (1,1)]. vm_compute. discriminate. Qed.

(** the pinned merge! takes the head of the second list on ties *)
Theorem merge95_pinned_refuted :
  exists l1 l2, StronglySorted (le klt) l1 /\ StronglySorted (le klt) l2 /\
    forall r, merge95_pinned klt l1 l2 = Some r -> ~ is_stable_merge klt l1 l2 r.
Proof.
  exists [(1,0)], [(1,1)]. split; [repeat constructor|]. split; [repeat constructor|].
  intros r Hr. vm_compute in Hr. injection Hr as <-. intros (_ & _ & T).
  specialize (T (1,0)). vm_compute in T. discriminate.
Qed.
