(** C18 — SRFI 146 red-black tree (lib/srfi/146/rbtree.scm): the data types shared by the hand-written model
    (coq/C18/RBTree.v) and the clause tables regenerated from the Scheme source (coq/Gen/C18_RBTables.v).

    rbtree.scm:25-45: a node is the vector (color left item right); an item is the vector (key value); a LEAF is a node whose item
    is #f, built only as (black-leaf) or (white-leaf) (its children are #f and are never inspected: every pattern that looks at
    children first requires (item tree)).  "white" is the double-black colour of the deletion algorithm (Germane & Might). *)
From Coq Require Import ZArith.

Inductive color : Type := Red | Black | White.
Definition item : Type := (Z * Z)%type.
Inductive rbt : Type :=
| Lf (c : color)                                  (* (node c #f #f #f) *)
| Nd (c : color) (l : rbt) (x : item) (r : rbt).  (* (node c l x r), x an item *)

Definition make_item (k v : Z) : item := (k, v).
Definition item_key (x : item) : Z := fst x.
Definition item_value (x : item) : Z := snd x.
