(** C18 (G) tie for the SRFI 146 red-black tree: the `tree-match` clause tables regenerated from lib/srfi/146/rbtree.scm on every
    run (coq/Gen/C18_RBTables.v, written by gen/c18_rbtree.py) ARE the hand-written tables of coq/C18/RBTree.v that the theorems
    of RBContent.v / RBInvProofs.v are about.  Every lemma is closed by conversion ([reflexivity]): the generated [match] and the
    model's [match] must elaborate to the same term.  A swapped pattern variable, a changed colour, a reordered, added or removed
    clause in blacken / redden / white->black / balance / rotate / min+delete or in the table of the `remove` continuation of
    tree-search makes one of them fail, i.e. re-opens the proofs. *)
From Coq Require Import ZArith.
From ChibiV Require Import C18.RBDefs C18.RBTree Gen.C18_RBTables.

Lemma blacken_tied : forall t, gen_blacken t = blacken t.
Proof. reflexivity. Qed.
Lemma redden_tied : forall t, gen_redden t = redden t.
Proof. reflexivity. Qed.
Lemma white_to_black_tied : forall t, gen_white_to_black t = white_to_black t.
Proof. reflexivity. Qed.
Lemma balance_tied : forall t, gen_balance t = balance t.
Proof. reflexivity. Qed.
Lemma rotate_tied : forall t, gen_rotate t = rotate t.
Proof. reflexivity. Qed.
Lemma min_delete_tied : forall t, gen_min_delete t = min_delete t.
Proof. reflexivity. Qed.
Lemma remove_at_tied : forall t c a b, gen_remove_at t c a b = remove_at t c a b.
Proof. reflexivity. Qed.

Theorem rb_tables_tied :
  (forall t, gen_blacken t = blacken t) /\ (forall t, gen_redden t = redden t) /\
  (forall t, gen_white_to_black t = white_to_black t) /\ (forall t, gen_balance t = balance t) /\
  (forall t, gen_rotate t = rotate t) /\ (forall t, gen_min_delete t = min_delete t) /\
  (forall t c a b, gen_remove_at t c a b = remove_at t c a b).
Proof.
  exact (conj blacken_tied (conj redden_tied (conj white_to_black_tied (conj balance_tied (conj rotate_tied
        (conj min_delete_tied remove_at_tied)))))).
Qed.
