(** C18: the instances of spec and model that are extracted and run against the implementation.
    An input sequence is given by the integer rank of each element's key under the ordering in
    use (equal rank = tied); elements are identified by their position.  Answers are positions. *)
From ChibiV Require Import C18.Spec C18.Model.
Local Open Scope Z_scope.

Definition tagged (keys : list Z) : list (Z * Z) := combine keys (map Z.of_nat (seq 0 (length keys))).
Definition tagged_from (start : nat) (keys : list Z) : list (Z * Z) :=
  combine keys (map Z.of_nat (seq start (length keys))).

Definition zlt (desc : bool) (x y : Z * Z) : bool := if desc then fst y <? fst x else fst x <? fst y.
Definition zcmp (x y : Z * Z) : Z := fst x - fst y.

(** SPEC answers *)
Definition spec_sort (desc : bool) (keys : list Z) : list Z := map snd (ssort (zlt desc) (tagged keys)).
Definition spec_merge (desc : bool) (k1 k2 : list Z) : list Z :=
  map snd (ssort (zlt desc) (tagged k1 ++ tagged_from (length k1) k2)).
Definition spec_sorted (desc : bool) (keys : list Z) : bool := sortedb (zlt desc) (tagged keys).
(** k-th smallest key (vector-select!, vector-find-median) *)
Definition spec_select (keys : list Z) (k : nat) : Z := nth k (map fst (ssort (zlt false) (tagged keys))) (-1).
(** delete-neighbor-dups with an equivalence on keys: the first of every run stays *)
Fixpoint dedup_from (prev : Z) (l : list (Z * Z)) : list (Z * Z) :=
  match l with
  | [] => []
  | x :: l' => if fst x =? prev then dedup_from prev l' else x :: dedup_from (fst x) l'
  end.
Definition spec_dedup (keys : list Z) : list Z :=
  match tagged keys with
  | [] => []
  | x :: l => map snd (x :: dedup_from (fst x) l)
  end.

(** MODEL answers ([None] = the model ran out of fuel; proved impossible) *)
Definition model_sort_less (desc : bool) (keys : list Z) : option (list Z) :=
  option_map (map snd) (sort_x_less (zlt desc) (tagged keys)).
Definition model_sort_basic (inverse : bool) (keys : list Z) : option (list Z) :=
  option_map (map snd) (sort_x_basic zcmp inverse (tagged keys)).
Definition model_merge95 (desc : bool) (k1 k2 : list Z) : option (list Z) :=
  option_map (map snd) (merge95 (zlt desc) (tagged k1) (tagged_from (length k1) k2)).
Definition model_vmerge132 (desc : bool) (k1 k2 : list Z) : list Z :=
  map snd (vmerge132 (zlt desc) (tagged k1) (tagged_from (length k1) k2)).
(** the scratch vector after the less branch (for the inner correspondence): -1 = SEXP_VOID *)
Definition model_scratch_less (desc : bool) (keys : list Z) : option (list Z) :=
  option_map (map (fun o => match o with Some x => snd x | None => -1 end))
             (sort_x_less_pinned_vector_result (zlt desc) (tagged keys)).
