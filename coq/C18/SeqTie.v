(** C18 (G) tie for SRFI 101 / SRFI 134: the arithmetic and balancing leaves regenerated from lib/srfi/101.scm
    (half, skew-succ, largest-skew-binary) and lib/srfi/134.scm (C, check) -- coq/Gen/C18_SeqLeaves.v, written by
    gen/c18_ralist.py on every run -- are equal to the hand-written model functions of coq/C18/RaList.v and
    coq/C18/Deque.v that the theorems of RaListProofs.v / DequeProofs.v are about.  An edit of one of these
    definitions in the Scheme source makes a lemma below fail, i.e. re-opens the proofs. *)
From Coq Require Import List Arith Bool Lia.
From ChibiV Require Import C18.RaList C18.Deque Gen.C18_SeqLeaves.
Import ListNotations.

Lemma half_tied : forall n, gen_half n = ra_half n.
Proof. intro n. unfold gen_half, ra_half. rewrite Nat.shiftr_div_pow2. reflexivity. Qed.

Lemma skew_succ_tied : forall t, gen_skew_succ t = ra_skew_succ t.
Proof. intro t. unfold gen_skew_succ, ra_skew_succ. rewrite Nat.shiftl_mul_pow2. f_equal. change (2 ^ 1) with 2. apply Nat.mul_comm. Qed.

Lemma largest_skew_binary_tied : forall fuel n, gen_largest_skew_binary fuel n = ra_largest_skew_binary fuel n.
Proof.
  induction fuel as [|fuel IH]; intro n; [reflexivity|].
  cbn [gen_largest_skew_binary ra_largest_skew_binary].
  rewrite half_tied, IH, (Nat.eqb_sym 1 n).
  destruct (n =? 1); [reflexivity|].
  destruct (ra_largest_skew_binary fuel (ra_half n)) as [t|]; [|reflexivity].
  rewrite skew_succ_tied. cbv zeta.
  destruct (n <? ra_skew_succ t); reflexivity.
Qed.

Lemma C_tied : gen_C = dq_C.
Proof. reflexivity. Qed.

Lemma check_tied : forall A lf (f : list A) lr r, gen_check lf f lr r = dq_check lf f lr r.
Proof. intros A lf f lr r. reflexivity. Qed.

Theorem seq_leaves_tied :
  (forall n, gen_half n = ra_half n) /\
  (forall t, gen_skew_succ t = ra_skew_succ t) /\
  (forall fuel n, gen_largest_skew_binary fuel n = ra_largest_skew_binary fuel n) /\
  gen_C = dq_C /\
  (forall A lf (f : list A) lr r, gen_check lf f lr r = dq_check lf f lr r).
Proof.
  split; [exact half_tied|]. split; [exact skew_succ_tied|]. split; [exact largest_skew_binary_tied|].
  split; [exact C_tied | exact check_tied].
Qed.
